/-
Helper lemmas for C10: abstraction function commutes with the store primitives, the store invariant,
one-step simulation Model/Store.lean → Model/StoreSpec.lean.
-/
import Pywbem.Model.StoreSpec

set_option linter.unusedSimpArgs false
set_option linter.unusedVariables false

namespace Proofs.Store
open Pywbem.Proto Pywbem.Model.Store Pywbem.Model.StoreSpec Pywbem.Generated.Store

/-! ### names -/

theorem toLower_of_not (d : Char) (h : ¬ (d.val ≥ 'A'.val ∧ d.val ≤ 'Z'.val)) : d.toLower = d := by
  unfold Char.toLower; simp only [h, ↓reduceDIte]

theorem toLower_idem (c : Char) : c.toLower.toLower = c.toLower := by
  by_cases h : c.val ≥ 'A'.val ∧ c.val ≤ 'Z'.val
  · have e : c.toLower.val = c.val + ('a'.val - 'A'.val) := by
      unfold Char.toLower; simp only [h, and_self, ↓reduceDIte]
    apply toLower_of_not
    rw [e]
    rcases h with ⟨ha, hz⟩
    have ha' := UInt32.le_iff_toNat_le.mp ha
    have hz' := UInt32.le_iff_toNat_le.mp hz
    intro hh
    have h2 := UInt32.le_iff_toNat_le.mp hh.2
    rw [UInt32.toNat_add] at h2
    have x1 : 'A'.val.toNat = 65 := rfl
    have x2 : 'Z'.val.toNat = 90 := rfl
    have x3 : ('a'.val - 'A'.val).toNat = 32 := rfl
    rw [x1] at ha'; rw [x2] at hz' h2; rw [x3] at h2
    omega
  · rw [toLower_of_not c h]; exact toLower_of_not c h

theorem lower_idem (s : Name) : lower (lower s) = lower s := by
  unfold lower
  rw [List.map_map]
  apply List.map_congr_left
  intro c _
  exact toLower_idem c

theorem nameEq_lower_left (a b : Name) : nameEq (lower a) b = nameEq a b := by
  simp [nameEq, lower_idem]

theorem nameEq_lower_right (a b : Name) : nameEq a (lower b) = nameEq a b := by
  simp [nameEq, lower_idem]

theorem nameEq_congr_right {a b : Name} (h : lower a = lower b) (x : Name) : nameEq x a = nameEq x b := by
  simp [nameEq, h]

theorem nameEq_congr_left {a b : Name} (h : lower a = lower b) (x : Name) : nameEq a x = nameEq b x := by
  simp [nameEq, h]

theorem nameEq_iff {a b : Name} : nameEq a b = true ↔ lower a = lower b := by
  simp [nameEq]

theorem findCls_congr (cs : List Cls) {a b : Name} (h : lower a = lower b) : findCls cs a = findCls cs b := by
  unfold findCls
  congr 1
  funext c
  exact nameEq_congr_right h _

theorem findProp_congr (ps : List PropV) {a b : Name} (h : lower a = lower b) : findProp ps a = findProp ps b := by
  unfold findProp
  congr 1
  funext c
  exact nameEq_congr_right h _

theorem findDecl_congr (c : Cls) {a b : Name} (h : lower a = lower b) : findDecl c a = findDecl c b := by
  unfold findDecl
  congr 1
  funext d
  exact nameEq_congr_right h _

theorem findCls_some {cs : List Cls} {n : Name} {c : Cls} (h : findCls cs n = some c) :
    c ∈ cs ∧ lower c.name = lower n := by
  unfold findCls at h
  exact ⟨List.mem_of_find?_eq_some h, by simpa [nameEq] using List.find?_some h⟩

theorem findDecl_some {c : Cls} {n : Name} {d : PropDecl} (h : findDecl c n = some d) :
    d ∈ c.props ∧ lower d.name = lower n := by
  unfold findDecl at h
  exact ⟨List.mem_of_find?_eq_some h, by simpa [nameEq] using List.find?_some h⟩

theorem findProp_some {ps : List PropV} {n : Name} {p : PropV} (h : findProp ps n = some p) :
    p ∈ ps ∧ lower p.name = lower n := by
  unfold findProp at h
  exact ⟨List.mem_of_find?_eq_some h, by simpa [nameEq] using List.find?_some h⟩

/-- looking a class up under its own name finds the same class as under the name it was found by -/
theorem findCls_self {cs : List Cls} {n : Name} {c : Cls} (h : findCls cs n = some c) :
    findCls cs c.name = some c := by
  rw [findCls_congr cs (findCls_some h).2]; exact h

/-! ### paths -/

theorem pathEq_iff {p q : Path} : pathEq p q = true ↔ normPath p = normPath q := by
  simp [pathEq]

theorem normPath_cls (p : Path) : (normPath p).cls = lower p.cls := rfl

theorem normPath_eq_cls {p q : Path} (h : normPath p = normPath q) : lower p.cls = lower q.cls := by
  have := congrArg Path.cls h; simpa [normPath] using this

theorem normPath_with_ns (p q : Path) (h : normPath p = normPath q) (n : Name) :
    normPath { p with host := none, ns := some n } = normPath { q with host := none, ns := some n } := by
  have h1 := congrArg Path.cls h
  have h2 := congrArg Path.keys h
  simp only [normPath] at h1 h2 ⊢
  simp [h1, h2]

theorem keyIn_eq (p : Path) (n : Name) : keyIn p n = normPath (reqPath n p) := rfl

/-! ### abstraction commutes with the primitives -/

def kvOf (s : Stored) : Path × Inst := (normPath s.key, s.inst)

theorem absNs_map (e : NsEntry) : (absNs e).map = e.insts.map kvOf := rfl

theorem sFindNs_abs (r : Repo) (ns : Name) : sFindNs (abs r) ns = (findNs r ns).map absNs := by
  unfold sFindNs abs findNs
  simp only [List.find?_map]
  congr 1

theorem sLookup_abs (l : List Stored) (p : Path) :
    sLookup (l.map kvOf) (normPath p) = (lookupInst l p).map (·.inst) := by
  unfold sLookup lookupInst
  simp only [List.find?_map, Option.map_map]
  congr 1

theorem lookupInst_some {l : List Stored} {p : Path} {s : Stored} (h : lookupInst l p = some s) :
    s ∈ l ∧ normPath s.key = normPath p := by
  unfold lookupInst at h
  have h2 := List.find?_some h
  exact ⟨List.mem_of_find?_eq_some h, pathEq_iff.mp h2⟩

theorem lookupInst_none {l : List Stored} {p : Path} (h : lookupInst l p = none) :
    ∀ s ∈ l, normPath s.key ≠ normPath p := by
  unfold lookupInst at h
  intro s hs e
  have := List.find?_eq_none.mp h s hs
  exact this (pathEq_iff.mpr e)

theorem lookupInst_congr (l : List Stored) {p q : Path} (h : normPath p = normPath q) :
    lookupInst l p = lookupInst l q := by
  unfold lookupInst pathEq
  simp [h]

theorem abs_setInsts (r : Repo) (ns : Name) (f : List Stored → List Stored)
    (g : List (Path × Inst) → List (Path × Inst)) (h : ∀ l, (f l).map kvOf = g (l.map kvOf)) :
    abs (setInsts r ns f) = sSetMap (abs r) ns g := by
  unfold abs setInsts sSetMap
  simp only [List.map_map]
  congr 1
  apply List.map_congr_left
  intro e _
  simp only [Function.comp]
  by_cases hn : nameEq e.name ns = true
  · have hl : lower e.name = lower ns := nameEq_iff.mp hn
    have h' := h e.insts
    simp [hn, hl, absNs]
    exact h'
  · have : ((absNs e).name == lower ns) = false := by
      simp [absNs, nameEq] at hn ⊢; exact hn
    simp [hn, this]

/-! ### simulation: read operations -/

/-- with the configuration constants of the mock (regenerated from the source), the retrieval options change
    nothing: qualifiers and class origins are always removed, LocalOnly is never applied -/
theorem getInstancePost_eq (classes : List Cls) (reqCls : Name) (o : RetOpts) (pl : Option (List Name)) (i : Inst) :
    getInstancePost classes reqCls o pl i = .ok (retrieveSimple pl i) := by
  simp [getInstancePost, retrieveSimple, instanceRetrieveLocalOnly, ignoreInstanceIqParam, ignoreInstanceIcoParam]

theorem sim_get (r : Repo) (path : Path) (pl : Option (List Name)) (o : RetOpts := {}) :
    normOut (stepGet r path pl o).2 = (specGet (abs r) path pl o).2 ∧ (stepGet r path pl o).1 = r
      ∧ (specGet (abs r) path pl o).1 = abs r := by
  unfold stepGet specGet
  simp only [getInstancePost_eq]
  simp only [sFindNs_abs, effNs]
  have hd : (abs r).dflt = r.dflt := rfl
  rw [hd]
  cases hns : findNs r (path.ns.getD r.dflt) with
  | none => simp [normOut, errNs]
  | some e =>
    simp only [Option.map_some]
    have hc : (absNs e).classes = e.classes := rfl
    simp only [hc]
    have hp : (reqPath (path.ns.getD r.dflt) path).cls = path.cls := rfl
    simp only [hp]
    by_cases hcl : (findCls e.classes path.cls).isNone = true
    · simp [hcl, normOut, errClass]
    · simp only [hcl]
      rw [absNs_map, keyIn_eq, sLookup_abs]
      cases hl : lookupInst e.insts (reqPath (path.ns.getD r.dflt) path) with
      | none => simp [normOut, errNotFound]
      | some st => simp [normOut, normRInst, keyIn_eq, retrieveSimple]

theorem descends_congr (cs : List Cls) (fuel : Nat) {a b : Name} (h : lower a = lower b) (t : Name) :
    descends cs fuel a t = descends cs fuel b t := by
  cases fuel with
  | zero => simp [descends, nameEq_congr_left h]
  | succ n => simp [descends, nameEq_congr_left h, findCls_congr cs h]

theorem normPath_set_ns (p : Path) (n : Name) :
    normPath { p with ns := some n } = { normPath p with ns := some (lower n) } := rfl

def UniqueKeys (l : List Stored) : Prop := l.Pairwise (fun a b => normPath a.key ≠ normPath b.key)

structure InvE (ex : Name → Prop) (e : NsEntry) : Prop where
  uniq : UniqueKeys e.insts
  pathKey : ∀ s ∈ e.insts, normPath s.path = normPath s.key
  hasKeys : ∀ s ∈ e.insts, ∀ c, findCls e.classes s.key.cls = some c →
    ∀ d ∈ keyDecls c, (findProp s.inst.props d.name).isSome = true
  hostNone : ∀ s ∈ e.insts, s.key.host = none
  nsOk : ∀ s ∈ e.insts, s.key.ns.map lower = some (lower e.name)
  instCls : ∀ s ∈ e.insts, lower s.inst.cls = lower s.key.cls
  refVals : ∀ s ∈ e.insts, ∀ c, findCls e.classes s.key.cls = some c → c.isAssoc = true →
    ∀ p ∈ s.inst.props, ∀ m, refNs p.val = some m → m.isEmpty = false → ex m

/-- namespace names are pairwise different (the repository is a NocaseDict) -/
def NsUnique (r : Repo) : Prop := r.nss.Pairwise (fun a b => lower a.name ≠ lower b.name)

structure Inv (r : Repo) : Prop where
  nsUniq : NsUnique r
  entries : ∀ e ∈ r.nss, InvE (fun n => (findNs r n).isSome = true) e

theorem findNs_mem {r : Repo} {ns : Name} {e : NsEntry} (h : findNs r ns = some e) :
    e ∈ r.nss ∧ lower e.name = lower ns := by
  unfold findNs at h
  have h2 := List.find?_some h
  exact ⟨List.mem_of_find?_eq_some h, nameEq_iff.mp h2⟩

theorem sSelect_abs (e : NsEntry) (cls : Name) (hp : ∀ s ∈ e.insts, normPath s.path = normPath s.key) :
    sSelect (absNs e) cls = (e.insts.filter (inEnum e cls)).map kvOf := by
  unfold sSelect
  rw [absNs_map, List.filter_map]
  congr 1
  apply List.filter_congr
  intro s hs
  simp only [Function.comp, inEnum, kvOf]
  have hc : (absNs e).classes = e.classes := rfl
  rw [hc]
  apply descends_congr
  rw [normPath_cls, lower_idem]
  exact (normPath_eq_cls (hp s hs)).symm

theorem sim_enumNames (r : Repo) (nsArg : Option Name) (cls : Name) (hinv : Inv r) :
    normOut (stepEnumNames r nsArg cls).2 = (specEnumNames (abs r) nsArg cls).2 ∧ (stepEnumNames r nsArg cls).1 = r
      ∧ (specEnumNames (abs r) nsArg cls).1 = abs r := by
  unfold stepEnumNames specEnumNames
  simp only [sFindNs_abs, effNs]
  have hd : (abs r).dflt = r.dflt := rfl
  simp only [hd]
  cases hns : findNs r (nsArg.getD r.dflt) with
  | none => simp [normOut, errNs]
  | some e =>
    simp only [Option.map_some]
    have hc : (absNs e).classes = e.classes := rfl
    simp only [hc]
    have hie := hinv.entries e (findNs_mem hns).1
    by_cases hcl : (findCls e.classes cls).isNone = true
    · simp [hcl, normOut, errClass]
    · simp only [hcl]
      rw [sSelect_abs e cls hie.pathKey]
      simp only [normOut, List.map_map, Bool.false_eq_true, ↓reduceIte, and_self, and_true]
      congr 1
      apply List.map_congr_left
      intro s hs
      have hs' := (List.mem_filter.mp hs).1
      simp only [Function.comp, kvOf, normPath_set_ns, hie.pathKey s hs']

theorem lookup_self {l : List Stored} (hu : UniqueKeys l) {s : Stored} (hs : s ∈ l) {q : Path}
    (hq : normPath q = normPath s.key) : lookupInst l q = some s := by
  induction l with
  | nil => simp at hs
  | cons a t ih =>
    unfold UniqueKeys at hu
    rw [List.pairwise_cons] at hu
    unfold lookupInst
    simp only [List.find?_cons]
    rcases List.mem_cons.mp hs with rfl | hs'
    · have : pathEq s.key q = true := pathEq_iff.mpr hq.symm
      simp [this]
    · have hne : pathEq a.key q = false := by
        have := hu.1 s hs'
        cases hpe : pathEq a.key q with
        | false => rfl
        | true => exact absurd ((pathEq_iff.mp hpe).trans hq) this
      simp only [hne]
      exact ih hu.2 hs'

theorem enumCollect_ok (ns : Name) (classes : List Cls) (o : RetOpts) (all : List Stored) (pl : Option (List Name))
    (hu : UniqueKeys all)
    (hp : ∀ s ∈ all, normPath s.path = normPath s.key) (l : List Stored) (hl : ∀ s ∈ l, s ∈ all) :
    enumCollect ns classes o all pl l = .ok (l.map (fun s =>
      { cls := s.inst.cls, path := { s.path with host := none, ns := some ns },
        props := (retrieveSimple pl s.inst).1, quals := false })) := by
  induction l with
  | nil => rfl
  | cons a t ih =>
    have ha := hl a (by simp)
    have := lookup_self hu ha (hp a ha)
    simp only [enumCollect, this, getInstancePost_eq, ih (fun s hs => hl s (by simp [hs])), List.map_cons]
    rfl

theorem normPath_set_ns_host (p : Path) (n : Name) :
    normPath { p with host := none, ns := some n } = { normPath p with host := none, ns := some (lower n) } := rfl

theorem sim_enumInsts (r : Repo) (nsArg : Option Name) (cls : Name) (di : Option Bool) (pl : Option (List Name))
    (hinv : Inv r) (o : RetOpts := {}) :
    normOut (stepEnumInsts r nsArg cls di pl o).2 = (specEnumInsts (abs r) nsArg cls di pl o).2
      ∧ (stepEnumInsts r nsArg cls di pl o).1 = r ∧ (specEnumInsts (abs r) nsArg cls di pl o).1 = abs r := by
  unfold stepEnumInsts specEnumInsts
  simp only [sFindNs_abs, effNs]
  have hd : (abs r).dflt = r.dflt := rfl
  simp only [hd]
  cases hns : findNs r (nsArg.getD r.dflt) with
  | none => simp [normOut, errNs]
  | some e =>
    simp only [Option.map_some]
    have hc : (absNs e).classes = e.classes := rfl
    simp only [hc]
    have hie := hinv.entries e (findNs_mem hns).1
    cases hcl : findCls e.classes cls with
    | none => simp [normOut, errClass]
    | some c =>
      simp only []
      rw [enumCollect_ok _ _ _ _ _ hie.uniq hie.pathKey _ (fun s hs => (List.mem_filter.mp hs).1)]
      rw [sSelect_abs e cls hie.pathKey]
      simp only [normOut, List.map_map, and_self, and_true]
      congr 1
      apply List.map_congr_left
      intro s hs
      have hs' := (List.mem_filter.mp hs).1
      simp only [Function.comp, kvOf, normRInst, normPath_set_ns_host, hie.pathKey s hs']
      have : (normPath s.key).host = none := by
        simp [normPath, hie.hostNone s hs']
      rw [← this]

/-! ### simulation: Delete, Create (schemas without association classes) -/

def NoAssoc (r : Repo) : Prop := ∀ e ∈ r.nss, ∀ c ∈ e.classes, c.isAssoc = false

theorem mem_setInsts {r : Repo} {ns : Name} {f : List Stored → List Stored} {e' : NsEntry} :
    e' ∈ (setInsts r ns f).nss ↔
      ∃ e ∈ r.nss, e' = (if nameEq e.name ns then { e with insts := f e.insts } else e) := by
  unfold setInsts
  simp only [List.mem_map]
  constructor
  · rintro ⟨e, he, rfl⟩; exact ⟨e, he, rfl⟩
  · rintro ⟨e, he, rfl⟩; exact ⟨e, he, rfl⟩

theorem noAssoc_setInsts {r : Repo} (h : NoAssoc r) (ns : Name) (f : List Stored → List Stored) :
    NoAssoc (setInsts r ns f) := by
  intro e' he' c hc
  obtain ⟨e, he, rfl⟩ := mem_setInsts.mp he'
  by_cases hn : nameEq e.name ns = true <;> simp [hn] at hc <;> exact h e he c hc

theorem invE_mono {ex ex' : Name → Prop} {e : NsEntry} (hm : ∀ n, ex n → ex' n) (h : InvE ex e) : InvE ex' e :=
  ⟨h.uniq, h.pathKey, h.hasKeys, h.hostNone, h.nsOk, h.instCls,
    fun s hs c hc hca p hp m hmm hne => hm m (h.refVals s hs c hc hca p hp m hmm hne)⟩

theorem findNs_isSome_setInsts (r : Repo) (ns n : Name) (f : List Stored → List Stored) :
    (findNs (setInsts r ns f) n).isSome = (findNs r n).isSome := by
  unfold findNs setInsts
  simp only [List.find?_map]
  have : ((fun e : NsEntry => nameEq e.name n) ∘ fun e =>
      if nameEq e.name ns = true then { e with insts := f e.insts } else e) = fun e => nameEq e.name n := by
    funext e
    simp only [Function.comp]
    by_cases h : nameEq e.name ns = true <;> simp [h]
  rw [this]
  cases List.find? (fun e => nameEq e.name n) r.nss <;> rfl

/-- an update of the instance list of the entries named `ns` keeps the invariant if it does so entry-wise -/
theorem inv_setInsts {r : Repo} (h : Inv r) (ns : Name) (f : List Stored → List Stored)
    (hf : ∀ e ∈ r.nss, nameEq e.name ns = true → InvE (fun n => (findNs r n).isSome = true) e →
      InvE (fun n => (findNs r n).isSome = true) { e with insts := f e.insts }) :
    Inv (setInsts r ns f) := by
  refine ⟨?_, ?_⟩
  · unfold NsUnique setInsts
    simp only [List.pairwise_map]
    refine List.Pairwise.imp ?_ h.nsUniq
    intro a b hab
    by_cases ha : nameEq a.name ns = true <;> by_cases hb : nameEq b.name ns = true <;> simp [ha, hb] <;> exact hab
  · intro e' he'
    obtain ⟨e, he, rfl⟩ := mem_setInsts.mp he'
    have hm : ∀ n, (findNs r n).isSome = true → (findNs (setInsts r ns f) n).isSome = true := by
      intro n hn; rw [findNs_isSome_setInsts]; exact hn
    by_cases hn : nameEq e.name ns = true
    · simp only [hn, ↓reduceIte]; exact invE_mono hm (hf e he hn (h.entries e he))
    · simp only [hn]; exact invE_mono hm (h.entries e he)

theorem invE_delete {ex : Name → Prop} {e : NsEntry} (h : InvE ex e) (p : Path) :
    InvE ex { e with insts := deleteInst e.insts p } := by
  have hm : ∀ s ∈ deleteInst e.insts p, s ∈ e.insts := fun s hs => (List.mem_filter.mp hs).1
  exact ⟨List.Pairwise.filter _ h.uniq, fun s hs => h.pathKey s (hm s hs), fun s hs => h.hasKeys s (hm s hs),
    fun s hs => h.hostNone s (hm s hs), fun s hs => h.nsOk s (hm s hs), fun s hs => h.instCls s (hm s hs),
    fun s hs => h.refVals s (hm s hs)⟩

theorem deleteInst_abs (l : List Stored) (p : Path) :
    (deleteInst l p).map kvOf = (l.map kvOf).filter (fun x => !(x.1 == normPath p)) := by
  unfold deleteInst
  rw [List.filter_map]
  congr 1

theorem sim_delete (r : Repo) (path : Path) (hna : NoAssoc r) (hinv : Inv r) :
    normOut (stepDelete r path).2 = (specDelete (abs r) path).2
      ∧ abs (stepDelete r path).1 = (specDelete (abs r) path).1
      ∧ Inv (stepDelete r path).1 ∧ NoAssoc (stepDelete r path).1 := by
  unfold stepDelete specDelete
  simp only [sFindNs_abs, effNs]
  have hd : (abs r).dflt = r.dflt := rfl
  simp only [hd]
  cases hns : findNs r (path.ns.getD r.dflt) with
  | none => simp [normOut, errNs, hinv, hna]
  | some e =>
    simp only [Option.map_some]
    have hc : (absNs e).classes = e.classes := rfl
    have hp : (reqPath (path.ns.getD r.dflt) path).cls = path.cls := rfl
    simp only [hc, hp]
    cases hcl : findCls e.classes path.cls with
    | none => simp [normOut, errClass, hinv, hna]
    | some c =>
      simp only []
      rw [absNs_map, keyIn_eq, sLookup_abs]
      cases hl : lookupInst e.insts (reqPath (path.ns.getD r.dflt) path) with
      | none => simp [normOut, errNotFound, hinv, hna]
      | some st =>
        have hca : c.isAssoc = false := hna e (findNs_mem hns).1 c (findCls_some hcl).1
        simp only [Option.map_some, hca, targets, Bool.false_eq_true, ↓reduceIte, List.isEmpty_nil, List.nil_append,
          sDeleteAll, normOut, true_and]
        refine ⟨?_, ?_, noAssoc_setInsts hna _ _⟩
        · apply abs_setInsts
          intro l
          rw [deleteInst_abs, keyIn_eq]
        · exact inv_setInsts hinv _ _ (fun e' _ _ h' => invE_delete h' _)

theorem fromInstance_ok {c : Cls} {ps : List PropV} {ns : Name} {path : Path}
    (h : fromInstance c ps ns = .ok path) :
    path.host = none ∧ path.ns = some ns ∧ path.cls = c.name ∧
      ∀ d ∈ keyDecls c, (findProp ps d.name).isSome = true := by
  unfold fromInstance at h
  by_cases hany : ((keyDecls c).any fun d => (findProp ps d.name).isNone) = true
  · simp [hany] at h
  · simp only [hany] at h
    have hall : ∀ d ∈ keyDecls c, (findProp ps d.name).isSome = true := by
      intro d hd
      cases hf : findProp ps d.name with
      | some _ => rfl
      | none =>
        exfalso; apply hany
        exact List.any_eq_true.mpr ⟨d, hd, by simp [hf]⟩
    generalize List.mapM (fun e => keyOfVal e.fst e.snd)
        (List.filterMap (fun d => Option.map (fun p => (d.name, p.val)) (findProp ps d.name)) (keyDecls c)) = m at h
    cases m with
    | error _ => cases h
    | ok keys => cases h; exact ⟨rfl, rfl, rfl, hall⟩

theorem newInstancePath_ok {c : Cls} {ps : List PropV} {ns : Name} {path : Path}
    (h : newInstancePath c ps ns = .ok path) :
    path.host = none ∧ path.ns = some ns ∧ path.cls = c.name ∧
      ∀ d ∈ keyDecls c, (findProp ps d.name).isSome = true := by
  unfold newInstancePath at h
  split at h
  · cases h
  · exact fromInstance_ok h

theorem invE_append {ex : Name → Prop} {e : NsEntry} (h : InvE ex e) (path : Path) (i : Inst)
    (hfresh : lookupInst e.insts path = none) (hhost : path.host = none)
    (hns : path.ns.map lower = some (lower e.name))
    (hk : ∀ c, findCls e.classes path.cls = some c → ∀ d ∈ keyDecls c, (findProp i.props d.name).isSome = true)
    (hic : lower i.cls = lower path.cls)
    (hloc : ∀ c, findCls e.classes path.cls = some c → c.isAssoc = true →
      ∀ p ∈ i.props, ∀ m, refNs p.val = some m → m.isEmpty = false → ex m) :
    InvE ex { e with insts := e.insts ++ [{ key := path, path := path, inst := i }] } := by
  have hne := lookupInst_none hfresh
  refine ⟨?_, ?_, ?_, ?_, ?_, ?_, ?_⟩
  · unfold UniqueKeys
    rw [List.pairwise_append]
    refine ⟨h.uniq, by simp, ?_⟩
    intro a ha b hb
    simp at hb; subst hb
    exact hne a ha
  all_goals
    intro s hs
    simp only [List.mem_append, List.mem_singleton] at hs
    rcases hs with hs | rfl
  · exact h.pathKey s hs
  · rfl
  · exact h.hasKeys s hs
  · exact hk
  · exact h.hostNone s hs
  · exact hhost
  · exact h.nsOk s hs
  · exact hns
  · exact h.instCls s hs
  · exact hic
  · exact h.refVals s hs
  · exact hloc

theorem path_eta_of {path : Path} {ns : Name} (h1 : path.host = none) (h2 : path.ns = some ns) :
    ({ path with host := none, ns := some ns } : Path) = path := by
  cases path; simp_all

theorem findNs_unique {r : Repo} (hu : NsUnique r) {ns : Name} {e e' : NsEntry} (h : findNs r ns = some e)
    (he' : e' ∈ r.nss) (hn : nameEq e'.name ns = true) : e' = e := by
  have ⟨he, hl⟩ := findNs_mem h
  have hl' := nameEq_iff.mp hn
  unfold NsUnique at hu
  by_cases heq : e' = e
  · exact heq
  · exfalso
    rcases List.mem_iff_getElem.mp he with ⟨i, hi, rfl⟩
    rcases List.mem_iff_getElem.mp he' with ⟨j, hj, rfl⟩
    have hij : i ≠ j := fun h => heq (by subst h; rfl)
    rcases Nat.lt_or_gt_of_ne hij with hlt | hgt
    · exact (List.pairwise_iff_getElem.mp hu i j hi hj hlt) (hl.trans hl'.symm)
    · exact (List.pairwise_iff_getElem.mp hu j i hj hi hgt) (hl'.trans hl.symm)

theorem sim_create (r : Repo) (nsArg : Option Name) (inst : Inst) (hna : NoAssoc r) (hinv : Inv r) :
    normOut (stepCreate r nsArg inst).2 = (specCreate (abs r) nsArg inst).2
      ∧ abs (stepCreate r nsArg inst).1 = (specCreate (abs r) nsArg inst).1
      ∧ Inv (stepCreate r nsArg inst).1 ∧ NoAssoc (stepCreate r nsArg inst).1 := by
  unfold stepCreate specCreate
  simp only [sFindNs_abs, effNs]
  have hd : (abs r).dflt = r.dflt := rfl
  simp only [hd]
  cases hns : findNs r (nsArg.getD r.dflt) with
  | none => simp [normOut, errNs, hinv, hna]
  | some e =>
    simp only [Option.map_some]
    have hc : (absNs e).classes = e.classes := rfl
    simp only [hc]
    cases hcl : findCls e.classes inst.cls with
    | none => simp [normOut, errClass, hinv, hna]
    | some c =>
      simp only []
      have hca : c.isAssoc = false := hna e (findNs_mem hns).1 c (findCls_some hcl).1
      by_cases hv : (inst.props.all (validProp e.classes c)) = true
      · simp only [hv, Bool.not_true, Bool.false_eq_true, ↓reduceIte, hca, Bool.false_and, targets, List.nil_append,
          List.all_cons, List.all_nil, Bool.and_true, List.any_cons, List.any_nil, Bool.or_false]
        have hci : sClassIn (abs r) inst.cls (nsArg.getD r.dflt) = true := by
          unfold sClassIn; rw [sFindNs_abs, hns]; simp [hc, hcl]
        simp only [hci, Bool.not_true, Bool.false_eq_true, ↓reduceIte, createSingle]
        cases hnp : newInstancePath c (adjustNames c inst.props) (nsArg.getD r.dflt) with
        | error ex => simp [normOut, hinv, hna]
        | ok path =>
          simp only []
          obtain ⟨hh, hn, hpc, hkeys⟩ := newInstancePath_ok hnp
          have hk : keyIn path (nsArg.getD r.dflt) = normPath path := by
            unfold keyIn; rw [path_eta_of hh hn]
          have hex : sExists (abs r) (nsArg.getD r.dflt) (normPath path) = (lookupInst e.insts path).isSome := by
            unfold sExists; rw [sFindNs_abs, hns]; simp only [Option.map_some]
            rw [absNs_map, sLookup_abs]; simp
          simp only [hk, hex, addNew, hns]
          cases hl : lookupInst e.insts path with
          | some st => simp [normOut, errExists, hinv, hna]
          | none =>
            simp only [Option.isSome_none, Bool.false_eq_true, ↓reduceIte, normOut, sInsertAll, true_and, hk]
            refine ⟨?_, ?_, noAssoc_setInsts hna _ _⟩
            · apply abs_setInsts
              intro l
              simp [kvOf]
            · apply inv_setInsts hinv
              intro e' he' hn' hi'
              have hee : e' = e := findNs_unique hinv.nsUniq hns he' hn'
              subst hee
              apply invE_append hi' path _ hl hh
              · rw [hn]; simp [(findNs_mem hns).2]
              · intro c' hc'
                rw [hpc, findCls_self hcl] at hc'
                cases hc'
                exact hkeys
              · rw [hpc]; exact (findCls_some hcl).2.symm
              · intro c' hc' hca'
                rw [hpc, findCls_self hcl] at hc'
                cases hc'
                rw [hca] at hca'; cases hca'
      · simp [hv, normOut, errParam, hinv, hna]

/-! ### simulation: Modify -/

theorem firstErr_ite {α} (f : α → Option PyExc) (ok : α → Bool) (ex : PyExc)
    (l : List α) (h : ∀ x ∈ l, f x = if ok x then none else some ex) :
    firstErr f l = if l.all ok then none else some ex := by
  induction l with
  | nil => simp [firstErr]
  | cons a t ih =>
    have ha := h a (by simp)
    have ht := ih (fun x hx => h x (by simp [hx]))
    by_cases hoa : ok a = true
    · simp [firstErr, ha, hoa, ht]
    · simp [firstErr, ha, hoa]

theorem keyDecl_mem {c : Cls} {n : Name} {d : PropDecl} (h : findDecl c n = some d) (hk : d.isKey = true) :
    d ∈ keyDecls c := by
  unfold keyDecls
  exact List.mem_filter.mpr ⟨(findDecl_some h).1, hk⟩

theorem keyCheck_spec {cs : List Cls} {c : Cls} {stored : List PropV}
    (hk : ∀ d ∈ keyDecls c, (findProp stored d.name).isSome = true) (p : PropV) :
    keyCheck cs c stored p = if sPropOk cs c stored p then none else some (.cimError cimErrInvalidParameter) := by
  unfold keyCheck sPropOk validProp
  cases hd : findDecl c p.name with
  | none => simp
  | some d =>
    simp only []
    by_cases ht : declOk cs d p = true
    · simp only [ht, Bool.not_true, Bool.false_eq_true, ↓reduceIte, Bool.true_and]
      by_cases hkey : d.isKey = true
      · have := hk d (keyDecl_mem hd hkey)
        rw [findProp_congr stored (findDecl_some hd).2] at this
        cases hf : findProp stored p.name with
        | none => simp [hf] at this
        | some sp =>
          by_cases hv : valNe p.val sp.val = true <;> simp [hkey, hv]
      · simp [hkey]
    · simp [ht]

theorem plKeyCheck_spec {c : Cls} {stored : List PropV}
    (hk : ∀ d ∈ keyDecls c, (findProp stored d.name).isSome = true) (ps : List PropV) (pl : List Name) :
    plKeyCheck c stored ps pl = if pl.all (sPlKeyOk c stored ps) then none else some (.cimError cimErrInvalidParameter) := by
  unfold plKeyCheck
  apply firstErr_ite
  intro pn _
  unfold sPlKeyOk
  by_cases hs : (findProp ps pn).isSome = true
  · simp [hs]
  · simp only [hs, Bool.false_eq_true, ↓reduceIte, Bool.false_or]
    cases hd : findDecl c pn with
    | none => simp
    | some d =>
      simp only []
      by_cases hkey : d.isKey = true
      · have := hk d (keyDecl_mem hd hkey)
        rw [findProp_congr stored (findDecl_some hd).2] at this
        cases hf : findProp stored pn with
        | none => simp [hf] at this
        | some sp => by_cases hv : valNe d.dflt sp.val = true <;> simp [hkey, hv]
      · simp [hkey]

theorem findProp_updateProps_isSome (old new : List PropV) (n : Name)
    (h : (findProp old n).isSome = true) : (findProp (updateProps old new) n).isSome = true := by
  unfold updateProps
  induction new generalizing old with
  | nil => simpa using h
  | cons p t ih =>
    simp only [List.foldl_cons]
    apply ih
    by_cases hp : (findProp old p.name).isSome = true
    · simp only [hp, ↓reduceIte]
      unfold findProp at h ⊢
      rw [List.find?_isSome] at h ⊢
      obtain ⟨x, hx, hxn⟩ := h
      by_cases hxp : nameEq x.name p.name = true
      · refine ⟨p, List.mem_map.mpr ⟨x, hx, by simp [hxp]⟩, ?_⟩
        have := nameEq_iff.mp hxp
        have h2 := nameEq_iff.mp hxn
        exact nameEq_iff.mpr (this.symm.trans h2)
      · exact ⟨x, List.mem_map.mpr ⟨x, hx, by simp [hxp]⟩, hxn⟩
    · simp only [hp, Bool.false_eq_true, ↓reduceIte]
      unfold findProp at h ⊢
      rw [List.find?_isSome] at h ⊢
      obtain ⟨x, hx, hxn⟩ := h
      exact ⟨x, by simp [hx], hxn⟩

theorem replaceInst_abs (l : List Stored) (q p : Path) (hq : normPath q = normPath p) (np : Path) (ni : Inst) :
    (replaceInst l q np ni).map kvOf = (l.map kvOf).map (fun x => if x.1 == normPath p then (x.1, ni) else x) := by
  unfold replaceInst
  simp only [List.map_map]
  apply List.map_congr_left
  intro s _
  simp only [Function.comp, kvOf, pathEq, hq]
  by_cases h : (normPath s.key == normPath p) = true <;> simp [h]

theorem invE_replace {ex : Name → Prop} {e : NsEntry} (h : InvE ex e) (st : Stored) (hst : st ∈ e.insts) (ni : Inst)
    (hcls : ni.cls = st.inst.cls)
    (hprops : ∀ n, (findProp st.inst.props n).isSome = true → (findProp ni.props n).isSome = true)
    (hloc : ∀ c, findCls e.classes st.key.cls = some c → c.isAssoc = true →
      ∀ p ∈ ni.props, ∀ m, refNs p.val = some m → m.isEmpty = false → ex m) :
    InvE ex { e with insts := replaceInst e.insts st.path st.path ni } := by
  have hpk := h.pathKey st hst
  have hmem : ∀ s' ∈ replaceInst e.insts st.path st.path ni,
      ∃ s ∈ e.insts, s' = (if pathEq s.key st.path then { s with path := st.path, inst := ni } else s) := by
    intro s' hs'
    unfold replaceInst at hs'
    obtain ⟨s, hs, rfl⟩ := List.mem_map.mp hs'
    exact ⟨s, hs, rfl⟩
  refine ⟨?_, ?_, ?_, ?_, ?_, ?_, ?_⟩
  · unfold UniqueKeys replaceInst
    rw [List.pairwise_map]
    refine List.Pairwise.imp ?_ h.uniq
    intro a b hab
    by_cases ha : pathEq a.key st.path = true <;> by_cases hb : pathEq b.key st.path = true <;> simp [ha, hb] <;> exact hab
  all_goals
    intro s' hs'
    obtain ⟨s, hs, rfl⟩ := hmem s' hs'
    by_cases hc : pathEq s.key st.path = true
  · simp only [hc, ↓reduceIte]; exact (pathEq_iff.mp hc).symm
  · simp only [hc]; exact h.pathKey s hs
  · simp only [hc, ↓reduceIte]
    intro c hcl d hd
    have hkk : lower s.key.cls = lower st.key.cls := normPath_eq_cls ((pathEq_iff.mp hc).trans hpk)
    rw [findCls_congr e.classes hkk] at hcl
    exact hprops _ (h.hasKeys st hst c hcl d hd)
  · simp only [hc]; exact h.hasKeys s hs
  · simp only [hc, ↓reduceIte]; exact h.hostNone s hs
  · simp only [hc]; exact h.hostNone s hs
  · simp only [hc, ↓reduceIte]; exact h.nsOk s hs
  · simp only [hc]; exact h.nsOk s hs
  · simp only [hc, ↓reduceIte]
    have hkk : lower s.key.cls = lower st.key.cls := normPath_eq_cls ((pathEq_iff.mp hc).trans hpk)
    rw [hcls, hkk]; exact h.instCls st hst
  · simp only [hc]; exact h.instCls s hs
  · simp only [hc, ↓reduceIte]
    intro c hcl hca
    have hkk : lower s.key.cls = lower st.key.cls := normPath_eq_cls ((pathEq_iff.mp hc).trans hpk)
    rw [findCls_congr e.classes hkk] at hcl
    exact hloc c hcl hca
  · simp only [hc]; exact h.refVals s hs

theorem sim_modify (r : Repo) (path : Path) (inst : Inst) (pl : Option (List Name)) (hna : NoAssoc r) (hinv : Inv r) :
    normOut (stepModify r path inst pl).2 = (specModify (abs r) path inst pl).2
      ∧ abs (stepModify r path inst pl).1 = (specModify (abs r) path inst pl).1
      ∧ Inv (stepModify r path inst pl).1 ∧ NoAssoc (stepModify r path inst pl).1 := by
  unfold stepModify specModify
  simp only [sFindNs_abs, effNs]
  have hd : (abs r).dflt = r.dflt := rfl
  have hp : (reqPath (path.ns.getD r.dflt) path).cls = path.cls := rfl
  simp only [hd, hp]
  by_cases hne : nameEq inst.cls path.cls = true
  · simp only [hne, Bool.not_true, Bool.false_eq_true, ↓reduceIte]
    cases hns : findNs r (path.ns.getD r.dflt) with
    | none => simp [normOut, errNs, hinv, hna]
    | some e =>
      simp only [Option.map_some]
      have hc : (absNs e).classes = e.classes := rfl
      simp only [hc]
      cases hcl : findCls e.classes inst.cls with
      | none => simp [normOut, errClass, hinv, hna]
      | some c =>
        simp only []
        rw [absNs_map, keyIn_eq, sLookup_abs]
        cases hl : lookupInst e.insts (reqPath (path.ns.getD r.dflt) path) with
        | none => simp [normOut, errNotFound, hinv, hna]
        | some st =>
          simp only [Option.map_some]
          have hmem := findNs_mem hns
          have hie := hinv.entries e hmem.1
          have ⟨hst, hstk⟩ := lookupInst_some hl
          have hca : c.isAssoc = false := hna e hmem.1 c (findCls_some hcl).1
          -- the class of the stored instance is c
          have hcls : lower st.key.cls = lower inst.cls := by
            have := normPath_eq_cls hstk
            rw [this]; exact (nameEq_iff.mp hne).symm
          have hkeys : ∀ d ∈ keyDecls c, (findProp st.inst.props d.name).isSome = true :=
            hie.hasKeys st hst c (by rw [findCls_congr e.classes hcls]; exact hcl)
          by_cases hpl : plBad c pl = true
          · simp [hpl, normOut, errParam, hinv, hna]
          · simp only [hpl, Bool.false_eq_true, ↓reduceIte]
            rw [firstErr_ite _ _ _ _ (fun x _ => keyCheck_spec hkeys x), plKeyCheck_spec hkeys]
            by_cases h1 : (inst.props.all (sPropOk e.classes c st.inst.props)) = true
            · simp only [h1, ↓reduceIte, Bool.not_true, Bool.false_eq_true]
              by_cases h2 : ((pl.getD []).all (sPlKeyOk c st.inst.props inst.props)) = true
              · simp only [h2, ↓reduceIte, Bool.not_true, Bool.false_eq_true, hca, Bool.false_and, targets,
                  List.nil_append, List.isEmpty_nil, List.all_cons, List.all_nil, Bool.and_true]
                have hsp : normPath st.path = normPath (reqPath (path.ns.getD r.dflt) path) :=
                  (hie.pathKey st hst).trans hstk
                have hlk : lookupInst e.insts st.path = some st := by
                  rw [lookupInst_congr e.insts hsp]; exact hl
                have hci : sClassIn (abs r) st.inst.cls (path.ns.getD r.dflt) = true := by
                  unfold sClassIn; rw [sFindNs_abs, hns]; simp only [Option.map_some, hc]
                  rw [findCls_congr e.classes ((hie.instCls st hst).trans hcls), hcl]; rfl
                have hex : sExists (abs r) (path.ns.getD r.dflt) (keyIn path (path.ns.getD r.dflt)) = true := by
                  unfold sExists; rw [sFindNs_abs, hns]; simp only [Option.map_some]
                  rw [absNs_map, keyIn_eq, sLookup_abs, hl]; rfl
                simp only [hlk, Option.isNone_some, Bool.false_eq_true, ↓reduceIte, hci, hex, Bool.not_true,
                  normOut, sReplaceAll, true_and]
                refine ⟨?_, ?_, noAssoc_setInsts hna _ _⟩
                · apply abs_setInsts
                  intro l
                  rw [replaceInst_abs l st.path _ hsp, keyIn_eq]
                · apply inv_setInsts hinv
                  intro e' he' hn' hi'
                  have hee : e' = e := findNs_unique hinv.nsUniq hns he' hn'
                  subst hee
                  refine invE_replace hi' st hst _ rfl (fun n hn => findProp_updateProps_isSome _ _ n hn) ?_
                  intro c' hc' hca'
                  rw [findCls_congr e'.classes hcls, hcl] at hc'
                  cases hc'
                  rw [hca] at hca'; cases hca'
              · simp [h2, normOut, errParam, hinv, hna]
            · simp [h1, normOut, errParam, hinv, hna]
  · simp [hne, normOut, errParam, hinv, hna]

/-! ### one step, whole histories -/

theorem sim_step (r : Repo) (op : Op) (hna : NoAssoc r) (hinv : Inv r) :
    normOut (step r op).2 = (sstep (abs r) op).2 ∧ abs (step r op).1 = (sstep (abs r) op).1
      ∧ Inv (step r op).1 ∧ NoAssoc (step r op).1 := by
  cases op with
  | create ns i => exact sim_create r ns i hna hinv
  | modify p i pl => exact sim_modify r p i pl hna hinv
  | delete p => exact sim_delete r p hna hinv
  | get p pl o =>
    have h := sim_get r p pl o
    simp only [step, sstep]
    rw [h.2.1, h.2.2]; exact ⟨h.1, rfl, hinv, hna⟩
  | enumInsts ns c di pl o =>
    have h := sim_enumInsts r ns c di pl hinv o
    simp only [step, sstep]
    rw [h.2.1, h.2.2]; exact ⟨h.1, rfl, hinv, hna⟩
  | enumNames ns c =>
    have h := sim_enumNames r ns c hinv
    simp only [step, sstep]
    rw [h.2.1, h.2.2]; exact ⟨h.1, rfl, hinv, hna⟩

theorem sim_run (ops : List Op) : ∀ (r : Repo), NoAssoc r → Inv r →
    (Pywbem.Model.Store.run r ops).2.map normOut = (Pywbem.Model.StoreSpec.run (abs r) ops).2
      ∧ abs (Pywbem.Model.Store.run r ops).1 = (Pywbem.Model.StoreSpec.run (abs r) ops).1
      ∧ Inv (Pywbem.Model.Store.run r ops).1 := by
  induction ops with
  | nil => intro r _ hinv; exact ⟨rfl, rfl, hinv⟩
  | cons op t ih =>
    intro r hna hinv
    obtain ⟨h1, h2, h3, h4⟩ := sim_step r op hna hinv
    obtain ⟨i1, i2, i3⟩ := ih (step r op).1 h4 h3
    simp only [Pywbem.Model.Store.run, Pywbem.Model.StoreSpec.run, List.map_cons]
    rw [← h2, ← h1]
    exact ⟨by rw [i1], i2, i3⟩

/-- a repository whose instance stores are empty satisfies the invariant -/
theorem inv_empty (r : Repo) (hu : NsUnique r) (he : ∀ e ∈ r.nss, e.insts = []) : Inv r := by
  refine ⟨hu, fun e hm => ?_⟩
  have := he e hm
  refine ⟨by unfold UniqueKeys; rw [this]; exact List.Pairwise.nil, ?_, ?_, ?_, ?_, ?_, ?_⟩ <;>
    (intro s hs; rw [this] at hs; simp at hs)

/-! ### map laws, frame, documented errors -/

theorem findNs_setInsts (r : Repo) (ns ns' : Name) (f : List Stored → List Stored) :
    findNs (setInsts r ns f) ns' =
      (findNs r ns').map (fun e => if nameEq e.name ns then { e with insts := f e.insts } else e) := by
  unfold findNs setInsts
  simp only [List.find?_map]
  congr 1
  congr 1
  funext e
  simp only [Function.comp]
  by_cases h : nameEq e.name ns = true <;> simp [h]

theorem setInsts_dflt (r : Repo) (ns : Name) (f : List Stored → List Stored) : (setInsts r ns f).dflt = r.dflt := rfl

theorem effNs_setInsts (r : Repo) (ns : Name) (f : List Stored → List Stored) (x : Option Name) :
    effNs (setInsts r ns f) x = effNs r x := rfl

theorem lookupInst_append_fresh {l : List Stored} {p : Path} (h : lookupInst l p = none) (st : Stored)
    (hk : normPath st.key = normPath p) : lookupInst (l ++ [st]) p = some st := by
  unfold lookupInst at h ⊢
  rw [List.find?_append, h]
  simp [pathEq_iff.mpr hk]

theorem lookupInst_delete (l : List Stored) (p : Path) : lookupInst (deleteInst l p) p = none := by
  unfold lookupInst deleteInst
  apply List.find?_eq_none.mpr
  intro s hs
  have := (List.mem_filter.mp hs).2
  simpa using this

theorem lookupInst_delete_other (l : List Stored) {p q : Path} (h : normPath q ≠ normPath p) :
    lookupInst (deleteInst l p) q = lookupInst l q := by
  unfold lookupInst deleteInst
  rw [List.find?_filter]
  congr 1
  funext s
  by_cases hq : pathEq s.key q = true
  · have : pathEq s.key p = false := by
      cases hp : pathEq s.key p with
      | false => rfl
      | true => exact absurd ((pathEq_iff.mp hq).symm.trans (pathEq_iff.mp hp)) h
    simp [hq, this]
  · simp [hq]

theorem adjustName_same (c : Cls) (p : PropV) :
    lower (adjustName c p).name = lower p.name ∧ (adjustName c p).ty = p.ty ∧ (adjustName c p).isArr = p.isArr
      ∧ (adjustName c p).val = p.val := by
  unfold adjustName
  cases h : findDecl c p.name with
  | none => simp
  | some d => simp [(findDecl_some h).2]

/-- what the creation of an instance in a schema without associations does (case analysis) -/
theorem stepCreate_ok {r r' : Repo} {nsArg : Option Name} {inst : Inst} {p : Path} (hna : NoAssoc r)
    (h : stepCreate r nsArg inst = (r', .path p)) :
    ∃ e c, findNs r (effNs r nsArg) = some e ∧ findCls e.classes inst.cls = some c ∧
      newInstancePath c (adjustNames c inst.props) (effNs r nsArg) = .ok p ∧
      lookupInst e.insts p = none ∧
      r' = setInsts r (effNs r nsArg) (fun l => l ++ [{ key := p, path := p, inst := { cls := inst.cls, props := adjustNames c inst.props, quals := inst.quals } }]) := by
  unfold stepCreate at h
  cases hns : findNs r (effNs r nsArg) with
  | none => simp [hns, errNs] at h
  | some e =>
    cases hcl : findCls e.classes inst.cls with
    | none => simp [hns, hcl, errClass] at h
    | some c =>
      have hca : c.isAssoc = false := hna e (findNs_mem hns).1 c (findCls_some hcl).1
      by_cases hv : (inst.props.all (validProp e.classes c)) = true
      · simp only [hns, hcl, hv, hca, Bool.not_true, Bool.false_eq_true, ↓reduceIte, createSingle] at h
        cases hnp : newInstancePath c (adjustNames c inst.props) (effNs r nsArg) with
        | error ex => simp [hnp] at h
        | ok path =>
          simp only [hnp, addNew, hns] at h
          cases hl : lookupInst e.insts path with
          | some st => simp [hl, errExists] at h
          | none =>
            simp only [hl, Option.isSome_none, Bool.false_eq_true, ↓reduceIte, Prod.mk.injEq, Out.path.injEq] at h
            obtain ⟨h1, h2⟩ := h
            subst h2
            exact ⟨e, c, rfl, hcl, hnp, hl, h1.symm⟩
      · simp [hns, hcl, hv, errParam] at h

theorem stepDelete_ok {r r' : Repo} {path : Path} (hna : NoAssoc r)
    (h : stepDelete r path = (r', .unit)) :
    ∃ e c st, findNs r (effNs r path.ns) = some e ∧ findCls e.classes path.cls = some c ∧
      lookupInst e.insts (reqPath (effNs r path.ns) path) = some st ∧
      r' = setInsts r (effNs r path.ns) (fun l => deleteInst l (reqPath (effNs r path.ns) path)) := by
  unfold stepDelete at h
  have hp : (reqPath (effNs r path.ns) path).cls = path.cls := rfl
  cases hns : findNs r (effNs r path.ns) with
  | none => simp [hns, errNs] at h
  | some e =>
    cases hcl : findCls e.classes path.cls with
    | none => simp [hns, hp, hcl, errClass] at h
    | some c =>
      have hca : c.isAssoc = false := hna e (findNs_mem hns).1 c (findCls_some hcl).1
      cases hl : lookupInst e.insts (reqPath (effNs r path.ns) path) with
      | none => simp [hns, hp, hcl, hl, errNotFound] at h
      | some st =>
        simp only [hns, hp, hcl, hl, hca, Bool.false_eq_true, ↓reduceIte, List.isEmpty_nil, Prod.mk.injEq, and_true] at h
        exact ⟨e, c, st, by first | rfl | assumption, by first | rfl | assumption, by first | rfl | assumption, h.symm⟩

theorem get_after_create {r r' : Repo} {nsArg : Option Name} {inst : Inst} {p : Path} (pl : Option (List Name))
    (hna : NoAssoc r) (h : stepCreate r nsArg inst = (r', .path p)) :
    ∃ c, (stepGet r' p pl).2 =
      .inst ⟨inst.cls, p, removeClassOrigin (removeQualifiers (filterProps pl (adjustNames c inst.props))), false⟩ := by
  obtain ⟨e, c, hns, hcl, hnp, hl, rfl⟩ := stepCreate_ok hna h
  obtain ⟨hh, hn, hpc, _⟩ := newInstancePath_ok hnp
  refine ⟨c, ?_⟩
  unfold stepGet
  have he : effNs r p.ns = effNs r nsArg := by simp [effNs, hn]
  simp only [effNs_setInsts, he, findNs_setInsts, hns, Option.map_some, (nameEq_iff.mpr (findNs_mem hns).2), ↓reduceIte]
  have hrp : reqPath (effNs r nsArg) p = p := path_eta_of hh hn
  simp only [hrp, hpc, findCls_self hcl, Option.isNone_some, Bool.false_eq_true, ↓reduceIte]
  rw [lookupInst_append_fresh hl _ rfl]
  simp only [getInstancePost_eq, retrieveSimple]

theorem create_twice {r r' : Repo} {nsArg : Option Name} {inst : Inst} {p : Path}
    (hna : NoAssoc r) (h : stepCreate r nsArg inst = (r', .path p)) :
    stepCreate r' nsArg inst = (r', errExists) := by
  obtain ⟨e, c, hns, hcl, hnp, hl, rfl⟩ := stepCreate_ok hna h
  have hca : c.isAssoc = false := hna e (findNs_mem hns).1 c (findCls_some hcl).1
  have hv : (inst.props.all (validProp e.classes c)) = true := by
    unfold stepCreate at h
    by_cases hv : (inst.props.all (validProp e.classes c)) = true
    · exact hv
    · simp [hns, hcl, hv, errParam] at h
  unfold stepCreate
  simp only [effNs_setInsts, findNs_setInsts, hns, Option.map_some, (nameEq_iff.mpr (findNs_mem hns).2), ↓reduceIte, hcl, hv,
    Bool.not_true, Bool.false_eq_true, hca, createSingle, hnp, addNew]
  rw [lookupInst_append_fresh hl _ rfl]
  simp

theorem get_after_delete {r r' : Repo} {path : Path} (pl : Option (List Name))
    (hna : NoAssoc r) (h : stepDelete r path = (r', .unit)) :
    (stepGet r' path pl).2 = errNotFound := by
  obtain ⟨e, c, st, hns, hcl, hl, rfl⟩ := stepDelete_ok hna h
  unfold stepGet
  have hp : (reqPath (effNs r path.ns) path).cls = path.cls := rfl
  simp only [effNs_setInsts, findNs_setInsts, hns, Option.map_some, (nameEq_iff.mpr (findNs_mem hns).2), ↓reduceIte, hp, hcl,
    Option.isNone_some, Bool.false_eq_true, lookupInst_delete]

/-- the outcome of GetInstance as a function of the namespace entry found -/
def getOut (eo : Option NsEntry) (p : Path) (pl : Option (List Name)) : Out :=
  match eo with
  | none => errNs
  | some e =>
    if (findCls e.classes p.cls).isNone then errClass
    else match lookupInst e.insts p with
      | none => errNotFound
      | some st => .inst { cls := st.inst.cls, path := p, props := (retrieveSimple pl st.inst).1, quals := false }

theorem stepGet_snd (r : Repo) (path : Path) (pl : Option (List Name)) :
    (stepGet r path pl).2 = getOut (findNs r (effNs r path.ns)) (reqPath (effNs r path.ns) path) pl := by
  unfold stepGet getOut
  simp only [getInstancePost_eq]
  cases hns : findNs r (effNs r path.ns) with
  | none => rfl
  | some e =>
    simp only []
    by_cases hc : (findCls e.classes (reqPath (effNs r path.ns) path).cls).isNone = true
    · simp [hc]
    · simp only [hc]
      cases lookupInst e.insts (reqPath (effNs r path.ns) path) <;> rfl

theorem get_frame_delete {r r' : Repo} {path q : Path} (pl : Option (List Name)) (hna : NoAssoc r)
    (h : stepDelete r path = (r', .unit))
    (hne : keyIn q (effNs r q.ns) ≠ keyIn path (effNs r path.ns)) :
    (stepGet r' q pl).2 = (stepGet r q pl).2 := by
  obtain ⟨e, c, st, hns, hcl, hl, rfl⟩ := stepDelete_ok hna h
  rw [stepGet_snd, stepGet_snd]
  simp only [effNs_setInsts, findNs_setInsts]
  cases hq : findNs r (effNs r q.ns) with
  | none => rfl
  | some e1 =>
    simp only [Option.map_some]
    by_cases hn : nameEq e1.name (effNs r path.ns) = true
    · simp only [hn, ↓reduceIte, getOut]
      rw [lookupInst_delete_other]
      intro heq
      exact hne heq
    · simp only [hn]
      rfl

/-- outcomes the reference map can produce -/
def Documented (o : Out) : Prop :=
  match o with
  | .err e => e = .cimError cimErrInvalidNamespace ∨ e = .cimError cimErrInvalidParameter ∨
              e = .cimError cimErrInvalidClass ∨ e = .cimError cimErrNotFound ∨
              e = .cimError cimErrAlreadyExists ∨ e = .typeError
  | _ => True

theorem fromInstance_err {c : Cls} {ps : List PropV} {ns : Name} {e : PyExc}
    (h : fromInstance c ps ns = .error e) : e = .valueError ∨ e = .typeError := by
  unfold fromInstance at h
  by_cases hany : ((keyDecls c).any fun d => (findProp ps d.name).isNone) = true
  · simp [hany] at h; exact Or.inl h.symm
  · simp only [hany] at h
    revert h
    generalize (List.filterMap (fun d => Option.map (fun p => (d.name, p.val)) (findProp ps d.name)) (keyDecls c)) = l
    intro h
    have : ∀ (l : List (Name × Val)) e, l.mapM (fun e => keyOfVal e.fst e.snd) = .error e → e = .valueError ∨ e = .typeError := by
      intro l
      induction l with
      | nil => intro e h; simp [List.mapM_nil, pure, Except.pure] at h
      | cons a t ih =>
        intro e h
        rw [List.mapM_cons] at h
        cases hk : keyOfVal a.fst a.snd with
        | error e' =>
          simp [hk, bind, Except.bind] at h
          subst h
          unfold keyOfVal at hk
          cases hv : a.snd <;> simp [hv] at hk <;> simp [← hk]
        | ok x =>
          simp only [hk, bind, Except.bind] at h
          cases ht : List.mapM (fun e => keyOfVal e.fst e.snd) t with
          | error e'' => simp [ht] at h; subst h; exact ih e'' ht
          | ok y => simp [ht, pure, Except.pure] at h
    cases hm : l.mapM (fun e => keyOfVal e.fst e.snd) with
    | error e' => simp [hm] at h; subst h; exact this l e' hm
    | ok y => simp [hm] at h

theorem newInstancePath_err {c : Cls} {ps : List PropV} {ns : Name} {e : PyExc}
    (h : newInstancePath c ps ns = .error e) : e = .cimError cimErrInvalidParameter ∨ e = .typeError := by
  unfold newInstancePath at h
  cases hf : fromInstance c ps ns with
  | ok p => simp [hf] at h
  | error e' =>
    rcases fromInstance_err hf with rfl | rfl
    · simp [hf] at h; exact Or.inl h.symm
    · simp [hf] at h; exact Or.inr h.symm

theorem documented_simple : Documented errNs ∧ Documented errClass ∧ Documented errParam ∧ Documented errNotFound ∧
    Documented errExists ∧ Documented .unit := by
  simp [Documented, errNs, errClass, errParam, errNotFound, errExists]

theorem specCreate_documented (s : SRepo) (ns : Option Name) (i : Inst) : Documented (specCreate s ns i).2 := by
  unfold specCreate
  simp only []
  split
  · exact documented_simple.1
  · split
    · exact documented_simple.2.1
    · split
      · exact documented_simple.2.2.1
      · split
        · exact documented_simple.2.2.1
        · split
          · exact documented_simple.2.1
          · split
            · rename_i ex hnp
              rcases newInstancePath_err hnp with rfl | rfl <;> simp [Documented]
            · split
              · exact documented_simple.2.2.2.2.1
              · simp [Documented]

theorem specModify_documented (s : SRepo) (p : Path) (i : Inst) (pl : Option (List Name)) :
    Documented (specModify s p i pl).2 := by
  unfold specModify
  simp only []
  repeat' split
  all_goals first
    | exact documented_simple.1
    | exact documented_simple.2.1
    | exact documented_simple.2.2.1
    | exact documented_simple.2.2.2.1
    | exact documented_simple.2.2.2.2.2

theorem specDelete_documented (s : SRepo) (p : Path) : Documented (specDelete s p).2 := by
  unfold specDelete
  simp only []
  repeat' split
  all_goals first
    | exact documented_simple.1
    | exact documented_simple.2.1
    | exact documented_simple.2.2.2.1
    | exact documented_simple.2.2.2.2.2

theorem sstep_documented (s : SRepo) (op : Op) : Documented (sstep s op).2 := by
  cases op with
  | create ns i => exact specCreate_documented s ns i
  | modify p i pl => exact specModify_documented s p i pl
  | delete p => exact specDelete_documented s p
  | get p pl =>
    simp only [sstep]; unfold specGet; simp only []
    repeat' split
    all_goals first
      | exact documented_simple.1
      | exact documented_simple.2.1
      | exact documented_simple.2.2.2.1
      | simp [Documented]
  | enumInsts ns c di pl =>
    simp only [sstep]; unfold specEnumInsts; simp only []
    repeat' split
    all_goals first
      | exact documented_simple.1
      | exact documented_simple.2.1
      | simp [Documented]
  | enumNames ns c =>
    simp only [sstep]; unfold specEnumNames; simp only []
    repeat' split
    all_goals first
      | exact documented_simple.1
      | exact documented_simple.2.1
      | simp [Documented]

theorem documented_normOut {o : Out} (h : Documented (normOut o)) : Documented o := by
  cases o <;> simp_all [normOut, Documented]

theorem mapM_keyOfVal_typeError (l : List (Name × Val))
    (h : l.mapM (fun e => keyOfVal e.fst e.snd) = .error .typeError) : ∃ e ∈ l, notScalar e.2 = true := by
  induction l with
  | nil => simp [List.mapM_nil, pure, Except.pure] at h
  | cons a t ih =>
    rw [List.mapM_cons] at h
    cases hk : keyOfVal a.fst a.snd with
    | error e' =>
      simp [hk, bind, Except.bind] at h
      subst h
      unfold keyOfVal at hk
      cases hv : a.snd with
      | null => simp [hv] at hk
      | one k => simp [hv] at hk
      | arr xs => exact ⟨a, by simp, by simp [hv, notScalar]⟩
      | emb b c t => exact ⟨a, by simp, by simp [hv, notScalar]⟩
    | ok x =>
      simp only [hk, bind, Except.bind] at h
      cases ht : List.mapM (fun e => keyOfVal e.fst e.snd) t with
      | error e'' =>
        simp [ht] at h; subst h
        obtain ⟨e, he, hx⟩ := ih ht
        exact ⟨e, by simp [he], hx⟩
      | ok y => simp [ht, pure, Except.pure] at h

theorem newInstancePath_typeError {c : Cls} {ps : List PropV} {ns : Name}
    (h : newInstancePath c ps ns = .error .typeError) : ∃ p ∈ ps, notScalar p.val = true := by
  unfold newInstancePath at h
  cases hf : fromInstance c ps ns with
  | ok p => simp [hf] at h
  | error e' =>
    have he : e' = .typeError := by
      rcases fromInstance_err hf with rfl | rfl
      · simp [hf] at h
      · rfl
    subst he
    unfold fromInstance at hf
    by_cases hany : ((keyDecls c).any fun d => (findProp ps d.name).isNone) = true
    · simp [hany] at hf
    · simp only [hany] at hf
      cases hm : (List.filterMap (fun d => Option.map (fun p => (d.name, p.val)) (findProp ps d.name)) (keyDecls c)).mapM
          (fun e => keyOfVal e.fst e.snd) with
      | ok y => simp [hm] at hf
      | error e'' =>
        simp [hm] at hf; subst hf
        obtain ⟨e, he, hx⟩ := mapM_keyOfVal_typeError _ hm
        obtain ⟨d, hd, hde⟩ := List.mem_filterMap.mp he
        cases hfp : findProp ps d.name with
        | none => simp [hfp] at hde
        | some p =>
          simp [hfp] at hde
          subst hde
          exact ⟨p, (findProp_some hfp).1, hx⟩

theorem mem_adjustNames {c : Cls} {ps : List PropV} {p : PropV} (h : p ∈ adjustNames c ps) :
    ∃ q ∈ ps, p.val = q.val := by
  unfold adjustNames at h
  obtain ⟨q, hq, rfl⟩ := List.mem_map.mp h
  exact ⟨q, hq, (adjustName_same c q).2.2.2⟩

theorem specCreate_typeError {s : SRepo} {ns : Option Name} {i : Inst}
    (h : (specCreate s ns i).2 = .err .typeError) : ∃ p ∈ i.props, notScalar p.val = true := by
  unfold specCreate at h
  simp only [] at h
  split at h
  · simp [errNs] at h
  · split at h
    · simp [errClass] at h
    · split at h
      · simp [errParam] at h
      · split at h
        · simp [errParam] at h
        · split at h
          · simp [errClass] at h
          · split at h
            · rename_i c _ _ _ ex hnp
              simp at h; subst h
              obtain ⟨p, hp, hx⟩ := newInstancePath_typeError hnp
              obtain ⟨q, hq, hv⟩ := mem_adjustNames hp
              exact ⟨q, hq, hv ▸ hx⟩
            · split at h
              · simp [errExists] at h
              · simp at h

theorem srun_documented (ops : List Op) : ∀ (s : SRepo), ∀ o ∈ (Pywbem.Model.StoreSpec.run s ops).2, Documented o := by
  induction ops with
  | nil => intro s o h; simp [Pywbem.Model.StoreSpec.run] at h
  | cons op t ih =>
    intro s o h
    simp only [Pywbem.Model.StoreSpec.run, List.mem_cons] at h
    rcases h with rfl | h
    · exact sstep_documented s op
    · exact ih _ o h

/-! ### association classes: reference values that stay inside the namespace -/

/-- a property names no other namespace than `ns` -/
def localProp (ns : Name) (p : PropV) : Bool :=
  !isRef p || (match refNs p.val with | some n => n.isEmpty || nameEq n ns | none => true)

theorem addNs_ne_nil (acc : List Name) (n : Name) : addNs acc n ≠ [] := by
  unfold addNs
  by_cases h : acc.any (nameEq · n) = true
  · simp only [h, ↓reduceIte]
    intro e; subst e; simp at h
  · simp [h]

def nsStep (target : Name) (acc : List Name) (p : PropV) : List Name :=
  if isRef p then
    match refNs p.val with
    | some n => if !n.isEmpty && !nameEq n target then addNs acc n else acc
    | none => acc
  else acc

theorem multiNs_eq_foldl (ps : List PropV) (t : Name) : multiNs ps t = ps.foldl (nsStep t) [] := rfl

theorem nsStep_nil_iff (t : Name) (acc : List Name) (p : PropV) :
    nsStep t acc p = [] ↔ acc = [] ∧ localProp t p = true := by
  unfold nsStep localProp
  by_cases hr : isRef p = true
  · simp only [hr, ↓reduceIte, Bool.not_true, Bool.false_or]
    cases hn : refNs p.val with
    | none => simp
    | some n =>
      simp only []
      by_cases hc : (!n.isEmpty && !nameEq n t) = true
      · simp only [hc, ↓reduceIte]
        constructor
        · intro h; exact absurd h (addNs_ne_nil acc n)
        · intro ⟨_, h2⟩
          simp at hc
          simp [hc.1, hc.2] at h2
      · simp only [hc]
        simp at hc
        constructor
        · intro h; refine ⟨h, ?_⟩
          by_cases he : n.isEmpty = true
          · simp [he]
          · have he' : ¬ n = [] := by simpa using he
            simp [he, hc he']
        · intro h; exact h.1
  · simp [hr]

theorem foldl_nsStep_nil_iff (t : Name) (ps : List PropV) : ∀ acc,
    ps.foldl (nsStep t) acc = [] ↔ acc = [] ∧ ps.all (localProp t) = true := by
  induction ps with
  | nil => intro acc; simp
  | cons p rest ih =>
    intro acc
    simp only [List.foldl_cons, List.all_cons, Bool.and_eq_true]
    rw [ih, nsStep_nil_iff]
    constructor
    · rintro ⟨⟨h1, h2⟩, h3⟩; exact ⟨h1, h2, h3⟩
    · rintro ⟨h1, h2, h3⟩; exact ⟨⟨h1, h2⟩, h3⟩

theorem multiNs_nil_iff (ps : List PropV) (t : Name) : multiNs ps t = [] ↔ ps.all (localProp t) = true := by
  rw [multiNs_eq_foldl, foldl_nsStep_nil_iff]; simp

theorem localProp_congr {a b : Name} (h : lower a = lower b) (p : PropV) : localProp a p = localProp b p := by
  unfold localProp
  cases refNs p.val with
  | none => rfl
  | some n => simp [nameEq_congr_right h n]

theorem multiNs_nil_congr {a b : Name} (h : lower a = lower b) (ps : List PropV) :
    multiNs ps a = [] ↔ multiNs ps b = [] := by
  rw [multiNs_nil_iff, multiNs_nil_iff]
  have : ps.all (localProp a) = ps.all (localProp b) := by
    congr 1; funext p; exact localProp_congr h p
  rw [this]

theorem localProp_adjust (c : Cls) (t : Name) (p : PropV) : localProp t (adjustName c p) = localProp t p := by
  have := adjustName_same c p
  unfold localProp isRef
  rw [this.2.1, this.2.2.2]

theorem multiNs_adjustNames (c : Cls) (ps : List PropV) (t : Name) :
    multiNs (adjustNames c ps) t = [] ↔ multiNs ps t = [] := by
  rw [multiNs_nil_iff, multiNs_nil_iff]
  unfold adjustNames
  rw [List.all_map]
  have : (localProp t ∘ adjustName c) = localProp t := by funext p; exact localProp_adjust c t p
  rw [this]

def RefWF (ps : List PropV) : Prop :=
  ∀ p ∈ ps, isRef p = true → p.val = .null ∨ ∃ q, p.val = .one (.ref q)

theorem sExists_abs (r : Repo) (n : Name) (p : Path) : sExists (abs r) n (normPath p) = existsIn r n p := by
  unfold sExists existsIn
  rw [sFindNs_abs]
  cases findNs r n with
  | none => rfl
  | some e =>
    simp only [Option.map_some]
    rw [absNs_map, sLookup_abs]
    simp

theorem checkEndpoint_spec (r : Repo) (v : Val) (hv : v = .null ∨ ∃ q, v = .one (.ref q)) :
    checkEndpoint r v = if sEndpointOk (abs r) v then none else some (.cimError cimErrInvalidParameter) := by
  rcases hv with rfl | ⟨q, rfl⟩
  · simp [checkEndpoint, sEndpointOk]
  · obtain ⟨qc, qn, qh, qk⟩ := q
    unfold checkEndpoint sEndpointOk
    simp only []
    cases qh with
    | some h =>
      by_cases he : h.isEmpty = true
      · simp only [he, Bool.not_true, Bool.false_eq_true, ↓reduceIte, Bool.true_and]
        cases qn with
        | none => simp
        | some n =>
          simp only [sExists_abs, existsIn]
          cases findNs r n with
          | none => simp
          | some e => cases lookupInst e.insts (path0ToPath ⟨qc, some n, some h, qk⟩) <;> simp
      · simp [he]
    | none =>
      simp only [Bool.false_eq_true, ↓reduceIte, Bool.true_and]
      cases qn with
      | none => simp
      | some n =>
        simp only [sExists_abs, existsIn]
        cases findNs r n with
        | none => simp
        | some e => cases lookupInst e.insts (path0ToPath ⟨qc, some n, none, qk⟩) <;> simp

theorem checkRefsCreate_spec (r : Repo) (ps : List PropV) (hwf : RefWF ps) :
    checkRefsCreate r ps =
      if (ps.filter isRef).all (fun p => sEndpointOk (abs r) p.val) then none
      else some (.cimError cimErrInvalidParameter) := by
  unfold checkRefsCreate
  rw [firstErr_ite _ (fun p => !isRef p || sEndpointOk (abs r) p.val) (.cimError cimErrInvalidParameter)]
  · rw [List.all_filter]
  · intro p hp
    by_cases hr : isRef p = true
    · simp only [hr, ↓reduceIte, Bool.not_true, Bool.false_or]
      rcases hwf p hp hr with hv | ⟨q, hv⟩
      · simp [hv, sEndpointOk]
      · rw [hv]; exact checkEndpoint_spec r _ (Or.inr ⟨q, rfl⟩)
    · simp [hr]

theorem mem_updateProps {old new : List PropV} {q : PropV} (h : q ∈ updateProps old new) : q ∈ old ∨ q ∈ new := by
  unfold updateProps at h
  induction new generalizing old with
  | nil => exact Or.inl (by simpa using h)
  | cons p t ih =>
    simp only [List.foldl_cons] at h
    rcases ih h with h1 | h1
    · by_cases hp : (findProp old p.name).isSome = true
      · simp only [hp, ↓reduceIte] at h1
        obtain ⟨x, hx, rfl⟩ := List.mem_map.mp h1
        by_cases hxp : nameEq x.name p.name = true
        · simp [hxp]
        · simp [hxp, hx]
      · simp only [hp, Bool.false_eq_true, ↓reduceIte, List.mem_append, List.mem_singleton] at h1
        rcases h1 with h1 | rfl
        · exact Or.inl h1
        · simp
    · exact Or.inr (by simp [h1])

theorem mem_plDefaults {c : Cls} {ps : List PropV} {pl : List Name} {q : PropV} (h : q ∈ plDefaults c ps pl) :
    q ∈ ps ∨ ∃ d ∈ c.props, q = { name := d.name, ty := d.ty, isArr := d.isArr, val := d.dflt } := by
  unfold plDefaults at h
  induction pl generalizing ps with
  | nil => exact Or.inl (by simpa using h)
  | cons pn t ih =>
    simp only [List.foldl_cons] at h
    rcases ih h with h1 | h1
    · by_cases hp : (findProp ps pn).isSome = true
      · simp only [hp, ↓reduceIte] at h1; exact Or.inl h1
      · simp only [hp, Bool.false_eq_true, ↓reduceIte] at h1
        cases hd : findDecl c pn with
        | none => simp only [hd] at h1; exact Or.inl h1
        | some d =>
          simp only [hd, List.mem_append, List.mem_singleton] at h1
          rcases h1 with h1 | rfl
          · exact Or.inl h1
          · exact Or.inr ⟨d, (findDecl_some hd).1, rfl⟩
    · exact Or.inr h1

theorem mem_reduceByPl {c : Cls} {ps : List PropV} {pl : Option (List Name)} {q : PropV}
    (h : q ∈ reduceByPl c ps pl) :
    q ∈ ps ∨ ∃ d ∈ c.props, q = { name := d.name, ty := d.ty, isArr := d.isArr, val := d.dflt } := by
  unfold reduceByPl at h
  cases pl with
  | none => exact Or.inl h
  | some l => exact mem_plDefaults (List.mem_filter.mp h).1

/-- defaults of reference properties are NULL -/
def RefDefaultsNull (c : Cls) : Prop := ∀ d ∈ c.props, d.ty = tyReference → d.dflt = .null

theorem refWF_reduced {c : Cls} {ps : List PropV} {pl : Option (List Name)} (hd : RefDefaultsNull c)
    (h : RefWF ps) : RefWF (adjustNames c (reduceByPl c ps pl)) := by
  intro p hp hr
  unfold adjustNames at hp
  obtain ⟨q, hq, rfl⟩ := List.mem_map.mp hp
  have hs := adjustName_same c q
  have hrq : isRef q = true := by unfold isRef at hr ⊢; rw [← hs.2.1]; exact hr
  rw [hs.2.2.2]
  rcases mem_reduceByPl hq with h1 | ⟨d, hdm, rfl⟩
  · exact h q h1 hrq
  · left
    apply hd d hdm
    simpa [isRef] using hrq

theorem local_reduced {c : Cls} {ps : List PropV} {pl : Option (List Name)} {t : Name} (hd : RefDefaultsNull c)
    (h : multiNs ps t = []) : multiNs (adjustNames c (reduceByPl c ps pl)) t = [] := by
  rw [multiNs_adjustNames, multiNs_nil_iff]
  rw [multiNs_nil_iff] at h
  apply List.all_eq_true.mpr
  intro q hq
  rcases mem_reduceByPl hq with h1 | ⟨d, hdm, rfl⟩
  · exact List.all_eq_true.mp h q h1
  · unfold localProp
    by_cases hr : isRef ({ name := d.name, ty := d.ty, isArr := d.isArr, val := d.dflt } : PropV) = true
    · have : d.dflt = .null := hd d hdm (by simpa [isRef] using hr)
      simp [this, refNs]
    · simp [hr]

theorem local_update {old new : List PropV} {t : Name} (h1 : multiNs old t = []) (h2 : multiNs new t = []) :
    multiNs (updateProps old new) t = [] := by
  rw [multiNs_nil_iff] at h1 h2 ⊢
  apply List.all_eq_true.mpr
  intro q hq
  rcases mem_updateProps hq with h | h
  · exact List.all_eq_true.mp h1 q h
  · exact List.all_eq_true.mp h2 q h

theorem checkRefsModify_spec (r : Repo) (stored ps : List PropV) (hwf : RefWF ps) :
    checkRefsModify r stored ps =
      if ps.all (sRefOk (abs r) stored) then none else some (.cimError cimErrInvalidParameter) := by
  unfold checkRefsModify
  apply firstErr_ite
  intro p hp
  unfold sRefOk
  by_cases hr : isRef p = true
  · simp only [hr, ↓reduceIte, Bool.not_true, Bool.false_or]
    rcases hwf p hp hr with hv | ⟨q, hv⟩
    · simp [hv]
    · rw [hv]
      simp only []
      cases findProp stored p.name with
      | none => simp only []; exact checkEndpoint_spec r _ (Or.inr ⟨q, rfl⟩)
      | some sp =>
        simp only []
        by_cases hne : valNe (Val.one (KV.ref q)) sp.val = true
        · simp only [hne, ↓reduceIte, Bool.not_true, Bool.false_or]
          exact checkEndpoint_spec r _ (Or.inr ⟨q, rfl⟩)
        · simp [hne]
  · simp [hr]


/-! ### association instances in several namespaces -/

/-! ### folds over the target namespaces commute with the abstraction -/

theorem keyIn_of_host_none {path : Path} (hh : path.host = none) (n : Name) :
    keyIn path n = normPath { path with ns := some n } := by
  unfold keyIn
  cases path; simp_all

theorem abs_addAll (path : Path) (i : Inst) (hh : path.host = none) (nsl : List Name) : ∀ r,
    abs (addAll r path i nsl) = sInsertAll (abs r) path i nsl := by
  induction nsl with
  | nil => intro r; rfl
  | cons n t ih =>
    intro r
    simp only [addAll, sInsertAll]
    rw [ih]
    congr 1
    apply abs_setInsts
    intro l
    simp [kvOf, keyIn_of_host_none hh]

theorem abs_replaceAll (path q : Path) (i : Inst) (hq : ∀ n, normPath { path with ns := some n } = keyIn q n)
    (nsl : List Name) : ∀ r,
    abs (replaceAll r path i nsl) = sReplaceAll (abs r) q i nsl := by
  induction nsl with
  | nil => intro r; rfl
  | cons n t ih =>
    intro r
    simp only [replaceAll, sReplaceAll]
    rw [ih]
    congr 1
    apply abs_setInsts
    intro l
    rw [replaceInst_abs l _ _ rfl, hq n]

theorem abs_deleteAll (path q : Path) (hq : ∀ n, normPath { path with ns := some n } = keyIn q n)
    (nsl : List Name) : ∀ r r', deleteAll r path nsl = some r' →
    abs r' = sDeleteAll (abs r) q nsl := by
  induction nsl with
  | nil => intro r r' h; simp [deleteAll] at h; subst h; rfl
  | cons n t ih =>
    intro r r' h
    simp only [deleteAll] at h
    split at h
    · cases h
    · simp only [sDeleteAll]
      rw [ih _ _ h]
      congr 1
      apply abs_setInsts
      intro l
      rw [deleteInst_abs, hq n]

theorem deleteAll_isSome (path : Path) (nsl : List Name) : ∀ r, (∀ n ∈ nsl, (findNs r n).isSome = true) →
    (deleteAll r path nsl).isSome = true := by
  induction nsl with
  | nil => intro r _; rfl
  | cons n t ih =>
    intro r h
    simp only [deleteAll]
    have hn := h n (by simp)
    cases hf : findNs r n with
    | none => simp [hf] at hn
    | some e =>
      simp only []
      apply ih
      intro m hm
      rw [findNs_isSome_setInsts]
      exact h m (by simp [hm])

/-! ### the namespaces an association instance names -/

theorem mem_addNs {acc : List Name} {n m : Name} (h : m ∈ addNs acc n) : m ∈ acc ∨ m = n := by
  unfold addNs at h
  by_cases hc : acc.any (nameEq · n) = true
  · simp only [hc, ↓reduceIte] at h; exact Or.inl h
  · simp only [hc, Bool.false_eq_true, ↓reduceIte, List.mem_append, List.mem_singleton] at h; exact h

theorem mem_foldl_nsStep (t : Name) (ps : List PropV) : ∀ acc m, m ∈ ps.foldl (nsStep t) acc →
    m ∈ acc ∨ ∃ p ∈ ps, isRef p = true ∧ refNs p.val = some m ∧ nameEq m t = false ∧ m.isEmpty = false := by
  induction ps with
  | nil => intro acc m h; exact Or.inl (by simpa using h)
  | cons p rest ih =>
    intro acc m h
    simp only [List.foldl_cons] at h
    rcases ih _ m h with h1 | ⟨q, hq, h2⟩
    · unfold nsStep at h1
      by_cases hr : isRef p = true
      · simp only [hr, ↓reduceIte] at h1
        cases hn : refNs p.val with
        | none => simp only [hn] at h1; exact Or.inl h1
        | some n =>
          simp only [hn] at h1
          by_cases hc : (!n.isEmpty && !nameEq n t) = true
          · simp only [hc, ↓reduceIte] at h1
            rcases mem_addNs h1 with h3 | rfl
            · exact Or.inl h3
            · simp at hc
              exact Or.inr ⟨p, by simp, hr, hn, hc.2, by simpa using hc.1⟩
          · simp only [hc] at h1; exact Or.inl h1
      · simp only [hr] at h1; exact Or.inl h1
    · exact Or.inr ⟨q, by simp [hq], h2⟩

theorem mem_multiNs {ps : List PropV} {t m : Name} (h : m ∈ multiNs ps t) :
    ∃ p ∈ ps, isRef p = true ∧ refNs p.val = some m ∧ nameEq m t = false ∧ m.isEmpty = false := by
  rw [multiNs_eq_foldl] at h
  rcases mem_foldl_nsStep t ps [] m h with h1 | h1
  · simp at h1
  · exact h1

/-- names pairwise different up to case -/
def NamesDistinct (l : List Name) : Prop := l.Pairwise (fun a b => lower a ≠ lower b)

theorem namesDistinct_addNs {acc : List Name} (h : NamesDistinct acc) (n : Name) : NamesDistinct (addNs acc n) := by
  unfold addNs
  by_cases hc : acc.any (nameEq · n) = true
  · simp only [hc, ↓reduceIte]; exact h
  · simp only [hc, Bool.false_eq_true, ↓reduceIte]
    unfold NamesDistinct
    rw [List.pairwise_append]
    refine ⟨h, by simp, ?_⟩
    intro a ha b hb
    simp at hb; subst hb
    intro e
    apply hc
    exact List.any_eq_true.mpr ⟨a, ha, nameEq_iff.mpr e⟩

theorem namesDistinct_foldl (t : Name) (ps : List PropV) : ∀ acc, NamesDistinct acc →
    NamesDistinct (ps.foldl (nsStep t) acc) := by
  induction ps with
  | nil => intro acc h; exact h
  | cons p rest ih =>
    intro acc h
    simp only [List.foldl_cons]
    apply ih
    unfold nsStep
    by_cases hr : isRef p = true
    · simp only [hr, ↓reduceIte]
      cases refNs p.val with
      | none => exact h
      | some n =>
        simp only []
        by_cases hc : (!n.isEmpty && !nameEq n t) = true
        · simp only [hc, ↓reduceIte]; exact namesDistinct_addNs h n
        · simp only [hc]; exact h
    · simp only [hr]; exact h

theorem namesDistinct_multiNs (ps : List PropV) (t : Name) : NamesDistinct (multiNs ps t) := by
  rw [multiNs_eq_foldl]; exact namesDistinct_foldl t ps [] List.Pairwise.nil

/-- the targets of an instance: pairwise different namespaces -/
theorem namesDistinct_targets (ps : List PropV) (t : Name) : NamesDistinct (multiNs ps t ++ [t]) := by
  unfold NamesDistinct
  rw [List.pairwise_append]
  refine ⟨namesDistinct_multiNs ps t, by simp, ?_⟩
  intro a ha b hb
  simp at hb; subst hb
  obtain ⟨_, _, _, _, hne, _⟩ := mem_multiNs ha
  intro e
  rw [nameEq_iff.mpr e] at hne; cases hne

/-- a validated end point names an existing namespace -/
theorem checkEndpoint_ns {r : Repo} {q : Path0} (h : checkEndpoint r (.one (.ref q)) = none) {n : Name}
    (hn : q.ns = some n) : (findNs r n).isSome = true := by
  obtain ⟨qc, qn, qh, qk⟩ := q
  simp only at hn; subst hn
  cases hf : findNs r n with
  | some e => rfl
  | none =>
    exfalso
    unfold checkEndpoint at h
    simp only [hf] at h
    cases qh with
    | none => simp at h
    | some hh => by_cases hc : hh.isEmpty = true <;> simp [hc] at h

theorem firstErr_none {α} {f : α → Option PyExc} {l : List α} (h : firstErr f l = none) : ∀ x ∈ l, f x = none := by
  induction l with
  | nil => intro x hx; simp at hx
  | cons a t ih =>
    intro x hx
    simp only [firstErr] at h
    cases ha : f a with
    | some e => simp [ha] at h
    | none =>
      simp only [ha] at h
      rcases List.mem_cons.mp hx with rfl | hx'
      · exact ha
      · exact ih h x hx'

theorem classIn_spec (r : Repo) (cls : Name) (nsl : List Name) (hex : ∀ n ∈ nsl, (findNs r n).isSome = true) :
    firstErr (classIn r cls) nsl =
      if nsl.all (sClassIn (abs r) cls) then none else some (.cimError cimErrInvalidClass) := by
  apply firstErr_ite
  intro n hn
  unfold classIn sClassIn
  rw [sFindNs_abs]
  have := hex n hn
  cases hf : findNs r n with
  | none => simp [hf] at this
  | some e =>
    simp only [Option.map_some]
    have hc : (absNs e).classes = e.classes := rfl
    simp only [hc]

/-! ### the same update in several namespaces keeps the invariant -/

/-- apply `g n` to the instance list of namespace `n`, for every `n` of the list -/
def foldNs (g : Name → List Stored → List Stored) (r : Repo) (nsl : List Name) : Repo :=
  nsl.foldl (fun r n => setInsts r n (g n)) r

theorem addAll_eq_foldNs (path : Path) (i : Inst) (nsl : List Name) : ∀ r,
    addAll r path i nsl =
      foldNs (fun n l => l ++ [{ key := { path with ns := some n }, path := { path with ns := some n }, inst := i }]) r nsl := by
  induction nsl with
  | nil => intro r; rfl
  | cons n t ih => intro r; simp only [addAll, foldNs, List.foldl_cons]; exact ih _

theorem replaceAll_eq_foldNs (path : Path) (i : Inst) (nsl : List Name) : ∀ r,
    replaceAll r path i nsl =
      foldNs (fun n l => replaceInst l { path with ns := some n } { path with ns := some n } i) r nsl := by
  induction nsl with
  | nil => intro r; rfl
  | cons n t ih => intro r; simp only [replaceAll, foldNs, List.foldl_cons]; exact ih _

theorem deleteAll_eq_foldNs (path : Path) (nsl : List Name) : ∀ r r', deleteAll r path nsl = some r' →
    r' = foldNs (fun n l => deleteInst l { path with ns := some n }) r nsl := by
  induction nsl with
  | nil => intro r r' h; simp [deleteAll] at h; subst h; rfl
  | cons n t ih =>
    intro r r' h
    simp only [deleteAll] at h
    split at h
    · cases h
    · simp only [foldNs, List.foldl_cons]; exact ih _ _ h

theorem findNs_setInsts_other {r : Repo} {m n : Name} (hne : lower n ≠ lower m) (f : List Stored → List Stored) :
    findNs (setInsts r m f) n = findNs r n := by
  rw [findNs_setInsts]
  cases hf : findNs r n with
  | none => rfl
  | some e =>
    simp only [Option.map_some]
    have : nameEq e.name m = false := by
      cases hq : nameEq e.name m with
      | false => rfl
      | true => exact absurd ((findNs_mem hf).2.symm.trans (nameEq_iff.mp hq)) hne
    simp [this]

theorem inv_foldNs (g : Name → List Stored → List Stored) (nsl : List Name) (hd : NamesDistinct nsl) : ∀ r, Inv r →
    (∀ n ∈ nsl, ∀ e, findNs r n = some e →
      InvE (fun m => (findNs r m).isSome = true) { e with insts := g n e.insts }) →
    Inv (foldNs g r nsl) := by
  induction nsl with
  | nil => intro r h _; exact h
  | cons n0 t ih =>
    intro r hinv hall
    unfold NamesDistinct at hd
    rw [List.pairwise_cons] at hd
    simp only [foldNs, List.foldl_cons]
    apply ih hd.2
    · apply inv_setInsts hinv
      intro e he hn hi
      cases hf : findNs r n0 with
      | none =>
        have := List.find?_eq_none.mp (by unfold findNs at hf; exact hf) e he
        simp [hn] at this
      | some e0 =>
        have : e = e0 := findNs_unique hinv.nsUniq hf he hn
        subst this
        exact hall n0 (by simp) e hf
    · intro n hn e hf
      have hne : lower n ≠ lower n0 := fun h => hd.1 n hn h.symm
      rw [findNs_setInsts_other hne] at hf
      have := hall n (by simp [hn]) e hf
      exact invE_mono (fun m hm => by rw [findNs_isSome_setInsts]; exact hm) this

/-- replacement of whatever is stored under (the normal form of) `q` by `ni` under path `q` -/
theorem invE_replace2 {ex : Name → Prop} {e : NsEntry} (h : InvE ex e) (q : Path) (ni : Inst)
    (hcls : ∀ s ∈ e.insts, normPath s.key = normPath q → lower ni.cls = lower s.key.cls)
    (hkeys : ∀ s ∈ e.insts, normPath s.key = normPath q → ∀ c, findCls e.classes s.key.cls = some c →
      ∀ d ∈ keyDecls c, (findProp ni.props d.name).isSome = true)
    (hrefs : ∀ s ∈ e.insts, normPath s.key = normPath q → ∀ c, findCls e.classes s.key.cls = some c →
      c.isAssoc = true → ∀ p ∈ ni.props, ∀ m, refNs p.val = some m → m.isEmpty = false → ex m) :
    InvE ex { e with insts := replaceInst e.insts q q ni } := by
  have hmem : ∀ s' ∈ replaceInst e.insts q q ni,
      ∃ s ∈ e.insts, s' = (if pathEq s.key q then { s with path := q, inst := ni } else s) := by
    intro s' hs'
    unfold replaceInst at hs'
    obtain ⟨s, hs, rfl⟩ := List.mem_map.mp hs'
    exact ⟨s, hs, rfl⟩
  refine ⟨?_, ?_, ?_, ?_, ?_, ?_, ?_⟩
  · unfold UniqueKeys replaceInst
    rw [List.pairwise_map]
    refine List.Pairwise.imp ?_ h.uniq
    intro a b hab
    by_cases ha : pathEq a.key q = true <;> by_cases hb : pathEq b.key q = true <;> simp [ha, hb] <;> exact hab
  all_goals
    intro s' hs'
    obtain ⟨s, hs, rfl⟩ := hmem s' hs'
    by_cases hc : pathEq s.key q = true
  · simp only [hc, ↓reduceIte]; exact (pathEq_iff.mp hc).symm
  · simp only [hc]; exact h.pathKey s hs
  · simp only [hc, ↓reduceIte]; exact hkeys s hs (pathEq_iff.mp hc)
  · simp only [hc]; exact h.hasKeys s hs
  · simp only [hc, ↓reduceIte]; exact h.hostNone s hs
  · simp only [hc]; exact h.hostNone s hs
  · simp only [hc, ↓reduceIte]; exact h.nsOk s hs
  · simp only [hc]; exact h.nsOk s hs
  · simp only [hc, ↓reduceIte]; exact hcls s hs (pathEq_iff.mp hc)
  · simp only [hc]; exact h.instCls s hs
  · simp only [hc, ↓reduceIte]; exact hrefs s hs (pathEq_iff.mp hc)
  · simp only [hc]; exact h.refVals s hs

/-! ### hypotheses of the refinement theorems -/

/-- schema condition: defaults of reference properties are NULL -/
def RefDefaultsNullRepo (r : Repo) : Prop :=
  ∀ e ∈ r.nss, ∀ c ∈ e.classes, RefDefaultsNull c ∧ ∀ d ∈ c.props, ∀ q, d.dflt ≠ .one (.ref q)

/-- a class name denotes the same class in every namespace that has it (the namespaces were loaded from the
    same schema; needed only for association instances that live in several namespaces) -/
def SchemaCoherent (r : Repo) : Prop :=
  ∀ e1 ∈ r.nss, ∀ e2 ∈ r.nss, ∀ n c1 c2, findCls e1.classes n = some c1 → findCls e2.classes n = some c2 → c1 = c2

/-- reference-typed properties of a request hold paths or NULL -/
def PropsWF (ps : List PropV) : Prop :=
  RefWF ps ∧ ∀ p ∈ ps, (∃ q, p.val = .one (.ref q)) → isRef p = true

def OpWF : Op → Prop
  | .create _ i => PropsWF i.props
  | .modify _ i _ => PropsWF i.props
  | _ => True

/-- hypothesis of the refinement theorems for one request: no association classes at all (arbitrary requests), or
    a coherent schema with NULL reference defaults and well-formed reference values -/
def Tame (r : Repo) (op : Op) : Prop :=
  NoAssoc r ∨ (RefDefaultsNullRepo r ∧ SchemaCoherent r ∧ OpWF op)

theorem nsStep_congr {a b : Name} (h : lower a = lower b) : nsStep a = nsStep b := by
  funext acc p
  unfold nsStep
  cases refNs p.val with
  | none => rfl
  | some n => simp [nameEq_congr_right h n]

theorem multiNs_congr {a b : Name} (h : lower a = lower b) (ps : List PropV) : multiNs ps a = multiNs ps b := by
  rw [multiNs_eq_foldl, multiNs_eq_foldl, nsStep_congr h]

theorem delete_tail (r : Repo) (hinv : Inv r) (path : Path) (ns : Name) (e : NsEntry) (hns : findNs r ns = some e)
    (others : List Name) (hex : ∀ n ∈ others, (findNs r n).isSome = true)
    (hdist : NamesDistinct (others ++ [ns])) :
    normOut (if others.isEmpty = true then
        (setInsts r ns (fun l => deleteInst l (reqPath ns path)), Out.unit)
      else match deleteAll r (reqPath ns path) (others ++ [ns]) with
        | some r' => (r', Out.unit)
        | none => (r, Out.err PyExc.keyError)).2 = Out.unit ∧
    abs (if others.isEmpty = true then
        (setInsts r ns (fun l => deleteInst l (reqPath ns path)), Out.unit)
      else match deleteAll r (reqPath ns path) (others ++ [ns]) with
        | some r' => (r', Out.unit)
        | none => (r, Out.err PyExc.keyError)).1 = sDeleteAll (abs r) path (others ++ [ns]) ∧
    Inv (if others.isEmpty = true then
        (setInsts r ns (fun l => deleteInst l (reqPath ns path)), Out.unit)
      else match deleteAll r (reqPath ns path) (others ++ [ns]) with
        | some r' => (r', Out.unit)
        | none => (r, Out.err PyExc.keyError)).1 := by
  have hq : ∀ n, normPath { reqPath ns path with ns := some n } = keyIn path n := fun n => rfl
  by_cases hemp : others.isEmpty = true
  · have : others = [] := by simpa using hemp
    subst this
    simp only [List.isEmpty_nil, ↓reduceIte, List.nil_append, sDeleteAll, normOut, true_and]
    refine ⟨?_, ?_⟩
    · apply abs_setInsts
      intro l
      rw [deleteInst_abs, keyIn_eq]
    · exact inv_setInsts hinv _ _ (fun e' _ _ h' => invE_delete h' _)
  · simp only [hemp, Bool.false_eq_true, ↓reduceIte]
    have hex' : ∀ n ∈ others ++ [ns], (findNs r n).isSome = true := by
      intro n hn
      rcases List.mem_append.mp hn with h1 | h1
      · exact hex n h1
      · simp at h1; subst h1; simp [hns]
    have hsome := deleteAll_isSome (reqPath ns path) _ r hex'
    cases hda : deleteAll r (reqPath ns path) (others ++ [ns]) with
    | none => simp [hda] at hsome
    | some r' =>
      simp only [normOut, true_and]
      refine ⟨abs_deleteAll _ path hq _ _ _ hda, ?_⟩
      rw [deleteAll_eq_foldNs _ _ _ _ hda]
      apply inv_foldNs _ _ hdist r hinv
      intro n _ e' he'
      exact invE_delete (hinv.entries e' (findNs_mem he').1) _

theorem sim_delete'' (r : Repo) (path : Path) (hinv : Inv r) :
    normOut (stepDelete r path).2 = (specDelete (abs r) path).2
      ∧ abs (stepDelete r path).1 = (specDelete (abs r) path).1
      ∧ Inv (stepDelete r path).1 := by
  unfold stepDelete specDelete
  simp only [sFindNs_abs, effNs]
  have hd : (abs r).dflt = r.dflt := rfl
  simp only [hd]
  cases hns : findNs r (path.ns.getD r.dflt) with
  | none => simp [normOut, errNs, hinv]
  | some e =>
    simp only [Option.map_some]
    have hc : (absNs e).classes = e.classes := rfl
    have hp : (reqPath (path.ns.getD r.dflt) path).cls = path.cls := rfl
    simp only [hc, hp]
    cases hcl : findCls e.classes path.cls with
    | none => simp [normOut, errClass, hinv]
    | some c =>
      simp only []
      rw [absNs_map, keyIn_eq, sLookup_abs]
      cases hl : lookupInst e.insts (reqPath (path.ns.getD r.dflt) path) with
      | none => simp [normOut, errNotFound, hinv]
      | some st =>
        have hmem := findNs_mem hns
        have hie := hinv.entries e hmem.1
        have ⟨hst, hstk⟩ := lookupInst_some hl
        have hstc : findCls e.classes st.key.cls = some c := by
          rw [findCls_congr e.classes (normPath_eq_cls hstk)]; exact hcl
        simp only [Option.map_some, targets]
        apply delete_tail r hinv path _ e hns
        · intro n hn
          by_cases hca : c.isAssoc = true
          · simp only [hca, ↓reduceIte] at hn
            obtain ⟨p, hp, _, hm, _, hne⟩ := mem_multiNs hn
            exact hie.refVals st hst c hstc hca p hp n hm hne
          · simp [hca] at hn
        · by_cases hca : c.isAssoc = true
          · simp only [hca, ↓reduceIte]; exact namesDistinct_targets _ _
          · simp [hca, NamesDistinct]

theorem refs_exist {r : Repo} {ps : List PropV} (hc : checkRefsCreate r ps = none) (hwf : RefWF ps)
    (hvw : ∀ p ∈ ps, (∃ q, p.val = .one (.ref q)) → isRef p = true)
    (p : PropV) (hp : p ∈ ps) (m : Name) (hn : refNs p.val = some m) : (findNs r m).isSome = true := by
  have hq : ∃ q, p.val = .one (.ref q) := by
    cases hv : p.val with
    | null => simp [hv, refNs] at hn
    | arr _ => simp [hv, refNs] at hn
    | emb _ _ _ => simp [hv, refNs] at hn
    | one k =>
      cases k with
      | sc _ => simp [hv, refNs] at hn
      | ref q => exact ⟨q, rfl⟩
  have hr := hvw p hp hq
  obtain ⟨q, hv⟩ := hq
  have hf := firstErr_none (by unfold checkRefsCreate at hc; exact hc) p hp
  simp only [hr, ↓reduceIte] at hf
  rw [hv] at hn hf
  simp only [refNs] at hn
  exact checkEndpoint_ns hf hn

theorem exists_of_mem_multiNs {r : Repo} {ps : List PropV}
    (h : ∀ p ∈ ps, ∀ m, refNs p.val = some m → m.isEmpty = false → (findNs r m).isSome = true) (t m : Name)
    (hm : m ∈ multiNs ps t) : (findNs r m).isSome = true := by
  obtain ⟨p, hp, _, hn, _, hne⟩ := mem_multiNs hm
  exact h p hp m hn hne

/-- the part of `specCreate` after the validation of properties and end points -/
def specCreateTail (s : SRepo) (c : Cls) (i : Inst) (ns : Name) (tg : List Name) : SRepo × Out :=
  if !(tg.all (sClassIn s i.cls)) then (s, errClass)
  else
    match newInstancePath c i.props ns with
    | .error ex => (s, .err ex)
    | .ok path =>
      if tg.any (fun n => sExists s n (keyIn path n)) then (s, errExists)
      else (sInsertAll s path i tg, .path (normPath path))

theorem existsIn_eq_lookup {r : Repo} {n : Name} {e : NsEntry} (h : findNs r n = some e) (p : Path) :
    existsIn r n p = (lookupInst e.insts p).isSome := by
  unfold existsIn; rw [h]

theorem create_tail (r : Repo) (hinv : Inv r) (ns : Name) (e : NsEntry) (hns : findNs r ns = some e)
    (c : Cls) (i : Inst) (hcl : findCls e.classes i.cls = some c)
    (others : List Name) (hex : ∀ n ∈ others, (findNs r n).isSome = true)
    (hdist : NamesDistinct (others ++ [ns]))
    (hsame : ∀ n ∈ others ++ [ns], ∀ e', findNs r n = some e' → ∀ c', findCls e'.classes c.name = some c' → c' = c)
    (hrefs : c.isAssoc = true → ∀ p ∈ i.props, ∀ m, refNs p.val = some m → m.isEmpty = false →
      (findNs r m).isSome = true) :
    let res := if others.isEmpty = true then createSingle r c i ns else createMulti r c i ns others
    normOut res.2 = (specCreateTail (abs r) c i ns (others ++ [ns])).2 ∧
    abs res.1 = (specCreateTail (abs r) c i ns (others ++ [ns])).1 ∧ Inv res.1 := by
  intro res
  have hmem := findNs_mem hns
  have hex' : ∀ n ∈ others ++ [ns], (findNs r n).isSome = true := by
    intro n hn
    rcases List.mem_append.mp hn with h1 | h1
    · exact hex n h1
    · simp at h1; subst h1; simp [hns]
  -- one description of both branches of the model
  have hres : res = (match firstErr (classIn r i.cls) (others ++ [ns]) with
      | some ex => (r, Out.err ex)
      | none =>
        match newInstancePath c i.props ns with
        | .error ex => (r, .err ex)
        | .ok path =>
          if (others ++ [ns]).any (fun n => existsIn r n { path with ns := some n }) then (r, errExists)
          else (addAll r path i (others ++ [ns]), .path path)) := by
    simp only [res]
    by_cases hemp : others.isEmpty = true
    · have : others = [] := by simpa using hemp
      subst this
      have hci : classIn r i.cls ns = none := by unfold classIn; rw [hns]; simp [hcl]
      simp only [List.isEmpty_nil, ↓reduceIte, List.nil_append, firstErr, hci, createSingle]
      cases hnp : newInstancePath c i.props ns with
      | error ex => rfl
      | ok path =>
        simp only []
        obtain ⟨hh, hn, _, _⟩ := newInstancePath_ok hnp
        have hpe : ({ path with ns := some ns } : Path) = path := by cases path; simp_all
        simp only [List.any_cons, List.any_nil, Bool.or_false, hpe, existsIn_eq_lookup hns, addNew, hns, addAll]
        cases lookupInst e.insts path <;> simp [errExists]
    · simp only [hemp, Bool.false_eq_true, ↓reduceIte, createMulti]
      rfl
  rw [hres]
  unfold specCreateTail
  rw [classIn_spec r i.cls _ hex']
  by_cases hall : (others ++ [ns]).all (sClassIn (abs r) i.cls) = true
  · simp only [hall, ↓reduceIte, Bool.not_true, Bool.false_eq_true]
    cases hnp : newInstancePath c i.props ns with
    | error ex => simp [normOut, hinv]
    | ok path =>
      simp only []
      obtain ⟨hh, hn, hpc, hkeys⟩ := newInstancePath_ok hnp
      have hany : (others ++ [ns]).any (fun n => existsIn r n { path with ns := some n }) =
          (others ++ [ns]).any (fun n => sExists (abs r) n (keyIn path n)) := by
        congr 1; funext n
        rw [keyIn_of_host_none hh, sExists_abs]
      rw [hany]
      by_cases hexi : (others ++ [ns]).any (fun n => sExists (abs r) n (keyIn path n)) = true
      · simp [hexi, normOut, errExists, hinv]
      · simp only [hexi, Bool.false_eq_true, ↓reduceIte, normOut, true_and]
        refine ⟨abs_addAll path i hh _ r, ?_⟩
        rw [addAll_eq_foldNs]
        apply inv_foldNs _ _ hdist r hinv
        intro n hn e' he'
        have hfresh : lookupInst e'.insts { path with ns := some n } = none := by
          have : sExists (abs r) n (keyIn path n) = false := by
            cases hq : sExists (abs r) n (keyIn path n) with
            | false => rfl
            | true => exact absurd (List.any_eq_true.mpr ⟨n, hn, hq⟩) hexi
          rw [keyIn_of_host_none hh, sExists_abs, existsIn_eq_lookup he'] at this
          cases hl : lookupInst e'.insts { path with ns := some n } with
          | none => rfl
          | some _ => simp [hl] at this
        apply invE_append (hinv.entries e' (findNs_mem he').1) _ i hfresh hh
        · simp [(findNs_mem he').2]
        · intro c' hc'
          have : c' = c := hsame n hn e' he' c' (by rw [← hpc]; exact hc')
          subst this; exact hkeys
        · show lower i.cls = lower path.cls
          rw [hpc]; exact (findCls_some hcl).2.symm
        · intro c' hc' hca' p hp m hm hne
          have : c' = c := hsame n hn e' he' c' (by rw [← hpc]; exact hc')
          subst this
          exact hrefs hca' p hp m hm hne
  · simp [hall, normOut, errClass, hinv]

theorem refWF_adjust {c : Cls} {ps : List PropV} (h : RefWF ps) : RefWF (adjustNames c ps) := by
  intro p hp hr
  unfold adjustNames at hp
  obtain ⟨q, hq, rfl⟩ := List.mem_map.mp hp
  have hs := adjustName_same c q
  rw [hs.2.2.2]
  exact h q hq (by unfold isRef at hr ⊢; rw [← hs.2.1]; exact hr)

theorem sim_create'' (r : Repo) (nsArg : Option Name) (inst : Inst) (ht : Tame r (.create nsArg inst)) (hinv : Inv r) :
    normOut (stepCreate r nsArg inst).2 = (specCreate (abs r) nsArg inst).2
      ∧ abs (stepCreate r nsArg inst).1 = (specCreate (abs r) nsArg inst).1
      ∧ Inv (stepCreate r nsArg inst).1 := by
  unfold stepCreate specCreate
  simp only [sFindNs_abs, effNs]
  have hd : (abs r).dflt = r.dflt := rfl
  simp only [hd]
  cases hns : findNs r (nsArg.getD r.dflt) with
  | none => simp [normOut, errNs, hinv]
  | some e =>
    simp only [Option.map_some]
    have hc : (absNs e).classes = e.classes := rfl
    simp only [hc]
    cases hcl : findCls e.classes inst.cls with
    | none => simp [normOut, errClass, hinv]
    | some c =>
      simp only []
      have hmem := findNs_mem hns
      by_cases hv : (inst.props.all (validProp e.classes c)) = true
      · simp only [hv, Bool.not_true, Bool.false_eq_true, ↓reduceIte]
        have hself : ∀ e', findNs r (nsArg.getD r.dflt) = some e' → ∀ c', findCls e'.classes c.name = some c' → c' = c := by
          intro e' he' c' hc'
          rw [hns] at he'; cases he'
          rw [findCls_self hcl] at hc'; cases hc'; rfl
        by_cases hca : c.isAssoc = true
        · rcases ht with hna | ⟨_, hcoh, hwf⟩
          · have := hna e hmem.1 c (findCls_some hcl).1; rw [this] at hca; cases hca
          · obtain ⟨hwf, hvw⟩ := hwf
            have hwf' : RefWF (adjustNames c inst.props) := refWF_adjust hwf
            have hvw' : ∀ p ∈ adjustNames c inst.props, (∃ q, p.val = .one (.ref q)) → isRef p = true := by
              intro p hp hq
              unfold adjustNames at hp
              obtain ⟨p0, hp0, rfl⟩ := List.mem_map.mp hp
              have hs := adjustName_same c p0
              rw [hs.2.2.2] at hq
              have := hvw p0 hp0 hq
              unfold isRef at this ⊢; rw [hs.2.1]; exact this
            simp only [hca, ↓reduceIte, Bool.true_and, checkRefsCreate_spec r _ hwf']
            by_cases hep : ((adjustNames c inst.props).filter isRef).all (fun p => sEndpointOk (abs r) p.val) = true
            · simp only [hep, ↓reduceIte, Bool.not_true, Bool.false_eq_true, targets]
              have hcr : checkRefsCreate r (adjustNames c inst.props) = none := by
                rw [checkRefsCreate_spec r _ hwf', hep]; rfl
              have := create_tail r hinv (nsArg.getD r.dflt) e hns c
                { cls := inst.cls, props := adjustNames c inst.props, quals := inst.quals } hcl
                (multiNs (adjustNames c inst.props) (nsArg.getD r.dflt))
                (exists_of_mem_multiNs (fun p hp m hm _ => refs_exist hcr hwf' hvw' p hp m hm) _)
                (namesDistinct_targets _ _)
                (by
                  intro n hn e' he' c' hc'
                  exact (hcoh e hmem.1 e' (findNs_mem he').1 c.name c c' (findCls_self hcl) hc').symm)
                (fun _ p hp m hm _ => refs_exist hcr hwf' hvw' p hp m hm)
              simp only [specCreateTail] at this
              exact this
            · simp [hep, normOut, errParam, hinv]
        · have := create_tail r hinv (nsArg.getD r.dflt) e hns c
            { cls := inst.cls, props := adjustNames c inst.props, quals := inst.quals } hcl [] (by simp)
            (by simp [NamesDistinct])
            (by
              intro n hn e' he' c' hc'
              simp at hn; subst hn
              exact hself e' he' c' hc')
            (fun h => absurd h hca)
          simp only [hca, Bool.false_eq_true, ↓reduceIte, Bool.false_and, targets, List.nil_append]
          simp only [specCreateTail, List.nil_append, List.isEmpty_nil, ↓reduceIte] at this
          exact this
      · simp [hv, normOut, errParam, hinv]

/-! ### the reference map looks at namespace names up to case only -/

theorem sFindNs_congr (s : SRepo) {a b : Name} (h : lower a = lower b) : sFindNs s a = sFindNs s b := by
  unfold sFindNs; rw [h]

theorem sSetMap_congr (s : SRepo) {a b : Name} (h : lower a = lower b) (f : List (Path × Inst) → List (Path × Inst)) :
    sSetMap s a f = sSetMap s b f := by
  unfold sSetMap; rw [h]

theorem keyIn_congr (p : Path) {a b : Name} (h : lower a = lower b) : keyIn p a = keyIn p b := by
  unfold keyIn normPath; simp [h]

theorem sClassIn_congr (s : SRepo) (cls : Name) {a b : Name} (h : lower a = lower b) :
    sClassIn s cls a = sClassIn s cls b := by
  unfold sClassIn; rw [sFindNs_congr s h]

theorem sExists_congr (s : SRepo) {a b : Name} (h : lower a = lower b) (k : Path) : sExists s a k = sExists s b k := by
  unfold sExists; rw [sFindNs_congr s h]

theorem sReplaceAll_congr_last (q : Path) (i : Inst) {a b : Name} (h : lower a = lower b) (l : List Name) : ∀ s,
    sReplaceAll s q i (l ++ [a]) = sReplaceAll s q i (l ++ [b]) := by
  induction l with
  | nil => intro s; simp only [List.nil_append, sReplaceAll, keyIn_congr q h, sSetMap_congr s h]
  | cons n t ih => intro s; simp only [List.cons_append, sReplaceAll]; exact ih _

theorem all_congr_last {α} (f : α → Bool) {a b : α} (h : f a = f b) (l : List α) :
    (l ++ [a]).all f = (l ++ [b]).all f := by simp [h]

theorem namesDistinct_congr_last {a b : Name} (h : lower a = lower b) {l : List Name}
    (hd : NamesDistinct (l ++ [a])) : NamesDistinct (l ++ [b]) := by
  unfold NamesDistinct at hd ⊢
  rw [List.pairwise_append] at hd ⊢
  refine ⟨hd.1, by simp, ?_⟩
  intro x hx y hy
  simp at hy; subst hy
  rw [← h]
  exact hd.2.2 x hx a (by simp)

/-- the part of `specModify` after the validation of properties and end points -/
def specModifyTail (s : SRepo) (path : Path) (ni : Inst) (tg : List Name) : SRepo × Out :=
  if !(tg.all (sClassIn s ni.cls)) then (s, errClass)
  else if !(tg.all (fun n => sExists s n (keyIn path n))) then (s, errNotFound)
  else (sReplaceAll s path ni tg, .unit)

theorem any_not_eq_not_all {α} (f : α → Bool) (l : List α) : l.any (fun x => !f x) = !l.all f := by
  induction l with
  | nil => rfl
  | cons a t ih => simp only [List.any_cons, List.all_cons, ih, Bool.not_and]

theorem setInsts_congr (r : Repo) {a b : Name} (h : lower a = lower b) (f : List Stored → List Stored) :
    setInsts r a f = setInsts r b f := by
  unfold setInsts
  congr 1
  apply List.map_congr_left
  intro e _
  rw [nameEq_congr_right h]

theorem findNs_congr (r : Repo) {a b : Name} (h : lower a = lower b) : findNs r a = findNs r b := by
  unfold findNs
  congr 1
  funext e
  exact nameEq_congr_right h _

theorem modify_tail (r : Repo) (hinv : Inv r) (path : Path) (ns : Name) (e : NsEntry) (hns : findNs r ns = some e)
    (st : Stored) (hl : lookupInst e.insts (reqPath ns path) = some st)
    (c : Cls) (hstc : findCls e.classes st.key.cls = some c)
    (ni : Inst) (hnc : ni.cls = st.inst.cls)
    (hprops : ∀ n, (findProp st.inst.props n).isSome = true → (findProp ni.props n).isSome = true)
    (others : List Name) (hex : ∀ n ∈ others, (findNs r n).isSome = true)
    (hdist : NamesDistinct (others ++ [ns]))
    (hsame : ∀ n ∈ others ++ [ns], ∀ e', findNs r n = some e' → ∀ c', findCls e'.classes c.name = some c' → c' = c)
    (hrefs : c.isAssoc = true → ∀ p ∈ ni.props, ∀ m, refNs p.val = some m → m.isEmpty = false →
      (findNs r m).isSome = true) :
    let res := if others.isEmpty = true then
        (if (lookupInst e.insts st.path).isNone = true then (r, Out.err PyExc.keyError)
         else (setInsts r ns (fun l => replaceInst l st.path st.path ni), Out.unit))
      else modifyMulti r st.path ni others
    normOut res.2 = (specModifyTail (abs r) path ni (others ++ [ns])).2 ∧
    abs res.1 = (specModifyTail (abs r) path ni (others ++ [ns])).1 ∧ Inv res.1 := by
  intro res
  have hmem := findNs_mem hns
  have hie := hinv.entries e hmem.1
  have ⟨hst, hstk⟩ := lookupInst_some hl
  have hsp : normPath st.path = normPath (reqPath ns path) := (hie.pathKey st hst).trans hstk
  have hlk : lookupInst e.insts st.path = some st := by rw [lookupInst_congr e.insts hsp]; exact hl
  -- the namespace written in the stored path
  obtain ⟨n0, hn0, hl0⟩ : ∃ n0, st.path.ns = some n0 ∧ lower n0 = lower ns := by
    have := congrArg Path.ns hsp
    simp only [normPath, reqPath, Option.map_some] at this
    cases hh : st.path.ns with
    | none => simp [hh] at this
    | some n0 => simp [hh] at this; exact ⟨n0, rfl, this⟩
  have hpeta : ({ st.path with ns := some n0 } : Path) = st.path := by
    cases hp : st.path; simp_all
  have hq : ∀ n, normPath { st.path with ns := some n } = keyIn path n := by
    intro n
    rw [normPath_set_ns, hsp]; rfl
  have hcls0 : lower st.key.cls = lower c.name := (findCls_some hstc).2.symm
  have hnicls : findCls e.classes ni.cls = some c := by
    rw [hnc, findCls_congr e.classes (hie.instCls st hst)]; exact hstc
  have hex0 : ∀ n ∈ others ++ [n0], (findNs r n).isSome = true := by
    intro n hn
    rcases List.mem_append.mp hn with h1 | h1
    · exact hex n h1
    · simp at h1; subst h1; rw [findNs_congr r hl0, hns]; rfl
  have hres : res = (match firstErr (classIn r ni.cls) (others ++ [n0]) with
      | some ex => (r, Out.err ex)
      | none =>
        if (others ++ [n0]).any (fun n => !existsIn r n { st.path with ns := some n }) then (r, errNotFound)
        else (replaceAll r st.path ni (others ++ [n0]), Out.unit)) := by
    simp only [res]
    by_cases hemp : others.isEmpty = true
    · have : others = [] := by simpa using hemp
      subst this
      have hci : classIn r ni.cls n0 = none := by
        unfold classIn; rw [findNs_congr r hl0, hns]; simp [hnicls]
      have hexi : existsIn r n0 st.path = true := by
        rw [existsIn, findNs_congr r hl0, hns]; simp [hlk]
      simp only [List.isEmpty_nil, ↓reduceIte, List.nil_append, firstErr, hci, hlk, Option.isNone_some,
        Bool.false_eq_true, List.any_cons, List.any_nil, Bool.or_false, hexi, Bool.not_true, replaceAll, hpeta,
        setInsts_congr r hl0]
    · simp only [hemp, Bool.false_eq_true, ↓reduceIte, modifyMulti, hn0, Option.getD_some]
      rfl
  rw [hres]
  unfold specModifyTail
  rw [classIn_spec r ni.cls _ hex0,
    all_congr_last (sClassIn (abs r) ni.cls) (sClassIn_congr (abs r) ni.cls hl0) others]
  by_cases hall : (others ++ [ns]).all (sClassIn (abs r) ni.cls) = true
  · simp only [hall, ↓reduceIte, Bool.not_true, Bool.false_eq_true]
    have hany : (others ++ [n0]).any (fun n => !existsIn r n { st.path with ns := some n }) =
        !(others ++ [ns]).all (fun n => sExists (abs r) n (keyIn path n)) := by
      rw [any_not_eq_not_all]
      congr 1
      have : (fun n => existsIn r n { st.path with ns := some n }) = fun n => sExists (abs r) n (keyIn path n) := by
        funext n; rw [← hq n, sExists_abs]
      rw [this]
      apply all_congr_last
      rw [sExists_congr (abs r) hl0, keyIn_congr path hl0]
    rw [hany]
    by_cases hexi : (others ++ [ns]).all (fun n => sExists (abs r) n (keyIn path n)) = true
    · simp only [hexi, Bool.not_true, Bool.false_eq_true, ↓reduceIte, normOut, true_and]
      refine ⟨?_, ?_⟩
      · rw [abs_replaceAll st.path path ni hq, sReplaceAll_congr_last path ni hl0]
      · rw [replaceAll_eq_foldNs]
        apply inv_foldNs _ _ (namesDistinct_congr_last hl0.symm hdist) r hinv
        intro n hn e' he'
        have hn' : n ∈ others ++ [ns] ∨ n = n0 := by
          rcases List.mem_append.mp hn with h1 | h1
          · exact Or.inl (List.mem_append.mpr (Or.inl h1))
          · exact Or.inr (by simpa using h1)
        have hsame' : ∀ c', findCls e'.classes c.name = some c' → c' = c := by
          intro c' hc'
          rcases hn' with h1 | h1
          · exact hsame n h1 e' he' c' hc'
          · subst h1
            rw [findNs_congr r hl0] at he'
            exact hsame ns (by simp) e' he' c' hc'
        apply invE_replace2 (hinv.entries e' (findNs_mem he').1)
        · intro s hs hk
          have h1 := normPath_eq_cls hk
          simp only at h1
          rw [hnc, hie.instCls st hst, h1]
          exact (normPath_eq_cls (hie.pathKey st hst)).symm
        · intro s hs hk c' hc' d hd
          have h1 : lower s.key.cls = lower c.name := by
            have := normPath_eq_cls hk
            simp only at this
            rw [this, normPath_eq_cls (hie.pathKey st hst)]; exact hcls0
          rw [findCls_congr e'.classes h1] at hc'
          have := hsame' c' hc'
          subst this
          exact hprops _ (hie.hasKeys st hst c' hstc d hd)
        · intro s hs hk c' hc' hca p hp m hm hne
          have h1 : lower s.key.cls = lower c.name := by
            have := normPath_eq_cls hk
            simp only at this
            rw [this, normPath_eq_cls (hie.pathKey st hst)]; exact hcls0
          rw [findCls_congr e'.classes h1] at hc'
          have := hsame' c' hc'
          subst this
          exact hrefs hca p hp m hm hne
    · simp [hexi, normOut, errNotFound, hinv]
  · simp [hall, normOut, errClass, hinv]

theorem findNs_isSome_congr (r : Repo) {a b : Name} (h : lower a = lower b) :
    (findNs r a).isSome = (findNs r b).isSome := by rw [findNs_congr r h]

theorem refNs_normVal {a b : Val} (h : normVal a = normVal b) : (refNs a).map lower = (refNs b).map lower := by
  cases a with
  | null => cases b <;> simp_all [normVal, refNs]
  | arr xs => cases b <;> simp_all [normVal, refNs]
  | emb x y z => cases b <;> simp_all [normVal, refNs]
  | one k =>
    cases b with
    | one k' =>
      simp only [normVal, Val.one.injEq] at h
      cases k with
      | sc s => cases k' <;> simp_all [normKV, refNs]
      | ref q =>
        cases k' with
        | sc s => simp_all [normKV]
        | ref q' =>
          simp only [normKV, KV.ref.injEq] at h
          have := congrArg Path0.ns h
          simpa [normPath0, refNs] using this
    | null => simp_all [normVal]
    | arr xs => simp_all [normVal]
    | emb x y z => simp_all [normVal]

theorem val_ref_of_refNs {v : Val} {m : Name} (h : refNs v = some m) : ∃ q, v = .one (.ref q) ∧ q.ns = some m := by
  cases v with
  | null => simp [refNs] at h
  | arr _ => simp [refNs] at h
  | emb _ _ _ => simp [refNs] at h
  | one k =>
    cases k with
    | sc _ => simp [refNs] at h
    | ref q => exact ⟨q, rfl, by simpa [refNs] using h⟩

theorem isEmpty_lower (m : Name) : (lower m).isEmpty = m.isEmpty := by
  unfold lower; cases m <;> rfl

theorem updated_refvals_exist {r : Repo} (hinv : Inv r) {e : NsEntry} (he : e ∈ r.nss)
    {st : Stored} (hst : st ∈ e.insts) {c : Cls} (hstc : findCls e.classes st.key.cls = some c) (hca : c.isAssoc = true)
    {ps : List PropV} (hvw : ∀ p ∈ ps, (∃ q, p.val = .one (.ref q)) → isRef p = true)
    (hcm : checkRefsModify r st.inst.props ps = none) :
    ∀ p ∈ updateProps st.inst.props ps, ∀ m, refNs p.val = some m → m.isEmpty = false → (findNs r m).isSome = true := by
  intro p hp m hm hne
  have hie := hinv.entries e he
  rcases mem_updateProps hp with h1 | h1
  · exact hie.refVals st hst c hstc hca p h1 m hm hne
  · obtain ⟨q, hv, hqn⟩ := val_ref_of_refNs hm
    have hr := hvw p h1 ⟨q, hv⟩
    have hf := firstErr_none (by unfold checkRefsModify at hcm; exact hcm) p h1
    simp only [hr, ↓reduceIte, hv] at hf
    cases hfp : findProp st.inst.props p.name with
    | none =>
      simp only [hfp] at hf
      exact checkEndpoint_ns hf hqn
    | some sp =>
      simp only [hfp] at hf
      by_cases hne' : valNe (Val.one (KV.ref q)) sp.val = true
      · simp only [hne', ↓reduceIte] at hf
        exact checkEndpoint_ns hf hqn
      · have heq : normVal (Val.one (KV.ref q)) = normVal sp.val := by
          unfold valNe at hne'; simpa using hne'
        have := refNs_normVal heq
        have h3 : refNs (Val.one (KV.ref q)) = q.ns := rfl
        rw [h3, hqn] at this
        simp only [Option.map_some] at this
        cases hsn : refNs sp.val with
        | none => rw [hsn] at this; simp at this
        | some m' =>
          rw [hsn] at this
          simp only [Option.map_some, Option.some.injEq] at this
          have hne2 : m'.isEmpty = false := by
            rw [← isEmpty_lower, ← this, isEmpty_lower]; exact hne
          have := hie.refVals st hst c hstc hca sp (findProp_some hfp).1 m' hsn hne2
          rw [findNs_isSome_congr r ‹lower m = lower m'›]; exact this

theorem valWF_reduced {c : Cls} {ps : List PropV} {pl : Option (List Name)}
    (hd : ∀ d ∈ c.props, ∀ q, d.dflt ≠ .one (.ref q))
    (h : ∀ p ∈ ps, (∃ q, p.val = .one (.ref q)) → isRef p = true) :
    ∀ p ∈ adjustNames c (reduceByPl c ps pl), (∃ q, p.val = .one (.ref q)) → isRef p = true := by
  intro p hp hq
  unfold adjustNames at hp
  obtain ⟨p0, hp0, rfl⟩ := List.mem_map.mp hp
  have hs := adjustName_same c p0
  rw [hs.2.2.2] at hq
  have hr0 : isRef p0 = true := by
    rcases mem_reduceByPl hp0 with h1 | ⟨d, hdm, rfl⟩
    · exact h p0 h1 hq
    · obtain ⟨q, hq⟩ := hq
      exact absurd hq (hd d hdm q)
  unfold isRef at hr0 ⊢; rw [hs.2.1]; exact hr0

theorem sim_modify'' (r : Repo) (path : Path) (inst : Inst) (pl : Option (List Name))
    (ht : Tame r (.modify path inst pl)) (hinv : Inv r) :
    normOut (stepModify r path inst pl).2 = (specModify (abs r) path inst pl).2
      ∧ abs (stepModify r path inst pl).1 = (specModify (abs r) path inst pl).1
      ∧ Inv (stepModify r path inst pl).1 := by
  unfold stepModify specModify
  simp only [sFindNs_abs, effNs]
  have hd : (abs r).dflt = r.dflt := rfl
  have hp : (reqPath (path.ns.getD r.dflt) path).cls = path.cls := rfl
  simp only [hd, hp]
  by_cases hne : nameEq inst.cls path.cls = true
  · simp only [hne, Bool.not_true, Bool.false_eq_true, ↓reduceIte]
    cases hns : findNs r (path.ns.getD r.dflt) with
    | none => simp [normOut, errNs, hinv]
    | some e =>
      simp only [Option.map_some]
      have hc : (absNs e).classes = e.classes := rfl
      simp only [hc]
      cases hcl : findCls e.classes inst.cls with
      | none => simp [normOut, errClass, hinv]
      | some c =>
        simp only []
        rw [absNs_map, keyIn_eq, sLookup_abs]
        cases hl : lookupInst e.insts (reqPath (path.ns.getD r.dflt) path) with
        | none => simp [normOut, errNotFound, hinv]
        | some st =>
          simp only [Option.map_some]
          have hmem := findNs_mem hns
          have hie := hinv.entries e hmem.1
          have ⟨hst, hstk⟩ := lookupInst_some hl
          have hcls : lower st.key.cls = lower inst.cls := by
            have := normPath_eq_cls hstk
            rw [this]; exact (nameEq_iff.mp hne).symm
          have hstc : findCls e.classes st.key.cls = some c := by
            rw [findCls_congr e.classes hcls]; exact hcl
          have hkeys : ∀ d ∈ keyDecls c, (findProp st.inst.props d.name).isSome = true :=
            hie.hasKeys st hst c hstc
          by_cases hpl : plBad c pl = true
          · simp [hpl, normOut, errParam, hinv]
          · simp only [hpl, Bool.false_eq_true, ↓reduceIte]
            rw [firstErr_ite _ _ _ _ (fun x _ => keyCheck_spec hkeys x), plKeyCheck_spec hkeys]
            by_cases h1 : (inst.props.all (sPropOk e.classes c st.inst.props)) = true
            · simp only [h1, ↓reduceIte, Bool.not_true, Bool.false_eq_true]
              by_cases h2 : ((pl.getD []).all (sPlKeyOk c st.inst.props inst.props)) = true
              · simp only [h2, ↓reduceIte, Bool.not_true, Bool.false_eq_true]
                have hself : ∀ e', findNs r (path.ns.getD r.dflt) = some e' → ∀ c', findCls e'.classes c.name = some c' → c' = c := by
                  intro e' he' c' hc'
                  rw [hns] at he'; cases he'
                  rw [findCls_self hcl] at hc'; cases hc'; rfl
                by_cases hca : c.isAssoc = true
                · rcases ht with hna | ⟨hdn, hcoh, hwf, hvw⟩
                  · have := hna e hmem.1 c (findCls_some hcl).1; rw [this] at hca; cases hca
                  · have hdc := hdn e hmem.1 c (findCls_some hcl).1
                    have hwf' := refWF_reduced (pl := pl) hdc.1 hwf
                    have hvw' := valWF_reduced (pl := pl) hdc.2 hvw
                    simp only [hca, ↓reduceIte, Bool.true_and, checkRefsModify_spec r _ _ hwf']
                    by_cases hrk : (adjustNames c (reduceByPl c inst.props pl)).all (sRefOk (abs r) st.inst.props) = true
                    · simp only [hrk, ↓reduceIte, Bool.not_true, Bool.false_eq_true, targets]
                      have hcm : checkRefsModify r st.inst.props (adjustNames c (reduceByPl c inst.props pl)) = none := by
                        rw [checkRefsModify_spec r _ _ hwf', hrk]; rfl
                      have hrv := updated_refvals_exist hinv hmem.1 hst hstc hca hvw' hcm
                      have := modify_tail r hinv path (path.ns.getD r.dflt) e hns st hl c hstc
                        { cls := st.inst.cls, props := updateProps st.inst.props (adjustNames c (reduceByPl c inst.props pl)), quals := st.inst.quals }
                        rfl (fun n hn => findProp_updateProps_isSome _ _ n hn)
                        (multiNs (updateProps st.inst.props (adjustNames c (reduceByPl c inst.props pl))) (path.ns.getD r.dflt))
                        (exists_of_mem_multiNs hrv _)
                        (namesDistinct_targets _ _)
                        (by
                          intro n hn e' he' c' hc'
                          exact (hcoh e hmem.1 e' (findNs_mem he').1 c.name c c' (findCls_self hcl) hc').symm)
                        (fun _ => hrv)
                      simp only [specModifyTail] at this
                      exact this
                    · simp [hrk, normOut, errParam, hinv]
                · have := modify_tail r hinv path (path.ns.getD r.dflt) e hns st hl c hstc
                    { cls := st.inst.cls, props := updateProps st.inst.props (adjustNames c (reduceByPl c inst.props pl)), quals := st.inst.quals }
                    rfl (fun n hn => findProp_updateProps_isSome _ _ n hn) [] (by simp) (by simp [NamesDistinct])
                    (by
                      intro n hn e' he' c' hc'
                      simp at hn; subst hn
                      exact hself e' he' c' hc')
                    (fun h => absurd h hca)
                  simp only [hca, Bool.false_eq_true, ↓reduceIte, Bool.false_and, targets, List.nil_append]
                  simp only [specModifyTail, List.nil_append, List.isEmpty_nil, ↓reduceIte] at this
                  exact this
              · simp [h2, normOut, errParam, hinv]
            · simp [h1, normOut, errParam, hinv]
  · simp [hne, normOut, errParam, hinv]

/-- same default namespace, same namespaces with the same classes (only instance lists may differ) -/
def SameSchema (r r' : Repo) : Prop :=
  r'.dflt = r.dflt ∧ r'.nss.map (fun e => (e.name, e.classes)) = r.nss.map (fun e => (e.name, e.classes))

theorem sameSchema_refl (r : Repo) : SameSchema r r := ⟨rfl, rfl⟩

theorem sameSchema_trans {a b c : Repo} (h1 : SameSchema a b) (h2 : SameSchema b c) : SameSchema a c :=
  ⟨h2.1.trans h1.1, h2.2.trans h1.2⟩

theorem sameSchema_setInsts (r : Repo) (ns : Name) (f : List Stored → List Stored) : SameSchema r (setInsts r ns f) := by
  refine ⟨rfl, ?_⟩
  unfold setInsts
  simp only [List.map_map]
  apply List.map_congr_left
  intro e _
  simp only [Function.comp]
  by_cases h : nameEq e.name ns = true <;> simp [h]

theorem sameSchema_addAll (path : Path) (i : Inst) (l : List Name) : ∀ r, SameSchema r (addAll r path i l) := by
  induction l with
  | nil => intro r; exact sameSchema_refl r
  | cons n t ih => intro r; exact sameSchema_trans (sameSchema_setInsts r _ _) (ih _)

theorem sameSchema_replaceAll (path : Path) (i : Inst) (l : List Name) : ∀ r, SameSchema r (replaceAll r path i l) := by
  induction l with
  | nil => intro r; exact sameSchema_refl r
  | cons n t ih => intro r; exact sameSchema_trans (sameSchema_setInsts r _ _) (ih _)

theorem sameSchema_deleteAll (path : Path) (l : List Name) : ∀ r r', deleteAll r path l = some r' → SameSchema r r' := by
  induction l with
  | nil => intro r r' h; simp [deleteAll] at h; subst h; exact sameSchema_refl r
  | cons n t ih =>
    intro r r' h
    simp only [deleteAll] at h
    split at h
    · cases h
    · exact sameSchema_trans (sameSchema_setInsts r _ _) (ih _ _ h)

theorem sameSchema_addNew {r r' : Repo} {ns : Name} {path : Path} {i : Inst} (h : addNew r ns path i = some r') :
    SameSchema r r' := by
  unfold addNew at h
  split at h
  · cases h
  · split at h
    · cases h
    · cases h; exact sameSchema_setInsts r _ _

theorem step_sameSchema (r : Repo) (op : Op) : SameSchema r (step r op).1 := by
  cases op with
  | create ns i =>
    simp only [step]; unfold stepCreate createSingle createMulti
    simp only []
    repeat' split
    all_goals first
      | exact sameSchema_refl r
      | exact sameSchema_setInsts r _ _
      | exact sameSchema_addAll _ _ _ r
      | (rename_i h; exact sameSchema_addNew h)
  | modify p i pl =>
    simp only [step]; unfold stepModify modifyMulti
    simp only []
    repeat' split
    all_goals first
      | exact sameSchema_refl r
      | exact sameSchema_setInsts r _ _
      | exact sameSchema_replaceAll _ _ _ r
  | delete p =>
    simp only [step]; unfold stepDelete
    simp only []
    repeat' split
    all_goals first
      | exact sameSchema_refl r
      | exact sameSchema_setInsts r _ _
      | (rename_i h; exact sameSchema_deleteAll _ _ _ _ h)
  | get p pl o =>
    simp only [step]; rw [(sim_get r p pl o).2.1]; exact sameSchema_refl r
  | enumInsts ns c di pl o =>
    simp only [step]; unfold stepEnumInsts; simp only []
    repeat' split
    all_goals exact sameSchema_refl r
  | enumNames ns c =>
    simp only [step]; unfold stepEnumNames; simp only []
    repeat' split
    all_goals exact sameSchema_refl r

theorem classes_of_sameSchema {r r' : Repo} (h : SameSchema r r') {e' : NsEntry} (he' : e' ∈ r'.nss) :
    ∃ e ∈ r.nss, e.classes = e'.classes ∧ e.name = e'.name := by
  have : (e'.name, e'.classes) ∈ r'.nss.map (fun e => (e.name, e.classes)) := List.mem_map.mpr ⟨e', he', rfl⟩
  rw [h.2] at this
  obtain ⟨e, he, heq⟩ := List.mem_map.mp this
  simp only [Prod.mk.injEq] at heq
  exact ⟨e, he, heq.2, heq.1⟩

theorem noAssoc_of_sameSchema {r r' : Repo} (h : SameSchema r r') (hna : NoAssoc r) : NoAssoc r' := by
  intro e' he' c hc
  obtain ⟨e, he, hcl, _⟩ := classes_of_sameSchema h he'
  exact hna e he c (hcl ▸ hc)

theorem refDefaults_of_sameSchema {r r' : Repo} (h : SameSchema r r') (hd : RefDefaultsNullRepo r) :
    RefDefaultsNullRepo r' := by
  intro e' he' c hc
  obtain ⟨e, he, hcl, _⟩ := classes_of_sameSchema h he'
  exact hd e he c (hcl ▸ hc)

theorem coherent_of_sameSchema {r r' : Repo} (h : SameSchema r r') (hd : SchemaCoherent r) : SchemaCoherent r' := by
  intro e1' he1' e2' he2' n c1 c2 h1 h2
  obtain ⟨e1, he1, hcl1, _⟩ := classes_of_sameSchema h he1'
  obtain ⟨e2, he2, hcl2, _⟩ := classes_of_sameSchema h he2'
  exact hd e1 he1 e2 he2 n c1 c2 (hcl1 ▸ h1) (hcl2 ▸ h2)


/-! ### one step, whole histories -/

/-- hypothesis of the refinement theorems for a whole history -/
def TameRun (r : Repo) (ops : List Op) : Prop :=
  NoAssoc r ∨ (RefDefaultsNullRepo r ∧ SchemaCoherent r ∧ ∀ op ∈ ops, OpWF op)

theorem sim_step'' (r : Repo) (op : Op) (ht : Tame r op) (hinv : Inv r) :
    normOut (step r op).2 = (sstep (abs r) op).2 ∧ abs (step r op).1 = (sstep (abs r) op).1
      ∧ Inv (step r op).1 := by
  cases op with
  | create ns i => exact sim_create'' r ns i ht hinv
  | modify p i pl => exact sim_modify'' r p i pl ht hinv
  | delete p => exact sim_delete'' r p hinv
  | get p pl o =>
    have h := sim_get r p pl o
    simp only [step, sstep]
    rw [h.2.1, h.2.2]; exact ⟨h.1, rfl, hinv⟩
  | enumInsts ns c di pl o =>
    have h := sim_enumInsts r ns c di pl hinv o
    simp only [step, sstep]
    rw [h.2.1, h.2.2]; exact ⟨h.1, rfl, hinv⟩
  | enumNames ns c =>
    have h := sim_enumNames r ns c hinv
    simp only [step, sstep]
    rw [h.2.1, h.2.2]; exact ⟨h.1, rfl, hinv⟩

theorem sim_run'' (ops : List Op) : ∀ (r : Repo), TameRun r ops → Inv r →
    (Pywbem.Model.Store.run r ops).2.map normOut = (Pywbem.Model.StoreSpec.run (abs r) ops).2
      ∧ abs (Pywbem.Model.Store.run r ops).1 = (Pywbem.Model.StoreSpec.run (abs r) ops).1
      ∧ Inv (Pywbem.Model.Store.run r ops).1 := by
  induction ops with
  | nil => intro r _ hinv; exact ⟨rfl, rfl, hinv⟩
  | cons op t ih =>
    intro r ht hinv
    have ht1 : Tame r op := by
      rcases ht with h | ⟨h1, h2, h3⟩
      · exact Or.inl h
      · exact Or.inr ⟨h1, h2, h3 op (by simp)⟩
    obtain ⟨h1, h2, h3⟩ := sim_step'' r op ht1 hinv
    have hss := step_sameSchema r op
    have ht2 : TameRun (step r op).1 t := by
      rcases ht with h | ⟨h1', h2', h3'⟩
      · exact Or.inl (noAssoc_of_sameSchema hss h)
      · exact Or.inr ⟨refDefaults_of_sameSchema hss h1', coherent_of_sameSchema hss h2', fun o ho => h3' o (by simp [ho])⟩
    obtain ⟨i1, i2, i3⟩ := ih (step r op).1 ht2 h3
    simp only [Pywbem.Model.Store.run, Pywbem.Model.StoreSpec.run, List.map_cons]
    rw [← h2, ← h1]
    exact ⟨by rw [i1], i2, i3⟩

end Proofs.Store
