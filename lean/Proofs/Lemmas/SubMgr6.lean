/-
Helper lemmas for C18, part 6: the context manager, what add calls return, duplicate adds.
-/
import Proofs.Lemmas.SubMgr5

namespace Proofs.SubMgr
open Pywbem.Model.SubMgr Pywbem.Proto

/-! ### leaving the context manager -/

theorem exit_world_eq_removeAll (w : World) (m : Nat) (exc : Option Nat) :
    (step w (.exitCtx m exc)).1 = (step w (.removeAll m)).1 := by
  simp only [step]
  cases w.ids m with
  | none => rfl
  | some _ =>
    simp only []
    generalize removeAllLoop m w (w.servers m) = r
    obtain ⟨w1, out1⟩ := r
    cases out1 <;> rfl

theorem exit_result (w : World) (m : Nat) (exc : Option Nat) :
    ((step w (.removeAll m)).2 = .done → (step w (.exitCtx m exc)).2 = .exited exc.isSome) ∧
    (∀ e, (step w (.removeAll m)).2 = .err e → (step w (.exitCtx m exc)).2 = .err e) := by
  simp only [step]
  cases w.ids m with
  | none => simp
  | some _ =>
    simp only []
    generalize removeAllLoop m w (w.servers m) = r
    obtain ⟨w1, out1⟩ := r
    cases out1 <;> simp

/-! ### what an add call returns -/

theorem findDup_some {url : Nat} {ptv : Option Nat} {l : List Dest} {d : Dest}
    (h : findDup url ptv l = .ok (some d)) : d ∈ l ∧ d.url = url ∧ d.ptype = ptv := by
  induction l with
  | nil => simp [findDup] at h
  | cons x xs ih =>
    unfold findDup at h
    by_cases hu : x.url = url
    · simp only [hu, if_true] at h
      cases hp : x.ptype with
      | none => simp [hp] at h
      | some p =>
        simp only [hp] at h
        by_cases e : some p = ptv
        · simp only [e, if_true, Except.ok.injEq, Option.some.injEq] at h
          subst h; exact ⟨by simp, hu, by rw [hp, e]⟩
        · simp only [e, if_false] at h
          obtain ⟨a, b, c⟩ := ih h; exact ⟨by simp [a], b, c⟩
    · simp only [hu, if_false] at h
      obtain ⟨a, b, c⟩ := ih h; exact ⟨by simp [a], b, c⟩

/-- an existing owned destination with the same URL and PersistenceType is found (when every owned
    destination before it has a PersistenceType) -/
theorem findDup_finds {url : Nat} {p : Nat} {l : List Dest} (hall : ∀ d ∈ l, d.ptype ≠ none)
    (hex : ∃ d ∈ l, d.url = url ∧ d.ptype = some p) :
    ∃ d, findDup url (some p) l = .ok (some d) := by
  induction l with
  | nil => simp at hex
  | cons x xs ih =>
    unfold findDup
    by_cases hu : x.url = url
    · simp only [hu, if_true]
      cases hp : x.ptype with
      | none => exact absurd hp (hall x (by simp))
      | some q =>
        simp only []
        by_cases e : some q = some p
        · simp [e]
        · simp only [e, if_false]
          apply ih (fun d hd => hall d (by simp [hd]))
          obtain ⟨d, hd, h1, h2⟩ := hex
          simp at hd
          rcases hd with rfl | hd
          · rw [hp] at h2; exact absurd h2 e
          · exact ⟨d, hd, h1, h2⟩
    · simp only [hu, if_false]
      apply ih (fun d hd => hall d (by simp [hd]))
      obtain ⟨d, hd, h1, h2⟩ := hex
      simp at hd
      rcases hd with rfl | hd
      · exact absurd h1 hu
      · exact ⟨d, hd, h1, h2⟩

/-- owned `add_destination`: the instance handed back is in the manager's list afterwards (hence, by
    `Good.agree`, carries its marker and exists in the server); permanent: exists, is not listed -/
theorem addDest_returns {id : Str} {st : Store} {o : Owned} (ha : Agree id st o) (reg : Bool) (a : DestArgs)
    (d : Dest) (h : (stepAddDest reg id st o a).out = .dest d) :
    (a.owned = true → ∃ l, (stepAddDest reg id st o a).o.od = some l ∧ d ∈ l) ∧
    (a.owned = false → d ∈ (stepAddDest reg id st o a).st.dests ∧
        ∀ l, (stepAddDest reg id st o a).o.od = some l → d ∉ l) := by
  obtain ⟨ld, hld, hnd, hmem⟩ := ha.od
  unfold stepAddDest at h ⊢
  by_cases h1 : argErr a.owned a.destId a.name = true
  · simp [h1] at h
  by_cases h2 : destIdBad a.destId = true
  · simp [h1, h2] at h
  simp only [h1, h2, Bool.false_eq_true, if_false] at h ⊢
  cases hv : validatePT a.pt with
  | error e => simp [hv] at h
  | ok ptv0 =>
    simp only [hv] at h ⊢
    cases reg with
    | false => simp at h
    | true =>
      simp only [Bool.not_true, Bool.false_eq_true, if_false] at h ⊢
      cases hu : a.url with
      | none => simp [hu] at h
      | some url =>
        simp only [hu] at h ⊢
        by_cases h4 : st.dests.any (fun d => d.path.name == destName id a) = true
        · simp [h4] at h
        simp only [h4, Bool.false_eq_true, if_false] at h ⊢
        cases how : a.owned with
        | true =>
          simp only [how, if_true, hld] at h ⊢
          refine ⟨fun _ => ?_, fun e => by simp at e⟩
          cases hfd : findDup url (effPT a ptv0) ld with
          | error e => simp [hfd] at h
          | ok r =>
            cases r with
            | some x =>
              simp only [hfd] at h ⊢
              have : x = d := by simpa using h
              subst this
              exact ⟨ld, hld, (findDup_some hfd).1⟩
            | none =>
              simp only [hfd] at h ⊢
              cases hcr : createDest st (destName id a) url (effPT a ptv0) with
              | error e => simp [hcr] at h
              | ok p =>
                obtain ⟨st', x⟩ := p
                simp only [hcr] at h ⊢
                have : x = d := by simpa using h
                subst this
                exact ⟨_, rfl, by simp⟩
        | false =>
          simp only [how, Bool.false_eq_true, if_false] at h ⊢
          refine ⟨fun e => by simp at e, fun _ => ?_⟩
          cases hcr : createDest st (destName id a) url (effPT a ptv0) with
          | error e => simp [hcr] at h
          | ok p =>
            obtain ⟨st', x⟩ := p
            simp only [hcr] at h ⊢
            have : x = d := by simpa using h
            subst this
            obtain ⟨_, hnew, rfl⟩ := createDest_ok hcr
            refine ⟨by simp, fun l hl hx => ?_⟩
            rw [hld] at hl
            have := Option.some.inj hl; subst this
            have : st.hasDest x.path = true := hasDest_iff.mpr ⟨x, ((hmem x).mp hx).1, rfl⟩
            simp [hnew] at this

theorem addFilter_returns {id : Str} {st : Store} {o : Owned} (ha : Agree id st o) (reg owned : Bool)
    (fid name : Option Str) (f : Filt) (h : (stepAddFilter reg id st o owned fid name).out = .filt f) :
    (owned = true → ∃ l, (stepAddFilter reg id st o owned fid name).o.of = some l ∧ f ∈ l) ∧
    (owned = false → f ∈ (stepAddFilter reg id st o owned fid name).st.filts ∧
        ∀ l, (stepAddFilter reg id st o owned fid name).o.of = some l → f ∉ l) := by
  obtain ⟨lf, hlf, hnd, hmem⟩ := ha.of
  unfold stepAddFilter at h ⊢
  by_cases h1 : argErr owned fid name = true
  · simp [h1] at h
  by_cases h2 : filterIdBad fid = true
  · simp [h1, h2] at h
  cases reg with
  | false => simp [h1, h2] at h
  | true =>
    by_cases h4 : st.filts.any (fun f => f.path.name == filterName id fid name) = true
    · simp [h1, h2, h4] at h
    simp only [h1, h2, h4, Bool.not_true, Bool.false_eq_true, if_false] at h ⊢
    cases hcr : createFilt st (filterName id fid name) with
    | error e => simp [hcr] at h
    | ok p =>
      obtain ⟨st', x⟩ := p
      simp only [hcr] at h ⊢
      have hso : fid.isSome = owned := by
        cases owned <;> cases fid <;> cases name <;> simp_all [argErr]
      cases owned with
      | true =>
        simp only [hso, if_true, hlf] at h ⊢
        have : x = f := by simpa using h
        subst this
        exact ⟨fun _ => ⟨_, rfl, by simp⟩, fun e => by simp at e⟩
      | false =>
        simp only [hso, Bool.false_eq_true, if_false] at h ⊢
        have : x = f := by simpa using h
        subst this
        obtain ⟨_, hnew, rfl⟩ := createFilt_ok hcr
        refine ⟨fun e => by simp at e, fun _ => ⟨by simp, fun l hl hx => ?_⟩⟩
        rw [hlf] at hl
        have := Option.some.inj hl; subst this
        have : st.hasFilt x.path = true := hasFilt_iff.mpr ⟨x, ((hmem x).mp hx).1, rfl⟩
        simp [hnew] at this

/-- the list `_owned_subscriptions[server_id]` only grows during add_subscriptions, and what an owned call
    returns is in it -/
theorem addSub1_returns (reg : Bool) (id : Str) (st : Store) (o : Owned) (f d : Path) (l : List Sub)
    (h : (stepAddSub1 reg id st o f d true).out = .subs l) :
    ∃ os os', o.os = some os ∧ (stepAddSub1 reg id st o f d true).o.os = some os' ∧
      (∀ s ∈ os, s ∈ os') ∧ (∀ s ∈ l, s ∈ os') ∧
      (stepAddSub1 reg id st o f d true).o.od = o.od ∧ (stepAddSub1 reg id st o f d true).o.of = o.of := by
  unfold stepAddSub1 at h ⊢
  cases hod : o.od with
  | none => simp [hod] at h
  | some od =>
    cases hof : o.of with
    | none => simp [hod, hof] at h
    | some ofl =>
      cases reg with
      | false => simp [hod, hof] at h
      | true =>
        cases hos : o.os with
        | none => simp [hod, hof, hos] at h
        | some os =>
          simp only [hod, hof, hos, Bool.not_true, Bool.false_and, Bool.false_eq_true, if_false, if_true] at h ⊢
          cases hfind : os.find? (fun s => s.filter == f && s.handler == d) with
          | some s =>
            simp only [hfind] at h ⊢
            have : [s] = l := by simpa using h
            subst this
            exact ⟨os, os, rfl, hos, fun _ h => h, fun x hx => by
              simp at hx; subst hx; exact List.mem_of_find?_eq_some hfind, by first | trivial | exact hod | simp [hod], by first | trivial | exact hof | simp [hof]⟩
          | none =>
            simp only [hfind] at h ⊢
            cases hcr : createSub st f d (some id) with
            | error e => simp [hcr] at h
            | ok p =>
              obtain ⟨st', s⟩ := p
              simp only [hcr] at h ⊢
              have : [s] = l := by simpa using h
              subst this
              exact ⟨os, os ++ [s], rfl, rfl, fun x hx => by simp [hx], fun x hx => by
                simp at hx; subst hx; simp, by first | trivial | exact hod | simp [hod], by first | trivial | exact hof | simp [hof]⟩

theorem addSubList_returns (reg : Bool) (id : Str) (f : Path) :
    ∀ (ds : List Path) (st : Store) (o : Owned) (acc l : List Sub) (os : List Sub), o.os = some os →
      (∀ s ∈ acc, s ∈ os) → (stepAddSubList reg id f true st o ds acc).out = .subs l →
      ∃ os', (stepAddSubList reg id f true st o ds acc).o.os = some os' ∧ ∀ s ∈ l, s ∈ os' := by
  intro ds
  induction ds with
  | nil =>
    intro st o acc l os hos hacc h
    simp only [stepAddSubList] at h ⊢
    have : acc = l := by simpa using h
    subst this
    exact ⟨os, hos, hacc⟩
  | cons d rest ih =>
    intro st o acc l os hos hacc h
    unfold stepAddSubList at h ⊢
    have h1 := addSub1_returns reg id st o f d
    generalize hr : stepAddSub1 reg id st o f d true = r1 at h h1 ⊢
    obtain ⟨st1, o1, out1⟩ := r1
    cases out1 with
    | subs l1 =>
      simp only [] at h ⊢
      obtain ⟨os0, os1, e0, e1, hmono, hret, _, _⟩ := h1 l1 rfl
      rw [hos] at e0
      have := Option.some.inj e0; subst this
      apply ih st1 o1 (acc ++ l1) l os1 e1 _ h
      intro s hs
      simp at hs
      rcases hs with hs | hs
      · exact hmono s (hacc s hs)
      · exact hret s hs
    | _ => simp at h

theorem addSubs_returns (reg : Bool) (id : Str) (st : Store) (o : Owned) (f : Path) (sel : DestSel)
    (l : List Sub) (h : (stepAddSubs reg id st o f sel true).out = .subs l) (hos : o.os ≠ none) :
    ∃ os', (stepAddSubs reg id st o f sel true).o.os = some os' ∧ ∀ s ∈ l, s ∈ os' := by
  obtain ⟨os, hos'⟩ := Option.ne_none_iff_exists'.mp hos
  unfold stepAddSubs at h ⊢
  cases hod : o.od with
  | none => simp [hod] at h
  | some od =>
    simp only [hod] at h ⊢
    cases sel with
    | all => exact addSubList_returns reg id f _ st o [] l os hos' (by simp) h
    | many ps => exact addSubList_returns reg id f ps st o [] l os hos' (by simp) h
    | one p =>
      obtain ⟨_, os1, _, e1, _, hret, _, _⟩ := addSub1_returns reg id st o f p l h
      exact ⟨os1, e1, hret⟩

end Proofs.SubMgr
