/-
C06: the concrete model of CPython's '%.<p>G' formatter (Model/FloatText.lean): its output has the G shape for every
finite double — this discharges the `shape` hypothesis of the RealCodec record for the concrete formatter.
-/
import Proofs.Lemmas.CimTypes
import Pywbem.Model.FloatText

namespace Proofs.CimTypes
open Pywbem.Model.CimTypes Pywbem.Model.DateTime Pywbem.Model.FloatText Proofs.DateTime

theorem isDig_digitChar (k : Nat) : isDig (digitChar k) = true := by
  rcases digitChar_cases k with h | h | h | h | h | h | h | h | h | h <;> rw [h] <;> decide

theorem decDigits_eq (n : Nat) : decDigits n = if n < 10 then [digitChar n] else decDigits (n / 10) ++ [digitChar n] := by
  rw [decDigits]

theorem decDigits_all (n : Nat) : (decDigits n).all isDig = true := by
  induction n using Nat.strongRecOn with
  | _ n ih =>
    rw [decDigits_eq]
    split
    · simp [isDig_digitChar]
    · simp only [List.all_append, List.all_cons, List.all_nil, Bool.and_true, Bool.and_eq_true]
      exact ⟨ih (n / 10) (by omega), isDig_digitChar n⟩

theorem decDigits_ne_nil (n : Nat) : decDigits n ≠ [] := by
  rw [decDigits_eq]; split <;> simp

theorem all_take {l : List Char} (h : l.all isDig = true) (k : Nat) : (l.take k).all isDig = true := by
  rw [List.all_eq_true] at h ⊢
  intro c hc; exact h c (List.mem_of_mem_take hc)

theorem all_drop {l : List Char} (h : l.all isDig = true) (k : Nat) : (l.drop k).all isDig = true := by
  rw [List.all_eq_true] at h ⊢
  intro c hc; exact h c (List.mem_of_mem_drop hc)

theorem all_strip {l : List Char} (h : l.all isDig = true) : (stripTrailingZeros l).all isDig = true := by
  rw [List.all_eq_true] at h ⊢
  intro c hc
  unfold stripTrailingZeros at hc
  have h1 : c ∈ l.reverse.dropWhile (· == '0') := by simpa using hc
  have h2 : c ∈ l.reverse := (List.dropWhile_sublist _).subset h1
  exact h c (by simpa using h2)

theorem take_ne_nil {l : List Char} (h : l ≠ []) (k : Nat) : l.take (k + 1) ≠ [] := by
  cases l with
  | nil => exact absurd rfl h
  | cons a t => simp

def expDigits (x : Int) : List Char := if x.natAbs < 10 then ['0', digitChar x.natAbs] else decDigits x.natAbs

theorem expDigits_ok (x : Int) : expDigits x ≠ [] ∧ (expDigits x).all isDig = true := by
  unfold expDigits
  split
  · exact ⟨by simp, by simp [isDig_digitChar]; decide⟩
  · exact ⟨decDigits_ne_nil _, decDigits_all _⟩

theorem expText_eq (x : Int) : Pywbem.Model.FloatText.expText x = 'E' :: (if decide (x < 0) then '-' else '+') :: expDigits x := by
  unfold Pywbem.Model.FloatText.expText expDigits
  by_cases h : x < 0 <;> simp [h]

theorem render_mk_none (neg : Bool) (ip frac : List Char) :
    (GText.mk neg ip frac none).render =
      (if neg then ['-'] else []) ++ ip ++ (if frac.isEmpty then [] else '.' :: frac) := by
  simp [GText.render, GText.expText]

theorem render_mk_some (neg : Bool) (ip frac : List Char) (sg : Bool) (ds : List Char) :
    (GText.mk neg ip frac (some (sg, ds))).render =
      (if neg then ['-'] else []) ++ ip ++ (if frac.isEmpty then [] else '.' :: frac) ++
        'E' :: (if sg then '-' else '+') :: ds := by
  simp [GText.render, GText.expText]

theorem ok_mk (neg : Bool) (ip frac : List Char) (ex : Option (Bool × List Char)) (h1 : ip ≠ []) (h2 : ip.all isDig = true)
    (h3 : frac.all isDig = true) (h4 : ∀ s ds, ex = some (s, ds) → ds ≠ [] ∧ ds.all isDig = true) :
    (GText.mk neg ip frac ex).ok = true := by
  simp only [GText.ok, Bool.and_eq_true]
  refine ⟨⟨⟨by simpa using h1, h2⟩, h3⟩, ?_⟩
  cases ex with
  | none => rfl
  | some sd =>
    obtain ⟨s, ds⟩ := sd
    obtain ⟨ha, hb⟩ := h4 s ds rfl
    simp [hb]; exact ha

/-- **shape of the concrete '%.<p>G' formatter**: for every finite double (any bit pattern whose exponent field is not
    2047) and every precision the text is a G text: [-] digits [. digits] [E sign digits] -/
theorem fmtG_shape (p bits : Nat) (hfin : bits / 2 ^ 52 % 2048 ≠ 2047) :
    ∃ g : GText, g.ok = true ∧ fmtG p bits = g.render := by
  unfold fmtG
  simp only
  have e1 : (bits / 2 ^ 52 % 2048 == 2047) = false := by simpa using hfin
  simp only [e1, Bool.false_eq_true, if_false]
  split
  · -- zero
    refine ⟨⟨bits / 2 ^ 63 % 2 == 1, ['0'], [], none⟩, ok_mk _ _ _ _ (by simp) (by decide) (by simp) (fun s ds h => by simp at h), ?_⟩
    rw [render_mk_none]; simp
  · -- finite non-zero
    generalize sigDigits p (fracOf (bits / 2 ^ 52 % 2048) (bits % 2 ^ 52)).1 (fracOf (bits / 2 ^ 52 % 2048) (bits % 2 ^ 52)).2 = dx
    obtain ⟨d, x⟩ := dx
    simp only
    have hds := decDigits_all d
    have hne := decDigits_ne_nil d
    split
    · refine ⟨⟨bits / 2 ^ 63 % 2 == 1, (decDigits d).take 1, stripTrailingZeros ((decDigits d).drop 1),
        some (decide (x < 0), expDigits x)⟩, ?_, ?_⟩
      · exact ok_mk _ _ _ _ (take_ne_nil hne 0) (all_take hds 1) (all_strip (all_drop hds 1))
          (fun s ds h => by simp at h; obtain ⟨_, rfl⟩ := h; exact expDigits_ok x)
      · rw [render_mk_some, expText_eq]
    · split
      · refine ⟨⟨bits / 2 ^ 63 % 2 == 1, (decDigits d).take (x.toNat + 1), stripTrailingZeros ((decDigits d).drop (x.toNat + 1)),
          none⟩, ?_, ?_⟩
        · exact ok_mk _ _ _ _ (take_ne_nil hne _) (all_take hds _) (all_strip (all_drop hds _)) (fun s ds h => by simp at h)
        · rw [render_mk_none]
      · refine ⟨⟨bits / 2 ^ 63 % 2 == 1, ['0'], stripTrailingZeros (List.replicate ((-x).toNat - 1) '0' ++ decDigits d), none⟩, ?_, ?_⟩
        · refine ok_mk _ _ _ _ (by simp) (by decide) (all_strip ?_) (fun s ds h => by simp at h)
          simp only [List.all_append, Bool.and_eq_true]
          refine ⟨?_, hds⟩
          rw [List.all_eq_true]; intro c hc
          have := List.eq_of_mem_replicate hc
          rw [this]; decide
        · rw [render_mk_none]

end Proofs.CimTypes
