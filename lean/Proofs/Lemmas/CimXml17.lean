/-
C01 — from clean objects to well-formed, wire-stable trees, part 2: the predicate `CleanObj` on objects
(Bool-valued, hence decidable), the hypotheses `CodecClean` about Python's float formatting, and the mutual
structural induction over the CIM object family: the encoder's output for a clean object is `Good`
(= `WfTree ∧ SoftStable`), embedded instances / classes to any depth.
-/
import Proofs.Lemmas.CimXml16

set_option linter.unusedSimpArgs false
set_option linter.unusedVariables false
set_option linter.unusedSectionVars false

namespace Proofs.CimXml
open Pywbem.Model Pywbem.Model.XmlText Pywbem.Proto Pywbem.Model.XmlParse Proofs.XmlText Proofs.XmlParse

/-! ### specification: clean objects -/

/-- an optional string, when present, satisfies `p` -/
def optOk (p : Str → Bool) : Option Str → Bool
  | none => true
  | some s => p s

/-- the host of a path travels (as text of HOST) only when a namespace is present -/
def hostOk (host ns : Option Str) : Bool :=
  match ns, host with
  | some _, some h => textOk h
  | _, _ => true

mutual
/-- a value: string / char16 / datetime texts travel as character data of VALUE (KEYVALUE) — XML Chars, no CR
    (`textOk`); a reference is its path; an embedded object is its INSTANCE / CLASS tree (whose serialisation
    then is a good text, `ser_textOk`); numbers and booleans are formatted by the encoder -/
def cleanAtom : Atom → Bool
  | .str s => textOk s
  | .char16 s => textOk s
  | .dt s => textOk s
  | .ref p => cleanPath p
  | .einst i => cleanInstBody i
  | .ecls c => cleanCls c
  | _ => true
def cleanAtoms : List Atom → Bool
  | [] => true
  | a :: l => cleanAtom a && cleanAtoms l
/-- keybinding: the key name is the NAME attribute of KEYBINDING (`attrOk`: XML Chars, no TAB/LF/CR) -/
def cleanKey : Key → Bool
  | .mk n v => attrOk (n.getD []) && cleanAtom v
def cleanKeys : List Key → Bool
  | [] => true
  | k :: l => cleanKey k && cleanKeys l
/-- path: class name = CLASSNAME / NAME attribute; namespace = NAME attributes of NAMESPACE elements, one per
    `/`-separated component; host = text of HOST (only written together with a namespace) -/
def cleanPath : Path → Bool
  | .inst cls host ns keys => attrOk cls && optOk attrOk ns && hostOk host ns && cleanKeys keys
  | .cls cls host ns => attrOk cls && optOk attrOk ns && hostOk host ns
def cleanVal : Val → Bool
  | .null => true
  | .scalar a => cleanAtom a
  | .array l => cleanAtoms l
/-- qualifier: NAME and TYPE attributes -/
def cleanQual : Qual → Bool
  | .mk n ty v _ _ _ _ _ => attrOk n && attrOk ty && cleanVal v
def cleanQuals : List Qual → Bool
  | [] => true
  | q :: l => cleanQual q && cleanQuals l
/-- property: NAME, TYPE, REFERENCECLASS, CLASSORIGIN, EmbeddedObject attributes -/
def cleanProp : Prop_ → Bool
  | .mk n ty v _ _ refCls origin _ emb quals =>
    attrOk n && attrOk ty && optOk attrOk refCls && optOk attrOk origin && optOk attrOk emb &&
      cleanVal v && cleanQuals quals
def cleanProps : List Prop_ → Bool
  | [] => true
  | p :: l => cleanProp p && cleanProps l
/-- the INSTANCE element: CLASSNAME attribute (the path is judged at top level only — an embedded
    instance is written without it) -/
def cleanInstBody : Inst → Bool
  | .mk cls _ props quals => attrOk cls && cleanProps props && cleanQuals quals
/-- parameter declaration: NAME, TYPE, REFERENCECLASS attributes -/
def cleanParam : Param → Bool
  | .mk n ty refCls _ _ quals _ _ => attrOk n && attrOk ty && optOk attrOk refCls && cleanQuals quals
def cleanParams : List Param → Bool
  | [] => true
  | p :: l => cleanParam p && cleanParams l
/-- method: NAME, TYPE (return type), CLASSORIGIN attributes -/
def cleanMeth : Meth → Bool
  | .mk n rt params origin _ quals =>
    attrOk n && optOk attrOk rt && optOk attrOk origin && cleanParams params && cleanQuals quals
def cleanMeths : List Meth → Bool
  | [] => true
  | m :: l => cleanMeth m && cleanMeths l
/-- class: NAME, SUPERCLASS attributes (the class path is never written) -/
def cleanCls : Cls → Bool
  | .mk n sup _ props meths quals =>
    attrOk n && optOk attrOk sup && cleanProps props && cleanMeths meths && cleanQuals quals
end

/-- instance at top level: its path too -/
def cleanInst : Inst → Bool
  | .mk cls path props quals =>
    cleanInstBody (.mk cls path props quals) && (match path with | some p => cleanPath p | none => true)

/-- qualifier declaration: NAME, TYPE attributes; the SCOPE attribute names (upper-cased scope names) must be
    pairwise distinct — XML forbids a repeated attribute (NocaseDict keys are distinct ignoring case) — unless
    `any: True` replaces them by the seven literal names -/
def cleanQualDecl (q : QualDecl) : Bool :=
  attrOk q.name && attrOk q.ty && cleanVal q.val &&
    (q.scopes.any (fun p => p.1.map Char.toLower == "any".toList && p.2) ||
      !hasDup (q.scopes.map (fun p => upperAscii p.1)))

def cleanObj : Obj → Bool
  | .path p => cleanPath p
  | .inst i => cleanInst i
  | .cls c => cleanCls c
  | .prop p => cleanProp p
  | .meth m => cleanMeth m
  | .param p => cleanParam p
  | .qual q => cleanQual q
  | .qdecl q => cleanQualDecl q

/-- **CleanObj**: every string of the object consists of XML 1.0 Chars; strings that travel as character data
    (string / char16 / datetime values, string key values, host) hold no CR; strings that travel as attribute values
    (names, class names, namespaces, type names, class origin, reference class, superclass, EmbeddedObject) hold
    no TAB / LF / CR; SCOPE attribute names are distinct.  Decidable (a Bool function of the object). -/
def CleanObj (o : Obj) : Prop := cleanObj o = true
instance (o : Obj) : Decidable (CleanObj o) := inferInstanceAs (Decidable (cleanObj o = true))

/-- what Python's float formatting must satisfy: `format(x, '.11G'/'.17G')` after pywbem's fix-up and
    `str(float)` produce printable ASCII (digits, sign, `.`, `E`/`e`, `INF`/`NaN`/`inf`/`nan`) -/
structure CodecClean (C : Codec) : Prop where
  fmtReal_printable : ∀ w b, ∀ c ∈ C.fmtReal w b, 0x20 ≤ c.toNat ∧ c.toNat ≤ 0x7E
  strFloat_printable : ∀ b, ∀ c ∈ C.strFloat b, 0x20 ≤ c.toNat ∧ c.toNat ≤ 0x7E

theorem toyCodecClean : CodecClean toyCodec.toCodec where
  fmtReal_printable := by intro w b; exact (by decide : ∀ c ∈ "0.5".toList, 0x20 ≤ c.toNat ∧ c.toNat ≤ 0x7E)
  strFloat_printable := by intro b; exact (by decide : ∀ c ∈ "0.5".toList, 0x20 ≤ c.toNat ∧ c.toNat ≤ 0x7E)

/-! ### attribute lists of the encoder's elements -/

theorem optOk_iff {p : Str → Bool} {v : Option Str} (h : optOk p v = true) : ∀ s, v = some s → p s = true := by
  intro s e; subst e; exact h

theorem qualAttrs_good {name ty : Str} (p o ts ti tr : Option Bool) (hn : attrOk name = true) (ht : attrOk ty = true) :
    GoodAttrs (qualAttrs name ty p o ts ti tr) ∧ hasDup ((qualAttrs name ty p o ts ti tr).map (·.1)) = false := by
  unfold qualAttrs
  constructor
  · exact goodAttrs_append (goodAttrs_append (goodAttrs_append (goodAttrs_append (goodAttrs_append
      (goodAttrs_cons (by decide) hn (goodAttrs_cons (by decide) ht goodAttrs_nil))
      (goodAttrs_optBoolAttr _ _ (by decide))) (goodAttrs_optBoolAttr _ _ (by decide)))
      (goodAttrs_optBoolAttr _ _ (by decide))) (goodAttrs_optBoolAttr _ _ (by decide)))
      (goodAttrs_optBoolAttr _ _ (by decide))
  · exact noDup_of_keysSub (keysSub_append (keysSub_append (keysSub_append (keysSub_append (keysSub_append
      (keysSub_cons (keysSub_cons (keysSub_nil []))) (keysSub_optBoolAttr _ _)) (keysSub_optBoolAttr _ _))
      (keysSub_optBoolAttr _ _)) (keysSub_optBoolAttr _ _)) (keysSub_optBoolAttr _ _)) (by decide)

theorem methAttrs_good {name : Str} {retTy origin : Option Str} (propagated : Option Bool) (hn : attrOk name = true)
    (hr : optOk attrOk retTy = true) (ho : optOk attrOk origin = true) :
    GoodAttrs (methAttrs name retTy origin propagated) ∧
      hasDup ((methAttrs name retTy origin propagated).map (·.1)) = false := by
  unfold methAttrs
  constructor
  · exact goodAttrs_append (goodAttrs_append (goodAttrs_append
      (goodAttrs_cons (by decide) hn goodAttrs_nil)
      (goodAttrs_optAttr _ _ (by decide) (optOk_iff hr))) (goodAttrs_optAttr _ _ (by decide) (optOk_iff ho)))
      (goodAttrs_optBoolAttr _ _ (by decide))
  · exact noDup_of_keysSub (keysSub_append (keysSub_append (keysSub_append
      (keysSub_cons (keysSub_nil [])) (keysSub_optAttr _ _)) (keysSub_optAttr _ _)) (keysSub_optBoolAttr _ _))
      (by decide)

theorem propAttrs_good {name ty : Str} {origin emb : Option Str} (propagated : Option Bool)
    (hn : attrOk name = true) (ht : attrOk ty = true) (ho : optOk attrOk origin = true) (he : optOk attrOk emb = true) :
    GoodAttrs (propAttrs name ty origin propagated emb) ∧
      hasDup ((propAttrs name ty origin propagated emb).map (·.1)) = false := by
  unfold propAttrs
  constructor
  · exact goodAttrs_append (goodAttrs_append (goodAttrs_append
      (goodAttrs_cons (by decide) hn (goodAttrs_cons (by decide) ht goodAttrs_nil))
      (goodAttrs_optAttr _ _ (by decide) (optOk_iff ho))) (goodAttrs_optBoolAttr _ _ (by decide)))
      (goodAttrs_optAttr _ _ (by decide) (optOk_iff he))
  · exact noDup_of_keysSub (keysSub_append (keysSub_append (keysSub_append
      (keysSub_cons (keysSub_cons (keysSub_nil []))) (keysSub_optAttr _ _)) (keysSub_optBoolAttr _ _))
      (keysSub_optAttr _ _)) (by decide)

theorem optOk_natToStr (asz : Option Nat) : optOk attrOk (asz.map natToStr) = true := by
  cases asz with
  | none => rfl
  | some n => exact attrOk_natToStr n

theorem parrAttrs_good {name ty : Str} (asz : Option Nat) {origin emb : Option Str} (propagated : Option Bool)
    (hn : attrOk name = true) (ht : attrOk ty = true) (ho : optOk attrOk origin = true) (he : optOk attrOk emb = true) :
    GoodAttrs (parrAttrs name ty asz origin emb propagated) ∧
      hasDup ((parrAttrs name ty asz origin emb propagated).map (·.1)) = false := by
  unfold parrAttrs
  constructor
  · exact goodAttrs_append (goodAttrs_append (goodAttrs_append (goodAttrs_append
      (goodAttrs_cons (by decide) hn (goodAttrs_cons (by decide) ht goodAttrs_nil))
      (goodAttrs_optAttr _ _ (by decide) (optOk_iff (optOk_natToStr asz))))
      (goodAttrs_optAttr _ _ (by decide) (optOk_iff ho))) (goodAttrs_optAttr _ _ (by decide) (optOk_iff he)))
      (goodAttrs_optBoolAttr _ _ (by decide))
  · exact noDup_of_keysSub (keysSub_append (keysSub_append (keysSub_append (keysSub_append
      (keysSub_cons (keysSub_cons (keysSub_nil []))) (keysSub_optAttr _ _)) (keysSub_optAttr _ _))
      (keysSub_optAttr _ _)) (keysSub_optBoolAttr _ _)) (by decide)

theorem prefAttrs_good {name : Str} {refCls origin : Option Str} (propagated : Option Bool)
    (hn : attrOk name = true) (hr : optOk attrOk refCls = true) (ho : optOk attrOk origin = true) :
    GoodAttrs (prefAttrs name refCls origin propagated) ∧
      hasDup ((prefAttrs name refCls origin propagated).map (·.1)) = false := by
  unfold prefAttrs
  constructor
  · exact goodAttrs_append (goodAttrs_append (goodAttrs_append
      (goodAttrs_cons (by decide) hn goodAttrs_nil)
      (goodAttrs_optAttr _ _ (by decide) (optOk_iff hr))) (goodAttrs_optAttr _ _ (by decide) (optOk_iff ho)))
      (goodAttrs_optBoolAttr _ _ (by decide))
  · exact noDup_of_keysSub (keysSub_append (keysSub_append (keysSub_append
      (keysSub_cons (keysSub_nil [])) (keysSub_optAttr _ _)) (keysSub_optAttr _ _)) (keysSub_optBoolAttr _ _))
      (by decide)

theorem clsAttrs_good {name : Str} {sup : Option Str} (hn : attrOk name = true) (hs : optOk attrOk sup = true) :
    GoodAttrs (clsAttrs name sup) ∧ hasDup ((clsAttrs name sup).map (·.1)) = false := by
  unfold clsAttrs
  constructor
  · exact goodAttrs_append (goodAttrs_cons (by decide) hn goodAttrs_nil)
      (goodAttrs_optAttr _ _ (by decide) (optOk_iff hs))
  · exact noDup_of_keysSub (keysSub_append (keysSub_cons (keysSub_nil [])) (keysSub_optAttr _ _)) (by decide)

theorem single_good {k : String} {v : Str} (hk : isName k.toList = true) (hv : attrOk v = true) :
    GoodAttrs [(k.toList, v)] ∧ hasDup ([(k.toList, v)].map (·.1)) = false :=
  ⟨goodAttrs_cons hk hv goodAttrs_nil, by simp [hasDup]⟩

/-! ### keybindings, one level -/

theorem good_keyval {nm txt : Str} {vt : String} {ty : Option Str} (hn : attrOk nm = true) (ht : textOk txt = true)
    (hvt : attrOk vt.toList = true) (hty : optOk attrOk ty = true) :
    Good (E "KEYBINDING" [("NAME".toList, nm)]
      [E "KEYVALUE" ([("VALUETYPE".toList, vt.toList)] ++ optAttr "TYPE" ty) [.text txt]]) := by
  have hs := single_good (k := "NAME") (by decide) hn
  refine good_E (by decide) hs.1 hs.2 (goodKids_cons ?_ goodKids_nil)
  refine good_E (by decide)
    (goodAttrs_append (goodAttrs_cons (by decide) hvt goodAttrs_nil) (goodAttrs_optAttr _ _ (by decide) (optOk_iff hty)))
    (noDup_of_keysSub (keysSub_append (keysSub_cons (keysSub_nil [])) (keysSub_optAttr _ _)) (by decide))
    (goodKids_cons (good_text ht) goodKids_nil)

theorem good_keybinding_ref {nm : Str} {t : Xml} (hn : attrOk nm = true) (ht : Good t) :
    Good (E "KEYBINDING" [("NAME".toList, nm)] [E "VALUE.REFERENCE" [] [t]]) := by
  have hs := single_good (k := "NAME") (by decide) hn
  exact good_E (by decide) hs.1 hs.2
    (goodKids_cons (good_E0 (by decide) (goodKids_cons ht goodKids_nil)) goodKids_nil)

theorem good_keybinding_empty {nm : Str} (hn : attrOk nm = true) :
    Good (E "KEYBINDING" [("NAME".toList, nm)] []) := by
  have hs := single_good (k := "NAME") (by decide) hn
  exact good_E (by decide) hs.1 hs.2 goodKids_nil

/-! ### the mutual induction -/

section
variable (C : DecCodec) (hK : CodecClean C.toCodec)

theorem good_scalar_text (a : Atom) (hnr : ∀ p, a ≠ .ref p) (ht : textOk (atomText C.toCodec a) = true) :
    GoodKids (encVal C.toCodec (.scalar a)) := by
  have e : encVal C.toCodec (.scalar a) = [valueElem (atomText C.toCodec a)] := by
    cases a <;> first | (exact absurd rfl (hnr _)) | simp only [encVal]
  rw [e]
  exact goodKids_cons (good_valueElem ht) goodKids_nil

include hK in
mutual
theorem G_atomText : (a : Atom) → cleanAtom a = true → textOk (atomText C.toCodec a) = true
  | .null, _ => by simp only [atomText]; rfl
  | .str s, h => by simp only [cleanAtom] at h; simp only [atomText]; exact h
  | .char16 s, h => by simp only [cleanAtom] at h; simp only [atomText]; exact h
  | .dt s, h => by simp only [cleanAtom] at h; simp only [atomText]; exact h
  | .bool b, _ => by simp only [atomText]; cases b <;> decide
  | .int _ v, _ => by simp only [atomText]; exact textOk_intToStr v
  | .pyint v, _ => by simp only [atomText]; exact textOk_intToStr v
  | .real w b, _ => by
    simp only [atomText]; exact attrOk_textOk (attrOk_of_printable (hK.fmtReal_printable w b))
  | .pyfloat b, _ => by
    simp only [atomText]; exact attrOk_textOk (attrOk_of_printable (hK.fmtReal_printable true b))
  | .ref _, _ => by simp only [atomText]; rfl
  | .einst i, h => by
    simp only [cleanAtom] at h; simp only [atomText]; exact good_ser (G_inst i h)
  | .ecls c, h => by
    simp only [cleanAtom] at h; simp only [atomText]; exact good_ser (G_cls c h)
theorem G_key : (k : Key) → cleanKey k = true → Good (encKey C.toCodec k)
  | .mk n (.ref p), h => by
    simp only [cleanKey, cleanAtom, Bool.and_eq_true] at h
    simp only [encKey]
    exact good_keybinding_ref h.1 (G_path p h.2)
  | .mk n (.char16 s), h => by
    simp only [cleanKey, cleanAtom, Bool.and_eq_true] at h
    simp only [encKey, encKey.keyval]
    exact good_keyval h.1 h.2 (by decide) (by decide)
  | .mk n (.str s), h => by
    simp only [cleanKey, cleanAtom, Bool.and_eq_true] at h
    simp only [encKey, encKey.keyval]
    exact good_keyval h.1 h.2 (by decide) (by decide)
  | .mk n (.dt s), h => by
    simp only [cleanKey, cleanAtom, Bool.and_eq_true] at h
    simp only [encKey, encKey.keyval]
    exact good_keyval h.1 h.2 (by decide) (by decide)
  | .mk n (.bool b), h => by
    simp only [cleanKey, cleanAtom, Bool.and_eq_true] at h
    simp only [encKey, encKey.keyval]
    exact good_keyval h.1 (by cases b <;> decide) (by decide) (by decide)
  | .mk n (.int t v), h => by
    simp only [cleanKey, cleanAtom, Bool.and_eq_true] at h
    simp only [encKey, encKey.keyval]
    exact good_keyval h.1 (textOk_intToStr v) (by decide) (attrOk_intTy t)
  | .mk n (.real w b), h => by
    simp only [cleanKey, cleanAtom, Bool.and_eq_true] at h
    simp only [encKey, encKey.keyval]
    exact good_keyval h.1 (attrOk_textOk (attrOk_of_printable (hK.strFloat_printable b))) (by decide)
      (by cases w <;> decide)
  | .mk n (.pyint v), h => by
    simp only [cleanKey, cleanAtom, Bool.and_eq_true] at h
    simp only [encKey, encKey.keyval]
    exact good_keyval h.1 (textOk_intToStr v) (by decide) rfl
  | .mk n (.pyfloat b), h => by
    simp only [cleanKey, cleanAtom, Bool.and_eq_true] at h
    simp only [encKey, encKey.keyval]
    exact good_keyval h.1 (attrOk_textOk (attrOk_of_printable (hK.strFloat_printable b))) (by decide) rfl
  | .mk n .null, h => by
    simp only [cleanKey, cleanAtom, Bool.and_eq_true] at h
    simp only [encKey]
    exact good_keybinding_empty h.1
  | .mk n (.einst _), h => by
    simp only [cleanKey, Bool.and_eq_true] at h
    simp only [encKey]
    exact good_keybinding_empty h.1
  | .mk n (.ecls _), h => by
    simp only [cleanKey, Bool.and_eq_true] at h
    simp only [encKey]
    exact good_keybinding_empty h.1
theorem G_keys : (l : List Key) → cleanKeys l = true → GoodKids (encKeys C.toCodec l)
  | [], _ => by simp only [encKeys]; exact goodKids_nil
  | k :: l, h => by
    simp only [cleanKeys, Bool.and_eq_true] at h
    simp only [encKeys]
    exact goodKids_cons (G_key k h.1) (G_keys l h.2)
theorem G_path : (p : Path) → cleanPath p = true → Good (encPath C.toCodec p)
  | .inst cls host ns keys, h => by
    simp only [cleanPath, Bool.and_eq_true] at h
    obtain ⟨⟨⟨hc, hns⟩, hh⟩, hk⟩ := h
    have hs := single_good (k := "CLASSNAME") (by decide) hc
    have hin : Good (E "INSTANCENAME" [("CLASSNAME".toList, cls)] (encKeys C.toCodec keys)) :=
      good_E (by decide) hs.1 hs.2 (G_keys keys hk)
    cases ns with
    | none => simp only [encPath]; exact hin
    | some n =>
      cases host with
      | none =>
        simp only [encPath]
        exact good_E0 (by decide) (goodKids_cons (good_localNsPath hns) (goodKids_cons hin goodKids_nil))
      | some hst =>
        simp only [encPath]
        exact good_E0 (by decide) (goodKids_cons (good_nsPath hh hns) (goodKids_cons hin goodKids_nil))
  | .cls cls host ns, h => by
    simp only [cleanPath, Bool.and_eq_true] at h
    obtain ⟨⟨hc, hns⟩, hh⟩ := h
    have hs := single_good (k := "NAME") (by decide) hc
    have hcn : Good (E "CLASSNAME" [("NAME".toList, cls)] []) := good_E (by decide) hs.1 hs.2 goodKids_nil
    cases ns with
    | none => simp only [encPath]; exact hcn
    | some n =>
      cases host with
      | none =>
        simp only [encPath]
        exact good_E0 (by decide) (goodKids_cons (good_localNsPath hns) (goodKids_cons hcn goodKids_nil))
      | some hst =>
        simp only [encPath]
        exact good_E0 (by decide) (goodKids_cons (good_nsPath hh hns) (goodKids_cons hcn goodKids_nil))
theorem G_arrItems : (l : List Atom) → cleanAtoms l = true → GoodKids (encArrItems C.toCodec l)
  | [], _ => by simp only [encArrItems]; exact goodKids_nil
  | a :: l, h => by
    simp only [cleanAtoms, Bool.and_eq_true] at h
    simp only [encArrItems]
    refine goodKids_cons ?_ (G_arrItems l h.2)
    by_cases ha : a = .null
    · rw [ha, encArrItem_null]; exact good_E0 (by decide) goodKids_nil
    · rw [encArrItem_ne_null _ a ha]; exact good_valueElem (G_atomText a h.1)
theorem G_val : (v : Val) → cleanVal v = true → GoodKids (encVal C.toCodec v)
  | .null, _ => by simp only [encVal]; exact goodKids_nil
  | .array l, h => by
    simp only [cleanVal] at h
    simp only [encVal]
    exact goodKids_cons (good_E0 (by decide) (G_arrItems l h)) goodKids_nil
  | .scalar (.ref p), h => by
    simp only [cleanVal, cleanAtom] at h
    simp only [encVal]
    exact goodKids_cons (good_E0 (by decide) (goodKids_cons (G_path p h) goodKids_nil)) goodKids_nil
  | .scalar .null, h => good_scalar_text C _ (by intro p e; cases e) (G_atomText .null h)
  | .scalar (.str s), h => good_scalar_text C _ (by intro p e; cases e) (G_atomText (.str s) h)
  | .scalar (.char16 s), h => good_scalar_text C _ (by intro p e; cases e) (G_atomText (.char16 s) h)
  | .scalar (.bool b), h => good_scalar_text C _ (by intro p e; cases e) (G_atomText (.bool b) h)
  | .scalar (.int t v), h => good_scalar_text C _ (by intro p e; cases e) (G_atomText (.int t v) h)
  | .scalar (.real w b), h => good_scalar_text C _ (by intro p e; cases e) (G_atomText (.real w b) h)
  | .scalar (.dt s), h => good_scalar_text C _ (by intro p e; cases e) (G_atomText (.dt s) h)
  | .scalar (.pyint v), h => good_scalar_text C _ (by intro p e; cases e) (G_atomText (.pyint v) h)
  | .scalar (.pyfloat b), h => good_scalar_text C _ (by intro p e; cases e) (G_atomText (.pyfloat b) h)
  | .scalar (.einst i), h => good_scalar_text C _ (by intro p e; cases e) (G_atomText (.einst i) h)
  | .scalar (.ecls c), h => good_scalar_text C _ (by intro p e; cases e) (G_atomText (.ecls c) h)
theorem G_qual : (q : Qual) → cleanQual q = true → Good (encQual C.toCodec q)
  | .mk name ty val p o ts ti tr, h => by
    simp only [cleanQual, Bool.and_eq_true] at h
    have ha := qualAttrs_good p o ts ti tr h.1.1 h.1.2
    rw [encQual_eq]
    exact good_E (by decide) ha.1 ha.2 (G_val val h.2)
theorem G_quals : (l : List Qual) → cleanQuals l = true → GoodKids (encQuals C.toCodec l)
  | [], _ => by simp only [encQuals]; exact goodKids_nil
  | q :: l, h => by
    simp only [cleanQuals, Bool.and_eq_true] at h
    simp only [encQuals]
    exact goodKids_cons (G_qual q h.1) (G_quals l h.2)
theorem G_prop : (p : Prop_) → cleanProp p = true → Good (encProp C.toCodec p)
  | .mk name ty val isArray asz refCls origin propagated emb quals, h => by
    simp only [cleanProp, Bool.and_eq_true] at h
    obtain ⟨⟨⟨⟨⟨⟨hn, ht⟩, hr⟩, ho⟩, he⟩, hv⟩, hq⟩ := h
    have hkids := goodKids_append (G_quals quals hq) (G_val val hv)
    cases isArray with
    | true =>
      have ha := parrAttrs_good asz propagated hn ht ho he
      rw [encProp_array]
      exact good_E (by decide) ha.1 ha.2 hkids
    | false =>
      by_cases hty : ty = "reference".toList
      · subst hty
        have ha := prefAttrs_good propagated hn hr ho
        rw [encProp_ref]
        exact good_E (by decide) ha.1 ha.2 hkids
      · have ha := propAttrs_good propagated hn ht ho he
        rw [encProp_plain C _ _ _ _ _ _ _ _ _ hty]
        exact good_E (by decide) ha.1 ha.2 hkids
theorem G_props : (l : List Prop_) → cleanProps l = true → GoodKids (encProps C.toCodec l)
  | [], _ => by simp only [encProps]; exact goodKids_nil
  | p :: l, h => by
    simp only [cleanProps, Bool.and_eq_true] at h
    simp only [encProps]
    exact goodKids_cons (G_prop p h.1) (G_props l h.2)
theorem G_inst : (i : Inst) → cleanInstBody i = true → Good (encInstElem C.toCodec i)
  | .mk cls path props quals, h => by
    simp only [cleanInstBody, Bool.and_eq_true] at h
    have hs := single_good (k := "CLASSNAME") (by decide) h.1.1
    rw [encInstElem_eq]
    exact good_E (by decide) hs.1 hs.2 (goodKids_append (G_quals quals h.2) (G_props props h.1.2))
theorem G_param : (p : Param) → cleanParam p = true → Good (encParam C.toCodec p)
  | .mk name ty refCls isArray asz quals val emb, h => by
    simp only [cleanParam, Bool.and_eq_true] at h
    obtain ⟨⟨⟨hn, ht⟩, hr⟩, hq⟩ := h
    have hkids := G_quals quals hq
    cases isArray with
    | true =>
      by_cases hty : ty = "reference".toList
      · simp only [encParam, if_true, if_pos hty]
        exact good_E (by decide)
          (goodAttrs_append (goodAttrs_append (goodAttrs_cons (by decide) hn goodAttrs_nil)
            (goodAttrs_optAttr _ _ (by decide) (optOk_iff hr)))
            (goodAttrs_optAttr _ _ (by decide) (optOk_iff (optOk_natToStr asz))))
          (noDup_of_keysSub (keysSub_append (keysSub_append (keysSub_cons (keysSub_nil [])) (keysSub_optAttr _ _))
            (keysSub_optAttr _ _)) (by decide)) hkids
      · simp only [encParam, if_true, if_neg hty]
        exact good_E (by decide)
          (goodAttrs_append (goodAttrs_cons (by decide) hn (goodAttrs_cons (by decide) ht goodAttrs_nil))
            (goodAttrs_optAttr _ _ (by decide) (optOk_iff (optOk_natToStr asz))))
          (noDup_of_keysSub (keysSub_append (keysSub_cons (keysSub_cons (keysSub_nil []))) (keysSub_optAttr _ _))
            (by decide)) hkids
    | false =>
      by_cases hty : ty = "reference".toList
      · simp only [encParam, Bool.false_eq_true, if_false, if_pos hty]
        exact good_E (by decide)
          (goodAttrs_append (goodAttrs_cons (by decide) hn goodAttrs_nil)
            (goodAttrs_optAttr _ _ (by decide) (optOk_iff hr)))
          (noDup_of_keysSub (keysSub_append (keysSub_cons (keysSub_nil [])) (keysSub_optAttr _ _)) (by decide)) hkids
      · simp only [encParam, Bool.false_eq_true, if_false, if_neg hty]
        exact good_E (by decide)
          (goodAttrs_cons (by decide) hn (goodAttrs_cons (by decide) ht goodAttrs_nil))
          (noDup_of_keysSub (keysSub_cons (keysSub_cons (keysSub_nil []))) (by decide)) hkids
theorem G_params : (l : List Param) → cleanParams l = true → GoodKids (encParams C.toCodec l)
  | [], _ => by simp only [encParams]; exact goodKids_nil
  | p :: l, h => by
    simp only [cleanParams, Bool.and_eq_true] at h
    simp only [encParams]
    exact goodKids_cons (G_param p h.1) (G_params l h.2)
theorem G_meth : (m : Meth) → cleanMeth m = true → Good (encMeth C.toCodec m)
  | .mk name retTy params origin propagated quals, h => by
    simp only [cleanMeth, Bool.and_eq_true] at h
    obtain ⟨⟨⟨⟨hn, hr⟩, ho⟩, hp⟩, hq⟩ := h
    have ha := methAttrs_good propagated hn hr ho
    rw [encMeth_eq]
    exact good_E (by decide) ha.1 ha.2 (goodKids_append (G_quals quals hq) (G_params params hp))
theorem G_meths : (l : List Meth) → cleanMeths l = true → GoodKids (encMeths C.toCodec l)
  | [], _ => by simp only [encMeths]; exact goodKids_nil
  | m :: l, h => by
    simp only [cleanMeths, Bool.and_eq_true] at h
    simp only [encMeths]
    exact goodKids_cons (G_meth m h.1) (G_meths l h.2)
theorem G_cls : (c : Cls) → cleanCls c = true → Good (encCls C.toCodec c)
  | .mk name sup path props meths quals, h => by
    simp only [cleanCls, Bool.and_eq_true] at h
    obtain ⟨⟨⟨⟨hn, hs⟩, hp⟩, hm⟩, hq⟩ := h
    have ha := clsAttrs_good hn hs
    rw [encCls_eq]
    exact good_E (by decide) ha.1 ha.2
      (goodKids_append (goodKids_append (G_quals quals hq) (G_props props hp)) (G_meths meths hm))
end

end

end Proofs.CimXml
