/-
C02 helper lemmas, part 3: the envelope walk, cimvalue and the per-operation result handling
(`Model/Envelope.lean`).
-/
import Proofs.Lemmas.RespSafe2

namespace Proofs.C02
open Pywbem.Model Pywbem.Model.Resp Pywbem.Model.Envelope Pywbem.Proto Pywbem.Model.XmlText

/-- envelope errors: the decoder's plus the VersionError family -/
def EE : PyExc → Prop := fun e => DE e ∨ e = .versionError
instance : Allows EE := ⟨Or.inl (Or.inl rfl)⟩

section
variable (C : EnvCodec) (hC : CodecOk C.toDecCodec) (fuel : Nat)
include hC

theorem embAt_safeE (s : Str) : Safe EE (Resp.embAt C.toDecCodec fuel s) :=
  Safe.mono (fun _ h => Or.inl h) (embAt_safe _ hC _ _)

theorem dInst_safe (t : Xml) : Safe EE (dInst C fuel t) := by
  unfold dInst; exact decInstance_safe _ hC _ (embAt_safeE C hC fuel) _
macro_rules | `(tactic| safe_leaf) => `(tactic| exact dInst_safe _ ‹_› _ _)

theorem dCls_safe (t : Xml) : Safe EE (dCls C fuel t) := by
  unfold dCls; exact decClass_safe _ hC _ (embAt_safeE C hC fuel) _
macro_rules | `(tactic| safe_leaf) => `(tactic| exact dCls_safe _ ‹_› _ _)

theorem dPath_safe (t : Xml) : Safe EE (dPath C t) := by
  unfold dPath; exact decPathAny_safe _ hC _
macro_rules | `(tactic| safe_leaf) => `(tactic| exact dPath_safe _ ‹_› _)

theorem dPathNamed_safe (n : String) (t : Xml) : Safe EE (dPathNamed C n t) := by
  unfold dPathNamed; safe
macro_rules | `(tactic| safe_leaf) => `(tactic| exact dPathNamed_safe _ ‹_› _ _)

theorem decRefArray_safe (ks : List Xml) : Safe EE (decRefArray C ks) := by
  fun_induction decRefArray C ks <;> safe
macro_rules | `(tactic| safe_leaf) => `(tactic| exact decRefArray_safe _ ‹_› _)

omit hC in
theorem oneChild_safe (ks : List Xml) (acc : List String) : Safe EE (oneChild ks acc) := by
  unfold oneChild; safe
macro_rules | `(tactic| safe_leaf) => `(tactic| exact oneChild_safe _ _)

theorem decObjWithPath_safe (a b c : String) (t : Xml) : Safe EE (decObjWithPath C fuel a b c t) := by
  unfold decObjWithPath; safe
macro_rules | `(tactic| safe_leaf) => `(tactic| exact decObjWithPath_safe _ ‹_› _ _ _ _ _)

set_option maxHeartbeats 1000000 in
theorem decValueElem_safe (t : Xml) : Safe EE (decValueElem C fuel t) := by
  unfold decValueElem; safe
macro_rules | `(tactic| safe_leaf) => `(tactic| exact decValueElem_safe _ ‹_› _ _)

theorem listOfSame_safe (first : Str) (ks : List Xml) : Safe EE (listOfSame C fuel first ks) := by
  fun_induction listOfSame C fuel first ks <;> safe
macro_rules | `(tactic| safe_leaf) => `(tactic| exact listOfSame_safe _ ‹_› _ _ _)

theorem decIReturnValue_safe (t : Xml) : Safe EE (decIReturnValue C fuel t) := by
  unfold decIReturnValue; safe
macro_rules | `(tactic| safe_leaf) => `(tactic| exact decIReturnValue_safe _ ‹_› _ _)

theorem embStrs_safe (l : List (Option Str)) : Safe EE (embStrs C fuel l) := by
  fun_induction embStrs C fuel l <;> safe <;> exact embAt_safeE C hC fuel _
macro_rules | `(tactic| safe_leaf) => `(tactic| exact embStrs_safe _ ‹_› _ _)

omit hC in
theorem embPaths_safe (l : List (Option Path)) : Safe EE (embPaths l) := by
  fun_induction embPaths l <;> safe
macro_rules | `(tactic| safe_leaf) => `(tactic| exact embPaths_safe _)

theorem embPV_safe (v : PV) : Safe EE (embPV C fuel v) := by
  unfold embPV; safe <;> exact embAt_safeE C hC fuel _
macro_rules | `(tactic| safe_leaf) => `(tactic| exact embPV_safe _ ‹_› _ _)

theorem optionalChild_safe (ks : List Xml) (acc : List String) : Safe EE (optionalChild C fuel ks acc) := by
  unfold optionalChild; safe
macro_rules | `(tactic| safe_leaf) => `(tactic| exact optionalChild_safe _ ‹_› _ _ _)

theorem decErrorInsts_safe (ks : List Xml) : Safe EE (decErrorInsts C fuel ks) := by
  fun_induction decErrorInsts C fuel ks <;> safe
macro_rules | `(tactic| safe_leaf) => `(tactic| exact decErrorInsts_safe _ ‹_› _ _)

theorem decError_safe (t : Xml) : Safe EE (decError C fuel t) := by
  unfold decError; safe
macro_rules | `(tactic| safe_leaf) => `(tactic| exact decError_safe _ ‹_› _ _)

theorem decReturnValue_safe (t : Xml) : Safe EE (decReturnValue C fuel t) := by
  unfold decReturnValue; safe
macro_rules | `(tactic| safe_leaf) => `(tactic| exact decReturnValue_safe _ ‹_› _ _)

theorem decParamValue_safe (t : Xml) : Safe EE (decParamValue C fuel t) := by
  unfold decParamValue; safe
macro_rules | `(tactic| safe_leaf) => `(tactic| exact decParamValue_safe _ ‹_› _ _)

theorem decRspKids_safe (acc : List String) (ks : List Xml) : Safe EE (decRspKids C fuel acc ks) := by
  fun_induction decRspKids C fuel acc ks <;> safe
macro_rules | `(tactic| safe_leaf) => `(tactic| exact decRspKids_safe _ ‹_› _ _ _)

theorem decResponseElem_safe (t : Xml) : Safe EE (decResponseElem C fuel t) := by
  unfold decResponseElem; safe
macro_rules | `(tactic| safe_leaf) => `(tactic| exact decResponseElem_safe _ ‹_› _ _)

theorem decIParamValues_safe (ks : List Xml) : Safe EE (decIParamValues C fuel ks) := by
  fun_induction decIParamValues C fuel ks <;> safe
macro_rules | `(tactic| safe_leaf) => `(tactic| exact decIParamValues_safe _ ‹_› _ _)

theorem decParamValuesMatching_safe (ks : List Xml) : Safe EE (decParamValuesMatching C fuel ks) := by
  fun_induction decParamValuesMatching C fuel ks <;> safe
macro_rules | `(tactic| safe_leaf) => `(tactic| exact decParamValuesMatching_safe _ ‹_› _ _)

theorem decLocalPathsMatching_safe (ks : List Xml) : Safe EE (decLocalPathsMatching C ks) := by
  fun_induction decLocalPathsMatching C ks <;> safe
macro_rules | `(tactic| safe_leaf) => `(tactic| exact decLocalPathsMatching_safe _ ‹_› _)

theorem decExpParamValues_safe (ks : List Xml) : Safe EE (decExpParamValues C fuel ks) := by
  fun_induction decExpParamValues C fuel ks <;> safe
macro_rules | `(tactic| safe_leaf) => `(tactic| exact decExpParamValues_safe _ ‹_› _ _)

theorem decSimpleReq_safe (t : Xml) : Safe EE (decSimpleReq C fuel t) := by
  unfold decSimpleReq; safe
macro_rules | `(tactic| safe_leaf) => `(tactic| exact decSimpleReq_safe _ ‹_› _ _)

theorem decSimpleExpReq_safe (t : Xml) : Safe EE (decSimpleExpReq C fuel t) := by
  unfold decSimpleExpReq; safe
macro_rules | `(tactic| safe_leaf) => `(tactic| exact decSimpleExpReq_safe _ ‹_› _ _)

theorem decMessage_safe (t : Xml) : Safe EE (decMessage C fuel t) := by
  unfold decMessage; safe
  exact Safe.error (Or.inr rfl)
macro_rules | `(tactic| safe_leaf) => `(tactic| exact decMessage_safe _ ‹_› _ _)

theorem decDeclaration_safe (t : Xml) : Safe EE (decDeclaration C fuel t) := by
  unfold decDeclaration; safe
macro_rules | `(tactic| safe_leaf) => `(tactic| exact decDeclaration_safe _ ‹_› _ _)

theorem decCim_safe (t : Xml) : Safe EE (decCim C fuel t) := by
  unfold decCim; safe
  all_goals exact Safe.error (Or.inr rfl)

end
end Proofs.C02
