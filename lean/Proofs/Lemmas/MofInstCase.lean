/-
Helper lemmas for C08: instance declarations whose property names are spelled in another case than in the class —
the compiled property takes the spelling of the class (documented normalisation `normInstance`).
-/
import Proofs.Lemmas.MofInst

set_option linter.unusedSimpArgs false
set_option linter.unusedVariables false

namespace Pywbem.Lemmas.MofInstCase
open Pywbem.Proto Pywbem.Model Pywbem.Model.MofStr Pywbem.Model.MofLex Pywbem.Model.MofVal Pywbem.Model.MofDecl
open Pywbem.Lemmas.MofValue Pywbem.Lemmas.MofDoc Pywbem.Lemmas.MofQual Pywbem.Lemmas.MofQualList Pywbem.Lemmas.MofInst

abbrev Str := List Nat

/-- the compiler copies the property from the class: the name comes back in the class's spelling -/
def normProp {c : Codec} (cls : Class c) (p : Property c) : Property c :=
  match findProp cls p.name with
  | some cp => { p with name := cp.name }
  | none => p

def normInstance {c : Codec} (cls : Class c) (inst : Instance c) : Instance c :=
  { inst with props := inst.props.map (normProp cls) }

/-- like `InstPropOk`, but the property name may be spelled in any case -/
structure InstPropOkC (c : Codec) (L : CodecLaws c) (cls : Class c) (p : Property c) : Prop where
  nameWord : IsWord p.name
  nameId : identOf p.name = some p.name
  cprop : ∃ cp, findProp cls p.name = some cp ∧ cp.ty = p.ty ∧ cp.refClass = p.refClass ∧
    cp.isArray = p.isArray ∧ cp.arraySize = p.arraySize ∧
    (p.value.isSome = true → hasQual cp "embeddedinstance" = false ∧ hasQual cp "embeddedobject" = false)
  noQuals : p.quals = []
  valueOk : ∀ v, p.value = some v → ValueOk c L p.ty v ∧ Value.isList v = p.isArray ∧ v ≠ .scalar .null

theorem findProp_lower {c : Codec} (cls : Class c) (n : Str) (cp : Property c) (h : findProp cls n = some cp) :
    cp.name.map asciiLower = n.map asciiLower := by
  unfold findProp at h
  have := List.find?_some h
  simpa using this

theorem parseInstProp_toksC (c : Codec) (L : CodecLaws c) (cls : Class c) (p : Property c)
    (hok : InstPropOkC c L cls p) (toks : List Tok) (ht : ValueToks c (effValue p) toks) (rest : List Tok) :
    parseInstProp c cls (instPropToks p toks ++ rest) = some (normProp cls p, rest) := by
  obtain ⟨cp, hfind, h2, h3, h4, h5, hemb⟩ := hok.cprop
  have hpi := parseInit_assign c (effValue p) toks ht rest
  have hq := hok.noQuals
  have hnorm : normProp cls p = { p with name := cp.name } := by simp [normProp, hfind]
  rw [hnorm]
  simp only [instPropToks, assignToks, List.cons_append, List.nil_append, List.append_assoc] at hpi ⊢
  simp only [parseInstProp, hok.nameId, hfind]
  obtain ⟨name, ty, rc, isArray, size, value, quals⟩ := p
  obtain ⟨cname, cty, crc, cisArray, csize, cvalue, cquals⟩ := cp
  simp only at h2 h3 h4 h5 hq hemb hpi ⊢
  subst h2; subst h3; subst h4; subst h5; subst hq
  cases value with
  | none =>
    simp only [effValue, Option.getD_none, Value.isList, Bool.false_eq_true, if_false, List.nil_append, rawOf] at hpi ⊢
    simp only [hpi]
  | some v =>
    obtain ⟨hv1, hv2, hv3⟩ := hok.valueOk v rfl
    simp only at hv1 hv2 hv3
    obtain ⟨he1, he2⟩ := hemb rfl
    simp only [effValue, Option.getD_some] at hpi ⊢
    rw [hpi]
    cases v with
    | scalar s =>
      have hne : rawOf c s ≠ .null := fun e => hv3 (by rw [rawOf_null c s e])
      have hty := typeRaw_scalar c L cty s hv1
      simp only [Value.isList] at hv2
      subst hv2
      cases hraw : rawOf c s with
      | null => exact absurd hraw hne
      | bool b => rw [hraw] at hty; simp [hraw, he1, he2, typeInit, hty]
      | int b => rw [hraw] at hty; simp [hraw, he1, he2, typeInit, hty]
      | float b => rw [hraw] at hty; simp [hraw, he1, he2, typeInit, hty]
      | str b => rw [hraw] at hty; simp [hraw, he1, he2, typeInit, hty]
      | chr b => rw [hraw] at hty; simp [hraw, he1, he2, typeInit, hty]
    | array xs =>
      simp only [Value.isList] at hv2
      subst hv2
      simp [he1, he2, typeInit, typeRaws_scalars c L cty xs hv1]

theorem parseInstPropsF_toksC (c : Codec) (L : CodecLaws c) (cls : Class c) :
    ∀ (ps : List (Property c)) (tokss : List (List Tok)), (∀ p ∈ ps, InstPropOkC c L cls p) → PAll c ps tokss →
      ∀ (rest : List Tok) f, ps.length + 1 ≤ f →
      parseInstPropsF c cls f (instPropsToks ps tokss ++ Tok.p 125 :: rest) = some (ps.map (normProp cls), rest) := by
  intro ps
  induction ps with
  | nil =>
    intro tokss _ hall rest f hf
    cases hall
    match f, hf with
    | f + 1, _ => simp [instPropsToks, parseInstPropsF]
  | cons p ps ih =>
    intro tokss hok hall rest f hf
    cases hall with
    | cons hp hrest =>
      rename_i t ts
      match f, hf with
      | f + 1, hf =>
        simp only [List.length_cons] at hf
        have hpp := parseInstProp_toksC c L cls p (hok p (by simp)) t hp (instPropsToks ps ts ++ Tok.p 125 :: rest)
        have hrec := ih ts (fun x hx => hok x (by simp [hx])) hrest rest f (by omega)
        simp only [instPropsToks, List.append_assoc] at hpp ⊢
        simp only [instPropToks, List.cons_append] at hpp ⊢
        simp only [parseInstPropsF, hpp, hrec]
        simp

/-- an instance whose class name and property names may be spelled in any case -/
structure InstanceOkC (c : Codec) (L : CodecLaws c) (cls : Class c) (inst : Instance c) : Prop where
  cnWord : IsWord inst.className
  cnId : identOf inst.className = some inst.className
  props : ∀ p ∈ inst.props, InstPropOkC c L cls p
  nodup : (inst.props.map (fun p => p.name.map asciiLower)).Nodup

theorem normProp_lower (c : Codec) (L : CodecLaws c) (cls : Class c) (p : Property c) (h : InstPropOkC c L cls p) :
    (normProp cls p).name.map asciiLower = p.name.map asciiLower := by
  obtain ⟨cp, hfind, _⟩ := h.cprop
  simp only [normProp, hfind]
  exact findProp_lower cls p.name cp hfind

theorem instance_roundtripC (c : Codec) (L : CodecLaws c) (cls : Class c) (inst : Instance c)
    (hok : InstanceOkC c L cls inst) (maxline : Nat)
    (hm : Generated.mofIndent + Generated.mofIndent + 8 ≤ maxline) (text : Str)
    (hr : instanceTomof c inst maxline = .ok text) : readInstance c cls text = some (normInstance cls inst) := by
  unfold instanceTomof at hr
  cases hp : mapTomof (fun p => propertyTomof c p true Generated.mofIndent maxline) inst.props with
  | error e => simp [hp] at hr
  | ok pts =>
    simp only [hp, Except.ok.injEq] at hr
    obtain ⟨tokss, hall, hdocs⟩ := instProps_doc c L Generated.mofIndent maxline hm inst.props pts
      (fun p hpm => ⟨(hok.props p hpm).nameWord, (hok.props p hpm).valueOk⟩) hp
    have hhead : DocS (kInstanceOfSp ++ inst.className ++ kSpBraceNl)
        [Tok.id kwInstance, Tok.id kwOf, Tok.id inst.className, Tok.p 123] := by
      have := DocS.ofPieces [.word kwInstance, .sep [32], .word kwOf, .sep [32], .word inst.className] kSpBraceNl
        (by
          intro p hpm
          simp only [List.mem_cons, List.mem_nil_iff, or_false] at hpm
          rcases hpm with h | h | h | h | h <;> subst h
          · exact isWord_of_B _ (by decide)
          · show ([32] : Str).all isSepPlain = true; decide
          · exact isWord_of_B _ (by decide)
          · show ([32] : Str).all isSepPlain = true; decide
          · exact hok.cnWord)
        (by decide)
        ⟨.inr (by show ([32] : Str) ≠ []; decide), .inl trivial, .inr (by show ([32] : Str) ≠ []; decide), .inl trivial,
          .inr (by show kSpBraceNl ≠ []; decide), trivial⟩
      have e1 : punctToks [32] = [] := by decide
      have e2 : punctToks kSpBraceNl = [Tok.p 123] := by decide
      have e3 : kInstanceOfSp = kwInstance ++ [32] ++ kwOf ++ [32] := by decide
      simpa [docText, docToks, Piece.text, Piece.toks, e1, e2, e3] using this
    have htail : DocS kCloseBraceSemiNl [Tok.p 125, Tok.p 59] := by
      have := DocS.sep kCloseBraceSemiNl (by decide)
      have e : punctToks kCloseBraceSemiNl = [Tok.p 125, Tok.p 59] := by decide
      rwa [e] at this
    have hdoc := (DocS.append (DocS.append hhead hdocs) htail).toDoc
    have hlex := hdoc.lex
    rw [hr] at hlex
    have hkw : (isKw kwInstance "instance" && isKw kwOf "of") = true := by decide
    have hlen : inst.props.length + 1 ≤ (instPropsToks inst.props tokss ++ [Tok.p 125, Tok.p 59]).length + 1 := by
      have : ∀ (ps : List (Property c)) (ts : List (List Tok)), PAll c ps ts → ps.length ≤ (instPropsToks ps ts).length := by
        intro ps
        induction ps with
        | nil => intro ts _; simp
        | cons q r ih =>
          intro ts h
          cases h with
          | cons hq hrest =>
            have := ih _ hrest
            simp only [instPropsToks, instPropToks, List.length_append, List.length_cons] at this ⊢
            omega
      have := this inst.props tokss hall
      simp only [List.length_append, List.length_cons, List.length_nil]
      omega
    have hparse := parseInstPropsF_toksC c L cls inst.props tokss hok.props hall [Tok.p 59] _ hlen
    have hnd : ((inst.props.map (normProp cls)).map (fun p => p.name.map asciiLower)).Nodup := by
      have : (inst.props.map (normProp cls)).map (fun p => p.name.map asciiLower) =
          inst.props.map (fun p => p.name.map asciiLower) := by
        rw [List.map_map]
        apply List.map_congr_left
        intro p hpm
        exact normProp_lower c L cls p (hok.props p hpm)
      rw [this]; exact hok.nodup
    simp only [readInstance, hlex, List.cons_append, List.nil_append, List.append_assoc, parseInstance, hkw,
      Bool.not_true, Bool.false_eq_true, if_false, hok.cnId]
    rw [hparse]
    have hnd' : (List.map ((fun p => List.map asciiLower p.name) ∘ normProp cls) inst.props).Nodup := by
      simpa [List.map_map] using hnd
    simp [hnd', normInstance]

end Pywbem.Lemmas.MofInstCase
