/-
C01 — from clean objects to well-formed, wire-stable trees, part 3: the four instance forms, qualifier
declarations (SCOPE attributes) and `good_encObj`: for every sendable clean object the encoder's tree is
`WfTree` and `SoftStable` (and `CdSafe`).
-/
import Proofs.Lemmas.CimXml17

set_option linter.unusedSimpArgs false
set_option linter.unusedVariables false
set_option linter.unusedSectionVars false

namespace Proofs.CimXml
open Pywbem.Model Pywbem.Model.XmlText Pywbem.Proto Pywbem.Model.XmlParse Proofs.XmlText Proofs.XmlParse

/-! ### SCOPE -/

theorem goodAttrs_of_forall (as : List (Str × Str)) (h : ∀ x ∈ as, isName x.1 = true ∧ attrOk x.2 = true) :
    GoodAttrs as := by
  induction as with
  | nil => exact goodAttrs_nil
  | cons p as ih =>
    obtain ⟨k, v⟩ := p
    have hp := h (k, v) (by simp)
    exact goodAttrs_cons hp.1 hp.2 (ih (fun x hx => h x (by simp [hx])))

theorem perm_insertSorted (p : Str × Str) (l : List (Str × Str)) : List.Perm (insertSorted p l) (p :: l) := by
  induction l with
  | nil => exact List.Perm.refl _
  | cons q qs ih =>
    simp only [insertSorted]
    split
    · exact List.Perm.refl _
    · exact (List.Perm.cons q ih).trans (List.Perm.swap p q qs)

theorem perm_foldr_insertSorted (l : List (Str × Str)) : List.Perm (l.foldr insertSorted []) l := by
  induction l with
  | nil => exact List.Perm.refl _
  | cons p l ih =>
    simp only [List.foldr_cons]
    exact (perm_insertSorted p _).trans (List.Perm.cons p ih)

theorem isName_scopeName {k : Str} (h : k ∈ scopeNames.map String.toList) : isName k = true := by
  simp only [scopeNames, List.map_cons, List.map_nil, List.mem_cons, List.not_mem_nil, or_false] at h
  rcases h with rfl | rfl | rfl | rfl | rfl | rfl | rfl <;> decide

theorem good_scope (scopes : List (Str × Bool))
    (hs : scopes.any (fun p => p.1.map Char.toLower == "any".toList && p.2) = true ∨
         ∀ p ∈ scopes, upperAscii p.1 ∈ scopeNames.map String.toList)
    (hd : (scopes.any (fun p => p.1.map Char.toLower == "any".toList && p.2) ||
      !hasDup (scopes.map (fun p => upperAscii p.1))) = true) :
    Good (E "SCOPE" (scopeAttrList scopes) []) := by
  have hok := scopeAttrList_ok scopes hs
  refine good_E (by decide) (goodAttrs_of_forall _ ?_) ?_ goodKids_nil
  · intro x hx
    obtain ⟨h1, b, h2⟩ := hok x hx
    exact ⟨isName_scopeName h1, by rw [h2]; exact attrOk_boolAttr b⟩
  · rw [scopeAttrList_eq]
    by_cases ha : anyTrue scopes = true
    · rw [if_pos ha]; decide
    · rw [if_neg ha]
      have ha' : scopes.any (fun p => p.1.map Char.toLower == "any".toList && p.2) = false := by
        cases h : scopes.any (fun p => p.1.map Char.toLower == "any".toList && p.2)
        · rfl
        · exact absurd h ha
      rw [ha', Bool.false_or, Bool.not_eq_true'] at hd
      have hnd : (scopes.map (fun p => upperAscii p.1)).Nodup := (hasDup_eq_false_iff _).mp hd
      apply (hasDup_eq_false_iff _).mpr
      have hperm := (perm_foldr_insertSorted (scopes.map sg)).map (·.1)
      rw [hperm.nodup_iff, List.map_map]
      exact hnd

/-! ### QUALIFIER.DECLARATION -/

theorem qdAttrs_good (q : QualDecl) (hn : attrOk q.name = true) (ht : attrOk q.ty = true) :
    GoodAttrs (qdAttrs q) ∧ hasDup ((qdAttrs q).map (·.1)) = false := by
  unfold qdAttrs
  constructor
  · exact goodAttrs_append (goodAttrs_append (goodAttrs_append (goodAttrs_append (goodAttrs_append (goodAttrs_append
      (goodAttrs_cons (by decide) hn (goodAttrs_cons (by decide) ht goodAttrs_nil))
      (goodAttrs_cons (by decide) (attrOk_boolAttr _) goodAttrs_nil))
      (goodAttrs_optAttr _ _ (by decide) (optOk_iff (optOk_natToStr _))))
      (goodAttrs_optBoolAttr _ _ (by decide))) (goodAttrs_optBoolAttr _ _ (by decide)))
      (goodAttrs_optBoolAttr _ _ (by decide))) (goodAttrs_optBoolAttr _ _ (by decide))
  · exact noDup_of_keysSub (keysSub_append (keysSub_append (keysSub_append (keysSub_append (keysSub_append
      (keysSub_append (keysSub_cons (keysSub_cons (keysSub_nil []))) (keysSub_cons (keysSub_nil [])))
      (keysSub_optAttr _ _)) (keysSub_optBoolAttr _ _)) (keysSub_optBoolAttr _ _)) (keysSub_optBoolAttr _ _))
      (keysSub_optBoolAttr _ _)) (by decide)

section
variable (C : DecCodec) (S : Spec) (hK : CodecClean C.toCodec)

include hK in
theorem good_qualdecl (q : QualDecl) (hs : SendableQualDecl S q) (hc : cleanQualDecl q = true) :
    Good (encQualDecl C.toCodec q) := by
  simp only [cleanQualDecl, Bool.and_eq_true] at hc
  obtain ⟨⟨⟨hn, ht⟩, hv⟩, hd⟩ := hc
  have ha := qdAttrs_good q hn ht
  rw [encQualDecl_eq]
  refine good_E (by decide) ha.1 ha.2 (goodKids_append ?_ (G_val C hK q.val hv))
  by_cases hemp : q.scopes.isEmpty = true
  · have : encScope q.scopes = [] := by simp only [encScope, hemp, if_true]
    rw [this]; exact goodKids_nil
  · have : encScope q.scopes = [E "SCOPE" (scopeAttrList q.scopes) []] := by
      simp only [encScope, hemp, Bool.false_eq_true, if_false, scopeAttrList]
    rw [this]
    exact goodKids_cons (good_scope q.scopes hs.2.1 hd) goodKids_nil

include hK in
/-- the four forms of an instance -/
theorem good_encInst (i : Inst) (hc : cleanInst i = true) : Good (encInst C.toCodec i) := by
  obtain ⟨cls, path, props, quals⟩ := i
  simp only [cleanInst, Bool.and_eq_true] at hc
  obtain ⟨hb, hp⟩ := hc
  have hie := G_inst C hK _ hb
  rw [encInstElem_eq] at hie
  cases path with
  | none => simp only [encInst]; exact hie
  | some p =>
    have hpath := G_path C hK p hp
    cases p with
    | cls c h n => simp only [encInst]; exact hie
    | inst c h ns ks =>
      cases ns with
      | none =>
        simp only [encInst]
        exact good_E0 (by decide) (goodKids_cons hpath (goodKids_cons hie goodKids_nil))
      | some n =>
        cases h with
        | none =>
          simp only [encInst]
          exact good_E0 (by decide) (goodKids_cons hpath (goodKids_cons hie goodKids_nil))
        | some hst =>
          simp only [encInst]
          exact good_E0 (by decide) (goodKids_cons hpath (goodKids_cons hie goodKids_nil))

include hK in
/-- **the encoder's tree of a sendable clean object is well formed and wire-stable** -/
theorem good_encObj (o : Obj) (hs : Sendable S o) (hc : cleanObj o = true) : Good (encObj C.toCodec o) := by
  cases o with
  | path p => exact G_path C hK p hc
  | inst i => exact good_encInst C hK i hc
  | cls c => exact G_cls C hK c hc
  | prop p => exact G_prop C hK p hc
  | meth m => exact G_meth C hK m hc
  | param p => exact G_param C hK p hc
  | qual q => exact G_qual C hK q hc
  | qdecl q => exact good_qualdecl C S hK q hs hc

end

end Proofs.CimXml
