/-
C03 — `tocimxml()` of instances, classes, methods, parameters, qualifier declarations and parameter values has
the structure the DTD demands; `struct_encObj` collects all object kinds.
-/
import Proofs.Lemmas.DtdEnc

set_option linter.unusedSimpArgs false
set_option linter.unusedVariables false

namespace Proofs.DtdEnc
open Pywbem.Model Pywbem.Model.Dtd Pywbem.Model.XmlText Pywbem.Model.Sendable Proofs.Dtd
open Pywbem.Generated

/-- a two-child element whose content model accepts the two child names -/
theorem struct_pair' {n : String} (decl : ElemDecl) {a b : Xml} {na nb : Name} {asa asb : List (Str × Str)}
    {ka kb : List Xml} {r : Re} (ha : a = .elem na asa ka) (hb : b = .elem nb asb kb)
    (hl : lookupElem D n.toList = some decl) (hat : validAttrs decl.atts [] = true)
    (hc : decl.content = .children r) (hr : Lang r [na, nb])
    (hsa : structNode D a = true) (hsb : structNode D b = true) : structNode D (E n [] [a, b]) = true := by
  subst ha hb
  apply struct_elem decl hl hat
  · rw [hc]
    exact content_children (by simp [allElems]) (by simpa [kidNames] using hr)
  · rw [structNodes_cons, hsa, structNodes_one hsb]; rfl

/-! ### instances -/

theorem struct_instanceElem (C : Codec) (cls : Str) (props : List Prop_) (quals : List Qual)
    (hq : shapeQuals quals = true) (hp : shapeProps props = true) :
    structNode D (E "INSTANCE" [("CLASSNAME".toList, cls)] (encQuals C quals ++ encProps C props)) = true := by
  obtain ⟨q1, q2, q3⟩ := encQuals_facts C quals hq
  obtain ⟨p1, p2, p3⟩ := encProps_facts C props hp
  apply struct_elem dtdDecl_INSTANCE (by rfl) (attrs_name_only "CLASSNAME" cls (by rfl) (by rfl))
  · apply content_children (by rw [allElems_append, q2, p2]; rfl)
    rw [kidNames_append, q3]
    exact lang_quals_then _ (lang_star_propNames _ p3)
  · rw [structNodes_append, q1, p1]; rfl

theorem struct_encInstElem (C : Codec) (i : Inst) (h : shapeInst i = true) : structNode D (encInstElem C i) = true := by
  cases i with
  | mk cls path props quals =>
    simp only [shapeInst, Bool.and_eq_true] at h
    simp only [encInstElem]
    exact struct_instanceElem C cls props quals h.1.1 h.1.2

theorem struct_encInst (C : Codec) (i : Inst) (h : shapeInst i = true) : structNode D (encInst C i) = true := by
  cases i with
  | mk cls path props quals =>
    simp only [shapeInst, Bool.and_eq_true] at h
    obtain ⟨⟨hq, hp⟩, hpath⟩ := h
    have hie := struct_instanceElem C cls props quals hq hp
    cases path with
    | none => simpa only [encInst] using hie
    | some p =>
      have hsp : shapePath p = true := by simpa using hpath
      have hpp := struct_encPath C p hsp
      cases p with
      | cls c h n => simpa only [encInst] using hie
      | inst c h n ks =>
        cases n with
        | none =>
          simp only [encInst]
          exact struct_pair' dtdDecl_VALUE_NAMEDINSTANCE (by simp only [encPath, E]; rfl) (by simp only [E]; rfl)
            (by rfl) (by decide) (by rfl) (lang_seq2 (Lang.sym _) (Lang.sym _)) hpp hie
        | some ns =>
          cases h with
          | none =>
            simp only [encInst]
            refine struct_pair' dtdDecl_VALUE_OBJECTWITHLOCALPATH (by simp only [encPath, E]; rfl) (by simp only [E]; rfl)
              (by rfl) (by decide) (by rfl) ?_ hpp hie
            exact lang_alts_mem (r := Re.seqs [.sym "LOCALINSTANCEPATH".toList, .sym "INSTANCE".toList]) (by simp)
              (lang_seq2 (Lang.sym _) (Lang.sym _))
          | some hst =>
            simp only [encInst]
            exact struct_pair' dtdDecl_VALUE_INSTANCEWITHPATH (by simp only [encPath, E]; rfl) (by simp only [E]; rfl)
              (by rfl) (by decide) (by rfl) (lang_seq2 (Lang.sym _) (Lang.sym _)) hpp hie

/-! ### parameters, methods, classes -/

def paramNames : List Name :=
  ["PARAMETER".toList, "PARAMETER.REFERENCE".toList, "PARAMETER.ARRAY".toList, "PARAMETER.REFARRAY".toList]

theorem content_quals_only (C : Codec) (quals : List Qual) (hq : shapeQuals quals = true) :
    contentOk (.children (.star (.sym "QUALIFIER".toList))) (encQuals C quals) = true := by
  obtain ⟨q1, q2, q3⟩ := encQuals_facts C quals hq
  apply content_children q2
  rw [q3]; exact lang_star_replicate _ _

theorem isCimType_of_not_ref {ty : Str} (h : (decide (ty = "reference".toList) || isCimType ty) = true)
    (hr : ¬ ty = "reference".toList) : isCimType ty = true := by
  rcases (Bool.or_eq_true _ _).mp h with h | h
  · exact absurd (of_decide_eq_true h) hr
  · exact h

theorem struct_encParam (C : Codec) (p : Param) (h : shapeParam p = true) : structNode D (encParam C p) = true := by
  cases p with
  | mk name ty refCls isArray arraySize quals val emb =>
    simp only [shapeParam, Bool.and_eq_true] at h
    obtain ⟨hq, hty⟩ := h
    obtain ⟨q1, q2, q3⟩ := encQuals_facts C quals hq
    have hc := content_quals_only C quals hq
    simp only [encParam]
    by_cases ha : isArray = true <;> by_cases hr : ty = "reference".toList
    · simp only [ha, hr, if_true]
      apply struct_elem dtdDecl_PARAMETER_REFARRAY (by rfl) _ hc q1
      apply validAttrs_of (["NAME".toList] ++ ["REFERENCECLASS".toList] ++ ["ARRAYSIZE".toList])
      · simp only [List.all_append, Bool.and_eq_true, List.all_cons, List.all_nil, Bool.and_true]
        exact ⟨⟨attrOk_cdata (by rfl) _, all_optAttr_cdata _ _ _ (by rfl)⟩, all_optAttr_cdata _ _ _ (by rfl)⟩
      · simp only [List.map_append]
        exact List.Sublist.append (List.Sublist.append (by simp) (sub_optAttr _ _)) (sub_optAttr _ _)
      · decide
      · have : requiredNames dtdDecl_PARAMETER_REFARRAY.atts = ["NAME".toList] := by rfl
        rw [this]; simp
    · simp only [ha, if_true]; rw [if_neg hr]
      apply struct_elem dtdDecl_PARAMETER_ARRAY (by rfl) _ hc q1
      apply validAttrs_of (["NAME".toList] ++ ["TYPE".toList] ++ ["ARRAYSIZE".toList])
      · simp only [List.all_append, Bool.and_eq_true, List.all_cons, List.all_nil, Bool.and_true]
        have hev : enumVals dtdDecl_PARAMETER_ARRAY.atts "TYPE".toList = cimTypes := by rfl
        refine ⟨⟨attrOk_cdata (by rfl) _, attrOk_enum ?_⟩, all_optAttr_cdata _ _ _ (by rfl)⟩
        rw [hev]; exact isCimType_of_not_ref hty hr
      · simp only [List.map_append]
        exact List.Sublist.append (by simp) (sub_optAttr _ _)
      · decide
      · have : requiredNames dtdDecl_PARAMETER_ARRAY.atts = ["NAME".toList, "TYPE".toList] := by rfl
        rw [this]; simp
    · have ha' : isArray = false := by simpa using ha
      subst ha'
      simp only [Bool.false_eq_true, if_false, hr, if_true]
      apply struct_elem dtdDecl_PARAMETER_REFERENCE (by rfl) _ hc q1
      apply validAttrs_of (["NAME".toList] ++ ["REFERENCECLASS".toList])
      · simp only [List.all_append, Bool.and_eq_true, List.all_cons, List.all_nil, Bool.and_true]
        exact ⟨attrOk_cdata (by rfl) _, all_optAttr_cdata _ _ _ (by rfl)⟩
      · simp only [List.map_append]
        exact List.Sublist.append (by simp) (sub_optAttr _ _)
      · decide
      · have : requiredNames dtdDecl_PARAMETER_REFERENCE.atts = ["NAME".toList] := by rfl
        rw [this]; simp
    · have ha' : isArray = false := by simpa using ha
      subst ha'
      simp only [Bool.false_eq_true, if_false]; rw [if_neg hr]
      apply struct_elem dtdDecl_PARAMETER (by rfl) _ hc q1
      apply validAttrs_of (["NAME".toList] ++ ["TYPE".toList])
      · simp only [List.all_append, Bool.and_eq_true, List.all_cons, List.all_nil, Bool.and_true]
        have hev : enumVals dtdDecl_PARAMETER.atts "TYPE".toList = cimTypes := by rfl
        refine ⟨attrOk_cdata (by rfl) _, attrOk_enum ?_⟩
        rw [hev]; exact isCimType_of_not_ref hty hr
      · simp
      · decide
      · have : requiredNames dtdDecl_PARAMETER.atts = ["NAME".toList, "TYPE".toList] := by rfl
        rw [this]; simp

theorem encParam_elem (C : Codec) (p : Param) : ∃ as ks n, encParam C p = .elem n as ks ∧ n ∈ paramNames := by
  cases p with
  | mk name ty refCls isArray arraySize quals val emb =>
    simp only [encParam]
    split <;> split <;> exact ⟨_, _, _, by simp only [E]; rfl, by simp [paramNames]⟩

theorem encParams_facts (C : Codec) : ∀ (ps : List Param), shapeParams ps = true →
    structNodes D (encParams C ps) = true ∧ allElems (encParams C ps) = true ∧
    ∀ x ∈ kidNames (encParams C ps), x ∈ paramNames
  | [], _ => by simp [encParams, structNodes, allElems, kidNames]
  | p :: ps, h => by
    have h' : shapeParam p = true ∧ shapeParams ps = true := by simpa [shapeParams] using h
    obtain ⟨h1, h2, h3⟩ := encParams_facts C ps h'.2
    obtain ⟨as, kk, n, he, hn⟩ := encParam_elem C p
    have hs := struct_encParam C p h'.1
    simp only [encParams]
    rw [structNodes_cons, hs, h1, he]
    refine ⟨rfl, by simpa [allElems] using h2, ?_⟩
    intro x hx
    simp only [kidNames, List.mem_cons] at hx
    rcases hx with rfl | hx
    · exact hn
    · exact h3 x hx

theorem lang_star_paramNames (w : List Name) (h : ∀ x ∈ w, x ∈ paramNames) :
    Lang (.star (Re.alts [.sym "PARAMETER".toList, .sym "PARAMETER.REFERENCE".toList, .sym "PARAMETER.ARRAY".toList,
      .sym "PARAMETER.REFARRAY".toList])) w := by
  apply lang_star_letters
  intro x hx
  have := h x hx
  simp [paramNames] at this
  rcases this with rfl | rfl | rfl | rfl <;> exact lang_alts_mem (r := .sym _) (by simp) (Lang.sym _)

theorem struct_encMeth (C : Codec) (m : Meth) (h : shapeMeth m = true) : structNode D (encMeth C m) = true := by
  cases m with
  | mk name retTy params origin propagated quals =>
    simp only [shapeMeth, Bool.and_eq_true] at h
    obtain ⟨⟨hq, hp⟩, hrt⟩ := h
    obtain ⟨q1, q2, q3⟩ := encQuals_facts C quals hq
    obtain ⟨p1, p2, p3⟩ := encParams_facts C params hp
    simp only [encMeth]
    apply struct_elem dtdDecl_METHOD (by rfl)
    · apply validAttrs_of (["NAME".toList] ++ ["TYPE".toList] ++ ["CLASSORIGIN".toList] ++ ["PROPAGATED".toList])
      · simp only [List.all_append, Bool.and_eq_true, List.all_cons, List.all_nil, Bool.and_true]
        refine ⟨⟨⟨attrOk_cdata (by rfl) _, all_optAttr_enum _ _ _ cimTypes (by rfl) ?_⟩,
          all_optAttr_cdata _ _ _ (by rfl)⟩, all_optBoolAttr _ _ _ (by rfl)⟩
        intro s hs; subst hs; simpa [isCimType] using hrt
      · simp only [List.map_append]
        exact List.Sublist.append (List.Sublist.append (List.Sublist.append (by simp) (sub_optAttr _ _))
          (sub_optAttr _ _)) (sub_optBoolAttr _ _)
      · decide
      · have : requiredNames dtdDecl_METHOD.atts = ["NAME".toList] := by rfl
        rw [this]; simp
    · apply content_children (by rw [allElems_append, q2, p2]; rfl)
      rw [kidNames_append, q3]
      exact lang_quals_then _ (lang_star_paramNames _ p3)
    · rw [structNodes_append, q1, p1]; rfl

theorem encMeth_elem (C : Codec) (m : Meth) : ∃ as ks, encMeth C m = .elem "METHOD".toList as ks := by
  cases m; exact ⟨_, _, by simp only [encMeth, E]; rfl⟩

theorem encMeths_facts (C : Codec) : ∀ (ms : List Meth), shapeMeths ms = true →
    structNodes D (encMeths C ms) = true ∧ allElems (encMeths C ms) = true ∧
    kidNames (encMeths C ms) = List.replicate ms.length "METHOD".toList
  | [], _ => by simp [encMeths, structNodes, allElems, kidNames]
  | m :: ms, h => by
    have h' : shapeMeth m = true ∧ shapeMeths ms = true := by simpa [shapeMeths] using h
    obtain ⟨h1, h2, h3⟩ := encMeths_facts C ms h'.2
    obtain ⟨as, kk, he⟩ := encMeth_elem C m
    have hs := struct_encMeth C m h'.1
    simp only [encMeths]
    rw [structNodes_cons, hs, h1, he]
    simp only [allElems, kidNames, h2, h3, List.length_cons, List.replicate_succ]
    simp

theorem struct_encCls (C : Codec) (c : Cls) (h : shapeCls c = true) : structNode D (encCls C c) = true := by
  cases c with
  | mk name super path props meths quals =>
    simp only [shapeCls, Bool.and_eq_true] at h
    obtain ⟨⟨hq, hp⟩, hm⟩ := h
    obtain ⟨q1, q2, q3⟩ := encQuals_facts C quals hq
    obtain ⟨p1, p2, p3⟩ := encProps_facts C props hp
    obtain ⟨m1, m2, m3⟩ := encMeths_facts C meths hm
    simp only [encCls]
    apply struct_elem dtdDecl_CLASS (by rfl)
    · apply validAttrs_of (["NAME".toList] ++ ["SUPERCLASS".toList])
      · simp only [List.all_append, Bool.and_eq_true, List.all_cons, List.all_nil, Bool.and_true]
        exact ⟨attrOk_cdata (by rfl) _, all_optAttr_cdata _ _ _ (by rfl)⟩
      · simp only [List.map_append]
        exact List.Sublist.append (by simp) (sub_optAttr _ _)
      · decide
      · have : requiredNames dtdDecl_CLASS.atts = ["NAME".toList] := by rfl
        rw [this]; simp
    · apply content_children (by rw [allElems_append, allElems_append, q2, p2, m2]; rfl)
      rw [kidNames_append, kidNames_append, q3, m3]
      exact lang_seq3 (lang_star_replicate _ _) (lang_star_propNames _ p3) (lang_star_replicate _ _)
    · rw [structNodes_append, structNodes_append, q1, p1, m1]; rfl

end Proofs.DtdEnc
