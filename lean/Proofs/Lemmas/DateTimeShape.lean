/-
C06: every state the CIMDateTime string constructor produces is well-formed (`WF`), for ALL input strings.
General part: what `starCheck` and the two patterns say about an accepted string (pointwise), and the
"shape" lemma: an accepted string with precision p is its all-digit version with asterisks at p..20.
-/
import Proofs.Lemmas.DateTime

namespace Proofs.DateTime
open Pywbem.Proto Pywbem.Model.DateTime
set_option maxRecDepth 20000

theorem digit_cases (c : Char) (h : isDigit c = true) :
    c = '0' ∨ c = '1' ∨ c = '2' ∨ c = '3' ∨ c = '4' ∨ c = '5' ∨ c = '6' ∨ c = '7' ∨ c = '8' ∨ c = '9' := by
  simp [isDigit] at h
  obtain ⟨h1, h2⟩ := h
  have e : c = Char.ofNat c.toNat := (Char.ofNat_toNat c).symm
  have h1' : 48 ≤ c.toNat := by
    have := h1; simp [Char.le_def] at this; exact this
  have h2' : c.toNat ≤ 57 := by
    have := h2; simp [Char.le_def] at this; exact this
  have : c.toNat = 48 ∨ c.toNat = 49 ∨ c.toNat = 50 ∨ c.toNat = 51 ∨ c.toNat = 52 ∨ c.toNat = 53 ∨ c.toNat = 54 ∨
      c.toNat = 55 ∨ c.toNat = 56 ∨ c.toNat = 57 := by omega
  rcases this with h | h | h | h | h | h | h | h | h | h <;> rw [h] at e <;> simp [e]

theorem digit_is_digitChar (c : Char) (h : isDigit c = true) : ∃ k, c = digitChar k := by
  rcases digit_cases c h with h | h | h | h | h | h | h | h | h | h
  · exact ⟨0, by rw [h]; rfl⟩
  · exact ⟨1, by rw [h]; rfl⟩
  · exact ⟨2, by rw [h]; rfl⟩
  · exact ⟨3, by rw [h]; rfl⟩
  · exact ⟨4, by rw [h]; rfl⟩
  · exact ⟨5, by rw [h]; rfl⟩
  · exact ⟨6, by rw [h]; rfl⟩
  · exact ⟨7, by rw [h]; rfl⟩
  · exact ⟨8, by rw [h]; rfl⟩
  · exact ⟨9, by rw [h]; rfl⟩

theorem slice_get (s : List Char) (b n j : Nat) : (slice s b n)[j]? = if j < n then s[b + j]? else none := by
  simp [slice, List.getElem?_take, List.getElem?_drop]

theorem slice_all_get {P : Char → Bool} {s : List Char} {b n : Nat} (h : (slice s b n).all P = true)
    (i : Nat) (hb : b ≤ i) (hi : i < b + n) (c : Char) (hc : s[i]? = some c) : P c = true := by
  have : (slice s b n)[i - b]? = some c := by
    rw [slice_get]; simp [show i - b < n by omega, show b + (i - b) = i by omega, hc]
  exact (List.all_eq_true.mp h) c (List.mem_of_getElem? this)

theorem firstStar_before (s : List Char) (i : Nat) (h : i < firstStar s) (c : Char) (hc : s[i]? = some c) : c ≠ '*' := by
  unfold firstStar List.idxOf at h
  have := List.not_of_lt_findIdx h
  obtain ⟨hi, rfl⟩ := List.getElem?_eq_some_iff.mp hc
  simpa using this

theorem firstStar_at (s : List Char) (h : s.contains '*' = true) : s[firstStar s]? = some '*' := by
  have hm : '*' ∈ s := by simpa using h
  have hlt : firstStar s < s.length := by
    unfold firstStar; exact List.idxOf_lt_length_of_mem hm
  rw [List.getElem?_eq_some_iff]
  refine ⟨hlt, ?_⟩
  unfold firstStar List.idxOf
  have := @List.findIdx_getElem _ (fun x => x == '*') s (by unfold firstStar List.idxOf at hlt; exact hlt)
  simpa using this

/-- what `starCheck s = ok (some p)` says -/
theorem starCheck_some {s : List Char} {p : Nat} (h : starCheck s = .ok (some p)) :
    s[p]? = some '*' ∧ (∀ i c, i < p → s[i]? = some c → c ≠ '*') ∧
    (∀ i c, p ≤ i → i < 21 → s[i]? = some c → isStarOrDot c = true) := by
  unfold starCheck at h
  split at h
  · rename_i hc
    split at h
    · simp at h
    · rename_i hall
      split at h
      · simp at h
      · rename_i hafter
        simp at h; subst h
        simp at hafter
        rw [hafter] at hall
        simp only [Bool.not_eq_true, Bool.not_eq_eq_eq_not, Bool.not_false] at hall
        refine ⟨firstStar_at s hc, fun i c hi hc' => firstStar_before s i hi c hc', ?_⟩
        intro i c h1 h2 hc'
        exact slice_all_get (by simpa using hall) i h1 (by omega) c hc'
  · simp at h

theorem starCheck_none {s : List Char} (h : starCheck s = .ok none) : '*' ∉ s := by
  unfold starCheck at h
  split at h
  · repeat' split at h
    all_goals simp at h
  · rename_i hc; simpa using hc

/-- replace asterisks by '0' -/
def unstar (c : Char) : Char := if c == '*' then '0' else c

/-- put asterisks at the string indices p ≤ i < 21 (except the '.' at 14), counting from index k -/
def maskAt (p : Nat) : Nat → List Char → List Char
  | _, [] => []
  | k, c :: cs => (if p ≤ k ∧ k < 21 ∧ k ≠ 14 then '*' else c) :: maskAt p (k + 1) cs

theorem maskAt_get (p k : Nat) (l : List Char) (i : Nat) :
    (maskAt p k l)[i]? = l[i]?.map (fun c => if p ≤ k + i ∧ k + i < 21 ∧ k + i ≠ 14 then '*' else c) := by
  induction l generalizing k i with
  | nil => simp [maskAt]
  | cons c cs ih =>
    cases i with
    | zero => simp [maskAt]
    | succ i =>
      simp only [maskAt, List.getElem?_cons_succ, ih]
      have : k + 1 + i = k + (i + 1) := by omega
      simp [this]

/-- pointwise facts the timestamp / interval patterns give for the positions 0..20 -/
def Body (s : List Char) : Prop :=
  (∀ i c, i < 21 → i ≠ 14 → s[i]? = some c → isDS c = true) ∧ s[14]? = some '.' ∧
  (∀ i c, 21 ≤ i → s[i]? = some c → c ≠ '*')

/-- an accepted string with precision p IS its all-digit version with asterisks put at p..20 -/
theorem shape_of_starCheck {s : List Char} {p : Nat} (hb : Body s) (h : starCheck s = .ok (some p)) :
    p < 21 ∧ p ≠ 14 ∧ s = maskAt p 0 (s.map unstar) := by
  obtain ⟨hat, hbefore, hrange⟩ := starCheck_some h
  obtain ⟨hds, hdot, htail⟩ := hb
  have hp21 : p < 21 := by
    by_cases hlt : p < 21
    · exact hlt
    · exact absurd rfl (htail p '*' (by omega) hat)
  have hp14 : p ≠ 14 := by
    intro h14; rw [h14, hdot] at hat; simp at hat
  refine ⟨hp21, hp14, ?_⟩
  apply List.ext_getElem?
  intro i
  rw [maskAt_get, List.getElem?_map]
  cases hc : s[i]? with
  | none => simp
  | some c =>
    simp only [Option.map_some, Nat.zero_add]
    by_cases hin : p ≤ i ∧ i < 21 ∧ i ≠ 14
    · simp only [hin, and_self, if_true, ne_eq, not_false_eq_true]
      have h1 := hrange i c hin.1 hin.2.1 hc
      have h2 := hds i c hin.2.1 hin.2.2 hc
      simp [isStarOrDot, isDS] at h1 h2
      rcases h1 with h1 | h1
      · simp [h1]
      · subst h1; simp [isDigit] at h2
    · simp only [hin, if_false]
      have hne : c ≠ '*' := by
        by_cases h1 : i < p
        · exact hbefore i c h1 hc
        · by_cases h2 : i < 21
          · have : i = 14 := by omega
            subst this; rw [hdot] at hc; simp at hc; subst hc; decide
          · exact htail i c (by omega) hc
      simp [unstar, hne]

theorem unstar_of_isDS (c : Char) (h : isDS c = true) : ∃ k, unstar c = digitChar k := by
  simp [isDS] at h
  rcases h with h | h
  · obtain ⟨k, hk⟩ := digit_is_digitChar c h
    refine ⟨k, ?_⟩
    rw [hk]; simp [unstar]
  · subst h; exact ⟨0, by decide⟩

theorem unstar_of_ne (c : Char) (h : c ≠ '*') : unstar c = c := by simp [unstar, h]

theorem exists_cons_of_len {n : Nat} (s : List Char) (h : s.length = n + 1) : ∃ c t, s = c :: t ∧ t.length = n := by
  cases s with
  | nil => simp at h
  | cons c t => exact ⟨c, t, rfl, by simpa using h⟩

theorem slice_eq_get {s : List Char} {b : Nat} {c : Char} (h : slice s b 1 = [c]) : s[b]? = some c := by
  have := slice_get s b 1 0
  rw [h] at this
  simpa using this.symm

theorem body_of_matchTs {s : List Char} (h : matchTs s = true) : Body s ∧ s.length = 25 := by
  simp only [matchTs, Bool.and_eq_true, Bool.or_eq_true, beq_iff_eq] at h
  obtain ⟨⟨⟨⟨⟨hl, h0⟩, h14⟩, h15⟩, h21⟩, h22⟩ := h
  have hl' : s.length = 25 := by simpa using hl
  refine ⟨⟨?_, slice_eq_get h14, ?_⟩, hl'⟩
  · intro i c hi hne hc
    by_cases h1 : i < 14
    · exact slice_all_get h0 i (by omega) (by omega) c hc
    · exact slice_all_get h15 i (by omega) (by omega) c hc
  · intro i c hi hc
    by_cases h1 : i = 21
    · subst h1
      rcases h21 with h21 | h21 <;> (have := slice_eq_get h21; rw [this] at hc; simp at hc; subst hc; decide)
    · by_cases h2 : i < 25
      · have := slice_all_get h22 i (by omega) (by omega) c hc
        intro hs; subst hs; simp [isDigit] at this
      · have : s[i]? = none := by simp; omega
        rw [this] at hc; simp at hc

theorem body_of_matchIv {s : List Char} (h : matchIv s = true) : Body s ∧ s.length = 25 := by
  simp only [matchIv, Bool.and_eq_true, beq_iff_eq] at h
  obtain ⟨⟨⟨⟨hl, h0⟩, h14⟩, h15⟩, h21⟩ := h
  have hl' : s.length = 25 := by simpa using hl
  refine ⟨⟨?_, slice_eq_get h14, ?_⟩, hl'⟩
  · intro i c hi hne hc
    by_cases h1 : i < 14
    · exact slice_all_get h0 i (by omega) (by omega) c hc
    · exact slice_all_get h15 i (by omega) (by omega) c hc
  · intro i c hi hc
    by_cases h2 : i < 25
    · have hg := slice_get s 21 4 (i - 21)
      rw [h21] at hg
      have e : 21 + (i - 21) = i := by omega
      rw [e, hc] at hg
      have : i - 21 = 0 ∨ i - 21 = 1 ∨ i - 21 = 2 ∨ i - 21 = 3 := by omega
      rcases this with h3 | h3 | h3 | h3 <;> rw [h3] at hg <;> simp at hg <;> subst hg <;> decide
    · have : s[i]? = none := by simp; omega
      rw [this] at hc; simp at hc

end Proofs.DateTime
