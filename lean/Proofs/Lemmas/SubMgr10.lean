/-
Helper lemmas for C18, part 10: the subscriptions a manager owns under operations of OTHER managers in any state.
-/
import Proofs.Lemmas.SubMgr9

namespace Proofs.SubMgr
open Pywbem.Model.SubMgr Pywbem.Proto

/-! ### what an operation of ANOTHER manager does to the subscriptions a manager owns
    (any state of the acting manager: crossing subscriptions, deleted dict entries, half-way failures) -/

/-- the subscriptions owned (ghost) by `i` are the same in `st` and `st'` -/
def SameOwnedSubs (i : Str) (st st' : Store) : Prop :=
  ∀ x : Sub, (x ∈ st'.subs ∧ x.owner = some i) ↔ (x ∈ st.subs ∧ x.owner = some i)

theorem SameOwnedSubs.refl (i : Str) (st : Store) : SameOwnedSubs i st st := fun _ => Iff.rfl
theorem SameOwnedSubs.trans {i : Str} {a b c : Store} (h1 : SameOwnedSubs i a b) (h2 : SameOwnedSubs i b c) :
    SameOwnedSubs i a c := fun x => (h2 x).trans (h1 x)
theorem SameOwnedSubs.of_eq {i : Str} {a b : Store} (h : b.subs = a.subs) : SameOwnedSubs i a b :=
  fun _ => by rw [h]

/-- the subscription list of manager `i` stays exact under any such change of the server -/
theorem agree_os_stable {i : Str} {st st' : Store} {o : Owned}
    (h : ∃ l, o.os = some l ∧ l.Nodup ∧ ∀ s, s ∈ l ↔ (s ∈ st.subs ∧ s.owner = some i))
    (hs : SameOwnedSubs i st st') :
    ∃ l, o.os = some l ∧ l.Nodup ∧ ∀ s, s ∈ l ↔ (s ∈ st'.subs ∧ s.owner = some i) := by
  obtain ⟨l, h1, h2, h3⟩ := h
  exact ⟨l, h1, h2, fun s => (h3 s).trans (hs s).symm⟩

/-! #### filter / destination operations do not touch subscriptions at all -/

theorem addFilter_subs (reg : Bool) (id : Str) (st : Store) (o : Owned) (owned : Bool) (fid name : Option Str) :
    (stepAddFilter reg id st o owned fid name).st.subs = st.subs := by
  unfold stepAddFilter
  by_cases h1 : argErr owned fid name = true
  · simp [h1]
  by_cases h2 : filterIdBad fid = true
  · simp [h1, h2]
  cases reg with
  | false => simp [h1, h2]
  | true =>
    by_cases h4 : st.filts.any (fun f => f.path.name == filterName id fid name) = true
    · simp [h1, h2, h4]
    simp only [h1, h2, h4, Bool.not_true, Bool.false_eq_true, if_false]
    cases hcr : createFilt st (filterName id fid name) with
    | error e => rfl
    | ok p =>
      obtain ⟨st', f⟩ := p
      obtain ⟨_, _, rfl⟩ := createFilt_ok hcr
      simp only []
      split
      · cases o.of <;> rfl
      · rfl

theorem addDest_subs (reg : Bool) (id : Str) (st : Store) (o : Owned) (a : DestArgs) :
    (stepAddDest reg id st o a).st.subs = st.subs := by
  unfold stepAddDest
  by_cases h1 : argErr a.owned a.destId a.name = true
  · simp [h1]
  by_cases h2 : destIdBad a.destId = true
  · simp [h1, h2]
  simp only [h1, h2, Bool.false_eq_true, if_false]
  cases hv : validatePT a.pt with
  | error e => rfl
  | ok ptv0 =>
    simp only []
    cases reg with
    | false => simp
    | true =>
      simp only [Bool.not_true, Bool.false_eq_true, if_false]
      cases hu : a.url with
      | none => rfl
      | some url =>
        simp only []
        by_cases h4 : st.dests.any (fun d => d.path.name == destName id a) = true
        · simp [h4]
        simp only [h4, Bool.false_eq_true, if_false]
        cases a.owned with
        | true =>
          simp only [if_true]
          cases o.od with
          | none => rfl
          | some l =>
            simp only []
            cases findDup url (effPT a ptv0) l with
            | error e => rfl
            | ok r =>
              cases r with
              | some d => rfl
              | none =>
                simp only []
                cases hcr : createDest st (destName id a) url (effPT a ptv0) with
                | error e => rfl
                | ok p =>
                  obtain ⟨st', d⟩ := p
                  obtain ⟨_, _, rfl⟩ := createDest_ok hcr
                  rfl
        | false =>
          simp only [Bool.false_eq_true, if_false]
          cases hcr : createDest st (destName id a) url (effPT a ptv0) with
          | error e => rfl
          | ok p =>
            obtain ⟨st', d⟩ := p
            obtain ⟨_, _, rfl⟩ := createDest_ok hcr
            rfl

theorem removeFilter_subs (reg : Bool) (st : Store) (o : Owned) (p : Path) :
    (stepRemoveFilter reg st o p).st.subs = st.subs := by
  unfold stepRemoveFilter
  cases reg with
  | false => simp
  | true =>
    simp only [Bool.not_true, Bool.false_eq_true, if_false]
    by_cases h1 : st.filtReferenced p = true
    · simp [h1]
    simp only [h1, Bool.false_eq_true, if_false]
    cases hd : delFilt st p with
    | error e => rfl
    | ok st' =>
      obtain ⟨_, _, rfl⟩ := delFilt_ok hd
      cases o.of <;> rfl

theorem removeDests_subs (reg : Bool) (st : Store) (o : Owned) (sel : PathSel) :
    (stepRemoveDests reg st o sel).st.subs = st.subs :=
  (removeDests_keeps_referenced reg st o sel).1


/-! #### add_subscriptions by another manager -/

theorem sameOwned_snoc {i : Str} (st : Store) (s : Sub) (h : s.owner ≠ some i) :
    SameOwnedSubs i st { st with subs := st.subs ++ [s] } := by
  intro x
  simp only [List.mem_append, List.mem_singleton]
  constructor
  · rintro ⟨hx | rfl, ho⟩
    · exact ⟨hx, ho⟩
    · exact absurd ho h
  · rintro ⟨hx, ho⟩; exact ⟨Or.inl hx, ho⟩

theorem sameOwned_addSub1 {i a : Str} (hne : a ≠ i) (reg : Bool) (st : Store) (o : Owned) (f d : Path)
    (owned : Bool) : SameOwnedSubs i st (stepAddSub1 reg a st o f d owned).st := by
  unfold stepAddSub1
  cases o.od with
  | none => exact SameOwnedSubs.refl i st
  | some od =>
    cases o.of with
    | none => exact SameOwnedSubs.refl i st
    | some ofl =>
      simp only []
      split
      · exact SameOwnedSubs.refl i st
      split
      · exact SameOwnedSubs.refl i st
      split
      · exact SameOwnedSubs.refl i st
      split
      · cases o.os with
        | none => exact SameOwnedSubs.refl i st
        | some os =>
          simp only []
          cases os.find? (fun s => s.filter == f && s.handler == d) with
          | some s => exact SameOwnedSubs.refl i st
          | none =>
            simp only []
            cases hcr : createSub st f d (some a) with
            | error e => exact SameOwnedSubs.refl i st
            | ok p =>
              obtain ⟨st', s⟩ := p
              obtain ⟨rfl, _, _, _, rfl⟩ := createSub_ok hcr
              exact sameOwned_snoc st _ (by simp; exact hne)
      · cases hcr : createSub st f d none with
        | error e => exact SameOwnedSubs.refl i st
        | ok p =>
          obtain ⟨st', s⟩ := p
          obtain ⟨rfl, _, _, _, rfl⟩ := createSub_ok hcr
          exact sameOwned_snoc st _ (by simp)

theorem sameOwned_addSubList {i a : Str} (hne : a ≠ i) (reg : Bool) (f : Path) (owned : Bool) :
    ∀ (ds : List Path) (st : Store) (o : Owned) (acc : List Sub),
      SameOwnedSubs i st (stepAddSubList reg a f owned st o ds acc).st := by
  intro ds
  induction ds with
  | nil => intro st o acc; exact SameOwnedSubs.refl i st
  | cons d rest ih =>
    intro st o acc
    have h1 := sameOwned_addSub1 (i := i) hne reg st o f d owned
    unfold stepAddSubList
    generalize stepAddSub1 reg a st o f d owned = r1 at h1
    obtain ⟨st1, o1, out1⟩ := r1
    cases out1 with
    | subs l => simp only []; exact h1.trans (ih st1 o1 (acc ++ l))
    | _ => exact h1

theorem sameOwned_addSubs {i a : Str} (hne : a ≠ i) (reg : Bool) (st : Store) (o : Owned) (f : Path)
    (sel : DestSel) (owned : Bool) : SameOwnedSubs i st (stepAddSubs reg a st o f sel owned).st := by
  unfold stepAddSubs
  cases o.od with
  | none => exact SameOwnedSubs.refl i st
  | some od =>
    simp only []
    cases sel with
    | all => exact sameOwned_addSubList hne reg f owned _ st o []
    | many ps => exact sameOwned_addSubList hne reg f owned ps st o []
    | one p => exact sameOwned_addSub1 hne reg st o f p owned

/-! #### remove_subscriptions / remove_server by another manager -/

/-- no subscription owned by `i` has this key -/
def NotKeyOfOwned (i : Str) (st : Store) (f h : Path) : Prop :=
  ∀ x ∈ st.subs, x.owner = some i → ¬ (x.filter = f ∧ x.handler = h)

theorem NotKeyOfOwned.mono {i : Str} {st st' : Store} {f h : Path} (hk : NotKeyOfOwned i st f h)
    (hs : SameOwnedSubs i st st') : NotKeyOfOwned i st' f h :=
  fun x hx ho => hk x ((hs x).mp ⟨hx, ho⟩).1 ho

theorem sameOwned_delSub {i : Str} {st st' : Store} {f h : Path} (hd : delSub st f h = .ok st')
    (hk : NotKeyOfOwned i st f h) : SameOwnedSubs i st st' := by
  obtain ⟨_, rfl⟩ := delSub_ok hd
  intro x
  simp only [List.mem_filter, Bool.not_eq_true', Bool.and_eq_false_iff, beq_eq_false_iff_ne, ne_eq]
  constructor
  · rintro ⟨⟨hx, _⟩, ho⟩; exact ⟨hx, ho⟩
  · rintro ⟨hx, ho⟩
    refine ⟨⟨hx, ?_⟩, ho⟩
    by_cases e : x.filter = f
    · right; exact fun e' => hk x hx ho ⟨e, e'⟩
    · left; exact e

theorem sameOwned_removeSub1 {i : Str} (reg : Bool) (st : Store) (o : Owned) (f h : Path)
    (hk : NotKeyOfOwned i st f h) : SameOwnedSubs i st (stepRemoveSub1 reg st o f h).st := by
  unfold stepRemoveSub1
  cases reg with
  | false => exact SameOwnedSubs.refl i st
  | true =>
    simp only [Bool.not_true, Bool.false_eq_true, if_false]
    cases hd : delSub st f h with
    | error e => exact SameOwnedSubs.refl i st
    | ok st' => cases o.os <;> exact sameOwned_delSub hd hk

theorem sameOwned_removeSubList {i : Str} (reg : Bool) :
    ∀ (ps : List (Path × Path)) (st : Store) (o : Owned), (∀ p ∈ ps, NotKeyOfOwned i st p.1 p.2) →
      SameOwnedSubs i st (stepRemoveSubList reg st o ps).st := by
  intro ps
  induction ps with
  | nil => intro st o _; exact SameOwnedSubs.refl i st
  | cons p rest ih =>
    intro st o hk
    have h1 := sameOwned_removeSub1 (i := i) reg st o p.1 p.2 (hk p (by simp))
    unfold stepRemoveSubList
    generalize stepRemoveSub1 reg st o p.1 p.2 = r1 at h1
    obtain ⟨st1, o1, out1⟩ := r1
    cases out1 with
    | done =>
      simp only []
      exact h1.trans (ih st1 o1 (fun q hq => (hk q (by simp [hq])).mono h1))
    | _ => exact h1

theorem sameOwned_removeSubs {i : Str} (reg : Bool) (st : Store) (o : Owned) (sel : SubSel)
    (hk : ∀ f h, (sel = .one f h ∨ ∃ ps, sel = .many ps ∧ (f, h) ∈ ps) → NotKeyOfOwned i st f h) :
    SameOwnedSubs i st (stepRemoveSubs reg st o sel).st := by
  unfold stepRemoveSubs
  cases reg with
  | false => exact SameOwnedSubs.refl i st
  | true =>
    simp only [Bool.not_true, Bool.false_eq_true, if_false]
    cases sel with
    | one f h => exact sameOwned_removeSub1 true st o f h (hk f h (Or.inl rfl))
    | many ps =>
      exact sameOwned_removeSubList true ps st o (fun p hp => hk p.1 p.2 (Or.inr ⟨ps, rfl, by simpa using hp⟩))

theorem delLoop_subs_sameOwned {i : Str} (l : List Sub) (st : Store)
    (hk : ∀ y ∈ l, NotKeyOfOwned i st y.filter y.handler) :
    SameOwnedSubs i st (delLoop (fun st (s : Sub) => delSub st s.filter s.handler) st l).1 := by
  induction l generalizing st with
  | nil => exact SameOwnedSubs.refl i st
  | cons x xs ih =>
    cases hd : delSub st x.filter x.handler with
    | error e => simp only [delLoop, hd]; exact SameOwnedSubs.refl i st
    | ok st1 =>
      have h1 := sameOwned_delSub hd (hk x (by simp))
      simp only [delLoop, hd]
      exact h1.trans (ih st1 (fun y hy => (hk y (by simp [hy])).mono h1))

theorem rmFilts_subs (st : Store) (o : Owned) : (rmFilts st o).1.subs = st.subs := by
  unfold rmFilts
  cases o.of with
  | none => rfl
  | some l =>
    simp only [delBackwards]
    obtain ⟨done, rest, e, _, _, hloop⟩ := delLoop_filts_split l.reverse st
    rw [hloop]
    cases e <;> rfl

theorem rmDests_subs (st : Store) (o : Owned) : (rmDests st o).1.subs = st.subs := by
  unfold rmDests
  cases o.od with
  | none => rfl
  | some l =>
    simp only [delBackwards]
    obtain ⟨done, rest, e, _, _, hloop⟩ := delLoop_dests_split l.reverse st
    rw [hloop]
    cases e <;> rfl

/-- remove_server of ANOTHER manager, any outcome: when its subscription list holds no key of a
    subscription owned by `i`, the subscriptions owned by `i` are untouched -/
theorem sameOwned_removeServer {i : Str} (reg : Bool) (st : Store) (o : Owned)
    (hk : ∀ l, o.os = some l → ∀ y ∈ l, NotKeyOfOwned i st y.filter y.handler) :
    SameOwnedSubs i st (stepRemoveServer reg st o).1.st := by
  unfold stepRemoveServer
  cases reg with
  | false => exact SameOwnedSubs.refl i st
  | true =>
    simp only [Bool.not_true, Bool.false_eq_true, if_false]
    have h1 : SameOwnedSubs i st (rmSubs st o).1 := by
      unfold rmSubs
      cases hos : o.os with
      | none => exact SameOwnedSubs.refl i st
      | some l =>
        simp only [delBackwards]
        have := delLoop_subs_sameOwned (i := i) l.reverse st (fun y hy => hk l hos y (by simpa using hy))
        generalize delLoop (fun st (s : Sub) => delSub st s.filter s.handler) st l.reverse = r at this
        obtain ⟨st', rem, e⟩ := r
        cases e <;> exact this
    generalize rmSubs st o = r1 at h1
    obtain ⟨st1, o1, e1⟩ := r1
    cases e1 with
    | some e => exact h1
    | none =>
      simp only []
      have h2 := rmFilts_subs st1 o1
      generalize rmFilts st1 o1 = r2 at h2
      obtain ⟨st2, o2, e2⟩ := r2
      cases e2 with
      | some e => exact h1.trans (SameOwnedSubs.of_eq h2)
      | none =>
        simp only []
        have h3 := rmDests_subs st2 o2
        generalize rmDests st2 o2 = r3 at h3
        obtain ⟨st3, o3, e3⟩ := r3
        cases e3 <;> exact (h1.trans (SameOwnedSubs.of_eq h2)).trans (SameOwnedSubs.of_eq h3)

end Proofs.SubMgr
