/-
Helper lemmas for C08 stages 2/3: a generated text seen as a list of pieces (separator runs, words, numbers,
values, comma-separated word lists) lexes to the concatenation of the tokens of the pieces, provided every
piece that could merge with its successor is followed by a separator.
-/
import Proofs.Lemmas.MofTok
import Proofs.Lemmas.MofValue

set_option linter.unusedSimpArgs false

namespace Pywbem.Lemmas.MofDoc
open Pywbem.Proto Pywbem.Model Pywbem.Model.MofStr Pywbem.Model.MofLex Pywbem.Model.MofVal
open Pywbem.Lemmas.MofStr Pywbem.Lemmas.MofNum Pywbem.Lemmas.MofTok Pywbem.Lemmas.MofValue

abbrev Str := List Nat

/-- `text`, in front of any closed continuation, contributes exactly `toks` -/
def LexesTo (text : Str) (toks : List Tok) : Prop :=
  ∀ t, Closed t → lexToks (text ++ t) = (lexToks t).map (toks ++ ·)

theorem LexesTo.nil : LexesTo [] [] := by intro t _; simp

theorem LexesTo.append {a b : Str} {ta tb : List Tok} (ha : LexesTo a ta) (hb : LexesTo b tb)
    (hc : ∀ t, Closed t → Closed (b ++ t)) : LexesTo (a ++ b) (ta ++ tb) := by
  intro t ht
  rw [List.append_assoc, ha _ (hc t ht), hb t ht]
  simp [Option.map_map, Function.comp_def]

/-- white space or one of the PLY literals -/
def isSepPlain (c : Nat) : Bool := isWs c || isPunct c

def punctToks : Str → List Tok
  | [] => []
  | c :: cs => if isPunct c then Tok.p c :: punctToks cs else punctToks cs

theorem ws_not_punct (c : Nat) (h : isWs c = true) : isPunct c = false := by
  revert h; unfold isWs isPunct
  simp only [Bool.or_eq_true, beq_iff_eq, Bool.or_eq_false_iff, beq_eq_false_iff_ne]; intro h; omega

/-- a run of white space and literals lexes to its literals, whatever follows -/
theorem lex_seps (r : Str) (h : r.all isSepPlain = true) (t : Str) :
    lexToks (r ++ t) = (lexToks t).map (punctToks r ++ ·) := by
  induction r with
  | nil => simp [punctToks]
  | cons c cs ih =>
    simp only [List.all_cons, Bool.and_eq_true] at h
    have hc := h.1
    unfold isSepPlain at hc
    by_cases hp : isPunct c = true
    · rw [List.cons_append, lexToks_punct c hp, ih h.2]
      simp [punctToks, hp, Option.map_map, Function.comp_def]
    · have hw : isWs c = true := by simpa [hp] using hc
      have : c :: cs ++ t = [c] ++ (cs ++ t) := rfl
      rw [this, lexToks_ws [c] (by simp [hw]), ih h.2]
      simp [punctToks, hp]

theorem lexesTo_seps (r : Str) (h : r.all isSepPlain = true) : LexesTo r (punctToks r) :=
  fun t _ => lex_seps r h t

theorem closed_seps (r : Str) (h : r.all isSepPlain = true) (hne : r ≠ []) (t : Str) : Closed (r ++ t) := by
  cases r with
  | nil => exact absurd rfl hne
  | cons c cs =>
    simp only [List.all_cons, Bool.and_eq_true] at h
    have := h.1
    unfold isSepPlain at this
    show isSepChar c = true
    unfold isSepChar
    simp only [Bool.or_eq_true] at this ⊢
    rcases this with h1 | h1
    · exact .inl (.inl (.inl h1))
    · exact .inl (.inl (.inr h1))

/-- an identifier-shaped text -/
def IsWord (w : Str) : Prop := ∃ c cs, w = c :: cs ∧ isIdStart c = true ∧ cs.all isIdChar = true

theorem lexesTo_word (w : Str) (h : IsWord w) : LexesTo w [Tok.id w] := by
  obtain ⟨c, cs, e, hc, hcs⟩ := h
  subst e
  intro t ht
  exact lexToks_id c cs t hc hcs ht

theorem natStr_intStr (n : Nat) : natStr n = intStr (n : Int) := by
  unfold intStr
  have : ¬ ((n : Int) < 0) := by omega
  simp [this]

theorem lexesTo_nat (n : Nat) : LexesTo (natStr n) [Tok.num (.int (n : Int))] := by
  intro t ht
  rw [natStr_intStr]
  exact lexToks_int _ t ht

/-! ### pieces -/

inductive Piece where
  | sep (r : Str)
  | word (w : Str)
  | nat (n : Nat)
  | val (text : Str) (toks : List Tok)

def Piece.text : Piece → Str
  | .sep r => r
  | .word w => w
  | .nat n => natStr n
  | .val t _ => t

def Piece.toks : Piece → List Tok
  | .sep r => punctToks r
  | .word w => [Tok.id w]
  | .nat n => [Tok.num (.int (n : Int))]
  | .val _ ts => ts

def Piece.Ok : Piece → Prop
  | .sep r => r.all isSepPlain = true
  | .word w => IsWord w
  | .nat _ => True
  | .val t ts => LexesTo t ts

/-- a non-empty separator run -/
def Piece.isGap : Piece → Prop
  | .sep r => r ≠ []
  | _ => False

def Piece.isSep : Piece → Prop
  | .sep _ => True
  | _ => False

/-- every piece that is not a separator run is the last one or is followed by a non-empty separator run -/
def WF : List Piece → Prop
  | [] => True
  | [_] => True
  | p :: q :: r => (p.isSep ∨ q.isGap) ∧ WF (q :: r)

def docText (ps : List Piece) : Str := (ps.map Piece.text).flatten
def docToks (ps : List Piece) : List Tok := (ps.map Piece.toks).flatten

theorem piece_lex (p : Piece) (h : p.Ok) : LexesTo p.text p.toks := by
  cases p with
  | sep r => exact lexesTo_seps r h
  | word w => exact lexesTo_word w h
  | nat n => exact lexesTo_nat n
  | val t ts => exact h

theorem lex_doc : ∀ (ps : List Piece), (∀ p ∈ ps, p.Ok) → WF ps → LexesTo (docText ps) (docToks ps) := by
  intro ps
  induction ps with
  | nil => intro _ _; exact LexesTo.nil
  | cons p rest ih =>
    intro hok hwf
    have hp := hok p (by simp)
    have hrest : ∀ q ∈ rest, q.Ok := fun q hq => hok q (by simp [hq])
    have hwfr : WF rest := by
      cases rest with
      | nil => trivial
      | cons q r => exact hwf.2
    have ihr := ih hrest hwfr
    intro t ht
    show lexToks ((p.text ++ docText rest) ++ t) = _
    simp only [docText, docToks, List.map_cons, List.flatten_cons] at ihr ⊢
    rw [List.append_assoc]
    cases p with
    | sep r =>
      rw [Piece.text, lex_seps r hp, ihr t ht]
      simp [Piece.toks, Option.map_map, Function.comp_def]
    | word _ | nat _ | val _ _ =>
      all_goals
        have hcl : Closed ((rest.map Piece.text).flatten ++ t) := by
          cases rest with
          | nil => simpa using ht
          | cons q r =>
            have hq := hwf.1
            rcases hq with hq | hq
            · exact absurd hq (by simp [Piece.isSep])
            · cases q with
              | sep rr =>
                have hqok : rr.all isSepPlain = true := hrest (.sep rr) (by simp)
                simp only [List.map_cons, List.flatten_cons, Piece.text, List.append_assoc]
                exact closed_seps rr hqok hq _
              | word _ => exact absurd hq (by simp [Piece.isGap])
              | nat _ => exact absurd hq (by simp [Piece.isGap])
              | val _ _ => exact absurd hq (by simp [Piece.isGap])
        rw [piece_lex _ hp _ hcl, ihr t ht]
        simp [Option.map_map, Function.comp_def]

/-- the whole text (nothing after it) -/
theorem lex_doc_all (ps : List Piece) (hok : ∀ p ∈ ps, p.Ok) (hwf : WF ps) :
    lexToks (docText ps) = some (docToks ps) := by
  have := lex_doc ps hok hwf [] trivial
  simpa [lexToks, lexToksF] using this

end Pywbem.Lemmas.MofDoc
