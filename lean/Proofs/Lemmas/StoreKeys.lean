/-
C10 — ModifyInstance cannot change the value of a key property, with or without PropertyList: the checks of the
dispatcher (`prop_inst.value != instance[pn]` for supplied key properties; a key property named in PropertyList but
not supplied would be reset to its class default) force every property that `CIMInstance.update` writes under a key
name to carry the stored value.

Second part: the embedded-instance class check of `_validate_property` (BaseProvider.is_subclass): a property holding an
embedded instance passes only if its class is in the repository and walks up to the class of the EmbeddedInstance
qualifier (or the property is declared EmbeddedObject).
-/
import Proofs.Lemmas.StoreLaws

set_option linter.unusedSimpArgs false
set_option linter.unusedVariables false

namespace Proofs.Store
open Pywbem.Proto Pywbem.Model.Store Pywbem.Model.StoreSpec Pywbem.Generated.Store

/-- `q` under name `n` carries a value Python-equal to `v` -/
def HoldsAt (ps : List PropV) (n : Name) (v : Val) : Prop := ∃ q, findProp ps n = some q ∧ valNe q.val v = false

/-- one step of `CIMInstance.update` -/
theorem holdsAt_update_step {acc : List PropV} {n : Name} {v : Val} (p : PropV) (hacc : HoldsAt acc n v)
    (hp : nameEq p.name n = true → valNe p.val v = false) :
    HoldsAt (if (findProp acc p.name).isSome then acc.map (fun q => if nameEq q.name p.name then p else q)
             else acc ++ [p]) n v := by
  obtain ⟨q, hq, hv⟩ := hacc
  have hqn := (findProp_some hq).2
  by_cases hpn : nameEq p.name n = true
  · have hl := nameEq_iff.mp hpn
    have hs : (findProp acc p.name).isSome = true := by rw [findProp_congr acc hl, hq]; rfl
    rw [if_pos hs]
    refine ⟨p, ?_, hp hpn⟩
    unfold findProp at hq ⊢
    rw [List.find?_map]
    have hfun : ((fun x : PropV => nameEq x.name n) ∘ fun q => if nameEq q.name p.name then p else q)
        = fun x : PropV => nameEq x.name n := by
      funext x
      simp only [Function.comp]
      by_cases hx : nameEq x.name p.name = true
      · rw [if_pos hx, hpn]
        exact (nameEq_iff.mpr ((nameEq_iff.mp hx).trans hl)).symm
      · rw [if_neg hx]
    rw [hfun, hq]
    simp only [Option.map_some]
    rw [if_pos (nameEq_iff.mpr (hqn.trans hl.symm))]
  · have hne : lower p.name ≠ lower n := fun h => hpn (nameEq_iff.mpr h)
    by_cases hs : (findProp acc p.name).isSome = true
    · rw [if_pos hs]
      refine ⟨q, ?_, hv⟩
      unfold findProp at hq ⊢
      rw [List.find?_map]
      have hfun : ((fun x : PropV => nameEq x.name n) ∘ fun q => if nameEq q.name p.name then p else q)
          = fun x : PropV => nameEq x.name n := by
        funext x
        simp only [Function.comp]
        by_cases hx : nameEq x.name p.name = true
        · rw [if_pos hx]
          have h1 : nameEq p.name n = false := by simpa using hpn
          have h2 : nameEq x.name n = false := by
            cases h : nameEq x.name n with
            | false => rfl
            | true => exact absurd ((nameEq_iff.mp hx).symm.trans (nameEq_iff.mp h)) hne
          rw [h1, h2]
        · rw [if_neg hx]
      rw [hfun, hq]
      simp only [Option.map_some]
      have : ¬ nameEq q.name p.name = true := fun h => hne ((nameEq_iff.mp h).symm.trans hqn)
      rw [if_neg this]
    · rw [if_neg hs]
      refine ⟨q, ?_, hv⟩
      unfold findProp at hq ⊢
      rw [List.find?_append, hq]
      rfl

/-- `CIMInstance.update`: if every written property that hits the name carries the value, the name keeps it -/
theorem holdsAt_updateProps {n : Name} {v : Val} : ∀ (new old : List PropV), HoldsAt old n v →
    (∀ p ∈ new, nameEq p.name n = true → valNe p.val v = false) → HoldsAt (updateProps old new) n v := by
  intro new
  induction new with
  | nil => intro old h _; simpa [updateProps] using h
  | cons p t ih =>
    intro old h hall
    have := ih _ (holdsAt_update_step p h (hall p (List.mem_cons_self ..)))
      (fun x hx => hall x (List.mem_cons_of_mem _ hx))
    simpa [updateProps] using this

/-- what `plDefaults` adds: class defaults of listed names that are not supplied -/
theorem mem_plDefaults_src (c : Cls) (ps : List PropV) : ∀ (l : List Name) (acc : List PropV), (∀ x ∈ ps, x ∈ acc) →
    ∀ p ∈ l.foldl (fun acc pn =>
        if (findProp acc pn).isSome then acc
        else match findDecl c pn with
          | some d => acc ++ [{ name := d.name, ty := d.ty, isArr := d.isArr, val := d.dflt }]
          | none => acc) acc,
      p ∈ acc ∨ ∃ pn ∈ l, ∃ d, findDecl c pn = some d ∧ findProp ps pn = none ∧ p.name = d.name ∧ p.val = d.dflt := by
  intro l
  induction l with
  | nil => intro acc _ p hp; exact Or.inl (by simpa using hp)
  | cons pn t ih =>
    intro acc hsub p hp
    simp only [List.foldl_cons] at hp
    by_cases hs : (findProp acc pn).isSome = true
    · rw [if_pos hs] at hp
      rcases ih acc hsub p hp with h | ⟨x, hx, rest⟩
      · exact Or.inl h
      · exact Or.inr ⟨x, List.mem_cons_of_mem _ hx, rest⟩
    · rw [if_neg hs] at hp
      have hnone : findProp ps pn = none := by
        have ha : findProp acc pn = none := by
          cases h : findProp acc pn with
          | none => rfl
          | some _ => rw [h] at hs; exact absurd rfl hs
        unfold findProp at ha ⊢
        apply List.find?_eq_none.mpr
        intro x hx
        exact List.find?_eq_none.mp ha x (hsub x hx)
      cases hd : findDecl c pn with
      | none =>
        rw [hd] at hp
        rcases ih acc hsub p hp with h | ⟨x, hx, rest⟩
        · exact Or.inl h
        · exact Or.inr ⟨x, List.mem_cons_of_mem _ hx, rest⟩
      | some d =>
        rw [hd] at hp
        simp only [] at hp
        rcases ih _ (fun x hx => List.mem_append_left _ (hsub x hx)) p hp with h | ⟨x, hx, rest⟩
        · rcases List.mem_append.mp h with h | h
          · exact Or.inl h
          · simp at h
            subst h
            exact Or.inr ⟨pn, List.mem_cons_self .., d, hd, hnone, rfl, rfl⟩
        · exact Or.inr ⟨x, List.mem_cons_of_mem _ hx, rest⟩

/-- **the properties ModifyInstance writes under a key name carry the stored value** -/
theorem written_key_value {cs : List Cls} {c : Cls} {stored ps : List PropV} {pl : Option (List Name)}
    (hok : ps.all (sPropOk cs c stored) = true) (hpl : (pl.getD []).all (sPlKeyOk c stored ps) = true)
    {n : Name} {d : PropDecl} {sp : PropV} (hd : findDecl c n = some d) (hk : d.isKey = true)
    (hsp : findProp stored n = some sp) :
    ∀ p ∈ adjustNames c (reduceByPl c ps pl), nameEq p.name n = true → valNe p.val sp.val = false := by
  -- supplied properties
  have hsup : ∀ p ∈ ps, nameEq p.name n = true → valNe p.val sp.val = false := by
    intro p hp hn
    have hl := nameEq_iff.mp hn
    have h := List.all_eq_true.mp hok p hp
    unfold sPropOk at h
    rw [findDecl_congr c hl, hd, findProp_congr stored hl, hsp] at h
    simp [hk] at h; first | exact h.2 | exact h
  -- defaults of listed, unsupplied names
  have hdef : ∀ pn ∈ pl.getD [], ∀ d', findDecl c pn = some d' → findProp ps pn = none → nameEq d'.name n = true →
      valNe d'.dflt sp.val = false := by
    intro pn hpn d' hd' hnone hn
    have hl : lower pn = lower n := (findDecl_some hd').2.symm.trans (nameEq_iff.mp hn)
    have hdd : d' = d := by
      rw [findDecl_congr c hl, hd] at hd'; exact (Option.some.inj hd').symm
    have h := List.all_eq_true.mp hpl pn hpn
    unfold sPlKeyOk at h
    rw [hnone, findDecl_congr c hl, hd, findProp_congr stored hl, hsp] at h
    subst hdd
    simp [hk] at h; first | exact h.2 | exact h
  intro p' hp' hn'
  unfold adjustNames at hp'
  obtain ⟨p, hp, rfl⟩ := List.mem_map.mp hp'
  -- adjustName keeps the value and the name up to case
  have hval : (adjustName c p).val = p.val := by
    unfold adjustName; cases findDecl c p.name <;> rfl
  have hname : lower (adjustName c p).name = lower p.name := by
    unfold adjustName
    cases h : findDecl c p.name with
    | none => rfl
    | some d0 => exact (findDecl_some h).2
  rw [hval]
  have hn : nameEq p.name n = true := nameEq_iff.mpr (hname.symm.trans (nameEq_iff.mp hn'))
  cases pl with
  | none => exact hsup p (by simpa [reduceByPl] using hp) hn
  | some l =>
    simp only [reduceByPl] at hp
    have hp2 := (List.mem_filter.mp hp).1
    unfold plDefaults at hp2
    rcases mem_plDefaults_src c ps l ps (fun x hx => hx) p hp2 with h | ⟨pn, hpn, d', hd', hnone, hnm, hvl⟩
    · exact hsup p h hn
    · rw [hvl]
      exact hdef pn (by simpa using hpn) d' hd' hnone (by rw [← hnm]; exact hn)

/-- a successful modification in the reference map, with the checks it passed -/
theorem specModify_ok' {s s' : SRepo} {path : Path} {inst : Inst} {pl : Option (List Name)}
    (h : specModify s path inst pl = (s', .unit)) :
    ∃ e c old, sFindNs s (path.ns.getD s.dflt) = some e ∧ findCls e.classes inst.cls = some c ∧
      sLookup e.map (keyIn path (path.ns.getD s.dflt)) = some old ∧
      inst.props.all (sPropOk e.classes c old.props) = true ∧
      (pl.getD []).all (sPlKeyOk c old.props inst.props) = true := by
  unfold specModify at h
  simp only [] at h
  split at h
  · simp [errParam] at h
  · split at h
    · simp [errNs] at h
    · rename_i e he
      split at h
      · simp [errClass] at h
      · rename_i c hc
        split at h
        · simp [errNotFound] at h
        · rename_i old ho
          split at h
          · simp [errParam] at h
          · split at h
            · simp [errParam] at h
            · rename_i hok
              split at h
              · simp [errParam] at h
              · rename_i hplk
                exact ⟨e, c, old, he, hc, ho, by simpa using hok, by simpa using hplk⟩

/-- `spec_modify_then_get` with the class and the stored instance exposed -/
theorem spec_modify_then_get' {s s' : SRepo} {path : Path} {inst : Inst} {pl : Option (List Name)}
    (h : specModify s path inst pl = (s', .unit)) (pl' : Option (List Name)) (o : RetOpts) :
    ∃ e c old, sFindNs s (path.ns.getD s.dflt) = some e ∧ findCls e.classes inst.cls = some c ∧
      sLookup e.map (keyIn path (path.ns.getD s.dflt)) = some old ∧
      (specGet s path none o).2 = .inst ⟨old.cls, keyIn path (path.ns.getD s.dflt),
        removeClassOrigin (removeQualifiers old.props), false⟩ ∧
      (specGet s' path pl' o).2 = .inst ⟨old.cls, keyIn path (path.ns.getD s.dflt),
        removeClassOrigin (removeQualifiers (filterProps pl'
          (updateProps old.props (adjustNames c (reduceByPl c inst.props pl))))), false⟩ := by
  obtain ⟨e, c, old, he, hc, hne, ho, rfl⟩ := specModify_ok h
  refine ⟨e, c, old, he, hc, ho, ?_, ?_⟩
  · rw [specGet_snd]
    have hcp : findCls e.classes path.cls = some c := by
      rw [← findCls_congr e.classes (nameEq_iff.mp hne)]; exact hc
    simp [sGetOut, he, hcp, ho, retrieveSimple, filterProps]
  · rw [specGet_snd, sReplaceAll_eq, sFoldNs_dflt]
    rw [sFindNs_sFoldNs _ (fun a b hab => by funext m; rw [keyIn_congr path hab]) _ (namesDistinct_targets' _ _ _), he]
    have hen := (sFindNs_some he).2
    have hany' : (targets c.isAssoc (updateProps old.props (adjustNames c (reduceByPl c inst.props pl)))
        (path.ns.getD s.dflt)).any (fun t => lower t == e.name) = true :=
      List.any_eq_true.mpr ⟨_, mem_targets_self _ _ _, by simp [hen]⟩
    have hcp : findCls e.classes path.cls = some c := by
      rw [← findCls_congr e.classes (nameEq_iff.mp hne)]; exact hc
    have hkey : keyIn path e.name = keyIn path (path.ns.getD s.dflt) := keyIn_congr path (by rw [hen, lower_idem])
    simp only [Option.map_some, hany', ↓reduceIte, sGetOut, hcp, Option.isNone_some, Bool.false_eq_true, hkey]
    rw [sLookup_map_replace ho]
    simp [retrieveSimple]

/-- **ModifyInstance keeps the key property values**: what GetInstance answers after a successful ModifyInstance has,
    under every key property name of the class, a value Python-equal to the one it had before -/
theorem modify_keeps_keys_full {r r' : Repo} {path : Path} {inst : Inst} {pl : Option (List Name)}
    (ht : Tame r (.modify path inst pl)) (hinv : Inv r) (h : stepModify r path inst pl = (r', .unit)) (o : RetOpts) :
    ∃ e c oldCls oldProps newProps,
      findNs r (effNs r path.ns) = some e ∧ findCls e.classes inst.cls = some c ∧
      normOut (stepGet r path none o).2 = .inst ⟨oldCls, keyIn path (path.ns.getD r.dflt),
        removeClassOrigin (removeQualifiers oldProps), false⟩ ∧
      normOut (stepGet r' path none o).2 = .inst ⟨oldCls, keyIn path (path.ns.getD r.dflt),
        removeClassOrigin (removeQualifiers newProps), false⟩ ∧
      ∀ n d sp, findDecl c n = some d → d.isKey = true → findProp oldProps n = some sp →
        ∃ q, findProp newProps n = some q ∧ valNe q.val sp.val = false := by
  obtain ⟨hsp, _⟩ := spec_of_modify ht hinv h
  obtain ⟨es, c, old, he, hc, ho, h1, h2⟩ := spec_modify_then_get' hsp none o
  obtain ⟨es', c', old', he', hc', ho', hok, hplk⟩ := specModify_ok' hsp
  rw [he] at he'; cases he'
  rw [hc] at hc'; cases hc'
  rw [ho] at ho'; cases ho'
  have hfind : sFindNs (abs r) (path.ns.getD r.dflt) = some es := he
  rw [sFindNs_abs] at hfind
  cases hf : findNs r (path.ns.getD r.dflt) with
  | none => rw [hf] at hfind; cases hfind
  | some e =>
    rw [hf] at hfind
    simp only [Option.map_some, Option.some.injEq] at hfind
    subst hfind
    refine ⟨e, c, old.cls, old.props, updateProps old.props (adjustNames c (reduceByPl c inst.props pl)),
      hf, hc, ?_, ?_, ?_⟩
    · rw [(sim_get r path none o).1]; exact h1
    · rw [(sim_get r' path none o).1]
      have h2' := h2
      simp only [filterProps] at h2'
      exact h2'
    · intro n d sp hd hk hsp'
      exact holdsAt_updateProps _ _ ⟨sp, hsp', by simp [valNe]⟩ (written_key_value hok hplk hd hk hsp')

/-! ### the embedded-instance class check of `_validate_property` -/

/-- what `_validate_property` guarantees for a property holding an embedded instance of class `ecls` -/
def EmbChecked (cs : List Cls) (c : Cls) (q : PropV) (ecls : Name) : Prop :=
  ∃ d, findDecl c q.name = some d ∧ d.ty = q.ty ∧ d.isArr = q.isArr ∧
    (match d.embInst with
     | some k => (findCls cs ecls).isSome = true ∧ descends cs (cs.length + 1) ecls k = true
     | none => d.embObj = true)

/-- `is_subclass` answering True: the class exists and walks up to `sup` -/
theorem isSubclass_true (cs : List Cls) : ∀ (f : Nat) (k sup : Name), isSubclass cs f k sup = some true →
    (findCls cs k).isSome = true ∧ descends cs f k sup = true := by
  intro f
  induction f with
  | zero => intro k sup h; simp [isSubclass] at h
  | succ n ih =>
    intro k sup h
    unfold isSubclass at h
    cases hk : findCls cs k with
    | none => simp [hk] at h
    | some kc =>
      simp only [hk] at h
      refine ⟨rfl, ?_⟩
      by_cases hn : nameEq k sup = true
      · simp [descends, hn]
      · simp only [hn, Bool.false_eq_true, ↓reduceIte] at h
        cases hs : kc.super with
        | none =>
          simp only [hs] at h
          cases hsup : findCls cs sup <;> simp [hsup] at h
        | some nxt =>
          simp only [hs] at h
          have := (ih nxt sup h).2
          simp [descends, hk, hs, this]

theorem validProp_emb {cs : List Cls} {c : Cls} {q : PropV} (h : validProp cs c q = true) {ecls txt : Name}
    (hv : q.val = .emb false ecls txt) : EmbChecked cs c q ecls := by
  unfold validProp at h
  cases hd : findDecl c q.name with
  | none => simp [hd] at h
  | some d =>
    simp only [hd, declOk, Bool.and_eq_true, beq_iff_eq] at h
    obtain ⟨⟨ht, ha⟩, he⟩ := h
    refine ⟨d, hd, ht, ha, ?_⟩
    rw [hv] at he
    unfold embOk at he
    cases hk : d.embInst with
    | none => simpa [hk] using he
    | some k =>
      simp only [hk, beq_iff_eq] at he
      exact isSubclass_true cs _ ecls k he

/-- a successful CreateInstance validated every property -/
theorem stepCreate_ok_valid {r : Repo} {nsArg : Option Name} {inst : Inst} {p : Path}
    (h : (stepCreate r nsArg inst).2 = .path p) :
    ∃ e c, findNs r (effNs r nsArg) = some e ∧ findCls e.classes inst.cls = some c ∧
      ∀ q ∈ inst.props, validProp e.classes c q = true := by
  unfold stepCreate at h
  simp only [] at h
  split at h
  · simp [errNs] at h
  · rename_i e he
    split at h
    · simp [errClass] at h
    · rename_i c hc
      split at h
      · simp [errParam] at h
      · rename_i hall
        exact ⟨e, c, he, hc, fun q hq => List.all_eq_true.mp (by simpa using hall) q hq⟩

/-- an invalid property makes CreateInstance answer INVALID_PARAMETER and change nothing -/
theorem stepCreate_invalid {r : Repo} {nsArg : Option Name} {inst : Inst} {e : NsEntry} {c : Cls}
    (he : findNs r (effNs r nsArg) = some e) (hc : findCls e.classes inst.cls = some c)
    {q : PropV} (hq : q ∈ inst.props) (hv : validProp e.classes c q = false) :
    stepCreate r nsArg inst = (r, errParam) := by
  have hall : inst.props.all (validProp e.classes c) = false := by
    cases h : inst.props.all (validProp e.classes c) with
    | false => rfl
    | true => rw [List.all_eq_true.mp h q hq] at hv; cases hv
  unfold stepCreate
  simp [he, hc, hall]

/-- a successful ModifyInstance validated every supplied property -/
theorem stepModify_ok_valid {r : Repo} {path : Path} {inst : Inst} {pl : Option (List Name)}
    (h : (stepModify r path inst pl).2 = .unit) :
    ∃ e c, findNs r (effNs r path.ns) = some e ∧ findCls e.classes inst.cls = some c ∧
      ∀ q ∈ inst.props, validProp e.classes c q = true := by
  unfold stepModify at h
  simp only [] at h
  split at h
  · simp [errParam] at h
  · split at h
    · simp [errNs] at h
    · rename_i e he
      split at h
      · simp [errClass] at h
      · rename_i c hc
        split at h
        · simp [errNotFound] at h
        · rename_i st hst
          split at h
          · simp [errParam] at h
          · split at h
            · simp at h
            · rename_i hk
              refine ⟨e, c, he, hc, ?_⟩
              intro q hq
              have := firstErr_none hk q hq
              unfold keyCheck at this
              unfold validProp
              cases hd : findDecl c q.name with
              | none => simp [hd] at this
              | some d =>
                simp only [hd] at this ⊢
                cases hdo : declOk e.classes d q with
                | true => rfl
                | false => simp [hdo] at this

end Proofs.Store
