/-
XmlSyntax lemmas: the parser `par` on what the serialiser `Xml.ser` writes.
One lemma per parser function about its behaviour on `ser`-produced prefixes.
-/
import Pywbem.Model.XmlParse
import Proofs.Lemmas.XmlText

set_option linter.unusedSimpArgs false
set_option linter.unusedVariables false

namespace Proofs.XmlParse
open Pywbem.Model Pywbem.Model.XmlText Pywbem.Model.XmlParse Proofs.XmlText

/-! ### character classes -/

theorem nameStart_nameChar {c : Char} (h : isNameStart c = true) : isNameChar c = true := by
  simp [isNameChar, h]

theorem nameChar_not_ws {c : Char} (h : isNameChar c = true) : isWS c = false := by
  by_cases h1 : c = ' '
  · subst h1; revert h; decide
  by_cases h2 : c = '\t'
  · subst h2; revert h; decide
  by_cases h3 : c = '\n'
  · subst h3; revert h; decide
  by_cases h4 : c = '\r'
  · subst h4; revert h; decide
  simp [isWS, h1, h2, h3, h4]

theorem nameChar_ne {c d : Char} (h : isNameChar c = true) (hd : isNameChar d = false) : c ≠ d := by
  intro e; subst e; simp [h] at hd

theorem nameStart_ne {c d : Char} (h : isNameStart c = true) (hd : isNameStart d = false) : c ≠ d := by
  intro e; subst e; simp [h] at hd

theorem nc_eq : isNameChar '=' = false := by decide
theorem nc_gt : isNameChar '>' = false := by decide
theorem nc_slash : isNameChar '/' = false := by decide
theorem nc_sp : isNameChar ' ' = false := by decide
theorem ns_slash : isNameStart '/' = false := by decide
theorem ns_gt : isNameStart '>' = false := by decide
theorem ns_bang : isNameStart '!' = false := by decide
theorem ns_lt : isNameStart '<' = false := by decide

theorem isName_cons {n : Str} (h : isName n = true) :
    ∃ c t, n = c :: t ∧ isNameStart c = true ∧ ∀ x ∈ t, isNameChar x = true := by
  cases n with
  | nil => simp [isName] at h
  | cons c t =>
    simp [isName] at h
    exact ⟨c, t, rfl, h.1, h.2⟩

/-! ### scanning helpers -/

/-- does `p` hold for the first character (false on the empty string) -/
def headP (p : Char → Bool) : Str → Bool
  | [] => false
  | c :: _ => p c

theorem spanP_append (p : Char → Bool) (a b : Str) (ha : ∀ c ∈ a, p c = true) (hb : headP p b = false) :
    spanP p (a ++ b) = (a, b) := by
  induction a with
  | nil =>
    cases b with
    | nil => simp [spanP]
    | cons c cs => simp [headP] at hb; simp [spanP, hb]
  | cons c cs ih =>
    have hc := ha c (by simp)
    have ih' := ih (fun x hx => ha x (by simp [hx]))
    simp [spanP, hc, ih']

theorem parseName_append (n rest : Str) (hn : isName n = true) (hr : headP isNameChar rest = false) :
    parseName (n ++ rest) = some (n, rest) := by
  obtain ⟨c, t, rfl, hc, ht⟩ := isName_cons hn
  simp [parseName, hc, spanP_append isNameChar t rest ht hr]

theorem skipWS_cons {c : Char} (cs : Str) (h : isWS c = false) : skipWS (c :: cs) = c :: cs := by
  simp [skipWS, h]

theorem esc_append (a b : Str) : esc (a ++ b) = esc a ++ esc b := by
  induction a with
  | nil => simp [esc]
  | cons c cs ih => simp [esc, ih]

theorem escChar_no (c d : Char) (hd : d = '<' ∨ d = '>' ∨ d = '"') : d ∉ escChar c := by
  unfold escChar
  by_cases h1 : c = '&'
  · rcases hd with rfl | rfl | rfl <;> simp [h1] <;> decide
  by_cases h2 : c = '<'
  · rcases hd with rfl | rfl | rfl <;> simp [h2] <;> decide
  by_cases h3 : c = '"'
  · rcases hd with rfl | rfl | rfl <;> simp [h3] <;> decide
  by_cases h4 : c = '>'
  · rcases hd with rfl | rfl | rfl <;> simp [h4] <;> decide
  rcases hd with rfl | rfl | rfl <;> simp [h1, h2, h3, h4] <;> exact fun e => by simp [← e] at h2 h3 h4

theorem esc_no (s : Str) (d : Char) (hd : d = '<' ∨ d = '>' ∨ d = '"') : d ∉ esc s := by
  induction s with
  | nil => simp [esc]
  | cons c cs ih =>
    simp only [esc, List.mem_append, not_or]
    exact ⟨escChar_no c d hd, ih⟩

theorem escChar_ne_nil (c : Char) : escChar c ≠ [] := by
  unfold escChar
  by_cases h1 : c = '&'
  · simp [h1]
  by_cases h2 : c = '<'
  · simp [h2]
  by_cases h3 : c = '"'
  · simp [h3]
  by_cases h4 : c = '>'
  · simp [h4]
  simp [h1, h2, h3, h4]

theorem esc_eq_nil {s : Str} (h : esc s = []) : s = [] := by
  cases s with
  | nil => rfl
  | cons c cs =>
    simp only [esc, List.append_eq_nil_iff] at h
    exact absurd h.1 (escChar_ne_nil c)

theorem splitAtChar_append (q : Char) (a rest : Str) (ha : q ∉ a) :
    splitAtChar q (a ++ q :: rest) = some (a, rest) := by
  induction a with
  | nil => simp [splitAtChar]
  | cons c cs ih =>
    have hc : c ≠ q := fun e => ha (by simp [e])
    have ih' := ih (fun e => ha (by simp [e]))
    simp [splitAtChar, hc, ih']

theorem hasCdEnd_false (s : Str) (h : '>' ∉ s) : hasCdEnd s = false := by
  induction s with
  | nil => rfl
  | cons c cs ih =>
    have ih' := ih (fun e => h (by simp [e]))
    simp only [hasCdEnd, ih', Bool.or_false]
    cases hp : "]]>".toList.isPrefixOf (c :: cs) with
    | false => rfl
    | true =>
      exfalso
      rw [List.isPrefixOf_iff_prefix] at hp
      exact h (hp.subset (by decide))

/-! ### attributes -/

theorem serAttrs_head (as : List (Str × Str)) (rest : Str) (hr : headP isNameChar rest = false) :
    headP isNameChar (Xml.serAttrs as ++ rest) = false := by
  cases as with
  | nil => simpa [Xml.serAttrs] using hr
  | cons p ps => obtain ⟨k, v⟩ := p; simp [Xml.serAttrs, headP]; decide

theorem serAttrs_length (as : List (Str × Str)) : as.length ≤ (Xml.serAttrs as).length := by
  induction as with
  | nil => simp
  | cons p ps ih => obtain ⟨k, v⟩ := p; simp [Xml.serAttrs]; omega

theorem wireAttrs_keys : ∀ (as as' : List (Str × Str)), wireAttrs as = some as' → as'.map (·.1) = as.map (·.1)
  | [], as', h => by simp [wireAttrs] at h; subst h; rfl
  | (k, v) :: rest, as', h => by
    simp only [wireAttrs] at h
    cases h1 : wireAttr v with
    | none => simp [h1] at h
    | some v' =>
      cases h2 : wireAttrs rest with
      | none => simp [h1, h2] at h
      | some r =>
        simp [h1, h2] at h
        subst h
        simp [wireAttrs_keys rest r h2]

/-- `parseAttrs` on the serialised attribute list, followed by something that is neither blank nor a name start
    (`/>` or `>`): the attributes as `wireAttrs` gives them, input left in front of the follower -/
theorem parseAttrs_ser (c : Char) (r : Str) (hc1 : isWS c = false) (hc2 : isNameStart c = false) :
    ∀ (as : List (Str × Str)) (f : Nat), (∀ p ∈ as, isName p.1 = true) → as.length < f →
      parseAttrs f (Xml.serAttrs as ++ c :: r) = (wireAttrs as).map (fun a => (a, c :: r))
  | [], f, _, hf => by
    obtain ⟨f, rfl⟩ : ∃ g, f = g + 1 := ⟨f - 1, by simp at hf; omega⟩
    simp [Xml.serAttrs, parseAttrs, skipWS, hc1, hc2, wireAttrs]
  | (k, v) :: rest, f, hn, hf => by
    obtain ⟨f, rfl⟩ : ∃ g, f = g + 1 := ⟨f - 1, by simp at hf; omega⟩
    have hk : isName k = true := hn (k, v) (by simp)
    have ih := parseAttrs_ser c r hc1 hc2 rest f (fun p hp => hn p (by simp [hp])) (by simp at hf; omega)
    obtain ⟨kc, kt, rfl, hkc, hkt⟩ := isName_cons hk
    have hkws : isWS kc = false := nameChar_not_ws (nameStart_nameChar hkc)
    have hpn : parseName (kc :: (kt ++ '=' :: '"' :: (esc v ++ '"' :: (Xml.serAttrs rest ++ c :: r)))) =
        some (kc :: kt, '=' :: '"' :: (esc v ++ '"' :: (Xml.serAttrs rest ++ c :: r))) := by
      have := parseName_append (kc :: kt) ('=' :: '"' :: (esc v ++ '"' :: (Xml.serAttrs rest ++ c :: r))) hk
        (by simp [headP]; decide)
      simpa using this
    have hsp : splitAtChar '"' (esc v ++ '"' :: (Xml.serAttrs rest ++ c :: r)) =
        some (esc v, Xml.serAttrs rest ++ c :: r) :=
      splitAtChar_append '"' (esc v) _ (esc_no v '"' (by simp))
    have hws1 : isWS ' ' = true := by decide
    have hws2 : isWS '=' = false := by decide
    have hws3 : isWS '"' = false := by decide
    simp only [Xml.serAttrs, parseAttrs, List.cons_append, List.append_assoc, skipWS, hws1, if_true, hkws,
      Bool.false_eq_true, if_false, hkc, Bool.true_eq_false, startsWS, hpn, hws2, expectChar, hws3, true_or,
      hsp, decodeAttr, wireAttrs]
    simp only [ih]
    show _ = (match wireAttr v, wireAttrs rest with
      | some v', some r => some ((kc :: kt, v') :: r)
      | _, _ => none).map _
    unfold wireAttr
    cases recvAttr (.txt false) (esc v) <;> cases wireAttrs rest <;> simp

/-! ### content -/

/-- a pending non-empty character data run in front of a tag: one text node, added to what follows -/
theorem contentLoop_text (pe : Str → Option (Xml × Str)) (f : Nat) (p : Str) (hp : p ≠ []) (R : Str) :
    contentLoop pe (f + 1) (esc p ++ '<' :: R) =
      match wireText p with
      | none => none
      | some t =>
        match contentLoop pe f ('<' :: R) with
        | none => none
        | some (ks, r') => some (addText t ks, r') := by
  have hne : esc p ≠ [] := fun h => hp (esc_eq_nil h)
  have hlt : ∀ c ∈ esc p, (c != '<') = true := by
    intro c hc
    have : c ≠ '<' := fun e => esc_no p '<' (by simp) (e ▸ hc)
    simpa using this
  have hspan := spanP_append (fun x => x != '<') (esc p) ('<' :: R) hlt (by simp [headP])
  have hcd := hasCdEnd_false (esc p) (esc_no p '>' (by simp))
  cases he : esc p with
  | nil => exact absurd he hne
  | cons e es =>
    have he1 : e ≠ '<' := by
      have := hlt e (by simp [he])
      simpa using this
    rw [he] at hspan hcd
    simp only [List.cons_append] at hspan ⊢
    simp only [contentLoop, he1, if_false, hspan, hcd, Bool.false_eq_true]
    simp only [wireText, he]
    cases recvText (.txt false) (e :: es) with
    | none => rfl
    | some t => cases contentLoop pe f ('<' :: R) <;> rfl

theorem recvText_ent_ne_nil : ∀ (s acc : Str) (t : Str), recvText (.ent acc) s = some t → t ≠ []
  | [], acc, t, h => by simp [recvText] at h
  | c :: cs, acc, t, h => by
    simp only [recvText] at h
    by_cases hc : c = ';'
    · simp only [hc, if_true] at h
      cases hr : resolve acc with
      | none => simp [hr] at h
      | some ch =>
        simp only [hr] at h
        cases hq : recvText (.txt false) cs with
        | none => simp [hq] at h
        | some q => simp [hq] at h; subst h; simp
    · simp only [hc, if_false] at h
      exact recvText_ent_ne_nil cs _ t h

theorem recvText_ne_nil (s t : Str) (hs : s ≠ []) (h : recvText (.txt false) s = some t) : t ≠ [] := by
  cases s with
  | nil => exact absurd rfl hs
  | cons c cs =>
    simp only [recvText] at h
    by_cases h1 : c = '&'
    · simp only [h1, if_true] at h; exact recvText_ent_ne_nil cs [] t h
    by_cases h2 : c = '<'
    · simp [h1, h2] at h
    by_cases h3 : isXmlChar c = false
    · simp [h1, h2, h3] at h
    by_cases h4 : c = '\r'
    · simp only [h1, h2, h3, h4, if_false, if_true] at h
      cases hq : recvText (.txt true) cs with
      | none => simp [hq] at h
      | some q => simp [hq] at h; obtain ⟨_, h⟩ := h; subst h; simp
    · simp only [h1, h2, h3, h4, if_false, Bool.false_eq_true, and_false, Bool.not_eq_true'] at h
      cases hq : recvText (.txt false) cs with
      | none => simp [hq] at h
      | some q => simp [hq] at h; subst h; simp

theorem wireText_ne_nil {p t : Str} (hp : p ≠ []) (h : wireText p = some t) : t ≠ [] :=
  recvText_ne_nil (esc p) t (fun e => hp (esc_eq_nil e)) h

theorem wireTree_elem_some {n : Str} {as : List (Str × Str)} {kk : List Xml} {t : Xml}
    (h : wireTree (.elem n as kk) = some t) : ∃ as' ks', t = .elem n as' ks' := by
  simp only [wireTree] at h
  cases h1 : wireAttrs as with
  | none => simp [h1] at h
  | some as' =>
    cases h2 : wireKids [] kk with
    | none => simp [h1, h2] at h
    | some ks' => simp [h1, h2] at h; exact ⟨as', ks', h.symm⟩

theorem contentLoop_end (pe : Str → Option (Xml × Str)) (f : Nat) (rest : Str) :
    contentLoop pe (f + 1) ('<' :: '/' :: rest) = some ([], rest) := by
  simp [contentLoop]

/-- the serialisation of an element with a well-formed name starts `<` NameStartChar -/
def StartsTag (s : Str) : Prop := ∃ c X, isNameStart c = true ∧ s = '<' :: c :: X

theorem ser_elem_startsTag (n : Str) (as : List (Str × Str)) (kk : List Xml) (hn : isName n = true) :
    StartsTag (Xml.ser (.elem n as kk)) := by
  obtain ⟨c, t, rfl, hc, _⟩ := isName_cons hn
  cases kk with
  | nil => exact ⟨c, _, hc, by simp [Xml.ser]; rfl⟩
  | cons k ks => exact ⟨c, _, hc, by simp [Xml.ser]; rfl⟩

theorem contentLoop_elem (pe : Str → Option (Xml × Str)) (f : Nat) (s Y : Str) (hs : StartsTag s) :
    contentLoop pe (f + 1) (s ++ Y) =
      match pe (s ++ Y) with
      | none => none
      | some (e, r) =>
        match contentLoop pe f r with
        | none => none
        | some (ks, r') => some (e :: ks, r') := by
  obtain ⟨c, X, hc, rfl⟩ := hs
  have h1 : c ≠ '/' := nameStart_ne hc ns_slash
  have h2 : c ≠ '!' := nameStart_ne hc ns_bang
  simp only [List.cons_append, contentLoop, if_true, h1, h2, if_false]
  cases pe ('<' :: c :: (X ++ Y)) with
  | none => rfl
  | some er => cases contentLoop pe f er.2 <;> rfl

def elemCount : List Xml → Nat
  | [] => 0
  | .text _ :: ks => elemCount ks
  | .elem .. :: ks => elemCount ks + 1

/-- **content**: pending character data `p` (already written, escaped), the serialised children and the `</` of the
    end tag → the children as `wireKids` gives them. `pe` must parse every element child correctly. -/
theorem contentLoop_ser (pe : Str → Option (Xml × Str)) (rest : Str) :
    ∀ (ks : List Xml) (p : Str) (f : Nat),
      (∀ n as kk, Xml.elem n as kk ∈ ks → isName n = true ∧
        ∀ Y, pe (Xml.ser (.elem n as kk) ++ Y) = (wireTree (.elem n as kk)).map (fun t => (t, Y))) →
      2 * elemCount ks + 2 ≤ f →
      contentLoop pe f (esc p ++ Xml.serList ks ++ '<' :: '/' :: rest) = (wireKids p ks).map (fun l => (l, rest))
  | [], p, f, _, hf => by
    obtain ⟨f, rfl⟩ : ∃ g, f = g + 2 := ⟨f - 2, by omega⟩
    by_cases hp : p = []
    · subst hp; simp [esc, Xml.serList, contentLoop_end, wireKids, flushText]
    · simp only [Xml.serList, List.append_nil, contentLoop_text pe (f + 1) p hp, contentLoop_end, wireKids,
        flushText, hp, if_false]
      cases hw : wireText p with
      | none => simp
      | some t => simp [addText, wireText_ne_nil hp hw]
  | .text s :: ks, p, f, hpe, hf => by
    have ih := contentLoop_ser pe rest ks (p ++ s) f
      (fun n as kk hm => hpe n as kk (by simp [hm])) (by simpa [elemCount] using hf)
    simp only [Xml.serList, Xml.ser, wireKids]
    rw [← ih, esc_append]
    simp [List.append_assoc]
  | .elem n as kk :: ks, p, f, hpe, hf => by
    obtain ⟨hn, hk⟩ := hpe n as kk (by simp)
    have key : ∀ g, 2 * elemCount ks + 3 ≤ g →
        contentLoop pe g (Xml.ser (.elem n as kk) ++ (Xml.serList ks ++ '<' :: '/' :: rest)) =
          match wireTree (.elem n as kk), wireKids [] ks with
          | some t, some r => some (t :: r, rest)
          | _, _ => none := by
      intro g hg
      obtain ⟨g, rfl⟩ : ∃ g', g = g' + 1 := ⟨g - 1, by omega⟩
      have ih := contentLoop_ser pe rest ks [] g
        (fun n as kk hm => hpe n as kk (by simp [hm])) (by omega)
      simp only [esc, List.nil_append] at ih
      rw [contentLoop_elem pe g _ _ (ser_elem_startsTag n as kk hn), hk]
      cases wireTree (.elem n as kk) with
      | none => simp
      | some t => simp only [Option.map_some, ih]; cases wireKids [] ks <;> simp
    simp only [elemCount] at hf
    by_cases hp : p = []
    · subst hp
      simp only [esc, List.nil_append, Xml.serList, List.append_assoc, key f (by omega), wireKids, flushText]
      cases wireTree (.elem n as kk) <;> cases wireKids [] ks <;> simp
    · obtain ⟨f, rfl⟩ : ∃ g, f = g + 1 := ⟨f - 1, by omega⟩
      obtain ⟨c, X, hc, hX⟩ := ser_elem_startsTag n as kk hn
      have hform : esc p ++ Xml.serList (.elem n as kk :: ks) ++ '<' :: '/' :: rest =
          esc p ++ '<' :: (c :: X ++ (Xml.serList ks ++ '<' :: '/' :: rest)) := by
        simp [Xml.serList, hX, List.append_assoc]
      have key' := key f (by omega)
      rw [hX] at key'
      rw [hform, contentLoop_text pe f p hp]
      simp only [List.cons_append] at key' ⊢
      simp only [key', wireKids, flushText, hp, if_false]
      cases hw : wireText p with
      | none => cases wireTree (.elem n as kk) <;> cases wireKids [] ks <;> simp
      | some tx =>
        cases ht : wireTree (.elem n as kk) with
        | none => simp
        | some t =>
          obtain ⟨as', ks', rfl⟩ := wireTree_elem_some ht
          cases wireKids [] ks with
          | none => simp
          | some r => simp [addText, wireText_ne_nil hp hw]

/-! ### elements -/

/-- one element, given that `content` parses its serialised children -/
theorem parseElemWith_ser (content : Str → Option (List Xml × Str)) (n : Str) (as : List (Str × Str))
    (ks : List Xml) (rest : Str) (fa : Nat) (hn : isName n = true) (has : ∀ p ∈ as, isName p.1 = true)
    (hd : hasDup (as.map (·.1)) = false) (hfa : as.length < fa)
    (hcontent : ∀ R, content (Xml.serList ks ++ '<' :: '/' :: R) = (wireKids [] ks).map (fun l => (l, R))) :
    parseElemWith content fa (Xml.ser (.elem n as ks) ++ rest) =
      (wireTree (.elem n as ks)).map (fun t => (t, rest)) := by
  have hws1 : isWS '/' = false := by decide
  have hws2 : isWS '>' = false := by decide
  cases ks with
  | nil =>
    have hpn := parseName_append n (Xml.serAttrs as ++ '/' :: '>' :: rest) hn
      (serAttrs_head as _ (by simp [headP]; decide))
    have hpa := parseAttrs_ser '/' ('>' :: rest) hws1 ns_slash as fa has hfa
    have hform : Xml.ser (.elem n as []) ++ rest = '<' :: (n ++ (Xml.serAttrs as ++ '/' :: '>' :: rest)) := by
      have : "/>".toList = ['/', '>'] := rfl
      simp [Xml.ser, List.append_assoc, this]
    rw [hform]
    simp only [parseElemWith, expectChar, if_true, hpn, hpa, wireTree, wireKids, flushText]
    cases hw : wireAttrs as with
    | none => simp
    | some as' =>
      have hk := wireAttrs_keys as as' hw
      simp [hk, hd, expectChar]
  | cons k ks' =>
    have hpn := parseName_append n (Xml.serAttrs as ++ '>' :: (Xml.serList (k :: ks') ++ '<' :: '/' :: (n ++ '>' :: rest))) hn
      (serAttrs_head as _ (by simp [headP]; decide))
    have hpa := parseAttrs_ser '>' (Xml.serList (k :: ks') ++ '<' :: '/' :: (n ++ '>' :: rest)) hws2 ns_gt as fa has hfa
    have hpn2 := parseName_append n ('>' :: rest) hn (by simp [headP]; decide)
    have hform : Xml.ser (.elem n as (k :: ks')) ++ rest =
        '<' :: (n ++ (Xml.serAttrs as ++ '>' :: (Xml.serList (k :: ks') ++ '<' :: '/' :: (n ++ '>' :: rest)))) := by
      simp [Xml.ser, List.append_assoc]
    rw [hform]
    simp only [parseElemWith, expectChar, if_true, hpn, hpa, wireTree]
    cases hw : wireAttrs as with
    | none => simp
    | some as' =>
      have hk := wireAttrs_keys as as' hw
      simp only [Option.map_some, hk, hd, Bool.false_eq_true, if_false, if_true, hcontent]
      cases wireKids [] (k :: ks') with
      | none => simp
      | some l => simp [hpn2, skipWS, hws2, expectChar]

theorem mem_serList_length {k : Xml} {ks : List Xml} (h : k ∈ ks) : (Xml.ser k).length ≤ (Xml.serList ks).length := by
  induction ks with
  | nil => simp at h
  | cons a l ih =>
    simp only [Xml.serList, List.length_append]
    rcases List.mem_cons.mp h with rfl | h'
    · omega
    · have := ih h'; omega

theorem serList_lt_ser (n : Str) (as : List (Str × Str)) (ks : List Xml) :
    (Xml.serList ks).length < (Xml.ser (.elem n as ks)).length := by
  cases ks with
  | nil => simp [Xml.ser, Xml.serList]
  | cons k l => simp [Xml.ser]; omega

theorem ser_elem_length (n : Str) (as : List (Str × Str)) (ks : List Xml) : 2 ≤ (Xml.ser (.elem n as ks)).length := by
  cases ks with
  | nil => simp [Xml.ser]; omega
  | cons k l => simp [Xml.ser]; omega

theorem elemCount_le : ∀ (ks : List Xml), 2 * elemCount ks ≤ (Xml.serList ks).length
  | [] => by simp [elemCount]
  | .text s :: ks => by have := elemCount_le ks; simp [elemCount, Xml.serList]; omega
  | .elem n as kk :: ks => by
    have := elemCount_le ks
    have := ser_elem_length n as kk
    simp only [elemCount, Xml.serList, List.length_append]; omega

theorem wfKids_mem {k : Xml} {ks : List Xml} (h : wfKids ks = true) (hm : k ∈ ks) : wfTree k = true := by
  induction ks with
  | nil => simp at hm
  | cons a l ih =>
    simp [wfKids] at h
    rcases List.mem_cons.mp hm with rfl | h'
    · exact h.1
    · exact ih h.2 h'

theorem wfAttrs_names : ∀ (as : List (Str × Str)), wfAttrs as = true → ∀ p ∈ as, isName p.1 = true
  | [], _, p, hp => by simp at hp
  | (k, v) :: rest, h, p, hp => by
    simp [wfAttrs] at h
    rcases List.mem_cons.mp hp with rfl | h'
    · exact h.1.1
    · exact wfAttrs_names rest h.2 p h'

/-- **element**: with enough fuel, the serialisation of a well-formed element followed by anything parses to the
    wire image of the element and leaves the rest -/
theorem parseElem_ser : ∀ (f : Nat) (n : Str) (as : List (Str × Str)) (ks : List Xml) (rest : Str),
    wfTree (.elem n as ks) = true → (Xml.ser (.elem n as ks)).length < f →
    parseElem f (Xml.ser (.elem n as ks) ++ rest) = (wireTree (.elem n as ks)).map (fun t => (t, rest))
  | 0, _, _, _, _, _, hf => by omega
  | f + 1, n, as, ks, rest, hwf, hf => by
    simp only [wfTree, Bool.and_eq_true, Bool.not_eq_true'] at hwf
    obtain ⟨⟨⟨hn, hwa⟩, hd⟩, hwk⟩ := hwf
    simp only [parseElem]
    have hlen : (Xml.serAttrs as).length + (Xml.serList ks).length + 2 ≤ (Xml.ser (.elem n as ks)).length := by
      cases ks with
      | nil => simp [Xml.ser, Xml.serList]; omega
      | cons k l => simp [Xml.ser]; omega
    have := serAttrs_length as
    have := elemCount_le ks
    apply parseElemWith_ser _ n as ks rest (f + 1) hn (wfAttrs_names as hwa) hd (by omega)
    intro R
    have h := contentLoop_ser (parseElem f) R ks [] (f + 1) ?_ (by omega)
    · simpa [esc] using h
    · intro n' as' kk hm
      have hwk' := wfKids_mem hwk hm
      refine ⟨?_, fun Y => parseElem_ser f n' as' kk Y hwk' ?_⟩
      · simp only [wfTree, Bool.and_eq_true] at hwk'; exact hwk'.1.1.1
      · have := mem_serList_length hm
        have := serList_lt_ser n as ks
        omega

/-! ### document -/

theorem startsTag_no_decl {s : Str} (hs : StartsTag s) : stripPrefix "<?xml".toList s = none := by
  obtain ⟨c, X, hc, rfl⟩ := hs
  have h1 : c ≠ '?' := nameStart_ne hc (by decide)
  have : "<?xml".toList = ['<', '?', 'x', 'm', 'l'] := rfl
  simp [stripPrefix, this, List.isPrefixOf, Ne.symm h1]

theorem startsTag_no_comment {s : Str} (hs : StartsTag s) : stripPrefix "<!--".toList s = none := by
  obtain ⟨c, X, hc, rfl⟩ := hs
  have h1 : c ≠ '!' := nameStart_ne hc ns_bang
  have : "<!--".toList = ['<', '!', '-', '-'] := rfl
  simp [stripPrefix, this, List.isPrefixOf, Ne.symm h1]

theorem skipWS_startsTag {s : Str} (hs : StartsTag s) : skipWS s = s := by
  obtain ⟨c, X, hc, rfl⟩ := hs
  exact skipWS_cons _ (by decide)

theorem skipMisc_startsTag {s : Str} (hs : StartsTag s) (f : Nat) : skipMisc (f + 1) s = some s := by
  simp only [skipMisc, skipWS_startsTag hs, startsTag_no_comment hs]

theorem skipMisc_nil (f : Nat) : skipMisc (f + 1) [] = some [] := by
  have : "<!--".toList = ['<', '!', '-', '-'] := rfl
  simp [skipMisc, skipWS, stripPrefix, this, List.isPrefixOf]

theorem par_startsTag {s : Str} (hs : StartsTag s) : par s = parRoot s := by
  simp only [par, skipDecl, startsTag_no_decl hs, skipMisc_startsTag hs]

theorem par_ser (n : Str) (as : List (Str × Str)) (ks : List Xml) (hwf : wfTree (.elem n as ks) = true) :
    par (Xml.ser (.elem n as ks)) = wireTree (.elem n as ks) := by
  have hn : isName n = true := by
    simp only [wfTree, Bool.and_eq_true] at hwf; exact hwf.1.1.1
  rw [par_startsTag (ser_elem_startsTag n as ks hn), parRoot]
  have h := parseElem_ser ((Xml.ser (.elem n as ks)).length + 1) n as ks [] hwf (by omega)
  rw [List.append_nil] at h
  rw [h]
  cases wireTree (.elem n as ks) with
  | none => rfl
  | some t => simp [skipMisc_nil]

/-- the XML declaration pywbem's requests / responses start with -/
def declStr : Str := "<?xml version=\"1.0\" encoding=\"utf-8\" ?>\n".toList

theorem skipDecl_declStr (x : Str) : skipDecl (declStr ++ x) = some ('\n' :: x) := by rfl

theorem par_decl {s : Str} (hs : StartsTag s) : par (declStr ++ s) = par s := by
  rw [par_startsTag hs]
  have hws : skipWS ('\n' :: s) = s := by
    have : isWS '\n' = true := by decide
    simp [skipWS, this, skipWS_startsTag hs]
  simp only [par, skipDecl_declStr, skipMisc, hws, startsTag_no_comment hs]

/-! ### the wire leaves stable trees alone; it accepts every well-formed tree -/

theorem wireAttrs_stable : ∀ (as : List (Str × Str)), wfAttrs as = true → stableAttrs as = true → wireAttrs as = some as
  | [], _, _ => rfl
  | (k, v) :: rest, hw, hs => by
    simp only [wfAttrs, Bool.and_eq_true, List.all_eq_true] at hw
    simp only [stableAttrs, Bool.and_eq_true, List.all_eq_true, bne_iff_ne, ne_eq] at hs
    have h1 := wireAttr_id v hw.1.2 (fun c hc => by have := hs.1 c hc; exact ⟨this.2, this.1.2, this.1.1⟩)
    simp [wireAttrs, h1, wireAttrs_stable rest hw.2 hs.2]

theorem wireAttrs_isSome : ∀ (as : List (Str × Str)), wfAttrs as = true → ∃ as', wireAttrs as = some as'
  | [], _ => ⟨[], rfl⟩
  | (k, v) :: rest, hw => by
    simp only [wfAttrs, Bool.and_eq_true, List.all_eq_true] at hw
    obtain ⟨r, hr⟩ := wireAttrs_isSome rest hw.2
    exact ⟨(k, normAttr false v) :: r, by simp [wireAttrs, wireAttr, recvAttr_esc v false hw.1.2, hr]⟩

mutual
theorem wireTree_stable : (t : Xml) → wfTree t = true → stableTree t = true → wireTree t = some t
  | .text s, hw, hs => by
    simp only [wfTree, List.all_eq_true] at hw
    simp only [stableTree, Bool.not_eq_true', List.contains_eq_mem, decide_eq_false_iff_not] at hs
    simp [wireTree, wireText_id s hw hs]
  | .elem n as ks, hw, hs => by
    simp only [wfTree, Bool.and_eq_true] at hw
    simp only [stableTree, Bool.and_eq_true] at hs
    simp [wireTree, wireAttrs_stable as hw.1.1.2 hs.1, wireKids_stable ks hw.2 hs.2]
theorem wireKids_stable : (ks : List Xml) → wfKids ks = true → stableKids ks = true → wireKids [] ks = some ks
  | [], _, _ => by simp [wireKids, flushText]
  | [.text s], hw, hs => by
    simp only [wfKids, wfTree, Bool.and_eq_true, List.all_eq_true] at hw
    simp only [stableKids, Bool.and_eq_true, Bool.not_eq_true', List.contains_eq_mem,
      decide_eq_false_iff_not, List.isEmpty_eq_false_iff] at hs
    simp [wireKids, flushText, hs.1.1.1, wireText_id s hw.1 hs.1.1.2]
  | .text s :: .text s2 :: ks, _, hs => by
    simp [stableKids, headIsText] at hs
  | .text s :: .elem n as kk :: ks, hw, hs => by
    simp only [wfKids, Bool.and_eq_true] at hw
    have hs' := hs
    simp only [stableKids, Bool.and_eq_true, Bool.not_eq_true', List.contains_eq_mem,
      decide_eq_false_iff_not, List.isEmpty_eq_false_iff] at hs'
    have hws : ∀ c ∈ s, isXmlChar c = true := by
      have := hw.1; simpa [wfTree] using this
    simp [wireKids, flushText, hs'.1.1.1, wireText_id s hws hs'.1.1.2,
      wireTree_stable (.elem n as kk) hw.2.1 hs'.2.1, wireKids_stable ks hw.2.2 hs'.2.2]
  | .elem n as kk :: ks, hw, hs => by
    simp only [wfKids, Bool.and_eq_true] at hw
    simp only [stableKids, Bool.and_eq_true] at hs
    simp [wireKids, flushText, wireTree_stable (.elem n as kk) hw.1 hs.1, wireKids_stable ks hw.2 hs.2]
end

theorem flushText_isSome (p : Str) (r : List Xml) (hp : ∀ c ∈ p, isXmlChar c = true) :
    ∃ l, flushText p r = some l := by
  unfold flushText
  by_cases h : p = []
  · exact ⟨r, by simp [h]⟩
  · exact ⟨.text (normEOL false p) :: r, by simp [h, wireText, recvText_esc p false hp]⟩

mutual
theorem wireTree_isSome : (t : Xml) → wfTree t = true → ∃ t', wireTree t = some t'
  | .text s, hw => by
    simp only [wfTree, List.all_eq_true] at hw
    exact ⟨.text (normEOL false s), by simp [wireTree, wireText, recvText_esc s false hw]⟩
  | .elem n as ks, hw => by
    simp only [wfTree, Bool.and_eq_true] at hw
    obtain ⟨as', ha⟩ := wireAttrs_isSome as hw.1.1.2
    obtain ⟨ks', hk⟩ := wireKids_isSome ks [] (by simp) hw.2
    exact ⟨.elem n as' ks', by simp [wireTree, ha, hk]⟩
theorem wireKids_isSome : (ks : List Xml) → (p : Str) → (∀ c ∈ p, isXmlChar c = true) → wfKids ks = true →
    ∃ l, wireKids p ks = some l
  | [], p, hp, _ => by simpa [wireKids] using flushText_isSome p [] hp
  | .text s :: ks, p, hp, hw => by
    simp only [wfKids, wfTree, Bool.and_eq_true, List.all_eq_true] at hw
    simp only [wireKids]
    exact wireKids_isSome ks (p ++ s) (fun c hc => by
      rcases List.mem_append.mp hc with h | h
      · exact hp c h
      · exact hw.1 c h) hw.2
  | .elem n as kk :: ks, p, hp, hw => by
    simp only [wfKids, Bool.and_eq_true] at hw
    obtain ⟨t, ht⟩ := wireTree_isSome (.elem n as kk) hw.1
    obtain ⟨r, hr⟩ := wireKids_isSome ks [] (by simp) hw.2
    obtain ⟨l, hl⟩ := flushText_isSome p (t :: r) hp
    exact ⟨l, by simp [wireKids, ht, hr, hl]⟩
end

theorem hasDup_eq_false_iff (l : List Str) : hasDup l = false ↔ l.Nodup := by
  induction l with
  | nil => simp [hasDup]
  | cons a t ih => simp [hasDup, ih]

end Proofs.XmlParse
