/-
C04 — second bridge to C01: (1) the `WfTree` / `SoftStable` parts of `WireOk` follow from C01's decidable `CleanObj`
(`good_encObj`, CimXml18) — and so do the same facts about the wrapper elements of result items; (2) the remaining
result-item forms: OBJECTPATH (names of associations), class-level VALUE.OBJECTWITHPATH (Associators / References
of a class) and VALUE.OBJECT (ExecQuery).
-/
import Proofs.Lemmas.OpsC01
import Proofs.Lemmas.CimXml18

set_option autoImplicit false

namespace Proofs.OpsC01
open Pywbem.Model Pywbem.Model.XmlText Pywbem.Model.XmlParse Pywbem.Model.Ops Pywbem.Proto
open Proofs.Ops Proofs.CimXml Proofs.XmlParse Pywbem.Generated.OpsSig

/-- **`WireOk` from `CleanObj`**: for a sendable object whose strings are clean (C01's decidable `CleanObj`), the
    well-formedness and wire-stability of its encoding are theorems, not hypotheses -/
theorem wireOk_of_clean (C : DecCodec) (S : Spec) (hK : CodecClean C.toCodec) (d : Nat) (o : Obj)
    (hs : Sendable S o) (hc : CleanObj o) (hd : embDepth o ≤ d) : WireOk C S d o :=
  ⟨hs, hd, (good_encObj C S hK o hs hc).1, (good_encObj C S hK o hs hc).2⟩

/-! ### the wrapper elements of result items are good when their parts are clean -/

theorem good_objectpath (C : DecCodec) (hK : CodecClean C.toCodec) (p : Path) (hc : cleanPath p = true) :
    Good (E "OBJECTPATH" [] [encPath C.toCodec p]) :=
  good_E0 (by decide) (goodKids_cons (G_path C hK p hc) goodKids_nil)

theorem good_owp_inst (C : DecCodec) (hK : CodecClean C.toCodec) (p : Path) (i : Inst) (hp : cleanPath p = true)
    (hi : cleanInstBody i = true) :
    Good (E "VALUE.OBJECTWITHPATH" [] [encPath C.toCodec p, encInstElem C.toCodec i]) :=
  good_E0 (by decide) (goodKids_cons (G_path C hK p hp) (goodKids_cons (G_inst C hK i hi) goodKids_nil))

theorem good_owp_cls (C : DecCodec) (hK : CodecClean C.toCodec) (p : Path) (c : Cls) (hp : cleanPath p = true)
    (hc : cleanCls c = true) :
    Good (E "VALUE.OBJECTWITHPATH" [] [encPath C.toCodec p, encCls C.toCodec c]) :=
  good_E0 (by decide) (goodKids_cons (G_path C hK p hp) (goodKids_cons (G_cls C hK c hc) goodKids_nil))

theorem good_valueobject (C : DecCodec) (hK : CodecClean C.toCodec) (i : Inst) (hi : cleanInstBody i = true) :
    Good (E "VALUE.OBJECT" [] [encInstElem C.toCodec i]) :=
  good_E0 (by decide) (goodKids_cons (G_inst C hK i hi) goodKids_nil)

/-! ### class-level association results and query results -/

/-- a class path that carries host and namespace: what a class-level VALUE.OBJECTWITHPATH needs -/
def FullClsPath : Path → Prop
  | .cls _ (some _) (some _) => True
  | _ => False

theorem encPath_fullcls_root (C : Codec) (p : Path) (h : FullClsPath p) :
    ∃ ks, encPath C p = .elem "CLASSPATH".toList [] ks := by
  match p, h with
  | .cls c (some hh) (some n), _ => exact ⟨_, by simp only [encPath, E]; rfl⟩

theorem decRetItem_opCls (C : DecCodec) (S : Spec) (hC : CodecOk C S) (d : Nat) (p : Path) (c : Cls)
    (hf : FullClsPath p) (hs : SendablePath S p) (hc : SendableCls S c) (hd : depthCls c ≤ d) :
    decRetItem C (embAt C d) (normTree (E "VALUE.OBJECTWITHPATH" [] [encPath C.toCodec p, encCls C.toCodec c])) =
      .ok (.tagged "VALUE.OBJECTWITHPATH".toList
        (.pair (wdPath C.toCodec p) (Cls.setPath (wdPath C.toCodec p) (wdCls C.toCodec c)))) := by
  obtain ⟨ks, he⟩ := encPath_fullcls_root C.toCodec p hf
  have hr := rt_path C S hC p hs
  have hrc := rt_cls C S hC c d hc hd
  rw [← decPathAny_norm] at hr
  rw [← decClass_norm] at hrc
  obtain ⟨n, sup, pp, ps, ms, qs⟩ := c
  rw [he] at hr ⊢
  simp only [encCls, E] at hrc ⊢
  rw [normTree_elem] at hr hrc
  simp at hr hrc
  simp [normTree_elem, normKids_elem, normKids_nil, flushT, decRetItem, checkNode, attrKeysOk, noText, Xml.elemKids,
    Xml.name, hr, hrc, pure, Except.pure, bind, Except.bind]

theorem decRetItem_valueObject (C : DecCodec) (S : Spec) (hC : CodecOk C S) (d : Nat) (i : Inst)
    (hi : SendableInstBody S i) (hd : depthInst i ≤ d) :
    decRetItem C (embAt C d) (normTree (E "VALUE.OBJECT" [] [encInstElem C.toCodec i])) =
      .ok (.tagged "VALUE.OBJECT".toList (.obj (.inst (wdInstNoPath C.toCodec i)))) := by
  have hri := rt_inst C S hC i d hi hd
  rw [← decInstance_norm] at hri
  obtain ⟨c, pp, ps, qs⟩ := i
  simp only [encInstElem, E] at hri ⊢
  rw [normTree_elem] at hri
  have hdt := decodeTop_INSTANCE C (embAt C d) [("CLASSNAME".toList, c)]
    (normKids [] (encQuals C.toCodec qs ++ encProps C.toCodec ps))
  rw [hri] at hdt
  simp [pure, Except.pure, bind, Except.bind] at hdt
  simp [normTree_elem, normKids_elem, normKids_nil, flushT, decRetItem, checkNode, attrKeysOk, noText, oneChild,
    Xml.elemKids, nameIn, Xml.name, hdt, pure, Except.pure, bind, Except.bind]

/-! ### what the client's post-processing does with lists of tagged items -/

theorem third_tagged {α : Type} (tag : Str) (f : α → CObj) (l : List α) :
    third (l.map (fun x => CItem.tagged tag (f x))) = .ok (l.map f) := by
  induction l with
  | nil => rfl
  | cons a r ih => simp [third, ih, pure, Except.pure, bind, Except.bind]

theorem isInst_wdPath (C : Codec) (p : Path) : Path.isInst (wdPath C p) = Path.isInst p := by
  cases p <;> rfl

theorem classLevel_pairs (all : List CObj) (l : List (Path × Cls)) (f : Path × Cls → CObj)
    (hf : ∀ x ∈ l, ∃ c h n k, f x = .pair (.cls c h n) k) :
    classLevelObjects all (l.map f) = .ok (.list all) := by
  induction l with
  | nil => rfl
  | cons a r ih =>
    obtain ⟨c, h, n, k, e⟩ := hf a (by simp)
    simp only [List.map_cons, e, classLevelObjects]
    exact ih (fun x hx => hf x (by simp [hx]))

/-- what `ExecQuery` makes of a returned instance without path: a path of class name and namespace -/
def queryInst (ns : Str) : Inst → CObj
  | .mk c _ pr q => .obj (.inst (.mk c (some (.inst c none (some ns) [])) pr q))

theorem mapM_fixQuery (C : Codec) (ns : Str) (l : List Inst) :
    (l.map (fun i => CObj.obj (.inst (wdInstNoPath C i)))).mapM (fixQueryInst ns) =
      .ok (l.map (fun i => queryInst ns (wdInstNoPath C i))) := by
  induction l with
  | nil => rfl
  | cons a r ih =>
    obtain ⟨c, p, pr, q⟩ := a
    simp [List.mapM_cons, wdInstNoPath, fixQueryInst, queryInst, ih, pure, Except.pure, bind, Except.bind]

end Proofs.OpsC01
