/-
C19 — the recorder protocol: which records an operation produces (one test case per enabled TestClientRecorder).
-/
import Pywbem.Model.Observer
import Proofs.Lemmas.ObserverOp

namespace Proofs.Lemmas.ObserverProto
open Pywbem.Proto Pywbem.Model.Utf8 Pywbem.Model.ToYaml Pywbem.Model.Observer
open Proofs.Lemmas.Utf8 Proofs.Lemmas.ToYaml Proofs.Lemmas.Observer Proofs.Lemmas.ObserverOp

def isTc : Event → Bool
  | .testcase _ => true
  | .log _ _ _ => false

def tcCount (evs : List Event) : Nat := (evs.filter isTc).length

/-- an enabled TestClientRecorder -/
def tcrOn : Recorder → Bool
  | .tcr t => t.enabled
  | .log _ => false

def nTcrOn (rs : List Recorder) : Nat := (rs.filter tcrOn).length

theorem tcCount_append (a b : List Event) : tcCount (a ++ b) = tcCount a + tcCount b := by
  simp [tcCount, List.filter_append]

theorem tcCount_nil : tcCount [] = 0 := rfl

/-- the loop over the recorders when the staged call cannot raise: invariants kept, the class/enabled flag of every
    recorder kept, the number of test cases emitted is the sum over the recorders -/
theorem forRecs_count (f : Recorder → StageRes) (P Q : Recorder → Prop) (k : Recorder → Nat)
    (h : ∀ r, P r → (f r).2.2 = none ∧ Q (f r).1 ∧ tcrOn (f r).1 = tcrOn r ∧ tcCount (f r).2.1 = k r) :
    ∀ rs : List Recorder, (∀ r ∈ rs, P r) →
      (forRecs f rs).2.2 = none ∧ (∀ r ∈ (forRecs f rs).1, Q r) ∧
      (forRecs f rs).1.map tcrOn = rs.map tcrOn ∧ tcCount (forRecs f rs).2.1 = (rs.map k).sum := by
  intro rs
  induction rs with
  | nil => intro _; simp [forRecs, tcCount]
  | cons r rs ih =>
    intro hp
    have hr := h r (hp r (by simp))
    have ih' := ih (fun x hx => hp x (by simp [hx]))
    simp only [forRecs]
    rcases hf : f r with ⟨r', ev, e⟩
    rw [hf] at hr
    simp only at hr
    obtain ⟨he, hq, ht, hk⟩ := hr
    subst he
    simp only
    rcases hrs : forRecs f rs with ⟨rs', ev', e'⟩
    rw [hrs] at ih'
    simp only at ih' ⊢
    obtain ⟨i1, i2, i3, i4⟩ := ih'
    refine ⟨i1, ?_, by simp [ht, i3], by simp [tcCount_append, hk, i4]⟩
    intro x hx
    simp only [List.mem_cons] at hx
    rcases hx with rfl | hx
    · exact hq
    · exact i2 x hx

theorem nTcrOn_eq_of_map (a b : List Recorder) (h : a.map tcrOn = b.map tcrOn) : nTcrOn a = nTcrOn b := by
  induction a generalizing b with
  | nil => cases b with
    | nil => rfl
    | cons _ _ => simp at h
  | cons x xs ih =>
    cases b with
    | nil => simp at h
    | cons y ys =>
      simp only [List.map_cons, List.cons.injEq] at h
      have := ih ys h.2
      simp only [nTcrOn, List.filter_cons, h.1] at this ⊢
      split <;> simp [this]

theorem sum_indicator (rs : List Recorder) : (rs.map (fun r => if tcrOn r then 1 else 0)).sum = nTcrOn rs := by
  induction rs with
  | nil => rfl
  | cons r rs ih =>
    simp only [List.map_cons, List.sum_cons, nTcrOn, List.filter_cons]
    simp only [nTcrOn] at ih
    split <;> simp [ih] <;> omega

theorem sum_zero (rs : List Recorder) : (rs.map (fun _ => 0)).sum = 0 := by
  induction rs with
  | nil => rfl
  | cons r rs ih => simp [ih]

/-! ### per-stage facts: nothing but log records before the finally clause; exactly one test case per enabled
    TestClientRecorder in it -/

theorem resetOne_proto (pull : Bool) (r : Recorder) :
    (resetOne pull r).2.2 = none ∧ RecOk (resetOne pull r).1 ∧ tcrOn (resetOne pull r).1 = tcrOn r ∧
    tcCount (resetOne pull r).2.1 = 0 := by
  obtain ⟨a, b⟩ := resetOne_ok pull r
  refine ⟨a, b, ?_, ?_⟩
  · cases r <;> simp [resetOne, tcrOn, TcrRec.reset]
  · cases r <;> simp [resetOne, tcCount]

theorem stageArgsOne_proto (m : Str) (kw : List Kwarg) (hk : argsRecordable kw = true) (r : Recorder) (h : RecOk r) :
    (stageArgsOne m kw r).2.2 = none ∧ RecOk (stageArgsOne m kw r).1 ∧ tcrOn (stageArgsOne m kw r).1 = tcrOn r ∧
    tcCount (stageArgsOne m kw r).2.1 = 0 := by
  obtain ⟨a, b⟩ := stageArgsOne_ok m kw hk r h
  refine ⟨a, b, ?_, ?_⟩
  · cases r <;> simp [stageArgsOne, tcrOn]
  · cases r with
    | tcr t => simp [stageArgsOne, tcCount]
    | log l =>
      simp only [stageArgsOne, LogRec.stageArgs]
      split <;> simp [tcCount, isTc]

theorem stageHttpRequest_noTc (l : LogRec) (hs : List Hdr) (p : Bytes) (ev : List Event)
    (h : l.stageHttpRequest hs p = .ok ev) : tcCount ev = 0 := by
  simp only [LogRec.stageHttpRequest] at h
  split at h
  · cases hm : maskHeaders hs with
    | error e => simp [hm, bind, Except.bind] at h
    | ok hs' =>
      simp only [hm, bind, Except.bind] at h
      split at h
      · simp only [pure, Except.pure] at h
        split at h <;> (simp only [Except.ok.injEq] at h; subst h; simp [tcCount, isTc])
      · split at h
        · simp only [pure, Except.pure] at h
          split at h <;> (simp only [Except.ok.injEq] at h; subst h; simp [tcCount, isTc])
        · simp [throw, throwThe, MonadExceptOf.throw] at h
  · simp only [pure, Except.pure, Except.ok.injEq] at h; subst h; rfl

theorem stageRequestOne_proto (hs : List Hdr) (target : Str) (body : Bytes) (hn : noAuth hs)
    (hb : (decodeStrict body).isSome = true) (r : Recorder) (h : RecOk r) :
    (stageRequestOne hs target body r).2.2 = none ∧ RecOk (stageRequestOne hs target body r).1 ∧
    tcrOn (stageRequestOne hs target body r).1 = tcrOn r ∧ tcCount (stageRequestOne hs target body r).2.1 = 0 := by
  obtain ⟨a, b⟩ := stageRequestOne_ok hs target body hn hb r h
  refine ⟨a, b, ?_, ?_⟩
  · cases r with
    | tcr t => simp [stageRequestOne, tcrOn]
    | log l =>
      simp only [stageRequestOne]
      split <;> simp [tcrOn]
  · cases r with
    | tcr t => simp [stageRequestOne, tcCount]
    | log l =>
      simp only [stageRequestOne]
      cases hq : l.stageHttpRequest hs body with
      | error e => simp [tcCount]
      | ok ev => simpa using stageHttpRequest_noTc l hs body ev hq

theorem stageResponse1One_proto (resp : HttpResp) (r : Recorder) (h : RecOk r) :
    (stageResponse1One resp r).2.2 = none ∧ RecOk (stageResponse1One resp r).1 ∧
    tcrOn (stageResponse1One resp r).1 = tcrOn r ∧ tcCount (stageResponse1One resp r).2.1 = 0 := by
  obtain ⟨a, b⟩ := stageResponse1One_ok resp r h
  refine ⟨a, b, ?_, ?_⟩ <;> cases r <;> simp [stageResponse1One, tcrOn, tcCount, LogRec.stageHttpResponse1]

theorem stageHttpResponse2_noTc (l : LogRec) (b : Bytes) (ev : List Event)
    (h : l.stageHttpResponse2 .fixed (some b) = .ok ev) : tcCount ev = 0 := by
  obtain ⟨up, hup⟩ := respPayloadText_total l b
  simp only [LogRec.stageHttpResponse2, hup, bind, Except.bind, pure, Except.pure] at h
  split at h
  · simp only [Except.ok.injEq] at h; subst h; rfl
  · split at h <;> (simp only [Except.ok.injEq] at h; subst h; simp [tcCount, isTc])

theorem stageResponse2One_proto (body : Bytes) (r : Recorder) (h : RecOk r) :
    (stageResponse2One .fixed body r).2.2 = none ∧ RecOk (stageResponse2One .fixed body r).1 ∧
    tcrOn (stageResponse2One .fixed body r).1 = tcrOn r ∧ tcCount (stageResponse2One .fixed body r).2.1 = 0 := by
  obtain ⟨a, b⟩ := stageResponse2One_ok body r h
  refine ⟨a, b, ?_, ?_⟩
  · cases r with
    | tcr t => simp [stageResponse2One, tcrOn]
    | log l =>
      simp only [stageResponse2One]
      cases l.stageHttpResponse2 .fixed (some body) <;> simp [Pywbem.Model.Observer.ofExcept, tcrOn]
  · cases r with
    | tcr t => simp [stageResponse2One, tcCount]
    | log l =>
      simp only [stageResponse2One]
      cases hq : l.stageHttpResponse2 .fixed (some body) with
      | error e => simp [Pywbem.Model.Observer.ofExcept, tcCount]
      | ok ev => simpa [Pywbem.Model.Observer.ofExcept] using stageHttpResponse2_noTc l body ev hq

theorem stageResult_noTc (l : LogRec) (ret : RetView) (exc : Option Raised) (ev : List Event)
    (h : l.stageResult ret exc = .ok ev) : tcCount ev = 0 := by
  simp only [LogRec.stageResult] at h
  split at h
  · cases exc with
    | some e =>
      simp only [bind, Except.bind] at h
      generalize formatResult _ _ _ = fr at h
      cases fr with
      | error x => simp at h
      | ok t => simp only [pure, Except.pure, Except.ok.injEq] at h; subst h; rfl
    | none =>
      cases ret with
      | pull t c e q d v =>
        simp only [bind, Except.bind] at h
        generalize formatResult _ _ _ = fr at h
        cases fr with
        | error x => simp at h
        | ok t => simp only [pure, Except.pure, Except.ok.injEq] at h; subst h; rfl
      | plain v q =>
        cases v with
        | list items ascii =>
          simp only [bind, Except.bind] at h
          generalize formatResult _ _ _ = fr at h
          cases fr with
          | error x => simp at h
          | ok t => simp only [pure, Except.pure, Except.ok.injEq] at h; subst h; rfl
        | single a b c d =>
          simp only [bind, Except.bind] at h
          generalize formatResult _ _ _ = fr at h
          cases fr with
          | error x => simp at h
          | ok t => simp only [pure, Except.pure, Except.ok.injEq] at h; subst h; rfl
  · simp only [pure, Except.pure, Except.ok.injEq] at h; subst h; rfl

/-- TestClientRecorder.record, when it returns, has written exactly one test case -/
theorem record_one (v : Variant) (t : TcrRec) (ev : List Event) (h : t.record v = .ok ev) : tcCount ev = 1 := by
  simp only [TcrRec.record, bind, Except.bind] at h
  cases h1 : toyamlArgs t.args with
  | error e => simp [h1] at h
  | ok a =>
    simp only [h1] at h
    cases h2 : retPart t.pullOp t.ret with
    | error e => simp [h2] at h
    | ok kv =>
      simp only [h2] at h
      cases h3 : reqDataPart t.reqPayload with
      | error e => simp [h3] at h
      | ok rq =>
        simp only [h3] at h
        cases h4 : respDataPart v t.respPayload with
        | error e => simp [h4] at h
        | ok rs =>
          simp only [h4] at h
          cases h5 : dump (.seq [assemble t a.1 a.2 kv rq rs]) with
          | error e => simp [h5] at h
          | ok u =>
            simp only [h5, pure, Except.pure, Except.ok.injEq] at h
            subst h
            rfl

theorem stageResultOne_proto (ret : Option RetInfo) (exc : Option Raised) (hr : retOk ret) (r : Recorder)
    (h : RecOk r) :
    (stageResultOne .fixed ret exc r).2.2 = none ∧ True ∧
    tcrOn (stageResultOne .fixed ret exc r).1 = tcrOn r ∧
    tcCount (stageResultOne .fixed ret exc r).2.1 = (if tcrOn r then 1 else 0) := by
  obtain ⟨a, _⟩ := stageResultOne_ok ret exc hr r h
  refine ⟨a, trivial, ?_, ?_⟩
  · cases r with
    | log l =>
      simp only [stageResultOne]
      cases l.stageResult ((ret.map (·.view)).getD noneView) exc <;> simp [Pywbem.Model.Observer.ofExcept, tcrOn]
    | tcr t =>
      simp only [stageResultOne]
      split
      · cases TcrRec.record .fixed { t with ret := ret.map (·.val), exc := exc } <;>
          simp [Pywbem.Model.Observer.ofExcept, tcrOn]
      · simp [tcrOn]
  · cases r with
    | log l =>
      simp only [stageResultOne, tcrOn]
      cases hq : l.stageResult ((ret.map (·.view)).getD noneView) exc with
      | error e => simp [Pywbem.Model.Observer.ofExcept, tcCount]
      | ok ev => simpa [Pywbem.Model.Observer.ofExcept] using stageResult_noTc l _ exc ev hq
    | tcr t =>
      simp only [stageResultOne, tcrOn] at a ⊢
      by_cases hen : t.enabled = true
      · simp only [hen, if_true] at a ⊢
        generalize hq : TcrRec.record .fixed _ = rr at a ⊢
        cases rr with
        | error e => simp [Pywbem.Model.Observer.ofExcept] at a
        | ok ev => simpa [Pywbem.Model.Observer.ofExcept] using record_one .fixed _ ev hq
      · simp only [Bool.not_eq_true] at hen
        simp [hen, tcCount]

/-! ### composition -/

theorem wbemRequest_proto (recs : List Recorder) (creds : Creds) (b64 : Str → Str) (core : Core) (req : Req)
    (listener : Bool) (hrec : ∀ r ∈ recs, RecOk r) :
    tcCount (wbemRequest .fixed recs creds b64 core req listener).events = 0 ∧
    (wbemRequest .fixed recs creds b64 core req listener).recorders.map tcrOn = recs.map tcrOn := by
  have hn := noAuth_headers req
  have hb := body_decodable req.data
  generalize hbody : xmlDecl ++ encode req.data = body at hb
  generalize htarget : (if listener then ([] : Str) else "/cimom".toList) = target
  have h1 := forRecs_count (stageRequestOne req.headers target body) RecOk RecOk (fun _ => 0)
    (fun r hr => stageRequestOne_proto req.headers target body hn hb r hr) recs hrec
  rcases hf1 : forRecs (stageRequestOne req.headers target body) recs with ⟨recs1, ev1, e1⟩
  rw [hf1] at h1
  simp only at h1
  obtain ⟨he1, hq1, hm1, hc1⟩ := h1
  rw [sum_zero] at hc1
  subst he1
  simp only [wbemRequest, hbody, htarget, hf1]
  cases core.send body (req.headers ++ if listener = true then [] else authHeader b64 creds) with
  | raised e => exact ⟨hc1, hm1⟩
  | response resp =>
    have h2 := forRecs_count (stageResponse1One resp) RecOk RecOk (fun _ => 0)
      (fun r hr => stageResponse1One_proto resp r hr) recs1 hq1
    rcases hf2 : forRecs (stageResponse1One resp) recs1 with ⟨recs2, ev2, e2⟩
    rw [hf2] at h2
    simp only at h2
    obtain ⟨he2, hq2, hm2, hc2⟩ := h2
    rw [sum_zero] at hc2
    subst he2
    simp only [hf2]
    by_cases hst : resp.status = 200
    · simp only [hst, ne_eq, not_true_eq_false, if_false]
      cases core.badContentType resp with
      | some e => simp only []; exact ⟨by rw [tcCount_append, hc1, hc2], hm2.trans hm1⟩
      | none =>
        have h3 := forRecs_count (stageResponse2One .fixed resp.body) RecOk RecOk (fun _ => 0)
          (fun r hr => stageResponse2One_proto resp.body r hr) recs2 hq2
        rcases hf3 : forRecs (stageResponse2One .fixed resp.body) recs2 with ⟨recs3, ev3, e3⟩
        rw [hf3] at h3
        simp only at h3
        obtain ⟨he3, _, hm3, hc3⟩ := h3
        rw [sum_zero] at hc3
        subst he3
        simp only []
        exact ⟨by rw [tcCount_append, tcCount_append, hc1, hc2, hc3], (hm3.trans hm2).trans hm1⟩
    · simp only [ne_eq, hst, not_false_eq_true, if_true]
      exact ⟨by rw [tcCount_append, hc1, hc2], hm2.trans hm1⟩

theorem tryBody_proto (c : Conn) (b64 : Str → Str) (core : Core) (listener : Bool)
    (hrec : ∀ r ∈ c.recorders, RecOk r) :
    tcCount (tryBody .fixed c b64 core listener).events = 0 ∧
    (tryBody .fixed c b64 core listener).conn.recorders.map tcrOn = c.recorders.map tcrOn := by
  cases hp : core.prep with
  | error e => simp only [tryBody, hp]; exact ⟨rfl, by first | rfl | trivial⟩
  | ok req =>
    obtain ⟨h1, h2⟩ := wbemRequest_proto c.recorders c.info.creds b64 core req listener hrec
    simp only [tryBody, hp]
    cases (wbemRequest .fixed c.recorders c.info.creds b64 core req listener).result with
    | error e => exact ⟨h1, h2⟩
    | ok p =>
      obtain ⟨reply, srv⟩ := p
      simp only []
      cases core.parse reply <;> exact ⟨h1, h2⟩

theorem prologue_proto (c : Conn) (call : Call) (hk : kwCollision call = false)
    (ha : argsRecordable call.kwargs = true) :
    tcCount (prologue c call).2.1 = 0 ∧ (prologue c call).1.map tcrOn = c.recorders.map tcrOn := by
  simp only [prologue]
  by_cases he : c.recorders.isEmpty = true
  · simp only [he, if_true]; exact ⟨rfl, by first | rfl | trivial⟩
  · simp only [he, hk, Bool.false_eq_true, if_false]
    have h0 := forRecs_count (resetOne call.pull) (fun _ => True) RecOk (fun _ => 0)
      (fun r _ => resetOne_proto call.pull r) c.recorders (fun _ _ => trivial)
    have h1 := forRecs_count (stageArgsOne call.method call.kwargs) RecOk RecOk (fun _ => 0)
      (fun r hr => stageArgsOne_proto call.method call.kwargs ha r hr) _ h0.2.1
    rw [sum_zero] at h1
    exact ⟨h1.2.2.2, h1.2.2.1.trans h0.2.2.1⟩

/-- a finished operation (arguments/result recordable): every enabled TestClientRecorder of the connection has written
    exactly one test case, nobody else any -/
theorem runOp_testcases (c : Conn) (b64 : Str → Str) (call : Call) (core : Core) (hs : Sane call core)
    (hsrv : srvOk c.lastSrvTime) :
    tcCount (runOp .fixed c b64 call core).events = nTcrOn c.recorders := by
  have hp := prologue_ok c call hs.noKw hs.argsOk
  have hpp := prologue_proto c call hs.noKw hs.argsOk
  rcases hpro : prologue c call with ⟨recs1, ev1, e1⟩
  rw [hpro] at hp hpp
  simp only at hp hpp
  obtain ⟨he1, hrec1, hlen1⟩ := hp
  obtain ⟨hc1, hm1⟩ := hpp
  subst he1
  rw [runOp_unfold_ok .fixed c b64 call core recs1 ev1 hpro]
  have ht := tryBody_spec { c with recorders := recs1, stats := c.stats.startTimer call.method } b64 core call
    call.listener hs hrec1
  obtain ⟨hout, hstats, hrecb, hlenb, hsrvb, _⟩ := ht
  obtain ⟨hcb, hmb⟩ := tryBody_proto { c with recorders := recs1, stats := c.stats.startTimer call.method } b64 core
    call.listener hrec1
  generalize tryBody .fixed { c with recorders := recs1, stats := c.stats.startTimer call.method } b64 core
    call.listener = b at *
  have hstarted : b.conn.stats.enabled = true → (b.conn.stats.get call.method).started = true := by
    rw [hstats]
    intro hen
    simp only at hen ⊢
    rw [startTimer_enabled] at hen
    exact (startTimer_started c.stats call.method hen).1
  have hret : retOk (retOf call b.outcome) := by
    rw [hout]
    intro r hr
    simp only [coreOutcome] at hr
    cases hprep : core.prep with
    | error e => simp [hprep, retOf] at hr
    | ok req =>
      simp only [hprep] at hr
      cases hw : (wbemRequest .fixed [] c.info.creds b64 core req call.listener).result with
      | error e => simp [hw, retOf] at hr
      | ok p =>
        simp only [hw] at hr
        cases hpar : core.parse p.1 with
        | error e => simp [hpar, retOf] at hr
        | ok ri =>
          simp only [hpar, retOf] at hr
          split at hr
          · simp only [Option.some.injEq] at hr
            subst hr
            exact hs.retOk p.1 ri hpar
          · simp at hr
  obtain ⟨st, hstop, _⟩ := stopTimer_ok b.conn.stats call.method b.conn.lastRequestLen b.conn.lastReplyLen
    b.conn.lastSrvTime (failedOf b.outcome) hstarted (hsrvb hsrv)
  have hmap : b.conn.recorders.map tcrOn = c.recorders.map tcrOn := (hmb.trans hm1)
  have hn : nTcrOn b.conn.recorders = nTcrOn c.recorders := nTcrOn_eq_of_map _ _ hmap
  simp only [finallyPart, hstop]
  by_cases hemp : b.conn.recorders.isEmpty = true
  · have hnil := isEmpty_eq_nil _ hemp
    simp only [hemp, if_true]
    rw [tcCount_append, hc1, hcb, ← hn, hnil]
    rfl
  · simp only [hemp, Bool.false_eq_true, if_false]
    have h3 := forRecs_count (stageResultOne .fixed (retOf call b.outcome) (excOf b.outcome)) RecOk (fun _ => True)
      (fun r => if tcrOn r then 1 else 0) (fun r hr => stageResultOne_proto _ _ hret r hr) b.conn.recorders hrecb
    rcases hf : forRecs (stageResultOne .fixed (retOf call b.outcome) (excOf b.outcome)) b.conn.recorders with
      ⟨recs3, ev3, e3⟩
    rw [hf] at h3
    simp only at h3
    obtain ⟨he3, _, _, hc3⟩ := h3
    subst he3
    simp only []
    rw [tcCount_append, tcCount_append, hc1, hcb, hc3, sum_indicator, hn]
    omega

end Proofs.Lemmas.ObserverProto
