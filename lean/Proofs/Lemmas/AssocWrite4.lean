/-
C13: the executable checks of `Model/AssocWrite.lean` decide the discipline and the request conditions.
-/
import Proofs.Lemmas.AssocWrite3

namespace C13
open Pywbem.Proto Pywbem.Model.Assoc

theorem createOkB_iff {r : Repo} {ns : Name} {a : Inst} : createOkB r ns a = true ↔ CreateOk r ns a := by
  simp [createOkB, CreateOk, List.all_eq_true]

theorem modifyOkB_iff {sv : Server} {ns : Name} {p : Path} {chg : List IProp} :
    modifyOkB sv ns p chg = true ↔ ModifyOk sv ns p chg := by
  unfold modifyOkB ModifyOk
  cases hS : findNs sv.repo ns with
  | none => simp
  | some S =>
    cases hf : findInst S.insts (srcPath ns p) with
    | none => simp [hf]
    | some orig => simp [hf, merged]

theorem disciplineB_iff {r : Repo} : disciplineB r = true ↔ WInv r := by
  constructor
  · intro h
    simp only [disciplineB, Bool.and_eq_true, List.all_eq_true, Bool.or_eq_true, 
      beq_iff_eq, List.any_eq_true, Bool.and_eq_true, List.isEmpty_iff, Option.isNone_iff_eq_none,
      Bool.not_eq_eq_eq_not, Bool.not_true] at h
    obtain ⟨⟨⟨⟨⟨⟨h1, h2⟩, h3⟩, h4⟩, h5⟩, h6⟩, h7⟩ := h
    constructor
    · intro S hS T hT hn
      rcases h1 S hS T hT with h | h
      · rw [hn] at h; cases h
      · exact h
    · intro S hS a ha
      have := h2 S hS a ha
      refine ⟨this.1, ?_⟩
      cases hn : a.path.ns with
      | none => simp [hn] at this
      | some m => exact ⟨m, rfl, by simpa [hn] using this.2⟩
    · intro S hS a ha b hb hpk
      rcases h3 S hS a ha b hb with h | h
      · rw [hpk] at h; cases h
      · exact h
    · intro S hS a ha; exact h4 S hS a ha
    · intro S hS T hT a ha b hb hpk hr he
      rcases h5 S hS T hT a ha b hb with h | h
      · simp [hpk, hr, he] at h
      · exact h
    · intro S hS a ha n hn
      obtain ⟨T, hT, hTn, a', ha', hpk⟩ := h6 S hS a ha n hn
      exact ⟨T, hT, hTn, a', ha', hpk⟩
    · intro S hS T hT a ha b hb hpk hr
      rcases h7 S hS T hT a ha b hb with h | h
      · simp [hpk, hr] at h
      · exact h
  · intro h
    simp only [disciplineB, Bool.and_eq_true, List.all_eq_true, Bool.or_eq_true, 
      beq_iff_eq, List.any_eq_true, Bool.and_eq_true, List.isEmpty_iff, Option.isNone_iff_eq_none,
      Bool.not_eq_eq_eq_not, Bool.not_true]
    refine ⟨⟨⟨⟨⟨⟨?_, ?_⟩, ?_⟩, ?_⟩, ?_⟩, ?_⟩, ?_⟩
    · intro S hS T hT
      cases hn : ieq S.name T.name with
      | false => exact Or.inl rfl
      | true => exact Or.inr (h.uniq S hS T hT hn)
    · intro S hS a ha
      obtain ⟨hh, m, hm, hmS⟩ := h.keyed S hS a ha
      exact ⟨hh, by simp [hm, hmS]⟩
    · intro S hS a ha b hb
      cases hpk : pkEq a.path b.path with
      | false => exact Or.inl rfl
      | true => exact Or.inr (h.nodup S hS a ha b hb hpk)
    · intro S hS a ha; exact h.loc S hS a ha
    · intro S hS T hT a ha b hb
      cases hpk : pkEq a.path b.path with
      | false => left; simp
      | true =>
        by_cases he : endNss a = []
        · cases hr : hasRef a with
          | false => left; simp
          | true => exact Or.inr (h.conf S hS T hT a ha b hb hpk hr he)
        · left; simp [he]
    · intro S hS a ha n hn
      obtain ⟨T, hT, hTn, a', ha', hpk⟩ := h.shadow S hS a ha n hn
      exact ⟨T, hT, hTn, a', ha', hpk⟩
    · intro S hS T hT a ha b hb
      cases hpk : pkEq a.path b.path with
      | false => left; simp
      | true =>
        cases hr : hasRef a with
        | false => left; simp
        | true => exact Or.inr (h.coh S hS T hT a ha b hb hpk hr)

theorem histOkB_iff : ∀ (ops : List WOp) (sv : Server), histOkB sv ops = true ↔ HistOk sv ops
  | [], _ => by simp [histOkB, HistOk]
  | op :: ops, sv => by
    simp only [histOkB, HistOk, Bool.and_eq_true, histOkB_iff ops]
    cases op with
    | create ns a => simp [reqOkB, createOkB_iff]
    | modify ns p chg => simp [reqOkB, modifyOkB_iff]
    | delete ns p => simp [reqOkB]
    | deleteClass ns cn => simp [reqOkB]

/-! ### DeleteClass -/

theorem deleteAll_preserves : ∀ (ps : List Path) {sv sv' : Server} {ns : Name}, WInv sv.repo →
    deleteAll sv ns ps = .ok sv' → WInv sv'.repo
  | [], sv, sv', ns, hinv, h => by simp [deleteAll] at h; subst h; exact hinv
  | p :: ps, sv, sv', ns, hinv, h => by
    simp only [deleteAll] at h
    cases hd : deleteAssoc sv ns p with
    | error e => simp [hd] at h
    | ok sv1 =>
      simp only [hd] at h
      exact deleteAll_preserves ps (delete_preserves hinv hd) h

/-- removing classes does not touch the instance stores -/
theorem removeClasses_preserves {r : Repo} (hinv : WInv r) (ns : Name) (names : List Name) :
    WInv (removeClasses r ns names) := by
  have hmem : ∀ S', S' ∈ removeClasses r ns names → ∃ S ∈ r, S'.name = S.name ∧ S'.insts = S.insts ∧
      (S' = if ieq S.name ns then { S with classes := S.classes.filter (fun c => !names.any (fun n => ieq n c.name)) } else S) := by
    intro S' hS'
    obtain ⟨S, hS, rfl⟩ := List.mem_map.mp hS'
    refine ⟨S, hS, ?_, ?_, rfl⟩ <;> by_cases hc : ieq S.name ns = true <;> simp [hc]
  constructor
  · intro S' hS' T' hT' hn
    obtain ⟨S, hS, hSn, _, hSe⟩ := hmem S' hS'
    obtain ⟨T, hT, hTn, _, hTe⟩ := hmem T' hT'
    have : S = T := hinv.uniq S hS T hT (by rw [← hSn, ← hTn]; exact hn)
    subst this
    rw [hSe, hTe]
  · intro S' hS' a ha
    obtain ⟨S, hS, hSn, hSi, _⟩ := hmem S' hS'
    rw [hSn]; exact hinv.keyed S hS a (hSi ▸ ha)
  · intro S' hS' a ha b hb
    obtain ⟨S, hS, _, hSi, _⟩ := hmem S' hS'
    exact hinv.nodup S hS a (hSi ▸ ha) b (hSi ▸ hb)
  · intro S' hS' a ha
    obtain ⟨S, hS, hSn, hSi, _⟩ := hmem S' hS'
    rw [hSn]; exact hinv.loc S hS a (hSi ▸ ha)
  · intro S' hS' T' hT' a ha b hb hpk hr he
    obtain ⟨S, hS, _, hSi, hSe⟩ := hmem S' hS'
    obtain ⟨T, hT, _, hTi, hTe⟩ := hmem T' hT'
    have : S = T := hinv.conf S hS T hT a (hSi ▸ ha) b (hTi ▸ hb) hpk hr he
    subst this
    rw [hSe, hTe]
  · intro S' hS' a ha n hn
    obtain ⟨S, hS, _, hSi, _⟩ := hmem S' hS'
    obtain ⟨T, hT, hTn, a', ha', hpk⟩ := hinv.shadow S hS a (hSi ▸ ha) n hn
    refine ⟨_, List.mem_map.mpr ⟨T, hT, rfl⟩, ?_, a', ?_, hpk⟩
    · by_cases hc : ieq T.name ns = true <;> simp [hc, hTn]
    · by_cases hc : ieq T.name ns = true <;> simp [hc, ha']
  · intro S' hS' T' hT' a ha b hb
    obtain ⟨S, hS, _, hSi, _⟩ := hmem S' hS'
    obtain ⟨T, hT, _, hTi, _⟩ := hmem T' hT'
    exact hinv.coh S hS T hT a (hSi ▸ ha) b (hTi ▸ hb)

/-- DeleteClass of an association class keeps the discipline (no condition on the request) -/
theorem deleteClass_preserves {sv sv' : Server} {ns cn : Name} (hinv : WInv sv.repo)
    (h : deleteClassAssoc sv ns cn = .ok sv') : WInv sv'.repo := by
  unfold deleteClassAssoc at h
  cases hS : findNs sv.repo ns with
  | none => simp [hS] at h
  | some S =>
    simp only [hS] at h
    split at h
    · cases h
    · split at h
      · cases h
      · rename_i sv1 hd
        cases h
        exact removeClasses_preserves (deleteAll_preserves _ hinv hd) _ _

/-- every stored reference end can be fetched: no host, an existing namespace, an existing instance
    (what CreateInstance / ModifyInstance check for the ends they store; DeleteInstance of a referenced
    instance breaks it: finding C13-KF1) -/
def EndsExist (sv : Server) : Prop :=
  ∀ S ∈ sv.repo, ∀ a ∈ S.insts, ∀ v ∈ ends a, endOk sv v = true

theorem fetchEnd_of_endOk {sv : Server} {v : Path} (h : endOk sv v = true) : ∃ i, fetchEnd sv v = .ok i := by
  unfold endOk at h
  unfold fetchEnd endStore
  cases hn : v.ns with
  | none => simp [hn] at h
  | some n =>
    simp only [hn] at h ⊢
    cases hT : findNs sv.repo n with
    | none => simp [hT] at h
    | some T =>
      simp only [hT] at h ⊢
      unfold getInstance
      cases hf : findInst T.insts v with
      | none => simp [hf] at h
      | some i => exact ⟨_, rfl⟩

theorem findNs_mapInsts (r : Repo) (F : NsStore → List Inst) (n : Name) :
    findNs (mapInsts r F) n = (findNs r n).map (fun S => { S with insts := F S }) := by
  unfold findNs mapInsts
  rw [List.find?_map]
  rfl

theorem findInst_isSome_iff {is : List Inst} {v : Path} :
    (findInst is v).isSome = true ↔ ∃ i ∈ is, i.path.eqv v = true := by
  unfold findInst
  rw [List.find?_isSome]

/-- an end stays fetchable when the instance it names is kept by a store-by-store transformation -/
theorem endOk_mapInsts {sv : Server} {F : NsStore → List Inst} {v : Path}
    (hkeep : ∀ T ∈ sv.repo, ∀ i ∈ T.insts, i.path.eqv v = true → ∃ i' ∈ F T, i'.path.eqv v = true)
    (h : endOk sv v = true) : endOk { sv with repo := mapInsts sv.repo F } v = true := by
  unfold endOk at h ⊢
  cases hh : v.host with
  | some _ => simp [hh] at h
  | none =>
    simp only [hh, Option.isNone_none, Bool.true_and] at h ⊢
    cases hn : v.ns with
    | none => simp [hn] at h
    | some n =>
      simp only [hn] at h ⊢
      rw [findNs_mapInsts]
      cases hT : findNs sv.repo n with
      | none => simp [hT] at h
      | some T =>
        simp only [hT] at h
        simp only [Option.map_some]
        obtain ⟨i, hi, he⟩ := findInst_isSome_iff.mp h
        exact findInst_isSome_iff.mpr (hkeep T (findNs_mem hT).1 i hi he)

theorem createAssoc_ends_ok {sv sv' : Server} {ns : Name} {a : Inst} (h : createAssoc sv ns a = .ok sv') :
    ∀ v ∈ ends a, endOk sv v = true := by
  unfold createAssoc at h
  cases hS : findNs sv.repo ns with
  | none => simp [hS] at h
  | some S =>
    simp only [hS] at h
    split at h
    · cases h
    · split at h
      · cases h
      · rename_i hhost
        split at h
        · cases h
        · rename_i hends
          intro v hv
          have h1 : v.host.isSome = false := by
            cases hc : v.host.isSome with
            | false => rfl
            | true => exfalso; apply hhost; simp only [List.any_eq_true]; exact ⟨v, hv, hc⟩
          unfold endOk
          cases hn : v.ns with
          | none => exfalso; apply hends; simp only [List.any_eq_true]; exact ⟨v, hv, by simp [hn]⟩
          | some n =>
            cases hT : findNs sv.repo n with
            | none => exfalso; apply hends; simp only [List.any_eq_true]; exact ⟨v, hv, by simp [hn, hT]⟩
            | some T =>
              cases hf : (findInst T.insts v).isSome with
              | false => exfalso; apply hends; simp only [List.any_eq_true]
                         exact ⟨v, hv, by simp [hn, hT]; simpa using hf⟩
              | true =>
                have : v.host.isNone = true := by cases hh : v.host <;> simp_all
                simp only [this, hT, hf, Bool.and_self]

theorem endOk_congr_repo {sv1 sv2 : Server} (h : sv1.repo = sv2.repo) (v : Path) : endOk sv1 v = endOk sv2 v := by
  unfold endOk; rw [h]


end C13
