/-
Helper lemmas for the LR driver of Model/MofParse.lean: what the decidable well-formedness check of a table means,
the stack invariant (the state stack is a path of the automaton starting in state 0), and the totality of the driver.
-/
import Pywbem.Model.MofParse

set_option linter.unusedSimpArgs false

namespace Pywbem.Model.MofParse
open Pywbem.Proto Pywbem.Generated Pywbem.Model.MofCompile
open Pywbem.Model.MofLex (Str)

/-! ### small list facts -/

theorem lookupRow_mem {β} (row : List (Nat × β)) (k : Nat) (v : β) (h : lookupRow row k = some v) : (k, v) ∈ row := by
  unfold lookupRow at h
  cases hf : row.find? (fun e => e.1 == k) with
  | none => simp [hf] at h
  | some e =>
    simp [hf] at h
    have hm := List.mem_of_find?_eq_some hf
    have hk := List.find?_some hf
    simp at hk
    subst h
    have : e = (k, e.2) := by cases e; simp at hk ⊢; exact hk
    rw [← this]; exact hm

theorem mem_addNew (x y : Nat) (l : List Nat) : y ∈ addNew x l ↔ y = x ∨ y ∈ l := by
  unfold addNew
  split
  · next h =>
    simp at h
    constructor
    · intro hy; exact Or.inr hy
    · rintro (rfl | hy)
      · exact h
      · exact hy
  · simp

theorem mem_unionNew (a b : List Nat) (y : Nat) : y ∈ unionNew a b ↔ y ∈ a ∨ y ∈ b := by
  unfold unionNew
  induction a with
  | nil => simp
  | cons x xs ih =>
    simp only [List.foldr_cons, mem_addNew, ih, List.mem_cons]
    constructor
    · rintro (h | h | h)
      · exact Or.inl (Or.inl h)
      · exact Or.inl (Or.inr h)
      · exact Or.inr h
    · rintro ((h | h) | h)
      · exact Or.inl h
      · exact Or.inr (Or.inl h)
      · exact Or.inr (Or.inr h)

theorem mem_predN_succ (t : LRTable) (n s y : Nat) :
    y ∈ t.predN (n + 1) s ↔ ∃ x ∈ t.predN n s, y ∈ t.pred x := by
  simp only [LRTable.predN]
  generalize t.predN n s = l
  induction l with
  | nil => simp
  | cons x xs ih =>
    simp only [List.foldr_cons, mem_unionNew, ih, List.mem_cons]
    constructor
    · rintro (h | ⟨z, hz, hy⟩)
      · exact ⟨x, Or.inl rfl, h⟩
      · exact ⟨z, Or.inr hz, hy⟩
    · rintro ⟨z, (rfl | hz), hy⟩
      · exact Or.inl hy
      · exact Or.inr ⟨z, hz, hy⟩

theorem mem_reduceProds (t : LRTable) (s : Nat) (e : Nat × Int) (he : e ∈ t.actionRows.getD s []) (hneg : e.2 < 0) :
    (-e.2).toNat ∈ t.reduceProds s := by
  unfold LRTable.reduceProds
  generalize t.actionRows.getD s [] = row at he
  induction row with
  | nil => cases he
  | cons x xs ih =>
    simp only [List.foldr_cons]
    rcases List.mem_cons.mp he with h | h
    · subst h; simp [hneg, mem_addNew]
    · split
      · rw [mem_addNew]; exact Or.inr (ih h)
      · exact ih h

theorem allBelow_spec (n : Nat) (p : Nat → Bool) (h : allBelow n p = true) (i : Nat) (hi : i < n) : p i = true := by
  unfold allBelow at h
  rw [List.all_eq_true] at h
  exact h i (List.mem_range.mpr hi)

theorem le_foldl_max (l : List Nat) : ∀ (init : Nat), init ≤ l.foldl max init ∧ ∀ x ∈ l, x ≤ l.foldl max init := by
  induction l with
  | nil => intro init; simp
  | cons y ys ih =>
    intro init
    simp only [List.foldl_cons]
    have := ih (max init y)
    refine ⟨by omega, ?_⟩
    intro x hx
    rcases List.mem_cons.mp hx with h | h
    · subst h; omega
    · exact this.2 x h

theorem rankOf_le_maxRank (t : LRTable) (s : Nat) : t.rankOf s ≤ t.maxRank := by
  unfold LRTable.rankOf LRTable.maxRank
  rw [← Array.foldl_toList]
  have := le_foldl_max t.rank.toList 0
  by_cases hs : s < t.rank.size
  · have hm : t.rank.getD s 0 ∈ t.rank.toList := by
      simp [Array.getD, hs]
    exact this.2 _ hm
  · simp [Array.getD, hs]

/-! ### what `wf` gives -/

/-- the facts the driver proof needs, as propositions -/
structure WF (t : LRTable) : Prop where
  shift : ∀ s a (v : Int), t.action s a = some v → v > 0 → s ∈ t.pred v.toNat ∧ a ≠ endTok
  accept : ∀ s a, t.action s a = some 0 → a = endTok
  goto : ∀ s nt s', t.goto s nt = some s' → s ∈ t.pred s'
  reduce : ∀ s la (v : Int), t.decide s la = some v → v < 0 →
    (∀ j, j < t.prodLen (-v).toNat → 0 ∉ t.predN j s) ∧
    ∀ b ∈ t.predN (t.prodLen (-v).toNat) s, ∃ s', t.goto b (t.prodLhs (-v).toNat) = some s' ∧ t.rankOf s' < t.rankOf s
  defaultedNeg : ∀ s (v : Int), t.defaulted s = some v → v < 0

theorem defaulted_spec (t : LRTable) (s : Nat) (v : Int) (h : t.defaulted s = some v) :
    v < 0 ∧ ∃ a, (a, v) ∈ t.actionRows.getD s [] := by
  unfold LRTable.defaulted at h
  split at h
  · next e heq =>
    split at h
    · next hneg => injection h with h; subst h; exact ⟨hneg, e.1, by rw [heq]; simp⟩
    · cases h
  · cases h

theorem decide_mem (t : LRTable) (s la : Nat) (v : Int) (h : t.decide s la = some v) :
    ∃ a, (a, v) ∈ t.actionRows.getD s [] := by
  unfold LRTable.decide at h
  split at h
  · next r hr => injection h with h; subst h; exact (defaulted_spec t s r hr).2
  · exact ⟨la, lookupRow_mem _ _ _ h⟩

theorem decide_nonneg_action (t : LRTable) (s la : Nat) (v : Int) (h : t.decide s la = some v) (hv : 0 ≤ v) :
    t.action s la = some v := by
  unfold LRTable.decide at h
  split at h
  · next r hr => injection h with h; subst h; have := (defaulted_spec t s r hr).1; omega
  · exact h

theorem wf_sound (t : LRTable) (h : t.wf = true) : WF t := by
  unfold LRTable.wf at h
  simp only [Bool.and_eq_true, beq_iff_eq] at h
  obtain ⟨⟨⟨hsz1, hsz2⟩, hsz3⟩, hall⟩ := h
  have row : ∀ s, s < t.actionRows.size → _ := fun s hs => allBelow_spec _ _ hall s hs
  have rowAct : ∀ s (e : Nat × Int), e ∈ t.actionRows.getD s [] → s < t.actionRows.size := by
    intro s e he
    by_cases hs : s < t.actionRows.size
    · exact hs
    · simp [Array.getD, hs] at he
  refine ⟨?_, ?_, ?_, ?_, fun s v hv => (defaulted_spec t s v hv).1⟩
  · intro s a v hact hv
    have hm := lookupRow_mem _ _ _ hact
    have hr := row s (rowAct s _ hm)
    simp only [Bool.and_eq_true, List.all_eq_true] at hr
    have := hr.1.1 (a, v) hm
    simp only [hv, if_true, Bool.and_eq_true, List.contains_iff_mem, decide_eq_true_eq, bne_iff_ne, ne_eq] at this
    exact ⟨by simpa using this.1.2, this.2⟩
  · intro s a hact
    have hm := lookupRow_mem _ _ _ hact
    have hr := row s (rowAct s _ hm)
    simp only [Bool.and_eq_true, List.all_eq_true] at hr
    have := hr.1.1 (a, 0) hm
    simpa using this
  · intro s nt s' hg
    have hm := lookupRow_mem _ _ _ hg
    have hs : s < t.actionRows.size := by
      by_cases hs : s < t.gotoRows.size
      · rw [hsz1] at hs; exact hs
      · unfold LRTable.goto at hg; simp [Array.getD, hs, lookupRow] at hg
    have hr := row s hs
    simp only [Bool.and_eq_true, List.all_eq_true] at hr
    have := hr.1.2 (nt, s') hm
    simp only [Bool.and_eq_true, List.contains_iff_mem, decide_eq_true_eq] at this
    simpa using this.2
  · intro s la v hdec hv
    obtain ⟨a, hm⟩ := decide_mem t s la v hdec
    have hr := row s (rowAct s _ hm)
    simp only [Bool.and_eq_true, List.all_eq_true] at hr
    have hp := hr.2 _ (mem_reduceProds t s (a, v) hm hv)
    simp only [Bool.and_eq_true, List.all_eq_true] at hp
    refine ⟨?_, ?_⟩
    · intro j hj
      have := allBelow_spec _ _ hp.1 j hj
      simpa using this
    · intro b hb
      have := hp.2 b hb
      split at this
      · next s' hg => exact ⟨s', hg, by simpa using this⟩
      · cases this

/-! ### the stack is a path of the automaton -/

/-- the state stack (top first): consecutive states are connected by a transition, the bottom is state 0 -/
def Path (t : LRTable) : List Nat → Prop
  | [] => False
  | [s] => s = 0
  | s :: b :: rest => b ∈ t.pred s ∧ Path t (b :: rest)

theorem Path.tail {t : LRTable} {s b : Nat} {rest : List Nat} (h : Path t (s :: b :: rest)) : Path t (b :: rest) := h.2

theorem Path.drop {t : LRTable} : ∀ (n : Nat) (st : List Nat) (b : Nat) (rest : List Nat), Path t st →
    st.drop n = b :: rest → Path t (b :: rest) := by
  intro n
  induction n with
  | zero => intro st b rest hp hd; simpa [hd] using (show Path t (st.drop 0) by simpa using hp)
  | succ n ih =>
    intro st b rest hp hd
    cases st with
    | nil => simp at hd
    | cons x xs =>
      cases xs with
      | nil => simp at hd
      | cons y ys => exact ih (y :: ys) b rest hp.2 (by simpa using hd)

/-- the state `n` below the top is `n` transitions back from the top -/
theorem Path.predN {t : LRTable} : ∀ (n : Nat) (s : Nat) (below : List Nat) (b : Nat) (rest : List Nat),
    Path t (s :: below) → (s :: below).drop n = b :: rest → b ∈ t.predN n s := by
  intro n
  induction n with
  | zero => intro s below b rest _ hd; simp at hd; simp [LRTable.predN, hd.1]
  | succ n ih =>
    intro s below b rest hp hd
    -- the element above b
    have hlen : n < (s :: below).length := by
      have : ((s :: below).drop (n + 1)).length = (s :: below).length - (n + 1) := List.length_drop
      rw [hd] at this; simp at this ⊢; omega
    have hdn : (s :: below).drop n = (s :: below)[n] :: (s :: below).drop (n + 1) := List.drop_eq_getElem_cons hlen
    rw [hd] at hdn
    have hc := ih s below _ _ hp hdn
    have hp2 := Path.drop n (s :: below) _ _ hp hdn
    exact (mem_predN_succ t n s b).mpr ⟨_, hc, hp2.1⟩

/-- the bottom of the stack is state 0, `length - 1` transitions back from the top -/
theorem Path.bottom {t : LRTable} : ∀ (st : List Nat) (s : Nat) (below : List Nat), st = s :: below → Path t st →
    0 ∈ t.predN below.length s := by
  intro st s below hst hp
  subst hst
  have hlt : below.length < (s :: below).length := by simp
  have hlast : (s :: below).drop below.length = [(s :: below)[below.length]] := by
    rw [List.drop_eq_getElem_cons hlt]
    simp
  have hp2 := Path.drop below.length (s :: below) _ _ hp hlast
  have h0 : (s :: below)[below.length] = 0 := hp2
  rw [h0] at hlast
  exact Path.predN below.length s below 0 [] hp hlast

/-! ### totality of the driver -/

/-- what the parse of the tokens `rest` after `k` shifted tokens may answer -/
inductive Outcome (t : LRTable) (rest : List Nat) (k : Nat) : LRResult → Prop where
  | accept : Outcome t rest k (.accept (k + rest.length))
  | error (j s : Nat) : j ≤ rest.length → t.decide s ((rest.drop j).headD endTok) = none →
      Outcome t rest k (.errorAt (k + j) s)

theorem Outcome.shift {t : LRTable} {x : Nat} {rest : List Nat} {k : Nat} {r : LRResult}
    (h : Outcome t rest (k + 1) r) : Outcome t (x :: rest) k r := by
  cases h with
  | accept =>
    have : k + 1 + rest.length = k + (x :: rest).length := by simp; omega
    rw [this]; exact Outcome.accept
  | error j s hj hd =>
    have : k + 1 + j = k + (j + 1) := by omega
    rw [this]
    exact Outcome.error (j + 1) s (by simp; omega) (by simpa using hd)

theorem lrRun_total (t : LRTable) (hwf : WF t) : ∀ (fuel : Nat) (stack rest : List Nat) (k : Nat) (s : Nat)
    (below : List Nat), stack = s :: below → Path t stack → (∀ x ∈ rest, x ≠ endTok) →
    rest.length * (t.maxRank + 1) + t.rankOf s < fuel → Outcome t rest k (lrRun t fuel stack rest k) := by
  intro fuel
  induction fuel with
  | zero => intro stack rest k s below _ _ _ hf; omega
  | succ fuel ih =>
    intro stack rest k s below hst hp hne hf
    subst hst
    simp only [lrRun]
    cases hdec : t.decide s (rest.headD endTok) with
    | none =>
      simp only []
      have := Outcome.error (t := t) (rest := rest) (k := k) 0 s (by omega) (by simpa using hdec)
      simpa using this
    | some a =>
      simp only []
      by_cases hpos : a > 0
      · simp only [hpos, if_true]
        have hact := decide_nonneg_action t s _ a hdec (by omega)
        have hsh := hwf.shift s _ a hact hpos
        cases rest with
        | nil => simp at hsh
        | cons x rest' =>
          simp only []
          apply Outcome.shift
          apply ih _ rest' (k + 1) a.toNat (s :: below) rfl ⟨hsh.1, hp⟩ (fun y hy => hne y (List.mem_cons_of_mem _ hy))
          have hr := rankOf_le_maxRank t a.toNat
          have hm : (rest'.length + 1) * (t.maxRank + 1) = rest'.length * (t.maxRank + 1) + (t.maxRank + 1) := by
            rw [Nat.add_mul, Nat.one_mul]
          simp only [List.length_cons] at hf
          omega
      · by_cases hneg : a < 0
        · have hn0 : ¬ a > 0 := hpos
          simp only [hn0, if_false, hneg, if_true]
          have hred := hwf.reduce s _ a hdec hneg
          cases hd : (s :: below).drop (t.prodLen (-a).toNat) with
          | nil =>
            -- the stack is too shallow: excluded by the well-formedness of the table
            exfalso
            have hlen : (s :: below).length ≤ t.prodLen (-a).toNat := by
              have := List.drop_eq_nil_iff.mp hd; exact this
            have hb := Path.bottom (s :: below) s below rfl hp
            exact hred.1 below.length (by simp at hlen; omega) hb
          | cons b below' =>
            simp only []
            have hbn := Path.predN _ s below b below' hp hd
            obtain ⟨s', hg, hrk⟩ := hred.2 b hbn
            simp only [hg]
            have hp' : Path t (s' :: b :: below') := ⟨hwf.goto b _ s' hg, Path.drop _ _ _ _ hp hd⟩
            exact ih _ rest k s' (b :: below') rfl hp' hne (by omega)
        · have ha0 : a = 0 := by omega
          subst ha0
          simp only [show ¬ ((0 : Int) > 0) by omega, show ¬ ((0 : Int) < 0) by omega, if_false]
          have hact := decide_nonneg_action t s _ 0 hdec (by omega)
          have hend := hwf.accept s _ hact
          have hnil : rest = [] := by
            cases rest with
            | nil => rfl
            | cons x xs => simp at hend; exact absurd hend (hne x (List.mem_cons_self))
          subst hnil
          have := Outcome.accept (t := t) (rest := ([] : List Nat)) (k := k)
          simpa using this

/-- parser.parse on any token list (without `$end` inside): accept after all tokens, or an error at a definite token
    for which the state reached has no action — never a fault of the engine, never out of fuel -/
theorem lrParse_total (t : LRTable) (hwf : t.wf = true) (tokens : List Nat) (hne : ∀ x ∈ tokens, x ≠ endTok) :
    Outcome t tokens 0 (lrParse t tokens) := by
  unfold lrParse
  apply lrRun_total t (wf_sound t hwf) _ [0] tokens 0 0 [] rfl (by simp [Path]) hne
  unfold LRTable.fuelFor
  have hr := rankOf_le_maxRank t 0
  have hm : (tokens.length + 1) * (t.maxRank + 1) = tokens.length * (t.maxRank + 1) + (t.maxRank + 1) := by
    rw [Nat.add_mul, Nat.one_mul]
  omega

/-! ### more fuel changes nothing -/

theorem lrRun_mono (t : LRTable) : ∀ (f : Nat) (stack rest : List Nat) (k : Nat),
    lrRun t f stack rest k ≠ .outOfFuel → lrRun t (f + 1) stack rest k = lrRun t f stack rest k := by
  intro f
  induction f with
  | zero => intro stack rest k h; simp [lrRun] at h
  | succ f ih =>
    intro stack rest k h
    rw [lrRun.eq_def] at h ⊢
    conv => rhs; rw [lrRun.eq_def]
    cases stack with
    | nil => rfl
    | cons s below =>
      simp only [] at h ⊢
      cases hd : t.decide s (rest.headD endTok) with
      | none => rfl
      | some a =>
        simp only [hd] at h ⊢
        by_cases hpos : a > 0
        · simp only [hpos, if_true] at h ⊢
          cases rest with
          | nil => rfl
          | cons x rest' => simp only [] at h ⊢; exact ih _ _ _ h
        · by_cases hneg : a < 0
          · simp only [hpos, hneg, if_true, if_false] at h ⊢
            cases hdr : (s :: below).drop (t.prodLen (-a).toNat) with
            | nil => rfl
            | cons b below' =>
              simp only [hdr] at h ⊢
              cases hg : t.goto b (t.prodLhs (-a).toNat) with
              | none => rfl
              | some s' => simp only [hg] at h ⊢; exact ih _ _ _ h
          · simp only [hpos, hneg, if_false]

theorem lrRun_mono' (t : LRTable) (f : Nat) (stack rest : List Nat) (k : Nat)
    (h : lrRun t f stack rest k ≠ .outOfFuel) : ∀ g, f ≤ g → lrRun t g stack rest k = lrRun t f stack rest k := by
  intro g hg
  induction g with
  | zero => have : f = 0 := by omega
            subst this; rfl
  | succ g ih =>
    by_cases hfg : f = g + 1
    · subst hfg; rfl
    · have := ih (by omega)
      rw [lrRun_mono t g stack rest k (by rw [this]; exact h), this]

theorem Outcome.ne_fault {t : LRTable} {rest : List Nat} {k : Nat} {r : LRResult} (h : Outcome t rest k r) :
    r ≠ .outOfFuel ∧ ∀ a b, r ≠ .stuck a b := by
  cases h with
  | accept => exact ⟨(fun e => by cases e), (fun a b e => by cases e)⟩
  | error j s _ _ => exact ⟨(fun e => by cases e), (fun a b e => by cases e)⟩

/-! ### tokens of the lexer as terminals -/

theorem terminals_head : mofTerminals.head? = some "$end" := by decide

theorem terminalId_eq_zero (name : String) (h : terminalId name = endTok) : name = "$end" := by
  unfold terminalId endTok at h
  have hh := terminals_head
  cases hl : mofTerminals with
  | nil => rw [hl] at hh; cases hh
  | cons x xs =>
    rw [hl] at hh h
    simp at hh; subst hh
    rw [List.findIdx?_cons] at h
    split at h
    · next hx => have hx' := hx; simp at hx'; exact hx'.symm
    · cases hf : xs.findIdx? (fun x => x == name) with
      | none => simp [hf] at h
      | some i => simp [hf] at h

theorem reserved_no_end : mofReserved.all (fun kv => kv.2 != "$end") = true := by decide

theorem tokenType_ne_end (src : Str) (t : Tok) : tokenType src t ≠ "$end" := by
  unfold tokenType
  cases t.kind <;> simp only [] <;> try (intro e; exact absurd e (by decide))
  · -- ident
    unfold identType
    split
    · next kv hf =>
      have hm := List.mem_of_find?_eq_some hf
      have := List.all_eq_true.mp reserved_no_end kv hm
      simpa using this
    · decide
  · -- literal
    intro e
    have := congrArg String.length e
    simp at this
    exact absurd this (by decide)

theorem tokenIds_ne_end (src : Str) (ts : List Tok) :
    ∀ x ∈ ts.map (fun t => terminalId (tokenType src t)), x ≠ endTok := by
  intro x hx
  obtain ⟨t, _, rfl⟩ := List.mem_map.mp hx
  intro e
  exact tokenType_ne_end src t (terminalId_eq_zero _ e)


/-! ### the run up to a token is a function of the tokens up to it -/

/-- one iteration of the parse loop, as a function of the stack, the look-ahead, and whether a token is left -/
inductive Step where
  | done (r : LRResult)
  | shift (stack : List Nat)
  | reduce (stack : List Nat)

def lrStep (t : LRTable) (stack : List Nat) (la : Nat) (k : Nat) (noToken : Bool) : Step :=
  match stack with
  | [] => .done (.stuck k 0)
  | s :: below =>
    match t.decide s la with
    | none => .done (.errorAt k s)
    | some a =>
      if a > 0 then (if noToken then .done (.stuck k s) else .shift (a.toNat :: s :: below))
      else if a < 0 then
        match (s :: below).drop (t.prodLen (-a).toNat) with
        | [] => .done (.stuck k s)
        | b :: below' =>
          match t.goto b (t.prodLhs (-a).toNat) with
          | none => .done (.stuck k s)
          | some s' => .reduce (s' :: b :: below')
      else .done (.accept k)

theorem lrRun_succ (t : LRTable) (f : Nat) (stack rest : List Nat) (k : Nat) :
    lrRun t (f + 1) stack rest k =
      match lrStep t stack (rest.headD endTok) k rest.isEmpty with
      | .done r => r
      | .shift st' => lrRun t f st' rest.tail (k + 1)
      | .reduce st' => lrRun t f st' rest k := by
  cases stack with
  | nil => simp [lrRun, lrStep]
  | cons s below =>
    simp only [lrRun, lrStep]
    cases t.decide s (rest.headD endTok) with
    | none => rfl
    | some a =>
      simp only []
      by_cases hp : a > 0
      · simp only [hp, if_true]
        cases rest <;> simp
      · by_cases hn : a < 0
        · simp only [hp, hn, if_true, if_false]
          cases (s :: below).drop (t.prodLen (-a).toNat) with
          | nil => rfl
          | cons b below' =>
            simp only []
            cases t.goto b (t.prodLhs (-a).toNat) <;> rfl
        · simp only [hp, hn, if_false]

theorem lrStep_done_error (t : LRTable) (stack : List Nat) (la k : Nat) (b : Bool) (idx s : Nat)
    (h : lrStep t stack la k b = .done (.errorAt idx s)) : idx = k := by
  unfold lrStep at h
  split at h
  · cases h
  · split at h
    · injection h with h; injection h with h1 h2; exact h1.symm
    · split at h
      · split at h <;> cases h
      · split at h
        · split at h
          · cases h
          · split at h <;> cases h
        · cases h

/-- an error is reported at an index that is at least the number of tokens already shifted -/
theorem lrRun_error_ge (t : LRTable) : ∀ (f : Nat) (stack rest : List Nat) (k idx s : Nat),
    lrRun t f stack rest k = .errorAt idx s → k ≤ idx := by
  intro f
  induction f with
  | zero => intro stack rest k idx s h; simp [lrRun] at h
  | succ f ih =>
    intro stack rest k idx s h
    rw [lrRun_succ] at h
    cases hs : lrStep t stack (rest.headD endTok) k rest.isEmpty with
    | done r => rw [hs] at h; simp only [] at h; subst h; have := lrStep_done_error _ _ _ _ _ _ _ hs; omega
    | shift st' => rw [hs] at h; have := ih _ _ _ _ _ h; omega
    | reduce st' => rw [hs] at h; exact ih _ _ _ _ _ h

/-- lrRun_append: an error at one of the tokens of `r` is reported with and without further tokens behind `r`: the
    run up to that token is a function of the tokens up to it -/
theorem lrRun_append (t : LRTable) : ∀ (f : Nat) (stack r extra : List Nat) (k j s : Nat), j < r.length →
    (lrRun t f stack r k = .errorAt (k + j) s ↔ lrRun t f stack (r ++ extra) k = .errorAt (k + j) s) := by
  intro f
  induction f with
  | zero => intro stack r extra k j s _; simp [lrRun]
  | succ f ih =>
    intro stack r extra k j s hj
    cases r with
    | nil => simp at hj
    | cons x r' =>
      rw [lrRun_succ, lrRun_succ]
      have h1 : (x :: r').headD endTok = x := rfl
      have h2 : (x :: r' ++ extra).headD endTok = x := rfl
      have h3 : (x :: r').isEmpty = false := rfl
      have h4 : (x :: r' ++ extra).isEmpty = false := rfl
      rw [h1, h2, h3, h4]
      cases hs : lrStep t stack x k false with
      | done res => simp only []
      | shift st' =>
        simp only [List.tail_cons, List.cons_append]
        cases j with
        | zero =>
          constructor
          · intro h; have := lrRun_error_ge t _ _ _ _ _ _ h; omega
          · intro h; have := lrRun_error_ge t _ _ _ _ _ _ h; omega
        | succ j' =>
          have e : k + (j' + 1) = (k + 1) + j' := by omega
          rw [e]
          exact ih st' r' extra (k + 1) j' s (by simp at hj; omega)
      | reduce st' =>
        simp only []
        exact ih st' (x :: r') extra k j s hj

theorem fuelFor_mono (t : LRTable) (n m : Nat) (h : n ≤ m) : t.fuelFor n ≤ t.fuelFor m := by
  unfold LRTable.fuelFor
  have : (n + 1) * (t.maxRank + 1) ≤ (m + 1) * (t.maxRank + 1) := Nat.mul_le_mul_right (t.maxRank + 1) (by omega)
  omega

/-- the viable-prefix property for a well-formed table: whether the parse reports its error at token `t` (index
    |ts1|) is decided by the tokens up to and including `t` — whatever follows -/
theorem lrParse_error_prefix (t : LRTable) (hwf : t.wf = true) (ts1 : List Nat) (x : Nat) (rest : List Nat)
    (hne : ∀ y ∈ ts1 ++ x :: rest, y ≠ endTok) (s : Nat) :
    lrParse t (ts1 ++ x :: rest) = .errorAt ts1.length s ↔ lrParse t (ts1 ++ [x]) = .errorAt ts1.length s := by
  have hne' : ∀ y ∈ ts1 ++ [x], y ≠ endTok := by
    intro y hy
    apply hne y
    simp only [List.mem_append, List.mem_cons, List.mem_singleton, List.not_mem_nil, or_false] at hy ⊢
    rcases hy with h | h
    · exact Or.inl h
    · exact Or.inr (Or.inl h)
  have hshort := lrParse_total t hwf (ts1 ++ [x]) hne'
  have hlen : (ts1 ++ [x]).length ≤ (ts1 ++ x :: rest).length := by simp
  have hfuel := fuelFor_mono t _ _ hlen
  have e1 : lrParse t (ts1 ++ [x]) = lrRun t (t.fuelFor (ts1 ++ x :: rest).length) [0] (ts1 ++ [x]) 0 :=
    (lrRun_mono' t _ [0] (ts1 ++ [x]) 0 hshort.ne_fault.1 _ hfuel).symm
  have happ := lrRun_append t (t.fuelFor (ts1 ++ x :: rest).length) [0] (ts1 ++ [x]) rest 0 ts1.length s (by simp)
  have e2 : (ts1 ++ [x]) ++ rest = ts1 ++ x :: rest := by simp
  rw [e2] at happ
  simp only [Nat.zero_add] at happ
  rw [e1]
  unfold lrParse
  exact happ.symm

end Pywbem.Model.MofParse
