/-
C03 — `tocimxml(value)` of plain CIM data values; decimal digits are XML characters (so every CIM status code can be
written into a listener response).
-/
import Proofs.Lemmas.DtdUri

set_option linter.unusedSimpArgs false
set_option linter.unusedVariables false

namespace Proofs.DtdReq
open Pywbem.Model Pywbem.Model.Dtd Pywbem.Model.XmlText Pywbem.Model.Sendable Proofs.Dtd Proofs.DtdEnc
open Pywbem.Model.Req Pywbem.Proto
open Pywbem.Generated

theorem digitChar_ok : ∀ (k : Nat), isXmlChar (Nat.digitChar k) = true
  | 0 | 1 | 2 | 3 | 4 | 5 | 6 | 7 | 8 | 9 | 10 | 11 | 12 | 13 | 14 | 15 => by decide
  | n + 16 => by
    have : Nat.digitChar (n + 16) = '*' := by simp [Nat.digitChar]
    rw [this]; decide

theorem toDigitsCore_ok : ∀ (fuel n : Nat) (ds : List Char), (∀ c ∈ ds, isXmlChar c = true) →
    ∀ c ∈ Nat.toDigitsCore 10 fuel n ds, isXmlChar c = true
  | 0, n, ds, h => by simpa [Nat.toDigitsCore] using h
  | fuel + 1, n, ds, h => by
    simp only [Nat.toDigitsCore]
    have hd : ∀ c ∈ Nat.digitChar (n % 10) :: ds, isXmlChar c = true := by
      intro c hc
      rcases List.mem_cons.mp hc with rfl | hc
      · exact digitChar_ok _
      · exact h c hc
    split
    · exact hd
    · exact toDigitsCore_ok fuel (n / 10) _ hd

/-- Python `str(n)` of a natural number consists of XML characters -/
theorem natToStr_ok (n : Nat) : strOk (natToStr n) = true := by
  simp only [strOk, natToStr, Nat.toDigits, List.all_eq_true]
  exact toDigitsCore_ok (n + 1) n [] (by simp)

theorem intToStr_ok (i : Int) : strOk (intToStr i) = true := by
  unfold intToStr
  split
  · have := natToStr_ok i.natAbs
    simp only [strOk, List.all_cons, Bool.and_eq_true] at this ⊢
    exact ⟨by decide, this⟩
  · exact natToStr_ok _

theorem valueItemXml_ok (C : Codec) {a : Atom} {x : Xml} (h : valueItemXml C a = .ok x) :
    structNode D x = true ∧ charsOk x = true ∧ ∃ as ks n, x = .elem n as ks ∧ n ∈ valueNames := by
  have hv : ∀ s y, checked (valueElem s) = .ok y →
      structNode D y = true ∧ charsOk y = true ∧ ∃ as ks n, y = .elem n as ks ∧ n ∈ valueNames := by
    intro s y hy
    obtain ⟨rfl, hc⟩ := checked_ok hy
    exact ⟨struct_valueElem s, hc, _, _, _, by simp only [valueElem, E]; rfl, by simp [valueNames]⟩
  cases a with
  | null =>
    simp only [valueItemXml] at h; cases h
    have hn : sendValueNull = true := by rfl
    refine ⟨by unfold nullItem; exact struct_nullItem, by simp [nullItem, hn, E, charsOk, charsOkList, attrsCharsOk], ?_⟩
    unfold nullItem; simp only [hn, if_true]
    exact ⟨_, _, _, by simp only [E]; rfl, by simp [valueNames]⟩
  | ref p => simp [valueItemXml] at h
  | einst i => simp [valueItemXml] at h
  | ecls c => simp [valueItemXml] at h
  | str s => simp only [valueItemXml] at h; exact hv _ x h
  | char16 s => simp only [valueItemXml] at h; exact hv _ x h
  | bool b => simp only [valueItemXml] at h; exact hv _ x h
  | int t v => simp only [valueItemXml] at h; exact hv _ x h
  | real w b => simp only [valueItemXml] at h; exact hv _ x h
  | dt s => simp only [valueItemXml] at h; exact hv _ x h
  | pyint v => simp only [valueItemXml] at h; exact hv _ x h
  | pyfloat b => simp only [valueItemXml] at h; exact hv _ x h

theorem valueItemsXml_ok (C : Codec) : ∀ {l : List Atom} {xs : List Xml}, valueItemsXml C l = .ok xs →
    structNodes D xs = true ∧ charsOkList xs = true ∧ allElems xs = true ∧ ∀ n ∈ kidNames xs, n ∈ valueNames
  | [], xs, h => by simp only [valueItemsXml] at h; cases h; simp [structNodes, charsOkList, allElems, kidNames]
  | a :: l, xs, h => by
    simp only [valueItemsXml] at h
    obtain ⟨x, hx, h⟩ := bind_ok h
    obtain ⟨xs', hxs, h⟩ := bind_ok h
    cases h
    obtain ⟨h1, h2, h3, h4⟩ := valueItemsXml_ok C hxs
    obtain ⟨hs, hc, as, ks, n, rfl, hn⟩ := valueItemXml_ok C hx
    rw [structNodes_cons, hs, h1]
    refine ⟨rfl, by simp only [charsOkList, hc, h2, Bool.and_self], by simpa [allElems] using h3, ?_⟩
    intro m hm
    simp only [kidNames, List.mem_cons] at hm
    rcases hm with rfl | hm
    · exact hn
    · exact h4 m hm

/-- the value given to `tocimxml()` has a CIM-XML representation: object names, instances and classes satisfy their
    constructor invariants -/
def valShape : Val → Bool
  | .scalar (.ref p) => shapePath p
  | .scalar (.einst i) => shapeInst i
  | .scalar (.ecls c) => shapeCls c
  | _ => true

theorem tocimxmlValue_valid (C : Codec) (v : Val) (x : Xml) (hs : valShape v = true)
    (h : tocimxmlValue C v = .ok x) : validTree D x = true := by
  have fin : ∀ y, structNode D y = true → charsOk y = true → y.isElem = true → validTree D y = true := by
    intro y a b c; simp [validTree, a, b, c]
  have hv : ∀ s y, checked (valueElem s) = .ok y → validTree D y = true := by
    intro s y hy
    obtain ⟨rfl, hc⟩ := checked_ok hy
    exact fin _ (struct_valueElem s) hc rfl
  cases v with
  | null => simp [tocimxmlValue] at h
  | array l =>
    simp only [tocimxmlValue] at h
    obtain ⟨xs, hxs, h⟩ := bind_ok h
    cases h
    obtain ⟨h1, h2, h3, h4⟩ := valueItemsXml_ok C hxs
    apply fin _ _ _ rfl
    · exact struct_elem dtdDecl_VALUE_ARRAY (by rfl) (by decide) (content_children h3 (lang_star_valueNames _ h4)) h1
    · simp only [E, charsOk, attrsCharsOk, Bool.true_and]; exact h2
  | scalar a =>
    cases a with
    | null => simp [tocimxmlValue] at h
    | ref p =>
      simp only [tocimxmlValue] at h
      obtain ⟨rfl, hc⟩ := checked_ok h
      obtain ⟨_, _, _, he, _⟩ := encPath_name C p
      exact fin _ (struct_encPath C p hs) hc (by rw [he]; rfl)
    | einst i =>
      simp only [tocimxmlValue, instXml] at h
      split at h
      · cases h
      obtain ⟨rfl, hc⟩ := checked_ok h
      exact fin _ (struct_encInst C i hs) hc (encObj_isElem C (.inst i))
    | ecls c =>
      simp only [tocimxmlValue, clsXml] at h
      split at h
      · cases h
      obtain ⟨rfl, hc⟩ := checked_ok h
      exact fin _ (struct_encCls C c hs) hc (encObj_isElem C (.cls c))
    | str s => simp only [tocimxmlValue] at h; exact hv _ x h
    | char16 s => simp only [tocimxmlValue] at h; exact hv _ x h
    | bool b => simp only [tocimxmlValue] at h; exact hv _ x h
    | int t v => simp only [tocimxmlValue] at h; exact hv _ x h
    | real w b => simp only [tocimxmlValue] at h; exact hv _ x h
    | dt s => simp only [tocimxmlValue] at h; exact hv _ x h
    | pyint v => simp only [tocimxmlValue] at h; exact hv _ x h
    | pyfloat b => simp only [tocimxmlValue] at h; exact hv _ x h

end Proofs.DtdReq
