/-
Helper lemmas for C20, part 3: index-level spec (`claims`) vs the value-level reading; exceptions of the spec.
-/
import Proofs.Lemmas.ValueMap2

namespace Proofs.ValueMap
open Pywbem.Proto Pywbem.Model.IntLit Pywbem.Model.ValueMap Pywbem.Model.ValueMap.Spec Proofs.IntLit

theorem lastIdx_lt {α} (p : α → Bool) (l : List α) (i : Nat) (h : lastIdx p l = some i) : i < l.length := by
  induction l generalizing i with
  | nil => simp [lastIdx] at h
  | cons a r ih =>
    simp only [lastIdx] at h
    cases hr : lastIdx p r with
    | some j => rw [hr] at h; simp at h; subst h; have := ih j hr; simp; omega
    | none => rw [hr] at h; simp at h; simp [← h.2]

theorem firstIdx_lt {α} (p : α → Bool) (l : List α) (i : Nat) (h : firstIdx p l = some i) : i < l.length := by
  induction l generalizing i with
  | nil => simp [firstIdx] at h
  | cons a r ih =>
    simp only [firstIdx] at h
    by_cases hp : p a = true
    · simp [hp] at h; simp [← h]
    · simp [hp] at h
      obtain ⟨j, hj, rfl⟩ := h
      have := ih j hj; simp; omega

theorem lastIdx_sat {α} (p : α → Bool) (l : List α) (i : Nat) (h : lastIdx p l = some i) :
    ∃ a, l[i]? = some a ∧ p a = true := by
  induction l generalizing i with
  | nil => simp [lastIdx] at h
  | cons a r ih =>
    simp only [lastIdx] at h
    cases hr : lastIdx p r with
    | some j => rw [hr] at h; simp at h; subst h; simpa using ih j hr
    | none => rw [hr] at h; simp at h; obtain ⟨hp, rfl⟩ := h; exact ⟨a, by simp, hp⟩

theorem firstIdx_sat {α} (p : α → Bool) (l : List α) (i : Nat) (h : firstIdx p l = some i) :
    ∃ a, l[i]? = some a ∧ p a = true := by
  induction l generalizing i with
  | nil => simp [firstIdx] at h
  | cons a r ih =>
    simp only [firstIdx] at h
    by_cases hp : p a = true
    · simp [hp] at h; subst h; exact ⟨a, by simp, hp⟩
    · simp [hp] at h
      obtain ⟨j, hj, rfl⟩ := h
      simpa using ih j hj

theorem lastIdx_none {α} (p : α → Bool) (l : List α) (h : lastIdx p l = none) : ∀ a ∈ l, p a = false := by
  induction l with
  | nil => simp
  | cons a r ih =>
    simp only [lastIdx] at h
    cases hr : lastIdx p r with
    | some j => rw [hr] at h; simp at h
    | none =>
      rw [hr] at h; simp at h
      intro x hx; simp at hx
      rcases hx with rfl | hx
      · exact h
      · exact ih hr x hx

theorem firstIdx_none {α} (p : α → Bool) (l : List α) (h : firstIdx p l = none) : ∀ a ∈ l, p a = false := by
  induction l with
  | nil => simp
  | cons a r ih =>
    simp only [firstIdx] at h
    by_cases hp : p a = true
    · simp [hp] at h
    · simp [hp] at h
      intro x hx; simp at hx
      rcases hx with rfl | hx
      · simpa using hp
      · exact ih h x hx

theorem lastV_zip (p : Ent → Bool) (l : List Ent) (vals : List Str) (hlen : l.length = vals.length) :
    lastV p (l.zip vals) = (match lastIdx p l with | some i => vals[i]? | none => none) := by
  induction l generalizing vals with
  | nil => simp [lastV, lastIdx]
  | cons a r ih =>
    cases vals with
    | nil => simp at hlen
    | cons s t =>
      simp only [List.zip_cons_cons, lastV, lastIdx]
      rw [ih t (by simpa using hlen)]
      cases hr : lastIdx p r with
      | some j =>
        have := lastIdx_lt p r j hr
        have hj : j < t.length := by simp at hlen; omega
        simp [List.getElem?_eq_getElem hj]
      | none =>
        by_cases hp : p a = true <;> simp [hp]

theorem firstV_zip (p : Ent → Bool) (l : List Ent) (vals : List Str) (hlen : l.length = vals.length) :
    firstV p (l.zip vals) = (match firstIdx p l with | some i => vals[i]? | none => none) := by
  induction l generalizing vals with
  | nil => simp [firstV, firstIdx]
  | cons a r ih =>
    cases vals with
    | nil => simp at hlen
    | cons s t =>
      simp only [List.zip_cons_cons, firstV, firstIdx]
      by_cases hp : p a = true
      · simp [hp]
      · simp only [hp, Bool.false_eq_true, if_false]
        rw [ih t (by simpa using hlen)]
        cases hr : firstIdx p r with
        | some j => simp
        | none => simp

/-- index-level spec = value-level reading, for arrays of equal length -/
theorem specToValues_eq_claimV (ents : List Ent) (values : List Str) (hlen : ents.length = values.length) (v : Int) :
    specToValues ents values v = claimV (ents.zip values) v := by
  unfold specToValues claimV claims
  rw [lastV_zip _ _ _ hlen, firstV_zip _ _ _ hlen, lastV_zip _ _ _ hlen]
  cases h1 : lastIdx (isExact v) ents with
  | some i =>
    have hi : i < values.length := by have := lastIdx_lt _ _ _ h1; omega
    simp [List.getElem?_eq_getElem hi]
  | none =>
    simp only
    cases h2 : firstIdx (isRangeOf v) ents with
    | some i =>
      have hi : i < values.length := by have := firstIdx_lt _ _ _ h2; omega
      simp [List.getElem?_eq_getElem hi]
    | none =>
      simp only
      cases h3 : lastIdx isUnclaimed ents with
      | some i =>
        have hi : i < values.length := by have := lastIdx_lt _ _ _ h3; omega
        simp [List.getElem?_eq_getElem hi]
      | none => simp

theorem specCreate_lengths {e : Elem} {vd : Option Str} {ents : List Ent} {values : List Str}
    (h : specCreate e vd = .ok (ents, values)) :
    ents.length = values.length := by
  unfold specCreate at h
  cases hT : intTypeOf e.typ with
  | none => simp [hT] at h
  | some T =>
    simp only [hT] at h
    cases hv : e.values with
    | none => simp [hv] at h
    | some values0 =>
      simp only [hv] at h
      generalize effMap e.valuemap values0.length = vmap at h
      cases hrec : reconcile values0 vmap vd with
      | error x => simp [hrec] at h
      | ok values' =>
        simp only [hrec] at h
        cases h1 : parseAll vmap with
        | none => simp [h1] at h
        | some raws =>
          simp only [h1] at h
          cases h2 : resolve T raws with
          | none => simp [h2] at h
          | some ents' =>
            simp [h2] at h
            obtain ⟨rfl, rfl⟩ := h
            have l1 := reconcile_length hrec
            have l2 := ((parseAll_some_iff vmap raws).mp h1).1
            have l3 := ((resolveFrom_some_iff T raws raws 0 ents').mp h2).1
            omega

theorem specCreate_error {e : Elem} {vd : Option Str} {x : PyExc} (h : specCreate e vd = .error x) :
    x = .modelError ∨ x = .valueError := by
  unfold specCreate at h
  cases hT : intTypeOf e.typ with
  | none => simp [hT] at h; exact Or.inl h.symm
  | some T =>
    simp only [hT] at h
    cases hv : e.values with
    | none => simp [hv] at h; exact Or.inr h.symm
    | some values0 =>
      simp only [hv] at h
      generalize effMap e.valuemap values0.length = vmap at h
      cases hrec : reconcile values0 vmap vd with
      | error y =>
        simp [hrec] at h; subst h
        unfold reconcile at hrec
        split at hrec
        · cases vd <;> simp at hrec; exact Or.inl hrec.symm
        · split at hrec
          · cases vd <;> simp at hrec; exact Or.inl hrec.symm
          · simp at hrec
      | ok values' =>
        simp only [hrec] at h
        cases h1 : parseAll vmap with
        | none => simp [h1] at h; exact Or.inl h.symm
        | some raws =>
          simp only [h1] at h
          cases h2 : resolve T raws with
          | none => simp [h2] at h; exact Or.inl h.symm
          | some ents' => simp [h2] at h

theorem lastBin_zip (s : Str) (l : List Ent) (vals : List Str) (hlen : l.length = vals.length) :
    lastBin s (l.zip vals) =
      (match lastIdx (fun t => decide (t = s)) vals with
       | some i => (l[i]?).map entBin
       | none => none) := by
  induction l generalizing vals with
  | nil => cases vals <;> simp_all [lastBin, lastIdx]
  | cons a r ih =>
    cases vals with
    | nil => simp at hlen
    | cons t ts =>
      simp only [List.zip_cons_cons, lastBin, lastIdx]
      rw [ih ts (by simpa using hlen)]
      cases hr : lastIdx (fun t => decide (t = s)) ts with
      | some j =>
        have := lastIdx_lt _ ts j hr
        have hj : j < r.length := by simp at hlen; omega
        simp [List.getElem?_eq_getElem hj]
      | none =>
        by_cases hp : t = s <;> simp [hp]

end Proofs.ValueMap
