/-
C10 — lemmas about the client layer (Model/StoreClient.lean): slash stripping, argument validation, lifting of the
one-step simulation and of the documented-errors lemma to public calls, irrelevance of the retrieval options.
-/
import Pywbem.Model.StoreClient
import Proofs.Lemmas.Store

set_option linter.unusedSimpArgs false
set_option linter.unusedVariables false

namespace Proofs.Store
open Pywbem.Proto Pywbem.Model.Store Pywbem.Model.StoreSpec Pywbem.Generated.Store

def isSlash (c : Char) : Bool := c == '/'

theorem dropWhile_idem (p : Char → Bool) (l : List Char) : (l.dropWhile p).dropWhile p = l.dropWhile p := by
  induction l with
  | nil => rfl
  | cons a t ih =>
    by_cases h : p a = true
    · simp [List.dropWhile, h, ih]
    · simp [List.dropWhile, h]

theorem length_dropWhile_le' (p : Char → Bool) (l : List Char) : (l.dropWhile p).length ≤ l.length := by
  induction l with
  | nil => simp
  | cons a t ih =>
    by_cases h : p a = true
    · simp only [List.dropWhile, h, List.length_cons]; omega
    · simp [List.dropWhile, h]

/-- a list that does not start with a slash keeps its head when trailing slashes are removed -/
theorem stripR_head (l : List Char) (h : l.dropWhile isSlash = l) :
    ((l.reverse.dropWhile isSlash).reverse).dropWhile isSlash = (l.reverse.dropWhile isSlash).reverse := by
  cases l with
  | nil => rfl
  | cons a t =>
    have ha : isSlash a = false := by
      cases hs : isSlash a with
      | false => rfl
      | true =>
        simp [List.dropWhile, hs] at h
        have := congrArg List.length h
        have hle := length_dropWhile_le' isSlash t
        simp at this; omega
    -- (a :: t).reverse = t.reverse ++ [a]; dropping slashes from the front of it leaves a list ending with a
    have : ∃ m, (a :: t).reverse.dropWhile isSlash = m ++ [a] := by
      rw [List.reverse_cons]
      generalize t.reverse = u
      induction u with
      | nil => exact ⟨[], by simp [List.dropWhile, ha]⟩
      | cons b u ih =>
        by_cases hb : isSlash b = true
        · simp only [List.cons_append, List.dropWhile, hb]; exact ih
        · exact ⟨b :: u, by simp [List.dropWhile, hb]⟩
    obtain ⟨m, hm⟩ := this
    rw [hm]
    simp [List.dropWhile, ha]

theorem stripSlashes_idem (n : Name) : stripSlashes (stripSlashes n) = stripSlashes n := by
  have e : ∀ l : List Char, stripSlashes l = ((l.dropWhile isSlash).reverse.dropWhile isSlash).reverse := fun _ => rfl
  rw [e (stripSlashes n), e n]
  have h1 := stripR_head (n.dropWhile isSlash) (dropWhile_idem isSlash n)
  rw [h1]
  simp only [List.reverse_reverse, dropWhile_idem]

/-! ### the client layer -/

theorem callToOp_err {c : Call} {e : PyExc} (h : callToOp c = .error e) : e = .typeError ∨ e = .valueError := by
  cases c with
  | createInstance ni ns =>
    simp only [callToOp] at h
    cases hn : nsOfArg (createNsArg ni ns) with
    | error e' =>
      rw [hn] at h; simp at h; subst h
      cases hh : createNsArg ni ns <;> simp [hh, nsOfArg] at hn
      exact Or.inl hn.symm
    | ok n =>
      rw [hn] at h
      cases ni with
      | other => simp at h; exact Or.inl h.symm
      | inst i p => simp at h
  | modifyInstance mi iq pl =>
    simp only [callToOp] at h
    cases mi with
    | other => simp at h; exact Or.inl h.symm
    | inst i p =>
      cases p with
      | none => simp at h; exact Or.inr h.symm
      | some p =>
        simp only at h
        cases iq <;> cases pl <;> simp [boolOfArg, plOfArg] at h <;> exact Or.inl h.symm
  | deleteInstance n =>
    cases n with
    | other => simp [callToOp] at h; exact Or.inl h.symm
    | path p => simp [callToOp] at h
  | getInstance n lo iq ico pl =>
    cases n with
    | other => simp [callToOp] at h; exact Or.inl h.symm
    | path p =>
      simp only [callToOp] at h
      split at h
      · simp at h
      · simp at h; exact Or.inl h.symm
  | enumerateInstances cls ns lo di iq ico pl =>
    simp only [callToOp] at h
    split at h
    · simp at h
    · simp at h; exact Or.inl h.symm
  | enumerateInstanceNames cls ns =>
    simp only [callToOp] at h
    split at h
    · simp at h
    · simp at h; exact Or.inl h.symm

theorem sim_stepCall (r : Repo) (c : Call) (ht : ∀ op, callToOp c = .ok op → Tame r op) (hinv : Inv r) :
    normOut (stepCall r c).2 = (sstepCall (abs r) c).2 ∧ abs (stepCall r c).1 = (sstepCall (abs r) c).1
      ∧ Inv (stepCall r c).1 := by
  unfold stepCall sstepCall
  cases h : callToOp c with
  | error e => exact ⟨rfl, rfl, hinv⟩
  | ok op => exact sim_step'' r op (ht op h) hinv

theorem stepCall_sameSchema (r : Repo) (c : Call) : SameSchema r (stepCall r c).1 := by
  unfold stepCall
  cases callToOp c with
  | error e => exact sameSchema_refl r
  | ok op => exact step_sameSchema r op

/-- hypothesis of the refinement theorems for a history of public calls -/
def TameCalls (r : Repo) (calls : List Call) : Prop :=
  NoAssoc r ∨ (RefDefaultsNullRepo r ∧ SchemaCoherent r ∧ ∀ c ∈ calls, ∀ op, callToOp c = .ok op → OpWF op)

theorem sim_runCalls (calls : List Call) : ∀ (r : Repo), TameCalls r calls → Inv r →
    (Pywbem.Model.Store.runCalls r calls).2.map normOut = (Pywbem.Model.StoreSpec.runCalls (abs r) calls).2
      ∧ abs (Pywbem.Model.Store.runCalls r calls).1 = (Pywbem.Model.StoreSpec.runCalls (abs r) calls).1
      ∧ Inv (Pywbem.Model.Store.runCalls r calls).1 := by
  induction calls with
  | nil => intro r _ hinv; exact ⟨rfl, rfl, hinv⟩
  | cons c t ih =>
    intro r ht hinv
    have ht1 : ∀ op, callToOp c = .ok op → Tame r op := by
      intro op hop
      rcases ht with h | ⟨h1, h2, h3⟩
      · exact Or.inl h
      · exact Or.inr ⟨h1, h2, h3 c (by simp) op hop⟩
    obtain ⟨h1, h2, h3⟩ := sim_stepCall r c ht1 hinv
    have hss := stepCall_sameSchema r c
    have ht2 : TameCalls (stepCall r c).1 t := by
      rcases ht with h | ⟨h1', h2', h3'⟩
      · exact Or.inl (noAssoc_of_sameSchema hss h)
      · exact Or.inr ⟨refDefaults_of_sameSchema hss h1', coherent_of_sameSchema hss h2',
          fun c' hc' => h3' c' (by simp [hc'])⟩
    obtain ⟨i1, i2, i3⟩ := ih (stepCall r c).1 ht2 h3
    simp only [Pywbem.Model.Store.runCalls, Pywbem.Model.StoreSpec.runCalls, List.map_cons]
    rw [← h2, ← h1]
    exact ⟨by rw [i1], i2, i3⟩

/-- outcomes of a public call: documented CIM status codes, TypeError, or ValueError (ModifyInstance without path) -/
def DocumentedCall (o : Out) : Prop := Documented o ∨ o = .err .valueError

theorem sstepCall_documented (s : SRepo) (c : Call) : DocumentedCall (sstepCall s c).2 := by
  unfold sstepCall
  cases h : callToOp c with
  | error e =>
    rcases callToOp_err h with rfl | rfl
    · exact Or.inl (by simp [Documented])
    · exact Or.inr rfl
  | ok op => exact Or.inl (sstep_documented s op)

theorem srunCalls_documented (calls : List Call) : ∀ (s : SRepo),
    ∀ o ∈ (Pywbem.Model.StoreSpec.runCalls s calls).2, DocumentedCall o := by
  induction calls with
  | nil => intro s o h; simp [Pywbem.Model.StoreSpec.runCalls] at h
  | cons c t ih =>
    intro s o h
    simp only [Pywbem.Model.StoreSpec.runCalls, List.mem_cons] at h
    rcases h with rfl | h
    · exact sstepCall_documented s c
    · exact ih _ o h

theorem documentedCall_normOut {o : Out} (h : DocumentedCall (normOut o)) : DocumentedCall o := by
  rcases h with h | h
  · exact Or.inl (documented_normOut h)
  · right; cases o <;> simp_all [normOut]

/-- the retrieval options do not reach the result -/
theorem stepGet_opts (r : Repo) (p : Path) (pl : Option (List Name)) (o o' : RetOpts) :
    stepGet r p pl o = stepGet r p pl o' := by
  unfold stepGet
  simp only [getInstancePost_eq]

theorem enumCollect_opts (ns : Name) (classes : List Cls) (o o' : RetOpts) (all : List Stored) (pl : Option (List Name))
    (l : List Stored) : enumCollect ns classes o all pl l = enumCollect ns classes o' all pl l := by
  induction l with
  | nil => rfl
  | cons a t ih => simp only [enumCollect, getInstancePost_eq, ih]

theorem stepEnumInsts_opts (r : Repo) (ns : Option Name) (cls : Name) (di : Option Bool) (pl : Option (List Name))
    (o o' : RetOpts) : stepEnumInsts r ns cls di pl o = stepEnumInsts r ns cls di pl o' := by
  unfold stepEnumInsts
  simp only [enumCollect_opts _ _ o o']

end Proofs.Store
