/-
C03 — the message envelope (CIM / MESSAGE / SIMPLE…), listener responses, and character-level facts.
-/
import Proofs.Lemmas.DtdEnc3
import Proofs.Lemmas.XmlText
import Pywbem.Model.Request

set_option linter.unusedSimpArgs false
set_option linter.unusedVariables false

namespace Proofs.DtdReq
open Pywbem.Model Pywbem.Model.Dtd Pywbem.Model.XmlText Pywbem.Model.Sendable Proofs.Dtd Proofs.DtdEnc
open Pywbem.Model.Req
open Pywbem.Generated

/-! ### characters -/

theorem strOk_iff (s : Str) : strOk s = true ↔ ∀ c ∈ s, isXmlChar c = true := by
  simp [strOk, List.all_eq_true]

/-- a text node the validator accepts is received unchanged (up to end-of-line normalisation) -/
theorem text_accepted (s : Str) (h : strOk s = true) : wireText s = some (normEOL false s) := by
  unfold wireText
  exact Proofs.XmlText.recvText_esc s false ((strOk_iff s).mp h)

theorem attr_accepted (s : Str) (h : strOk s = true) : wireAttr s = some (normAttr false s) := by
  unfold wireAttr
  exact Proofs.XmlText.recvAttr_esc s false ((strOk_iff s).mp h)

theorem recvText_map_none {f : Str → Str} {o : Option Str} (h : o = none) : o.map f = none := by simp [h]

/-- a text node with a character outside the XML `Char` production is rejected by the receiving side:
    writing it raw (what minidom does) yields an ill-formed document -/
theorem text_rejected : ∀ (s : Str) (skip : Bool), strOk s = false → recvText (.txt skip) (esc s) = none
  | [], _, h => by simp [strOk] at h
  | c :: cs, skip, h => by
    have ih := fun sk => text_rejected cs sk
    simp only [esc, escChar]
    by_cases hc : isXmlChar c = true
    · have hcs : strOk cs = false := by
        simp only [strOk, List.all_cons, hc, Bool.true_and] at h
        simpa [strOk] using h
      by_cases h1 : c = '&'
      · subst h1; simp only [if_true]; rw [Proofs.XmlText.recvText_amp, ih _ hcs]; rfl
      by_cases h2 : c = '<'
      · subst h2; simp only [h1, if_false, if_true]; rw [Proofs.XmlText.recvText_lt, ih _ hcs]; rfl
      by_cases h3 : c = '"'
      · subst h3; simp only [h1, h2, if_false, if_true]; rw [Proofs.XmlText.recvText_quot, ih _ hcs]; rfl
      by_cases h4 : c = '>'
      · subst h4; simp only [h1, h2, h3, if_false, if_true]; rw [Proofs.XmlText.recvText_gt, ih _ hcs]; rfl
      simp only [h1, h2, h3, h4, if_false, List.singleton_append]
      by_cases h5 : c = '\r'
      · subst h5; simp [recvText, ih _ hcs]
      by_cases h6 : c = '\n'
      · subst h6; cases skip <;> simp [recvText, ih _ hcs]
      · simp [recvText, h1, h2, hc, h5, h6, ih _ hcs]
    · have hc' : isXmlChar c = false := by simpa using hc
      have h1 : c ≠ '&' := by intro e; subst e; simp [isXmlChar] at hc'
      have h2 : c ≠ '<' := by intro e; subst e; simp [isXmlChar] at hc'
      have h3 : c ≠ '"' := by intro e; subst e; simp [isXmlChar] at hc'
      have h4 : c ≠ '>' := by intro e; subst e; simp [isXmlChar] at hc'
      simp [h1, h2, h3, h4, recvText, hc']

/-! ### generic element lemmas -/

theorem attrs_two {decl : ElemDecl} (k1 k2 : String) (v1 v2 : Str) (hne : k1.toList ≠ k2.toList)
    (h1 : isCdata decl.atts k1.toList = true) (h2 : isCdata decl.atts k2.toList = true)
    (hr : ∀ n ∈ requiredNames decl.atts, n = k1.toList ∨ n = k2.toList) :
    validAttrs decl.atts [(k1.toList, v1), (k2.toList, v2)] = true := by
  apply validAttrs_of [k1.toList, k2.toList]
  · simp only [List.all_cons, List.all_nil, Bool.and_true, Bool.and_eq_true]
    exact ⟨attrOk_cdata h1 _, attrOk_cdata h2 _⟩
  · simp
  · simp [nodupNames, hne]
  · intro n hn; rcases hr n hn with rfl | rfl <;> simp

/-- an element with exactly one element child whose name the content model accepts -/
theorem struct_single {n : String} (decl : ElemDecl) {as : List (Str × Str)} {k : Xml} {nk : Name}
    {ask : List (Str × Str)} {kk : List Xml} {r : Re}
    (hk : k = .elem nk ask kk) (hl : lookupElem D n.toList = some decl) (hat : validAttrs decl.atts as = true)
    (hc : decl.content = .children r) (hr : Lang r [nk]) (hs : structNode D k = true) :
    structNode D (E n as [k]) = true := by
  subst hk
  apply struct_elem decl hl hat
  · rw [hc]; exact content_children (by simp [allElems]) (by simpa [kidNames] using hr)
  · exact structNodes_one hs

/-- CIM / MESSAGE around a SIMPLEREQ, SIMPLEEXPREQ or SIMPLEEXPRSP element -/
def simpleNames : List Name :=
  ["SIMPLEREQ".toList, "MULTIREQ".toList, "SIMPLERSP".toList, "MULTIRSP".toList, "SIMPLEEXPREQ".toList,
   "MULTIEXPREQ".toList, "SIMPLEEXPRSP".toList, "MULTIEXPRSP".toList]

theorem struct_envelope (cimv dtdv msgid protov : Str) {x : Xml} {nx : Name} {asx : List (Str × Str)} {kx : List Xml}
    (hx : x = .elem nx asx kx) (hn : nx ∈ simpleNames) (hs : structNode D x = true) :
    structNode D (E "CIM" [("CIMVERSION".toList, cimv), ("DTDVERSION".toList, dtdv)]
      [E "MESSAGE" [("ID".toList, msgid), ("PROTOCOLVERSION".toList, protov)] [x]]) = true := by
  have hm : structNode D (E "MESSAGE" [("ID".toList, msgid), ("PROTOCOLVERSION".toList, protov)] [x]) = true := by
    apply struct_single dtdDecl_MESSAGE hx (by rfl)
      (attrs_two "ID" "PROTOCOLVERSION" msgid protov (by decide) (by rfl) (by rfl) (by decide)) (r := Re.alts (simpleNames.map Re.sym)) (by rfl) _ hs
    exact lang_alts_mem (r := .sym nx) (List.mem_map.mpr ⟨nx, hn, rfl⟩) (Lang.sym nx)
  apply struct_single dtdDecl_CIM (by simp only [E]; rfl) (by rfl)
    (attrs_two "CIMVERSION" "DTDVERSION" cimv dtdv (by decide) (by rfl) (by rfl) (by decide))
    (r := Re.alts [.sym "MESSAGE".toList, .sym "DECLARATION".toList]) (by rfl) _ hm
  exact lang_alts_mem (r := .sym _) (by simp) (Lang.sym _)

/-! ### listener responses -/

theorem struct_listenerEnvelope (msgid : Str) {rsp : Xml} {asr : List (Str × Str)} {kr : List Xml}
    (hr : rsp = .elem "EXPMETHODRESPONSE".toList asr kr) (hs : structNode D rsp = true) :
    structNode D (listenerEnvelope msgid rsp) = true := by
  unfold listenerEnvelope
  have h1 : structNode D (E "SIMPLEEXPRSP" [] [rsp]) = true :=
    struct_single dtdDecl_SIMPLEEXPRSP hr (by rfl) (by decide) (r := .sym "EXPMETHODRESPONSE".toList) (by rfl) (Lang.sym _) hs
  exact struct_envelope _ _ _ _ (by simp only [E]; rfl) (by simp [simpleNames]) h1

theorem struct_listenerSuccess (msgid methodname : Str) : structNode D (listenerSuccess msgid methodname) = true := by
  unfold listenerSuccess
  apply struct_listenerEnvelope msgid (by simp only [E]; rfl)
  apply struct_elem dtdDecl_EXPMETHODRESPONSE (by rfl) (attrs_name_only "NAME" methodname (by rfl) (by rfl))
  · apply content_children (by rfl)
    exact lang_alts_mem (r := Re.opt (.sym "IRETURNVALUE".toList)) (by simp) lang_opt_none
  · rfl

theorem struct_listenerError (msgid methodname : Str) (code : Nat) (desc : Str) :
    structNode D (listenerError msgid methodname code desc) = true := by
  unfold listenerError
  have he : structNode D (E "ERROR" [("CODE".toList, natToStr code), ("DESCRIPTION".toList, desc)] []) = true := by
    apply struct_elem dtdDecl_ERROR (by rfl)
      (attrs_two "CODE" "DESCRIPTION" _ _ (by decide) (by rfl) (by rfl) (by decide))
    · exact content_children (by rfl) Lang.starNil
    · rfl
  apply struct_listenerEnvelope msgid (by simp only [E]; rfl)
  apply struct_single dtdDecl_EXPMETHODRESPONSE (by simp only [E]; rfl) (by rfl)
    (attrs_name_only "NAME" methodname (by rfl) (by rfl))
    (r := Re.alts [.sym "ERROR".toList, Re.opt (.sym "IRETURNVALUE".toList)]) (by rfl) _ he
  exact lang_alts_mem (r := .sym _) (by simp) (Lang.sym _)

theorem statusCode_chars : ∀ code, code < 100 → strOk (natToStr code) = true := by decide

end Proofs.DtdReq
