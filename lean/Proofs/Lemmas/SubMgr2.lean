/-
Helper lemmas for C18, part 2: the instance store, the providers, one manager's lists, histories.
-/
import Proofs.Lemmas.SubMgr

namespace Proofs.SubMgr
open Pywbem.Model.SubMgr Pywbem.Proto

/-! ### store invariant -/

def Sub.key (s : Sub) : Path × Path := (s.filter, s.handler)

/-- the ghost owner of a subscription is consistent with the markers of its ends -/
def GhostOk (s : Sub) : Prop :=
  (∀ i, s.owner = some i → ':' ∉ i) ∧
  (∀ i, ':' ∉ i → (s.owner = some i ↔ (ownsSpec .filt i s.filter.name ∨ ownsSpec .dest i s.handler.name)))

structure StoreInv (st : Store) : Prop where
  fnd : (st.filts.map (·.path)).Nodup
  dnd : (st.dests.map (·.path)).Nodup
  snd : (st.subs.map Sub.key).Nodup
  refs : ∀ s ∈ st.subs, st.hasFilt s.filter = true ∧ st.hasDest s.handler = true
  ghost : ∀ s ∈ st.subs, GhostOk s

theorem hasFilt_iff {st : Store} {p : Path} : st.hasFilt p = true ↔ ∃ f ∈ st.filts, f.path = p := by
  simp [Store.hasFilt]

theorem hasDest_iff {st : Store} {p : Path} : st.hasDest p = true ↔ ∃ d ∈ st.dests, d.path = p := by
  simp [Store.hasDest]

theorem hasSub_iff {st : Store} {f h : Path} :
    st.hasSub f h = true ↔ ∃ s ∈ st.subs, s.filter = f ∧ s.handler = h := by
  simp [Store.hasSub]

theorem filtReferenced_iff {st : Store} {p : Path} : st.filtReferenced p = true ↔ ∃ s ∈ st.subs, s.filter = p := by
  simp [Store.filtReferenced]

theorem destReferenced_iff {st : Store} {p : Path} : st.destReferenced p = true ↔ ∃ s ∈ st.subs, s.handler = p := by
  simp [Store.destReferenced]

theorem nodup_of_map {α β} (f : α → β) {l : List α} (h : (l.map f).Nodup) : l.Nodup :=
  List.Pairwise.of_map f (fun _ _ hne e => hne (e ▸ rfl)) h

theorem eq_of_key {α β} (f : α → β) {l : List α} (h : (l.map f).Nodup) {a b : α}
    (ha : a ∈ l) (hb : b ∈ l) (e : f a = f b) : a = b := by
  induction l with
  | nil => simp at ha
  | cons x xs ih =>
    simp only [List.map_cons, List.nodup_cons, List.mem_map, not_exists, not_and] at h
    simp only [List.mem_cons] at ha hb
    rcases ha with rfl | ha <;> rcases hb with rfl | hb
    · rfl
    · exact absurd e.symm (h.1 b hb)
    · exact absurd e (h.1 a ha)
    · exact ih h.2 ha hb

theorem nodup_snoc {α} {l : List α} {a : α} (h : l.Nodup) (ha : a ∉ l) : (l ++ [a]).Nodup :=
  List.nodup_append.mpr ⟨h, by simp, fun x hx y hy => by simp at hy; subst hy; exact fun e => ha (e ▸ hx)⟩

/-! ### the providers preserve the store invariant -/

theorem createFilt_ok {st st' : Store} {name : Str} {f : Filt} (h : createFilt st name = .ok (st', f)) :
    f = ⟨⟨name, 0⟩⟩ ∧ st.hasFilt f.path = false ∧ st' = { st with filts := st.filts ++ [f] } := by
  unfold createFilt at h
  by_cases hh : st.hasFilt (⟨⟨name, 0⟩⟩ : Filt).path = true
  · simp [hh] at h
  · simp [hh] at h
    obtain ⟨rfl, rfl⟩ := h
    exact ⟨rfl, by simpa using hh, rfl⟩

theorem createDest_ok {st st' : Store} {name : Str} {url : Nat} {pt : Option Nat} {d : Dest}
    (h : createDest st name url pt = .ok (st', d)) :
    d.path = ⟨name, 0⟩ ∧ st.hasDest d.path = false ∧ st' = { st with dests := st.dests ++ [d] } := by
  unfold createDest at h
  by_cases hh : st.hasDest (⟨name, 0⟩ : Path) = true
  · simp [hh] at h
  · simp [hh] at h
    obtain ⟨rfl, rfl⟩ := h
    exact ⟨rfl, by simpa using hh, rfl⟩

theorem createSub_ok {st st' : Store} {f h : Path} {g : Option Str} {s : Sub}
    (hc : createSub st f h g = .ok (st', s)) :
    s = ⟨f, h, g⟩ ∧ st.hasFilt f = true ∧ st.hasDest h = true ∧ st.hasSub f h = false ∧
    st' = { st with subs := st.subs ++ [s] } := by
  unfold createSub at hc
  by_cases h1 : st.hasFilt f = true <;> by_cases h2 : st.hasDest h = true <;>
    by_cases h3 : st.hasSub f h = true <;> simp [h1, h2, h3] at hc
  obtain ⟨rfl, rfl⟩ := hc
  exact ⟨rfl, h1, h2, by simpa using h3, rfl⟩

theorem delFilt_ok {st st' : Store} {p : Path} (h : delFilt st p = .ok st') :
    st.hasFilt p = true ∧ st.filtReferenced p = false ∧
    st' = { st with filts := st.filts.filter (fun f => f.path != p) } := by
  unfold delFilt at h
  by_cases h1 : st.hasFilt p = true <;> by_cases h2 : st.filtReferenced p = true <;> simp [h1, h2] at h
  exact ⟨h1, by simpa using h2, h.symm⟩

theorem delDest_ok {st st' : Store} {p : Path} (h : delDest st p = .ok st') :
    st.hasDest p = true ∧ st.destReferenced p = false ∧
    st' = { st with dests := st.dests.filter (fun d => d.path != p) } := by
  unfold delDest at h
  by_cases h1 : st.hasDest p = true <;> by_cases h2 : st.destReferenced p = true <;> simp [h1, h2] at h
  exact ⟨h1, by simpa using h2, h.symm⟩

theorem delSub_ok {st st' : Store} {f h : Path} (hd : delSub st f h = .ok st') :
    st.hasSub f h = true ∧
    st' = { st with subs := st.subs.filter (fun s => !(s.filter == f && s.handler == h)) } := by
  unfold delSub at hd
  by_cases h1 : st.hasSub f h = true
  · simp only [h1, Bool.not_true, Bool.false_eq_true, if_false] at hd
    exact ⟨h1, (Except.ok.inj hd).symm⟩
  · simp [h1] at hd

theorem StoreInv.addFilt {st : Store} (hi : StoreInv st) (f : Filt) (hn : st.hasFilt f.path = false) :
    StoreInv { st with filts := st.filts ++ [f] } := by
  refine ⟨?_, hi.dnd, hi.snd, ?_, hi.ghost⟩
  · simp only [List.map_append, List.map_cons, List.map_nil]
    refine nodup_snoc hi.fnd ?_
    intro ha
    simp only [List.mem_map] at ha
    obtain ⟨x, hx, hxe⟩ := ha
    have : st.hasFilt f.path = true := hasFilt_iff.mpr ⟨x, hx, hxe⟩
    simp [hn] at this
  · intro s hs
    obtain ⟨h1, h2⟩ := hi.refs s hs
    refine ⟨?_, h2⟩
    obtain ⟨x, hx, hxe⟩ := hasFilt_iff.mp h1
    exact hasFilt_iff.mpr ⟨x, by simp [hx], hxe⟩

theorem StoreInv.addDest {st : Store} (hi : StoreInv st) (d : Dest) (hn : st.hasDest d.path = false) :
    StoreInv { st with dests := st.dests ++ [d] } := by
  refine ⟨hi.fnd, ?_, hi.snd, ?_, hi.ghost⟩
  · simp only [List.map_append, List.map_cons, List.map_nil]
    refine nodup_snoc hi.dnd ?_
    intro ha
    simp only [List.mem_map] at ha
    obtain ⟨x, hx, hxe⟩ := ha
    have : st.hasDest d.path = true := hasDest_iff.mpr ⟨x, hx, hxe⟩
    simp [hn] at this
  · intro s hs
    obtain ⟨h1, h2⟩ := hi.refs s hs
    refine ⟨h1, ?_⟩
    obtain ⟨x, hx, hxe⟩ := hasDest_iff.mp h2
    exact hasDest_iff.mpr ⟨x, by simp [hx], hxe⟩

theorem StoreInv.addSub {st : Store} (hi : StoreInv st) (s : Sub) (hf : st.hasFilt s.filter = true)
    (hd : st.hasDest s.handler = true) (hn : st.hasSub s.filter s.handler = false) (hg : GhostOk s) :
    StoreInv { st with subs := st.subs ++ [s] } := by
  refine ⟨hi.fnd, hi.dnd, ?_, ?_, ?_⟩
  · simp only [List.map_append, List.map_cons, List.map_nil]
    refine nodup_snoc hi.snd ?_
    intro ha
    simp only [List.mem_map] at ha
    obtain ⟨x, hx, hxe⟩ := ha
    have : st.hasSub s.filter s.handler = true :=
      hasSub_iff.mpr ⟨x, hx, by simpa [Sub.key, Prod.ext_iff] using hxe⟩
    simp [hn] at this
  · intro x hx
    simp at hx
    rcases hx with hx | rfl
    · exact hi.refs x hx
    · exact ⟨hf, hd⟩
  · intro x hx
    simp at hx
    rcases hx with hx | rfl
    · exact hi.ghost x hx
    · exact hg

theorem StoreInv.delFilt {st : Store} (hi : StoreInv st) (p : Path) (hr : st.filtReferenced p = false) :
    StoreInv { st with filts := st.filts.filter (fun f => f.path != p) } := by
  refine ⟨?_, hi.dnd, hi.snd, ?_, hi.ghost⟩
  · exact List.Nodup.sublist (List.Sublist.map _ List.filter_sublist) hi.fnd
  · intro s hs
    obtain ⟨h1, h2⟩ := hi.refs s hs
    refine ⟨?_, h2⟩
    obtain ⟨x, hx, hxe⟩ := hasFilt_iff.mp h1
    refine hasFilt_iff.mpr ⟨x, ?_, hxe⟩
    simp only [List.mem_filter, hx, true_and, bne_iff_ne, ne_eq]
    intro e
    have : st.filtReferenced p = true := filtReferenced_iff.mpr ⟨s, hs, by rw [← hxe, e]⟩
    simp [hr] at this

theorem StoreInv.delDest {st : Store} (hi : StoreInv st) (p : Path) (hr : st.destReferenced p = false) :
    StoreInv { st with dests := st.dests.filter (fun d => d.path != p) } := by
  refine ⟨hi.fnd, ?_, hi.snd, ?_, hi.ghost⟩
  · exact List.Nodup.sublist (List.Sublist.map _ List.filter_sublist) hi.dnd
  · intro s hs
    obtain ⟨h1, h2⟩ := hi.refs s hs
    refine ⟨h1, ?_⟩
    obtain ⟨x, hx, hxe⟩ := hasDest_iff.mp h2
    refine hasDest_iff.mpr ⟨x, ?_, hxe⟩
    simp only [List.mem_filter, hx, true_and, bne_iff_ne, ne_eq]
    intro e
    have : st.destReferenced p = true := destReferenced_iff.mpr ⟨s, hs, by rw [← hxe, e]⟩
    simp [hr] at this

theorem StoreInv.filterSubs {st : Store} (hi : StoreInv st) (q : Sub → Bool) :
    StoreInv { st with subs := st.subs.filter q } := by
  refine ⟨hi.fnd, hi.dnd, ?_, ?_, ?_⟩
  · exact List.Nodup.sublist (List.Sublist.map _ List.filter_sublist) hi.snd
  · intro s hs; exact hi.refs s (List.mem_filter.mp hs).1
  · intro s hs; exact hi.ghost s (List.mem_filter.mp hs).1

/-! ### one manager's lists agree with the server -/

structure Agree (id : Str) (st : Store) (o : Owned) : Prop where
  od : ∃ l, o.od = some l ∧ l.Nodup ∧ ∀ d, d ∈ l ↔ (d ∈ st.dests ∧ ownsSpec .dest id d.path.name)
  of : ∃ l, o.of = some l ∧ l.Nodup ∧ ∀ f, f ∈ l ↔ (f ∈ st.filts ∧ ownsSpec .filt id f.path.name)
  os : ∃ l, o.os = some l ∧ l.Nodup ∧ ∀ s, s ∈ l ↔ (s ∈ st.subs ∧ s.owner = some id)

/-- what an operation of manager `id` leaves alone: the owned sets of every other id -/
structure Frame (id : Str) (st st' : Store) : Prop where
  d : ∀ j, j ≠ id → ':' ∉ j → ∀ x : Dest, (x ∈ st'.dests ∧ ownsSpec .dest j x.path.name) ↔ (x ∈ st.dests ∧ ownsSpec .dest j x.path.name)
  f : ∀ j, j ≠ id → ':' ∉ j → ∀ x : Filt, (x ∈ st'.filts ∧ ownsSpec .filt j x.path.name) ↔ (x ∈ st.filts ∧ ownsSpec .filt j x.path.name)
  s : ∀ j, j ≠ id → ':' ∉ j → ∀ x : Sub, (x ∈ st'.subs ∧ x.owner = some j) ↔ (x ∈ st.subs ∧ x.owner = some j)

theorem Frame.refl (id : Str) (st : Store) : Frame id st st :=
  ⟨fun _ _ _ _ => Iff.rfl, fun _ _ _ _ => Iff.rfl, fun _ _ _ _ => Iff.rfl⟩

theorem Frame.trans {id : Str} {a b c : Store} (h1 : Frame id a b) (h2 : Frame id b c) : Frame id a c :=
  ⟨fun j hj hc x => (h2.d j hj hc x).trans (h1.d j hj hc x),
   fun j hj hc x => (h2.f j hj hc x).trans (h1.f j hj hc x),
   fun j hj hc x => (h2.s j hj hc x).trans (h1.s j hj hc x)⟩

theorem Agree.frame {id j : Str} {st st' : Store} {o : Owned} (h : Agree j st o) (hf : Frame id st st')
    (hj : j ≠ id) (hc : ':' ∉ j) : Agree j st' o := by
  obtain ⟨⟨ld, h1, h2, h3⟩, ⟨lf, h4, h5, h6⟩, ⟨ls, h7, h8, h9⟩⟩ := h
  exact ⟨⟨ld, h1, h2, fun d => (h3 d).trans (hf.d j hj hc d).symm⟩,
         ⟨lf, h4, h5, fun f => (h6 f).trans (hf.f j hj hc f).symm⟩,
         ⟨ls, h7, h8, fun s => (h9 s).trans (hf.s j hj hc s).symm⟩⟩

/-! ### rediscovery -/

theorem discover_agree (id : Str) (st : Store) (hi : StoreInv st) (hc : ':' ∉ id) :
    Agree id st (discover id st) := by
  refine ⟨⟨_, rfl, ?_, ?_⟩, ⟨_, rfl, ?_, ?_⟩, ⟨_, rfl, ?_, ?_⟩⟩
  · exact List.Nodup.sublist List.filter_sublist (nodup_of_map _ hi.dnd)
  · intro d; simp [List.mem_filter, ownsCode_iff]
  · exact List.Nodup.sublist List.filter_sublist (nodup_of_map _ hi.fnd)
  · intro f; simp [List.mem_filter, ownsCode_iff]
  · exact List.Nodup.sublist List.filter_sublist (nodup_of_map _ hi.snd)
  · intro s
    simp only [List.mem_filter, Bool.or_eq_true, List.any_eq_true, beq_iff_eq, ownsCode_iff]
    constructor
    · rintro ⟨hs, h⟩
      refine ⟨hs, ((hi.ghost s hs).2 id hc).mpr ?_⟩
      rcases h with ⟨f, ⟨_, hf⟩, e⟩ | ⟨d, ⟨_, hd⟩, e⟩
      · left; rw [← e]; exact hf
      · right; rw [← e]; exact hd
    · rintro ⟨hs, ho⟩
      refine ⟨hs, ?_⟩
      obtain ⟨h1, h2⟩ := hi.refs s hs
      rcases ((hi.ghost s hs).2 id hc).mp ho with h | h
      · obtain ⟨f, hf, e⟩ := hasFilt_iff.mp h1
        left; exact ⟨f, ⟨hf, by rw [e]; exact h⟩, e⟩
      · obtain ⟨d, hd, e⟩ := hasDest_iff.mp h2
        right; exact ⟨d, ⟨hd, by rw [e]; exact h⟩, e⟩
/-! ### the delete loops of remove_server -/

theorem delLoop_subs (l : List Sub) (st : Store)
    (hp : ∀ s ∈ l, st.hasSub s.filter s.handler = true) (hn : (l.map Sub.key).Nodup) :
    delLoop (fun st (s : Sub) => delSub st s.filter s.handler) st l =
      ({ st with subs := st.subs.filter (fun s => !decide (Sub.key s ∈ l.map Sub.key)) }, [], none) := by
  induction l generalizing st with
  | nil => cases st; simp only [delLoop, List.map_nil, List.not_mem_nil, decide_false, Bool.not_false]; congr 2; exact (List.filter_eq_self.mpr (by simp)).symm
  | cons x xs ih =>
    have hx := hp x (by simp)
    simp only [List.map_cons, List.nodup_cons] at hn
    have hdel : delSub st x.filter x.handler =
        .ok { st with subs := st.subs.filter (fun s => !(s.filter == x.filter && s.handler == x.handler)) } := by
      simp [delSub, hx]
    simp only [delLoop, hdel]
    rw [ih _ ?_ hn.2]
    · have e : ∀ l : List Sub, List.filter (fun s => !decide (Sub.key s ∈ List.map Sub.key xs))
            (List.filter (fun s => !(s.filter == x.filter && s.handler == x.handler)) l) =
          List.filter (fun s => !decide (Sub.key s ∈ List.map Sub.key (x :: xs))) l := by
        intro l
        rw [List.filter_filter]
        apply List.filter_congr
        intro s _
        simp only [Sub.key, List.map_cons, List.mem_cons, Prod.mk.injEq]
        by_cases e : s.filter = x.filter ∧ s.handler = x.handler
        · simp [e]
        · have : ¬ (s.filter = x.filter ∧ s.handler = x.handler) := e
          simp [e]
          intro _
          by_cases h1 : s.filter = x.filter
          · right; exact fun h2 => e ⟨h1, h2⟩
          · left; exact h1
      simp only [e]
    · intro s hs
      obtain ⟨y, hy, e1, e2⟩ := hasSub_iff.mp (hp s (by simp [hs]))
      refine hasSub_iff.mpr ⟨y, ?_, e1, e2⟩
      simp only [List.mem_filter, hy, true_and, Bool.not_eq_true', Bool.and_eq_false_iff, beq_eq_false_iff_ne]
      by_cases e : y.filter = x.filter
      · right
        intro e'
        apply hn.1
        simp only [List.mem_map]
        exact ⟨s, hs, by simp [Sub.key, ← e1, ← e2, e, e']⟩
      · left; exact e

theorem delLoop_filts (l : List Filt) (st : Store)
    (hp : ∀ f ∈ l, st.hasFilt f.path = true) (hr : ∀ f ∈ l, st.filtReferenced f.path = false)
    (hn : (l.map (·.path)).Nodup) :
    delLoop (fun st (f : Filt) => delFilt st f.path) st l =
      ({ st with filts := st.filts.filter (fun f => !decide (f.path ∈ l.map (·.path))) }, [], none) := by
  induction l generalizing st with
  | nil => cases st; simp only [delLoop, List.map_nil, List.not_mem_nil, decide_false, Bool.not_false]; congr 2; exact (List.filter_eq_self.mpr (by simp)).symm
  | cons x xs ih =>
    have hx := hp x (by simp)
    have hrx := hr x (by simp)
    simp only [List.map_cons, List.nodup_cons] at hn
    have hdel : delFilt st x.path = .ok { st with filts := st.filts.filter (fun f => f.path != x.path) } := by
      simp [delFilt, hx, hrx]
    simp only [delLoop, hdel]
    rw [ih _ ?_ ?_ hn.2]
    · have e : ∀ l : List Filt, List.filter (fun f => !decide (f.path ∈ List.map (·.path) xs))
            (List.filter (fun f => f.path != x.path) l) =
          List.filter (fun f => !decide (f.path ∈ List.map (·.path) (x :: xs))) l := by
        intro l
        rw [List.filter_filter]
        apply List.filter_congr
        intro f _
        by_cases e : f.path = x.path <;> simp [e]
      simp only [e]
    · intro f hf
      obtain ⟨y, hy, e⟩ := hasFilt_iff.mp (hp f (by simp [hf]))
      refine hasFilt_iff.mpr ⟨y, ?_, e⟩
      simp only [List.mem_filter, hy, true_and, bne_iff_ne, ne_eq]
      intro e'
      apply hn.1
      simp only [List.mem_map]
      exact ⟨f, hf, by rw [← e, e']⟩
    · intro f hf
      have := hr f (by simp [hf])
      simpa [Store.filtReferenced] using this

theorem delLoop_dests (l : List Dest) (st : Store)
    (hp : ∀ d ∈ l, st.hasDest d.path = true) (hr : ∀ d ∈ l, st.destReferenced d.path = false)
    (hn : (l.map (·.path)).Nodup) :
    delLoop (fun st (d : Dest) => delDest st d.path) st l =
      ({ st with dests := st.dests.filter (fun d => !decide (d.path ∈ l.map (·.path))) }, [], none) := by
  induction l generalizing st with
  | nil => cases st; simp only [delLoop, List.map_nil, List.not_mem_nil, decide_false, Bool.not_false]; congr 2; exact (List.filter_eq_self.mpr (by simp)).symm
  | cons x xs ih =>
    have hx := hp x (by simp)
    have hrx := hr x (by simp)
    simp only [List.map_cons, List.nodup_cons] at hn
    have hdel : delDest st x.path = .ok { st with dests := st.dests.filter (fun d => d.path != x.path) } := by
      simp [delDest, hx, hrx]
    simp only [delLoop, hdel]
    rw [ih _ ?_ ?_ hn.2]
    · have e : ∀ l : List Dest, List.filter (fun d => !decide (d.path ∈ List.map (·.path) xs))
            (List.filter (fun d => d.path != x.path) l) =
          List.filter (fun d => !decide (d.path ∈ List.map (·.path) (x :: xs))) l := by
        intro l
        rw [List.filter_filter]
        apply List.filter_congr
        intro d _
        by_cases e : d.path = x.path <;> simp [e]
      simp only [e]
    · intro d hd
      obtain ⟨y, hy, e⟩ := hasDest_iff.mp (hp d (by simp [hd]))
      refine hasDest_iff.mpr ⟨y, ?_, e⟩
      simp only [List.mem_filter, hy, true_and, bne_iff_ne, ne_eq]
      intro e'
      apply hn.1
      simp only [List.mem_map]
      exact ⟨d, hd, by rw [← e, e']⟩
    · intro d hd
      have := hr d (by simp [hd])
      simpa [Store.destReferenced] using this

/-! ### remove_server deletes exactly the owned instances -/

theorem nodup_map_of_inj_on {α β} (f : α → β) {l : List α} (hnd : l.Nodup)
    (hinj : ∀ a ∈ l, ∀ b ∈ l, f a = f b → a = b) : (l.map f).Nodup := by
  induction l with
  | nil => simp
  | cons x xs ih =>
    simp only [List.nodup_cons] at hnd
    simp only [List.map_cons, List.nodup_cons, List.mem_map, not_exists, not_and]
    refine ⟨fun y hy e => ?_, ih hnd.2 (fun a ha b hb => hinj a (by simp [ha]) b (by simp [hb]))⟩
    have := hinj y (by simp [hy]) x (by simp) e
    exact hnd.1 (this ▸ hy)

/-- the store after manager `id` has been removed: everything it owns (by the spec) is gone, the rest
    is untouched, in the same order -/
def purge (id : Str) (st : Store) : Store :=
  { dests := st.dests.filter (fun d => !decide (ownsSpec .dest id d.path.name)),
    filts := st.filts.filter (fun f => !decide (ownsSpec .filt id f.path.name)),
    subs := st.subs.filter (fun s => !decide (s.owner = some id)) }

theorem rmSubs_exact {id : Str} {st : Store} {o : Owned} (hi : StoreInv st) (ha : Agree id st o) :
    rmSubs st o = ({ st with subs := st.subs.filter (fun s => !decide (s.owner = some id)) },
                   { o with os := none }, none) := by
  obtain ⟨ls, hls, hnd, hmem⟩ := ha.os
  have hsub : ∀ s ∈ ls, s ∈ st.subs := fun s hs => ((hmem s).mp hs).1
  have hkn : (ls.reverse.map Sub.key).Nodup := by
    apply nodup_map_of_inj_on _ (hnd.perm (List.reverse_perm _).symm)
    intro a ha b hb e
    exact eq_of_key Sub.key hi.snd (hsub a (by simpa using ha)) (hsub b (by simpa using hb)) e
  have hp : ∀ s ∈ ls.reverse, st.hasSub s.filter s.handler = true := by
    intro s hs
    exact hasSub_iff.mpr ⟨s, hsub s (by simpa using hs), rfl, rfl⟩
  have hloop := delLoop_subs ls.reverse st hp hkn
  have hf : st.subs.filter (fun s => !decide (Sub.key s ∈ ls.reverse.map Sub.key)) =
      st.subs.filter (fun s => !decide (s.owner = some id)) := by
    apply List.filter_congr
    intro s hs
    congr 1
    apply decide_eq_decide.mpr
    constructor
    · intro h
      simp only [List.mem_map, List.mem_reverse] at h
      obtain ⟨y, hy, e⟩ := h
      have := eq_of_key Sub.key hi.snd (hsub y hy) hs e
      subst this
      exact ((hmem y).mp hy).2
    · intro h
      simp only [List.mem_map, List.mem_reverse]
      exact ⟨s, (hmem s).mpr ⟨hs, h⟩, rfl⟩
  simp only [rmSubs, hls, delBackwards, hloop, hf, List.reverse_nil]

theorem rmFilts_exact {id : Str} {st : Store} {o : Owned} (hi : StoreInv st)
    (hof : ∃ l, o.of = some l ∧ l.Nodup ∧ ∀ f, f ∈ l ↔ (f ∈ st.filts ∧ ownsSpec .filt id f.path.name))
    (hnoref : ∀ s ∈ st.subs, ¬ ownsSpec .filt id s.filter.name) :
    rmFilts st o = ({ st with filts := st.filts.filter (fun f => !decide (ownsSpec .filt id f.path.name)) },
                    { o with of := none }, none) := by
  obtain ⟨lf, hlf, hnd, hmem⟩ := hof
  have hsub : ∀ f ∈ lf, f ∈ st.filts := fun f hf => ((hmem f).mp hf).1
  have hkn : (lf.reverse.map (·.path)).Nodup := by
    apply nodup_map_of_inj_on _ (hnd.perm (List.reverse_perm _).symm)
    intro a ha b hb e
    exact eq_of_key (·.path) hi.fnd (hsub a (by simpa using ha)) (hsub b (by simpa using hb)) e
  have hp : ∀ f ∈ lf.reverse, st.hasFilt f.path = true := by
    intro f hf
    exact hasFilt_iff.mpr ⟨f, hsub f (by simpa using hf), rfl⟩
  have hr : ∀ f ∈ lf.reverse, st.filtReferenced f.path = false := by
    intro f hf
    have hown := ((hmem f).mp (by simpa using hf)).2
    cases h : st.filtReferenced f.path with
    | false => rfl
    | true =>
      obtain ⟨s, hs, e⟩ := filtReferenced_iff.mp h
      exact absurd (e ▸ hown) (hnoref s hs)
  have hloop := delLoop_filts lf.reverse st hp hr hkn
  have hf : st.filts.filter (fun f => !decide (f.path ∈ lf.reverse.map (·.path))) =
      st.filts.filter (fun f => !decide (ownsSpec .filt id f.path.name)) := by
    apply List.filter_congr
    intro f hf
    congr 1
    apply decide_eq_decide.mpr
    constructor
    · intro h
      simp only [List.mem_map, List.mem_reverse] at h
      obtain ⟨y, hy, e⟩ := h
      have := eq_of_key (·.path) hi.fnd (hsub y hy) hf e
      subst this
      exact ((hmem y).mp hy).2
    · intro h
      simp only [List.mem_map, List.mem_reverse]
      exact ⟨f, (hmem f).mpr ⟨hf, h⟩, rfl⟩
  simp only [rmFilts, hlf, delBackwards, hloop, hf, List.reverse_nil]

theorem rmDests_exact {id : Str} {st : Store} {o : Owned} (hi : StoreInv st)
    (hod : ∃ l, o.od = some l ∧ l.Nodup ∧ ∀ d, d ∈ l ↔ (d ∈ st.dests ∧ ownsSpec .dest id d.path.name))
    (hnoref : ∀ s ∈ st.subs, ¬ ownsSpec .dest id s.handler.name) :
    rmDests st o = ({ st with dests := st.dests.filter (fun d => !decide (ownsSpec .dest id d.path.name)) },
                    { o with od := none }, none) := by
  obtain ⟨ld, hld, hnd, hmem⟩ := hod
  have hsub : ∀ d ∈ ld, d ∈ st.dests := fun d hd => ((hmem d).mp hd).1
  have hkn : (ld.reverse.map (·.path)).Nodup := by
    apply nodup_map_of_inj_on _ (hnd.perm (List.reverse_perm _).symm)
    intro a ha b hb e
    exact eq_of_key (·.path) hi.dnd (hsub a (by simpa using ha)) (hsub b (by simpa using hb)) e
  have hp : ∀ d ∈ ld.reverse, st.hasDest d.path = true := by
    intro d hd
    exact hasDest_iff.mpr ⟨d, hsub d (by simpa using hd), rfl⟩
  have hr : ∀ d ∈ ld.reverse, st.destReferenced d.path = false := by
    intro d hd
    have hown := ((hmem d).mp (by simpa using hd)).2
    cases h : st.destReferenced d.path with
    | false => rfl
    | true =>
      obtain ⟨s, hs, e⟩ := destReferenced_iff.mp h
      exact absurd (e ▸ hown) (hnoref s hs)
  have hloop := delLoop_dests ld.reverse st hp hr hkn
  have hf : st.dests.filter (fun d => !decide (d.path ∈ ld.reverse.map (·.path))) =
      st.dests.filter (fun d => !decide (ownsSpec .dest id d.path.name)) := by
    apply List.filter_congr
    intro d hd
    congr 1
    apply decide_eq_decide.mpr
    constructor
    · intro h
      simp only [List.mem_map, List.mem_reverse] at h
      obtain ⟨y, hy, e⟩ := h
      have := eq_of_key (·.path) hi.dnd (hsub y hy) hd e
      subst this
      exact ((hmem y).mp hy).2
    · intro h
      simp only [List.mem_map, List.mem_reverse]
      exact ⟨d, (hmem d).mpr ⟨hd, h⟩, rfl⟩
  simp only [rmDests, hld, delBackwards, hloop, hf, List.reverse_nil]

theorem removeServer_exact {id : Str} {st : Store} {o : Owned} (hi : StoreInv st) (ha : Agree id st o)
    (hc : ':' ∉ id) :
    stepRemoveServer true st o = (⟨purge id st, ⟨none, none, none⟩, .done⟩, false) := by
  have h1 := rmSubs_exact hi ha
  -- after phase 1 no remaining subscription touches an instance owned by `id`
  have hrem : ∀ s ∈ st.subs.filter (fun s => !decide (s.owner = some id)),
      ¬ ownsSpec .filt id s.filter.name ∧ ¬ ownsSpec .dest id s.handler.name := by
    intro s hs
    simp only [List.mem_filter, Bool.not_eq_true', decide_eq_false_iff_not] at hs
    have hg := ((hi.ghost s hs.1).2 id hc)
    exact ⟨fun h => hs.2 (hg.mpr (Or.inl h)), fun h => hs.2 (hg.mpr (Or.inr h))⟩
  have hi1 := hi.filterSubs (fun s => !decide (s.owner = some id))
  have h2 := rmFilts_exact (id := id) (o := { o with os := none }) hi1 ha.of (fun s hs => (hrem s hs).1)
  have hi2 : StoreInv { dests := st.dests, filts := st.filts.filter (fun f => !decide (ownsSpec .filt id f.path.name)),
                        subs := st.subs.filter (fun s => !decide (s.owner = some id)) } := by
    refine ⟨List.Nodup.sublist (List.Sublist.map _ List.filter_sublist) hi.fnd, hi.dnd, hi1.snd, ?_, hi1.ghost⟩
    intro s hs
    obtain ⟨r1, r2⟩ := hi1.refs s hs
    refine ⟨?_, r2⟩
    obtain ⟨f, hf, e⟩ := hasFilt_iff.mp r1
    refine hasFilt_iff.mpr ⟨f, ?_, e⟩
    simp only [List.mem_filter, Bool.not_eq_true', decide_eq_false_iff_not]
    exact ⟨hf, fun h => (hrem s hs).1 (e ▸ h)⟩
  have h3 := rmDests_exact (id := id) (o := { o with os := none, of := none }) hi2 ha.od
    (fun s hs => (hrem s hs).2)
  simp only [stepRemoveServer, h1, h2, h3, purge]
  cases o; rfl

end Proofs.SubMgr
