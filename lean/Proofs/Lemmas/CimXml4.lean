/-
C01 — stage 3a: list decoders (`list_of_matching`) over concatenated child lists, qualifiers,
parameter declarations, methods.
-/
import Proofs.Lemmas.CimXml3

set_option linter.unusedSimpArgs false
set_option linter.unusedVariables false
set_option linter.unusedSectionVars false

namespace Proofs.CimXml
open Pywbem.Model Pywbem.Model.XmlText Pywbem.Proto

/-! ### Except-monad bookkeeping for `do x ← a; y ← b; pure (x ++ y)` -/

def app2 {α} (a b : R (List α)) : R (List α) := do let x ← a; let y ← b; pure (x ++ y)

theorem app2_ok {α} (x y : List α) : app2 (.ok x) (.ok y) = .ok (x ++ y) := rfl
theorem app2_nil_left {α} (b : R (List α)) : app2 (.ok []) b = b := by
  cases b <;> rfl

theorem app2_cons_bind {α} (h : R α) (a b : R (List α)) :
    app2 (do let p ← h; let r ← a; pure (p :: r)) b = (do let p ← h; let r ← app2 a b; pure (p :: r)) := by
  cases h with
  | error e => rfl
  | ok p =>
    cases a with
    | error e => rfl
    | ok x =>
      cases b with
      | error e => rfl
      | ok y => rfl

section
variable (C : DecCodec) (emb : Str → R Atom)

/-! ### decQualifiers -/

theorem decQualifiers_nil : decQualifiers C [] = .ok [] := rfl
theorem decQualifiers_text (s : Str) (ks : List Xml) : decQualifiers C (.text s :: ks) = decQualifiers C ks := rfl
theorem decQualifiers_hit (n : Str) (as) (kk ks : List Xml) (hn : n = "QUALIFIER".toList) :
    decQualifiers C (.elem n as kk :: ks) =
      (do let q ← decQualifier C (.elem n as kk); let rest ← decQualifiers C ks; pure (q :: rest)) := by
  simp only [decQualifiers]
  simp only [if_pos (show (Xml.elem n as kk).name = "QUALIFIER".toList from hn)]
theorem decQualifiers_miss (n : Str) (as) (kk ks : List Xml) (hn : n ≠ "QUALIFIER".toList) :
    decQualifiers C (.elem n as kk :: ks) = decQualifiers C ks := by
  simp only [decQualifiers]
  simp only [if_neg (show ¬ (Xml.elem n as kk).name = "QUALIFIER".toList from hn)]

theorem decQualifiers_append (a b : List Xml) :
    decQualifiers C (a ++ b) = app2 (decQualifiers C a) (decQualifiers C b) := by
  induction a with
  | nil => rw [List.nil_append, decQualifiers_nil, app2_nil_left]
  | cons k a ih =>
    cases k with
    | text s => simp only [List.cons_append, decQualifiers_text, ih]
    | elem n as kk =>
      by_cases hn : n = "QUALIFIER".toList
      · simp only [List.cons_append, decQualifiers_hit C _ _ _ _ hn, ih, app2_cons_bind]
      · simp only [List.cons_append, decQualifiers_miss C _ _ _ _ hn, ih]

theorem not_mem_names {n : Str} {names : List String} {x : String} (h : n ∈ names.map String.toList)
    (hx : x ∉ names) : n ≠ x.toList := by
  intro e
  simp only [List.mem_map] at h
  obtain ⟨nm, hnm, e2⟩ := h
  rw [e] at e2
  exact hx (by rw [← String.toList_inj.mp e2]; exact hnm)

theorem decQualifiers_skip (l : List Xml) (names : List String) (h : AllNames l names)
    (h1 : "QUALIFIER" ∉ names) : decQualifiers C l = .ok [] := by
  induction l with
  | nil => rfl
  | cons k l ih =>
    obtain ⟨he, hn⟩ := h k (by simp)
    cases k with
    | text s => simp [Xml.isElem] at he
    | elem n as kk =>
      have hn' : n ∈ names.map String.toList := hn
      rw [decQualifiers_miss C _ _ _ _ (not_mem_names hn' h1)]
      exact ih (allNames_tail h)

/-! ### decParameters -/

def paramNames : List String := ["PARAMETER", "PARAMETER.REFERENCE", "PARAMETER.ARRAY", "PARAMETER.REFARRAY"]

theorem decParameters_nil : decParameters C [] = .ok [] := rfl
theorem decParameters_text (s : Str) (ks : List Xml) : decParameters C (.text s :: ks) = decParameters C ks := rfl
theorem decParameters_hit (n : Str) (as) (kk ks : List Xml)
    (hn : nameIn (.elem n as kk) ["PARAMETER", "PARAMETER.REFERENCE", "PARAMETER.ARRAY", "PARAMETER.REFARRAY"] = true) :
    decParameters C (.elem n as kk :: ks) =
      (do let p ← decParameter C (.elem n as kk); let rest ← decParameters C ks; pure (p :: rest)) := by
  simp only [decParameters]
  simp only [hn, if_true]
theorem decParameters_miss (n : Str) (as) (kk ks : List Xml)
    (hn : nameIn (.elem n as kk) ["PARAMETER", "PARAMETER.REFERENCE", "PARAMETER.ARRAY", "PARAMETER.REFARRAY"] = false) :
    decParameters C (.elem n as kk :: ks) = decParameters C ks := by
  simp only [decParameters]
  simp only [hn, Bool.false_eq_true, if_false]

theorem decParameters_append (a b : List Xml) :
    decParameters C (a ++ b) = app2 (decParameters C a) (decParameters C b) := by
  induction a with
  | nil => rw [List.nil_append, decParameters_nil, app2_nil_left]
  | cons k a ih =>
    cases k with
    | text s => simp only [List.cons_append, decParameters_text, ih]
    | elem n as kk =>
      cases hn : nameIn (.elem n as kk) ["PARAMETER", "PARAMETER.REFERENCE", "PARAMETER.ARRAY", "PARAMETER.REFARRAY"]
      · simp only [List.cons_append, decParameters_miss C _ _ _ _ hn, ih]
      · simp only [List.cons_append, decParameters_hit C _ _ _ _ hn, ih, app2_cons_bind]

theorem nameIn_false_of {n : Str} {as} {kk : List Xml} {names allowed : List String}
    (hn : n ∈ names.map String.toList) (hd : ∀ x ∈ allowed, x ∉ names) :
    nameIn (.elem n as kk) allowed = false := by
  unfold nameIn
  rw [List.any_eq_false]
  intro x hx
  simp only [name_elem, beq_iff_eq]
  exact fun e => (not_mem_names hn (hd x hx)) e.symm

theorem decParameters_skip (l : List Xml) (names : List String) (h : AllNames l names)
    (hd : ∀ x ∈ ["PARAMETER", "PARAMETER.REFERENCE", "PARAMETER.ARRAY", "PARAMETER.REFARRAY"], x ∉ names) :
    decParameters C l = .ok [] := by
  induction l with
  | nil => rfl
  | cons k l ih =>
    obtain ⟨he, hn⟩ := h k (by simp)
    cases k with
    | text s => simp [Xml.isElem] at he
    | elem n as kk =>
      have hn' : n ∈ names.map String.toList := hn
      rw [decParameters_miss C _ _ _ _ (nameIn_false_of hn' hd)]
      exact ih (allNames_tail h)

/-! ### decMethods -/

theorem decMethods_nil : decMethods C [] = .ok [] := rfl
theorem decMethods_text (s : Str) (ks : List Xml) : decMethods C (.text s :: ks) = decMethods C ks := rfl
theorem decMethods_hit (n : Str) (as) (kk ks : List Xml) (hn : n = "METHOD".toList) :
    decMethods C (.elem n as kk :: ks) =
      (do let q ← decMethod C (.elem n as kk); let rest ← decMethods C ks; pure (q :: rest)) := by
  simp only [decMethods]
  simp only [if_pos (show (Xml.elem n as kk).name = "METHOD".toList from hn)]
theorem decMethods_miss (n : Str) (as) (kk ks : List Xml) (hn : n ≠ "METHOD".toList) :
    decMethods C (.elem n as kk :: ks) = decMethods C ks := by
  simp only [decMethods]
  simp only [if_neg (show ¬ (Xml.elem n as kk).name = "METHOD".toList from hn)]

theorem decMethods_append (a b : List Xml) :
    decMethods C (a ++ b) = app2 (decMethods C a) (decMethods C b) := by
  induction a with
  | nil => rw [List.nil_append, decMethods_nil, app2_nil_left]
  | cons k a ih =>
    cases k with
    | text s => simp only [List.cons_append, decMethods_text, ih]
    | elem n as kk =>
      by_cases hn : n = "METHOD".toList
      · simp only [List.cons_append, decMethods_hit C _ _ _ _ hn, ih, app2_cons_bind]
      · simp only [List.cons_append, decMethods_miss C _ _ _ _ hn, ih]

theorem decMethods_skip (l : List Xml) (names : List String) (h : AllNames l names)
    (h1 : "METHOD" ∉ names) : decMethods C l = .ok [] := by
  induction l with
  | nil => rfl
  | cons k l ih =>
    obtain ⟨he, hn⟩ := h k (by simp)
    cases k with
    | text s => simp [Xml.isElem] at he
    | elem n as kk =>
      have hn' : n ∈ names.map String.toList := hn
      rw [decMethods_miss C _ _ _ _ (not_mem_names hn' h1)]
      exact ih (allNames_tail h)

/-! ### decProperties -/

/-- the per-element dispatch of `decProperties` -/
def decPropElem (t : Xml) : R Prop_ :=
  if t.name = "PROPERTY".toList then decProperty C emb t
  else if t.name = "PROPERTY.ARRAY".toList then decPropertyArray C emb t
  else decPropertyReference C t

def isPropName (n : Str) : Prop :=
  n = "PROPERTY".toList ∨ n = "PROPERTY.ARRAY".toList ∨ n = "PROPERTY.REFERENCE".toList

instance (n : Str) : Decidable (isPropName n) := by unfold isPropName; infer_instance

theorem decProperties_nil : decProperties C emb [] = .ok [] := rfl
theorem decProperties_text (s : Str) (ks : List Xml) :
    decProperties C emb (.text s :: ks) = decProperties C emb ks := rfl
theorem decProperties_hit (n : Str) (as) (kk ks : List Xml) (hn : isPropName n) :
    decProperties C emb (.elem n as kk :: ks) =
      (do let p ← decPropElem C emb (.elem n as kk); let rest ← decProperties C emb ks; pure (p :: rest)) := by
  simp only [decProperties, decPropElem]
  by_cases h1 : (Xml.elem n as kk).name = "PROPERTY".toList
  · simp only [if_pos h1]
  · by_cases h2 : (Xml.elem n as kk).name = "PROPERTY.ARRAY".toList
    · simp only [if_neg h1, if_pos h2]
    · have h3 : (Xml.elem n as kk).name = "PROPERTY.REFERENCE".toList := by
        rcases hn with h | h | h
        · exact absurd h h1
        · exact absurd h h2
        · exact h
      simp only [if_neg h1, if_neg h2, if_pos h3]
theorem decProperties_miss (n : Str) (as) (kk ks : List Xml) (hn : ¬ isPropName n) :
    decProperties C emb (.elem n as kk :: ks) = decProperties C emb ks := by
  have h1 : ¬ (Xml.elem n as kk).name = "PROPERTY".toList := fun h => hn (Or.inl h)
  have h2 : ¬ (Xml.elem n as kk).name = "PROPERTY.ARRAY".toList := fun h => hn (Or.inr (Or.inl h))
  have h3 : ¬ (Xml.elem n as kk).name = "PROPERTY.REFERENCE".toList := fun h => hn (Or.inr (Or.inr h))
  simp only [decProperties]
  simp only [if_neg h1, if_neg h2, if_neg h3]

theorem decProperties_append (a b : List Xml) :
    decProperties C emb (a ++ b) = app2 (decProperties C emb a) (decProperties C emb b) := by
  induction a with
  | nil => rw [List.nil_append, decProperties_nil, app2_nil_left]
  | cons k a ih =>
    cases k with
    | text s => simp only [List.cons_append, decProperties_text, ih]
    | elem n as kk =>
      by_cases hn : isPropName n
      · simp only [List.cons_append, decProperties_hit C emb _ _ _ _ hn, ih, app2_cons_bind]
      · simp only [List.cons_append, decProperties_miss C emb _ _ _ _ hn, ih]

theorem decProperties_skip (l : List Xml) (names : List String) (h : AllNames l names)
    (h1 : "PROPERTY" ∉ names) (h2 : "PROPERTY.ARRAY" ∉ names) (h3 : "PROPERTY.REFERENCE" ∉ names) :
    decProperties C emb l = .ok [] := by
  induction l with
  | nil => rfl
  | cons k l ih =>
    obtain ⟨he, hn⟩ := h k (by simp)
    cases k with
    | text s => simp [Xml.isElem] at he
    | elem n as kk =>
      have hn' : n ∈ names.map String.toList := hn
      have : ¬ isPropName n := by
        intro hp
        rcases hp with e | e | e
        · exact not_mem_names hn' h1 e
        · exact not_mem_names hn' h2 e
        · exact not_mem_names hn' h3 e
      rw [decProperties_miss C emb _ _ _ _ this]
      exact ih (allNames_tail h)

/-! ### decValueRefs -/

theorem decValueRefs_nil : decValueRefs C [] = .ok [] := rfl
theorem decValueRefs_hit (n : Str) (as) (kk ks : List Xml) (hn : n = "VALUE.REFERENCE".toList) :
    decValueRefs C (.elem n as kk :: ks) =
      (do let p ← decValueReference C (.elem n as kk); let rest ← decValueRefs C ks; pure (p :: rest)) := by
  simp only [decValueRefs]
  simp only [if_pos (show (Xml.elem n as kk).name = "VALUE.REFERENCE".toList from hn)]
theorem decValueRefs_miss (n : Str) (as) (kk ks : List Xml) (hn : n ≠ "VALUE.REFERENCE".toList) :
    decValueRefs C (.elem n as kk :: ks) = decValueRefs C ks := by
  simp only [decValueRefs]
  simp only [if_neg (show ¬ (Xml.elem n as kk).name = "VALUE.REFERENCE".toList from hn)]

theorem decValueRefs_skip (l ks : List Xml) (names : List String) (h : AllNames l names)
    (h1 : "VALUE.REFERENCE" ∉ names) : decValueRefs C (l ++ ks) = decValueRefs C ks := by
  induction l with
  | nil => rfl
  | cons k l ih =>
    obtain ⟨he, hn⟩ := h k (by simp)
    cases k with
    | text s => simp [Xml.isElem] at he
    | elem n as kk =>
      have hn' : n ∈ names.map String.toList := hn
      rw [List.cons_append, decValueRefs_miss C _ _ _ _ (not_mem_names hn' h1)]
      exact ih (allNames_tail h)

end

/-! ### attribute helpers -/

theorem checkNode_ok_some (n : String) (as : List (Str × Str)) (ks : List Xml) (req opt : List String)
    (a : List String) (pc : Bool) (h1 : attrKeysOk as req opt = true) (h2 : kidsOk ks a = true)
    (h3 : pc = true ∨ noText ks = true) :
    checkNode (E n as ks) n req opt (some a) pc = .ok (as, ks) :=
  checkNode_ok n as ks req opt (some a) pc h1 h2 h3

theorem boolAttrOf_false (as : List (Str × Str)) (k : String) (v : Option Bool)
    (h : Xml.attr as k.toList = v.map boolAttr) : boolAttrOf as k "false" = .ok (dBool false v) := by
  unfold boolAttrOf getAttrD
  rw [h]
  cases v with
  | none => exact unpackBoolean_false
  | some b => exact unpackBoolean_boolAttr b

theorem boolAttrOf_true (as : List (Str × Str)) (k : String) (v : Option Bool)
    (h : Xml.attr as k.toList = v.map boolAttr) : boolAttrOf as k "true" = .ok (dBool true v) := by
  unfold boolAttrOf getAttrD
  rw [h]
  cases v with
  | none => exact unpackBoolean_true
  | some b => exact unpackBoolean_boolAttr b

theorem arraySizeOf_ok (as : List (Str × Str)) (asz : Option Nat)
    (h : Xml.attr as "ARRAYSIZE".toList = asz.map natToStr) : arraySizeOf as = .ok asz := by
  unfold arraySizeOf
  rw [h]
  cases asz with
  | none => rfl
  | some n => simp only [Option.map_some, pyInt_natToStr]; rfl

theorem arraySizeOf_none (as : List (Str × Str))
    (h : Xml.attr as "ARRAYSIZE".toList = none) : arraySizeOf as = .ok none := by
  unfold arraySizeOf
  rw [h]; rfl

/-! ### qualifiers -/

def qualAttrs (name ty : Str) (p o ts ti tr : Option Bool) : List (Str × Str) :=
  [("NAME".toList, name), ("TYPE".toList, ty)] ++ optBoolAttr "PROPAGATED" p ++
    optBoolAttr "OVERRIDABLE" o ++ optBoolAttr "TOSUBCLASS" ts ++
    optBoolAttr "TOINSTANCE" ti ++ optBoolAttr "TRANSLATABLE" tr

theorem encQual_eq (C : Codec) (name ty : Str) (val : Val) (p o ts ti tr : Option Bool) :
    encQual C (.mk name ty val p o ts ti tr) = E "QUALIFIER" (qualAttrs name ty p o ts ti tr) (encVal C val) := by
  simp only [encQual, qualAttrs]

theorem qualAttrs_keysOk (name ty : Str) (p o ts ti tr : Option Bool) :
    attrKeysOk (qualAttrs name ty p o ts ti tr) ["NAME", "TYPE"]
      ["OVERRIDABLE", "TOSUBCLASS", "TOINSTANCE", "TRANSLATABLE", "PROPAGATED", "xml:lang"] = true := by
  apply attrKeysOk_of
  · intro k hk
    simp at hk
    rcases hk with rfl | rfl <;> simp [qualAttrs]
  · unfold qualAttrs
    refine keysIn_append (keysIn_append (keysIn_append (keysIn_append (keysIn_append ?_ ?_) ?_) ?_) ?_) ?_
    · exact keysIn_cons (by simp) (keysIn_cons (by simp) (keysIn_nil _))
    all_goals exact keysIn_optBoolAttr (by simp)

theorem qualAttrs_NAME (name ty : Str) (p o ts ti tr : Option Bool) :
    getAttrD (qualAttrs name ty p o ts ti tr) "NAME" "" = name := by
  simp [qualAttrs, getAttrD, attr_append]
theorem qualAttrs_TYPE (name ty : Str) (p o ts ti tr : Option Bool) :
    getAttrD (qualAttrs name ty p o ts ti tr) "TYPE" "" = ty := by
  simp [qualAttrs, getAttrD, attr_append]
theorem qualAttrs_P (name ty : Str) (p o ts ti tr : Option Bool) :
    Xml.attr (qualAttrs name ty p o ts ti tr) "PROPAGATED".toList = p.map boolAttr := by
  cases p <;> simp [qualAttrs, attr_append]
theorem qualAttrs_O (name ty : Str) (p o ts ti tr : Option Bool) :
    Xml.attr (qualAttrs name ty p o ts ti tr) "OVERRIDABLE".toList = o.map boolAttr := by
  cases o <;> simp [qualAttrs, attr_append]
theorem qualAttrs_TS (name ty : Str) (p o ts ti tr : Option Bool) :
    Xml.attr (qualAttrs name ty p o ts ti tr) "TOSUBCLASS".toList = ts.map boolAttr := by
  cases ts <;> simp [qualAttrs, attr_append]
theorem qualAttrs_TI (name ty : Str) (p o ts ti tr : Option Bool) :
    Xml.attr (qualAttrs name ty p o ts ti tr) "TOINSTANCE".toList = ti.map boolAttr := by
  cases ti <;> simp [qualAttrs, attr_append]
theorem qualAttrs_TR (name ty : Str) (p o ts ti tr : Option Bool) :
    Xml.attr (qualAttrs name ty p o ts ti tr) "TRANSLATABLE".toList = tr.map boolAttr := by
  cases tr <;> simp [qualAttrs, attr_append]

/-- the value children of a plain value are VALUE / VALUE.ARRAY elements -/
theorem allNames_encVal_plain (C : Codec) (S : Spec) (ty : Str) (v : Val) (h : PlainVal S ty v) :
    AllNames (encVal C v) ["VALUE", "VALUE.ARRAY"] := by
  cases v with
  | null => simp only [encVal]; exact allNames_nil _
  | scalar a =>
    rw [encVal_scalar_plain C S a ty h]
    exact allNames_cons ⟨rfl, by simp [valueElem, name_E]⟩ (allNames_nil _)
  | array l =>
    simp only [encVal]
    exact allNames_cons ⟨rfl, by simp [name_E]⟩ (allNames_nil _)

section
variable (C : DecCodec) (S : Spec) (hC : CodecOk C S)

include hC in
/-- **qualifier round trip** -/
theorem rt_qual (q : Qual) (h : SendableQual S q) :
    decQualifier C (encQual C.toCodec q) = .ok (wdQual C.toCodec q) := by
  obtain ⟨name, ty, val, p, o, ts, ti, tr⟩ := q
  have hv : PlainVal S ty val := h.1
  have hty : qualTypeOk ty = true := h.2
  have hA := allNames_encVal_plain C.toCodec S ty val hv
  rw [encQual_eq]
  unfold decQualifier
  rw [checkNode_ok_some "QUALIFIER" _ _ _ _ _ _ (qualAttrs_keysOk ..) (kidsOk_of_allNames _ hA (by simp))
    (Or.inr (noText_of_allNames hA))]
  have hu := unpackValue_plain C S hC ty val hv [] [] (allNames_nil _) (by simp) (by simp)
  rw [List.nil_append] at hu
  simp only [bind_ok, qualAttrs_TYPE, qualAttrs_NAME, hu,
    boolAttrOf_false _ "PROPAGATED" p (qualAttrs_P ..), boolAttrOf_true _ "OVERRIDABLE" o (qualAttrs_O ..),
    boolAttrOf_true _ "TOSUBCLASS" ts (qualAttrs_TS ..), boolAttrOf_false _ "TOINSTANCE" ti (qualAttrs_TI ..),
    boolAttrOf_false _ "TRANSLATABLE" tr (qualAttrs_TR ..), pure_eq_ok, wdQual, hty, Bool.not_true,
    Bool.false_eq_true, if_false]

theorem encQual_shape (q : Qual) : ∃ as ks, encQual C.toCodec q = .elem "QUALIFIER".toList as ks := by
  obtain ⟨name, ty, val, p, o, ts, ti, tr⟩ := q
  exact ⟨_, _, encQual_eq ..⟩

theorem allNames_encQuals (qs : List Qual) : AllNames (encQuals C.toCodec qs) ["QUALIFIER"] := by
  induction qs with
  | nil => simp only [encQuals]; exact allNames_nil _
  | cons q qs ih =>
    obtain ⟨as, ks, e⟩ := encQual_shape C q
    simp only [encQuals]
    apply allNames_cons _ ih
    rw [e]; exact ⟨rfl, by simp [name_elem]⟩

include hC in
theorem rt_quals_list (qs : List Qual) (h : ∀ q ∈ qs, SendableQual S q) :
    decQualifiers C (encQuals C.toCodec qs) = .ok (wdQuals C.toCodec qs) := by
  induction qs with
  | nil => simp only [encQuals, wdQuals]; rfl
  | cons q qs ih =>
    obtain ⟨as, ks, e⟩ := encQual_shape C q
    have hq := rt_qual C S hC q (h q (by simp))
    simp only [encQuals, wdQuals]
    rw [e] at hq ⊢
    rw [decQualifiers_hit C _ _ _ _ rfl, hq, ih (fun x hx => h x (by simp [hx]))]
    rfl

theorem wdQual_name (q : Qual) : Qual.name (wdQual C.toCodec q) = Qual.name q := by
  obtain ⟨name, ty, val, p, o, ts, ti, tr⟩ := q; rfl

theorem wdQuals_names (qs : List Qual) : (wdQuals C.toCodec qs).map Qual.name = qs.map Qual.name := by
  induction qs with
  | nil => rfl
  | cons q qs ih => simp [wdQuals, wdQual_name, ih]

include hC in
/-- the qualifier children of any element: decoded, put into the NocaseDict, all kept in order;
    `rest` are the sibling elements of other kinds that follow -/
theorem rt_quals (qs : List Qual) (h : SendableQuals S qs) (rest : List Xml) (names : List String)
    (hr : AllNames rest names) (hn : "QUALIFIER" ∉ names) :
    (do let quals ← decQualifiers C (encQuals C.toCodec qs ++ rest); pure (dictOfList Qual.name quals)) =
      (.ok (wdQuals C.toCodec qs) : R (List Qual)) := by
  rw [decQualifiers_append, rt_quals_list C S hC qs h.1, decQualifiers_skip C rest names hr hn, app2_ok,
    List.append_nil]
  simp only [bind_ok, pure_eq_ok]
  rw [dictOfList_nodup Qual.name _ (by rw [wdQuals_names]; exact h.2)]

include hC in
theorem rt_quals' (qs : List Qual) (h : SendableQuals S qs) (rest : List Xml) (names : List String)
    (hr : AllNames rest names) (hn : "QUALIFIER" ∉ names) :
    decQualifiers C (encQuals C.toCodec qs ++ rest) = .ok (wdQuals C.toCodec qs) ∧
    dictOfList Qual.name (wdQuals C.toCodec qs) = wdQuals C.toCodec qs := by
  constructor
  · rw [decQualifiers_append, rt_quals_list C S hC qs h.1, decQualifiers_skip C rest names hr hn, app2_ok,
      List.append_nil]
  · exact dictOfList_nodup Qual.name _ (by rw [wdQuals_names]; exact h.2)

end


/-! ### parameter declarations -/

section
variable (C : DecCodec) (S : Spec) (hC : CodecOk C S)

theorem decParameter_plain (n : Str) (as) (ks : List Xml) (qs : List Qual) (hn : n = "PARAMETER".toList)
    (hc : checkNode (.elem n as ks) "PARAMETER" ["NAME", "TYPE"] [] (some ["QUALIFIER"]) false = .ok (as, ks))
    (hq : decQualifiers C ks = .ok qs) (hty : cimTypeOk (getAttrD as "TYPE" "") = true) :
    decParameter C (.elem n as ks) =
      .ok (.mk (getAttrD as "NAME" "") (getAttrD as "TYPE" "") none false none (dictOfList Qual.name qs) .null none) := by
  simp only [decParameter]
  simp only [if_pos hn, hc, bind_ok, hq, pure_eq_ok, hty, Bool.not_true, Bool.false_eq_true, if_false]

theorem decParameter_ref (n : Str) (as) (ks : List Xml) (qs : List Qual) (hn : n = "PARAMETER.REFERENCE".toList)
    (hc : checkNode (.elem n as ks) "PARAMETER.REFERENCE" ["NAME"] ["REFERENCECLASS"] (some ["QUALIFIER"]) false = .ok (as, ks))
    (hq : decQualifiers C ks = .ok qs) :
    decParameter C (.elem n as ks) =
      .ok (.mk (getAttrD as "NAME" "") "reference".toList (Xml.attr as "REFERENCECLASS".toList) false none
        (dictOfList Qual.name qs) .null none) := by
  have h1 : n ≠ "PARAMETER".toList := by rw [hn]; decide
  simp only [decParameter]
  simp only [if_neg h1, if_pos hn, hc, bind_ok, hq, pure_eq_ok]

theorem decParameter_array (n : Str) (as) (ks : List Xml) (qs : List Qual) (asz : Option Nat)
    (hn : n = "PARAMETER.ARRAY".toList)
    (hc : checkNode (.elem n as ks) "PARAMETER.ARRAY" ["NAME", "TYPE"] ["ARRAYSIZE"] (some ["QUALIFIER"]) false = .ok (as, ks))
    (ha : arraySizeOf as = .ok asz) (hq : decQualifiers C ks = .ok qs)
    (hty : cimTypeOk (getAttrD as "TYPE" "") = true) :
    decParameter C (.elem n as ks) =
      .ok (.mk (getAttrD as "NAME" "") (getAttrD as "TYPE" "") none true asz (dictOfList Qual.name qs) .null none) := by
  have h1 : n ≠ "PARAMETER".toList := by rw [hn]; decide
  have h2 : n ≠ "PARAMETER.REFERENCE".toList := by rw [hn]; decide
  simp only [decParameter]
  simp only [if_neg h1, if_neg h2, if_pos hn, hc, bind_ok, ha, hq, pure_eq_ok, hty, Bool.not_true,
    Bool.false_eq_true, if_false]

theorem decParameter_refarray (n : Str) (as) (ks : List Xml) (qs : List Qual) (asz : Option Nat)
    (hn : n = "PARAMETER.REFARRAY".toList)
    (hc : checkNode (.elem n as ks) "PARAMETER.REFARRAY" ["NAME"] ["REFERENCECLASS", "ARRAYSIZE"] (some ["QUALIFIER"]) false = .ok (as, ks))
    (ha : arraySizeOf as = .ok asz) (hq : decQualifiers C ks = .ok qs) :
    decParameter C (.elem n as ks) =
      .ok (.mk (getAttrD as "NAME" "") "reference".toList (Xml.attr as "REFERENCECLASS".toList) true asz
        (dictOfList Qual.name qs) .null none) := by
  have h1 : n ≠ "PARAMETER".toList := by rw [hn]; decide
  have h2 : n ≠ "PARAMETER.REFERENCE".toList := by rw [hn]; decide
  have h3 : n ≠ "PARAMETER.ARRAY".toList := by rw [hn]; decide
  simp only [decParameter]
  simp only [if_neg h1, if_neg h2, if_neg h3, if_pos hn, hc, bind_ok, ha, hq, pure_eq_ok]

theorem kidsOk_encQuals (qs : List Qual) (allowed : List String) (h : "QUALIFIER" ∈ allowed) :
    kidsOk (encQuals C.toCodec qs) allowed = true :=
  kidsOk_of_allNames _ (allNames_encQuals C qs) (by intro n hn; simp at hn; subst hn; exact h)

include hC in
/-- **parameter-declaration round trip** (all four element forms) -/
theorem rt_param (p : Param) (h : SendableParam S p) :
    decParameter C (encParam C.toCodec p) = .ok (wdParam C.toCodec p) := by
  obtain ⟨name, ty, refCls, isArray, asz, quals, val, emb⟩ := p
  obtain ⟨hq, hr, ha, hct⟩ := h
  have hql := rt_quals_list C S hC quals hq.1
  have hd := dictOfList_nodup Qual.name (wdQuals C.toCodec quals) (by rw [wdQuals_names]; exact hq.2)
  have hnt := noText_of_allNames (allNames_encQuals C quals)
  cases isArray with
  | false =>
    have hasz : asz = none := ha rfl
    subst hasz
    by_cases hty : ty = "reference".toList
    · subst hty
      simp only [encParam, Bool.false_eq_true, if_false, if_true, wdParam]
      have hk : attrKeysOk ([("NAME".toList, name)] ++ optAttr "REFERENCECLASS" refCls) ["NAME"] ["REFERENCECLASS"] = true := by
        apply attrKeysOk_of
        · intro k hk; simp at hk; subst hk; simp [attr_append]
        · exact keysIn_append (keysIn_cons (by simp) (keysIn_nil _)) (keysIn_optAttr (by simp))
      have hc := checkNode_ok_some "PARAMETER.REFERENCE" _ (encQuals C.toCodec quals) _ _ _ false hk
        (kidsOk_encQuals C quals ["QUALIFIER"] (by simp)) (Or.inr hnt)
      unfold E at hc ⊢
      rw [decParameter_ref C _ _ _ _ rfl hc hql, hd]
      have e1 : getAttrD ([("NAME".toList, name)] ++ optAttr "REFERENCECLASS" refCls) "NAME" "" = name := by
        simp [getAttrD, attr_append]
      have e2 : Xml.attr ([("NAME".toList, name)] ++ optAttr "REFERENCECLASS" refCls) "REFERENCECLASS".toList = refCls := by
        cases refCls <;> simp [attr_append]
      rw [e1, e2]
    · have hrc : refCls = none := hr hty
      subst hrc
      simp only [encParam, Bool.false_eq_true, if_false, if_neg hty, wdParam]
      have hk : attrKeysOk [("NAME".toList, name), ("TYPE".toList, ty)] ["NAME", "TYPE"] [] = true := by
        apply attrKeysOk_of
        · intro k hk; simp at hk; rcases hk with rfl | rfl <;> simp
        · exact keysIn_cons (by simp) (keysIn_cons (by simp) (keysIn_nil _))
      have hc := checkNode_ok_some "PARAMETER" _ (encQuals C.toCodec quals) _ _ _ false hk
        (kidsOk_encQuals C quals ["QUALIFIER"] (by simp)) (Or.inr hnt)
      have e1 : getAttrD [("NAME".toList, name), ("TYPE".toList, ty)] "NAME" "" = name := by simp [getAttrD]
      have e2 : getAttrD [("NAME".toList, name), ("TYPE".toList, ty)] "TYPE" "" = ty := by simp [getAttrD]
      unfold E at hc ⊢
      rw [decParameter_plain C _ _ _ _ rfl hc hql (by rw [e2]; exact hct), hd]
      rw [e1, e2]
  | true =>
    by_cases hty : ty = "reference".toList
    · subst hty
      simp only [encParam, if_true, wdParam]
      have hk : attrKeysOk ([("NAME".toList, name)] ++ optAttr "REFERENCECLASS" refCls ++
          optAttr "ARRAYSIZE" (asz.map natToStr)) ["NAME"] ["REFERENCECLASS", "ARRAYSIZE"] = true := by
        apply attrKeysOk_of
        · intro k hk; simp at hk; subst hk; simp [attr_append]
        · exact keysIn_append (keysIn_append (keysIn_cons (by simp) (keysIn_nil _)) (keysIn_optAttr (by simp)))
            (keysIn_optAttr (by simp))
      have hc := checkNode_ok_some "PARAMETER.REFARRAY" _ (encQuals C.toCodec quals) _ _ _ false hk
        (kidsOk_encQuals C quals ["QUALIFIER"] (by simp)) (Or.inr hnt)
      have e3 : Xml.attr ([("NAME".toList, name)] ++ optAttr "REFERENCECLASS" refCls ++
          optAttr "ARRAYSIZE" (asz.map natToStr)) "ARRAYSIZE".toList = asz.map natToStr := by
        cases asz <;> cases refCls <;> simp [attr_append]
      unfold E at hc ⊢
      rw [decParameter_refarray C _ _ _ _ asz rfl hc (arraySizeOf_ok _ _ e3) hql, hd]
      have e1 : getAttrD ([("NAME".toList, name)] ++ optAttr "REFERENCECLASS" refCls ++
          optAttr "ARRAYSIZE" (asz.map natToStr)) "NAME" "" = name := by
        simp [getAttrD, attr_append]
      have e2 : Xml.attr ([("NAME".toList, name)] ++ optAttr "REFERENCECLASS" refCls ++
          optAttr "ARRAYSIZE" (asz.map natToStr)) "REFERENCECLASS".toList = refCls := by
        cases refCls <;> cases asz <;> simp [attr_append]
      rw [e1, e2]
    · have hrc : refCls = none := hr hty
      subst hrc
      simp only [encParam, if_true, if_neg hty, wdParam]
      have hk : attrKeysOk ([("NAME".toList, name), ("TYPE".toList, ty)] ++
          optAttr "ARRAYSIZE" (asz.map natToStr)) ["NAME", "TYPE"] ["ARRAYSIZE"] = true := by
        apply attrKeysOk_of
        · intro k hk; simp at hk; rcases hk with rfl | rfl <;> simp [attr_append]
        · exact keysIn_append (keysIn_cons (by simp) (keysIn_cons (by simp) (keysIn_nil _))) (keysIn_optAttr (by simp))
      have hc := checkNode_ok_some "PARAMETER.ARRAY" _ (encQuals C.toCodec quals) _ _ _ false hk
        (kidsOk_encQuals C quals ["QUALIFIER"] (by simp)) (Or.inr hnt)
      have e3 : Xml.attr ([("NAME".toList, name), ("TYPE".toList, ty)] ++
          optAttr "ARRAYSIZE" (asz.map natToStr)) "ARRAYSIZE".toList = asz.map natToStr := by
        cases asz <;> simp [attr_append]
      have e1 : getAttrD ([("NAME".toList, name), ("TYPE".toList, ty)] ++
          optAttr "ARRAYSIZE" (asz.map natToStr)) "NAME" "" = name := by simp [getAttrD, attr_append]
      have e2 : getAttrD ([("NAME".toList, name), ("TYPE".toList, ty)] ++
          optAttr "ARRAYSIZE" (asz.map natToStr)) "TYPE" "" = ty := by simp [getAttrD, attr_append]
      unfold E at hc ⊢
      rw [decParameter_array C _ _ _ _ asz rfl hc (arraySizeOf_ok _ _ e3) hql (by rw [e2]; exact hct), hd]
      rw [e1, e2]

theorem encParam_shape (p : Param) :
    ∃ n as ks, encParam C.toCodec p = .elem n as ks ∧ n ∈ paramNames.map String.toList := by
  obtain ⟨name, ty, refCls, isArray, asz, quals, val, emb⟩ := p
  cases isArray <;> by_cases hty : ty = "reference".toList
  · exact ⟨_, _, _, by simp only [encParam, Bool.false_eq_true, if_false, if_pos hty]; rfl, by simp [paramNames]⟩
  · exact ⟨_, _, _, by simp only [encParam, Bool.false_eq_true, if_false, if_neg hty]; rfl, by simp [paramNames]⟩
  · exact ⟨_, _, _, by simp only [encParam, if_true, if_pos hty]; rfl, by simp [paramNames]⟩
  · exact ⟨_, _, _, by simp only [encParam, if_true, if_neg hty]; rfl, by simp [paramNames]⟩

theorem allNames_encParams (ps : List Param) : AllNames (encParams C.toCodec ps) paramNames := by
  induction ps with
  | nil => simp only [encParams]; exact allNames_nil _
  | cons p ps ih =>
    obtain ⟨n, as, ks, e, hn⟩ := encParam_shape C p
    simp only [encParams]
    apply allNames_cons _ ih
    rw [e]; exact ⟨rfl, hn⟩

include hC in
theorem rt_params_list (ps : List Param) (h : ∀ p ∈ ps, SendableParam S p) :
    decParameters C (encParams C.toCodec ps) = .ok (wdParams C.toCodec ps) := by
  induction ps with
  | nil => simp only [encParams, wdParams]; rfl
  | cons p ps ih =>
    obtain ⟨n, as, ks, e, hn⟩ := encParam_shape C p
    have hp := rt_param C S hC p (h p (by simp))
    simp only [encParams, wdParams]
    rw [e] at hp ⊢
    have hin : nameIn (.elem n as ks) ["PARAMETER", "PARAMETER.REFERENCE", "PARAMETER.ARRAY", "PARAMETER.REFARRAY"] = true := by
      unfold nameIn
      rw [List.any_eq_true]
      simp only [paramNames, List.mem_map] at hn
      obtain ⟨x, hx, e2⟩ := hn
      exact ⟨x, hx, by simp [name_elem, e2]⟩
    rw [decParameters_hit C _ _ _ _ hin, hp, ih (fun x hx => h x (by simp [hx]))]
    rfl

theorem wdParam_name (p : Param) : Param.name (wdParam C.toCodec p) = Param.name p := by
  obtain ⟨name, ty, refCls, isArray, asz, quals, val, emb⟩ := p; rfl

theorem wdParams_names (ps : List Param) : (wdParams C.toCodec ps).map Param.name = ps.map Param.name := by
  induction ps with
  | nil => rfl
  | cons p ps ih => simp [wdParams, wdParam_name, ih]

/-! ### methods -/

def methAttrs (name : Str) (retTy origin : Option Str) (propagated : Option Bool) : List (Str × Str) :=
  [("NAME".toList, name)] ++ optAttr "TYPE" retTy ++ optAttr "CLASSORIGIN" origin ++
    optBoolAttr "PROPAGATED" propagated

theorem encMeth_eq (name : Str) (retTy : Option Str) (params : List Param) (origin : Option Str)
    (propagated : Option Bool) (quals : List Qual) :
    encMeth C.toCodec (.mk name retTy params origin propagated quals) =
      E "METHOD" (methAttrs name retTy origin propagated) (encQuals C.toCodec quals ++ encParams C.toCodec params) := by
  simp only [encMeth, methAttrs]

theorem methAttrs_keysOk (name : Str) (retTy origin : Option Str) (propagated : Option Bool) :
    attrKeysOk (methAttrs name retTy origin propagated) ["NAME"] ["TYPE", "CLASSORIGIN", "PROPAGATED"] = true := by
  apply attrKeysOk_of
  · intro k hk; simp at hk; subst hk; simp [methAttrs, attr_append]
  · unfold methAttrs
    exact keysIn_append (keysIn_append (keysIn_append (keysIn_cons (by simp) (keysIn_nil _))
      (keysIn_optAttr (by simp))) (keysIn_optAttr (by simp))) (keysIn_optBoolAttr (by simp))

theorem methAttrs_NAME (name : Str) (retTy origin : Option Str) (propagated : Option Bool) :
    getAttrD (methAttrs name retTy origin propagated) "NAME" "" = name := by
  simp [methAttrs, getAttrD, attr_append]
theorem methAttrs_TYPE (name : Str) (retTy origin : Option Str) (propagated : Option Bool) :
    Xml.attr (methAttrs name retTy origin propagated) "TYPE".toList = retTy := by
  cases retTy <;> simp [methAttrs, attr_append]
theorem methAttrs_ORIGIN (name : Str) (retTy origin : Option Str) (propagated : Option Bool) :
    Xml.attr (methAttrs name retTy origin propagated) "CLASSORIGIN".toList = origin := by
  cases origin <;> cases retTy <;> simp [methAttrs, attr_append]
theorem methAttrs_P (name : Str) (retTy origin : Option Str) (propagated : Option Bool) :
    Xml.attr (methAttrs name retTy origin propagated) "PROPAGATED".toList = propagated.map boolAttr := by
  cases propagated <;> cases origin <;> cases retTy <;> simp [methAttrs, attr_append]

include hC in
/-- **method round trip** -/
theorem rt_meth (m : Meth) (h : SendableMeth S m) :
    decMethod C (encMeth C.toCodec m) = .ok (wdMeth C.toCodec m) := by
  obtain ⟨name, retTy, params, origin, propagated, quals⟩ := m
  obtain ⟨⟨rt, hrt, hct, hnr⟩, hp, hq⟩ := h
  subst hrt
  obtain ⟨c, cs, rfl⟩ : ∃ c cs, rt = c :: cs := by
    cases rt with
    | nil => exact absurd hct (by decide)
    | cons c cs => exact ⟨c, cs, rfl⟩
  have hchk : (!cimTypeOk (c :: cs) || decide ((c :: cs) = "reference".toList)) = false := by
    rw [hct, Bool.not_true, Bool.false_or]
    exact decide_eq_false hnr
  have hAq := allNames_encQuals C quals
  have hAp := allNames_encParams C params
  have hA : AllNames (encQuals C.toCodec quals ++ encParams C.toCodec params)
      ["QUALIFIER", "PARAMETER", "PARAMETER.REFERENCE", "PARAMETER.ARRAY", "PARAMETER.REFARRAY"] :=
    allNames_append (allNames_mono hAq (by simp)) (allNames_mono hAp (by simp [paramNames]))
  rw [encMeth_eq]
  unfold decMethod
  rw [checkNode_ok_some "METHOD" _ _ _ _ _ false (methAttrs_keysOk ..)
    (kidsOk_of_allNames _ hA (by simp)) (Or.inr (noText_of_allNames hA))]
  have hps : decParameters C (encQuals C.toCodec quals ++ encParams C.toCodec params) = .ok (wdParams C.toCodec params) := by
    rw [decParameters_append, decParameters_skip C _ _ hAq (by simp), rt_params_list C S hC params hp.1, app2_ok]
    rfl
  obtain ⟨hqs, hqd⟩ := rt_quals' C S hC quals hq _ paramNames hAp (by simp [paramNames])
  have hpd := dictOfList_nodup Param.name (wdParams C.toCodec params) (by rw [wdParams_names]; exact hp.2)
  simp only [bind_ok, hps, hqs, boolAttrOf_false _ "PROPAGATED" propagated (methAttrs_P ..), methAttrs_TYPE,
    methAttrs_ORIGIN, methAttrs_NAME, hqd, hpd, pure_eq_ok, wdMeth, hchk, Bool.false_eq_true, if_false]

theorem encMeth_shape (m : Meth) : ∃ as ks, encMeth C.toCodec m = .elem "METHOD".toList as ks := by
  obtain ⟨name, retTy, params, origin, propagated, quals⟩ := m
  exact ⟨_, _, encMeth_eq ..⟩

theorem allNames_encMeths (ms : List Meth) : AllNames (encMeths C.toCodec ms) ["METHOD"] := by
  induction ms with
  | nil => simp only [encMeths]; exact allNames_nil _
  | cons m ms ih =>
    obtain ⟨as, ks, e⟩ := encMeth_shape C m
    simp only [encMeths]
    apply allNames_cons _ ih
    rw [e]; exact ⟨rfl, by simp [name_elem]⟩

include hC in
theorem rt_meths_list (ms : List Meth) (h : ∀ m ∈ ms, SendableMeth S m) :
    decMethods C (encMeths C.toCodec ms) = .ok (wdMeths C.toCodec ms) := by
  induction ms with
  | nil => simp only [encMeths, wdMeths]; rfl
  | cons m ms ih =>
    obtain ⟨as, ks, e⟩ := encMeth_shape C m
    have hm := rt_meth C S hC m (h m (by simp))
    simp only [encMeths, wdMeths]
    rw [e] at hm ⊢
    rw [decMethods_hit C _ _ _ _ rfl, hm, ih (fun x hx => h x (by simp [hx]))]
    rfl

theorem wdMeth_name (m : Meth) : Meth.name (wdMeth C.toCodec m) = Meth.name m := by
  obtain ⟨name, retTy, params, origin, propagated, quals⟩ := m; rfl

theorem wdMeths_names (ms : List Meth) : (wdMeths C.toCodec ms).map Meth.name = ms.map Meth.name := by
  induction ms with
  | nil => rfl
  | cons m ms ih => simp [wdMeths, wdMeth_name, ih]

end

end Proofs.CimXml
