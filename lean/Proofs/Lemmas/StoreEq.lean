/-
C10 — lemmas about path equality: the order used for canonical keybinding order, insertion sort, pigeonhole,
NocaseDict.__eq__ / CIMInstanceName.__eq__ (Pywbem/Model/StoreEq.lean) decide equality of the normal forms
the store model looks keys up by.
-/
import Pywbem.Model.StoreEq
set_option linter.unusedSimpArgs false
set_option linter.unusedVariables false
namespace Proofs.StoreEq
open Pywbem.Model.Store

/-! ### the order used for the canonical keybinding order -/

theorem leName_refl : ∀ a : Name, leName a a = true
  | [] => rfl
  | c :: cs => by simp [leName, leName_refl cs]

theorem leName_total : ∀ a b : Name, leName a b = true ∨ leName b a = true
  | [], _ => Or.inl rfl
  | _ :: _, [] => Or.inr rfl
  | a :: as, b :: bs => by
    simp only [leName]
    rcases Nat.lt_trichotomy a.toNat b.toNat with h | h | h
    · left; simp [h]
    · rcases leName_total as bs with h' | h'
      · left; simp [h, h']
      · right; simp [h, h']
    · right; simp [h]

theorem leName_antisymm : ∀ a b : Name, leName a b = true → leName b a = true → a = b
  | [], [], _, _ => rfl
  | [], _ :: _, _, h => by simp [leName] at h
  | _ :: _, [], h, _ => by simp [leName] at h
  | a :: as, b :: bs, h1, h2 => by
    simp only [leName, Bool.or_eq_true, decide_eq_true_eq, Bool.and_eq_true, beq_iff_eq] at h1 h2
    rcases h1 with h1 | ⟨e1, h1⟩
    · rcases h2 with h2 | ⟨e2, _⟩ <;> omega
    · rcases h2 with h2 | ⟨_, h2⟩
      · omega
      · have := Char.toNat_inj.mp e1
        rw [this, leName_antisymm as bs h1 h2]

theorem leName_trans : ∀ a b c : Name, leName a b = true → leName b c = true → leName a c = true
  | [], _, _, _, _ => rfl
  | _ :: _, [], _, h, _ => by simp [leName] at h
  | _ :: _, _ :: _, [], _, h => by simp [leName] at h
  | a :: as, b :: bs, c :: cs, h1, h2 => by
    simp only [leName, Bool.or_eq_true, decide_eq_true_eq, Bool.and_eq_true, beq_iff_eq] at h1 h2 ⊢
    rcases h1 with h1 | ⟨e1, h1⟩
    · rcases h2 with h2 | ⟨e2, _⟩
      · left; omega
      · left; omega
    · rcases h2 with h2 | ⟨e2, h2⟩
      · left; omega
      · right; exact ⟨by omega, leName_trans as bs cs h1 h2⟩

/-! ### insertion sort -/

variable {β : Type}

theorem mem_insertKey (e x : Name × β) (l : List (Name × β)) : x ∈ insertKey e l ↔ x = e ∨ x ∈ l := by
  induction l with
  | nil => simp [insertKey]
  | cons y t ih =>
    simp only [insertKey]
    by_cases h : leName e.1 y.1 = true
    · simp [h]
    · simp only [h, Bool.false_eq_true, ↓reduceIte, List.mem_cons, ih]
      constructor
      · rintro (h1 | h1 | h1)
        · exact Or.inr (Or.inl h1)
        · exact Or.inl h1
        · exact Or.inr (Or.inr h1)
      · rintro (h1 | h1 | h1)
        · exact Or.inr (Or.inl h1)
        · exact Or.inl h1
        · exact Or.inr (Or.inr h1)

theorem mem_sortKeys (x : Name × β) (l : List (Name × β)) : x ∈ sortKeys l ↔ x ∈ l := by
  unfold sortKeys
  induction l with
  | nil => simp
  | cons y t ih => simp only [List.foldr_cons, mem_insertKey, ih, List.mem_cons]

theorem length_insertKey (e : Name × β) (l : List (Name × β)) : (insertKey e l).length = l.length + 1 := by
  induction l with
  | nil => rfl
  | cons y t ih =>
    simp only [insertKey]
    by_cases h : leName e.1 y.1 = true <;> simp [h, ih]

theorem length_sortKeys (l : List (Name × β)) : (sortKeys l).length = l.length := by
  unfold sortKeys
  induction l with
  | nil => rfl
  | cons y t ih => simp only [List.foldr_cons, length_insertKey, ih, List.length_cons]

/-- sorted by name, weakly -/
def Sorted (l : List (Name × β)) : Prop := l.Pairwise (fun a b => leName a.1 b.1 = true)

theorem sorted_insertKey (e : Name × β) (l : List (Name × β)) (h : Sorted l) : Sorted (insertKey e l) := by
  induction l with
  | nil => simp [insertKey, Sorted]
  | cons y t ih =>
    unfold Sorted at h ⊢
    rw [List.pairwise_cons] at h
    simp only [insertKey]
    by_cases hle : leName e.1 y.1 = true
    · simp only [hle, ↓reduceIte]
      rw [List.pairwise_cons]
      refine ⟨?_, List.pairwise_cons.mpr h⟩
      intro z hz
      rcases List.mem_cons.mp hz with rfl | hz
      · exact hle
      · exact leName_trans _ _ _ hle (h.1 z hz)
    · simp only [hle, Bool.false_eq_true, ↓reduceIte]
      rw [List.pairwise_cons]
      refine ⟨?_, ih h.2⟩
      intro z hz
      rcases (mem_insertKey e z t).mp hz with rfl | hz
      · rcases leName_total z.1 y.1 with h' | h'
        · exact absurd h' hle
        · exact h'
      · exact h.1 z hz

theorem sorted_sortKeys (l : List (Name × β)) : Sorted (sortKeys l) := by
  unfold sortKeys
  induction l with
  | nil => exact List.Pairwise.nil
  | cons y t ih => simp only [List.foldr_cons]; exact sorted_insertKey y _ ih

/-- names pairwise different -/
def KeysDistinct (l : List (Name × β)) : Prop := l.Pairwise (fun a b => a.1 ≠ b.1)

/-- two sorted lists with pairwise different names and the same elements are equal -/
theorem sorted_ext : ∀ (l1 l2 : List (Name × β)), Sorted l1 → Sorted l2 → KeysDistinct l1 → KeysDistinct l2 →
    (∀ x, x ∈ l1 ↔ x ∈ l2) → l1 = l2
  | [], [], _, _, _, _, _ => rfl
  | [], y :: t, _, _, _, _, h => by have := (h y).mpr (by simp); simp at this
  | x :: s, [], _, _, _, _, h => by have := (h x).mp (by simp); simp at this
  | x :: s, y :: t, s1, s2, d1, d2, h => by
    unfold Sorted at s1 s2
    unfold KeysDistinct at d1 d2
    rw [List.pairwise_cons] at s1 s2 d1 d2
    have hxy : x = y := by
      have hx : x ∈ y :: t := (h x).mp (by simp)
      have hy : y ∈ x :: s := (h y).mpr (by simp)
      rcases List.mem_cons.mp hx with e | hx'
      · exact e
      · rcases List.mem_cons.mp hy with e | hy'
        · exact e.symm
        · have a1 := s1.1 y hy'
          have a2 := s2.1 x hx'
          have := leName_antisymm _ _ a1 a2
          exact absurd this (d1.1 y hy')
    subst hxy
    congr 1
    apply sorted_ext s t s1.2 s2.2 d1.2 d2.2
    intro z
    constructor
    · intro hz
      rcases List.mem_cons.mp ((h z).mp (by simp [hz])) with e | hz'
      · subst e; exact absurd rfl (d1.1 z hz)
      · exact hz'
    · intro hz
      rcases List.mem_cons.mp ((h z).mpr (by simp [hz])) with e | hz'
      · subst e; exact absurd rfl (d2.1 z hz)
      · exact hz'

theorem keysDistinct_insertKey (e : Name × β) (l : List (Name × β)) (h : KeysDistinct l)
    (he : ∀ x ∈ l, e.1 ≠ x.1) : KeysDistinct (insertKey e l) := by
  induction l with
  | nil => simp [insertKey, KeysDistinct]
  | cons y t ih =>
    unfold KeysDistinct at h ⊢
    rw [List.pairwise_cons] at h
    simp only [insertKey]
    by_cases hle : leName e.1 y.1 = true
    · simp only [hle, ↓reduceIte]
      exact List.pairwise_cons.mpr ⟨he, List.pairwise_cons.mpr h⟩
    · simp only [hle, Bool.false_eq_true, ↓reduceIte]
      rw [List.pairwise_cons]
      refine ⟨?_, ih h.2 (fun x hx => he x (by simp [hx]))⟩
      intro z hz
      rcases (mem_insertKey e z t).mp hz with rfl | hz
      · exact (he y (by simp)).symm
      · exact h.1 z hz

theorem keysDistinct_sortKeys (l : List (Name × β)) (h : KeysDistinct l) : KeysDistinct (sortKeys l) := by
  unfold sortKeys
  induction l with
  | nil => exact List.Pairwise.nil
  | cons y t ih =>
    unfold KeysDistinct at h
    rw [List.pairwise_cons] at h
    simp only [List.foldr_cons]
    apply keysDistinct_insertKey y _ (ih h.2)
    intro x hx
    exact h.1 x ((mem_sortKeys x t).mp hx)

/-- for lists with pairwise different names: equal after sorting iff same elements -/
theorem sortKeys_eq_iff (a b : List (Name × β)) (ha : KeysDistinct a) (hb : KeysDistinct b) :
    sortKeys a = sortKeys b ↔ ∀ x, x ∈ a ↔ x ∈ b := by
  constructor
  · intro h x
    rw [← mem_sortKeys x a, ← mem_sortKeys x b, h]
  · intro h
    apply sorted_ext _ _ (sorted_sortKeys a) (sorted_sortKeys b) (keysDistinct_sortKeys a ha) (keysDistinct_sortKeys b hb)
    intro x
    rw [mem_sortKeys, mem_sortKeys]; exact h x

/-! ### pigeonhole -/

theorem nodup_subset_length_le {α} : ∀ (A B : List α), A.Nodup → (∀ x ∈ A, x ∈ B) → A.length ≤ B.length
  | [], _, _, _ => by simp
  | x :: A', B, hn, hs => by
    rw [List.nodup_cons] at hn
    obtain ⟨s, t, rfl⟩ := List.append_of_mem (hs x (by simp))
    have hsub : ∀ y ∈ A', y ∈ s ++ t := by
      intro y hy
      have := hs y (by simp [hy])
      simp only [List.mem_append, List.mem_cons] at this ⊢
      rcases this with h | h | h
      · exact Or.inl h
      · subst h; exact absurd hy hn.1
      · exact Or.inr h
    have := nodup_subset_length_le A' (s ++ t) hn.2 hsub
    simp only [List.length_append, List.length_cons] at this ⊢
    omega

theorem nodup_subset_of_length_le {α} : ∀ (A B : List α), A.Nodup → (∀ x ∈ A, x ∈ B) → B.length ≤ A.length →
    ∀ z ∈ B, z ∈ A
  | [], B, _, _, hl => by
    intro z hz
    have : B = [] := List.eq_nil_of_length_eq_zero (by simpa using hl)
    subst this; simp at hz
  | x :: A', B, hn, hs, hl => by
    rw [List.nodup_cons] at hn
    obtain ⟨s, t, rfl⟩ := List.append_of_mem (hs x (by simp))
    have hsub : ∀ y ∈ A', y ∈ s ++ t := by
      intro y hy
      have := hs y (by simp [hy])
      simp only [List.mem_append, List.mem_cons] at this ⊢
      rcases this with h | h | h
      · exact Or.inl h
      · subst h; exact absurd hy hn.1
      · exact Or.inr h
    have hl' : (s ++ t).length ≤ A'.length := by
      simp only [List.length_append, List.length_cons] at hl ⊢; omega
    have ih := nodup_subset_of_length_le A' (s ++ t) hn.2 hsub hl'
    intro z hz
    simp only [List.mem_append, List.mem_cons] at hz
    rcases hz with h | h | h
    · exact List.mem_cons_of_mem _ (ih z (by simp [h]))
    · subst h; simp
    · exact List.mem_cons_of_mem _ (ih z (by simp [h]))

/-! ### NocaseDict equality decides equality of normal forms -/

variable {α : Type}

theorem dictGet_some {d : List (Name × α)} {k : Name} {v : α} (h : dictGet d k = some v) :
    ∃ e ∈ d, lower e.1 = lower k ∧ e.2 = v := by
  unfold dictGet at h
  cases hf : d.find? (fun e => nameEq e.1 k) with
  | none => simp [hf] at h
  | some e =>
    simp [hf] at h
    refine ⟨e, List.mem_of_find?_eq_some hf, ?_, h⟩
    have := List.find?_some hf
    simpa [nameEq] using this

theorem dictGet_of_mem {d : List (Name × α)} (hw : KeysWF d) {e : Name × α} (he : e ∈ d) {k : Name}
    (hk : lower e.1 = lower k) : dictGet d k = some e.2 := by
  unfold dictGet
  cases hf : d.find? (fun e => nameEq e.1 k) with
  | none =>
    have := List.find?_eq_none.mp hf e he
    simp [nameEq, hk] at this
  | some e' =>
    have he' := List.mem_of_find?_eq_some hf
    have hk' : lower e'.1 = lower k := by simpa [nameEq] using List.find?_some hf
    -- same lowered name in a list whose lowered names are pairwise different: same element
    have : e' = e := by
      unfold KeysWF at hw
      rw [List.Nodup, List.pairwise_map] at hw
      by_cases heq : e' = e
      · exact heq
      · exfalso
        rcases List.mem_iff_getElem.mp he with ⟨i, hi, rfl⟩
        rcases List.mem_iff_getElem.mp he' with ⟨j, hj, rfl⟩
        have hij : i ≠ j := fun h => heq (by subst h; rfl)
        rcases Nat.lt_or_gt_of_ne hij with hlt | hgt
        · exact (List.pairwise_iff_getElem.mp hw i j hi hj hlt) (hk.trans hk'.symm)
        · exact (List.pairwise_iff_getElem.mp hw j i hj hi hgt) (hk'.trans hk.symm)
    simp [this]

def normEntry (nv : α → β) (e : Name × α) : Name × β := (lower e.1, nv e.2)

theorem keysDistinct_norm (nv : α → β) (d : List (Name × α)) (hw : KeysWF d) : KeysDistinct (d.map (normEntry nv)) := by
  unfold KeysWF at hw
  unfold KeysDistinct
  rw [List.Nodup, List.pairwise_map] at hw
  rw [List.pairwise_map]
  exact hw

theorem nodup_norm (nv : α → β) (d : List (Name × α)) (hw : KeysWF d) : (d.map (normEntry nv)).Nodup := by
  have := keysDistinct_norm nv d hw
  unfold KeysDistinct at this
  unfold List.Nodup
  exact List.Pairwise.imp (fun h e => h (congrArg Prod.fst e)) this

theorem dictEq_iff (veq : α → α → Bool) (nv : α → β) (a b : List (Name × α)) (ha : KeysWF a) (hb : KeysWF b)
    (hv : ∀ e ∈ a, ∀ e' ∈ b, veq e.2 e'.2 = true ↔ nv e.2 = nv e'.2) :
    dictEq veq a b = true ↔ sortKeys (a.map (normEntry nv)) = sortKeys (b.map (normEntry nv)) := by
  rw [sortKeys_eq_iff _ _ (keysDistinct_norm nv a ha) (keysDistinct_norm nv b hb)]
  unfold dictEq
  simp only [Bool.and_eq_true, List.all_eq_true, beq_iff_eq]
  constructor
  · rintro ⟨hall, hlen⟩
    have hsub : ∀ x ∈ a.map (normEntry nv), x ∈ b.map (normEntry nv) := by
      intro x hx
      obtain ⟨e, he, rfl⟩ := List.mem_map.mp hx
      have := hall e he
      cases hg : dictGet b e.1 with
      | none => simp [hg] at this
      | some v =>
        simp only [hg] at this
        obtain ⟨e', he', hk, rfl⟩ := dictGet_some hg
        refine List.mem_map.mpr ⟨e', he', ?_⟩
        unfold normEntry
        rw [hk, ((hv e he e' he').mp this).symm]
    intro x
    refine ⟨hsub x, ?_⟩
    exact nodup_subset_of_length_le _ _ (nodup_norm nv a ha) hsub (by simp [hlen]) x
  · intro h
    refine ⟨?_, ?_⟩
    · intro e he
      have : normEntry nv e ∈ b.map (normEntry nv) := (h _).mp (List.mem_map.mpr ⟨e, he, rfl⟩)
      obtain ⟨e', he', heq⟩ := List.mem_map.mp this
      unfold normEntry at heq
      simp only [Prod.mk.injEq] at heq
      rw [dictGet_of_mem hb he' heq.1]
      exact (hv e he e' he').mpr heq.2.symm
    · have h1 := nodup_subset_length_le _ _ (nodup_norm nv a ha) (fun x hx => (h x).mp hx)
      have h2 := nodup_subset_length_le _ _ (nodup_norm nv b hb) (fun x hx => (h x).mpr hx)
      simp only [List.length_map] at h1 h2
      omega

/-! ### CIMInstanceName.__eq__ decides equality of normal forms -/

theorem scalarEq_iff (a b : Scalar) : scalarEq a b = true ↔ normScalar a = normScalar b := by
  cases a <;> cases b <;> simp [scalarEq, normScalar]
  all_goals (first | (rename_i x y; cases x <;> cases y <;> simp) | (rename_i x y; cases y <;> simp) | (rename_i x y; cases x <;> simp) | skip)

theorem optNameEq_iff (a b : Option Name) : optNameEq a b = true ↔ a.map lower = b.map lower := by
  cases a <;> cases b <;> simp [optNameEq, nameEq]

theorem path0Eq_iff (p q : Path0) (hp : KeysWF p.keys) (hq : KeysWF q.keys) :
    path0Eq p q = true ↔ normPath0 p = normPath0 q := by
  unfold path0Eq normPath0
  simp only [Bool.and_eq_true, optNameEq_iff, Path0.mk.injEq]
  rw [dictEq_iff scalarEq normScalar p.keys q.keys hp hq (fun e _ e' _ => scalarEq_iff e.2 e'.2)]
  simp only [nameEq, beq_iff_eq, normEntry]
  constructor
  · rintro ⟨⟨⟨h1, h2⟩, h3⟩, h4⟩; exact ⟨h3, h2, h1, h4⟩
  · rintro ⟨h3, h2, h1, h4⟩; exact ⟨⟨⟨h1, h2⟩, h3⟩, h4⟩

theorem kvEq_iff (a b : KV) (ha : KVWF a) (hb : KVWF b) : kvEq a b = true ↔ normKV a = normKV b := by
  cases a with
  | sc x =>
    cases b with
    | sc y => simp [kvEq, normKV, scalarEq_iff]
    | ref q => simp [kvEq, normKV]
  | ref p =>
    cases b with
    | sc y => simp [kvEq, normKV]
    | ref q => simp only [kvEq, normKV, KV.ref.injEq]; exact path0Eq_iff p q ha hb

/-- **CIMInstanceName.__eq__ = equality of normal forms** on paths whose keybindings are NocaseDicts -/
theorem pyPathEq_iff_normPath (p q : Path) (hp : PathWF p) (hq : PathWF q) :
    pyPathEq p q = true ↔ normPath p = normPath q := by
  unfold pyPathEq normPath
  simp only [Bool.and_eq_true, optNameEq_iff, Path.mk.injEq]
  rw [dictEq_iff kvEq normKV p.keys q.keys hp.1 hq.1
    (fun e he e' he' => kvEq_iff e.2 e'.2 (hp.2 e he) (hq.2 e' he'))]
  simp only [nameEq, beq_iff_eq, normEntry]
  constructor
  · rintro ⟨⟨⟨h1, h2⟩, h3⟩, h4⟩; exact ⟨h3, h2, h1, h4⟩
  · rintro ⟨h3, h2, h1, h4⟩; exact ⟨⟨⟨h1, h2⟩, h3⟩, h4⟩

/-- …and with it the lookup predicate of the store model -/
theorem pyPathEq_eq_pathEq (p q : Path) (hp : PathWF p) (hq : PathWF q) : pyPathEq p q = pathEq p q := by
  have h := pyPathEq_iff_normPath p q hp hq
  unfold pathEq
  by_cases hn : normPath p = normPath q
  · simp [hn, h.mpr hn]
  · have : pyPathEq p q = false := by
      cases hpe : pyPathEq p q with
      | false => rfl
      | true => exact absurd (h.mp hpe) hn
    simp [this, hn]

end Proofs.StoreEq
