/-
C13: preservation of the shadow-copy discipline by DeleteInstance and CreateInstance.
-/
import Proofs.Lemmas.AssocWrite

namespace C13
open Pywbem.Proto Pywbem.Model.Assoc

theorem delInsts_eq (r : Repo) (nss : List Name) (p : Path) :
    delInsts r nss p = mapInsts r (fun S => if inNss nss S.name then S.insts.filter (fun i => !pkEq i.path p) else S.insts) := by
  unfold delInsts mapInsts
  apply List.map_congr_left
  intro S _
  by_cases h : inNss nss S.name = true <;> simp [h]

theorem setInsts_eq (r : Repo) (nss : List Name) (a : Inst) :
    setInsts r nss a = mapInsts r (fun S => if inNss nss S.name then
        S.insts.map (fun i => if pkEq i.path a.path then rebase a S.name else i) else S.insts) := by
  unfold setInsts mapInsts
  apply List.map_congr_left
  intro S _
  by_cases h : inNss nss S.name = true <;> simp [h]

theorem findInst_mem {is : List Inst} {p : Path} {a : Inst} (h : findInst is p = some a) :
    a ∈ is ∧ a.path.eqv p = true := by
  refine ⟨List.mem_of_find?_eq_some h, ?_⟩
  have := List.find?_some h; exact this

theorem pkEq_of_eqv {p q : Path} (h : p.eqv q = true) : pkEq p q = true := by
  rw [eqv_iff] at h
  simp [pkEq, h.2.2.1, h.2.2.2]

theorem deleteAssoc_ok {sv sv' : Server} {ns : Name} {p : Path} (h : deleteAssoc sv ns p = .ok sv') :
    ∃ S orig, findNs sv.repo ns = some S ∧ orig ∈ S.insts ∧
      sv'.repo = delInsts sv.repo (otherNamespaces orig ns ++ [ns]) orig.path := by
  unfold deleteAssoc at h
  cases hS : findNs sv.repo ns with
  | none => simp [hS] at h
  | some S =>
    simp only [hS] at h
    split at h
    · cases h
    · cases hf : findInst S.insts (srcPath ns p) with
      | none => simp [hf] at h
      | some orig =>
        simp only [hf] at h
        split at h
        · cases h
        · cases h
          exact ⟨S, orig, rfl, (findInst_mem hf).1, rfl⟩

/-- DeleteInstance keeps the discipline (no condition on the request) -/
theorem delete_preserves {sv sv' : Server} {ns : Name} {p : Path} (hinv : WInv sv.repo)
    (h : deleteAssoc sv ns p = .ok sv') : WInv sv'.repo := by
  obtain ⟨S0, orig, hS0, horig, hrepo⟩ := deleteAssoc_ok h
  obtain ⟨hS0r, hS0n⟩ := findNs_mem hS0
  rw [hrepo, delInsts_eq]
  have hsub : ∀ S : NsStore, ∀ a,
      a ∈ (if inNss (otherNamespaces orig ns ++ [ns]) S.name then S.insts.filter (fun i => !pkEq i.path orig.path)
            else S.insts) → a ∈ S.insts := by
    intro S a ha
    by_cases hc : inNss (otherNamespaces orig ns ++ [ns]) S.name = true
    · simp only [hc, if_true] at ha; exact (List.mem_filter.mp ha).1
    · simp only [hc] at ha; exact ha
  apply winv_mapInsts hinv
  · intro S hS a ha; exact hinv.keyed S hS a (hsub S a ha)
  · intro S hS a ha b hb; exact hinv.nodup S hS a (hsub S a ha) b (hsub S b hb)
  · intro S hS a ha; exact hinv.loc S hS a (hsub S a ha)
  · intro S hS T hT a ha b hb; exact hinv.conf S hS T hT a (hsub S a ha) b (hsub T b hb)
  · intro S hS a ha n hn
    have haS := hsub S a ha
    obtain ⟨T, hT, hTn, a', ha', hpk⟩ := hinv.shadow S hS a haS n hn
    refine ⟨T, hT, hTn, a', ?_, hpk⟩
    by_cases hc : inNss (otherNamespaces orig ns ++ [ns]) T.name = true
    · simp only [hc, if_true]
      apply List.mem_filter.mpr
      refine ⟨ha', ?_⟩
      -- if the namesake were removed, `a` itself would be a namesake of the deleted instance …
      cases hrem : pkEq a'.path orig.path with
      | false => rfl
      | true =>
        exfalso
        have hao : pkEq a.path orig.path = true := pkEq_trans (pkEq_symm hpk) hrem
        have hprops := (hinv.coh S hS S0 hS0r a haS orig horig hao (hasRef_of_endNss hn)).1
        have he : endNss a = endNss orig := endNss_of_props hprops
        -- … stored in a namespace that its ends name, hence in a namespace of the deletion list
        have hloc : inNss (endNss a) S.name = true := by
          rcases hinv.loc S hS a haS with h0 | h1
          · rw [h0] at hn; cases hn
          · exact h1
        obtain ⟨m, hm, hmS⟩ := inNss_iff.mp hloc
        have hSin : inNss (otherNamespaces orig ns ++ [ns]) S.name = true := by
          rw [← inNss_congr hmS]; exact inNss_other_of_endNss (he ▸ hm)
        simp only [hSin, if_true] at ha
        have := (List.mem_filter.mp ha).2
        simp [hao] at this
    · simp only [hc]; exact ha'
  · intro S hS T hT a ha b hb; exact hinv.coh S hS T hT a (hsub S a ha) b (hsub T b hb)

end C13

namespace C13
open Pywbem.Proto Pywbem.Model.Assoc

/-! ### CreateInstance -/

def NoDupIeq (l : List Name) : Prop := l.Pairwise (fun a b => ieq a b = false)

theorem dedupe_nodup : ∀ (l acc : List Name), NoDupIeq acc →
    NoDupIeq (l.foldl (fun acc n => if acc.any (fun k => ieq k n) then acc else acc ++ [n]) acc)
  | [], acc, h => h
  | k :: l, acc, h => by
    simp only [List.foldl_cons]
    apply dedupe_nodup l
    by_cases hany : acc.any (fun j => ieq j k) = true
    · simp only [hany, if_true]; exact h
    · have hany' : acc.any (fun j => ieq j k) = false := by simpa using hany
      simp only [hany', Bool.false_eq_true, if_false]
      unfold NoDupIeq
      rw [List.pairwise_append]
      refine ⟨h, by simp, ?_⟩
      intro a ha b hb
      simp at hb; subst hb
      cases hab : ieq a b with
      | false => rfl
      | true => exfalso; apply hany; simp only [List.any_eq_true]; exact ⟨a, ha, hab⟩

theorem nodup_other_target (a : Inst) (ns : Name) : NoDupIeq (otherNamespaces a ns ++ [ns]) := by
  unfold NoDupIeq
  rw [List.pairwise_append]
  refine ⟨dedupe_nodup _ [] List.Pairwise.nil, by simp, ?_⟩
  intro m hm b hb
  simp at hb; subst hb
  exact (mem_otherNamespaces hm).2

/-- the stores touched by the creation loop, with the spelling of the namespace the loop used -/
def createF (nss : List Name) (a : Inst) (S : NsStore) : List Inst :=
  match nss.find? (fun n => ieq S.name n) with
  | some n => S.insts ++ [rebase a n]
  | none => S.insts

theorem foldl_addInst_eq (a : Inst) : ∀ (nss : List Name) (r : Repo), NoDupIeq nss →
    nss.foldl (fun r n => addInst r n a) r = mapInsts r (createF nss a)
  | [], r, _ => by
    simp only [List.foldl_nil, mapInsts, createF, List.find?_nil]
    exact (List.map_id' r).symm
  | n :: nss, r, h => by
    simp only [List.foldl_cons]
    have hn : ∀ m ∈ nss, ieq n m = false := (List.pairwise_cons.mp h).1
    rw [foldl_addInst_eq a nss (addInst r n a) (List.pairwise_cons.mp h).2]
    unfold addInst mapInsts
    rw [List.map_map]
    apply List.map_congr_left
    intro S _
    simp only [Function.comp]
    by_cases hS : ieq S.name n = true
    · have hnone : nss.find? (fun m => ieq S.name m) = none := by
        rw [List.find?_eq_none]
        intro m hm hc
        have : ieq n m = true := ieq_trans (ieq_symm hS) (by simpa using hc)
        rw [hn m hm] at this; cases this
      simp [hS, createF, hnone]
    · have hS' : ieq S.name n = false := by simpa using hS
      simp [hS', createF]

theorem createF_mem {nss : List Name} {a : Inst} {S : NsStore} {b : Inst} (h : b ∈ createF nss a S) :
    b ∈ S.insts ∨ (inNss nss S.name = true ∧ ∃ n, b = rebase a n ∧ ieq n S.name = true) := by
  unfold createF at h
  cases hf : nss.find? (fun n => ieq S.name n) with
  | none => simp only [hf] at h; exact Or.inl h
  | some n =>
    simp only [hf] at h
    rcases List.mem_append.mp h with h | h
    · exact Or.inl h
    · simp at h
      have hn : ieq S.name n = true := by have := List.find?_some hf; exact this
      exact Or.inr ⟨inNss_iff.mpr ⟨n, List.mem_of_find?_eq_some hf, ieq_symm hn⟩, n, h, ieq_symm hn⟩

theorem createF_old {nss : List Name} {a : Inst} {S : NsStore} {b : Inst} (h : b ∈ S.insts) :
    b ∈ createF nss a S := by
  unfold createF
  cases nss.find? (fun n => ieq S.name n) with
  | none => exact h
  | some n => exact List.mem_append.mpr (Or.inl h)

theorem createF_new {nss : List Name} {a : Inst} {S : NsStore} (h : inNss nss S.name = true) :
    ∃ n, rebase a n ∈ createF nss a S ∧ ieq n S.name = true := by
  unfold createF
  cases hf : nss.find? (fun n => ieq S.name n) with
  | none =>
    rw [List.find?_eq_none] at hf
    obtain ⟨m, hm, hmS⟩ := inNss_iff.mp h
    have := hf m hm; simp [ieq_symm hmS] at this
  | some n =>
    have hn : ieq S.name n = true := by have := List.find?_some hf; exact this
    exact ⟨n, List.mem_append.mpr (Or.inr (by simp)), ieq_symm hn⟩

/-- what a successful CreateInstance has checked -/
theorem createAssoc_ok {sv sv' : Server} {ns : Name} {a : Inst} (h : createAssoc sv ns a = .ok sv') :
    (∀ v ∈ ends a, ∃ n, v.ns = some n ∧ ∃ T, findNs sv.repo n = some T) ∧
    (∀ n ∈ otherNamespaces a ns ++ [ns], ∃ T, findNs sv.repo n = some T) ∧
    sv'.repo = (otherNamespaces a ns ++ [ns]).foldl (fun r n => addInst r n a) sv.repo := by
  unfold createAssoc at h
  cases hS : findNs sv.repo ns with
  | none => simp [hS] at h
  | some S =>
    simp only [hS] at h
    split at h
    · cases h
    · split at h
      · cases h
      · split at h
        · cases h
        · rename_i hends
          split at h
          · cases h
          · rename_i hcls
            split at h
            · cases h
            · cases h
              refine ⟨?_, ?_, rfl⟩
              · intro v hv
                cases hn : v.ns with
                | none =>
                  exfalso; apply hends
                  simp only [List.any_eq_true]
                  exact ⟨v, hv, by simp [hn]⟩
                | some n =>
                  cases hT : findNs sv.repo n with
                  | none =>
                    exfalso; apply hends
                    simp only [List.any_eq_true]
                    exact ⟨v, hv, by simp [hn, hT]⟩
                  | some T => exact ⟨n, rfl, T, hT⟩
              · intro n hn
                cases hT : findNs sv.repo n with
                | some T => exact ⟨T, rfl⟩
                | none =>
                  exfalso; apply hcls
                  simp only [List.any_eq_true]
                  exact ⟨n, hn, by simp [hT]⟩

/-- the request conditions under which CreateInstance keeps the discipline: the request namespace is
    named by one of the ends (or there is no end), and class name + keybindings are new in the whole
    repository -/
def CreateOk (r : Repo) (ns : Name) (a : Inst) : Prop :=
  (endNss a = [] ∨ inNss (endNss a) ns = true) ∧
  (∀ S ∈ r, ∀ b ∈ S.insts, pkEq b.path a.path = false)

theorem create_preserves {sv sv' : Server} {ns : Name} {a : Inst} (hinv : WInv sv.repo)
    (hreq : CreateOk sv.repo ns a) (h : createAssoc sv ns a = .ok sv') : WInv sv'.repo := by
  obtain ⟨hends, hnss, hrepo⟩ := createAssoc_ok h
  obtain ⟨hhome, hfresh⟩ := hreq
  rw [hrepo, foldl_addInst_eq a _ _ (nodup_other_target a ns)]
  apply winv_mapInsts hinv
  · intro S hS b hb
    rcases createF_mem hb with hb | ⟨_, n, rfl, hn⟩
    · exact hinv.keyed S hS b hb
    · exact ⟨rfl, n, rfl, hn⟩
  · intro S hS b hb c hc hpk
    rcases createF_mem hb with hb | ⟨_, n, rfl, hn⟩ <;> rcases createF_mem hc with hc | ⟨_, m, rfl, hm⟩
    · exact hinv.nodup S hS b hb c hc hpk
    · rw [pkEq_rebase_right] at hpk; rw [hfresh S hS b hb] at hpk; cases hpk
    · rw [pkEq_rebase_left] at hpk; rw [pkEq_symm_eq] at hpk; rw [hfresh S hS c hc] at hpk; cases hpk
    · -- both are the new copy: the loop visited this store once
      unfold createF at hb hc
      cases hf : (otherNamespaces a ns ++ [ns]).find? (fun k => ieq S.name k) with
      | none => simp only [hf] at hb; exact absurd hb (by
          intro hb'; have := hfresh S hS _ hb'; simp [pkEq_rebase_left, pkEq_refl] at this)
      | some k =>
        simp only [hf] at hb hc
        rcases List.mem_append.mp hb with hb | hb
        · have := hfresh S hS _ hb; simp [pkEq_rebase_left, pkEq_refl] at this
        · rcases List.mem_append.mp hc with hc | hc
          · have := hfresh S hS _ hc; simp [pkEq_rebase_left, pkEq_refl] at this
          · simp at hb hc; rw [hb, hc]
  · intro S hS b hb
    rcases createF_mem hb with hb | ⟨hin, n, rfl, _⟩
    · exact hinv.loc S hS b hb
    · rw [endNss_rebase]
      obtain ⟨m, hm, hmS⟩ := inNss_iff.mp hin
      rcases List.mem_append.mp hm with hm | hm
      · exact Or.inr (inNss_iff.mpr ⟨m, (mem_otherNamespaces hm).1, hmS⟩)
      · simp at hm; subst hm
        rcases hhome with h0 | h1
        · exact Or.inl h0
        · exact Or.inr (by rw [← inNss_congr hmS]; exact h1)
  · intro S hS T hT b hb c hc hpk hr he
    rcases createF_mem hb with hb | ⟨hinS, n, rfl, _⟩ <;> rcases createF_mem hc with hc | ⟨hinT, m, rfl, _⟩
    · exact hinv.conf S hS T hT b hb c hc hpk hr he
    · rw [pkEq_rebase_right] at hpk; rw [hfresh S hS b hb] at hpk; cases hpk
    · rw [pkEq_rebase_left] at hpk; rw [pkEq_symm_eq] at hpk; rw [hfresh T hT c hc] at hpk; cases hpk
    · -- no ends: the only namespace of the loop is the request namespace
      rw [endNss_rebase] at he
      have hoth : otherNamespaces a ns = [] := by
        cases ho : otherNamespaces a ns with
        | nil => rfl
        | cons k ks =>
          have := (mem_otherNamespaces (a := a) (target := ns) (m := k) (by rw [ho]; exact List.mem_cons_self ..)).1
          rw [he] at this; cases this
      rw [hoth] at hinS hinT
      simp [inNss] at hinS hinT
      exact hinv.uniq S hS T hT (ieq_trans (ieq_symm hinS) hinT)
  · intro S hS b hb n hn
    rcases createF_mem hb with hb | ⟨_, k, rfl, _⟩
    · obtain ⟨T, hT, hTn, b', hb', hpk⟩ := hinv.shadow S hS b hb n hn
      exact ⟨T, hT, hTn, b', createF_old hb', hpk⟩
    · rw [endNss_rebase] at hn
      have hin := inNss_other_of_endNss (target := ns) hn
      obtain ⟨m, hm, hmn⟩ := inNss_iff.mp hin
      obtain ⟨T, hT⟩ := hnss m hm
      obtain ⟨hTr, hTm⟩ := findNs_mem hT
      have hTn : ieq T.name n = true := ieq_trans hTm hmn
      have hinT : inNss (otherNamespaces a ns ++ [ns]) T.name = true := by
        rw [inNss_congr hTn]; exact hin
      obtain ⟨k', hk', _⟩ := createF_new (a := a) hinT
      exact ⟨T, hTr, hTn, rebase a k', hk', by simp [pkEq_rebase_left, pkEq_rebase_right, pkEq_refl]⟩
  · intro S hS T hT b hb c hc hpk
    rcases createF_mem hb with hb | ⟨_, n, rfl, _⟩ <;> rcases createF_mem hc with hc | ⟨_, m, rfl, _⟩
    · exact hinv.coh S hS T hT b hb c hc hpk
    · rw [pkEq_rebase_right] at hpk; rw [hfresh S hS b hb] at hpk; cases hpk
    · rw [pkEq_rebase_left] at hpk; rw [pkEq_symm_eq] at hpk; rw [hfresh T hT c hc] at hpk; cases hpk
    · exact fun _ => ⟨rfl, rfl⟩

end C13
