/-
C19 — lemmas about the toyaml model (Model/ToYaml.lean).
-/
import Pywbem.Model.ToYaml
import Proofs.Lemmas.Utf8

namespace Proofs.Lemmas.ToYaml
open Pywbem.Proto Pywbem.Model.Utf8 Pywbem.Model.ToYaml

mutual
/-- toyaml is total on recordable values and its result can be dumped -/
theorem toyaml_total : (v : PyVal) → v.recordable = true → ∃ y, toyaml v = .ok y ∧ y.representable = true
  | .none, _ => ⟨.null, by simp [toyaml, pure, Except.pure], by simp [Yaml.representable]⟩
  | .bool b, _ => ⟨.bool b, by simp [toyaml, pure, Except.pure], by simp [Yaml.representable]⟩
  | .int i, _ => ⟨.int i, by simp [toyaml, pure, Except.pure], by simp [Yaml.representable]⟩
  | .cimInt i, _ => ⟨.int i, by simp [toyaml, pure, Except.pure], by simp [Yaml.representable]⟩
  | .float _, h => by simp [PyVal.recordable] at h
  | .cimFloat t, _ => ⟨.float t, by simp [toyaml, pure, Except.pure], by simp [Yaml.representable]⟩
  | .str s, _ => ⟨.str s, by simp [toyaml, pure, Except.pure], by simp [Yaml.representable]⟩
  | .strSub s, _ => ⟨.str s, by simp [toyaml, pure, Except.pure], by simp [Yaml.representable]⟩
  | .bytes b, h => by
      simp only [PyVal.recordable] at h
      cases hd : decodeStrict b with
      | none => rw [hd] at h; simp at h
      | some s => exact ⟨.str s, by simp [toyaml, hd, pure, Except.pure], by simp [Yaml.representable]⟩
  | .cimDateTime s, _ => ⟨.str s, by simp [toyaml, pure, Except.pure], by simp [Yaml.representable]⟩
  | .datetime _, h => by simp [PyVal.recordable] at h
  | .timedelta _, h => by simp [PyVal.recordable] at h
  | .list xs, h => by
      simp only [PyVal.recordable] at h
      obtain ⟨ys, hy, hr⟩ := toyamlList_total xs h
      exact ⟨.seq ys, by simp [toyaml, hy, bind, Except.bind, pure, Except.pure], by simp [Yaml.representable, hr]⟩
  | .tuple xs, h => by
      simp only [PyVal.recordable] at h
      obtain ⟨ys, hy, hr⟩ := toyamlList_total xs h
      exact ⟨.seq ys, by simp [toyaml, hy, bind, Except.bind, pure, Except.pure], by simp [Yaml.representable, hr]⟩
  | .namedtuple ks xs, h => by
      simp only [PyVal.recordable] at h
      obtain ⟨ys, hy, hr⟩ := toyamlList_total xs h
      exact ⟨.map ks ys, by simp [toyaml, hy, bind, Except.bind, pure, Except.pure], by simp [Yaml.representable, hr]⟩
  | .dict ks xs, h => by
      simp only [PyVal.recordable] at h
      obtain ⟨ys, hy, hr⟩ := toyamlList_total xs h
      exact ⟨.map ks ys, by simp [toyaml, hy, bind, Except.bind, pure, Except.pure], by simp [Yaml.representable, hr]⟩
  | .cimObj kind attrs, h => by
      simp only [PyVal.recordable, Bool.and_eq_true] at h
      obtain ⟨hk, ha⟩ := h
      obtain ⟨ys, hy, hr⟩ := toyamlList_total attrs ha
      cases ho : objAttrs kind with
      | none => rw [ho] at hk; simp at hk
      | some names =>
        exact ⟨.map ("pywbem_object".toList :: names.map String.toList) (.str kind.toList :: ys),
          by simp [toyaml, ho, hy, bind, Except.bind, pure, Except.pure],
          by simp [Yaml.representable, Yaml.representableList, hr]⟩
  | .other _, h => by simp [PyVal.recordable] at h

theorem toyamlList_total : (xs : List PyVal) → PyVal.recordableList xs = true →
    ∃ ys, toyamlList xs = .ok ys ∧ Yaml.representableList ys = true
  | [], _ => ⟨[], by simp [toyamlList, pure, Except.pure], by simp [Yaml.representableList]⟩
  | x :: xs, h => by
      simp only [PyVal.recordableList, Bool.and_eq_true] at h
      obtain ⟨y, hy, hr⟩ := toyaml_total x h.1
      obtain ⟨ys, hys, hrs⟩ := toyamlList_total xs h.2
      exact ⟨y :: ys, by simp [toyamlList, hy, hys, bind, Except.bind, pure, Except.pure],
        by simp [Yaml.representableList, hr, hrs]⟩
end

end Proofs.Lemmas.ToYaml
