/-
Lemmas for the copy part of C05: the copy functions change nothing but identities (normal form preserved),
which identities they allocate, and which identities of the original survive in a `copy()`.
-/
import Proofs.Lemmas.EqNorm

namespace Proofs.Eq
open Pywbem.Model.Eq Pywbem.Generated.Slots

/-! ### the pair-returning recursions in projection form -/

theorem deepObj_list (n j : Nat) (xs : List Obj) :
    deepObj n (.list j xs) = (.list n (deepList (n + 1) xs).1, (deepList (n + 1) xs).2) := by
  simp [deepObj]
theorem deepObj_dict (n j : Nat) (es : List (Key × Obj)) :
    deepObj n (.dict j es) = (.dict n (deepEntries (n + 1) es).1, (deepEntries (n + 1) es).2) := by
  simp [deepObj]
theorem deepObj_node (n j : Nat) (k : Kind) (as : List Obj) :
    deepObj n (.node j k as) = (.node n k (deepList (n + 1) as).1, (deepList (n + 1) as).2) := by
  simp [deepObj]
theorem deepList_cons (n : Nat) (x : Obj) (xs : List Obj) :
    deepList n (x :: xs) = ((deepObj n x).1 :: (deepList (deepObj n x).2 xs).1, (deepList (deepObj n x).2 xs).2) := by
  simp [deepList]
theorem deepEntries_cons (n : Nat) (k : Key) (v : Obj) (es : List (Key × Obj)) :
    deepEntries n ((k, v) :: es) = ((k, (deepObj n v).1) :: (deepEntries (deepObj n v).2 es).1, (deepEntries (deepObj n v).2 es).2) := by
  simp [deepEntries]
theorem copySlots_cons (n : Nat) (c : CopyAct) (cs : List CopyAct) (a : Obj) (as : List Obj) :
    copySlots n (c :: cs) (a :: as) = ((copySlot n c a).1 :: (copySlots (copySlot n c a).2 cs as).1, (copySlots (copySlot n c a).2 cs as).2) := by
  simp [copySlots]
theorem copyObj_node (n i : Nat) (k : Kind) (as : List Obj) :
    copyObj n (.node i k as) = (.node n k (copySlots (n + 1) (copySpec k) as).1, (copySlots (n + 1) (copySpec k) as).2) := by
  simp [copyObj]

/-- the per-slot step of `normAttrs` -/
def slotNorm (C : CaseOps) (c : Cmp) (a : Obj) : Obj :=
  match c with
  | .skip => Obj.none
  | .name =>
    (match a with
     | .atom (.str s) => Obj.atom (.str (C.lower s))
     | _ => norm C a)
  | .item => norm C a
  | .dict => norm C a

theorem normAttrs_cons (C : CaseOps) (c : Cmp) (cs : List Cmp) (a : Obj) (as : List Obj) :
    normAttrs C (c :: cs) (a :: as) = slotNorm C c a :: normAttrs C cs as := by
  cases c <;> simp only [normAttrs, slotNorm] <;>
    (cases a with
     | atom x => cases x <;> rfl
     | _ => rfl)

/-- two attribute lists that `norm` cannot tell apart, slot by slot -/
def SlotEqv (C : CaseOps) : List Obj → List Obj → Prop
  | [], [] => True
  | a :: as, b :: bs => (∀ c, slotNorm C c a = slotNorm C c b) ∧ norm C a = norm C b ∧ SlotEqv C as bs
  | _, _ => False

theorem normAttrs_congr (C : CaseOps) : ∀ (cs : List Cmp) (as bs : List Obj), SlotEqv C as bs →
    normAttrs C cs as = normAttrs C cs bs
  | _, [], [], _ => by simp [normAttrs]
  | _, [], _ :: _, h => by simp [SlotEqv] at h
  | _, _ :: _, [], h => by simp [SlotEqv] at h
  | [], a :: as, b :: bs, h => by
    simp only [SlotEqv] at h
    simp only [normAttrs, h.2.1, normAttrs_congr C [] as bs h.2.2]
  | c :: cs, a :: as, b :: bs, h => by
    simp only [SlotEqv] at h
    rw [normAttrs_cons, normAttrs_cons, h.1 c, normAttrs_congr C cs as bs h.2.2]

theorem SlotEqv_refl (C : CaseOps) : ∀ as : List Obj, SlotEqv C as as
  | [] => trivial
  | _ :: as => ⟨fun _ => rfl, rfl, SlotEqv_refl C as⟩

/-- slot-wise: same `norm` and same "is a string" shape give the same `slotNorm` -/
theorem slotNorm_reid_dict (C : CaseOps) (c : Cmp) (i j : Nat) (es : List (Key × Obj)) :
    slotNorm C c (.dict i es) = slotNorm C c (.dict j es) := by
  cases c <;> simp [slotNorm, norm]

theorem slotNorm_reid_list (C : CaseOps) (c : Cmp) (i j : Nat) (xs : List Obj) :
    slotNorm C c (.list i xs) = slotNorm C c (.list j xs) := by
  cases c <;> simp [slotNorm, norm]

theorem slotNorm_reid_node (C : CaseOps) (c : Cmp) (i j : Nat) (k : Kind) (as bs : List Obj)
    (h : norm C (.node i k as) = norm C (.node j k bs)) :
    slotNorm C c (.node i k as) = slotNorm C c (.node j k bs) := by
  cases c <;> simp [slotNorm, h]

theorem norm_copyInstanceName (C : CaseOps) (n : Nat) (x : Obj) :
    norm C (copyInstanceName n x).1 = norm C x := by
  unfold copyInstanceName
  split
  · rename_i i cn j es h ns
    simp only [norm, Obj.node.injEq, true_and]
    apply normAttrs_congr
    exact ⟨fun _ => rfl, rfl, fun c => slotNorm_reid_dict C c _ _ es, by simp [norm],
      fun _ => rfl, rfl, fun _ => rfl, rfl, trivial⟩
  · rfl

theorem copyInstanceName_shape (n : Nat) (x : Obj) :
    (∃ i as bs, x = .node i .instanceName as ∧ (copyInstanceName n x).1 = .node n .instanceName bs) ∨
    (copyInstanceName n x).1 = x := by
  unfold copyInstanceName
  split
  · exact Or.inl ⟨_, _, _, rfl, rfl⟩
  · exact Or.inr rfl

theorem slotNorm_copySlot (C : CaseOps) (c : Cmp) (n : Nat) (act : CopyAct) (x : Obj) :
    slotNorm C c (copySlot n act x).1 = slotNorm C c x ∧ norm C (copySlot n act x).1 = norm C x := by
  cases act
  · simp [copySlot]
  · cases x with
    | dict i es => exact ⟨slotNorm_reid_dict C c _ _ _, by simp [copySlot, norm]⟩
    | _ => simp [copySlot]
  · cases x with
    | list i xs => exact ⟨slotNorm_reid_list C c _ _ _, by simp [copySlot, norm]⟩
    | _ => simp [copySlot]
  · simp only [copySlot]
    have hn := norm_copyInstanceName C n x
    refine ⟨?_, hn⟩
    rcases copyInstanceName_shape n x with ⟨i, as, bs, rfl, h2⟩ | h
    · rw [h2] at hn ⊢
      exact slotNorm_reid_node C c _ _ _ _ _ hn
    · rw [h]
  · cases x <;> simp [copySlot, norm]
    cases c <;> simp [slotNorm, norm]

theorem SlotEqv_copySlots (C : CaseOps) : ∀ (n : Nat) (acts : List CopyAct) (as : List Obj),
    acts.length = as.length → SlotEqv C (copySlots n acts as).1 as
  | _, [], [], _ => by simp [copySlots, SlotEqv]
  | _, [], _ :: _, h => by simp at h
  | _, _ :: _, [], h => by simp at h
  | n, act :: acts, a :: as, h => by
    rw [copySlots_cons]
    refine ⟨fun c => (slotNorm_copySlot C c n act a).1, (slotNorm_copySlot C .item n act a).2, ?_⟩
    exact SlotEqv_copySlots C _ acts as (by simpa using h)

theorem copySpec_length (k : Kind) : (copySpec k).length = (eqSpec k).length := by
  simp [copySpec, eqSpec]

/-- `copy()` changes nothing `==` can see -/
theorem norm_copyObj (C : CaseOps) (n : Nat) (a : Obj) (g : good C a = true) :
    norm C (copyObj n a).1 = norm C a := by
  cases a with
  | node i k as =>
    simp only [good] at g
    rw [copyObj_node]
    simp only [norm, Obj.node.injEq, true_and]
    apply normAttrs_congr
    apply SlotEqv_copySlots
    rw [copySpec_length, goodAttrs_length C _ _ g]
  | dict i es => simp [copyObj, norm]
  | _ => simp [copyObj]

theorem norm_shallowObj (C : CaseOps) (n : Nat) (a : Obj) : norm C (shallowObj n a).1 = norm C a := by
  cases a <;> simp [shallowObj, norm]

/-! ### deepcopy / pickle -/

def DeepAt (C : CaseOps) (x : Obj) : Prop :=
  ∀ n, norm C (deepObj n x).1 = norm C x ∧ n ≤ (deepObj n x).2 ∧
    ∀ i ∈ ids (deepObj n x).1, n ≤ i ∧ i < (deepObj n x).2

theorem slotNorm_deepObj (C : CaseOps) (c : Cmp) (n : Nat) (x : Obj)
    (h : norm C (deepObj n x).1 = norm C x) : slotNorm C c (deepObj n x).1 = slotNorm C c x := by
  cases x with
  | atom y => simp [deepObj]
  | none => simp [deepObj]
  | list j ys => rw [deepObj_list] at h ⊢; cases c <;> simp [slotNorm, h]
  | dict j es => rw [deepObj_dict] at h ⊢; cases c <;> simp [slotNorm, h]
  | node j k as => rw [deepObj_node] at h ⊢; cases c <;> simp [slotNorm, h]

theorem deepList_ok (C : CaseOps) : ∀ (xs : List Obj), (∀ x ∈ xs, DeepAt C x) → ∀ n,
    normList C (deepList n xs).1 = normList C xs ∧ SlotEqv C (deepList n xs).1 xs ∧ n ≤ (deepList n xs).2 ∧
    ∀ i ∈ idsList (deepList n xs).1, n ≤ i ∧ i < (deepList n xs).2
  | [], _, n => by simp [deepList, idsList, SlotEqv, normList]
  | x :: xs, ih, n => by
    obtain ⟨h1, h2, h3⟩ := ih x (by simp) n
    obtain ⟨g1, g2, g3, g4⟩ := deepList_ok C xs (fun z hz => ih z (by simp [hz])) (deepObj n x).2
    rw [deepList_cons]
    simp only [normList, idsList, List.mem_append]
    refine ⟨by rw [h1, g1], ⟨fun c => slotNorm_deepObj C c n x h1, h1, g2⟩, by omega, ?_⟩
    rintro i (hi | hi)
    · have := h3 i hi; omega
    · have := g4 i hi; omega

theorem deepEntries_ok (C : CaseOps) : ∀ (es : List (Key × Obj)), (∀ e ∈ es, DeepAt C e.2) → ∀ n,
    normEntries C (deepEntries n es).1 = normEntries C es ∧ n ≤ (deepEntries n es).2 ∧
    ∀ i ∈ idsEntries (deepEntries n es).1, n ≤ i ∧ i < (deepEntries n es).2
  | [], _, n => by simp [deepEntries, idsEntries, normEntries]
  | (k, v) :: es, ih, n => by
    have hv : DeepAt C v := ih (k, v) (by simp)
    obtain ⟨h1, h2, h3⟩ := hv n
    obtain ⟨g1, g2, g3⟩ := deepEntries_ok C es (fun z hz => ih z (by simp [hz])) (deepObj n v).2
    rw [deepEntries_cons]
    simp only [normEntries, idsEntries, List.mem_append]
    refine ⟨by rw [h1, g1], by omega, ?_⟩
    rintro i (hi | hi)
    · have := h3 i hi; omega
    · have := g3 i hi; omega

theorem deepObj_ok (C : CaseOps) : ∀ a, DeepAt C a := by
  apply Obj.ind'
  · intro n; simp [deepObj, ids]
  · intro a n; simp [deepObj, ids]
  · intro id xs ih n
    obtain ⟨g1, _, g3, g4⟩ := deepList_ok C xs ih (n + 1)
    rw [deepObj_list]
    simp only [norm, ids, List.mem_cons]
    refine ⟨by rw [g1], by omega, ?_⟩
    rintro i (rfl | hi)
    · omega
    · have := g4 i hi; omega
  · intro id es ih n
    obtain ⟨g1, g3, g4⟩ := deepEntries_ok C es ih (n + 1)
    rw [deepObj_dict]
    simp only [norm, ids, List.mem_cons]
    refine ⟨by rw [g1], by omega, ?_⟩
    rintro i (rfl | hi)
    · omega
    · have := g4 i hi; omega
  · intro id k as ih n
    obtain ⟨_, g2, g3, g4⟩ := deepList_ok C as ih (n + 1)
    rw [deepObj_node]
    simp only [norm, ids, List.mem_cons]
    refine ⟨by rw [normAttrs_congr C _ _ _ g2], by omega, ?_⟩
    rintro i (rfl | hi)
    · omega
    · have := g4 i hi; omega

/-! ### which identities of the original survive in `copy()` -/

/-- the slot holds nothing mutable besides what `copy()` re-creates or what is documented as shared -/
def slotOk : CopyAct → Obj → Bool
  | .newDict, .dict _ _ => true
  | .value, .list _ xs => idsList xs == []
  | .pathCopy, .node _ .instanceName [cn, .dict _ es, h, ns] =>
      ids cn == [] && idsEntries es == [] && ids h == [] && ids ns == []
  | .shallow, .node _ _ as => idsList as == []
  | _, o => ids o == []

def slotsOk : List CopyAct → List Obj → Bool
  | c :: cs, a :: as => slotOk c a && slotsOk cs as
  | _, _ => true

/-- no mutable value objects outside the dict-valued attributes -/
def valuesImmutable : Obj → Bool
  | .node _ k as => slotsOk (copySpec k) as
  | _ => true

theorem copySlot_shared (n m : Nat) (hnm : n ≤ m) (act : CopyAct) (x : Obj) (hok : slotOk act x = true) :
    m ≤ (copySlot m act x).2 ∧
    ∀ i ∈ ids (copySlot m act x).1, i < n → i ∈ documentedSharedSlot act x := by
  cases act
  · -- share
    cases x <;> simp_all [copySlot, slotOk, documentedSharedSlot]
  · -- newDict
    cases x <;> simp_all [copySlot, slotOk, documentedSharedSlot, ids] <;> (intros; omega)
  · -- value
    cases x <;> simp_all [copySlot, slotOk, documentedSharedSlot, ids] <;> (intros; omega)
  · -- pathCopy
    simp only [copySlot]
    unfold copyInstanceName
    split
    · rename_i i cn j es h ns
      simp [slotOk] at hok
      simp [ids, idsList, hok, documentedSharedSlot]
      omega
    · rename_i hne
      refine ⟨Nat.le_refl _, ?_⟩
      have : ids x = [] := by
        unfold slotOk at hok
        split at hok <;> first
          | simpa using hok
          | (exfalso; exact hne _ _ _ _ _ _ rfl)
          | (exfalso; apply hne <;> rfl)
          | (exfalso; simp_all)
      simp [this]
  · -- shallow
    cases x <;> simp_all [copySlot, slotOk, documentedSharedSlot, ids] <;> (intros; omega)

theorem copySlots_shared (n : Nat) : ∀ (m : Nat) (acts : List CopyAct) (as : List Obj), n ≤ m →
    slotsOk acts as = true →
    ∀ i ∈ idsList (copySlots m acts as).1, i < n → i ∈ documentedSharedSlots acts as
  | _, [], _, _, _ => by simp [copySlots, idsList]
  | _, _ :: _, [], _, _ => by simp [copySlots, idsList]
  | m, act :: acts, a :: as, hnm, hok => by
    simp only [slotsOk, Bool.and_eq_true] at hok
    obtain ⟨h1, h2⟩ := copySlot_shared n m hnm act a hok.1
    have ih := copySlots_shared n (copySlot m act a).2 acts as (by omega) hok.2
    rw [copySlots_cons]
    simp only [idsList, documentedSharedSlots, List.mem_append]
    rintro i (hi | hi) hlt
    · exact Or.inl (h2 i hi hlt)
    · exact Or.inr (ih i hi hlt)

end Proofs.Eq
