/-
C02 helper lemmas, part 1: the exception classes the response-side object decoder
(`Model/RespDec.lean`) can raise.

`Safe P x` : every exception `x` raises satisfies `P`.  The lemmas are stated for an arbitrary `P` that
admits CIMXMLParseError (`[Allows P]`), so that the same lemma serves inside a `try` block (where
more classes are tolerated) and outside.  The tactic `safe` decomposes a do-block along bind / if /
match and closes the leaves with registered lemmas.
-/
import Pywbem.Model.Envelope

namespace Proofs.C02
open Pywbem.Model Pywbem.Model.Resp Pywbem.Proto Pywbem.Model.XmlText

structure Safe (P : PyExc → Prop) {α} (x : R α) : Prop where
  out : ∀ e, x = Except.error e → P e

class Allows (P : PyExc → Prop) : Prop where
  perr : P .cimXmlParseError
class AllowsV (P : PyExc → Prop) : Prop where
  v : P .valueError
class AllowsT (P : PyExc → Prop) : Prop where
  t : P .typeError
class AllowsO (P : PyExc → Prop) : Prop where
  o : P .overflowError

variable {P : PyExc → Prop} {α β : Type}

theorem Safe.pure (a : α) : Safe P (pure a : R α) := ⟨by intro e h; cases h⟩
theorem Safe.ok (a : α) : Safe P (.ok a : R α) := ⟨by intro e h; cases h⟩
theorem Safe.perr [Allows P] : Safe P (perr : R α) := ⟨by intro e h; cases h; exact Allows.perr⟩
theorem Safe.error {e : PyExc} (h : P e) : Safe P (.error e : R α) := ⟨by intro e' h'; cases h'; exact h⟩
theorem Safe.errorP [Allows P] : Safe P (.error .cimXmlParseError : R α) := Safe.error Allows.perr
theorem Safe.errorV [AllowsV P] : Safe P (.error .valueError : R α) := Safe.error AllowsV.v
theorem Safe.errorT [AllowsT P] : Safe P (.error .typeError : R α) := Safe.error AllowsT.t
theorem Safe.errorO [AllowsO P] : Safe P (.error .overflowError : R α) := Safe.error AllowsO.o

theorem Safe.bind {x : R α} {f : α → R β} (hx : Safe P x) (hf : ∀ a, Safe P (f a)) : Safe P (x >>= f) := ⟨by
  intro e h
  cases x with
  | error e' =>
    have h2 : (Except.error e' >>= f : R β) = Except.error e' := rfl
    rw [h2] at h; cases h; exact hx.out _ rfl
  | ok a => exact (hf a).out e h⟩

theorem Safe.bind' {x : R α} {f : α → R β} (hx : Safe P x) (hf : ∀ a, x = .ok a → Safe P (f a)) :
    Safe P (x >>= f) := ⟨by
  intro e h
  cases x with
  | error e' =>
    have h2 : (Except.error e' >>= f : R β) = Except.error e' := rfl
    rw [h2] at h; cases h; exact hx.out _ rfl
  | ok a => exact (hf a rfl).out e h⟩

theorem Safe.ite {c : Prop} [Decidable c] {a b : R α} (ha : c → Safe P a) (hb : ¬ c → Safe P b) :
    Safe P (if c then a else b) := by
  by_cases h : c
  · simp only [h, if_true]; exact ha h
  · simp only [h, if_false]; exact hb h

theorem Safe.mono {Q : PyExc → Prop} {x : R α} (h : ∀ e, P e → Q e) (hx : Safe P x) : Safe Q x :=
  ⟨fun e he => h e (hx.out e he)⟩

/-- the classes tolerated inside `try: … except hs: raise CIMXMLParseError` -/
def Caught (hs : List PyExc) (P : PyExc → Prop) : PyExc → Prop := fun e => e ∈ hs ∨ P e

instance {hs} [Allows P] : Allows (Caught hs P) := ⟨Or.inr Allows.perr⟩
instance : AllowsV (Caught [.typeError, .valueError] P) := ⟨Or.inl (by decide)⟩
instance : AllowsT (Caught [.typeError, .valueError] P) := ⟨Or.inl (by decide)⟩
instance : AllowsV (Caught [.valueError] P) := ⟨Or.inl (by decide)⟩
instance : AllowsV (Caught [.valueError, .overflowError] P) := ⟨Or.inl (by decide)⟩
instance : AllowsO (Caught [.valueError, .overflowError] P) := ⟨Or.inl (by decide)⟩

theorem Safe.catchExc [Allows P] {hs : List PyExc} {x : R α} (hx : Safe (Caught hs P) x) : Safe P (catchExc hs x) := ⟨by
  intro e h
  unfold Resp.catchExc at h
  cases x with
  | ok a => simp at h
  | error e' =>
    simp only at h
    by_cases hc : e' ∈ hs
    · simp [hc] at h; subst h; exact Allows.perr
    · simp [hc] at h; subst h
      rcases hx.out _ rfl with h1 | h1
      · exact absurd h1 hc
      · exact h1⟩

theorem Safe.catchVT [Allows P] {x : R α} (hx : Safe (Caught [.typeError, .valueError] P) x) : Safe P (catchVT x) :=
  Safe.catchExc hx

/-- only CIMXMLParseError -/
abbrev PE : PyExc → Prop := fun e => e = .cimXmlParseError
instance : Allows PE := ⟨rfl⟩

syntax "safe_leaf" : tactic
macro_rules | `(tactic| safe_leaf) => `(tactic| fail "no leaf lemma applies")

/-- decompose along bind / if / match; close leaves by assumption or registered lemmas -/
macro "safe" : tactic => `(tactic|
  repeat' (first
    | (with_reducible assumption)
    | (with_reducible contradiction)
    | (with_reducible exact Safe.pure _)
    | (with_reducible exact Safe.ok _)
    | (with_reducible exact Safe.perr)
    | (with_reducible exact Safe.errorP)
    | (with_reducible exact Safe.errorV)
    | (with_reducible exact Safe.errorT)
    | (with_reducible exact Safe.errorO)
    | (with_reducible safe_leaf)
    | (with_reducible apply Safe.bind)
    | (with_reducible apply Safe.catchVT)
    | (with_reducible apply Safe.catchExc)
    | (intro _)
    | (with_reducible apply Safe.ite)
    | split
    | (dsimp only)
    | (exfalso; simp_all; done)))

/-! ### shared helper functions of the C01 decoder model: only CIMXMLParseError -/

theorem checkNode_safe [Allows P] (t : Xml) (n : String) (r o : List String) (a : Option (List String)) (p : Bool) :
    Safe P (checkNode t n r o a p) := by
  unfold checkNode; safe
macro_rules | `(tactic| safe_leaf) => `(tactic| exact checkNode_safe _ _ _ _ _ _)

theorem checkG_safe [Allows P] (fn : String) (t : Xml) : Safe P (checkG fn t) := by
  unfold checkG; safe
macro_rules | `(tactic| safe_leaf) => `(tactic| exact checkG_safe _ _)

theorem unpackBoolean_safe [Allows P] (d : Str) : Safe P (unpackBoolean d) := by
  unfold unpackBoolean; safe
macro_rules | `(tactic| safe_leaf) => `(tactic| exact unpackBoolean_safe _)

theorem boolAttrOf_safe [Allows P] (as : List (Str × Str)) (k d : String) : Safe P (boolAttrOf as k d) := by
  unfold boolAttrOf; safe
macro_rules | `(tactic| safe_leaf) => `(tactic| exact boolAttrOf_safe _ _ _)

theorem unpackChar16_safe [Allows P] (d : Str) : Safe P (unpackChar16 d) := by
  unfold unpackChar16; safe
macro_rules | `(tactic| safe_leaf) => `(tactic| exact unpackChar16_safe _)

theorem parseNum_safe [Allows P] (C : DecCodec) (d : Str) : Safe P (parseNum C d) := by
  unfold parseNum; safe
macro_rules | `(tactic| safe_leaf) => `(tactic| exact parseNum_safe _ _)

theorem decNamespaces_safe [Allows P] (ks : List Xml) : Safe P (decNamespaces ks) := by
  fun_induction decNamespaces ks <;> safe
macro_rules | `(tactic| safe_leaf) => `(tactic| exact decNamespaces_safe _)

theorem decLocalNsPath_safe [Allows P] (t : Xml) : Safe P (decLocalNsPath t) := by
  unfold decLocalNsPath; safe
macro_rules | `(tactic| safe_leaf) => `(tactic| exact decLocalNsPath_safe _)

theorem decHost_safe [Allows P] (t : Xml) : Safe P (decHost t) := by
  unfold decHost; safe
macro_rules | `(tactic| safe_leaf) => `(tactic| exact decHost_safe _)

theorem decNsPath_safe [Allows P] (t : Xml) : Safe P (decNsPath t) := by
  unfold decNsPath; safe
macro_rules | `(tactic| safe_leaf) => `(tactic| exact decNsPath_safe _)

theorem decClassName_safe [Allows P] (t : Xml) : Safe P (decClassName t) := by
  unfold decClassName; safe
macro_rules | `(tactic| safe_leaf) => `(tactic| exact decClassName_safe _)

theorem decValueText_safe [Allows P] (t : Xml) : Safe P (decValueText t) := by
  unfold decValueText; safe
macro_rules | `(tactic| safe_leaf) => `(tactic| exact decValueText_safe _)

theorem decArrayRaw_safe [Allows P] (ks : List Xml) : Safe P (decArrayRaw ks) := by
  fun_induction decArrayRaw ks <;> safe
macro_rules | `(tactic| safe_leaf) => `(tactic| exact decArrayRaw_safe _)

theorem decRawVals_safe [Allows P] (ks : List Xml) : Safe P (decRawVals ks) := by
  fun_induction decRawVals ks <;> safe
macro_rules | `(tactic| safe_leaf) => `(tactic| exact decRawVals_safe _)

theorem decScopeAttrs_safe [Allows P] (as : List (Str × Str)) : Safe P (decScopeAttrs as) := by
  fun_induction decScopeAttrs as <;> safe
macro_rules | `(tactic| safe_leaf) => `(tactic| exact decScopeAttrs_safe _)

/-! ### conversions -/

/-- hypothesis on the third-party conversion `int(float)`: it raises OverflowError (inf) or ValueError
    (nan) and nothing else -/
def CodecOk (C : DecCodec) : Prop :=
  ∀ b e, C.truncFloat b = .error e → e = .overflowError ∨ e = .valueError

/-- the hypothesis is a theorem for the concrete conversion: `int(float)` raises OverflowError (inf) or
    ValueError (nan) and nothing else -/
theorem truncF64_errors (b : UInt64) (e : PyExc) (h : truncF64 b = .error e) : e = .overflowError ∨ e = .valueError := by
  unfold truncF64 at h
  dsimp only at h
  split at h
  · split at h
    · cases h; exact Or.inl rfl
    · cases h; exact Or.inr rfl
  · cases h

theorem concreteCodec_ok (C : DecCodec) : CodecOk (concreteCodec C) := by
  intro b e h
  exact truncF64_errors b e h

theorem pyIntE_safe [AllowsV P] (s : Str) : Safe P (pyIntE s) := by
  unfold pyIntE; safe
macro_rules | `(tactic| safe_leaf) => `(tactic| exact pyIntE_safe _)

theorem parseNumL_safe [Allows P] (C : DecCodec) (d : Str) : Safe P (parseNumL C d) := by
  unfold parseNumL; safe
macro_rules | `(tactic| safe_leaf) => `(tactic| exact parseNumL_safe _ _)

theorem arraySize_safe [Allows P] (as : List (Str × Str)) : Safe P (arraySize as) := by
  unfold arraySize; safe
macro_rules | `(tactic| safe_leaf) => `(tactic| exact arraySize_safe _)

theorem numCtor_safe [AllowsV P] [AllowsO P] (C : DecCodec) (hC : CodecOk C) (t : NumTy) (n : Num) :
    Safe P (numCtor C t n) := by
  unfold numCtor
  safe
  · rename_i b
    constructor
    intro e he
    rcases hC b e he with h | h <;> subst h
    · exact AllowsO.o
    · exact AllowsV.v

/-- `type_from_name` is outside the try block: it must not fail for the names the caller lets through -/
theorem typeFromName_ok (ty : Str) (h : numericTypeName ty = true) : ∃ t, typeFromName ty = .ok t := by
  unfold typeFromName
  unfold numericTypeName at h
  cases hi : IntTy.ofName ty with
  | some t => exact ⟨_, rfl⟩
  | none =>
    simp [hi] at h
    rcases h with h | h <;> simp [h]

theorem unpackNumeric_safe [Allows P] (C : DecCodec) (hC : CodecOk C) (d : Str) (ty : Option Str)
    (h : ∀ t, ty = some t → numericTypeName t = true) : Safe P (Resp.unpackNumeric C d ty) := by
  unfold Resp.unpackNumeric
  cases ty with
  | none => safe
  | some t =>
    obtain ⟨nt, hnt⟩ := typeFromName_ok t (h t rfl)
    simp only [hnt]
    safe
    exact numCtor_safe C hC _ _

theorem unpackSingle_safe [Allows P] (C : DecCodec) (hC : CodecOk C) (d : Str) (ty : Option Str) :
    Safe P (Resp.unpackSingle C d ty) := by
  unfold Resp.unpackSingle
  safe
  · exact unpackNumeric_safe C hC _ _ (by intro t h; cases h)
  · rename_i ty _ _ hn
    exact unpackNumeric_safe C hC _ _ (by intro t h; cases h; exact hn)
macro_rules | `(tactic| safe_leaf) => `(tactic| exact unpackSingle_safe _ ‹_› _ _)

/-! ### paths -/

theorem decKeyValue_safe [Allows P] (C : DecCodec) (hC : CodecOk C) (t : Xml) : Safe P (Resp.decKeyValue C t) := by
  unfold Resp.decKeyValue; safe
macro_rules | `(tactic| safe_leaf) => `(tactic| exact decKeyValue_safe _ ‹_› _)

theorem keyValueCheck_safe [AllowsV P] [AllowsT P] (a : Atom) : Safe P (keyValueCheck a) := by
  unfold keyValueCheck; safe
macro_rules | `(tactic| safe_leaf) => `(tactic| exact keyValueCheck_safe _)

theorem keysCheck_safe [AllowsV P] [AllowsT P] (l : List Key) : Safe P (keysCheck l) := by
  fun_induction keysCheck l <;> safe
macro_rules | `(tactic| safe_leaf) => `(tactic| exact keysCheck_safe _)

theorem ctorInstanceName_safe [AllowsV P] [AllowsT P] (c : Str) (l : List Key) : Safe P (ctorInstanceName c l) := by
  unfold ctorInstanceName; safe
macro_rules | `(tactic| safe_leaf) => `(tactic| exact ctorInstanceName_safe _ _)

end Proofs.C02
