/-
Helper lemmas for C08 stage 3b-d: class declarations (`CIMClass.tomof`, `CIMProperty.tomof(is_instance=False)`,
`CIMMethod.tomof`, `CIMParameter.tomof`, `p_classDeclaration`, `p_propertyDeclaration*`, `p_referenceDeclaration`,
`p_methodDeclaration`, `p_parameter*`).
-/
import Proofs.Lemmas.MofInst

set_option linter.unusedSimpArgs false
set_option linter.unusedVariables false

namespace Pywbem.Lemmas.MofClass
open Pywbem.Proto Pywbem.Model Pywbem.Model.MofStr Pywbem.Model.MofLex Pywbem.Model.MofVal Pywbem.Model.MofDecl
open Pywbem.Lemmas.MofStr Pywbem.Lemmas.MofNum Pywbem.Lemmas.MofTok Pywbem.Lemmas.MofValue Pywbem.Lemmas.MofDoc
open Pywbem.Lemmas.MofQual Pywbem.Lemmas.MofQualList Pywbem.Lemmas.MofInst

abbrev Str := List Nat

/-! ### qualifier lists as documents -/

def qualListToks {c : Codec} (qs : List (Qualifier c)) (tokss : List (List Tok)) : List Tok :=
  if qs = [] then [] else Tok.p 91 :: listToks (qToksList qs tokss)

theorem listPieces_snoc (indent : Nat) : ∀ pss : List (List Piece),
    ∃ ps', listPieces indent pss = ps' ++ [.sep kBracketNl]
  | [] => ⟨[], rfl⟩
  | [p] => ⟨p, rfl⟩
  | p :: q :: r => by
    obtain ⟨ps', h⟩ := listPieces_snoc indent (q :: r)
    exact ⟨p ++ (.sep (listSep indent) :: ps'), by simp [listPieces, h]⟩

theorem quals_doc (c : Codec) (L : CodecLaws c) (decls : List (QualDecl c)) (qs : List (Qualifier c))
    (hok : ∀ q ∈ qs, QualifierOk c L decls q) (indent maxline : Nat)
    (hm : indent + 1 + Generated.mofIndent + 8 ≤ maxline) (text : Str)
    (hr : qualifiersTomof c qs indent maxline = .ok text) :
    ∃ tokss, QAll c qs tokss ∧ DocS text (qualListToks qs tokss) := by
  unfold qualifiersTomof at hr
  by_cases hnil : qs = []
  · simp only [hnil, if_true, Except.ok.injEq] at hr
    subst hnil; rw [← hr]
    exact ⟨[], .nil, by simpa [qualListToks] using DocS.nil⟩
  · simp only [hnil, if_false] at hr
    cases hl : qualifiersTomofList c indent maxline qs with
    | error e => simp [hl] at hr
    | ok ts =>
      simp only [hl, Except.ok.injEq] at hr
      obtain ⟨tokss, pss, hall, hts, hpss, htoks⟩ := list_doc c L indent maxline hm qs ts
        (fun q hq => ⟨(hok q hq).nameWord, (hok q hq).valueOk⟩) hl
      obtain ⟨lok, lwf⟩ := listPieces_ok indent pss hpss
      obtain ⟨ps', hsn⟩ := listPieces_snoc indent pss
      refine ⟨tokss, hall, ⟨.sep (indentStr indent ++ [91]) :: ps', kBracketNl, ?_, ?_, ?_, ?_⟩⟩
      · rw [← hr, hts]
        have := listPieces_text indent pss
        rw [hsn] at this
        simp only [docText] at this ⊢
        simp only [List.cons_append, List.map_cons, List.flatten_cons, Piece.text, this, listSep]
        simp
      · have hsep : (indentStr indent ++ [91]).all isSepPlain = true := by
          simp only [List.all_append, indent_sep, Bool.true_and]; decide
        intro p hp
        simp only [List.cons_append, List.mem_cons] at hp
        rcases hp with hp | hp
        · subst hp; exact hsep
        · exact lok p (by rw [hsn]; exact hp)
      · have := WF_sep_cons (indentStr indent ++ [91]) _ lwf
        rw [hsn] at this
        simpa using this
      · have hpt : punctToks (indentStr indent ++ [91]) = [Tok.p 91] := by
          have : ∀ n, punctToks (indentStr n ++ [91]) = [Tok.p 91] := by
            intro n; induction n with
            | zero => decide
            | succ n ih => simp only [indentStr, List.replicate_succ, List.cons_append] at ih ⊢; simp [punctToks, isPunct, ih]
          exact this indent
        have := listPieces_toks indent pss
        rw [hsn] at this
        simp only [docToks] at this ⊢
        simp only [List.cons_append, List.map_cons, List.flatten_cons, Piece.toks, this, hpt, htoks, qualListToks, hnil,
          if_false]
        rfl

theorem listToks_len (c : Codec) : ∀ (qs : List (Qualifier c)) (tokss : List (List Tok)), QAll c qs tokss →
    qs.length ≤ (listToks (qToksList qs tokss)).length := by
  intro qs
  induction qs with
  | nil => intro _ _; simp
  | cons q r ih =>
    intro tokss h
    cases h with
    | cons hq hr2 =>
      rename_i t ts
      cases r with
      | nil => cases hr2; simp [qToksList, listToks, qToks]
      | cons q2 r2 =>
        cases hr2 with
        | cons hq2 hr3 =>
          have := ih _ (.cons hq2 hr3)
          simp only [qToksList, listToks, qToks, List.length_append, List.length_cons] at this ⊢
          omega

/-- what follows an optional qualifier list: a type or class name, or the keyword `class` -/
def IdHead : List Tok → Prop
  | .id _ :: _ => True
  | _ => False

theorem parseOptQuals_toks (c : Codec) (L : CodecLaws c) (decls : List (QualDecl c)) (qs : List (Qualifier c))
    (hok : ∀ q ∈ qs, QualifierOk c L decls q) (tokss : List (List Tok)) (hall : QAll c qs tokss)
    (rest : List Tok) (hrest : IdHead rest) :
    parseOptQuals c decls (qualListToks qs tokss ++ rest) = some (qs, rest) := by
  by_cases hnil : qs = []
  · subst hnil
    simp only [qualListToks, if_true, List.nil_append]
    cases rest with
    | nil => exact absurd hrest (by simp [IdHead])
    | cons a b =>
      cases a with
      | id w => rfl
      | _ => exact absurd hrest (by simp [IdHead])
  · simp only [qualListToks, hnil, if_false, List.cons_append, parseOptQuals, parseQualList]
    exact parseQualsF_list c L decls qs tokss hnil hok hall rest _
      (by have := listToks_len c qs tokss hall; simp only [List.length_append]; omega)

/-! ### `<indent><type> <name>[size]` -/

def kwREF : Str := [82, 69, 70]

/-- type and reference class go together -/
def TypeRefOk (ty : CimType) (rc : Option Str) : Prop :=
  (ty = .reference → ∃ r, rc = some r ∧ IsWord r ∧ identOf r = some r) ∧ (ty ≠ .reference → rc = none)

def typePieces (ty : CimType) (rc : Option Str) : List Piece :=
  if ty = .reference then [.word (rc.getD []), .sep [32], .word kwREF] else [.word (tyStr ty)]

def typeToks (ty : CimType) (rc : Option Str) : List Tok :=
  if ty = .reference then [Tok.id (rc.getD []), Tok.id kwREF] else [Tok.id (tyStr ty)]

def headPieces (indent : Nat) (ty : CimType) (rc : Option Str) (name : Str) (isArray : Bool) (size : Option Nat) :
    List Piece :=
  [.sep (indentStr indent)] ++ typePieces ty rc ++ [.sep [32], .word name] ++ arrPieces isArray size

def headToks (ty : CimType) (rc : Option Str) (name : Str) (isArray : Bool) (size : Option Nat) : List Tok :=
  typeToks ty rc ++ [Tok.id name] ++ arrToksOf isArray size

theorem head_text (indent : Nat) (ty : CimType) (rc : Option Str) (name : Str) (isArray : Bool) (size : Option Nat) :
    docText (headPieces indent ty rc name isArray size) =
      indentStr indent ++ mofType ty rc ++ [32] ++ name ++ arrText isArray size := by
  have ha := arr_text isArray size
  have hk : kSpREF = [32] ++ kwREF := by decide
  simp only [docText] at ha
  by_cases h : ty = .reference <;>
    cases isArray <;> cases size <;>
      simp [headPieces, typePieces, docText, Piece.text, mofType, arrText, arrPieces, h, hk]

theorem head_toks (indent : Nat) (ty : CimType) (rc : Option Str) (name : Str) (isArray : Bool) (size : Option Nat) :
    docToks (headPieces indent ty rc name isArray size) = headToks ty rc name isArray size := by
  have ha := arr_toks isArray size
  have e32 : punctToks [32] = [] := by decide
  simp only [headPieces, headToks, docToks_append, ha]
  by_cases h : ty = .reference <;>
    simp [typePieces, typeToks, docToks, Piece.toks, punctToks_indent, e32, h]

theorem head_ok (indent : Nat) (ty : CimType) (rc : Option Str) (name : Str) (isArray : Bool) (size : Option Nat)
    (htr : TypeRefOk ty rc) (hn : IsWord name) :
    (∀ p ∈ headPieces indent ty rc name isArray size, p.Ok) ∧ WF (headPieces indent ty rc name isArray size) := by
  obtain ⟨aok, awf, ag⟩ := arr_ok isArray size
  have s32 : ([32] : Str).all isSepPlain = true := by decide
  have n32 : ([32] : Str) ≠ [] := by decide
  by_cases h : ty = .reference
  · obtain ⟨r, hr, hrw, _⟩ := htr.1 h
    subst hr
    refine ⟨?_, ?_⟩
    · intro p hp
      simp only [headPieces, typePieces, h, if_true, Option.getD_some, List.mem_append, List.mem_cons,
        List.mem_nil_iff, or_false] at hp
      rcases hp with ((hp | hp | hp | hp) | hp | hp) | hp
      · subst hp; exact indent_sep indent
      · subst hp; exact hrw
      · subst hp; exact s32
      · subst hp; exact isWord_of_B _ (by decide)
      · subst hp; exact s32
      · subst hp; exact hn
      · exact aok p hp
    · simp only [headPieces, typePieces, h, if_true, Option.getD_some]
      exact WF_append_gap _ _ ⟨.inl trivial, .inr n32, .inl trivial, .inr n32, .inl trivial, trivial⟩ awf ag
  · refine ⟨?_, ?_⟩
    · intro p hp
      simp only [headPieces, typePieces, h, if_false, List.mem_append, List.mem_cons, List.mem_nil_iff, or_false] at hp
      rcases hp with ((hp | hp) | hp | hp) | hp
      · subst hp; exact indent_sep indent
      · subst hp; exact tyStr_word ty
      · subst hp; exact s32
      · subst hp; exact hn
      · exact aok p hp
    · simp only [headPieces, typePieces, h, if_false]
      exact WF_append_gap _ _ ⟨.inl trivial, .inr n32, .inl trivial, trivial⟩ awf ag

/-- what follows `type name`: punctuation, never an identifier -/
def NotIdHead : List Tok → Prop
  | .id _ :: _ => False
  | _ => True

theorem identOf_not_ref (n : Str) (h : identOf n = some n) : isKw n "ref" = false := by
  unfold identOf at h
  split at h
  · simp at h
  · rename_i hk
    simp only [notIdentKw, Bool.or_eq_true, not_or, Bool.not_eq_true] at hk
    exact hk.1.2

theorem tyStr_not_ref (ty : CimType) : isKw (tyStr ty) "ref" = false := by cases ty <;> decide

theorem parseTypeRef_toks (ty : CimType) (rc : Option Str) (htr : TypeRefOk ty rc) (name : Str)
    (hn : identOf name = some name) (rest : List Tok) (hrest : NotIdHead rest) :
    parseTypeRef (typeToks ty rc ++ Tok.id name :: rest) = some ((ty, rc), Tok.id name :: rest) := by
  by_cases h : ty = .reference
  · obtain ⟨r, hr, _, hid⟩ := htr.1 h
    subst hr; subst h
    have hk : isKw kwREF "ref" = true := by decide
    simp [typeToks, parseTypeRef, hk, hid]
  · have hrc := htr.2 h
    subst hrc
    have hnr := identOf_not_ref name hn
    simp only [typeToks, h, if_false, List.cons_append, List.nil_append]
    cases rest with
    | nil => simp [parseTypeRef, dataTypeOf_tyStr ty h]
    | cons a b =>
      cases a with
      | id w => exact absurd hrest (by simp [NotIdHead])
      | p ch => simp [parseTypeRef, dataTypeOf_tyStr ty h]
      | str w => simp [parseTypeRef, dataTypeOf_tyStr ty h]
      | chr w => simp [parseTypeRef, dataTypeOf_tyStr ty h]
      | num w => simp [parseTypeRef, dataTypeOf_tyStr ty h]

/-! ### property declarations -/

/-- a class property MOF can express in the presence of the qualifier declarations `decls` -/
structure PropOk (c : Codec) (L : CodecLaws c) (decls : List (QualDecl c)) (p : Property c) : Prop where
  nameWord : IsWord p.name
  nameId : identOf p.name = some p.name
  typeRef : TypeRefOk p.ty p.refClass
  refNoArr : p.ty = .reference → p.isArray = false
  sizeArr : p.arraySize.isSome = true → p.isArray = true
  quals : ∀ q ∈ p.quals, QualifierOk c L decls q
  valueOk : ∀ v, p.value = some v → ValueOk c L p.ty v ∧ Value.isList v = p.isArray ∧ v ≠ .scalar .null

def ValRel (c : Codec) : Option (Value c) → Option (List Tok) → Prop
  | none, none => True
  | some v, some t => ValueToks c v t
  | _, _ => False

def propToks {c : Codec} (p : Property c) (qtoks : List (List Tok)) (vt : Option (List Tok)) : List Tok :=
  qualListToks p.quals qtoks ++ (headToks p.ty p.refClass p.name p.isArray p.arraySize ++
    (match vt with | none => [Tok.p 59] | some t => assignToks p.isArray t))

theorem propDecl_doc (c : Codec) (L : CodecLaws c) (decls : List (QualDecl c)) (p : Property c)
    (hok : PropOk c L decls p) (indent maxline : Nat)
    (hm : indent + Generated.mofIndent + 1 + Generated.mofIndent + 8 ≤ maxline) (t : Str)
    (hr : propertyTomof c p false indent maxline = .ok t) :
    ∃ qtoks vt, QAll c p.quals qtoks ∧ ValRel c p.value vt ∧ DocS t (propToks p qtoks vt) := by
  simp only [propertyTomof, Bool.false_eq_true, if_false, Bool.or_false] at hr
  cases hq : qualifiersTomof c p.quals (indent + Generated.mofIndent) maxline with
  | error e => simp [hq] at hr
  | ok qtext =>
    simp only [hq] at hr
    obtain ⟨qtoks, hqall, hqdoc⟩ := quals_doc c L decls p.quals hok.quals (indent + Generated.mofIndent) maxline hm qtext hq
    obtain ⟨hdok, hdwf⟩ := head_ok indent p.ty p.refClass p.name p.isArray p.arraySize hok.typeRef hok.nameWord
    have hdt := head_text indent p.ty p.refClass p.name p.isArray p.arraySize
    have hdk := head_toks indent p.ty p.refClass p.name p.isArray p.arraySize
    cases hv : p.value with
    | none =>
      simp only [hv, Option.isSome_none, Bool.false_eq_true, if_false, Except.ok.injEq] at hr
      refine ⟨qtoks, none, hqall, by simp [ValRel], ?_⟩
      have hsemi : kSemiNl.all isSepPlain = true := by decide
      have hwf : WF (headPieces indent p.ty p.refClass p.name p.isArray p.arraySize ++ [.sep kSemiNl]) :=
        WF_append_gap _ _ hdwf trivial (by show kSemiNl ≠ []; decide)
      have hd := DocS.ofPieces _ kSemiNl hdok hsemi hwf
      have e : punctToks kSemiNl = [Tok.p 59] := by decide
      rw [hdt, hdk, e] at hd
      have := DocS.append hqdoc hd
      rw [← hr]
      simpa [propToks, List.append_assoc] using this
    | some v =>
      obtain ⟨hv1, hv2, hv3⟩ := hok.valueOk v hv
      simp only [hv, Option.isSome_some, if_true, Option.getD_some] at hr
      generalize hvm : valueToMof c p.ty v (indent + Generated.mofIndent) maxline _ 1 true = res at hr
      cases res with
      | error e => simp at hr
      | ok r =>
        simp only [Except.ok.injEq] at hr
        obtain ⟨toks, hvt, hdoc⟩ := assign_doc c L p.ty v hv1 (indent + Generated.mofIndent) maxline (by omega) _ r hvm
          (headPieces indent p.ty p.refClass p.name p.isArray p.arraySize) hdok hdwf
        rw [hdt, hdk, hv2] at hdoc
        refine ⟨qtoks, some toks, hqall, by simpa [ValRel] using hvt, ?_⟩
        have := DocS.append hqdoc hdoc
        rw [← hr, hv2]
        simp only [propToks, List.append_assoc, List.cons_append, List.nil_append] at this ⊢
        exact this

/-- what follows a feature or parameter: never something that could continue it -/
theorem assignToks_eq (isList : Bool) (toks : List Tok) (out : Str) :
    assignToks isList toks = defToks (some (out, toks)) isList ++ [Tok.p 59] := by
  cases isList <;> simp [assignToks, defToks]

/-- common part: qualifiers, type, name, array of a property whose remaining tokens are `tail` -/
theorem parseFeature_prop_core (c : Codec) (L : CodecLaws c) (decls : List (QualDecl c)) (p : Property c)
    (hok : PropOk c L decls p) (qtoks : List (List Tok)) (hq : QAll c p.quals qtoks) (tail rest : List Tok)
    (htail : (∃ x, tail = Tok.p 59 :: x) ∨ (∃ x, tail = Tok.p 61 :: x))
    (hpd : parseDefault c p.ty p.isArray (tail ++ rest) = some (p.value, Tok.p 59 :: rest)) :
    parseFeature c decls (qualListToks p.quals qtoks ++ (headToks p.ty p.refClass p.name p.isArray p.arraySize ++ tail) ++ rest) =
      some (.inl p, rest) := by
  obtain ⟨name, ty, rc, isArray, size, value, quals⟩ := p
  simp only at hok hq hpd ⊢
  have hidh : ∀ x, IdHead (headToks ty rc name isArray size ++ x) := by
    intro x; by_cases h : ty = .reference <;> simp [headToks, typeToks, h, IdHead]
  have hpq := parseOptQuals_toks c L decls quals hok.quals qtoks hq ((headToks ty rc name isArray size ++ tail) ++ rest)
    (by rw [List.append_assoc]; exact hidh _)
  simp only [List.append_assoc] at hpq ⊢
  simp only [parseFeature, hpq]
  have hnid : NotIdHead (arrToksOf isArray size ++ (tail ++ rest)) := by
    rcases htail with ⟨x, e⟩ | ⟨x, e⟩ <;> subst e <;> cases isArray <;> cases size <;> simp [arrToksOf, NotIdHead]
  have hpt := parseTypeRef_toks ty rc hok.typeRef name hok.nameId _ hnid
  simp only [headToks, List.append_assoc, List.cons_append, List.nil_append] at hpt ⊢
  simp only [hpt, hok.nameId]
  have hrefarr : ¬ (rc.isSome = true ∧ isArray = true) := by
    intro ⟨h1, h2⟩
    by_cases h : ty = .reference
    · have := hok.refNoArr h; simp only at this; rw [this] at h2; exact absurd h2 (by decide)
    · have := hok.typeRef.2 h; simp only at this; rw [this] at h1; exact absurd h1 (by decide)
  have hnb : NotBracketHead (tail ++ rest) := by
    rcases htail with ⟨x, e⟩ | ⟨x, e⟩ <;> subst e <;> simp [NotBracketHead]
  have hpa := parseArr_toks isArray size hok.sizeArr _ hnb
  -- the token after the name is `[`, `=` or `;`: not a method
  rcases htail with ⟨x, e⟩ | ⟨x, e⟩ <;> subst e <;> cases isArray <;> cases size <;>
    simp_all [arrToksOf, parseArr]

theorem parseFeature_prop (c : Codec) (L : CodecLaws c) (decls : List (QualDecl c)) (p : Property c)
    (hok : PropOk c L decls p) (qtoks : List (List Tok)) (hq : QAll c p.quals qtoks) (vt : Option (List Tok))
    (hv : ValRel c p.value vt) (rest : List Tok) :
    parseFeature c decls (propToks p qtoks vt ++ rest) = some (.inl p, rest) := by
  cases hval : p.value with
  | none =>
    cases vt with
    | some x => rw [hval] at hv; exact absurd hv (by simp [ValRel])
    | none =>
      have hpd := parseDefault_none c p.ty p.isArray (Tok.p 59 :: rest) (by simp [NotEqHead])
      have := parseFeature_prop_core c L decls p hok qtoks hq [Tok.p 59] rest (.inl ⟨[], rfl⟩)
        (by rw [hval]; simpa using hpd)
      simpa [propToks, List.append_assoc] using this
  | some v =>
    cases vt with
    | none => rw [hval] at hv; exact absurd hv (by simp [ValRel])
    | some toks =>
      obtain ⟨hv1, hv2, hv3⟩ := hok.valueOk v hval
      have hvt : ValueToks c v toks := by rw [hval] at hv; exact hv
      have hpd := parseDefault_value c L p.ty v toks hv1 hvt hv3 [] (Tok.p 59 :: rest) trivial
      rw [hv2] at hpd
      have hae := assignToks_eq p.isArray toks []
      have := parseFeature_prop_core c L decls p hok qtoks hq (assignToks p.isArray toks) rest
        (.inr (by cases p.isArray <;> simp [assignToks]))
        (by rw [hval, hae]; simpa [List.append_assoc] using hpd)
      simpa [propToks, List.append_assoc] using this

/-! ### parameters -/

structure ParamOk (c : Codec) (L : CodecLaws c) (decls : List (QualDecl c)) (p : Parameter c) : Prop where
  nameWord : IsWord p.name
  nameId : identOf p.name = some p.name
  typeRef : TypeRefOk p.ty p.refClass
  sizeArr : p.arraySize.isSome = true → p.isArray = true
  quals : ∀ q ∈ p.quals, QualifierOk c L decls q

def paramToks {c : Codec} (p : Parameter c) (qtoks : List (List Tok)) : List Tok :=
  qualListToks p.quals qtoks ++ headToks p.ty p.refClass p.name p.isArray p.arraySize

/-- a parameter followed by a non-empty separator run (`,\n` or `);\n`) -/
theorem param_doc (c : Codec) (L : CodecLaws c) (decls : List (QualDecl c)) (p : Parameter c)
    (hok : ParamOk c L decls p) (indent maxline : Nat)
    (hm : indent + Generated.mofIndent + 1 + Generated.mofIndent + 8 ≤ maxline) (t : Str)
    (hr : parameterTomof c p indent maxline = .ok t) (r : Str) (hr1 : r.all isSepPlain = true) (hr2 : r ≠ []) :
    ∃ qtoks, QAll c p.quals qtoks ∧ DocS (t ++ r) (paramToks p qtoks ++ punctToks r) := by
  simp only [parameterTomof] at hr
  cases hq : qualifiersTomof c p.quals (indent + Generated.mofIndent) maxline with
  | error e => simp [hq] at hr
  | ok qtext =>
    simp only [hq, Except.ok.injEq] at hr
    obtain ⟨qtoks, hqall, hqdoc⟩ := quals_doc c L decls p.quals hok.quals (indent + Generated.mofIndent) maxline hm qtext hq
    obtain ⟨hdok, hdwf⟩ := head_ok indent p.ty p.refClass p.name p.isArray p.arraySize hok.typeRef hok.nameWord
    have hdt := head_text indent p.ty p.refClass p.name p.isArray p.arraySize
    have hdk := head_toks indent p.ty p.refClass p.name p.isArray p.arraySize
    have hwf : WF (headPieces indent p.ty p.refClass p.name p.isArray p.arraySize ++ [.sep r]) :=
      WF_append_gap _ _ hdwf trivial hr2
    have hd := DocS.ofPieces _ r hdok hr1 hwf
    rw [hdt, hdk] at hd
    refine ⟨qtoks, hqall, ?_⟩
    have := DocS.append hqdoc hd
    rw [← hr]
    simpa [paramToks, List.append_assoc] using this

def ParamEnd : List Tok → Prop
  | .p 44 :: _ => True
  | .p 41 :: _ => True
  | _ => False

theorem parseParameter_toks (c : Codec) (L : CodecLaws c) (decls : List (QualDecl c)) (p : Parameter c)
    (hok : ParamOk c L decls p) (qtoks : List (List Tok)) (hq : QAll c p.quals qtoks) (rest : List Tok)
    (hrest : ParamEnd rest) : parseParameter c decls (paramToks p qtoks ++ rest) = some (p, rest) := by
  obtain ⟨name, ty, rc, isArray, size, quals⟩ := p
  simp only at hok hq ⊢
  have hidh : ∀ x, IdHead (headToks ty rc name isArray size ++ x) := by
    intro x; by_cases h : ty = .reference <;> simp [headToks, typeToks, h, IdHead]
  have hpq := parseOptQuals_toks c L decls quals hok.quals qtoks hq (headToks ty rc name isArray size ++ rest) (hidh _)
  simp only [paramToks, List.append_assoc]
  simp only [parseParameter, hpq]
  have hr2 : NotIdHead rest ∧ NotBracketHead rest := by
    cases rest with
    | nil => exact absurd hrest (by simp [ParamEnd])
    | cons a b =>
      cases a with
      | p ch =>
        by_cases h44 : ch = 44
        · subst h44; simp [NotIdHead, NotBracketHead]
        · by_cases h41 : ch = 41
          · subst h41; simp [NotIdHead, NotBracketHead]
          · exfalso; revert hrest; unfold ParamEnd; split <;> simp_all
      | _ => exact absurd hrest (by simp [ParamEnd])
  have hnid : NotIdHead (arrToksOf isArray size ++ rest) := by
    cases isArray <;> cases size <;> first | (simpa [arrToksOf] using hr2.1) | simp [arrToksOf, NotIdHead]
  have hpt := parseTypeRef_toks ty rc hok.typeRef name hok.nameId _ hnid
  have hpa := parseArr_toks isArray size hok.sizeArr rest hr2.2
  simp only [headToks, List.append_assoc, List.cons_append, List.nil_append] at hpt ⊢
  simp only [hpt, hok.nameId, hpa]

inductive PQAll (c : Codec) : List (Parameter c) → List (List (List Tok)) → Prop where
  | nil : PQAll c [] []
  | cons {p ps q qs} : QAll c p.quals q → PQAll c ps qs → PQAll c (p :: ps) (q :: qs)

def paramsToks {c : Codec} : List (Parameter c) → List (List (List Tok)) → List Tok
  | [p], [q] => paramToks p q
  | p :: p2 :: ps, q :: qs => paramToks p q ++ Tok.p 44 :: paramsToks (p2 :: ps) qs
  | _, _ => []

theorem params_doc (c : Codec) (L : CodecLaws c) (decls : List (QualDecl c)) (indent maxline : Nat)
    (hm : indent + Generated.mofIndent + 1 + Generated.mofIndent + 8 ≤ maxline) :
    ∀ (ps : List (Parameter c)) (ts : List Str), ps ≠ [] → (∀ p ∈ ps, ParamOk c L decls p) →
      mapTomof (fun p => parameterTomof c p indent maxline) ps = .ok ts →
      ∃ qs, PQAll c ps qs ∧ DocS (joinSep kCommaNl ts ++ kCloseSemiNl) (paramsToks ps qs ++ [Tok.p 41, Tok.p 59]) := by
  intro ps
  induction ps with
  | nil => intro _ h; exact absurd rfl h
  | cons p ps ih =>
    intro ts _ hok hr
    simp only [mapTomof] at hr
    cases hp : parameterTomof c p indent maxline with
    | error e => simp [hp] at hr
    | ok t =>
      simp only [hp] at hr
      cases hrest : mapTomof (fun p => parameterTomof c p indent maxline) ps with
      | error e => simp [hrest, Except.map] at hr
      | ok ts' =>
        simp only [hrest, Except.map, Except.ok.injEq] at hr
        subst hr
        cases ps with
        | nil =>
          simp only [mapTomof, Except.ok.injEq] at hrest
          subst hrest
          obtain ⟨q, hq, hd⟩ := param_doc c L decls p (hok p (by simp)) indent maxline hm t hp kCloseSemiNl
            (by decide) (by decide)
          have e : punctToks kCloseSemiNl = [Tok.p 41, Tok.p 59] := by decide
          rw [e] at hd
          exact ⟨[q], .cons hq .nil, by simpa [joinSep, paramsToks] using hd⟩
        | cons p2 ps2 =>
          obtain ⟨q, hq, hd⟩ := param_doc c L decls p (hok p (by simp)) indent maxline hm t hp kCommaNl
            (by decide) (by decide)
          have e : punctToks kCommaNl = [Tok.p 44] := by decide
          rw [e] at hd
          obtain ⟨qs, hqs, hds⟩ := ih ts' (by simp) (fun x hx => hok x (by simp [hx])) hrest
          refine ⟨q :: qs, .cons hq hqs, ?_⟩
          have := DocS.append hd hds
          cases ts' with
          | nil => simp [mapTomof] at hrest; cases hx : parameterTomof c p2 indent maxline <;> simp [hx, Except.map] at hrest <;>
              cases hy : mapTomof (fun p => parameterTomof c p indent maxline) ps2 <;> simp [hy] at hrest
          | cons t2 ts2 =>
            simpa [joinSep, paramsToks, List.append_assoc] using this

theorem paramsToks_len (c : Codec) : ∀ (ps : List (Parameter c)) (qs : List (List (List Tok))), PQAll c ps qs →
    ps.length ≤ (paramsToks ps qs).length + 1 := by
  intro ps
  induction ps with
  | nil => intro _ _; simp
  | cons p r ih =>
    intro qs h
    cases h with
    | cons hq hrest =>
      cases r with
      | nil => cases hrest; simp
      | cons p2 r2 =>
        cases hrest with
        | cons hq2 hr3 =>
          have := ih _ (.cons hq2 hr3)
          simp only [paramsToks, List.length_append, List.length_cons] at this ⊢
          omega

theorem parseParamsF_toks (c : Codec) (L : CodecLaws c) (decls : List (QualDecl c)) :
    ∀ (ps : List (Parameter c)) (qs : List (List (List Tok))), ps ≠ [] → (∀ p ∈ ps, ParamOk c L decls p) →
      PQAll c ps qs → ∀ (rest : List Tok) f, ps.length ≤ f →
      parseParamsF c decls f (paramsToks ps qs ++ Tok.p 41 :: rest) = some (ps, rest) := by
  intro ps
  induction ps with
  | nil => intro _ h; exact absurd rfl h
  | cons p ps ih =>
    intro qs _ hok hall rest f hf
    cases hall with
    | cons hq hrest =>
      rename_i q qs'
      match f, hf with
      | f + 1, hf =>
        simp only [List.length_cons] at hf
        cases ps with
        | nil =>
          cases hrest
          have hp := parseParameter_toks c L decls p (hok p (by simp)) q hq (Tok.p 41 :: rest) trivial
          simp only [paramsToks, parseParamsF, hp]
        | cons p2 ps2 =>
          cases hrest with
          | cons hq2 hrest2 =>
            rename_i q2 qs2
            have hp := parseParameter_toks c L decls p (hok p (by simp)) q hq
              (Tok.p 44 :: (paramsToks (p2 :: ps2) (q2 :: qs2) ++ Tok.p 41 :: rest)) trivial
            have hrec := ih (q2 :: qs2) (by simp) (fun x hx => hok x (by simp [hx])) (.cons hq2 hrest2) rest f
              (by simp only [List.length_cons] at hf ⊢; omega)
            simp only [paramsToks, List.append_assoc, List.cons_append] at hp ⊢
            simp only [parseParamsF, hp, hrec]
            simp

/-! ### methods -/

structure MethodOk (c : Codec) (L : CodecLaws c) (decls : List (QualDecl c)) (m : Method c) : Prop where
  nameWord : IsWord m.name
  nameId : identOf m.name = some m.name
  rtOk : m.returnType ≠ .reference
  quals : ∀ q ∈ m.quals, QualifierOk c L decls q
  params : ∀ p ∈ m.params, ParamOk c L decls p

def methodToks {c : Codec} (m : Method c) (qtoks : List (List Tok)) (pqs : List (List (List Tok))) : List Tok :=
  qualListToks m.quals qtoks ++ ([Tok.id (tyStr m.returnType), Tok.id m.name, Tok.p 40] ++
    (paramsToks m.params pqs ++ [Tok.p 41, Tok.p 59]))

theorem method_doc (c : Codec) (L : CodecLaws c) (decls : List (QualDecl c)) (m : Method c)
    (hok : MethodOk c L decls m) (indent maxline : Nat)
    (hm : indent + Generated.mofIndent + Generated.mofIndent + 1 + Generated.mofIndent + 8 ≤ maxline) (t : Str)
    (hr : methodTomof c m indent maxline = .ok t) :
    ∃ qtoks pqs, QAll c m.quals qtoks ∧ PQAll c m.params pqs ∧ DocS t (methodToks m qtoks pqs) := by
  simp only [methodTomof] at hr
  cases hq : qualifiersTomof c m.quals (indent + Generated.mofIndent) maxline with
  | error e => simp [hq] at hr
  | ok qtext =>
    simp only [hq] at hr
    obtain ⟨qtoks, hqall, hqdoc⟩ := quals_doc c L decls m.quals hok.quals (indent + Generated.mofIndent) maxline
      (by omega) qtext hq
    have htr : TypeRefOk m.returnType none := ⟨fun h => absurd h hok.rtOk, fun _ => rfl⟩
    obtain ⟨hdok, hdwf⟩ := head_ok indent m.returnType none m.name false none htr hok.nameWord
    have hdt := head_text indent m.returnType none m.name false none
    have hdk := head_toks indent m.returnType none m.name false none
    have hak : arrToksOf false none = [] := rfl
    have hat : arrText false none = [] := rfl
    have htt : typeToks m.returnType none = [Tok.id (tyStr m.returnType)] := by simp [typeToks, hok.rtOk]
    rw [hat] at hdt
    simp only [headToks, hak, htt, List.append_nil] at hdk
    by_cases hp : m.params = []
    · simp only [hp, if_true, Except.ok.injEq] at hr
      have hwf : WF (headPieces indent m.returnType none m.name false none ++ [.sep kParensSemiNl]) :=
        WF_append_gap _ _ hdwf trivial (by show kParensSemiNl ≠ []; decide)
      have hd := DocS.ofPieces _ kParensSemiNl hdok (by decide) hwf
      have e : punctToks kParensSemiNl = [Tok.p 40, Tok.p 41, Tok.p 59] := by decide
      rw [hdt, hdk, e] at hd
      have := DocS.append hqdoc hd
      refine ⟨qtoks, [], hqall, by rw [hp]; exact .nil, ?_⟩
      rw [← hr]
      simpa [methodToks, hp, paramsToks, List.append_assoc] using this
    · simp only [hp, if_false] at hr
      cases hps : mapTomof (fun p => parameterTomof c p (indent + Generated.mofIndent) maxline) m.params with
      | error e => simp [hps] at hr
      | ok ts =>
        simp only [hps, Except.ok.injEq] at hr
        have hwf : WF (headPieces indent m.returnType none m.name false none ++ [.sep kParenNl]) :=
          WF_append_gap _ _ hdwf trivial (by show kParenNl ≠ []; decide)
        have hd := DocS.ofPieces _ kParenNl hdok (by decide) hwf
        have e : punctToks kParenNl = [Tok.p 40] := by decide
        rw [hdt, hdk, e] at hd
        obtain ⟨pqs, hpq, hpd⟩ := params_doc c L decls (indent + Generated.mofIndent) maxline (by omega) m.params ts hp
          hok.params hps
        have := DocS.append (DocS.append hqdoc hd) hpd
        refine ⟨qtoks, pqs, hqall, hpq, ?_⟩
        rw [← hr]
        simpa [methodToks, List.append_assoc] using this

theorem paramsToks_head (c : Codec) (p : Parameter c) (ps : List (Parameter c)) (q : List (List Tok))
    (qs : List (List (List Tok))) (hall : PQAll c ps qs) (rest : List Tok) :
    ∃ a b, paramsToks (p :: ps) (q :: qs) ++ rest = a :: b ∧ a ≠ Tok.p 41 := by
  have hh : ∃ a b, paramToks p q = a :: b ∧ a ≠ Tok.p 41 := by
    unfold paramToks qualListToks
    split
    · by_cases h : p.ty = .reference <;> simp [headToks, typeToks, h]
    · exact ⟨_, _, rfl, by simp⟩
  obtain ⟨a, b, e, hne⟩ := hh
  cases hall with
  | nil => exact ⟨a, b ++ rest, by simp [paramsToks, e], hne⟩
  | cons _ _ => exact ⟨a, _, by simp [paramsToks, e]; rfl, hne⟩

theorem parseFeature_method (c : Codec) (L : CodecLaws c) (decls : List (QualDecl c)) (m : Method c)
    (hok : MethodOk c L decls m) (qtoks : List (List Tok)) (hq : QAll c m.quals qtoks)
    (pqs : List (List (List Tok))) (hp : PQAll c m.params pqs) (rest : List Tok) :
    parseFeature c decls (methodToks m qtoks pqs ++ rest) = some (.inr m, rest) := by
  obtain ⟨name, rt, params, quals⟩ := m
  simp only at hok hq hp ⊢
  have htr : TypeRefOk rt none := ⟨fun h => absurd h hok.rtOk, fun _ => rfl⟩
  have htt : typeToks rt none = [Tok.id (tyStr rt)] := by simp [typeToks, hok.rtOk]
  have hpq := parseOptQuals_toks c L decls quals hok.quals qtoks hq
    ([Tok.id (tyStr rt), Tok.id name, Tok.p 40] ++ (paramsToks params pqs ++ [Tok.p 41, Tok.p 59]) ++ rest)
    (by simp [IdHead])
  simp only [methodToks, List.append_assoc] at hpq ⊢
  simp only [parseFeature, hpq]
  have hpt := parseTypeRef_toks rt none htr name hok.nameId
    (Tok.p 40 :: (paramsToks params pqs ++ (Tok.p 41 :: Tok.p 59 :: rest))) (by simp [NotIdHead])
  simp only [htt, List.cons_append, List.nil_append] at hpt ⊢
  simp only [hpt, hok.nameId]
  cases params with
  | nil =>
    cases hp
    simp [paramsToks]
  | cons p ps =>
    cases hp with
    | cons hq1 hrest =>
      rename_i q qs
      obtain ⟨a, b, e, hne⟩ := paramsToks_head c p ps q qs hrest (Tok.p 41 :: Tok.p 59 :: rest)
      have hpp := parseParamsF_toks c L decls (p :: ps) (q :: qs) (by simp) hok.params (.cons hq1 hrest)
        (Tok.p 59 :: rest) ((paramsToks (p :: ps) (q :: qs) ++ Tok.p 41 :: Tok.p 59 :: rest).length + 1)
        (by have := paramsToks_len c (p :: ps) (q :: qs) (.cons hq1 hrest); simp only [List.length_append]; omega)
      rw [e] at hpp ⊢
      cases a with
      | p ch =>
        have : ch ≠ 41 := fun h => hne (by rw [h])
        split
        · rename_i heq; simp at heq; exact absurd heq.1 this
        · rename_i heq; simp at heq; subst heq; simp only [List.length_cons] at hpp ⊢; simp [hpp]
        · rename_i h; exact absurd rfl (h _)
      | id w => simp only [List.length_cons] at hpp ⊢; simp [hpp]
      | str w => simp only [List.length_cons] at hpp ⊢; simp [hpp]
      | chr w => simp only [List.length_cons] at hpp ⊢; simp [hpp]
      | num w => simp only [List.length_cons] at hpp ⊢; simp [hpp]

/-! ### the class -/

def kwClass : Str := [99, 108, 97, 115, 115]

structure ClassOk (c : Codec) (L : CodecLaws c) (decls : List (QualDecl c)) (cls : Class c) : Prop where
  nameWord : IsWord cls.name
  nameId : identOf cls.name = some cls.name
  super : ∀ s, cls.superclass = some s → IsWord s ∧ identOf s = some s
  quals : ∀ q ∈ cls.quals, QualifierOk c L decls q
  props : ∀ p ∈ cls.props, PropOk c L decls p
  methods : ∀ m ∈ cls.methods, MethodOk c L decls m

inductive PropsRel (c : Codec) : List (Property c) → List (List (List Tok) × Option (List Tok)) → Prop where
  | nil : PropsRel c [] []
  | cons {p ps d ds} : QAll c p.quals d.1 → ValRel c p.value d.2 → PropsRel c ps ds → PropsRel c (p :: ps) (d :: ds)

inductive MethsRel (c : Codec) : List (Method c) → List (List (List Tok) × List (List (List Tok))) → Prop where
  | nil : MethsRel c [] []
  | cons {m ms d ds} : QAll c m.quals d.1 → PQAll c m.params d.2 → MethsRel c ms ds → MethsRel c (m :: ms) (d :: ds)

def propsToks {c : Codec} : List (Property c) → List (List (List Tok) × Option (List Tok)) → List Tok
  | p :: ps, d :: ds => propToks p d.1 d.2 ++ propsToks ps ds
  | _, _ => []

def methsToks {c : Codec} : List (Method c) → List (List (List Tok) × List (List (List Tok))) → List Tok
  | m :: ms, d :: ds => methodToks m d.1 d.2 ++ methsToks ms ds
  | _, _ => []

theorem props_doc (c : Codec) (L : CodecLaws c) (decls : List (QualDecl c)) (indent maxline : Nat)
    (hm : indent + Generated.mofIndent + 1 + Generated.mofIndent + 8 ≤ maxline) :
    ∀ (ps : List (Property c)) (ts : List Str), (∀ p ∈ ps, PropOk c L decls p) →
      mapTomof (fun p => propertyTomof c p false indent maxline) ps = .ok ts →
      ∃ ds, PropsRel c ps ds ∧ DocS (ts.map (10 :: ·)).flatten (propsToks ps ds) := by
  intro ps
  induction ps with
  | nil =>
    intro ts _ hr
    simp only [mapTomof, Except.ok.injEq] at hr
    subst hr
    exact ⟨[], .nil, by simpa [propsToks] using DocS.nil⟩
  | cons p ps ih =>
    intro ts hok hr
    simp only [mapTomof] at hr
    cases hp : propertyTomof c p false indent maxline with
    | error e => simp [hp] at hr
    | ok t =>
      simp only [hp] at hr
      cases hrest : mapTomof (fun p => propertyTomof c p false indent maxline) ps with
      | error e => simp [hrest, Except.map] at hr
      | ok ts' =>
        simp only [hrest, Except.map, Except.ok.injEq] at hr
        obtain ⟨qtoks, vt, hq, hv, hdoc⟩ := propDecl_doc c L decls p (hok p (by simp)) indent maxline hm t hp
        obtain ⟨ds, hrel, hdocs⟩ := ih ts' (fun x hx => hok x (by simp [hx])) hrest
        refine ⟨(qtoks, vt) :: ds, .cons hq hv hrel, ?_⟩
        have hnl : DocS [10] [] := by
          have := DocS.sep [10] (by decide)
          have e : punctToks [10] = [] := by decide
          rwa [e] at this
        have := DocS.append (DocS.append hnl hdoc) hdocs
        rw [← hr]
        simpa [propsToks] using this

theorem meths_doc (c : Codec) (L : CodecLaws c) (decls : List (QualDecl c)) (indent maxline : Nat)
    (hm : indent + Generated.mofIndent + Generated.mofIndent + 1 + Generated.mofIndent + 8 ≤ maxline) :
    ∀ (ms : List (Method c)) (ts : List Str), (∀ m ∈ ms, MethodOk c L decls m) →
      mapTomof (fun m => methodTomof c m indent maxline) ms = .ok ts →
      ∃ ds, MethsRel c ms ds ∧ DocS (ts.map (10 :: ·)).flatten (methsToks ms ds) := by
  intro ms
  induction ms with
  | nil =>
    intro ts _ hr
    simp only [mapTomof, Except.ok.injEq] at hr
    subst hr
    exact ⟨[], .nil, by simpa [methsToks] using DocS.nil⟩
  | cons m ms ih =>
    intro ts hok hr
    simp only [mapTomof] at hr
    cases hp : methodTomof c m indent maxline with
    | error e => simp [hp] at hr
    | ok t =>
      simp only [hp] at hr
      cases hrest : mapTomof (fun m => methodTomof c m indent maxline) ms with
      | error e => simp [hrest, Except.map] at hr
      | ok ts' =>
        simp only [hrest, Except.map, Except.ok.injEq] at hr
        obtain ⟨qtoks, pqs, hq, hpq, hdoc⟩ := method_doc c L decls m (hok m (by simp)) indent maxline hm t hp
        obtain ⟨ds, hrel, hdocs⟩ := ih ts' (fun x hx => hok x (by simp [hx])) hrest
        refine ⟨(qtoks, pqs) :: ds, .cons hq hpq hrel, ?_⟩
        have hnl : DocS [10] [] := by
          have := DocS.sep [10] (by decide)
          have e : punctToks [10] = [] := by decide
          rwa [e] at this
        have := DocS.append (DocS.append hnl hdoc) hdocs
        rw [← hr]
        simpa [methsToks] using this

/-- a feature's tokens start with `[` or an identifier, never with `}` -/
theorem feat_head_prop {c : Codec} (p : Property c) (q : List (List Tok)) (vt : Option (List Tok)) (rest : List Tok) :
    ∃ a b, propToks p q vt ++ rest = a :: b ∧ a ≠ Tok.p 125 := by
  unfold propToks qualListToks
  split
  · by_cases h : p.ty = .reference <;> simp [headToks, typeToks, h]
  · exact ⟨_, _, rfl, by simp⟩

theorem feat_head_meth {c : Codec} (m : Method c) (q : List (List Tok)) (pq : List (List (List Tok))) (rest : List Tok) :
    ∃ a b, methodToks m q pq ++ rest = a :: b ∧ a ≠ Tok.p 125 := by
  unfold methodToks qualListToks
  split
  · simp
  · exact ⟨_, _, rfl, by simp⟩

theorem parseFeaturesF_step (c : Codec) (decls : List (QualDecl c)) (f : Nat) (a : Tok) (b : List Tok)
    (ha : a ≠ Tok.p 125) :
    parseFeaturesF c decls (f + 1) (a :: b) =
      (match parseFeature c decls (a :: b) with
       | none => none
       | some (.inl p, r) => (parseFeaturesF c decls f r).map (fun x => ((p :: x.1.1, x.1.2), x.2))
       | some (.inr m, r) => (parseFeaturesF c decls f r).map (fun x => ((x.1.1, m :: x.1.2), x.2))) := by
  cases a with
  | p ch =>
    have : ch ≠ 125 := fun h => ha (by rw [h])
    conv => lhs; unfold parseFeaturesF
    split
    · rename_i heq; simp at heq
    · rename_i h1 h2; simp at h2; exact absurd h2.1 this
    · rename_i h1 h2; simp at h1; subst h1; rfl
  | id w => rfl
  | str w => rfl
  | chr w => rfl
  | num w => rfl

theorem parseFeaturesF_meths (c : Codec) (L : CodecLaws c) (decls : List (QualDecl c)) :
    ∀ (ms : List (Method c)) (ds : List (List (List Tok) × List (List (List Tok)))),
      (∀ m ∈ ms, MethodOk c L decls m) → MethsRel c ms ds → ∀ (rest : List Tok) f, ms.length + 1 ≤ f →
      parseFeaturesF c decls f (methsToks ms ds ++ Tok.p 125 :: rest) = some (([], ms), rest) := by
  intro ms
  induction ms with
  | nil =>
    intro ds _ hrel rest f hf
    cases hrel
    match f, hf with
    | f + 1, _ => simp [methsToks, parseFeaturesF]
  | cons m ms ih =>
    intro ds hok hrel rest f hf
    cases hrel with
    | cons hq hpq hrest =>
      rename_i d ds'
      match f, hf with
      | f + 1, hf =>
        simp only [List.length_cons] at hf
        obtain ⟨a, b, e, hne⟩ := feat_head_meth m d.1 d.2 (methsToks ms ds' ++ Tok.p 125 :: rest)
        have hpf := parseFeature_method c L decls m (hok m (by simp)) d.1 hq d.2 hpq (methsToks ms ds' ++ Tok.p 125 :: rest)
        have hrec := ih ds' (fun x hx => hok x (by simp [hx])) hrest rest f (by omega)
        simp only [methsToks, List.append_assoc]
        rw [e] at hpf ⊢
        rw [parseFeaturesF_step c decls f a b hne, hpf]
        simp [hrec]

theorem parseFeaturesF_props (c : Codec) (L : CodecLaws c) (decls : List (QualDecl c))
    (ms : List (Method c)) (mds : List (List (List Tok) × List (List (List Tok))))
    (hmok : ∀ m ∈ ms, MethodOk c L decls m) (hmrel : MethsRel c ms mds) :
    ∀ (ps : List (Property c)) (ds : List (List (List Tok) × Option (List Tok))),
      (∀ p ∈ ps, PropOk c L decls p) → PropsRel c ps ds → ∀ (rest : List Tok) f, ps.length + ms.length + 1 ≤ f →
      parseFeaturesF c decls f (propsToks ps ds ++ (methsToks ms mds ++ Tok.p 125 :: rest)) = some ((ps, ms), rest) := by
  intro ps
  induction ps with
  | nil =>
    intro ds _ hrel rest f hf
    cases hrel
    simp only [propsToks, List.nil_append]
    exact parseFeaturesF_meths c L decls ms mds hmok hmrel rest f (by simp at hf; omega)
  | cons p ps ih =>
    intro ds hok hrel rest f hf
    cases hrel with
    | cons hq hv hrest =>
      rename_i d ds'
      match f, hf with
      | f + 1, hf =>
        simp only [List.length_cons] at hf
        obtain ⟨a, b, e, hne⟩ := feat_head_prop p d.1 d.2 (propsToks ps ds' ++ (methsToks ms mds ++ Tok.p 125 :: rest))
        have hpf := parseFeature_prop c L decls p (hok p (by simp)) d.1 hq d.2 hv
          (propsToks ps ds' ++ (methsToks ms mds ++ Tok.p 125 :: rest))
        have hrec := ih ds' (fun x hx => hok x (by simp [hx])) hrest rest f (by omega)
        simp only [propsToks, List.append_assoc]
        rw [e] at hpf ⊢
        rw [parseFeaturesF_step c decls f a b hne, hpf]
        simp [hrec]

theorem propsToks_len (c : Codec) : ∀ (ps : List (Property c)) ds, PropsRel c ps ds → ps.length ≤ (propsToks ps ds).length := by
  intro ps
  induction ps with
  | nil => intro _ _; simp
  | cons p r ih =>
    intro ds h
    cases h with
    | cons hq hv hrest =>
      rename_i d ds'
      have := ih _ hrest
      obtain ⟨a, b, e, _⟩ := feat_head_prop p d.1 d.2 []
      simp only [List.append_nil] at e
      simp only [propsToks, List.length_append, e, List.length_cons] at this ⊢
      omega

theorem methsToks_len (c : Codec) : ∀ (ms : List (Method c)) ds, MethsRel c ms ds → ms.length ≤ (methsToks ms ds).length := by
  intro ms
  induction ms with
  | nil => intro _ _; simp
  | cons m r ih =>
    intro ds h
    cases h with
    | cons hq hv hrest =>
      rename_i d ds'
      have := ih _ hrest
      obtain ⟨a, b, e, _⟩ := feat_head_meth m d.1 d.2 []
      simp only [List.append_nil] at e
      simp only [methsToks, List.length_append, e, List.length_cons] at this ⊢
      omega

def supText : Option Str → Str
  | some s => kColonSp ++ s ++ [32]
  | none => []

def supToks : Option Str → List Tok
  | some s => [Tok.p 58, Tok.id s]
  | none => []

theorem class_roundtrip (c : Codec) (L : CodecLaws c) (decls : List (QualDecl c)) (cls : Class c)
    (hok : ClassOk c L decls cls) (maxline : Nat)
    (hm : Generated.mofIndent + Generated.mofIndent + Generated.mofIndent + 1 + Generated.mofIndent + 8 ≤ maxline)
    (text : Str) (hr : classTomof c cls maxline = .ok text) : readClass c decls text = some cls := by
  unfold classTomof at hr
  cases hq : qualifiersTomof c cls.quals Generated.mofIndent maxline with
  | error e => simp [hq] at hr
  | ok qtext =>
    simp only [hq] at hr
    cases hp : mapTomof (fun p => propertyTomof c p false Generated.mofIndent maxline) cls.props with
    | error e => simp [hp] at hr
    | ok pts =>
      simp only [hp] at hr
      cases hms : mapTomof (fun m => methodTomof c m Generated.mofIndent maxline) cls.methods with
      | error e => simp [hms] at hr
      | ok mts =>
        simp only [hms, Except.ok.injEq] at hr
        obtain ⟨qtoks, hqall, hqdoc⟩ := quals_doc c L decls cls.quals hok.quals Generated.mofIndent maxline (by omega) qtext hq
        obtain ⟨pds, hprel, hpdoc⟩ := props_doc c L decls Generated.mofIndent maxline (by omega) cls.props pts hok.props hp
        obtain ⟨mds, hmrel, hmdoc⟩ := meths_doc c L decls Generated.mofIndent maxline hm cls.methods mts hok.methods hms
        -- header
        have s32 : ([32] : Str).all isSepPlain = true := by decide
        have n32 : ([32] : Str) ≠ [] := by decide
        have e32 : punctToks [32] = [] := by decide
        have eb : punctToks kSpBraceNl = [Tok.p 123] := by decide
        have ec : punctToks kSpColonSp = [Tok.p 58] := by decide
        have ek : kClassSp = kwClass ++ [32] := by decide
        have e1 : [32] ++ kBraceNl = kSpBraceNl := by decide
        have e2 : [32] ++ kColonSp = kSpColonSp := by decide
        have hhead : DocS (kClassSp ++ cls.name ++ [32] ++ supText cls.superclass ++ kBraceNl)
            ([Tok.id kwClass, Tok.id cls.name] ++ supToks cls.superclass ++ [Tok.p 123]) := by
          cases hs : cls.superclass with
          | none =>
            have := DocS.ofPieces [.word kwClass, .sep [32], .word cls.name] kSpBraceNl
              (by
                intro p hpm
                simp only [List.mem_cons, List.mem_nil_iff, or_false] at hpm
                rcases hpm with h | h | h <;> subst h
                · exact isWord_of_B _ (by decide)
                · exact s32
                · exact hok.nameWord)
              (by decide) ⟨.inr n32, .inl trivial, .inr (by show kSpBraceNl ≠ []; decide), trivial⟩
            simp only [docText, docToks, List.map_cons, List.map_nil, List.flatten_cons, List.flatten_nil, Piece.text,
              Piece.toks, e32, eb] at this
            have ht : kClassSp ++ cls.name ++ [32] ++ [] ++ kBraceNl = kwClass ++ ([32] ++ (cls.name ++ [])) ++ kSpBraceNl := by
              rw [ek, ← e1]; simp
            simp only [supText, supToks]
            rw [ht]
            simpa using this
          | some s =>
            obtain ⟨hsw, _⟩ := hok.super s hs
            have := DocS.ofPieces [.word kwClass, .sep [32], .word cls.name, .sep kSpColonSp, .word s] kSpBraceNl
              (by
                intro p hpm
                simp only [List.mem_cons, List.mem_nil_iff, or_false] at hpm
                rcases hpm with h | h | h | h | h <;> subst h
                · exact isWord_of_B _ (by decide)
                · exact s32
                · exact hok.nameWord
                · show kSpColonSp.all isSepPlain = true; decide
                · exact hsw)
              (by decide) ⟨.inr n32, .inl trivial, .inr (by show kSpColonSp ≠ []; decide), .inl trivial,
                .inr (by show kSpBraceNl ≠ []; decide), trivial⟩
            simp only [docText, docToks, List.map_cons, List.map_nil, List.flatten_cons, List.flatten_nil, Piece.text,
              Piece.toks, e32, eb, ec] at this
            have ht : kClassSp ++ cls.name ++ [32] ++ (kColonSp ++ s ++ [32]) ++ kBraceNl =
                kwClass ++ ([32] ++ (cls.name ++ (kSpColonSp ++ (s ++ [])))) ++ kSpBraceNl := by
              rw [ek, ← e1, ← e2]; simp
            simp only [supText, supToks]
            rw [ht]
            simpa using this
        have htail : DocS kNlCloseSemiNl [Tok.p 125, Tok.p 59] := by
          have := DocS.sep kNlCloseSemiNl (by decide)
          have e : punctToks kNlCloseSemiNl = [Tok.p 125, Tok.p 59] := by decide
          rwa [e] at this
        have hdoc := (DocS.append (DocS.append (DocS.append (DocS.append hqdoc hhead) hpdoc) hmdoc) htail).toDoc
        have hlex := hdoc.lex
        have htext : qtext ++ (kClassSp ++ cls.name ++ [32] ++ supText cls.superclass ++ kBraceNl) ++
            (pts.map (10 :: ·)).flatten ++ (mts.map (10 :: ·)).flatten ++ kNlCloseSemiNl = text := by
          rw [← hr]; cases cls.superclass <;> simp [supText, List.append_assoc]
        rw [htext] at hlex
        -- parsing
        have hkw : isKw kwClass "class" = true := by decide
        have hidh : IdHead ([Tok.id kwClass, Tok.id cls.name] ++ supToks cls.superclass ++ [Tok.p 123] ++
              propsToks cls.props pds ++ methsToks cls.methods mds ++ [Tok.p 125, Tok.p 59]) := by simp [IdHead]
        have hpq := parseOptQuals_toks c L decls cls.quals hok.quals qtoks hqall _ hidh
        have hlen : cls.props.length + cls.methods.length + 1 ≤
            (propsToks cls.props pds ++ (methsToks cls.methods mds ++ [Tok.p 125, Tok.p 59])).length + 1 := by
          have h1 := propsToks_len c cls.props pds hprel
          have h2 := methsToks_len c cls.methods mds hmrel
          simp only [List.length_append]; omega
        have hfeat := parseFeaturesF_props c L decls cls.methods mds hok.methods hmrel cls.props pds hok.props hprel
          [Tok.p 59] _ hlen
        simp only [readClass, hlex]
        simp only [List.append_assoc] at hpq ⊢
        simp only [parseClass, hpq]
        cases hs : cls.superclass with
        | none =>
          simp only [supToks, List.cons_append, List.nil_append, hkw, Bool.not_true, Bool.false_eq_true, if_false, hok.nameId]
          rw [hfeat]
          obtain ⟨n, sup, qs, ps, ms⟩ := cls
          simp_all
        | some s =>
          obtain ⟨_, hsid⟩ := hok.super s hs
          simp only [List.cons_append, List.nil_append, hkw, Bool.not_true, Bool.false_eq_true, if_false, hok.nameId, hsid,
            Option.map_some, supToks]
          rw [hfeat]
          obtain ⟨n, sup, qs, ps, ms⟩ := cls
          simp_all

end Pywbem.Lemmas.MofClass
