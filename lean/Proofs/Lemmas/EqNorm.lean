/-
More lemmas for C05: attribute-wise characterisation of `eqAttrs` (what "distinguishes every attribute" rests on),
the normal-form theorem (what `==` cannot see), and order-insensitivity of NocaseDict equality.
-/
import Proofs.Lemmas.Eq

namespace Proofs.Eq
open Pywbem.Model.Eq Pywbem.Generated.Slots

/-- the comparison `__eq__` performs on one attribute -/
def cmp1 (C : CaseOps) (c : Cmp) (a b : Obj) : Bool :=
  match c with
  | .skip => true
  | .name => eqName C a b
  | .item => eqObj C a b
  | .dict => eqObj C a b

theorem eqAttrs_cons (C : CaseOps) (c : Cmp) (cs : List Cmp) (a b : Obj) (as bs : List Obj) :
    eqAttrs C (c :: cs) (a :: as) (b :: bs) = (cmp1 C c a b && eqAttrs C cs as bs) := by
  cases c <;> simp [eqAttrs, cmp1]

/-- `__eq__` of two objects of a class is exactly the conjunction of the per-attribute comparisons -/
theorem eqAttrs_iff_get (C : CaseOps) : ∀ (cs : List Cmp) (as bs : List Obj),
    eqAttrs C cs as bs = true ↔
      (as.length = cs.length ∧ bs.length = cs.length ∧
        ∀ i, i < cs.length → cmp1 C (cs.getD i .skip) (as.getD i .none) (bs.getD i .none) = true)
  | [], [], [] => by simp [eqAttrs]
  | [], [], _ :: _ => by simp [eqAttrs]
  | [], _ :: _, _ => by simp [eqAttrs]
  | _ :: _, [], _ => by simp [eqAttrs]
  | _ :: _, _ :: _, [] => by simp [eqAttrs]
  | c :: cs, a :: as, b :: bs => by
    rw [eqAttrs_cons, Bool.and_eq_true, eqAttrs_iff_get C cs as bs]
    constructor
    · rintro ⟨h0, h1, h2, h3⟩
      refine ⟨by simp [h1], by simp [h2], ?_⟩
      intro i hi
      cases i with
      | zero => simpa using h0
      | succ j => simpa using h3 j (by simpa using hi)
    · rintro ⟨h1, h2, h3⟩
      refine ⟨by simpa using h3 0 (by simp), by simpa using h1, by simpa using h2, ?_⟩
      intro i hi
      simpa using h3 (i + 1) (by simpa using hi)

theorem eqList_iff_get (C : CaseOps) : ∀ (xs ys : List Obj),
    eqList C xs ys = true ↔
      (xs.length = ys.length ∧ ∀ i, i < xs.length → eqObj C (xs.getD i .none) (ys.getD i .none) = true)
  | [], [] => by simp [eqList]
  | [], _ :: _ => by simp [eqList]
  | _ :: _, [] => by simp [eqList]
  | x :: xs, y :: ys => by
    simp only [eqList, Bool.and_eq_true, eqList_iff_get C xs ys]
    constructor
    · rintro ⟨h0, h1, h2⟩
      refine ⟨by simp [h1], ?_⟩
      intro i hi
      cases i with
      | zero => simpa using h0
      | succ j => simpa using h2 j (by simpa using hi)
    · rintro ⟨h1, h2⟩
      refine ⟨by simpa using h2 0 (by simp), by simpa using h1, ?_⟩
      intro i hi
      simpa using h2 (i + 1) (by simpa using hi)

theorem eqDict_iff (C : CaseOps) (i j : Nat) (es fs : List (Key × Obj)) (gf : good C (.dict j fs) = true) :
    eqObj C (.dict i es) (.dict j fs) = true ↔
      (es.length = fs.length ∧
        ∀ e ∈ es, ∃ f ∈ fs, ckey C f.1 = ckey C e.1 ∧ eqObj C e.2 f.2 = true) := by
  obtain ⟨hnf, _⟩ := (good_dict C j fs).mp gf
  simp only [eqObj, Bool.and_eq_true, beq_iff_eq, eqEntries_iff]
  constructor
  · rintro ⟨h, hl⟩
    refine ⟨hl, fun e he => ?_⟩
    obtain ⟨w, hw, hq⟩ := h e he
    obtain ⟨k', hm, hk⟩ := lookup_some_mem C e.1 fs w hw
    exact ⟨(k', w), hm, hk, hq⟩
  · rintro ⟨hl, h⟩
    refine ⟨fun e he => ?_, hl⟩
    obtain ⟨f, hf, hk, hq⟩ := h e he
    exact ⟨f.2, lookup_of_mem C fs hnf f.1 f.2 hf e.1 hk, hq⟩

/-! ### normal form -/

theorem normEntries_keys (C : CaseOps) : ∀ es fs : List (Key × Obj),
    normEntries C es = normEntries C fs → keysOf C es = keysOf C fs
  | [], [], _ => rfl
  | [], (_, _) :: _, h => by simp [normEntries] at h
  | (_, _) :: _, [], h => by simp [normEntries] at h
  | (k, v) :: es, (k', w) :: fs, h => by
    simp only [normEntries, List.cons.injEq, Prod.mk.injEq] at h
    simp only [keysOf, List.map_cons, List.cons.injEq]
    exact ⟨h.1.1, normEntries_keys C es fs h.2⟩

theorem normEntries_length (C : CaseOps) : ∀ es : List (Key × Obj), (normEntries C es).length = es.length
  | [] => rfl
  | (k, v) :: es => by simp [normEntries, normEntries_length C es]

theorem normEntries_partner (C : CaseOps) : ∀ es fs : List (Key × Obj),
    normEntries C es = normEntries C fs →
    ∀ e ∈ es, ∃ f ∈ fs, ckey C f.1 = ckey C e.1 ∧ norm C e.2 = norm C f.2
  | [], _, _ => by simp
  | (_, _) :: _, [], h => by simp [normEntries] at h
  | (k, v) :: es, (k', w) :: fs, h => by
    simp only [normEntries, List.cons.injEq, Prod.mk.injEq] at h
    intro e he
    rcases List.mem_cons.mp he with rfl | he
    · exact ⟨(k', w), by simp, h.1.1.symm, h.1.2⟩
    · obtain ⟨f, hf, hk, hn⟩ := normEntries_partner C es fs h.2 e he
      exact ⟨f, by simp [hf], hk, hn⟩

def NormAt (C : CaseOps) (x : Obj) : Prop :=
  good C x = true → ∀ y, norm C x = norm C y → eqObj C x y = true

theorem normList_eq (C : CaseOps) : ∀ xs ys : List Obj, (∀ x ∈ xs, NormAt C x) → goodList C xs = true →
    normList C xs = normList C ys → eqList C xs ys = true
  | [], [], _, _, _ => by simp [eqList]
  | [], _ :: _, _, _, h => by simp [normList] at h
  | _ :: _, [], _, _, h => by simp [normList] at h
  | x :: xs, y :: ys, ih, g, h => by
    simp only [normList, List.cons.injEq] at h
    simp only [goodList, Bool.and_eq_true] at g
    simp only [eqList, Bool.and_eq_true]
    exact ⟨ih x (by simp) g.1 y h.1, normList_eq C xs ys (fun z hz => ih z (by simp [hz])) g.2 h.2⟩

theorem norm_none_iff (C : CaseOps) (b : Obj) : Obj.none = norm C b ↔ b = .none := by
  cases b <;> simp [norm]

theorem normAttrs_eq (C : CaseOps) : ∀ (cs : List Cmp) (as bs : List Obj), (∀ x ∈ as, NormAt C x) →
    goodAttrs C cs as = true → normAttrs C cs as = normAttrs C cs bs → eqAttrs C cs as bs = true
  | [], [], [], _, _, _ => by simp [eqAttrs]
  | [], [], _ :: _, _, _, h => by simp [normAttrs] at h
  | [], _ :: _, _, _, g, _ => by simp [goodAttrs] at g
  | _ :: _, [], _, _, g, _ => by simp [goodAttrs] at g
  | c :: cs, a :: as, [], _, _, h => by cases c <;> simp [normAttrs] at h
  | c :: cs, a :: as, b :: bs, ih, g, h => by
    have ih' := normAttrs_eq C cs as bs (fun z hz => ih z (by simp [hz]))
    rw [eqAttrs_cons, Bool.and_eq_true]
    cases c <;> simp only [goodAttrs, Bool.and_eq_true] at g <;>
      simp only [normAttrs, List.cons.injEq] at h <;> refine ⟨?_, ih' g.2 h.2⟩
    · -- name slot: `a` is None or a string
      have h1 := h.1
      cases a with
      | none =>
        simp only [norm] at h1
        cases b with
        | atom y => cases y <;> simp [norm] at h1
        | none => simp [cmp1, eqName]
        | _ => simp [norm] at h1
      | atom x =>
        cases x <;> simp [isName] at g
        cases b with
        | atom y =>
          cases y <;> simp [norm, normAtom] at h1
          simp [cmp1, eqName, h1]
        | _ => simp [norm] at h1
      | _ => simp [isName] at g
    · exact ih a (by simp) g.1 b h.1
    · exact ih a (by simp) g.1 b h.1
    · rfl

theorem eqObj_of_norm' (C : CaseOps) : ∀ a, NormAt C a := by
  apply Obj.ind'
  · intro _ y h; cases y <;> simp [norm] at h; simp [eqObj]
  · intro a g y h
    cases y <;> simp [norm] at h
    simp only [good, bne_iff_ne, ne_eq] at g
    simp only [eqObj]
    exact (eqAtom_iff_norm a _ g).mpr h
  · intro id xs ih g y h
    cases y <;> simp only [norm] at h <;> try (simp at h)
    simp only [good] at g
    try simp only [Obj.list.injEq, true_and] at h
    simp only [eqObj]
    exact normList_eq C xs _ ih g h
  · intro id es ih g y h
    cases y <;> simp only [norm] at h <;> try (simp at h)
    rename_i id' fs
    try simp only [Obj.dict.injEq, true_and] at h
    obtain ⟨hne, ge⟩ := (good_dict C id es).mp g
    have hkeys := normEntries_keys C es fs h
    have hnf : (keysOf C fs).Nodup := hkeys ▸ hne
    have hlen : es.length = fs.length := by
      have := congrArg List.length h
      simpa [normEntries_length] using this
    simp only [eqObj, Bool.and_eq_true, beq_iff_eq]
    refine ⟨?_, hlen⟩
    rw [eqEntries_iff]
    intro e he
    obtain ⟨f, hf, hk, hn⟩ := normEntries_partner C es fs h e he
    exact ⟨f.2, lookup_of_mem C fs hnf f.1 f.2 hf e.1 hk, ih e he (ge e he) f.2 hn⟩
  · intro id k as ih g y h
    cases y <;> simp only [norm] at h <;> try (simp at h)
    rename_i id' k' bs
    try simp only [Obj.node.injEq, true_and] at h
    obtain ⟨rfl, h⟩ := h
    simp only [good] at g
    simp only [eqObj, Bool.and_eq_true, beq_self_eq_true, true_and]
    exact normAttrs_eq C (eqSpec k) as bs ih g h

/-! ### order of dict items -/

theorem eqDict_perm (C : CaseOps) (i j : Nat) (es fs : List (Key × Obj)) (g : good C (.dict i es) = true)
    (hp : es.Perm fs) : eqObj C (.dict i es) (.dict j fs) = true := by
  obtain ⟨hne, ge⟩ := (good_dict C i es).mp g
  have hnf : (keysOf C fs).Nodup := (hp.map _).nodup_iff.mp hne
  simp only [eqObj, Bool.and_eq_true, beq_iff_eq]
  refine ⟨?_, hp.length_eq⟩
  rw [eqEntries_iff]
  intro e he
  exact ⟨e.2, lookup_of_mem C fs hnf e.1 e.2 (hp.mem_iff.mp he) e.1 rfl, eqObj_refl C e.2 (ge e he)⟩

end Proofs.Eq
