/-
C01 — SPECIFICATION layer of the object-level round trip (no proofs of the property here):

  * `Spec`       abstract predicates the statement is relative to (what `CIMDateTime(str)` accepts, which
                 embedded objects the XML parser re-reads faithfully)
  * `CodecOk`    hypotheses about the third-party conversions (Python float formatting/parsing,
                 CIMDateTime, expat on embedded-object text) — a hypothesis record, never an axiom
  * `Sendable…`  which objects the theorem speaks about; every clause carries its justification
  * `wdQualDecl`, `wdObj`  "with defaults" for the two kinds Model/CimDefaults.lean leaves out
  * `embDepth`   embedded-object nesting depth
  * `toyCodec`   a concrete instance showing `CodecOk` is satisfiable

Proofs: Proofs/Lemmas/CimXml1.lean … CimXml21.lean (13–14: the decoder is blind to text chunking, imported by 6; 15: the wire delivers normTree; 16–18: CleanObj → WfTree ∧ SoftStable of the encoder output; 19–21: error side — only documented exception classes, invalid TYPE rejected); property theorems: Proofs/Props/C01.lean.
-/
import Pywbem.Model.CimDefaults

set_option linter.unusedVariables false

namespace Proofs.CimXml
open Pywbem.Model Pywbem.Model.XmlText Pywbem.Proto

/-! ### abstract predicates and codec hypotheses -/

/-- predicates the statement is relative to (parameters, like the codec itself) -/
structure Spec where
  /-- strings `CIMDateTime(s)` accepts and prints back unchanged (the canonical 25-character forms) -/
  validDt : Str → Prop
  /-- embedded instances whose `tocimxml().toxml()` text the XML parser re-reads as the same tree up to
      text chunking ("wire-stable": texts of XML characters without CR, attribute values without TAB/LF/CR) -/
  embInstOk : Inst → Prop
  /-- the same for embedded classes -/
  embClsOk : Cls → Prop

/-! ### the tree as the SAX handler delivers it -/

/-- pending character data becomes one text child, none if empty (CIMContentHandler.characters never
    creates an empty node and appends to a preceding text node) -/
def flushT (p : Str) (r : List Xml) : List Xml := if p = [] then r else .text p :: r

mutual
/-- a tree up to text chunking: in every child list adjacent text children are merged and empty ones
    dropped.  `<VALUE></VALUE>` arrives without a text child; the decoder (which reads text through
    `pcdata`, the join of all text children) cannot tell the difference — Proofs/Lemmas/CimXml13.lean. -/
def normTree : Xml → Xml
  | .text s => .text s
  | .elem n as ks => .elem n as (normKids [] ks)
def normKids (p : Str) : List Xml → List Xml
  | [] => flushT p []
  | .text s :: ks => normKids (p ++ s) ks
  | .elem n as kk :: ks => flushT p (normTree (.elem n as kk) :: normKids [] ks)
end

/-- hypotheses about the third-party conversions -/
structure CodecOk (C : DecCodec) (S : Spec) : Prop where
  /-- DSP0201 real text (`format(x,'.11G'/'.17G')` after pywbem's fix-up) is never an integer or hex
      literal and `float()` accepts it -/
  real_parses : ∀ w b, cimxmlHex (strip (C.fmtReal w b)) = none ∧ pyInt (strip (C.fmtReal w b)) = none ∧
                        (C.parseFloat (strip (C.fmtReal w b))).isSome = true
  /-- the same for `str(float)` (keybindings) -/
  key_parses : ∀ b, cimxmlHex (strip (C.strFloat b)) = none ∧ pyInt (strip (C.strFloat b)) = none ∧
                     (C.parseFloat (strip (C.strFloat b))).isSome = true
  /-- formatting the re-read double gives the same text (second trip byte-identical) -/
  real_idem : ∀ w b, C.fmtReal w (C.reparse w b) = C.fmtReal w b
  /-- the same for `str(float)` -/
  key_idem : ∀ b, C.strFloat (C.reparseKey b) = C.strFloat b
  /-- `CIMDateTime(s)` of a canonical datetime string is that string -/
  dt_ok : ∀ s, S.validDt s → C.parseDt s = some s
  /-- XmlSyntax hypothesis of DESIGN.md §7, for the text of embedded objects: expat re-reads what
      minidom printed as the same element tree up to text chunking (`normTree`: an empty string value
      `<VALUE></VALUE>` comes back without a text child).  Discharged for the concrete parser
      `XmlParse.par` in Proofs/Props/C01.lean (`C01_par_fields_discharged`). -/
  par_inst : ∀ i, S.embInstOk i → ∃ t', C.par (Xml.ser (encInstElem C.toCodec i)) = some t' ∧
    normTree t' = normTree (encInstElem C.toCodec i)
  par_cls : ∀ c, S.embClsOk c → ∃ t', C.par (Xml.ser (encCls C.toCodec c)) = some t' ∧
    normTree t' = normTree (encCls C.toCodec c)

/-! ### names -/

def Key.name : Key → Option Str | .mk n _ => n
def Key.val : Key → Atom | .mk _ v => v

/-- child names pairwise distinct ignoring ASCII case -/
def NoDupNames (l : List Str) : Prop := (l.map lowerAscii).Nodup

def NoDupKeyNames (l : List Key) : Prop := (l.map (fun k => (Key.name k).map lowerAscii)).Nodup

/-! ### which atoms a CIM type name admits -/

/-- the CIM type name under which an atom travels (`none`: untyped Python number, reference, NULL,
    embedded object) -/
def typeName : Atom → Option Str
  | .str _ => some "string".toList
  | .char16 _ => some "char16".toList
  | .bool _ => some "boolean".toList
  | .int t _ => some t.name
  | .real w _ => some (if w then "real64".toList else "real32".toList)
  | .dt _ => some "datetime".toList
  | _ => none

/-- a non-NULL scalar the element types VALUE / KEYVALUE can carry, with the checks its kind needs:
    * char16: exactly one character of the Basic Multilingual Plane  (`unpack_char16` rejects others)
    * int: within the range of its CIM type                          (`CIMInt.__new__` range check)
    * datetime: a string CIMDateTime accepts                         (`unpack_datetime`)
    * str / bool / real: no condition -/
def AtomOk (S : Spec) : Atom → Prop
  | .str _ => True
  | .char16 s => ∃ c : Char, s = [c] ∧ c.toNat ≤ 0xFFFF
  | .bool _ => True
  | .int t v => t.lo ≤ v ∧ v ≤ t.hi
  | .real _ _ => True
  | .dt s => S.validDt s
  | _ => False

/-- typed plain atom: the declared type is the type of the value kind -/
def PlainAtom (S : Spec) (ty : Str) (a : Atom) : Prop := typeName a = some ty ∧ AtomOk S a

/-- value of a QUALIFIER / QUALIFIER.DECLARATION / non-embedded PROPERTY: NULL, a typed scalar, or an
    array whose entries are NULL or typed scalars (`ty` consistent with the value kind, because TYPE is
    what the receiver uses to convert the text) -/
def PlainVal (S : Spec) (ty : Str) : Val → Prop
  | .null => True
  | .scalar a => PlainAtom S ty a
  | .array l => ∀ a ∈ l, a = Atom.null ∨ PlainAtom S ty a

/-! ### Sendable: paths -/

/-- the namespace of a path has no leading or trailing `/`: the namespace setters of CIMInstanceName /
    CIMClassName strip them (`namespace.strip('/')`), so no pywbem path object has one -/
def NsOk (ns : Option Str) : Prop := ∀ n, ns = some n → nsStrip n = n

mutual
/-- keybinding: has a name (an unnamed key is written NAME="" and reads back as ''), value is a typed
    scalar, an untyped Python number, or a reference to a sendable INSTANCE path (any nesting depth;
    `_cim_keybinding` rejects a CIMClassName as keybinding value, so no pywbem path holds one) -/
def SendableKey (S : Spec) : Key → Prop
  | .mk n (.ref p) => n.isSome = true ∧ SendablePath S p ∧ keyValueOk (.ref p) = true
  | .mk n (.pyint _) => n.isSome = true
  | .mk n (.pyfloat _) => n.isSome = true
  | .mk n a => n.isSome = true ∧ AtomOk S a
def SendableKeys (S : Spec) : List Key → Prop
  | [] => True
  | k :: ks => SendableKey S k ∧ SendableKeys S ks
/-- path: key names pairwise distinct ignoring case (keybindings is a NocaseDict) -/
def SendablePath (S : Spec) : Path → Prop
  | .inst _ _ ns keys => SendableKeys S keys ∧ NoDupKeyNames keys ∧ NsOk ns
  | .cls _ _ ns => NsOk ns
end

/-! ### Sendable: qualifiers, parameters, methods (no nested objects) -/

/-- qualifier: value typed by TYPE, never a reference or embedded object; TYPE is one of QUALIFIER_CIMTYPES
    (the type setter of CIMQualifier accepts nothing else — matters when the value is NULL) -/
def SendableQual (S : Spec) : Qual → Prop
  | .mk _ ty v _ _ _ _ _ => PlainVal S ty v ∧ qualTypeOk ty = true

def SendableQuals (S : Spec) (l : List Qual) : Prop :=
  (∀ q ∈ l, SendableQual S q) ∧ NoDupNames (l.map Qual.name)

/-- parameter declaration: REFERENCECLASS exists only on the reference forms, ARRAYSIZE only on the
    array forms (the other forms have no such attribute); TYPE is one of ALL_CIMTYPES (type setter of
    CIMParameter) -/
def SendableParam (S : Spec) : Param → Prop
  | .mk _ ty refCls isArray asz quals _ _ =>
    SendableQuals S quals ∧ (ty ≠ "reference".toList → refCls = none) ∧ (isArray = false → asz = none) ∧
    cimTypeOk ty = true

def SendableParams (S : Spec) (l : List Param) : Prop :=
  (∀ p ∈ l, SendableParam S p) ∧ NoDupNames (l.map Param.name)

/-- method: has a return type (`parse_method` requires TYPE) that is one of ALL_CIMTYPES and not
    'reference' (return_type setter of CIMMethod) -/
def SendableMeth (S : Spec) : Meth → Prop
  | .mk _ retTy params _ _ quals =>
    (∃ rt, retTy = some rt ∧ cimTypeOk rt = true ∧ rt ≠ "reference".toList) ∧ SendableParams S params ∧
    SendableQuals S quals

def SendableMeths (S : Spec) (l : List Meth) : Prop :=
  (∀ m ∈ l, SendableMeth S m) ∧ NoDupNames (l.map Meth.name)

/-- a reference value: a sendable path -/
def RefAtom (S : Spec) : Atom → Prop
  | .ref p => SendablePath S p
  | _ => False

/-! ### Sendable: properties, instances, classes (embedded objects nest) -/

mutual
/-- an embedded object: sendable itself and re-read faithfully by the XML parser -/
def SendableEmbAtom (S : Spec) : Atom → Prop
  | .einst i => SendableInstBody S i ∧ S.embInstOk i
  | .ecls c => SendableCls S c ∧ S.embClsOk c
  | _ => False
/-- entries of an embedded-object array: NULL or embedded object -/
def SendableEmbAtoms (S : Spec) : List Atom → Prop
  | [] => True
  | a :: as => (a = Atom.null ∨ SendableEmbAtom S a) ∧ SendableEmbAtoms S as
/-- value of a property, given its TYPE, array-ness and whether EmbeddedObject is set:
    * scalar only in non-array, array only in array properties (the element forms differ)
    * EmbeddedObject set: TYPE is string and every value is an embedded object
      (`parse_embeddedObject` is applied to every string of the value)
    * TYPE reference (scalar): a reference
    * otherwise a plain typed value -/
def SendablePropVal (S : Spec) (ty : Str) (isArray emb : Bool) : Val → Prop
  | .null => True
  | .scalar a => isArray = false ∧
      (if emb = true then ty = "string".toList ∧ SendableEmbAtom S a
       else if ty = "reference".toList then RefAtom S a else PlainAtom S ty a)
  | .array l => isArray = true ∧
      (if emb = true then ty = "string".toList ∧ SendableEmbAtoms S l
       else ∀ a ∈ l, a = Atom.null ∨ PlainAtom S ty a)
/-- property:
    * EmbeddedObject, when set, is 'instance' or 'object' and the type is 'string'
      (`_check_embedded_object` of the CIMProperty constructor)
    * ARRAYSIZE only on PROPERTY.ARRAY; REFERENCECLASS only on PROPERTY.REFERENCE;
      PROPERTY.REFERENCE has no EmbeddedObject attribute
    * TYPE is one of ALL_CIMTYPES (type setter of CIMProperty — matters when the value is NULL) -/
def SendableProp (S : Spec) : Prop_ → Prop
  | .mk _ ty val isArray asz refCls _ _ emb quals =>
    SendableQuals S quals ∧
    (∀ e, emb = some e → (e = "instance".toList ∨ e = "object".toList) ∧ ty = "string".toList) ∧
    (isArray = false → asz = none) ∧
    (¬ (isArray = false ∧ ty = "reference".toList) → refCls = none) ∧
    ((isArray = false ∧ ty = "reference".toList) → emb = none) ∧
    SendablePropVal S ty isArray emb.isSome val ∧
    cimTypeOk ty = true
def SendablePropList (S : Spec) : List Prop_ → Prop
  | [] => True
  | p :: ps => SendableProp S p ∧ SendablePropList S ps
/-- the INSTANCE element of an instance (its path is judged separately) -/
def SendableInstBody (S : Spec) : Inst → Prop
  | .mk _ _ props quals =>
    SendablePropList S props ∧ NoDupNames (props.map Prop_.name) ∧ SendableQuals S quals
def SendableCls (S : Spec) : Cls → Prop
  | .mk _ _ _ props meths quals =>
    SendablePropList S props ∧ NoDupNames (props.map Prop_.name) ∧ SendableMeths S meths ∧
    SendableQuals S quals
end

/-- instance: its path, when present, is an instance path (CIMInstance.path is a CIMInstanceName) -/
def SendableInst (S : Spec) : Inst → Prop
  | .mk c path props quals =>
    SendableInstBody S (.mk c path props quals) ∧
    (match path with
     | none => True
     | some (.inst c' h n ks) => SendablePath S (.inst c' h n ks)
     | some (.cls ..) => False)

/-! ### qualifier declarations -/

/-- the attribute list of the SCOPE element (`encScope` with its `let`s named) -/
def scopeAttrList (scopes : List (Str × Bool)) : List (Str × Str) :=
  if scopes.any (fun p => p.1.map Char.toLower == "any".toList && p.2) then
    scopeNames.map (fun n => (n.toList, "true".toList))
  else (scopes.map (fun p => (upperAscii p.1, boolAttr p.2))).foldr insertSorted []

/-- scopes after one trip: upper-cased, sorted, `any: True` expanded to the seven scopes -/
def wdScopes (scopes : List (Str × Bool)) : List (Str × Bool) :=
  if scopes.isEmpty then [] else (scopeAttrList scopes).map (fun p => (p.1, p.2 == "true".toList))

def wdQualDecl (C : Codec) (q : QualDecl) : QualDecl :=
  { q with val := wdVal C q.val, scopes := wdScopes q.scopes,
           overridable := dBool true q.overridable, tosubclass := dBool true q.tosubclass,
           toinstance := dBool false q.toinstance, translatable := dBool false q.translatable }

/-- qualifier declaration: plain typed value; scope names are among the seven DSP0201 scopes unless
    `any: True` is present (SCOPE has no other attributes; `any: False` is known finding C01-KF2);
    TYPE is one of QUALIFIER_CIMTYPES (type setter); a scalar value goes with is_array False, an array value
    with is_array True (`_check_array_parms` of the CIMQualifierDeclaration constructor) -/
def SendableQualDecl (S : Spec) (q : QualDecl) : Prop :=
  PlainVal S q.ty q.val ∧
  (q.scopes.any (fun p => p.1.map Char.toLower == "any".toList && p.2) = true ∨
   ∀ p ∈ q.scopes, upperAscii p.1 ∈ scopeNames.map String.toList) ∧
  qualTypeOk q.ty = true ∧ qdArrayOk (some q.isArray) q.val = true

/-! ### top level -/

def wdObj (C : Codec) : Obj → Obj
  | .path p => .path (wdPath C p)
  | .inst i => .inst (wdInst C i)
  | .cls c => .cls (wdCls C c)
  | .prop p => .prop (wdProp C p)
  | .meth m => .meth (wdMeth C m)
  | .param p => .param (wdParam C p)
  | .qual q => .qual (wdQual C q)
  | .qdecl q => .qdecl (wdQualDecl C q)

/-- **Sendable**: the objects the round-trip theorem speaks about -/
def Sendable (S : Spec) : Obj → Prop
  | .path p => SendablePath S p
  | .inst i => SendableInst S i
  | .cls c => SendableCls S c
  | .prop p => SendableProp S p
  | .meth m => SendableMeth S m
  | .param p => SendableParam S p
  | .qual q => SendableQual S q
  | .qdecl q => SendableQualDecl S q

/-! ### embedded nesting depth -/

mutual
def depthAtom : Atom → Nat
  | .einst i => depthInst i + 1
  | .ecls c => depthCls c + 1
  | _ => 0
def depthAtoms : List Atom → Nat
  | [] => 0
  | a :: as => max (depthAtom a) (depthAtoms as)
def depthVal : Val → Nat
  | .null => 0
  | .scalar a => depthAtom a
  | .array l => depthAtoms l
def depthProp : Prop_ → Nat
  | .mk _ _ val _ _ _ _ _ _ _ => depthVal val
def depthProps : List Prop_ → Nat
  | [] => 0
  | p :: ps => max (depthProp p) (depthProps ps)
def depthInst : Inst → Nat
  | .mk _ _ props _ => depthProps props
def depthCls : Cls → Nat
  | .mk _ _ _ props _ _ => depthProps props
end

/-- how many levels of embedded objects an object holds (0 = none) -/
def embDepth : Obj → Nat
  | .inst i => depthInst i
  | .cls c => depthCls c
  | .prop p => depthProp p
  | _ => 0

/-! ### the record is satisfiable -/

/-- the one embedded instance the toy parser knows -/
def toyInst : Inst :=
  .mk "C".toList none [.mk "p".toList "string".toList (.scalar (.str "x".toList)) false none none none (some false) none []] []

def toyCodecBase : Codec :=
  { fmtReal := fun _ _ => "0.5".toList, strFloat := fun _ => "0.5".toList, parseFloat := fun _ => some 0,
    parseDt := fun s => some s, par := fun _ => none }

def toyCodec : DecCodec :=
  { fmtReal := fun _ _ => "0.5".toList, strFloat := fun _ => "0.5".toList, parseFloat := fun _ => some 0,
    parseDt := fun s => some s,
    par := fun s => if s = Xml.ser (encInstElem toyCodecBase toyInst) then some (encInstElem toyCodecBase toyInst) else none,
    truncFloat := fun _ => .ok 0, floatOfInt := fun _ => some 0 }

def toySpec : Spec :=
  { validDt := fun _ => True, embInstOk := fun i => i = toyInst, embClsOk := fun _ => False }

end Proofs.CimXml
