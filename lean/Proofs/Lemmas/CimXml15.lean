/-
C01 — the wire at element level in terms of `normTree`: for a well-formed tree whose texts hold no CR and
whose attribute values hold no TAB / LF / CR (`SoftStable`; EMPTY and ADJACENT texts are allowed, unlike
`XmlParse.StableTree`), what the receiver sees is exactly `normTree t`.  With `decodeTop_norm`
(CimXml14) the decoder result is that of the tree the sender built.
-/
import Proofs.Lemmas.CimXml12
import Proofs.Lemmas.XmlParse

set_option linter.unusedSimpArgs false
set_option linter.unusedVariables false
set_option linter.unusedSectionVars false

namespace Proofs.CimXml
open Pywbem.Model Pywbem.Model.XmlText Pywbem.Proto Pywbem.Model.XmlParse Proofs.XmlText Proofs.XmlParse

mutual
/-- texts without CR (they may be empty), attribute values without TAB / LF / CR -/
def softTree : Xml → Bool
  | .text s => !s.contains '\r'
  | .elem _ as ks => stableAttrs as && softKids ks
def softKids : List Xml → Bool
  | [] => true
  | k :: ks => softTree k && softKids ks
end

/-- what the wire leaves alone up to text chunking: no CR in character data (finding C01-KF1), no
    TAB / LF / CR in attribute values (attribute-value normalisation turns them into blanks) -/
def SoftStable (t : Xml) : Prop := softTree t = true
instance (t : Xml) : Decidable (SoftStable t) := inferInstanceAs (Decidable (softTree t = true))

mutual
theorem soft_of_stable : (t : Xml) → stableTree t = true → softTree t = true
  | .text s, h => by simpa only [stableTree, softTree] using h
  | .elem n as ks, h => by
    simp only [stableTree, Bool.and_eq_true] at h
    simp only [softTree, Bool.and_eq_true]
    exact ⟨h.1, softKids_of_stable ks h.2⟩
theorem softKids_of_stable : (ks : List Xml) → stableKids ks = true → softKids ks = true
  | [], _ => by simp only [softKids]
  | .text s :: ks, h => by
    simp only [stableKids, Bool.and_eq_true] at h
    simp only [softKids, softTree, Bool.and_eq_true]
    exact ⟨h.1.1.2, softKids_of_stable ks h.2⟩
  | .elem n as kk :: ks, h => by
    simp only [stableKids, Bool.and_eq_true] at h
    simp only [softKids, Bool.and_eq_true]
    exact ⟨soft_of_stable (.elem n as kk) h.1, softKids_of_stable ks h.2⟩
end

/-! ### the wire delivers `normTree` -/

theorem flushText_flushT (p : Str) (r : List Xml) (hp : ∀ c ∈ p, isXmlChar c = true) (hc : '\r' ∉ p) :
    flushText p r = some (flushT p r) := by
  unfold flushText flushT
  by_cases h : p = []
  · simp only [h, if_true]
  · simp only [h, if_false, wireText_id p hp hc]

mutual
theorem wireTree_norm : (t : Xml) → wfTree t = true → softTree t = true → wireTree t = some (normTree t)
  | .text s, hw, hs => by
    simp only [wfTree, List.all_eq_true] at hw
    simp only [softTree, Bool.not_eq_true', List.contains_eq_mem, decide_eq_false_iff_not] at hs
    simp only [wireTree, wireText_id s hw hs, Option.map_some, normTree]
  | .elem n as ks, hw, hs => by
    simp only [wfTree, Bool.and_eq_true] at hw
    simp only [softTree, Bool.and_eq_true] at hs
    simp only [wireTree, wireAttrs_stable as hw.1.1.2 hs.1,
      wireKids_norm ks [] (by intro c hc; simp at hc) (by simp) hw.2 hs.2, normTree]
theorem wireKids_norm : (ks : List Xml) → (p : Str) → (∀ c ∈ p, isXmlChar c = true) → '\r' ∉ p →
    wfKids ks = true → softKids ks = true → wireKids p ks = some (normKids p ks)
  | [], p, hp, hc, _, _ => by
    simp only [wireKids, normKids]; exact flushText_flushT p [] hp hc
  | .text s :: ks, p, hp, hc, hw, hs => by
    simp only [wfKids, wfTree, Bool.and_eq_true, List.all_eq_true] at hw
    simp only [softKids, softTree, Bool.and_eq_true, Bool.not_eq_true', List.contains_eq_mem,
      decide_eq_false_iff_not] at hs
    simp only [wireKids, normKids]
    exact wireKids_norm ks (p ++ s)
      (fun c hc' => by
        rcases List.mem_append.mp hc' with h | h
        · exact hp c h
        · exact hw.1 c h)
      (fun hc' => by
        rcases List.mem_append.mp hc' with h | h
        · exact hc h
        · exact hs.1 h)
      hw.2 hs.2
  | .elem n as kk :: ks, p, hp, hc, hw, hs => by
    simp only [wfKids, Bool.and_eq_true] at hw
    simp only [softKids, Bool.and_eq_true] at hs
    simp only [wireKids, normKids, wireTree_norm (.elem n as kk) hw.1 hs.1,
      wireKids_norm ks [] (by intro c hc; simp at hc) (by simp) hw.2 hs.2]
    exact flushText_flushT p _ hp hc
end

/-! ### `normTree` is idempotent -/

theorem normKids_flushT (p q : Str) (r : List Xml) :
    normKids p (flushT q r) = if q = [] then normKids p r else normKids (p ++ q) r := by
  unfold flushT
  by_cases h : q = []
  · simp only [h, if_true]
  · simp only [h, if_false, normKids]

theorem flushT_nil (r : List Xml) : flushT [] r = r := by simp [flushT]

mutual
theorem normTree_idem : (t : Xml) → normTree (normTree t) = normTree t
  | .text s => by simp only [normTree]
  | .elem n as ks => by
    have := normKids_idem ks [] []
    simp only [normTree, this, List.append_nil]
theorem normKids_idem : (ks : List Xml) → (p q : Str) → normKids p (normKids q ks) = normKids (p ++ q) ks
  | [], p, q => by
    simp only [normKids, normKids_flushT]
    by_cases h : q = []
    · simp only [h, if_true, normKids, List.append_nil]
    · simp only [h, if_false, normKids]
  | .text s :: ks, p, q => by
    simp only [normKids]
    rw [normKids_idem ks p (q ++ s), List.append_assoc]
  | .elem n as kk :: ks, p, q => by
    have h1 := normTree_idem (.elem n as kk)
    have h2 := normKids_idem ks [] []
    simp only [List.append_nil] at h2
    simp only [normKids, normKids_flushT]
    by_cases h : q = []
    · subst h
      have e : normTree (.elem n as kk) = .elem n as (normKids [] kk) := by simp only [normTree]
      rw [e] at h1 ⊢
      simp only [if_true, normKids, List.append_nil]
      rw [h1, h2]
    · have e : normTree (.elem n as kk) = .elem n as (normKids [] kk) := by simp only [normTree]
      rw [e] at h1 ⊢
      simp only [h, if_false, normKids]
      rw [h1, h2]
end

end Proofs.CimXml
