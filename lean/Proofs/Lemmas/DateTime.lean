/-
Helper lemmas for the CIMDateTime part of C06 (Model/DateTime.lean).
-/
import Pywbem.Model.DateTime

namespace Proofs.DateTime
open Pywbem.Proto Pywbem.Model.DateTime

instance {ε α} [DecidableEq ε] [DecidableEq α] : DecidableEq (Except ε α) := fun a b =>
  match a, b with
  | .ok x, .ok y => if h : x = y then isTrue (by rw [h]) else isFalse (by intro h'; cases h'; exact h rfl)
  | .error x, .error y => if h : x = y then isTrue (by rw [h]) else isFalse (by intro h'; cases h'; exact h rfl)
  | .ok _, .error _ => isFalse (by intro h; cases h)
  | .error _, .ok _ => isFalse (by intro h; cases h)

/-! ### digit characters -/

theorem digitChar_cases (k : Nat) :
    digitChar k = '0' ∨ digitChar k = '1' ∨ digitChar k = '2' ∨ digitChar k = '3' ∨ digitChar k = '4' ∨
    digitChar k = '5' ∨ digitChar k = '6' ∨ digitChar k = '7' ∨ digitChar k = '8' ∨ digitChar k = '9' := by
  unfold digitChar
  split <;> simp

@[simp] theorem isDigit_digitChar (k : Nat) : isDigit (digitChar k) = true := by
  rcases digitChar_cases k with h | h | h | h | h | h | h | h | h | h <;> rw [h] <;> decide

@[simp] theorem isDS_digitChar (k : Nat) : isDS (digitChar k) = true := by
  simp [isDS]

@[simp] theorem digitChar_ne_star (k : Nat) : (digitChar k == '*') = false := by
  rcases digitChar_cases k with h | h | h | h | h | h | h | h | h | h <;> rw [h] <;> decide

@[simp] theorem star_ne_digitChar (k : Nat) : ('*' == digitChar k) = false := by
  rcases digitChar_cases k with h | h | h | h | h | h | h | h | h | h <;> rw [h] <;> decide

@[simp] theorem digitChar_ne_star' (k : Nat) : digitChar k ≠ '*' := by
  rcases digitChar_cases k with h | h | h | h | h | h | h | h | h | h <;> rw [h] <;> decide

@[simp] theorem digitVal_digitChar (k : Nat) : digitVal (digitChar k) = k % 10 := by
  have hk : k % 10 < 10 := Nat.mod_lt _ (by decide)
  unfold digitChar
  generalize k % 10 = m at hk
  revert m
  decide

@[simp] theorem star_eq_digitChar (k : Nat) : ('*' = digitChar k) = False := by
  have := digitChar_ne_star' k
  simp only [eq_iff_iff, iff_false]
  exact fun h => this h.symm

@[simp] theorem digitChar_eq_star (k : Nat) : (digitChar k = '*') = False := by
  simp

/-! ### formatting -/

theorem fmtD_nat (w n : Nat) (h : n < 10 ^ w) : fmtD w (n : Int) = fixedDigits w n := by
  simp [fmtD, fmtNat, h]
  omega

theorem fixedDigits_length (w n : Nat) : (fixedDigits w n).length = w := by
  induction w generalizing n with
  | zero => simp [fixedDigits]
  | succ w ih => simp [fixedDigits, ih]

theorem fixed2 (n : Nat) : fixedDigits 2 n = [digitChar (n / 10), digitChar n] := by
  simp [fixedDigits]

theorem fixed3 (n : Nat) : fixedDigits 3 n = [digitChar (n / 100), digitChar (n / 10), digitChar n] := by
  simp [fixedDigits, Nat.div_div_eq_div_mul]

theorem fixed4 (n : Nat) :
    fixedDigits 4 n = [digitChar (n / 1000), digitChar (n / 100), digitChar (n / 10), digitChar n] := by
  simp [fixedDigits, Nat.div_div_eq_div_mul]

theorem fixed6 (n : Nat) :
    fixedDigits 6 n = [digitChar (n / 100000), digitChar (n / 10000), digitChar (n / 1000), digitChar (n / 100),
      digitChar (n / 10), digitChar n] := by
  simp [fixedDigits, Nat.div_div_eq_div_mul]

theorem fixed8 (n : Nat) :
    fixedDigits 8 n = [digitChar (n / 10000000), digitChar (n / 1000000), digitChar (n / 100000), digitChar (n / 10000),
      digitChar (n / 1000), digitChar (n / 100), digitChar (n / 10), digitChar n] := by
  simp [fixedDigits, Nat.div_div_eq_div_mul]

/-! ### the UTC offset arithmetic -/

theorem minutesFromUtc_ts (y mo d h mi s us : Nat) (off : Int) (p : Option Nat)
    (ho : -1440 < off ∧ off < 1440) : minutesFromUtc (.ts y mo d h mi s us off p) = .ok off := by
  have h1 : utcoffsetOk off = true := by simp [utcoffsetOk, ho.1, ho.2]
  simp only [minutesFromUtc, h1]
  by_cases hn : off < 0
  · have : (off * 60) / 86400 = -1 := by omega
    simp [this]; omega
  · have : (off * 60) / 86400 = 0 := by omega
    simp [this]; omega

/-! ### evaluation lemmas for explicit strings -/

@[simp] theorem isDS_star : isDS '*' = true := by decide
@[simp] theorem isStarOrDot_star : isStarOrDot '*' = true := by decide
@[simp] theorem isStarOrDot_dot : isStarOrDot '.' = true := by decide
@[simp] theorem isDigit_zero : isDigit '0' = true := by decide
@[simp] theorem digitVal_zero : digitVal '0' = 0 := by decide
@[simp] theorem isStarOrDot_digit (k : Nat) : isStarOrDot (digitChar k) = false := by
  rcases digitChar_cases k with h | h | h | h | h | h | h | h | h | h <;> rw [h] <;> decide

theorem dig2 (n : Nat) (h : n < 100) : n / 10 % 10 * 10 + n % 10 = n := by omega
theorem dig3 (n : Nat) (h : n < 1000) : (n / 100 % 10 * 10 + n / 10 % 10) * 10 + n % 10 = n := by omega
theorem dig4 (n : Nat) (h : n < 10000) :
    ((n / 1000 % 10 * 10 + n / 100 % 10) * 10 + n / 10 % 10) * 10 + n % 10 = n := by omega
theorem dig6 (n : Nat) (h : n < 1000000) :
    ((((n / 100000 % 10 * 10 + n / 10000 % 10) * 10 + n / 1000 % 10) * 10 + n / 100 % 10) * 10 + n / 10 % 10) * 10 +
      n % 10 = n := by omega

theorem daysInMonth_le (y m : Nat) : daysInMonth y m ≤ 31 := by
  unfold daysInMonth; split <;> (try split) <;> omega

/-! ### print → parse round trip, timestamps -/

set_option maxRecDepth 20000

/-- one (precision, sign) case of the timestamp round trip: evaluate `toStr` to an explicit 25-character list,
    evaluate `parse` on it, compare -/
macro "ts_case" hmfu:ident hn:ident hy:ident hmo:ident hd:ident hh:ident hmi:ident hs:ident hus:ident ho:ident : tactic =>
  `(tactic| (
      simp only [toStr, $hmfu:ident, toStrField, $hn:ident, if_true, if_false, bind, Except.bind, Int.neg_neg]
      simp only [fmtD_nat, Nat.reducePow, $hy:ident, $hmo:ident, $hd:ident, $hh:ident, $hmi:ident, $hs:ident,
        $hus:ident, $ho:ident, fixed2, fixed3, fixed4, fixed6]
      refine ⟨_, rfl, by simp, ?_⟩
      simp [parse, matchTs, slice, parseTs, decNat, starCheck, toIntField, firstStar, afterStar,
        dig2, dig3, dig4, dig6, $hy:ident, $hmo:ident, $hd:ident, $hh:ident, $hmi:ident, $hs:ident, $hus:ident,
        $ho:ident, bind, Except.bind, List.idxOf_cons]
      first
        | assumption
        | (split
           · simp; omega
           · rename_i hneg; simp [validDateTime] at hneg; omega)))

theorem ts_bounds {y mo d h mi s us : Nat} (hv : validDateTime y mo d h mi s us = true) :
    y < 10000 ∧ mo < 100 ∧ d < 100 ∧ h < 100 ∧ mi < 100 ∧ s < 100 ∧ us < 1000000 := by
  simp [validDateTime] at hv
  have := daysInMonth_le y mo
  omega

theorem wf_ts_valid {y mo d h mi s us : Nat} {off : Int} {p : Option Nat}
    (hw : WF (.ts y mo d h mi s us off p) = true) : validDateTime y mo d h mi s us = true := by
  cases p <;> simp [WF] at hw <;> simp [hw]

theorem rt_ts_neg (y mo d h mi s us a : Nat) (p : Option Nat)
    (hw : WF (.ts y mo d h mi s us (-(a : Int)) p) = true) (hn : -(a : Int) < 0) (ho : a < 1000) :
    ∃ str, toStr (.ts y mo d h mi s us (-(a : Int)) p) = .ok str ∧ str.length = 25 ∧
      parse str = .ok (.ts y mo d h mi s us (-(a : Int)) p) := by
  have hmfu := minutesFromUtc_ts y mo d h mi s us (-(a : Int)) p (by omega)
  have hv := wf_ts_valid hw
  obtain ⟨hy, hmo, hd, hh, hmi, hs, hus⟩ := ts_bounds hv
  have hb := hv
  simp [validDateTime] at hb
  cases p with
  | none => ts_case hmfu hn hy hmo hd hh hmi hs hus ho
  | some p =>
    simp [WF, tsPrecs] at hw
    obtain ⟨⟨⟨⟨⟨⟨⟨-, hp⟩, h4⟩, h6⟩, h8⟩, h10⟩, h12⟩, hum⟩ := hw
    rcases hp with rfl | rfl | rfl | rfl | rfl | rfl | rfl | rfl | rfl | rfl | rfl <;>
      simp at h4 h6 h8 h10 h12 <;> simp [usMaskOk] at hum <;> subst_vars <;>
      ts_case hmfu hn hy hmo hd hh hmi hs hus ho

theorem rt_ts_pos (y mo d h mi s us a : Nat) (p : Option Nat)
    (hw : WF (.ts y mo d h mi s us (a : Int) p) = true) (ho : a < 1000) :
    ∃ str, toStr (.ts y mo d h mi s us (a : Int) p) = .ok str ∧ str.length = 25 ∧
      parse str = .ok (.ts y mo d h mi s us (a : Int) p) := by
  have hn : ¬ (a : Int) < 0 := by omega
  have hmfu := minutesFromUtc_ts y mo d h mi s us (a : Int) p (by omega)
  have hv := wf_ts_valid hw
  obtain ⟨hy, hmo, hd, hh, hmi, hs, hus⟩ := ts_bounds hv
  have hb := hv
  simp [validDateTime] at hb
  cases p with
  | none => ts_case hmfu hn hy hmo hd hh hmi hs hus ho
  | some p =>
    simp [WF, tsPrecs] at hw
    obtain ⟨⟨⟨⟨⟨⟨⟨-, hp⟩, h4⟩, h6⟩, h8⟩, h10⟩, h12⟩, hum⟩ := hw
    rcases hp with rfl | rfl | rfl | rfl | rfl | rfl | rfl | rfl | rfl | rfl | rfl <;>
      simp at h4 h6 h8 h10 h12 <;> simp [usMaskOk] at hum <;> subst_vars <;>
      ts_case hmfu hn hy hmo hd hh hmi hs hus ho

/-- **print → parse round trip for timestamps**, all field values, all 12 precisions, offsets −999…+999 -/
theorem rt_ts (y mo d h mi s us : Nat) (off : Int) (p : Option Nat)
    (hw : WF (.ts y mo d h mi s us off p) = true) (he : Expressible (.ts y mo d h mi s us off p) = true) :
    ∃ str, toStr (.ts y mo d h mi s us off p) = .ok str ∧ str.length = 25 ∧
      parse str = .ok (.ts y mo d h mi s us off p) := by
  simp [Expressible] at he
  by_cases hn : off < 0
  · obtain ⟨a, rfl⟩ : ∃ a : Nat, off = -(a : Int) := ⟨(-off).toNat, by omega⟩
    exact rt_ts_neg y mo d h mi s us a p hw hn (by omega)
  · obtain ⟨a, rfl⟩ : ∃ a : Nat, off = (a : Int) := ⟨off.toNat, by omega⟩
    exact rt_ts_pos y mo d h mi s us a p hw (by omega)

/-! ### print → parse round trip, intervals -/

theorem dig8 (n : Nat) (h : n < 100000000) :
    ((((((n / 10000000 % 10 * 10 + n / 1000000 % 10) * 10 + n / 100000 % 10) * 10 + n / 10000 % 10) * 10 +
      n / 1000 % 10) * 10 + n / 100 % 10) * 10 + n / 10 % 10) * 10 + n % 10 = n := by omega

macro "iv_case" hd:ident h1:ident h2:ident h3:ident hus:ident : tactic =>
  `(tactic| (
      simp only [toStr, toStrField]
      simp only [fmtD_nat, Nat.reducePow, $hd:ident, $h1:ident, $h2:ident, $h3:ident, $hus:ident, fixed2, fixed6, fixed8]
      refine ⟨_, rfl, by simp, ?_⟩
      simp [parse, matchTs, matchIv, slice, parseIv, decNat, starCheck, toIntField, firstStar, afterStar,
        dig2, dig6, dig8, $hd:ident, $h1:ident, $h2:ident, $h3:ident, $hus:ident, bind, Except.bind, List.idxOf_cons]
      try omega))

/-- **print → parse round trip for intervals**, all 0 ≤ days ≤ 99999999, all seconds / microseconds, all 11 precisions -/
theorem rt_iv (dd secs us : Nat) (p : Option Nat) (hw : WF (.iv dd secs us p) = true) (hd : dd < 100000000) :
    ∃ str, toStr (.iv dd secs us p) = .ok str ∧ str.length = 25 ∧ parse str = .ok (.iv dd secs us p) := by
  have hs : secs < 86400 := by cases p <;> simp [WF] at hw <;> omega
  have hus : us < 1000000 := by cases p <;> simp [WF] at hw <;> omega
  have h1 : secs / 3600 < 100 := by omega
  have h2 : (secs - secs / 3600 * 3600) / 60 < 100 := by omega
  have h3 : secs - secs / 3600 * 3600 - (secs - secs / 3600 * 3600) / 60 * 60 < 100 := by omega
  cases p with
  | none => iv_case hd h1 h2 h3 hus
  | some p =>
    simp [WF, ivPrecs] at hw
    obtain ⟨⟨⟨⟨⟨⟨⟨-, -⟩, hp⟩, h0⟩, h8⟩, h10⟩, h12⟩, hum⟩ := hw
    rcases hp with rfl | rfl | rfl | rfl | rfl | rfl | rfl | rfl | rfl | rfl <;>
      simp at h0 h8 h10 h12 <;> simp [usMaskOk] at hum <;>
      iv_case hd h1 h2 h3 hus

end Proofs.DateTime
