/-
C13: the Open… variants deliver the result of the traditional traversal (composition with C14's pull
model and its exactly-once invariant).
-/
import Pywbem.Model.AssocPull
import Proofs.Lemmas.Pull

namespace Pywbem.Model.Assoc
open Pywbem.Proto Pywbem.Model.Pull

theorem decode_sessionObjs {α : Type} (l : List α) : decodeObjs l (sessionObjs l) = l.map some := by
  unfold decodeObjs sessionObjs
  apply List.ext_getElem
  · simp
  · intro i h1 h2
    simp at h1
    simp [h1]

theorem openOn_ok {α : Type} {res : Except PyExc (List α)} {p : OpenParams} {kind : Kind} {nsId : Nat}
    {max : Option Int} {op : Op} (h : openOn res p kind nsId max = .ok op) :
    ∃ l, res = .ok l ∧ op = .open p kind nsId (sessionObjs l) max := by
  unfold openOn at h
  cases res with
  | error e => cases h
  | ok l => cases h; exact ⟨l, rfl, rfl⟩

end Pywbem.Model.Assoc
