/-
C03 — the keybinding part of the CIMObject header of an extrinsic method call: it is written from the same keybindings
as the KEYBINDING elements of the body, each as `name=value`, for a permutation (the sorted order) of them; string
values are escaped invertibly.
-/
import Proofs.Lemmas.DtdReq4

set_option linter.unusedSimpArgs false
set_option linter.unusedVariables false

namespace Proofs.DtdReq
open Pywbem.Model Pywbem.Model.Dtd Pywbem.Model.XmlText Pywbem.Model.Sendable Proofs.Dtd Proofs.DtdEnc
open Pywbem.Model.Req Pywbem.Proto

/-- the escaping of string values in the header loses nothing -/
theorem uriUnescape_escape : ∀ (s : Str), uriUnescape (uriEscape s) = s
  | [] => rfl
  | c :: cs => by
    have ih := uriUnescape_escape cs
    simp only [uriEscape]
    by_cases h1 : c = '\\'
    · subst h1; simp only [if_true, uriUnescape, ih]
    · by_cases h2 : c = '"'
      · subst h2; simp only [h1, if_false, if_true, uriUnescape, ih]
      · simp only [h1, h2, if_false]
        cases hr : uriEscape cs with
        | nil =>
          rw [hr] at ih
          simp only [uriUnescape] at ih ⊢
          rw [← ih]
        | cons d rest =>
          rw [hr] at ih
          simp only [uriUnescape, h1, if_false, ih]

theorem insertKey_perm (k : Str × Atom) : ∀ (l : List (Str × Atom)), (insertKey k l).Perm (k :: l)
  | [] => by simp [insertKey]
  | q :: qs => by
    simp only [insertKey]
    split
    · exact ((insertKey_perm k qs).cons q).trans (List.Perm.swap k q qs)
    · exact List.Perm.refl _

theorem foldr_insertKey_perm : ∀ (l : List (Str × Atom)), (l.foldr insertKey []).Perm l
  | [] => by simp
  | k :: l => by
    simp only [List.foldr_cons]
    exact (insertKey_perm k _).trans ((foldr_insertKey_perm l).cons k)

theorem mapOpt_length {α β : Type} (f : α → Option β) : ∀ (l : List α) (r : List β), mapOpt f l = some r → r.length = l.length
  | [], r, h => by simp only [mapOpt] at h; cases h; rfl
  | x :: xs, r, h => by
    simp only [mapOpt] at h
    cases hx : f x with
    | none => rw [hx] at h; cases h
    | some y =>
      cases hxs : mapOpt f xs with
      | none => rw [hx, hxs] at h; cases h
      | some ys =>
        rw [hx, hxs] at h; cases h
        simp [mapOpt_length f xs ys hxs]

/-- two lists related element by element -/
inductive Zip2 {α β : Type} (R : α → β → Prop) : List α → List β → Prop where
  | nil : Zip2 R [] []
  | cons {a : α} {b : β} {as : List α} {bs : List β} : R a b → Zip2 R as bs → Zip2 R (a :: as) (b :: bs)

theorem Zip2.imp {α β : Type} {R S : α → β → Prop} (hRS : ∀ a b, R a b → S a b) :
    ∀ {l : List α} {r : List β}, Zip2 R l r → Zip2 S l r
  | _, _, .nil => .nil
  | _, _, .cons h t => .cons (hRS _ _ h) (Zip2.imp hRS t)

theorem Zip2.length {α β : Type} {R : α → β → Prop} : ∀ {l : List α} {r : List β}, Zip2 R l r → l.length = r.length
  | _, _, .nil => rfl
  | _, _, .cons _ t => by simp [Zip2.length t]

/-- element-wise: the i-th result comes from the i-th input -/
theorem mapOpt_forall₂ {α β : Type} (f : α → Option β) : ∀ (l : List α) (r : List β), mapOpt f l = some r →
    Zip2 (fun x y => f x = some y) l r
  | [], r, h => by simp only [mapOpt] at h; cases h; exact .nil
  | x :: xs, r, h => by
    simp only [mapOpt] at h
    cases hx : f x with
    | none => rw [hx] at h; cases h
    | some y =>
      cases hxs : mapOpt f xs with
      | none => rw [hx, hxs] at h; cases h
      | some ys =>
        rw [hx, hxs] at h; cases h
        exact .cons hx (mapOpt_forall₂ f xs ys hxs)

/-- the named keybindings of a path, in the order of the body -/
def namedKeys (keys : List Key) : Option (List (Str × Atom)) := mapOpt keyNamed keys

/-- what the header writes for one keybinding value, side by side with what the body's KEYBINDING carries:
    * string / char16: the header has the KEYVALUE text quoted and escaped (invertibly: `uriUnescape_escape`);
    * boolean, integer: the same text as the KEYVALUE;
    * datetime: the KEYVALUE text in quotes;
    * real: `K.reprReal` in the header, `C.strFloat` in the body (both Python float printing: third party);
    * reference: the quoted, escaped `to_wbem_uri` of the referenced path, whose VALUE.REFERENCE is in the body. -/
inductive KeyAgrees (C : Codec) (K : KeyCodec) (rec : Path → Option Str) : Str × Atom → Str → Prop where
  | str (k s : Str) (ty : String) :
      KeyAgrees C K rec (k, .str s) (k ++ '=' :: uriQuote s)
  | char16 (k s : Str) : KeyAgrees C K rec (k, .char16 s) (k ++ '=' :: uriQuote s)
  | bool (k : Str) (b : Bool) : KeyAgrees C K rec (k, .bool b) (k ++ '=' :: boolText b)
  | int (k : Str) (t : IntTy) (i : Int) : KeyAgrees C K rec (k, .int t i) (k ++ '=' :: intToStr i)
  | pyint (k : Str) (i : Int) : KeyAgrees C K rec (k, .pyint i) (k ++ '=' :: intToStr i)
  | dt (k s : Str) : KeyAgrees C K rec (k, .dt s) (k ++ '=' :: ('"' :: s ++ ['"']))
  | real (k : Str) (w : Bool) (b : UInt64) : KeyAgrees C K rec (k, .real w b) (k ++ '=' :: K.reprReal (if w then 1 else 0) b)
  | pyfloat (k : Str) (b : UInt64) : KeyAgrees C K rec (k, .pyfloat b) (k ++ '=' :: K.reprReal 2 b)
  | ref (k : Str) (p : Path) (u : Str) (h : rec p = some u) : KeyAgrees C K rec (k, .ref p) (k ++ '=' :: uriQuote u)

theorem keyTok_agrees (C : Codec) (K : KeyCodec) (rec : Path → Option Str) (kv : Str × Atom) (t : Str)
    (h : keyTok K rec kv = some t) : KeyAgrees C K rec kv t := by
  obtain ⟨k, v⟩ := kv
  unfold keyTok at h
  cases v <;> simp only [keyValText, Option.map_some, Option.map_none, Option.some.injEq, reduceCtorEq] at h
  case str s => subst h; exact .str k s ""
  case char16 s => subst h; exact .char16 k s
  case bool b => subst h; exact .bool k b
  case int ty i => subst h; exact .int k ty i
  case real w b => subst h; exact .real k w b
  case dt s => subst h; exact .dt k s
  case pyint i => subst h; exact .pyint k i
  case pyfloat b => subst h; exact .pyfloat k b
  case ref p =>
    cases hp : rec p with
    | none => rw [hp] at h; simp at h
    | some u => rw [hp] at h; simp at h; subst h; exact .ref k p u hp

/-- the KEYVALUE text the body carries for a string / char16 / boolean / integer / datetime keybinding is the text
    the header is made from -/
theorem encKey_text (C : Codec) (k : Str) :
    (∀ s, encKey C (.mk (some k) (.str s)) = encKey.keyval k s "string" (some "string".toList)) ∧
    (∀ s, encKey C (.mk (some k) (.char16 s)) = encKey.keyval k s "string" (some "char16".toList)) ∧
    (∀ b, encKey C (.mk (some k) (.bool b)) = encKey.keyval k (boolText b) "boolean" (some "boolean".toList)) ∧
    (∀ t i, encKey C (.mk (some k) (.int t i)) = encKey.keyval k (intToStr i) "numeric" (some t.name)) ∧
    (∀ i, encKey C (.mk (some k) (.pyint i)) = encKey.keyval k (intToStr i) "numeric" none) ∧
    (∀ s, encKey C (.mk (some k) (.dt s)) = encKey.keyval k s "string" (some "datetime".toList)) := by
  refine ⟨?_, ?_, ?_, ?_, ?_, ?_⟩ <;> intros <;> simp only [encKey, Option.getD, boolText]

/-- **the whole CIMObject header of an extrinsic method call.**  With `lo` the target (namespace filled in, no host),
    whose encoding is the first child of METHODCALL: for a class the header is `ns:Class`; for an instance it is
    `ns:Class` followed — when there are keybindings — by `.` and the comma-joined tokens `name=value`, one for each
    keybinding of `lo`, in an order that is a permutation of the body's order, each token agreeing (`KeyAgrees`)
    with the keybinding it was made from. -/
theorem methodcall_cimobject_keys (C : Codec) (K : KeyCodec) (dn : Str) (m obj : Arg) (params : List MParam)
    (h : Headers) (x : Xml) (hr : methodcall C K dn m obj params = .ok (h, x)) :
    ∃ (hdr n c : Str) (keys : Option (List Key)),
      header h "CIMObject" = some hdr ∧
      bodyTarget x = some (encPath C (match keys with | some ks => Path.inst c none (some n) ks | none => Path.cls c none (some n))) ∧
      match keys with
      | none => hdr = n ++ ':' :: c
      | some ks => ∃ (named sorted : List (Str × Atom)) (toks : List Str) (rec : Path → Option Str),
          namedKeys ks = some named ∧ sorted.Perm named ∧ sorted = named.foldr insertKey [] ∧
          Zip2 (fun kv t => KeyAgrees C K rec kv t) sorted toks ∧
          hdr = (if toks.isEmpty then n ++ ':' :: c else n ++ ':' :: c ++ '.' :: joinComma toks) := by
  simp only [methodcall] at hr
  obtain ⟨mname, hm, hr⟩ := bind_ok hr
  obtain ⟨lo, hlo, hr⟩ := bind_ok hr
  obtain ⟨hdr, hh, hr⟩ := bind_ok hr
  obtain ⟨pragma, hpr, hr⟩ := bind_ok hr
  obtain ⟨pts, hpts, hr⟩ := bind_ok hr
  obtain ⟨plist, hpl, hr⟩ := bind_ok hr
  obtain ⟨lox, hlox, hr⟩ := bind_ok hr
  obtain ⟨doc, hd, hr⟩ := bind_ok hr
  cases hr
  obtain ⟨rfl, _⟩ := checked_ok hlox
  obtain ⟨rfl, _⟩ := checked_ok hd
  have hhdr : header ([("CIMOperation".toList, "MethodCall".toList), ("CIMMethod".toList, mname),
      ("CIMObject".toList, hdr)] ++ pragma) "CIMObject" = some hdr := by simp [header, Xml.attr]
  have hform : ∃ c n keys, lo = (match keys with | some ks => Path.inst c none (some n) ks | none => Path.cls c none (some n)) := by
    cases obj with
    | className p =>
      simp only [localObject] at hlo; cases hlo
      cases p with
      | inst c hst ns ks => exact ⟨c, (pathNs (Path.inst c hst ns ks)).getD dn, some ks, rfl⟩
      | cls c hst ns => exact ⟨c, (pathNs (Path.cls c hst ns)).getD dn, none, rfl⟩
    | instName p =>
      simp only [localObject] at hlo; cases hlo
      cases p with
      | inst c hst ns ks => exact ⟨c, (pathNs (Path.inst c hst ns ks)).getD dn, some ks, rfl⟩
      | cls c hst ns => exact ⟨c, (pathNs (Path.cls c hst ns)).getD dn, none, rfl⟩
    | str s => simp only [localObject] at hlo; cases hlo; exact ⟨s, dn, none, rfl⟩
    | _ => simp [localObject] at hlo
  have hu : ∃ rec, renderPath K rec lo = some hdr := by
    unfold cimObjectHeader at hh
    cases hp : pathUri K (pathDepth lo) lo with
    | none => rw [hp] at hh; cases hh
    | some u =>
      rw [hp] at hh; cases hh
      cases hf : pathDepth lo with
      | zero => rw [hf] at hp; exact ⟨_, by simpa only [pathUri] using hp⟩
      | succ f => rw [hf] at hp; exact ⟨_, by simpa only [pathUri] using hp⟩
  obtain ⟨c, n, keys, rfl⟩ := hform
  obtain ⟨rec, hrp⟩ := hu
  refine ⟨hdr, n, c, keys, hhdr, by cases keys <;> simp [bodyTarget, bodyCall, cimElem, E], ?_⟩
  cases keys with
  | none =>
    simp only [renderPath, uriHead, hostSlash, List.nil_append] at hrp
    cases hrp; rfl
  | some ks =>
    simp only [renderPath, uriHead, hostSlash, List.nil_append] at hrp
    cases hs : sortedKeys ks with
    | none => rw [hs] at hrp; cases hrp
    | some sorted =>
      rw [hs] at hrp
      simp only at hrp
      cases ht : mapOpt (keyTok K rec) sorted with
      | none => rw [ht] at hrp; cases hrp
      | some toks =>
        rw [ht] at hrp
        simp only [Option.some.injEq] at hrp
        unfold sortedKeys at hs
        cases hn : mapOpt keyNamed ks with
        | none => rw [hn] at hs; simp at hs
        | some named =>
          rw [hn] at hs
          simp only [Option.map_some, Option.some.injEq] at hs
          subst hs
          refine ⟨named, _, toks, rec, hn, foldr_insertKey_perm named, rfl, ?_, hrp.symm⟩
          have := mapOpt_forall₂ (keyTok K rec) _ toks ht
          exact this.imp (fun kv t hkt => keyTok_agrees C K rec kv t hkt)

/-! ### the keybindings are written in code point order of their names (`sorted(keys)`) -/

theorem strLt_cons (a b : Char) (as bs : Str) : strLt (a :: as) (b :: bs) = (decide (a.toNat < b.toNat) || (a == b && strLt as bs)) := rfl

theorem char_eq_of_toNat {a b : Char} (h : a.toNat = b.toNat) : a = b := by
  have := congrArg Char.ofNat h
  simpa [Char.ofNat_toNat] using this

theorem strLt_asymm : ∀ (a b : Str), strLt a b = true → strLt b a = false
  | [], [], h => by simp [strLt] at h
  | [], _ :: _, _ => rfl
  | _ :: _, [], h => by simp [strLt] at h
  | a :: as, b :: bs, h => by
    simp only [strLt_cons, Bool.or_eq_true, decide_eq_true_eq, Bool.and_eq_true, beq_iff_eq] at h
    simp only [strLt_cons, Bool.or_eq_false_iff, decide_eq_false_iff_not, Bool.and_eq_false_iff]
    rcases h with h | ⟨rfl, h⟩
    · refine ⟨by omega, .inl ?_⟩
      simp; intro e; subst e; omega
    · exact ⟨by omega, .inr (strLt_asymm as bs h)⟩

/-- negative transitivity: a ≤ b and b ≤ c give a ≤ c, where x ≤ y means ¬ (y < x) -/
theorem strLe_trans : ∀ (a b c : Str), strLt b a = false → strLt c b = false → strLt c a = false
  | [], _, c, _, _ => by cases c <;> rfl
  | a :: as, [], c, h, _ => by simp [strLt] at h
  | a :: as, b :: bs, [], _, h2 => by simp [strLt] at h2
  | a :: as, b :: bs, c :: cs, h1, h2 => by
    simp only [strLt_cons, Bool.or_eq_false_iff, decide_eq_false_iff_not, Bool.and_eq_false_iff] at h1 h2 ⊢
    obtain ⟨h1a, h1b⟩ := h1
    obtain ⟨h2a, h2b⟩ := h2
    refine ⟨by omega, ?_⟩
    by_cases hca : c = a
    · subst hca
      right
      have hbc : b = c := by
        apply char_eq_of_toNat; omega
      subst hbc
      have h1' : strLt bs as = false := by rcases h1b with h | h <;> simp_all
      have h2' : strLt cs bs = false := by rcases h2b with h | h <;> simp_all
      exact strLe_trans as bs cs h1' h2'
    · left; simpa using hca

/-- sorted by key name: no later name is smaller than an earlier one -/
def SortedKeys (l : List (Str × Atom)) : Prop := l.Pairwise (fun a b => strLt b.1 a.1 = false)

theorem insertKey_mem (k : Str × Atom) : ∀ (l : List (Str × Atom)) (x : Str × Atom), x ∈ insertKey k l → x = k ∨ x ∈ l
  | [], x, h => by simp [insertKey] at h; exact .inl h
  | q :: qs, x, h => by
    simp only [insertKey] at h
    split at h
    · rcases List.mem_cons.mp h with rfl | h
      · exact .inr (by simp)
      · rcases insertKey_mem k qs x h with e | e
        · exact .inl e
        · exact .inr (by simp [e])
    · rcases List.mem_cons.mp h with rfl | h
      · exact .inl rfl
      · exact .inr h

theorem insertKey_sorted (k : Str × Atom) : ∀ (l : List (Str × Atom)), SortedKeys l → SortedKeys (insertKey k l)
  | [], _ => by simp [insertKey, SortedKeys]
  | q :: qs, h => by
    have hq : ∀ r ∈ qs, strLt r.1 q.1 = false := (List.pairwise_cons.mp h).1
    have hs : SortedKeys qs := (List.pairwise_cons.mp h).2
    simp only [insertKey]
    split
    · rename_i hlt
      -- q < k: q stays first
      refine List.pairwise_cons.mpr ⟨?_, insertKey_sorted k qs hs⟩
      intro r hr
      rcases insertKey_mem k qs r hr with rfl | hr
      · exact strLt_asymm _ _ hlt
      · exact hq r hr
    · rename_i hge
      have hkq : strLt q.1 k.1 = false := by simpa using hge
      refine List.pairwise_cons.mpr ⟨?_, h⟩
      intro r hr
      rcases List.mem_cons.mp hr with rfl | hr
      · exact hkq
      · exact strLe_trans k.1 q.1 r.1 hkq (hq r hr)

theorem foldr_insertKey_sorted : ∀ (l : List (Str × Atom)), SortedKeys (l.foldr insertKey [])
  | [] => by simp [SortedKeys]
  | k :: l => by simp only [List.foldr_cons]; exact insertKey_sorted k _ (foldr_insertKey_sorted l)

end Proofs.DtdReq
