/-
C01 — stage 1/2: attribute-lookup and child-list lemmas for the encoder's output, `checkNode` on
encoder output, scalar values (`unpackSingle`), typed values and arrays (`unpackValue`).
-/
import Proofs.Lemmas.CimXml
import Proofs.Lemmas.CimXml1

set_option linter.unusedSimpArgs false
set_option linter.unusedVariables false

namespace Proofs.CimXml
open Pywbem.Model Pywbem.Model.XmlText Pywbem.Proto

/-! ### Except helpers -/

@[simp] theorem bind_ok {α β} (a : α) (f : α → R β) : (Except.ok a >>= f) = f a := rfl
@[simp] theorem pure_eq_ok {α} (a : α) : (pure a : R α) = .ok a := rfl
@[simp] theorem bind_ok' {α β} (a : α) (f : α → R β) : (Except.bind (Except.ok a) f) = f a := rfl

/-! ### attribute lookup -/

@[simp] theorem attr_nil (k : Str) : Xml.attr [] k = none := rfl

@[simp] theorem attr_cons (k v k' : Str) (rest : List (Str × Str)) :
    Xml.attr ((k, v) :: rest) k' = if k = k' then some v else Xml.attr rest k' := by
  by_cases h : k = k'
  · simp [Xml.attr, List.find?, h]
  · have hb : (k == k') = false := by simp [h]
    simp [Xml.attr, List.find?, h, hb]

theorem attr_append (a b : List (Str × Str)) (k : Str) :
    Xml.attr (a ++ b) k = (Xml.attr a k).or (Xml.attr b k) := by
  induction a with
  | nil => simp
  | cons p a ih =>
    obtain ⟨k0, v0⟩ := p
    by_cases h : k0 = k <;> simp [h, ih]

@[simp] theorem attr_optAttr (k : String) (v : Option Str) (k' : Str) :
    Xml.attr (optAttr k v) k' = if k.toList = k' then v else none := by
  cases v <;> simp [optAttr]

@[simp] theorem attr_optBoolAttr (k : String) (v : Option Bool) (k' : Str) :
    Xml.attr (optBoolAttr k v) k' = if k.toList = k' then v.map boolAttr else none := by
  cases v <;> simp [optBoolAttr]

theorem mem_optAttr {k : String} {v : Option Str} {p : Str × Str} (h : p ∈ optAttr k v) : p.1 = k.toList := by
  cases v <;> simp [optAttr] at h; simp [h]

theorem mem_optBoolAttr {k : String} {v : Option Bool} {p : Str × Str} (h : p ∈ optBoolAttr k v) :
    p.1 = k.toList := by
  cases v <;> simp [optBoolAttr] at h; simp [h]

/-- all attribute keys of `as` are among `names` -/
def KeysIn (as : List (Str × Str)) (names : List String) : Prop := ∀ p ∈ as, p.1 ∈ names.map String.toList

theorem keysIn_nil (names) : KeysIn [] names := by intro p hp; simp at hp

theorem keysIn_cons {k v : Str} {as names} (h1 : k ∈ names.map String.toList) (h2 : KeysIn as names) :
    KeysIn ((k, v) :: as) names := by
  intro p hp; simp at hp; rcases hp with rfl | hp
  · exact h1
  · exact h2 p hp

theorem keysIn_append {a b names} (h1 : KeysIn a names) (h2 : KeysIn b names) : KeysIn (a ++ b) names := by
  intro p hp; simp at hp; rcases hp with hp | hp
  · exact h1 p hp
  · exact h2 p hp

theorem keysIn_optAttr {k : String} {v names} (h : k.toList ∈ names.map String.toList) :
    KeysIn (optAttr k v) names := by
  intro p hp; rw [mem_optAttr hp]; exact h

theorem keysIn_optBoolAttr {k : String} {v names} (h : k.toList ∈ names.map String.toList) :
    KeysIn (optBoolAttr k v) names := by
  intro p hp; rw [mem_optBoolAttr hp]; exact h

theorem attrKeysOk_of (as : List (Str × Str)) (req opt : List String)
    (h1 : ∀ k ∈ req, (Xml.attr as k.toList).isSome = true) (h2 : KeysIn as (req ++ opt)) :
    attrKeysOk as req opt = true := by
  unfold attrKeysOk
  simp only [Bool.and_eq_true, List.all_eq_true]
  refine ⟨h1, ?_⟩
  intro p hp
  have := h2 p hp
  simp only [List.map_append, List.mem_append, List.mem_map] at this
  simp only [Bool.or_eq_true, List.any_eq_true, beq_iff_eq]
  rcases this with ⟨k, hk, e⟩ | ⟨k, hk, e⟩
  · exact Or.inl ⟨k, hk, e⟩
  · exact Or.inr ⟨k, hk, e⟩

/-! ### child lists -/

/-- every child is an element whose name is one of `names` -/
def AllNames (l : List Xml) (names : List String) : Prop :=
  ∀ k ∈ l, k.isElem = true ∧ k.name ∈ names.map String.toList

theorem allNames_nil (names) : AllNames [] names := by intro k hk; simp at hk

theorem allNames_cons {k l names} (h1 : k.isElem = true ∧ k.name ∈ names.map String.toList)
    (h2 : AllNames l names) : AllNames (k :: l) names := by
  intro x hx; simp at hx; rcases hx with rfl | hx
  · exact h1
  · exact h2 x hx

theorem allNames_append {a b names} (h1 : AllNames a names) (h2 : AllNames b names) :
    AllNames (a ++ b) names := by
  intro x hx; simp at hx; rcases hx with hx | hx
  · exact h1 x hx
  · exact h2 x hx

theorem allNames_mono {l names names'} (h : AllNames l names)
    (hs : ∀ n ∈ names, n ∈ names') : AllNames l names' := by
  intro k hk
  obtain ⟨h1, h2⟩ := h k hk
  refine ⟨h1, ?_⟩
  simp only [List.mem_map] at h2 ⊢
  obtain ⟨n, hn, e⟩ := h2
  exact ⟨n, hs n hn, e⟩

theorem allNames_tail {k l names} (h : AllNames (k :: l) names) : AllNames l names :=
  fun x hx => h x (by simp [hx])

theorem elemKids_of_allNames {l names} (h : AllNames l names) : Xml.elemKids l = l := by
  induction l with
  | nil => rfl
  | cons k l ih =>
    have hk := (h k (by simp)).1
    cases k with
    | text s => simp [Xml.isElem] at hk
    | elem n as ks => simp [Xml.elemKids, ih (allNames_tail h)]

theorem noText_of_allNames {l names} (h : AllNames l names) : noText l = true := by
  unfold noText
  simp only [List.all_eq_true]
  intro k hk
  have := (h k hk).1
  cases k with
  | text s => simp [Xml.isElem] at this
  | elem n as ks => rfl

theorem kidsOk_of_allNames {l names} (allowed : List String) (h : AllNames l names)
    (hs : ∀ n ∈ names, n ∈ allowed) : kidsOk l allowed = true := by
  unfold kidsOk
  rw [elemKids_of_allNames h]
  simp only [List.all_eq_true, List.any_eq_true, beq_iff_eq]
  intro k hk
  have := (h k hk).2
  simp only [List.mem_map] at this
  obtain ⟨n, hn, e⟩ := this
  exact ⟨n, hs n hn, e⟩

/-! ### checkNode on a well-formed element -/

theorem checkNode_ok (n : String) (as : List (Str × Str)) (ks : List Xml) (req opt : List String)
    (allowed : Option (List String)) (pc : Bool)
    (h1 : attrKeysOk as req opt = true)
    (h2 : (match allowed with | some a => kidsOk ks a | none => true) = true)
    (h3 : pc = true ∨ noText ks = true) :
    checkNode (E n as ks) n req opt allowed pc = .ok (as, ks) := by
  unfold checkNode E
  cases allowed with
  | none => rcases h3 with h3 | h3 <;> simp [h1, h3] <;> rfl
  | some a =>
    simp at h2
    rcases h3 with h3 | h3 <;> simp [h1, h2, h3] <;> rfl

/-! ### scalar kinds -/

theorem unpackBoolean_TRUE : unpackBoolean "TRUE".toList = .ok (some true) := by rfl
theorem unpackBoolean_FALSE : unpackBoolean "FALSE".toList = .ok (some false) := by rfl
theorem unpackBoolean_true : unpackBoolean "true".toList = .ok (some true) := by rfl
theorem unpackBoolean_false : unpackBoolean "false".toList = .ok (some false) := by rfl

theorem unpackBoolean_boolAttr (b : Bool) : unpackBoolean (boolAttr b) = .ok (some b) := by
  cases b <;> rfl

theorem intTy_ofName (t : IntTy) : IntTy.ofName t.name = some t := by cases t <;> decide

theorem intTy_name_ne (t : IntTy) : t.name ≠ "string".toList ∧ t.name ≠ "boolean".toList ∧
    t.name ≠ "datetime".toList ∧ t.name ≠ "char16".toList ∧ t.name ≠ "reference".toList := by
  cases t <;> decide

theorem numericTypeName_int (t : IntTy) : numericTypeName t.name = true := by
  simp [numericTypeName, intTy_ofName]

theorem unpackNumeric_int (C : DecCodec) (t : IntTy) (v : Int) (h : t.lo ≤ v ∧ v ≤ t.hi) :
    unpackNumeric C (intToStr v) (some t.name) = .ok (.int t v) := by
  unfold unpackNumeric
  rw [parseNum_intToStr]
  simp [intTy_ofName, h]

theorem unpackNumeric_pyint (C : DecCodec) (v : Int) :
    unpackNumeric C (intToStr v) none = .ok (.pyint v) := by
  unfold unpackNumeric
  rw [parseNum_intToStr]
  rfl

theorem parseNum_float (C : DecCodec) (s : Str) (h : cimxmlHex (strip s) = none ∧ pyInt (strip s) = none ∧
    (C.parseFloat (strip s)).isSome = true) :
    parseNum C s = .ok (.float ((C.parseFloat (strip s)).getD 0)) := by
  unfold parseNum
  obtain ⟨h1, h2, h3⟩ := h
  simp only [h1, h2]
  cases hp : C.parseFloat (strip s) with
  | none => simp [hp] at h3
  | some b => simp

theorem getD_of_isSome {α} {o : Option α} (h : o.isSome = true) (a b : α) : o.getD a = o.getD b := by
  cases o <;> simp at h ⊢

theorem unpackNumeric_real (C : DecCodec) (S : Spec) (hC : CodecOk C S) (w : Bool) (b : UInt64) :
    unpackNumeric C (C.fmtReal w b) (some (if w then "real64".toList else "real32".toList)) =
      .ok (.real w (C.reparse w b)) := by
  unfold unpackNumeric
  rw [parseNum_float C _ (hC.real_parses w b)]
  have e : (C.parseFloat (strip (C.fmtReal w b))).getD 0 = C.reparse w b := by
    unfold Codec.reparse; exact getD_of_isSome (hC.real_parses w b).2.2 _ _
  rw [e]
  cases w <;> simp <;> rfl

theorem unpackNumeric_pyfloat (C : DecCodec) (S : Spec) (hC : CodecOk C S) (b : UInt64) :
    unpackNumeric C (C.fmtReal true b) none = .ok (.pyfloat (C.reparse true b)) := by
  unfold unpackNumeric
  rw [parseNum_float C _ (hC.real_parses true b)]
  have e : (C.parseFloat (strip (C.fmtReal true b))).getD 0 = C.reparse true b := by
    unfold Codec.reparse; exact getD_of_isSome (hC.real_parses true b).2.2 _ _
  rw [e]; rfl

theorem unpackNumeric_keyreal (C : DecCodec) (S : Spec) (hC : CodecOk C S) (w : Bool) (b : UInt64) :
    unpackNumeric C (C.strFloat b) (some (if w then "real64".toList else "real32".toList)) =
      .ok (.real w (C.reparseKey b)) := by
  unfold unpackNumeric
  rw [parseNum_float C _ (hC.key_parses b)]
  have e : (C.parseFloat (strip (C.strFloat b))).getD 0 = C.reparseKey b := by
    unfold Codec.reparseKey; exact getD_of_isSome (hC.key_parses b).2.2 _ _
  rw [e]
  cases w <;> simp <;> rfl

theorem unpackNumeric_keypyfloat (C : DecCodec) (S : Spec) (hC : CodecOk C S) (b : UInt64) :
    unpackNumeric C (C.strFloat b) none = .ok (.pyfloat (C.reparseKey b)) := by
  unfold unpackNumeric
  rw [parseNum_float C _ (hC.key_parses b)]
  have e : (C.parseFloat (strip (C.strFloat b))).getD 0 = C.reparseKey b := by
    unfold Codec.reparseKey; exact getD_of_isSome (hC.key_parses b).2.2 _ _
  rw [e]; rfl

theorem unpackSingle_string (C : DecCodec) (d : Str) : unpackSingle C d (some "string".toList) = .ok (.str d) := by
  unfold unpackSingle
  simp only [if_true]
  rfl

theorem unpackSingle_boolean (C : DecCodec) (d : Str) (b : Bool) (h : unpackBoolean d = .ok (some b)) :
    unpackSingle C d (some "boolean".toList) = .ok (.bool b) := by
  have h1 : "boolean".toList ≠ "string".toList := by decide
  unfold unpackSingle
  simp only [if_neg h1, if_true, h]
  rfl

theorem unpackSingle_numeric (C : DecCodec) (d ty : Str) (h1 : ty ≠ "string".toList) (h2 : ty ≠ "boolean".toList)
    (h3 : numericTypeName ty = true) : unpackSingle C d (some ty) = unpackNumeric C d (some ty) := by
  unfold unpackSingle
  simp only [if_neg h1, if_neg h2, if_pos h3]

theorem unpackSingle_datetime (C : DecCodec) (d : Str) (h : C.parseDt d = some d) :
    unpackSingle C d (some "datetime".toList) = .ok (.dt d) := by
  have h3 : ¬ (numericTypeName "datetime".toList = true) := by decide
  have h1 : "datetime".toList ≠ "string".toList := by decide
  have h2 : "datetime".toList ≠ "boolean".toList := by decide
  unfold unpackSingle
  simp only [if_neg h1, if_neg h2, if_neg h3, if_true, h]
  rfl

theorem unpackSingle_char16 (C : DecCodec) (c : Char) (h : c.toNat ≤ 0xFFFF) :
    unpackSingle C [c] (some "char16".toList) = .ok (.char16 [c]) := by
  have h3 : ¬ (numericTypeName "char16".toList = true) := by decide
  have h1 : "char16".toList ≠ "string".toList := by decide
  have h2 : "char16".toList ≠ "boolean".toList := by decide
  have h4 : "char16".toList ≠ "datetime".toList := by decide
  have h' : ¬ c.toNat > 0xFFFF := by omega
  unfold unpackSingle
  simp only [if_neg h1, if_neg h2, if_neg h3, if_neg h4, if_true, unpackChar16, if_neg h']
  rfl

theorem unpackSingle_none (C : DecCodec) (d : Str) : unpackSingle C d none = unpackNumeric C d none := rfl

/-- **scalar round trip**: the text `atomic_to_cim_xml` wrote, converted back under the atom's CIM type,
    is the atom with defaults — every typed scalar kind -/
theorem unpackSingle_atom (C : DecCodec) (S : Spec) (hC : CodecOk C S) (a : Atom) (ty : Str)
    (h : PlainAtom S ty a) : unpackSingle C (atomText C.toCodec a) (some ty) = .ok (wdAtom C.toCodec a) := by
  obtain ⟨hty, hok⟩ := h
  cases a with
  | str s =>
    simp only [typeName, Option.some.injEq] at hty; subst hty
    simp only [atomText, wdAtom]; exact unpackSingle_string C s
  | char16 s =>
    simp only [typeName, Option.some.injEq] at hty; subst hty
    obtain ⟨c, rfl, hc⟩ := hok
    simp only [atomText, wdAtom]; exact unpackSingle_char16 C c hc
  | bool b =>
    simp only [typeName, Option.some.injEq] at hty; subst hty
    simp only [atomText, wdAtom]
    cases b
    · exact unpackSingle_boolean C _ false unpackBoolean_FALSE
    · exact unpackSingle_boolean C _ true unpackBoolean_TRUE
  | int t v =>
    simp only [typeName, Option.some.injEq] at hty; subst hty
    have hn := intTy_name_ne t
    simp only [atomText, wdAtom]
    rw [unpackSingle_numeric C _ _ hn.1 hn.2.1 (numericTypeName_int t)]
    exact unpackNumeric_int C t v hok
  | real w b =>
    simp only [typeName, Option.some.injEq] at hty; subst hty
    simp only [atomText, wdAtom]
    rw [unpackSingle_numeric C _ _ (by cases w <;> decide) (by cases w <;> decide) (by cases w <;> decide)]
    exact unpackNumeric_real C S hC w b
  | dt s =>
    simp only [typeName, Option.some.injEq] at hty; subst hty
    simp only [atomText, wdAtom]
    exact unpackSingle_datetime C s (hC.dt_ok s hok)
  | null => simp [typeName] at hty
  | pyint v => simp [typeName] at hty
  | pyfloat v => simp [typeName] at hty
  | ref p => simp [typeName] at hty
  | einst i => simp [typeName] at hty
  | ecls c => simp [typeName] at hty

/-- a plain atom never decodes to the NULL marker -/
theorem wdAtom_plain_ne_null (C : Codec) (S : Spec) (a : Atom) (ty : Str) (h : PlainAtom S ty a) :
    wdAtom C a ≠ .null := by
  obtain ⟨hty, _⟩ := h
  cases a <;> simp [typeName] at hty <;> simp [wdAtom]

theorem plainAtom_not_ref (S : Spec) (a : Atom) (ty : Str) (h : PlainAtom S ty a) : ∀ p, a ≠ .ref p := by
  obtain ⟨hty, _⟩ := h
  intro p e; subst e; simp [typeName] at hty

/-! ### VALUE elements and arrays -/

theorem decValueText_valueElem (s : Str) : decValueText (valueElem s) = .ok s := by
  unfold decValueText valueElem
  rw [checkNode_ok "VALUE" [] [.text s] [] [] (some []) true (by decide) (by simp [kidsOk, Xml.elemKids]) (Or.inl rfl)]
  simp [Xml.pcdata]

theorem valueElem_name (s : Str) : (valueElem s).name = "VALUE".toList := rfl

theorem decArrayRaw_elem (n : Str) (as : List (Str × Str)) (kk ks : List Xml) :
    decArrayRaw (.elem n as kk :: ks) =
      if n = "VALUE".toList then do
        let s ← decValueText (.elem n as kk)
        let rest ← decArrayRaw ks
        pure (some s :: rest)
      else if n = "VALUE.NULL".toList then do
        let _ ← checkNode (.elem n as kk) "VALUE.NULL" [] [] (some []) false
        let rest ← decArrayRaw ks
        pure (none :: rest)
      else perr := by
  rfl

theorem decArrayRaw_cons_value (s : Str) (ks : List Xml) :
    decArrayRaw (valueElem s :: ks) = (do let rest ← decArrayRaw ks; pure (some s :: rest)) := by
  have h := decValueText_valueElem s
  unfold valueElem E at *
  rw [decArrayRaw_elem, if_pos rfl, h]
  rfl

theorem checkNode_valueNull :
    checkNode (E "VALUE.NULL" [] []) "VALUE.NULL" [] [] (some []) false = .ok ([], []) :=
  checkNode_ok "VALUE.NULL" [] [] [] [] (some []) false (by decide) (by decide) (Or.inr (by decide))

theorem decArrayRaw_cons_null (ks : List Xml) :
    decArrayRaw (E "VALUE.NULL" [] [] :: ks) = (do let rest ← decArrayRaw ks; pure (none :: rest)) := by
  have hnull := checkNode_valueNull
  have h1 : "VALUE.NULL".toList ≠ "VALUE".toList := by decide
  unfold E at *
  rw [decArrayRaw_elem, if_neg h1, if_pos rfl, hnull]
  rfl

theorem encArrItem_null (C : Codec) : encArrItem C .null = E "VALUE.NULL" [] [] := by
  simp [encArrItem, Pywbem.Generated.sendValueNull]

theorem encArrItem_ne_null (C : Codec) (a : Atom) (h : a ≠ .null) :
    encArrItem C a = valueElem (atomText C a) := by
  cases a <;> simp [encArrItem] at h ⊢

/-- the raw text (or None) the receiver extracts for an array entry -/
def rawItem (C : Codec) (a : Atom) : Option Str :=
  match a with | .null => none | a => some (atomText C a)

theorem rawItem_ne_null (C : Codec) (a : Atom) (h : a ≠ .null) : rawItem C a = some (atomText C a) := by
  cases a <;> simp [rawItem] at h ⊢

theorem decArrayRaw_items (C : Codec) (l : List Atom) :
    decArrayRaw (encArrItems C l) = .ok (l.map (rawItem C)) := by
  induction l with
  | nil => simp [encArrItems, decArrayRaw]
  | cons a l ih =>
    by_cases ha : a = .null
    · subst ha
      simp only [encArrItems, encArrItem_null, decArrayRaw_cons_null, ih, bind_ok, pure_eq_ok, List.map_cons]
      rfl
    · simp only [encArrItems, encArrItem_ne_null C a ha, decArrayRaw_cons_value, ih, bind_ok, pure_eq_ok,
        List.map_cons, rawItem_ne_null C a ha]

theorem noText_encArrItems (C : Codec) (l : List Atom) : noText (encArrItems C l) = true := by
  induction l with
  | nil => simp [encArrItems, noText]
  | cons a l ih =>
    have e : noText (encArrItems C (a :: l)) = (noText [encArrItem C a] && noText (encArrItems C l)) := by
      simp [noText, encArrItems]
    rw [e, ih]
    by_cases ha : a = .null
    · subst ha; rw [encArrItem_null]; rfl
    · rw [encArrItem_ne_null C a ha]; rfl

theorem unpackItems_plain (C : DecCodec) (S : Spec) (hC : CodecOk C S) (ty : Str) (l : List Atom)
    (h : ∀ a ∈ l, a = Atom.null ∨ PlainAtom S ty a) :
    unpackItems C ty (l.map (rawItem C.toCodec)) = .ok (wdAtoms C.toCodec l) := by
  induction l with
  | nil => simp [unpackItems, wdAtoms]
  | cons a l ih =>
    have ih' := ih (fun x hx => h x (by simp [hx]))
    rcases h a (by simp) with rfl | ha
    · simp only [List.map_cons, rawItem, unpackItems, ih', bind_ok, pure_eq_ok, wdAtoms, wdAtom]
    · have hs := unpackSingle_atom C S hC a ty ha
      have hne : a ≠ .null := by
        intro e; subst e; exact absurd ha.1 (by simp [typeName])
      simp only [List.map_cons, rawItem_ne_null _ a hne, unpackItems, hs, ih', bind_ok, pure_eq_ok, wdAtoms]

theorem decRawVals_nil : decRawVals [] = .ok [] := rfl

theorem decRawVals_elem (n : Str) (as : List (Str × Str)) (kk ks : List Xml) :
    decRawVals (.elem n as kk :: ks) =
      if n = "VALUE".toList then do
        let s ← decValueText (.elem n as kk)
        let rest ← decRawVals ks
        pure (.scalar s :: rest)
      else if n = "VALUE.ARRAY".toList then do
        let (_, aks) ← checkNode (.elem n as kk) "VALUE.ARRAY" [] [] none false
        let l ← decArrayRaw aks
        let rest ← decRawVals ks
        pure (.array l :: rest)
      else decRawVals ks := by
  rfl

theorem decRawVals_cons_value (s : Str) (ks : List Xml) :
    decRawVals (valueElem s :: ks) = (do let rest ← decRawVals ks; pure (.scalar s :: rest)) := by
  have h := decValueText_valueElem s
  unfold valueElem E at *
  rw [decRawVals_elem, if_pos rfl, h]
  rfl

theorem decRawVals_cons_array (C : Codec) (l : List Atom) (ks : List Xml) :
    decRawVals (E "VALUE.ARRAY" [] (encArrItems C l) :: ks) =
      (do let rest ← decRawVals ks; pure (.array (l.map (rawItem C)) :: rest)) := by
  have hc : checkNode (E "VALUE.ARRAY" [] (encArrItems C l)) "VALUE.ARRAY" [] [] none false =
      .ok ([], encArrItems C l) :=
    checkNode_ok _ _ _ _ _ _ _ (by decide) (by rfl) (Or.inr (noText_encArrItems C l))
  have h1 : "VALUE.ARRAY".toList ≠ "VALUE".toList := by decide
  unfold E at *
  rw [decRawVals_elem, if_neg h1, if_pos rfl, hc]
  simp only [bind_ok, decArrayRaw_items]

/-- elements of another name are skipped by `list_of_matching(('VALUE','VALUE.ARRAY'))` -/
theorem decRawVals_skip (l ks : List Xml) (names : List String) (h : AllNames l names)
    (h1 : "VALUE" ∉ names) (h2 : "VALUE.ARRAY" ∉ names) : decRawVals (l ++ ks) = decRawVals ks := by
  induction l with
  | nil => rfl
  | cons k l ih =>
    obtain ⟨he, hn⟩ := h k (by simp)
    cases k with
    | text s => simp [Xml.isElem] at he
    | elem n as kk =>
      simp only [Xml.name, List.mem_map] at hn
      obtain ⟨nm, hnm, e⟩ := hn
      have n1 : n ≠ "VALUE".toList := by
        intro e2; rw [e2] at e; exact h1 (by rw [← String.toList_inj.mp e]; exact hnm)
      have n2 : n ≠ "VALUE.ARRAY".toList := by
        intro e2; rw [e2] at e; exact h2 (by rw [← String.toList_inj.mp e]; exact hnm)
      rw [List.cons_append, decRawVals_elem, if_neg n1, if_neg n2]
      exact ih (allNames_tail h)

theorem encVal_scalar_plain (C : Codec) (S : Spec) (a : Atom) (ty : Str) (ha : PlainAtom S ty a) :
    encVal C (.scalar a) = [valueElem (atomText C a)] := by
  obtain ⟨hty, _⟩ := ha
  cases a <;> simp [typeName] at hty <;> simp [encVal]

/-- **typed value round trip** (qualifier / property / qualifier-declaration values without embedded
    objects): NULL, scalars of every kind, arrays including NULL entries and the empty array;
    `pre` are sibling elements of other names that precede the value (qualifiers, SCOPE) -/
theorem unpackValue_plain (C : DecCodec) (S : Spec) (hC : CodecOk C S) (ty : Str) (v : Val)
    (h : PlainVal S ty v) (pre : List Xml) (names : List String) (hpre : AllNames pre names)
    (h1 : "VALUE" ∉ names) (h2 : "VALUE.ARRAY" ∉ names) :
    unpackValue C ty (pre ++ encVal C.toCodec v) = .ok (wdVal C.toCodec v) := by
  unfold unpackValue
  rw [decRawVals_skip pre _ names hpre h1 h2]
  cases v with
  | null => simp [encVal, decRawVals, wdVal]
  | scalar a =>
    have ha : PlainAtom S ty a := h
    have hs := unpackSingle_atom C S hC a ty ha
    have hne := wdAtom_plain_ne_null C.toCodec S a ty ha
    rw [encVal_scalar_plain C.toCodec S a ty ha, decRawVals_cons_value]
    simp only [decRawVals_nil, bind_ok, pure_eq_ok, hs, wdVal]
  | array l =>
    have hl : ∀ a ∈ l, a = Atom.null ∨ PlainAtom S ty a := h
    simp only [encVal]
    rw [decRawVals_cons_array]
    simp only [decRawVals_nil, bind_ok, pure_eq_ok, unpackItems_plain C S hC ty l hl, wdVal]

end Proofs.CimXml
