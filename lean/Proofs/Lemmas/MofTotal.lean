/-
Helper lemmas for C08: the tomof() models above value level fail only with the ValueError documented for
`mofval` (known finding C08-F2) — never with the "endless loop" assertion, a TypeError or any other exception.
-/
import Proofs.Lemmas.MofClass

set_option linter.unusedSimpArgs false
set_option linter.unusedVariables false

namespace Pywbem.Lemmas.MofTotal
open Pywbem.Proto Pywbem.Model Pywbem.Model.MofStr Pywbem.Model.MofLex Pywbem.Model.MofVal Pywbem.Model.MofDecl
open Pywbem.Lemmas.MofValue Pywbem.Lemmas.MofDoc Pywbem.Lemmas.MofQual Pywbem.Lemmas.MofQualList
open Pywbem.Lemmas.MofInst Pywbem.Lemmas.MofClass

abbrev Str := List Nat

/-- the only exception is ValueError -/
def OnlyVE {α : Type} (r : Except PyExc α) : Prop := ∀ e, r = .error e → e = .valueError

theorem onlyVE_ok {α : Type} (a : α) : OnlyVE (.ok a : Except PyExc α) := by intro e h; simp at h

theorem value_ve (c : Codec) (L : CodecLaws c) (ty : CimType) (v : Value c) (hv : ValueOk c L ty v)
    (indent maxline : Nat) (hw : indent + 8 ≤ maxline) (lp : Int) (es : Nat) (avoid : Bool) :
    OnlyVE (valueToMof c ty v indent maxline lp es avoid) := by
  intro e hr
  cases v with
  | scalar s =>
    obtain ⟨i, hi, hni⟩ := scalarItem_ok c L ty s hv
    simp only [valueToMof, hi, valueTomof] at hr
    exact scalarTomof_err i hni indent maxline hw lp es avoid e hr
  | array xs =>
    obtain ⟨is, hi, hni⟩ := scalarItems_ok c L ty xs hv
    simp only [valueToMof, hi, valueTomof] at hr
    exact arrayTomof_err indent maxline hw es avoid is hni true lp e hr

theorem qualDecl_ve (c : Codec) (L : CodecLaws c) (qd : QualDecl c) (hok : QualDeclOk c L qd) (maxline : Nat)
    (hm : Generated.mofIndent + 8 ≤ maxline) : OnlyVE (qualDeclTomof c qd maxline) := by
  intro e hr
  unfold qualDeclTomof at hr
  cases hv : qd.value with
  | none => simp [hv] at hr
  | some v =>
    simp only [hv] at hr
    split at hr
    · rename_i e2 hvm
      simp only [Except.error.injEq] at hr
      subst hr
      exact value_ve c L qd.ty v (hok.valueOk v hv).1 _ maxline hm _ 3 false e2 hvm
    · simp at hr

theorem qualifier_ve (c : Codec) (L : CodecLaws c) (q : Qualifier c) (hv : ValueOk c L q.ty q.value)
    (indent maxline : Nat) (hm : indent + 8 ≤ maxline) (lp : Nat) : OnlyVE (qualifierTomof c q indent maxline lp) := by
  intro e hr
  unfold qualifierTomof at hr
  simp only [] at hr
  generalize hvm : valueToMof c q.ty q.value indent maxline _ 3 true = res at hr
  cases res with
  | error e2 =>
    simp only [Except.error.injEq] at hr
    subst hr
    exact value_ve c L q.ty q.value hv indent maxline hm _ 3 true e2 hvm
  | ok r => simp at hr

theorem quals_ve (c : Codec) (L : CodecLaws c) (qs : List (Qualifier c)) (hv : ∀ q ∈ qs, ValueOk c L q.ty q.value)
    (indent maxline : Nat) (hm : indent + 1 + Generated.mofIndent + 8 ≤ maxline) :
    OnlyVE (qualifiersTomof c qs indent maxline) := by
  have hl : ∀ (qs : List (Qualifier c)), (∀ q ∈ qs, ValueOk c L q.ty q.value) →
      OnlyVE (qualifiersTomofList c indent maxline qs) := by
    intro qs
    induction qs with
    | nil => intro _; exact onlyVE_ok _
    | cons q r ih =>
      intro h e hr
      simp only [qualifiersTomofList] at hr
      cases hq : qualifierTomof c q (indent + 1 + Generated.mofIndent) maxline (indent + 1) with
      | error e2 =>
        simp only [hq, Except.error.injEq] at hr
        subst hr
        exact qualifier_ve c L q (h q (by simp)) _ maxline hm _ e2 hq
      | ok t =>
        simp only [hq] at hr
        cases hrest : qualifiersTomofList c indent maxline r with
        | error e2 =>
          simp only [hrest, Except.map, Except.error.injEq] at hr
          subst hr
          exact ih (fun x hx => h x (by simp [hx])) e2 hrest
        | ok ts => simp [hrest, Except.map] at hr
  intro e hr
  unfold qualifiersTomof at hr
  split at hr
  · simp at hr
  · cases hq : qualifiersTomofList c indent maxline qs with
    | error e2 =>
      simp only [hq, Except.error.injEq] at hr
      subst hr
      exact hl qs hv e2 hq
    | ok ts => simp [hq] at hr

theorem mapTomof_ve {α : Type} (f : α → Except PyExc Str) : ∀ (xs : List α), (∀ x ∈ xs, OnlyVE (f x)) →
    OnlyVE (mapTomof f xs) := by
  intro xs
  induction xs with
  | nil => intro _; exact onlyVE_ok _
  | cons x r ih =>
    intro h e hr
    simp only [mapTomof] at hr
    cases hx : f x with
    | error e2 =>
      simp only [hx, Except.error.injEq] at hr
      subst hr
      exact h x (by simp) e2 hx
    | ok t =>
      simp only [hx] at hr
      cases hrest : mapTomof f r with
      | error e2 =>
        simp only [hrest, Except.map, Except.error.injEq] at hr
        subst hr
        exact ih (fun y hy => h y (by simp [hy])) e2 hrest
      | ok ts => simp [hrest, Except.map] at hr

theorem property_ve (c : Codec) (L : CodecLaws c) (p : Property c) (isInstance : Bool)
    (hq : ∀ q ∈ p.quals, ValueOk c L q.ty q.value)
    (hv : ∀ v, p.value = some v → ValueOk c L p.ty v) (indent maxline : Nat)
    (hm : indent + Generated.mofIndent + 1 + Generated.mofIndent + 8 ≤ maxline) :
    OnlyVE (propertyTomof c p isInstance indent maxline) := by
  intro e hr
  unfold propertyTomof at hr
  have hvo : ValueOk c L p.ty (p.value.getD (.scalar .null)) := by
    cases hx : p.value with
    | none => exact trivial
    | some v => exact hv v hx
  have hqv := quals_ve c L p.quals hq (indent + Generated.mofIndent) maxline hm
  -- the qualifier part
  cases hqt : (if isInstance then (.ok [] : Except PyExc Str) else qualifiersTomof c p.quals (indent + Generated.mofIndent) maxline) with
  | error e2 =>
    simp only [hqt, Except.error.injEq] at hr
    subst hr
    cases isInstance with
    | true => simp at hqt
    | false => exact hqv e2 (by simpa using hqt)
  | ok qtext =>
    simp only [hqt] at hr
    split at hr
    · generalize hvm : valueToMof c p.ty (p.value.getD (.scalar .null)) (indent + Generated.mofIndent) maxline _ 1 true = res at hr
      cases res with
      | error e2 =>
        simp only [Except.error.injEq] at hr
        subst hr
        exact value_ve c L p.ty _ hvo _ maxline (by omega) _ 1 true e2 hvm
      | ok r => simp at hr
    · simp at hr

theorem parameter_ve (c : Codec) (L : CodecLaws c) (p : Parameter c) (hq : ∀ q ∈ p.quals, ValueOk c L q.ty q.value)
    (indent maxline : Nat) (hm : indent + Generated.mofIndent + 1 + Generated.mofIndent + 8 ≤ maxline) :
    OnlyVE (parameterTomof c p indent maxline) := by
  intro e hr
  unfold parameterTomof at hr
  cases hqt : qualifiersTomof c p.quals (indent + Generated.mofIndent) maxline with
  | error e2 =>
    simp only [hqt, Except.error.injEq] at hr
    subst hr
    exact quals_ve c L p.quals hq _ maxline hm e2 hqt
  | ok t => simp [hqt] at hr

theorem method_ve (c : Codec) (L : CodecLaws c) (m : Method c) (hq : ∀ q ∈ m.quals, ValueOk c L q.ty q.value)
    (hp : ∀ p ∈ m.params, ∀ q ∈ p.quals, ValueOk c L q.ty q.value) (indent maxline : Nat)
    (hm : indent + Generated.mofIndent + Generated.mofIndent + 1 + Generated.mofIndent + 8 ≤ maxline) :
    OnlyVE (methodTomof c m indent maxline) := by
  intro e hr
  unfold methodTomof at hr
  cases hqt : qualifiersTomof c m.quals (indent + Generated.mofIndent) maxline with
  | error e2 =>
    simp only [hqt, Except.error.injEq] at hr
    subst hr
    exact quals_ve c L m.quals hq _ maxline (by omega) e2 hqt
  | ok t =>
    simp only [hqt] at hr
    split at hr
    · simp at hr
    · cases hps : mapTomof (fun p => parameterTomof c p (indent + Generated.mofIndent) maxline) m.params with
      | error e2 =>
        simp only [hps, Except.error.injEq] at hr
        subst hr
        exact mapTomof_ve _ m.params (fun p hpm => parameter_ve c L p (hp p hpm) _ maxline (by omega)) e2 hps
      | ok ts => simp [hps] at hr

theorem class_ve (c : Codec) (L : CodecLaws c) (decls : List (QualDecl c)) (cls : Class c)
    (hok : ClassOk c L decls cls) (maxline : Nat)
    (hm : Generated.mofIndent + Generated.mofIndent + Generated.mofIndent + 1 + Generated.mofIndent + 8 ≤ maxline) :
    OnlyVE (classTomof c cls maxline) := by
  intro e hr
  unfold classTomof at hr
  cases hq : qualifiersTomof c cls.quals Generated.mofIndent maxline with
  | error e2 =>
    simp only [hq, Except.error.injEq] at hr
    subst hr
    exact quals_ve c L cls.quals (fun q hqm => (hok.quals q hqm).valueOk) _ maxline (by omega) e2 hq
  | ok qt =>
    simp only [hq] at hr
    cases hp : mapTomof (fun p => propertyTomof c p false Generated.mofIndent maxline) cls.props with
    | error e2 =>
      simp only [hp, Except.error.injEq] at hr
      subst hr
      exact mapTomof_ve _ cls.props (fun p hpm => property_ve c L p false
        (fun q hqm => ((hok.props p hpm).quals q hqm).valueOk) (fun v hv => ((hok.props p hpm).valueOk v hv).1)
        _ maxline (by omega)) e2 hp
    | ok pts =>
      simp only [hp] at hr
      cases hms : mapTomof (fun m => methodTomof c m Generated.mofIndent maxline) cls.methods with
      | error e2 =>
        simp only [hms, Except.error.injEq] at hr
        subst hr
        exact mapTomof_ve _ cls.methods (fun m hmm => method_ve c L m
          (fun q hqm => ((hok.methods m hmm).quals q hqm).valueOk)
          (fun p hpm q hqm => (((hok.methods m hmm).params p hpm).quals q hqm).valueOk) _ maxline hm) e2 hms
      | ok mts => simp [hms] at hr

theorem instance_ve (c : Codec) (L : CodecLaws c) (cls : Class c) (inst : Instance c)
    (hok : InstanceOk c L cls inst) (maxline : Nat)
    (hm : Generated.mofIndent + Generated.mofIndent + 8 ≤ maxline) : OnlyVE (instanceTomof c inst maxline) := by
  intro e hr
  unfold instanceTomof at hr
  cases hp : mapTomof (fun p => propertyTomof c p true Generated.mofIndent maxline) inst.props with
  | error e2 =>
    simp only [hp, Except.error.injEq] at hr
    subst hr
    -- instance properties carry no qualifiers; the width needed is that of the value only
    have : ∀ p ∈ inst.props, OnlyVE (propertyTomof c p true Generated.mofIndent maxline) := by
      intro p hpm e3 hr3
      simp only [propertyTomof, if_true, Bool.or_true] at hr3
      have hvo : ValueOk c L p.ty (p.value.getD (.scalar .null)) := effValue_ok c L p (hok.props p hpm).valueOk
      generalize hvm : valueToMof c p.ty (p.value.getD (.scalar .null)) (Generated.mofIndent + Generated.mofIndent) maxline _ 1 true = res at hr3
      cases res with
      | error e4 =>
        simp only [Except.error.injEq] at hr3
        subst hr3
        exact value_ve c L p.ty _ hvo _ maxline hm _ 1 true e4 hvm
      | ok r => simp at hr3
    exact mapTomof_ve _ inst.props this e2 hp
  | ok pts => simp [hp] at hr

end Pywbem.Lemmas.MofTotal
