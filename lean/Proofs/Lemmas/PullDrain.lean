/-
C14 — whole-enumeration ("drain") lemmas: what a client loop `Open…; while not eos: Pull…`
observes and leaves behind.  Used by `C14_terminates*` in Proofs/Props/C14.lean.
-/
import Proofs.Lemmas.Pull

namespace Proofs.Pull
open Pywbem.Model.Pull Pywbem.Proto

/-- the objects carried by the successful responses of a trace, in order -/
def delivered : List Out → List Obj
  | [] => []
  | .batch b _ _ :: r => b ++ delivered r
  | .done :: r => delivered r
  | .err _ :: r => delivered r

/-- number of responses that reported end-of-sequence -/
def eosCount : List Out → Nat
  | [] => 0
  | .batch _ true _ :: r => eosCount r + 1
  | _ :: r => eosCount r

/-- the pull loop of a client: one `Pull…` of kind `k` on context `i` per entry of `ms` -/
def pulls (k : Kind) (i : Nat) (ms : List Int) : List Op :=
  ms.map (fun m => Op.pull k (some i) (some m))

theorem lookup_remove_self (cs : List Ctx) (i : Nat) : lookup (remove cs i) i = none := by
  simp only [lookup, remove]
  apply List.find?_eq_none.mpr
  intro y hy; simp at hy; simp [hy.2]

theorem lookup_replaceData_self {cs : List Ctx} {i : Nat} {c : Ctx} (d : List Obj)
    (h : lookup cs i = some c) : lookup (replaceData cs i d) i = some { c with data := d } := by
  induction cs with
  | nil => simp [lookup] at h
  | cons a cs ih =>
    by_cases e : a.id = i
    · have hb : (a.id == i) = true := by simp [e]
      have : a = c := by
        unfold lookup at h; rw [List.find?_cons_of_pos (by simpa using hb)] at h; exact Option.some.inj h
      subst this
      unfold lookup replaceData
      rw [List.map_cons, if_pos hb, List.find?_cons_of_pos (by simpa using hb)]
    · have hb : (a.id == i) = false := by simp [e]
      have h' : lookup cs i = some c := by
        unfold lookup at h ⊢; rw [List.find?_cons_of_neg (by simp [e])] at h; exact h
      have := ih h'
      unfold lookup replaceData at this ⊢
      rw [List.map_cons, if_neg (by simp [e]), List.find?_cons_of_neg (by simp [e])]
      exact this

theorem remove_replaceData (cs : List Ctx) (i : Nat) (d : List Obj) :
    remove (replaceData cs i d) i = remove cs i := by
  induction cs with
  | nil => rfl
  | cons a cs ih =>
    unfold remove replaceData at ih ⊢
    by_cases e : a.id = i
    · rw [List.map_cons, if_pos (by simp [e]), List.filter_cons_of_neg (by simp [e]),
        List.filter_cons_of_neg (by simp [e])]
      exact ih
    · rw [List.map_cons, if_neg (by simp [e]), List.filter_cons_of_pos (by simp [e]),
        List.filter_cons_of_pos (by simp [e]), ih]

/-- a pull on an absent context is refused and changes nothing, however often it is repeated -/
theorem run_pulls_absent (s : State) (k : Kind) (i : Nat) (ms : List Int)
    (h : lookup s.ctxs i = none) :
    (run s (pulls k i ms)).1 = s ∧ delivered (run s (pulls k i ms)).2 = [] ∧
      eosCount (run s (pulls k i ms)).2 = 0 := by
  induction ms with
  | nil => simp [pulls, run, delivered, eosCount]
  | cons m ms ih =>
    rcases stepPull_cases s k i (some m) with ⟨e, he⟩ | ⟨c, hp, _, _⟩ | ⟨c, hp, _, _⟩
    · simp only [pulls, List.map_cons, run, step, he]
      simp only [pulls] at ih
      exact ⟨ih.1, by simp [delivered, ih.2.1], by simp [eosCount, ih.2.2]⟩
    · have := hp.2.2.1; rw [h] at this; exact absurd this (by simp)
    · have := hp.2.2.1; rw [h] at this; exact absurd this (by simp)

theorem effMax_pos {m : Int} (h : 0 < m) : 0 < effMax (some m) := by
  simp [effMax]; omega

theorem badMax_pos {m : Int} (h : 0 < m) : badMax (some m) = false := by
  simp [badMax]; omega

/-- **The pull loop drains a session.**  On any state satisfying the invariant, for a live context
    `i` of kind `k` whose namespace exists, with pull operations enabled: any sequence of pulls with
    positive MaxObjectCount values that is at least as long as the remaining data
    delivers exactly the remaining data (in order, nothing twice), reports end-of-sequence exactly
    once, and leaves the server state equal to the start state without context `i`. -/
theorem drain (ms : List Int) : ∀ (s : State) (k : Kind) (i : Nat) (c : Ctx),
    Inv s → lookup s.ctxs i = some c → c.kind = k → c.ns ∈ s.nss → s.disabled = false →
    (∀ m ∈ ms, 0 < m) → c.data.length ≤ ms.length →
    (run s (pulls k i ms)).1 = { s with ctxs := remove s.ctxs i } ∧
    delivered (run s (pulls k i ms)).2 = c.data ∧
    eosCount (run s (pulls k i ms)).2 = 1 := by
  induction ms with
  | nil =>
    intro s k i c hs hl _ _ _ _ hlen
    have := hs.nonempty c (lookup_some hl).1
    simp at hlen; exact absurd hlen this
  | cons m ms ih =>
    intro s k i c hs hl hk hns hd hpos hlen
    have hm : 0 < m := hpos m (by simp)
    have hbm := badMax_pos hm
    by_cases hle : c.data.length ≤ effMax (some m)
    · have he : stepPull s k (some i) (some m) =
          ({ s with ctxs := remove s.ctxs i }, .batch c.data true none) := by
        simp [stepPull, hbm, hd, hl, hns, hk, hle]
      have habs := run_pulls_absent { s with ctxs := remove s.ctxs i } k i ms
        (lookup_remove_self s.ctxs i)
      simp only [pulls, List.map_cons, run, step, he]
      simp only [pulls] at habs
      refine ⟨habs.1, ?_, ?_⟩
      · simp [delivered, habs.2.1]
      · simp [eosCount, habs.2.2]
    · have he : stepPull s k (some i) (some m) =
          ({ s with ctxs := replaceData s.ctxs i (c.data.drop (effMax (some m))) },
           .batch (c.data.take (effMax (some m))) false (some i)) := by
        simp [stepPull, hbm, hd, hl, hns, hk, hle]
      have hs' : Inv { s with ctxs := replaceData s.ctxs i (c.data.drop (effMax (some m))) } := by
        have := inv_step (.pull k (some i) (some m)) hs
        simpa [step, he] using this
      have hl' := lookup_replaceData_self (c.data.drop (effMax (some m))) hl
      have hlen' : (c.data.drop (effMax (some m))).length ≤ ms.length := by
        have := effMax_pos hm
        simp [List.length_drop] at hlen ⊢; omega
      have := ih { s with ctxs := replaceData s.ctxs i (c.data.drop (effMax (some m))) } k i
        { c with data := c.data.drop (effMax (some m)) } hs' hl' hk hns hd
        (fun x hx => hpos x (by simp [hx])) hlen'
      simp only [pulls, List.map_cons, run, step, he]
      simp only [pulls] at this
      refine ⟨?_, ?_, ?_⟩
      · rw [this.1]; simp [remove_replaceData]
      · simp [delivered, this.2.1]
      · simp [eosCount, this.2.2]

/-- number of pulls in `ms` that ask for at least one object -/
def posCount (ms : List Int) : Nat := (ms.filter (fun m => decide (0 < m))).length

/-- `drain` with keep-alive pulls (MaxObjectCount = 0, DSP0200) interspersed anywhere: they deliver
    nothing and do not end the session; once enough positive pulls have happened the session is
    drained exactly. -/
theorem drainKA (ms : List Int) : ∀ (s : State) (k : Kind) (i : Nat) (c : Ctx),
    Inv s → lookup s.ctxs i = some c → c.kind = k → c.ns ∈ s.nss → s.disabled = false →
    (∀ m ∈ ms, 0 ≤ m) → c.data.length ≤ posCount ms →
    (run s (pulls k i ms)).1 = { s with ctxs := remove s.ctxs i } ∧
    delivered (run s (pulls k i ms)).2 = c.data ∧
    eosCount (run s (pulls k i ms)).2 = 1 := by
  induction ms with
  | nil =>
    intro s k i c hs hl _ _ _ _ hlen
    have := hs.nonempty c (lookup_some hl).1
    simp [posCount] at hlen; exact absurd hlen this
  | cons m ms ih =>
    intro s k i c hs hl hk hns hd hpos hlen
    have hm : 0 ≤ m := hpos m (by simp)
    have hbm : badMax (some m) = false := by simp [badMax]; omega
    by_cases hle : c.data.length ≤ effMax (some m)
    · have he : stepPull s k (some i) (some m) =
          ({ s with ctxs := remove s.ctxs i }, .batch c.data true none) := by
        simp [stepPull, hbm, hd, hl, hns, hk, hle]
      have habs := run_pulls_absent { s with ctxs := remove s.ctxs i } k i ms
        (lookup_remove_self s.ctxs i)
      simp only [pulls, List.map_cons, run, step, he]
      simp only [pulls] at habs
      refine ⟨habs.1, ?_, ?_⟩
      · simp [delivered, habs.2.1]
      · simp [eosCount, habs.2.2]
    · have he : stepPull s k (some i) (some m) =
          ({ s with ctxs := replaceData s.ctxs i (c.data.drop (effMax (some m))) },
           .batch (c.data.take (effMax (some m))) false (some i)) := by
        simp [stepPull, hbm, hd, hl, hns, hk, hle]
      have hs' : Inv { s with ctxs := replaceData s.ctxs i (c.data.drop (effMax (some m))) } := by
        have := inv_step (.pull k (some i) (some m)) hs
        simpa [step, he] using this
      have hl' := lookup_replaceData_self (c.data.drop (effMax (some m))) hl
      have hlen' : (c.data.drop (effMax (some m))).length ≤ posCount ms := by
        by_cases h0 : 0 < m
        · have h1 : posCount (m :: ms) = posCount ms + 1 := by simp [posCount, List.filter, h0]
          have := effMax_pos h0
          rw [h1] at hlen; simp [List.length_drop]; omega
        · have h1 : posCount (m :: ms) = posCount ms := by simp [posCount, List.filter, h0]
          rw [h1] at hlen; simp [List.length_drop]; omega
      have := ih { s with ctxs := replaceData s.ctxs i (c.data.drop (effMax (some m))) } k i
        { c with data := c.data.drop (effMax (some m)) } hs' hl' hk hns hd
        (fun x hx => hpos x (by simp [hx])) hlen'
      simp only [pulls, List.map_cons, run, step, he]
      simp only [pulls] at this
      refine ⟨?_, ?_, ?_⟩
      · rw [this.1]; simp [remove_replaceData]
      · simp [delivered, this.2.1]
      · simp [eosCount, this.2.2]

theorem lookup_remove_other (cs : List Ctx) {i j : Nat} (h : j ≠ i) :
    lookup (remove cs i) j = lookup cs j := by
  induction cs with
  | nil => rfl
  | cons a cs ih =>
    unfold lookup remove at ih ⊢
    by_cases e : a.id = i
    · rw [List.filter_cons_of_neg (by simp [e]), ih, List.find?_cons_of_neg (by simp [e]; omega)]
    · rw [List.filter_cons_of_pos (by simp [e])]
      by_cases e2 : a.id = j
      · rw [List.find?_cons_of_pos (by simp [e2]), List.find?_cons_of_pos (by simp [e2])]
      · rw [List.find?_cons_of_neg (by simp [e2]), List.find?_cons_of_neg (by simp [e2]), ih]

/-- removing the id that was just appended (all other ids are smaller) restores the table -/
theorem remove_append_fresh {cs : List Ctx} {c : Ctx} (h : ∀ x ∈ cs, x.id < c.id) :
    remove (cs ++ [c]) c.id = cs := by
  simp only [remove, List.filter_append]
  have h1 : cs.filter (fun x => x.id != c.id) = cs := by
    apply List.filter_eq_self.mpr
    intro x hx; have := h x hx; simp; omega
  simp [h1, List.filter]

theorem lookup_none_of_below {cs : List Ctx} {n : Nat} (h : ∀ c ∈ cs, c.id < n) : lookup cs n = none := by
  unfold lookup
  apply List.find?_eq_none.mpr
  intro c hc; have := h c hc; simp; omega

theorem lookup_append_fresh {cs : List Ctx} {c : Ctx} (h : ∀ x ∈ cs, x.id < c.id) :
    lookup (cs ++ [c]) c.id = some c := by
  unfold lookup
  rw [List.find?_append]
  have : List.find? (fun x => x.id == c.id) cs = none := by
    apply List.find?_eq_none.mpr
    intro x hx; have := h x hx; simp; omega
  simp [this]

/-- **A whole enumeration.**  `Open…` (any accepted parameter set, any MaxObjectCount ≥ 0 or None)
    followed by a pull loop with positive MaxObjectCount values that is long enough: the responses
    carry exactly the result set of the traditional operation, end-of-sequence is reported exactly
    once, and the server's context table is what it was before the Open. -/
theorem whole_enumeration (s : State) (hs : Inv s) (p : OpenParams) (k : Kind) (ns : Nat)
    (objs : List Obj) (max : Option Int) (ms : List Int)
    (hbm : badMax max = false) (hbt : badTimeout p.timeout = false) (hd : s.disabled = false)
    (hns : ns ∈ s.nss) (hp : paramErr p = none)
    (hpos : ∀ m ∈ ms, 0 < m) (hlen : objs.length ≤ ms.length) :
    (run s (Op.open p k ns objs max :: pulls k s.nextId ms)).1.ctxs = s.ctxs ∧
    delivered (run s (Op.open p k ns objs max :: pulls k s.nextId ms)).2 = objs ∧
    eosCount (run s (Op.open p k ns objs max :: pulls k s.nextId ms)).2 = 1 := by
  by_cases hle : objs.length ≤ effMax max
  · have he : stepOpen s p k ns objs max = (s, .batch objs true none) := by
      simp [stepOpen, hbm, hbt, hd, hns, hp, hle]
    have habs := run_pulls_absent s k s.nextId ms (lookup_none_of_below hs.below)
    simp only [run, step, he]
    exact ⟨by rw [habs.1], by simp [delivered, habs.2.1], by simp [eosCount, habs.2.2]⟩
  · let c : Ctx := { id := s.nextId, kind := k, ns := ns, data := objs.drop (effMax max) }
    have he : stepOpen s p k ns objs max =
        ({ s with ctxs := s.ctxs ++ [c], nextId := s.nextId + 1 },
         .batch (objs.take (effMax max)) false (some s.nextId)) := by
      simp [stepOpen, hbm, hbt, hd, hns, hp, hle, c]
    have hs' : Inv { s with ctxs := s.ctxs ++ [c], nextId := s.nextId + 1 } := by
      have := inv_step (.open p k ns objs max) hs
      simpa [step, he] using this
    have hl' : lookup (s.ctxs ++ [c]) s.nextId = some c :=
      lookup_append_fresh (c := c) (fun x hx => hs.below x hx)
    have hlen' : c.data.length ≤ ms.length := by
      simp [c, List.length_drop]; omega
    have := drain ms { s with ctxs := s.ctxs ++ [c], nextId := s.nextId + 1 } k s.nextId c
      hs' hl' rfl hns hd hpos hlen'
    simp only [run, step, he]
    refine ⟨?_, ?_, ?_⟩
    · rw [this.1]
      exact remove_append_fresh (c := c) (fun x hx => hs.below x hx)
    · simp [delivered, this.2.1, c]
    · simp [eosCount, this.2.2]

end Proofs.Pull
