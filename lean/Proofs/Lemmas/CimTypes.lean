/-
Helper lemmas for the integer / real / cimvalue parts of C06 (Model/CimTypes.lean, Model/CimValue.lean).
-/
import Pywbem.Model.CimValue
import Proofs.Lemmas.DateTime

namespace Proofs.CimTypes
open Pywbem.Proto Pywbem.Model.CimTypes Pywbem.Model.CimValue Pywbem.Model.DateTime

/-! ### which exceptions the integer constructor can raise -/

/-- TypeError / ValueError / OverflowError -/
def IntExc (e : PyExc) : Prop := e = .typeError ∨ e = .valueError ∨ e = .overflowError

theorem longFromString_err (sp : Nat → Bool) (s : List Nat) (b : Nat) (e : PyExc)
    (h : longFromString sp s b = .error e) : e = .valueError := by
  unfold longFromString finishScan at h
  simp only at h
  repeat' split at h
  all_goals first | (simp at h; done) | (simp at h; exact h.symm) | skip

theorem intOfStr_err (s : List Char) (b : Nat) (e : PyExc) (h : intOfStr s b = .error e) : e = .valueError := by
  unfold intOfStr at h
  split at h
  · simp at h; exact h.symm
  · exact longFromString_err _ _ _ _ h

theorem intOfBytes_err (s : List Nat) (b : Nat) (e : PyExc) (h : intOfBytes s b = .error e) : e = .valueError := by
  unfold intOfBytes at h
  split at h
  · simp at h; exact h.symm
  · exact longFromString_err _ _ _ _ h

theorem f64Trunc_err (bits : Nat) (e : PyExc) (h : f64Trunc bits = .error e) : e = .overflowError ∨ e = .valueError := by
  unfold f64Trunc at h
  simp only at h
  repeat' split at h
  all_goals first | (simp at h; done) | (simp at h; simp [← h]) | skip

theorem intOf1_err (a : Arg) (e : PyExc) (h : intOf1 a = .error e) : IntExc e := by
  unfold IntExc
  cases a <;> simp [intOf1] at h
  · rcases f64Trunc_err _ _ h with h | h <;> simp [h]
  · simp [intOfStr_err _ _ _ h]
  · simp [intOfBytes_err _ _ _ h]
  · simp [← h]
  · simp [← h]

theorem baseOf_err (a : Arg) (e : PyExc) (h : baseOf a = .error e) : e = .typeError ∨ e = .valueError := by
  cases a <;> simp only [baseOf] at h
  case int v => split at h <;> simp at h; simp [← h]
  case bool b => split at h <;> simp at h; simp [← h]
  all_goals (simp at h; simp [← h])

theorem withBase_err (x b : Arg) (e : PyExc) (h : pyInt.withBase x b = .error e) : IntExc e := by
  unfold IntExc
  unfold pyInt.withBase at h
  cases hb : baseOf b with
  | error e' =>
    simp [hb, bind, Except.bind] at h
    subst h
    rcases baseOf_err _ _ hb with h | h <;> simp [h]
  | ok base =>
    simp [hb, bind, Except.bind] at h
    cases x <;> simp at h
    all_goals first
      | (simp [intOfStr_err _ _ _ h]; done)
      | (simp [intOfBytes_err _ _ _ h]; done)
      | simp [← h]

theorem pyInt_err (pos : List Arg) (kb : Option Arg) (e : PyExc) (h : pyInt pos kb = .error e) : IntExc e := by
  unfold pyInt at h
  split at h
  all_goals first
    | (simp at h; done)
    | exact intOf1_err _ _ h
    | exact withBase_err _ _ _ h
    | (simp at h; simp [IntExc, ← h])

theorem effArgs_err (c : Call) (e : PyExc) (h : effArgs c = .error e) : e = .typeError := by
  unfold effArgs at h
  repeat' split at h
  all_goals first | (simp at h; done) | (simp at h; exact h.symm)

/-- the constructor raises nothing but TypeError / ValueError / OverflowError -/
theorem mkInt_err (en : Bool) (t : IntTy) (c : Call) (e : PyExc) (h : mkInt en t c = .error e) : IntExc e := by
  unfold mkInt at h
  cases he : effArgs c with
  | error e' =>
    simp [he, bind, Except.bind] at h; subst h
    simp [IntExc, effArgs_err _ _ he]
  | ok args =>
    cases hv : pyInt args c.kwBase with
    | error e' =>
      simp [he, hv, bind, Except.bind] at h; subst h
      exact pyInt_err _ _ _ hv
    | ok v =>
      simp [he, hv, bind, Except.bind] at h
      split at h
      · simp at h; simp [IntExc, ← h]
      · simp at h

/-- accepted ⇒ of the requested type and within the limits of the class -/
theorem mkInt_range (t : IntTy) (c : Call) (x : CimInt) (h : mkInt true t c = .ok x) :
    x.ty = t ∧ t.lo ≤ x.val ∧ x.val ≤ t.hi := by
  unfold mkInt at h
  cases he : effArgs c with
  | error e => simp [he, bind, Except.bind] at h
  | ok args =>
    cases hv : pyInt args c.kwBase with
    | error e => simp [he, hv, bind, Except.bind] at h
    | ok v =>
      simp [he, hv, bind, Except.bind] at h
      split at h
      · simp at h
      · rename_i hc
        simp at h
        subst h
        simp at hc
        simp
        omega

/-- the object holds exactly what `int(*args, **kwargs)` evaluates to -/
theorem mkInt_value (en : Bool) (t : IntTy) (c : Call) (x : CimInt) (h : mkInt en t c = .ok x) :
    ∃ args, effArgs c = .ok args ∧ pyInt args c.kwBase = .ok x.val := by
  unfold mkInt at h
  cases he : effArgs c with
  | error e => simp [he, bind, Except.bind] at h
  | ok args =>
    cases hv : pyInt args c.kwBase with
    | error e => simp [he, hv, bind, Except.bind] at h
    | ok v =>
      simp [he, hv, bind, Except.bind] at h
      split at h
      · simp at h
      · simp at h; subst h; exact ⟨args, rfl, hv⟩

theorem limits_spec (t : IntTy) : t.lo = t.specLo ∧ t.hi = t.specHi := by
  cases t <;> decide

/-! ### CIMDateTime constructor: only ValueError / TypeError -/

theorem decNat_err (s : List Char) (e : PyExc) (h : decNat s = .error e) : e = .valueError := by
  unfold decNat at h; split at h <;> simp at h; exact h.symm

theorem starCheck_err (s : List Char) (e : PyExc) (h : starCheck s = .error e) : e = .valueError := by
  unfold starCheck at h
  repeat' split at h
  all_goals first | (simp at h; done) | (simp at h; exact h.symm)

theorem toIntField_err (f : List Char) (m : Nat) (r : Option Char) (e : PyExc)
    (h : toIntField f m r = .error e) : e = .valueError := by
  unfold toIntField at h
  repeat' split at h
  all_goals first | (simp at h; done) | (simp at h; exact h.symm) | exact decNat_err _ _ h

macro "dt_err_close" h:ident : tactic =>
  `(tactic| first
    | (simp at $h:ident; done)
    | (simp at $h:ident; exact Eq.symm $h)
    | (simp at $h:ident; subst $h; rename_i h1;
       first | exact decNat_err _ _ h1 | exact starCheck_err _ _ h1 | exact toIntField_err _ _ _ _ h1))

theorem parseTs_err (s : List Char) (e : PyExc) (h : parseTs s = .error e) : e = .valueError := by
  simp only [parseTs, bind, Except.bind] at h
  repeat' split at h
  all_goals dt_err_close h

theorem parseIv_err (s : List Char) (e : PyExc) (h : parseIv s = .error e) : e = .valueError := by
  simp only [parseIv, bind, Except.bind] at h
  repeat' split at h
  all_goals dt_err_close h

theorem parse_err (s : List Char) (e : PyExc) (h : parse s = .error e) : e = .valueError := by
  unfold parse at h
  split at h
  · exact parseTs_err _ _ h
  · split at h
    · exact parseIv_err _ _ h
    · simp at h; exact h.symm

theorem construct_err (a : DtArg) (e : PyExc) (h : construct a = .error e) : e = .valueError ∨ e = .typeError := by
  cases a <;> simp [construct] at h
  · exact Or.inl (parse_err _ _ h)
  · exact Or.inr h.symm

/-! ### cimvalue(): exceptions and typed storage -/

/-- TypeError / ValueError -/
def TV (e : PyExc) : Prop := e = .typeError ∨ e = .valueError

theorem ovf_err {α} (r : Except PyExc α) (e : PyExc) (hr : ∀ e', r = .error e' → IntExc e')
    (h : ovfToValue r = .error e) : TV e := by
  unfold ovfToValue at h
  split at h
  · simp at h; simp [TV, ← h]
  · rename_i hne
    rcases hr e h with h1 | h1 | h1
    · simp [TV, h1]
    · simp [TV, h1]
    · subst h1; exact absurd h (by intro h2; exact hne h2)

theorem intToF64_err (v : Int) (e : PyExc) (h : intToF64 v = .error e) : e = .overflowError := by
  unfold intToF64 at h; split at h <;> simp at h; exact h.symm

theorem pyFloat_err (env : Env) (v : Sc) (e : PyExc) (h : pyFloat env v = .error e) : IntExc e := by
  unfold IntExc
  cases v <;> simp only [pyFloat] at h
  all_goals first
    | (simp at h; done)
    | (have := intToF64_err _ _ h; simp [this]; done)
    | (split at h <;> simp at h; simp [← h]; done)
    | (simp at h; simp [← h])

theorem conv_err (v : Sc) (ty : IntTy) (e : PyExc) (h : cimvalueSc.conv v ty = .error e) : TV e := by
  unfold cimvalueSc.conv at h
  apply ovf_err _ _ _ h
  intro e' he'
  cases hm : mkIntCfg ty { pos := [toArg v] } with
  | ok x => simp [hm, Except.map] at he'
  | error e'' =>
    simp [hm, Except.map] at he'; subst he'
    exact mkInt_err _ _ _ _ hm

theorem toDtArg_err (env : Env) (v : Sc) (e : PyExc) (h : toDtArg env v = .error e) : e = .valueError := by
  cases v <;> simp only [toDtArg] at h
  all_goals first | (simp at h; done) | (split at h <;> simp at h; exact h.symm)

theorem dtconv_err (env : Env) (v : Sc) (e : PyExc)
    (h : ovfToValue (do let a ← toDtArg env v; let x ← construct a; pure (Sc.cimDT x)) = .error e) : TV e := by
  apply ovf_err _ _ _ h
  intro e' he'
  cases ha : toDtArg env v with
  | error e1 =>
    simp [ha, bind, Except.bind] at he'; subst he'
    simp [IntExc, toDtArg_err _ _ _ ha]
  | ok a =>
    cases hc : construct a with
    | error e2 =>
      simp [ha, hc, bind, Except.bind] at he'; subst he'
      rcases construct_err _ _ hc with h1 | h1 <;> simp [IntExc, h1]
    | ok x => simp [ha, hc, bind, Except.bind, pure, Except.pure] at he'

theorem realconv_err (env : Env) (v : Sc) (f : Nat → Sc) (e : PyExc)
    (h : ovfToValue ((pyFloat env v).map f) = .error e) : TV e := by
  apply ovf_err _ _ _ h
  intro e' he'
  cases hp : pyFloat env v with
  | ok b => simp [hp, Except.map] at he'
  | error e1 =>
    simp [hp, Except.map] at he'; subst he'
    exact pyFloat_err _ _ _ hp

theorem cimvalueSc_err (env : Env) (v : Sc) (t : Ty) (e : PyExc) (h : cimvalueSc env v t = .error e) : TV e := by
  cases t <;> cases v <;> simp only [cimvalueSc] at h
  all_goals first
    | (simp at h; done)
    | (simp at h; simp [TV, ← h]; done)
    | exact conv_err _ _ _ h
    | exact dtconv_err _ _ _ h
    | exact realconv_err _ _ _ _ h
    | (split at h <;> first | (simp at h; done) | (simp at h; simp [TV, ← h]; done) | exact conv_err _ _ _ h)
    | skip


theorem cimtypeSc_err (v : Sc) (e : PyExc) (h : cimtypeSc v = .error e) : e = .typeError := by
  cases v <;> simp [cimtypeSc] at h <;> exact h.symm

theorem cimtypeVal_err (v : Val) (e : PyExc) (h : cimtypeVal v = .error e) : TV e := by
  unfold cimtypeVal at h
  split at h
  · simp [TV, cimtypeSc_err _ _ h]
  · simp at h; simp [TV, ← h]
  · simp [TV, cimtypeSc_err _ _ h]

theorem mapM_err {α β} (f : α → Except PyExc β) (l : List α) (e : PyExc) (h : l.mapM f = .error e) :
    ∃ x ∈ l, f x = .error e := by
  induction l with
  | nil => simp [pure, Except.pure] at h
  | cons a l ih =>
    simp only [List.mapM_cons, bind, Except.bind] at h
    split at h
    · rename_i e' he'; simp at h; subst h; exact ⟨a, by simp, he'⟩
    · split at h
      · rename_i e' he'; simp at h; subst h
        obtain ⟨x, hx, hfx⟩ := ih he'
        exact ⟨x, by simp [hx], hfx⟩
      · simp [pure, Except.pure] at h

theorem mapM_all {α β} (f : α → Except PyExc β) (Q : β → Bool) (l : List α) (r : List β)
    (hf : ∀ a b, a ∈ l → f a = .ok b → Q b = true) (h : l.mapM f = .ok r) : r.all Q = true := by
  induction l generalizing r with
  | nil => simp [pure, Except.pure] at h; subst h; simp
  | cons a l ih =>
    simp only [List.mapM_cons, bind, Except.bind] at h
    split at h
    · simp at h
    · rename_i b hb
      split at h
      · simp at h
      · rename_i bs hbs
        simp [pure, Except.pure] at h; subst h
        simp only [List.all_cons, Bool.and_eq_true]
        exact ⟨hf a b (by simp) hb, ih _ (fun a' b' ha' => hf a' b' (by simp [ha'])) hbs⟩

/-- cimvalue() raises nothing but TypeError / ValueError -/
theorem cimvalue_err (env : Env) (v : Val) (t : Option Ty) (e : PyExc) (h : cimvalue env v t = .error e) : TV e := by
  unfold cimvalue at h
  split at h
  · simp at h
  · cases t with
    | none =>
      cases hc : cimtypeVal v with
      | error e' => simp [hc, bind, Except.bind] at h; subst h; exact cimtypeVal_err _ _ hc
      | ok ty =>
        simp only [hc, bind, Except.bind] at h
        cases v with
        | sc s =>
          simp only at h
          cases hs : cimvalueSc env s ty with
          | error e' => simp [hs] at h; subst h; exact cimvalueSc_err _ _ _ _ hs
          | ok r => simp [hs, pure, Except.pure] at h
        | list l =>
          simp only at h
          cases hs : l.mapM (fun s => cimvalueSc env s ty) with
          | error e' =>
            simp [hs] at h; subst h
            obtain ⟨x, _, hx⟩ := mapM_err _ _ _ hs
            exact cimvalueSc_err _ _ _ _ hx
          | ok r => simp [hs, pure, Except.pure] at h
    | some ty =>
      simp only [bind, Except.bind, pure, Except.pure] at h
      cases v with
      | sc s =>
        simp only at h
        cases hs : cimvalueSc env s ty with
        | error e' => simp [hs] at h; subst h; exact cimvalueSc_err _ _ _ _ hs
        | ok r => simp [hs] at h
      | list l =>
        simp only at h
        cases hs : l.mapM (fun s => cimvalueSc env s ty) with
        | error e' =>
          simp [hs] at h; subst h
          obtain ⟨x, _, hx⟩ := mapM_err _ _ _ hs
          exact cimvalueSc_err _ _ _ _ hx
        | ok r => simp [hs] at h

theorem enforce_on : Pywbem.Generated.enforceIntegerRange = true := by decide

theorem conv_typed (v : Sc) (ty : IntTy) (r : Sc) (h : cimvalueSc.conv v ty = .ok r) : hasTypeSc r (.int ty) = true := by
  unfold cimvalueSc.conv at h
  cases hm : mkIntCfg ty { pos := [toArg v] } with
  | error e =>
    simp only [hm, Except.map] at h
    unfold ovfToValue at h; split at h <;> simp at h
  | ok x =>
    simp [hm, Except.map, ovfToValue] at h
    subst h
    have := mkInt_range ty _ x (by simpa [mkIntCfg, enforce_on] using hm)
    simp [hasTypeSc, this]

theorem ovf_ok {α} (r : Except PyExc α) (a : α) (h : ovfToValue r = .ok a) : r = .ok a := by
  unfold ovfToValue at h; split at h
  · simp at h
  · exact h

theorem dtconv_typed (env : Env) (v : Sc) (r : Sc)
    (h : ovfToValue (do let a ← toDtArg env v; let x ← construct a; pure (Sc.cimDT x)) = .ok r) :
    hasTypeSc r .datetime = true := by
  have h2 := ovf_ok _ _ h
  cases ha : toDtArg env v with
  | error e => simp [ha, bind, Except.bind] at h2
  | ok a =>
    cases hc : construct a with
    | error e => simp [ha, hc, bind, Except.bind] at h2
    | ok x => simp [ha, hc, bind, Except.bind, pure, Except.pure] at h2; subst h2; simp [hasTypeSc]

theorem realconv_typed (env : Env) (v : Sc) (f : Nat → Sc) (r : Sc)
    (h : ovfToValue ((pyFloat env v).map f) = .ok r) : ∃ b, r = f b := by
  have h2 := ovf_ok _ _ h
  cases hp : pyFloat env v with
  | error e => simp [hp, Except.map] at h2
  | ok b => simp [hp, Except.map] at h2; exact ⟨b, h2.symm⟩

/-- typed storage, everywhere except the pass-through class `passesUntyped` (finding C06-KF1) -/
theorem cimvalueSc_typed (env : Env) (v : Sc) (t : Ty) (r : Sc) (h : cimvalueSc env v t = .ok r)
    (hx : passesUntyped v t = false) (hi : scInv v = true) : hasTypeSc r t = true := by
  cases t <;> cases v <;> simp only [cimvalueSc] at h
  all_goals first
    | (simp at h; done)
    | (simp at h; subst h; simp [hasTypeSc]; done)
    | (simp [passesUntyped] at hx; done)
    | exact conv_typed _ _ _ h
    | exact dtconv_typed _ _ _ h
    | (split at h <;> simp at h <;> subst h <;> simp [hasTypeSc]; done)
    | (split at h <;> first | (simp at h; subst h; simp [hasTypeSc]; done) | exact conv_typed _ _ _ h)
    | (obtain ⟨b, rfl⟩ := realconv_typed _ _ _ _ h; simp [hasTypeSc]; done)
    | (split at h
       · simp at h; subst h; rename_i heq; subst heq; simpa [hasTypeSc, scInv] using hi
       · exact conv_typed _ _ _ h)
    | skip

/-! ### reals: the text fixup on G-shaped text -/

theorem isDig_ne {c : Char} (h : isDig c = true) : c ≠ 'E' ∧ c ≠ '.' ∧ c ≠ '-' ∧ c ≠ '+' ∧ c ≠ 'N' ∧ c ≠ 'I' := by
  simp [isDig] at h
  refine ⟨?_, ?_, ?_, ?_, ?_, ?_⟩ <;> (intro hc; subst hc; revert h; decide)

theorem splitE_ne_nil (l : List Char) : splitE l ≠ [] := by
  cases l with
  | nil => simp [splitE]
  | cons c cs =>
    simp only [splitE]
    split
    · simp
    · split <;> simp

theorem splitE_noE (l : List Char) (h : 'E' ∉ l) : splitE l = [l] := by
  induction l with
  | nil => simp [splitE]
  | cons c cs ih =>
    simp at h
    simp [splitE, ih h.2]
    intro hc; exact absurd hc.symm h.1

theorem splitE_append (pre rest : List Char) (h : 'E' ∉ pre) : splitE (pre ++ 'E' :: rest) = pre :: splitE rest := by
  induction pre with
  | nil =>
    simp only [List.nil_append, splitE]
    cases hr : splitE rest with
    | nil => exact absurd hr (splitE_ne_nil rest)
    | cons p ps => simp
  | cons c cs ih =>
    simp at h
    simp only [List.cons_append, splitE, ih h.2]
    have : (c == 'E') = false := by simp; intro hc; exact h.1 hc.symm
    simp [this]

theorem all_isDig_not_mem {l : List Char} (h : l.all isDig = true) :
    'E' ∉ l ∧ '.' ∉ l := by
  simp at h
  constructor <;> intro hm
  · exact (isDig_ne (h _ hm)).1 rfl
  · exact (isDig_ne (h _ hm)).2.1 rfl

theorem GText.ok_parts {g : GText} (h : g.ok = true) :
    g.ip ≠ [] ∧ g.ip.all isDig = true ∧ g.frac.all isDig = true ∧
    (∀ s ds, g.exp = some (s, ds) → ds.all isDig = true) := by
  simp only [GText.ok, Bool.and_eq_true] at h
  obtain ⟨⟨⟨h1, h2⟩, h3⟩, h4⟩ := h
  refine ⟨by simpa using h1, h2, h3, ?_⟩
  intro s ds he
  simp [he] at h4
  simpa using h4.2

/-- the sign-and-integer-part prefix of a G text -/
def gpre (g : GText) : List Char := (if g.neg then ['-'] else []) ++ g.ip

theorem pre_noE {g : GText} (h : g.ok = true) : 'E' ∉ gpre g ∧ '.' ∉ gpre g := by
  obtain ⟨_, h2, _, _⟩ := GText.ok_parts h
  have := all_isDig_not_mem h2
  unfold gpre
  cases g.neg <;> simp [this]

theorem expText_noDot {g : GText} (h : g.ok = true) : '.' ∉ g.expText := by
  obtain ⟨_, _, _, h4⟩ := GText.ok_parts h
  unfold GText.expText
  split
  · simp
  · rename_i s ds he
    have := all_isDig_not_mem (h4 s ds he)
    cases s <;> simp [this]

theorem expTail_noE {g : GText} (h : g.ok = true) (s : Bool) (ds : List Char) (he : g.exp = some (s, ds)) :
    'E' ∉ ((if s then '-' else '+') :: ds) := by
  obtain ⟨_, _, _, h4⟩ := GText.ok_parts h
  have := all_isDig_not_mem (h4 s ds he)
  cases s <;> simp [this]

theorem render_ne_special {g : GText} (h : g.ok = true) :
    g.render ≠ strNAN ∧ g.render ≠ strINF ∧ g.render ≠ strNegINF := by
  obtain ⟨h1, h2, _, _⟩ := GText.ok_parts h
  obtain ⟨c, cs, hip⟩ := List.exists_cons_of_ne_nil h1
  have hc : isDig c = true := by
    have := h2; rw [hip] at this; simp at this; exact this.1
  have hne := isDig_ne hc
  unfold GText.render
  rw [hip]
  obtain ⟨hE, hD, hM, hP, hN, hI⟩ := hne
  cases g.neg <;> simp [strNAN, strINF, strNegINF, hN, hI, hM]

theorem render_eq (g : GText) :
    g.render = gpre g ++ (if g.frac.isEmpty then [] else '.' :: g.frac) ++ g.expText := by
  simp [GText.render, gpre]

/-- the concrete fixup does exactly "add .0 when there is no fraction" on every G-shaped text -/
theorem fixup_render (g : GText) (h : g.ok = true) : fixup g.render = g.withFraction.render := by
  obtain ⟨hn1, hn2, hn3⟩ := render_ne_special h
  obtain ⟨hpE, hpD⟩ := pre_noE h
  have hxD := expText_noDot h
  have e1 : (g.render == strNAN) = false := by simpa using hn1
  have e2 : (g.render == strINF) = false := by simpa using hn2
  have e3 : (g.render == strNegINF) = false := by simpa using hn3
  unfold fixup
  simp only [e1, e2, e3, Bool.false_eq_true, if_false, Bool.or_self]
  by_cases hf : g.frac = []
  · -- no fraction: no '.', split at the (only) 'E'
    have hdot : g.render.contains '.' = false := by
      rw [render_eq]; simp [hf, hpD, hxD]
    simp only [hdot, Bool.not_false, if_true]
    have hw : g.withFraction = { g with frac := ['0'] } := by simp [GText.withFraction, hf]
    rw [hw, render_eq, render_eq]
    simp only [hf, List.isEmpty_nil, if_true, List.append_nil]
    have hpre : gpre ({ g with frac := ['0'] } : GText) = gpre g := rfl
    have hexp : ({ g with frac := ['0'] } : GText).expText = g.expText := rfl
    rw [hpre, hexp]
    cases hx : g.exp with
    | none =>
      have : g.expText = [] := by simp [GText.expText, hx]
      simp only [this, List.append_nil]
      rw [splitE_noE _ hpE]
      simp [joinE]
    | some sd =>
      obtain ⟨s, ds⟩ := sd
      have ht := expTail_noE h s ds hx
      have : g.expText = 'E' :: (if s then '-' else '+') :: ds := by simp [GText.expText, hx]
      rw [this, splitE_append _ _ hpE, splitE_noE _ ht]
      simp [joinE]
  · have hdot : g.render.contains '.' = true := by
      rw [render_eq]; simp [hf]
    have hmem : '.' ∈ g.render := by simpa using hdot
    simp [GText.withFraction, hf, hmem]

theorem withFraction_isRealValue (g : GText) (h : g.ok = true) : g.withFraction.isRealValue = true := by
  unfold GText.withFraction GText.isRealValue
  split
  · simp only [GText.ok, Bool.and_eq_true] at h ⊢
    obtain ⟨⟨⟨h1, h2⟩, h3⟩, h4⟩ := h
    refine ⟨⟨⟨⟨h1, h2⟩, by decide⟩, h4⟩, by simp⟩
  · rename_i hf; simp [h, hf]

/-- real round trip under the RealCodec hypotheses -/
theorem real_roundtrip (R : RealCodec) (x : Nat) (hx : R.finite x = true) : R.parse (fixup (R.fmt x)) = some x := by
  obtain ⟨g, hg, hfmt⟩ := R.shape x hx
  rw [hfmt, fixup_render g hg]
  unfold GText.withFraction
  split
  · rename_i hf
    rw [R.dot0 g hg (by simpa using hf), ← hfmt]; exact R.rt x hx
  · rw [← hfmt]; exact R.rt x hx

end Proofs.CimTypes
