/-
C01 — second trip, strong form: the object that came back is itself sendable (with the same embedded
depth), so sending it again decodes to the very same object.
-/
import Proofs.Lemmas.CimXml11

set_option linter.unusedSimpArgs false
set_option linter.unusedVariables false
set_option linter.unusedSectionVars false

namespace Proofs.CimXml
open Pywbem.Model Pywbem.Model.XmlText Pywbem.Proto

/-- the embedded objects the XML parser re-reads faithfully stay so after one trip (one trip only fills
    in `propagated`/flavor defaults and re-reads reals, whose text is unchanged by `real_idem`) -/
structure EmbClosed (C : Codec) (S : Spec) : Prop where
  inst : ∀ i, S.embInstOk i → S.embInstOk (wdInstNoPath C i)
  cls : ∀ c, S.embClsOk c → S.embClsOk (wdCls C c)

section
variable (C : Codec) (S : Spec) (hE : EmbClosed C S)

theorem typeName_wdAtom (a : Atom) : typeName (wdAtom C a) = typeName a := by
  cases a <;> simp only [wdAtom, typeName]

theorem atomOk_wdAtom (a : Atom) (h : AtomOk S a) : AtomOk S (wdAtom C a) := by
  cases a <;> simp only [AtomOk] at h <;> simp only [wdAtom, AtomOk] <;> first | exact h | trivial

theorem plainAtom_wd (ty : Str) (a : Atom) (h : PlainAtom S ty a) : PlainAtom S ty (wdAtom C a) :=
  ⟨by rw [typeName_wdAtom]; exact h.1, atomOk_wdAtom C S a h.2⟩

theorem mem_wdAtoms {x : Atom} {l : List Atom} (h : x ∈ wdAtoms C l) : ∃ a ∈ l, x = wdAtom C a := by
  induction l with
  | nil => simp [wdAtoms] at h
  | cons a l ih =>
    simp only [wdAtoms, List.mem_cons] at h
    rcases h with rfl | h
    · exact ⟨a, by simp, rfl⟩
    · obtain ⟨b, hb, e⟩ := ih h
      exact ⟨b, by simp [hb], e⟩

theorem plainItems_wd (ty : Str) (l : List Atom) (h : ∀ a ∈ l, a = Atom.null ∨ PlainAtom S ty a) :
    ∀ a ∈ wdAtoms C l, a = Atom.null ∨ PlainAtom S ty a := by
  intro x hx
  obtain ⟨a, ha, rfl⟩ := mem_wdAtoms C hx
  rcases h a ha with rfl | hp
  · left; simp only [wdAtom]
  · right; exact plainAtom_wd C S ty a hp

theorem plainVal_wd (ty : Str) (v : Val) (h : PlainVal S ty v) : PlainVal S ty (wdVal C v) := by
  cases v with
  | null => simp only [wdVal]; trivial
  | scalar a => simp only [wdVal]; exact plainAtom_wd C S ty a h
  | array l => simp only [wdVal]; exact plainItems_wd C S ty l h

mutual
theorem pres_key : (k : Key) → SendableKey S k → SendableKey S (wdKey C k)
  | .mk n (.ref p), h => by
    simp only [wdKey, SendableKey]
    exact ⟨h.1, pres_path p h.2.1, by have := h.2.2; cases p <;> simp_all [wdPath, keyValueOk]⟩
  | .mk n (.pyint _), h => by simp only [wdKey, SendableKey]; exact h
  | .mk n (.pyfloat _), h => by simp only [wdKey, SendableKey]; exact h
  | .mk n (.real _ _), h => by simp only [wdKey, SendableKey, AtomOk]; exact ⟨h.1, trivial⟩
  | .mk n .null, h => by simp only [wdKey]; exact h
  | .mk n (.str _), h => by simp only [wdKey]; exact h
  | .mk n (.char16 _), h => by simp only [wdKey]; exact h
  | .mk n (.bool _), h => by simp only [wdKey]; exact h
  | .mk n (.int _ _), h => by simp only [wdKey]; exact h
  | .mk n (.dt _), h => by simp only [wdKey]; exact h
  | .mk n (.einst _), h => by simp only [wdKey]; exact h
  | .mk n (.ecls _), h => by simp only [wdKey]; exact h
theorem pres_keys : (l : List Key) → SendableKeys S l → SendableKeys S (wdKeys C l)
  | [], _ => by simp only [wdKeys, SendableKeys]
  | k :: l, h => by simp only [wdKeys, SendableKeys]; exact ⟨pres_key k h.1, pres_keys l h.2⟩
theorem pres_path : (p : Path) → SendablePath S p → SendablePath S (wdPath C p)
  | .inst c host ns keys, h => by
    simp only [wdPath, SendablePath]
    exact ⟨pres_keys keys h.1, by unfold NoDupKeyNames; rw [wdKeys_names]; exact h.2.1, h.2.2⟩
  | .cls c host ns, h => by simp only [SendablePath] at h; simp only [wdPath, SendablePath]; exact h
end

end

section
variable (C : DecCodec) (S : Spec) (hE : EmbClosed C.toCodec S)

theorem mem_wdQuals {x : Qual} {l : List Qual} (h : x ∈ wdQuals C.toCodec l) : ∃ q ∈ l, x = wdQual C.toCodec q := by
  induction l with
  | nil => simp [wdQuals] at h
  | cons a l ih =>
    simp only [wdQuals, List.mem_cons] at h
    rcases h with rfl | h
    · exact ⟨a, by simp, rfl⟩
    · obtain ⟨b, hb, e⟩ := ih h
      exact ⟨b, by simp [hb], e⟩

theorem pres_qual (q : Qual) (h : SendableQual S q) : SendableQual S (wdQual C.toCodec q) := by
  obtain ⟨n, ty, v, p, o, ts, ti, tr⟩ := q
  simp only [wdQual, SendableQual]
  exact ⟨plainVal_wd C.toCodec S ty v h.1, h.2⟩

theorem pres_quals (l : List Qual) (h : SendableQuals S l) : SendableQuals S (wdQuals C.toCodec l) := by
  refine ⟨?_, by rw [wdQuals_names]; exact h.2⟩
  intro x hx
  obtain ⟨q, hq, rfl⟩ := mem_wdQuals C hx
  exact pres_qual C S q (h.1 q hq)

theorem mem_wdParams {x : Param} {l : List Param} (h : x ∈ wdParams C.toCodec l) :
    ∃ q ∈ l, x = wdParam C.toCodec q := by
  induction l with
  | nil => simp [wdParams] at h
  | cons a l ih =>
    simp only [wdParams, List.mem_cons] at h
    rcases h with rfl | h
    · exact ⟨a, by simp, rfl⟩
    · obtain ⟨b, hb, e⟩ := ih h
      exact ⟨b, by simp [hb], e⟩

theorem pres_param (p : Param) (h : SendableParam S p) : SendableParam S (wdParam C.toCodec p) := by
  obtain ⟨n, ty, refCls, isArr, asz, quals, v, e⟩ := p
  simp only [wdParam, SendableParam]
  exact ⟨pres_quals C S quals h.1, h.2.1, h.2.2⟩

theorem pres_params (l : List Param) (h : SendableParams S l) : SendableParams S (wdParams C.toCodec l) := by
  refine ⟨?_, by rw [wdParams_names]; exact h.2⟩
  intro x hx
  obtain ⟨q, hq, rfl⟩ := mem_wdParams C hx
  exact pres_param C S q (h.1 q hq)

theorem mem_wdMeths {x : Meth} {l : List Meth} (h : x ∈ wdMeths C.toCodec l) :
    ∃ q ∈ l, x = wdMeth C.toCodec q := by
  induction l with
  | nil => simp [wdMeths] at h
  | cons a l ih =>
    simp only [wdMeths, List.mem_cons] at h
    rcases h with rfl | h
    · exact ⟨a, by simp, rfl⟩
    · obtain ⟨b, hb, e⟩ := ih h
      exact ⟨b, by simp [hb], e⟩

theorem pres_meth (m : Meth) (h : SendableMeth S m) : SendableMeth S (wdMeth C.toCodec m) := by
  obtain ⟨n, rt, params, origin, prop, quals⟩ := m
  simp only [wdMeth, SendableMeth]
  exact ⟨h.1, pres_params C S params h.2.1, pres_quals C S quals h.2.2⟩

theorem pres_meths (l : List Meth) (h : SendableMeths S l) : SendableMeths S (wdMeths C.toCodec l) := by
  refine ⟨?_, by rw [wdMeths_names]; exact h.2⟩
  intro x hx
  obtain ⟨q, hq, rfl⟩ := mem_wdMeths C hx
  exact pres_meth C S q (h.1 q hq)

theorem refAtom_wd (a : Atom) (h : RefAtom S a) : RefAtom S (wdAtom C.toCodec a) := by
  cases a <;> simp only [RefAtom] at h
  simp only [wdAtom, RefAtom]
  exact pres_path C.toCodec S _ h

include hE in
mutual
theorem pres_embatom : (a : Atom) → SendableEmbAtom S a → SendableEmbAtom S (wdAtom C.toCodec a)
  | .einst i, h => by
    simp only [wdAtom, SendableEmbAtom]
    exact ⟨pres_instnp i h.1, hE.inst i h.2⟩
  | .ecls c, h => by
    simp only [wdAtom, SendableEmbAtom]
    exact ⟨pres_cls c h.1, hE.cls c h.2⟩
  | .null, h => absurd h (by simp [SendableEmbAtom])
  | .str _, h => absurd h (by simp [SendableEmbAtom])
  | .char16 _, h => absurd h (by simp [SendableEmbAtom])
  | .bool _, h => absurd h (by simp [SendableEmbAtom])
  | .int _ _, h => absurd h (by simp [SendableEmbAtom])
  | .real _ _, h => absurd h (by simp [SendableEmbAtom])
  | .dt _, h => absurd h (by simp [SendableEmbAtom])
  | .pyint _, h => absurd h (by simp [SendableEmbAtom])
  | .pyfloat _, h => absurd h (by simp [SendableEmbAtom])
  | .ref _, h => absurd h (by simp [SendableEmbAtom])
theorem pres_embatoms : (l : List Atom) → SendableEmbAtoms S l → SendableEmbAtoms S (wdAtoms C.toCodec l)
  | [], _ => by simp only [wdAtoms, SendableEmbAtoms]
  | a :: l, h => by
    simp only [wdAtoms, SendableEmbAtoms]
    refine ⟨?_, pres_embatoms l h.2⟩
    rcases h.1 with hn | he
    · left; rw [hn]; simp only [wdAtom]
    · right; exact pres_embatom a he
theorem pres_propval : (v : Val) → (ty : Str) → (isArray e : Bool) → SendablePropVal S ty isArray e v →
    SendablePropVal S ty isArray e (wdVal C.toCodec v)
  | .null, _, _, _, _ => by simp only [wdVal, SendablePropVal]
  | .scalar a, ty, isArray, e, h => by
    simp only [SendablePropVal] at h
    simp only [wdVal, SendablePropVal]
    refine ⟨h.1, ?_⟩
    cases e with
    | true =>
      simp only [if_true] at h ⊢
      exact ⟨h.2.1, pres_embatom a h.2.2⟩
    | false =>
      simp only [Bool.false_eq_true, if_false] at h ⊢
      by_cases hty : ty = "reference".toList
      · rw [if_pos hty] at h ⊢
        exact refAtom_wd C S a h.2
      · rw [if_neg hty] at h ⊢
        exact plainAtom_wd C.toCodec S ty a h.2
  | .array l, ty, isArray, e, h => by
    simp only [SendablePropVal] at h
    simp only [wdVal, SendablePropVal]
    refine ⟨h.1, ?_⟩
    cases e with
    | true =>
      simp only [if_true] at h ⊢
      exact ⟨h.2.1, pres_embatoms l h.2.2⟩
    | false =>
      simp only [Bool.false_eq_true, if_false] at h ⊢
      exact plainItems_wd C.toCodec S ty l h.2
theorem pres_prop : (p : Prop_) → SendableProp S p → SendableProp S (wdProp C.toCodec p)
  | .mk n ty v isArr asz refCls origin prop e quals, h => by
    simp only [SendableProp] at h
    simp only [wdProp, SendableProp]
    exact ⟨pres_quals C S quals h.1, h.2.1, h.2.2.1, h.2.2.2.1, h.2.2.2.2.1, pres_propval v ty isArr e.isSome h.2.2.2.2.2.1,
      h.2.2.2.2.2.2⟩
theorem pres_props : (l : List Prop_) → SendablePropList S l → SendablePropList S (wdProps C.toCodec l)
  | [], _ => by simp only [wdProps, SendablePropList]
  | p :: l, h => by simp only [wdProps, SendablePropList]; exact ⟨pres_prop p h.1, pres_props l h.2⟩
theorem pres_instnp : (i : Inst) → SendableInstBody S i → SendableInstBody S (wdInstNoPath C.toCodec i)
  | .mk c path props quals, h => by
    simp only [SendableInstBody] at h
    simp only [wdInstNoPath, SendableInstBody]
    exact ⟨pres_props props h.1, by rw [wdProps_names]; exact h.2.1, pres_quals C S quals h.2.2⟩
theorem pres_cls : (c : Cls) → SendableCls S c → SendableCls S (wdCls C.toCodec c)
  | .mk n sup path props meths quals, h => by
    simp only [SendableCls] at h
    simp only [wdCls, SendableCls]
    exact ⟨pres_props props h.1, by rw [wdProps_names]; exact h.2.1, pres_meths C S meths h.2.2.1,
      pres_quals C S quals h.2.2.2⟩
end

include hE in
theorem pres_inst (i : Inst) (h : SendableInst S i) : SendableInst S (wdInst C.toCodec i) := by
  obtain ⟨c, path, props, quals⟩ := i
  obtain ⟨hb, hp⟩ := h
  have hb' := pres_instnp C S hE _ hb
  simp only [wdInstNoPath, SendableInstBody] at hb'
  cases path with
  | none => simp only [wdInst, SendableInst, SendableInstBody]; exact ⟨hb', trivial⟩
  | some p =>
    cases p with
    | cls c' h' n' => exact absurd hp (by simp)
    | inst c' h' n' ks =>
      have := pres_path C.toCodec S _ hp
      simp only [wdPath] at this
      simp only [wdInst, wdPath, SendableInst, SendableInstBody]
      exact ⟨hb', this⟩

theorem pres_qualdecl (q : QualDecl) (h : SendableQualDecl S q) : SendableQualDecl S (wdQualDecl C.toCodec q) := by
  obtain ⟨hv, hs, hqt, hqa⟩ := h
  refine ⟨plainVal_wd C.toCodec S q.ty q.val hv, Or.inr ?_, hqt, by
    show qdArrayOk (some q.isArray) (wdVal C.toCodec q.val) = true
    rw [qdArrayOk_wd]; exact hqa⟩
  intro p hp
  simp only [wdQualDecl] at hp
  rw [wdScopes_eq] at hp
  by_cases he : q.scopes.isEmpty = true
  · rw [if_pos he] at hp; simp at hp
  · rw [if_neg he] at hp
    simp only [List.mem_map] at hp
    obtain ⟨x, hx, rfl⟩ := hp
    have h1 := (scopeAttrList_ok q.scopes hs x hx).1
    have h2 := (scopeAttrList_fix q.scopes).1 x hx
    have h3 : upperAscii x.1 = x.1 := by
      have := congrArg Prod.fst h2
      simpa only [sg, sf] using this
    simp only [sf, h3]
    exact h1

include hE in
/-- what came back is itself sendable -/
theorem pres_obj (o : Obj) (h : Sendable S o) : Sendable S (wdObj C.toCodec o) := by
  cases o with
  | path p => exact pres_path C.toCodec S p h
  | inst i => exact pres_inst C S hE i h
  | cls c => exact pres_cls C S hE c h
  | prop p => exact pres_prop C S hE p h
  | meth m => exact pres_meth C S m h
  | param p => exact pres_param C S p h
  | qual q => exact pres_qual C S q h
  | qdecl q => exact pres_qualdecl C S q h

/-! ### embedded depth is unchanged -/

mutual
theorem depth_atom : (a : Atom) → depthAtom (wdAtom C.toCodec a) = depthAtom a
  | .einst i => by simp only [wdAtom, depthAtom, depth_instnp i]
  | .ecls c => by simp only [wdAtom, depthAtom, depth_cls c]
  | .null => by simp only [wdAtom]
  | .str _ => by simp only [wdAtom]
  | .char16 _ => by simp only [wdAtom]
  | .bool _ => by simp only [wdAtom]
  | .int _ _ => by simp only [wdAtom]
  | .dt _ => by simp only [wdAtom]
  | .pyint _ => by simp only [wdAtom]
  | .real _ _ => by simp only [wdAtom, depthAtom]
  | .pyfloat _ => by simp only [wdAtom, depthAtom]
  | .ref _ => by simp only [wdAtom, depthAtom]
theorem depth_atoms : (l : List Atom) → depthAtoms (wdAtoms C.toCodec l) = depthAtoms l
  | [] => by simp only [wdAtoms]
  | a :: l => by simp only [wdAtoms, depthAtoms, depth_atom a, depth_atoms l]
theorem depth_val : (v : Val) → depthVal (wdVal C.toCodec v) = depthVal v
  | .null => by simp only [wdVal]
  | .scalar a => by simp only [wdVal, depthVal, depth_atom a]
  | .array l => by simp only [wdVal, depthVal, depth_atoms l]
theorem depth_prop : (p : Prop_) → depthProp (wdProp C.toCodec p) = depthProp p
  | .mk n ty v isArr asz refCls origin prop e quals => by simp only [wdProp, depthProp, depth_val v]
theorem depth_props : (l : List Prop_) → depthProps (wdProps C.toCodec l) = depthProps l
  | [] => by simp only [wdProps]
  | p :: l => by simp only [wdProps, depthProps, depth_prop p, depth_props l]
theorem depth_instnp : (i : Inst) → depthInst (wdInstNoPath C.toCodec i) = depthInst i
  | .mk c path props quals => by simp only [wdInstNoPath, depthInst, depth_props props]
theorem depth_cls : (c : Cls) → depthCls (wdCls C.toCodec c) = depthCls c
  | .mk n sup path props meths quals => by simp only [wdCls, depthCls, depth_props props]
end

theorem depth_obj (o : Obj) : embDepth (wdObj C.toCodec o) = embDepth o := by
  cases o with
  | inst i =>
    obtain ⟨c, path, props, quals⟩ := i
    simp only [wdObj, wdInst, embDepth, depthInst, depth_props]
  | cls c => simp only [wdObj, embDepth, depth_cls]
  | prop p => simp only [wdObj, embDepth, depth_prop]
  | path p => rfl
  | meth m => rfl
  | param p => rfl
  | qual q => rfl
  | qdecl q => rfl

end

/-- the toy instance is a fixed point, so the toy spec is closed -/
theorem toyEmbClosed : EmbClosed toyCodec.toCodec toySpec where
  inst := by
    intro i hi
    have : i = toyInst := hi
    subst this
    show wdInstNoPath toyCodec.toCodec toyInst = toyInst
    simp only [toyInst, wdInstNoPath, wdProps, wdProp, wdVal, wdAtom, wdQuals, dBool]
  cls := by intro c hc; exact absurd hc id

end Proofs.CimXml
