/-
C02 helper lemmas, part 6: the nesting budget (`fuel`) influences the outcome only through
RecursionError — `Rel x y`: `x` equals `y`, or `x` ran out of budget.  Everything that receives the
embedded-object parser is monotone in it.
-/
import Proofs.Lemmas.EnvShape

namespace Proofs.C02
open Pywbem.Model Pywbem.Model.Resp Pywbem.Model.Envelope Pywbem.Proto Pywbem.Model.XmlText
variable {α β : Type}

/-- `x` is `y`, or `x` ran out of nesting budget -/
def Rel (x y : R α) : Prop := x = y ∨ x = .error .recursionError

theorem Rel.refl (x : R α) : Rel x x := Or.inl rfl

theorem Rel.bind {x y : R α} {f g : α → R β} (hx : Rel x y) (hf : ∀ a, Rel (f a) (g a)) : Rel (x >>= f) (y >>= g) := by
  rcases hx with h | h
  · subst h
    cases x with
    | error e => exact Or.inl rfl
    | ok a => exact hf a
  · subst h; exact Or.inr rfl

theorem Rel.ite {c : Prop} [Decidable c] {a b a' b' : R α} (h1 : c → Rel a b) (h2 : ¬c → Rel a' b') :
    Rel (if c then a else a') (if c then b else b') := by
  by_cases h : c
  · simp only [h, if_true]; exact h1 h
  · simp only [h, if_false]; exact h2 h

theorem Rel.trans {x y z : R α} (h1 : Rel x y) (h2 : Rel y z) : Rel x z := by
  rcases h1 with h | h
  · subst h; exact h2
  · exact Or.inr h

syntax "rel_leaf" : tactic
macro_rules | `(tactic| rel_leaf) => `(tactic| fail "no leaf lemma applies")

macro "rel" : tactic => `(tactic|
  repeat' (first
    | (with_reducible exact Rel.refl _)
    | (with_reducible assumption)
    | (with_reducible rel_leaf)
    | (with_reducible apply Rel.bind)
    | (with_reducible apply Rel.ite)
    | (intro _)
    | split
    | (dsimp only)
    | (cases ‹(_ :: _ : List _) = _ :: _›)
    | (exfalso; simp_all; done)))

/-! ### object decoder: monotone in the embedded-object parser -/

section
variable (C : DecCodec) (e1 e2 : Str → R Atom) (he : ∀ s, Rel (e1 s) (e2 s))
include he

theorem embAtom_rel (a : Atom) : Rel (Resp.embAtom e1 a) (Resp.embAtom e2 a) := by
  unfold Resp.embAtom; rel <;> exact he _
macro_rules | `(tactic| rel_leaf) => `(tactic| exact embAtom_rel _ _ ‹_› _)

theorem embItems_rel (l : List Atom) : Rel (Resp.embItems e1 l) (Resp.embItems e2 l) := by
  induction l with
  | nil => unfold Resp.embItems; rel
  | cons a l ih => unfold Resp.embItems; rel
macro_rules | `(tactic| rel_leaf) => `(tactic| exact embItems_rel _ _ ‹_› _)

theorem embVal_rel (v : Val) : Rel (Resp.embVal e1 v) (Resp.embVal e2 v) := by
  unfold Resp.embVal; rel
macro_rules | `(tactic| rel_leaf) => `(tactic| exact embVal_rel _ _ ‹_› _)

theorem decProperty_rel (t : Xml) : Rel (Resp.decProperty C e1 t) (Resp.decProperty C e2 t) := by
  unfold Resp.decProperty; rel
macro_rules | `(tactic| rel_leaf) => `(tactic| exact decProperty_rel _ _ _ ‹_› _)

theorem decPropertyArray_rel (t : Xml) : Rel (Resp.decPropertyArray C e1 t) (Resp.decPropertyArray C e2 t) := by
  unfold Resp.decPropertyArray; rel
macro_rules | `(tactic| rel_leaf) => `(tactic| exact decPropertyArray_rel _ _ _ ‹_› _)

theorem decProperties_rel (ks : List Xml) : Rel (Resp.decProperties C e1 ks) (Resp.decProperties C e2 ks) := by
  induction ks with
  | nil => unfold Resp.decProperties; rel
  | cons k ks ih => unfold Resp.decProperties; rel
macro_rules | `(tactic| rel_leaf) => `(tactic| exact decProperties_rel _ _ _ ‹_› _)

theorem decInstance_rel (t : Xml) : Rel (Resp.decInstance C e1 t) (Resp.decInstance C e2 t) := by
  unfold Resp.decInstance; rel

theorem decClass_rel (t : Xml) : Rel (Resp.decClass C e1 t) (Resp.decClass C e2 t) := by
  unfold Resp.decClass; rel

end

/-- one more level of budget changes nothing but a RecursionError -/
theorem embAt_step (C : DecCodec) (n : Nat) (s : Str) : Rel (Resp.embAt C n s) (Resp.embAt C (n + 1) s) := by
  induction n generalizing s with
  | zero => exact Or.inr (by unfold Resp.embAt; rfl)
  | succ n ih =>
    unfold Resp.embAt
    split
    · exact Rel.refl _
    · apply Rel.ite
      · intro _
        exact Rel.bind (decInstance_rel C _ _ ih _) (fun _ => Rel.refl _)
      · intro _
        apply Rel.ite
        · intro _
          exact Rel.bind (decClass_rel C _ _ ih _) (fun _ => Rel.refl _)
        · intro _; exact Rel.refl _

theorem embAt_mono (C : DecCodec) (n m : Nat) (h : n ≤ m) (s : Str) : Rel (Resp.embAt C n s) (Resp.embAt C m s) := by
  induction m with
  | zero => have : n = 0 := by omega
            subst this; exact Rel.refl _
  | succ m ih =>
    by_cases hn : n = m + 1
    · subst hn; exact Rel.refl _
    · exact Rel.trans (ih (by omega)) (embAt_step C m s)


/-! ### envelope: monotone in the budget -/

section
variable (C : EnvCodec) (n m : Nat) (h : n ≤ m)
include h

theorem dInst_rel (t : Xml) : Rel (dInst C n t) (dInst C m t) := by
  unfold dInst; exact decInstance_rel _ _ _ (embAt_mono _ n m h) t
macro_rules | `(tactic| rel_leaf) => `(tactic| exact dInst_rel _ _ _ ‹_› _)

theorem dCls_rel (t : Xml) : Rel (dCls C n t) (dCls C m t) := by
  unfold dCls; exact decClass_rel _ _ _ (embAt_mono _ n m h) t
macro_rules | `(tactic| rel_leaf) => `(tactic| exact dCls_rel _ _ _ ‹_› _)

theorem embAtE_rel (s : Str) : Rel (Resp.embAt C.toDecCodec n s) (Resp.embAt C.toDecCodec m s) :=
  embAt_mono _ n m h s
macro_rules | `(tactic| rel_leaf) => `(tactic| exact embAtE_rel _ _ _ ‹_› _)

theorem decObjWithPath_rel (a b c : String) (t : Xml) : Rel (decObjWithPath C n a b c t) (decObjWithPath C m a b c t) := by
  unfold decObjWithPath; rel
macro_rules | `(tactic| rel_leaf) => `(tactic| exact decObjWithPath_rel _ _ _ ‹_› _ _ _ _)

theorem decValueElem_rel (t : Xml) : Rel (decValueElem C n t) (decValueElem C m t) := by
  unfold decValueElem; rel
macro_rules | `(tactic| rel_leaf) => `(tactic| exact decValueElem_rel _ _ _ ‹_› _)

theorem listOfSame_rel (first : Str) (ks : List Xml) : Rel (listOfSame C n first ks) (listOfSame C m first ks) := by
  induction ks with
  | nil => unfold listOfSame; rel
  | cons k ks ih => unfold listOfSame; rel
macro_rules | `(tactic| rel_leaf) => `(tactic| exact listOfSame_rel _ _ _ ‹_› _ _)

theorem decIReturnValue_rel (t : Xml) : Rel (decIReturnValue C n t) (decIReturnValue C m t) := by
  unfold decIReturnValue; rel
macro_rules | `(tactic| rel_leaf) => `(tactic| exact decIReturnValue_rel _ _ _ ‹_› _)

theorem embStrs_rel (l : List (Option Str)) : Rel (embStrs C n l) (embStrs C m l) := by
  induction l with
  | nil => unfold embStrs; rel
  | cons k ks ih => unfold embStrs; rel
macro_rules | `(tactic| rel_leaf) => `(tactic| exact embStrs_rel _ _ _ ‹_› _)

theorem embPV_rel (v : PV) : Rel (embPV C n v) (embPV C m v) := by
  unfold embPV; rel
macro_rules | `(tactic| rel_leaf) => `(tactic| exact embPV_rel _ _ _ ‹_› _)

theorem optionalChild_rel (ks : List Xml) (acc : List String) : Rel (optionalChild C n ks acc) (optionalChild C m ks acc) := by
  unfold optionalChild; rel
macro_rules | `(tactic| rel_leaf) => `(tactic| exact optionalChild_rel _ _ _ ‹_› _ _)

theorem decErrorInsts_rel (ks : List Xml) : Rel (decErrorInsts C n ks) (decErrorInsts C m ks) := by
  induction ks with
  | nil => unfold decErrorInsts; rel
  | cons k ks ih => unfold decErrorInsts; rel
macro_rules | `(tactic| rel_leaf) => `(tactic| exact decErrorInsts_rel _ _ _ ‹_› _)

theorem decError_rel (t : Xml) : Rel (decError C n t) (decError C m t) := by
  unfold decError; rel
macro_rules | `(tactic| rel_leaf) => `(tactic| exact decError_rel _ _ _ ‹_› _)

theorem decReturnValue_rel (t : Xml) : Rel (decReturnValue C n t) (decReturnValue C m t) := by
  unfold decReturnValue; rel
macro_rules | `(tactic| rel_leaf) => `(tactic| exact decReturnValue_rel _ _ _ ‹_› _)

theorem decParamValue_rel (t : Xml) : Rel (decParamValue C n t) (decParamValue C m t) := by
  unfold decParamValue; rel
macro_rules | `(tactic| rel_leaf) => `(tactic| exact decParamValue_rel _ _ _ ‹_› _)

theorem decRspKids_rel (acc : List String) (ks : List Xml) : Rel (decRspKids C n acc ks) (decRspKids C m acc ks) := by
  induction ks with
  | nil => unfold decRspKids; rel
  | cons k ks ih => unfold decRspKids; rel
macro_rules | `(tactic| rel_leaf) => `(tactic| exact decRspKids_rel _ _ _ ‹_› _ _)

theorem decResponseElem_rel (t : Xml) : Rel (decResponseElem C n t) (decResponseElem C m t) := by
  unfold decResponseElem; rel
macro_rules | `(tactic| rel_leaf) => `(tactic| exact decResponseElem_rel _ _ _ ‹_› _)

theorem decIParamValues_rel (ks : List Xml) : Rel (decIParamValues C n ks) (decIParamValues C m ks) := by
  induction ks with
  | nil => unfold decIParamValues; rel
  | cons k ks ih => unfold decIParamValues; rel
macro_rules | `(tactic| rel_leaf) => `(tactic| exact decIParamValues_rel _ _ _ ‹_› _)

theorem decParamValuesMatching_rel (ks : List Xml) : Rel (decParamValuesMatching C n ks) (decParamValuesMatching C m ks) := by
  induction ks with
  | nil => unfold decParamValuesMatching; rel
  | cons k ks ih => unfold decParamValuesMatching; rel
macro_rules | `(tactic| rel_leaf) => `(tactic| exact decParamValuesMatching_rel _ _ _ ‹_› _)

theorem decExpParamValues_rel (ks : List Xml) : Rel (decExpParamValues C n ks) (decExpParamValues C m ks) := by
  induction ks with
  | nil => unfold decExpParamValues; rel
  | cons k ks ih => unfold decExpParamValues; rel
macro_rules | `(tactic| rel_leaf) => `(tactic| exact decExpParamValues_rel _ _ _ ‹_› _)

theorem decSimpleReq_rel (t : Xml) : Rel (decSimpleReq C n t) (decSimpleReq C m t) := by
  unfold decSimpleReq; rel
macro_rules | `(tactic| rel_leaf) => `(tactic| exact decSimpleReq_rel _ _ _ ‹_› _)

theorem decSimpleExpReq_rel (t : Xml) : Rel (decSimpleExpReq C n t) (decSimpleExpReq C m t) := by
  unfold decSimpleExpReq; rel
macro_rules | `(tactic| rel_leaf) => `(tactic| exact decSimpleExpReq_rel _ _ _ ‹_› _)

theorem decMessage_rel (t : Xml) : Rel (decMessage C n t) (decMessage C m t) := by
  unfold decMessage; rel
macro_rules | `(tactic| rel_leaf) => `(tactic| exact decMessage_rel _ _ _ ‹_› _)

theorem decDeclaration_rel (t : Xml) : Rel (decDeclaration C n t) (decDeclaration C m t) := by
  unfold decDeclaration; rel
macro_rules | `(tactic| rel_leaf) => `(tactic| exact decDeclaration_rel _ _ _ ‹_› _)

theorem decCim_rel (t : Xml) : Rel (decCim C n t) (decCim C m t) := by
  unfold decCim; rel
macro_rules | `(tactic| rel_leaf) => `(tactic| exact decCim_rel _ _ _ ‹_› _)

theorem handleResponse_rel (op : OpSpec) (t : Xml) : Rel (handleResponse C n op t) (handleResponse C m op t) := by
  unfold handleResponse
  exact Rel.bind (decCim_rel C n m h t) (fun _ => Rel.refl _)

end
end Proofs.C02
