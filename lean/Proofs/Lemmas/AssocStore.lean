/-
C13: lemmas about storing association instances (`createAssoc`): namespaces of the ends, store invariants.
-/
import Proofs.Lemmas.AssocSpec

namespace C13
open Pywbem.Proto Pywbem.Model.Assoc

/-- the duplicate-dropping fold of `otherNamespaces` keeps a representative of every element -/
theorem dedupe_covers : ∀ (l acc : List Name) (n : Name),
    (n ∈ l ∨ ∃ m ∈ acc, ieq m n = true) →
    ∃ m ∈ l.foldl (fun acc n => if acc.any (fun m => ieq m n) then acc else acc ++ [n]) acc, ieq m n = true
  | [], acc, n, h => by
    rcases h with h | h
    · cases h
    · simpa using h
  | k :: l, acc, n, h => by
    simp only [List.foldl_cons]
    apply dedupe_covers l _ n
    rcases h with h | ⟨m, hm, hmn⟩
    · rcases List.mem_cons.mp h with rfl | h
      · by_cases hany : acc.any (fun m => ieq m n) = true
        · right
          simp only [hany, if_true]
          simpa using hany
        · right
          simp only [hany]
          exact ⟨n, by simp, ieq_refl n⟩
      · exact Or.inl h
    · right
      by_cases hany : acc.any (fun m => ieq m k) = true
      · simp only [hany, if_true]; exact ⟨m, hm, hmn⟩
      · simp only [hany]; exact ⟨m, by simp [hm], hmn⟩

/-- every namespace named by a non-NULL reference end of `a` is the target namespace or represented in
    `otherNamespaces a target` (up to case) -/
theorem end_namespace_covered {a : Inst} {target : Name} {p : IProp} {v : Path} {n : Name}
    (hp : p ∈ a.props) (hr : p.isRef = true) (hv : p.value = some v) (hn : v.ns = some n) :
    ∃ m ∈ otherNamespaces a target ++ [target], ieq m n = true := by
  by_cases ht : ieq n target = true
  · exact ⟨target, by simp, ieq_symm ht⟩
  · have hmem : n ∈ a.props.filterMap (fun p =>
        if p.isRef then
          match p.value with
          | some v => match v.ns with
                      | some n => if ieq n target then none else some n
                      | none => none
          | none => none
        else none) := by
      rw [List.mem_filterMap]
      exact ⟨p, hp, by simp [hr, hv, hn, ht]⟩
    obtain ⟨m, hm, hmn⟩ := dedupe_covers _ [] n (Or.inl hmem)
    exact ⟨m, List.mem_append.mpr (Or.inl (by unfold otherNamespaces; exact hm)), hmn⟩

theorem findNs_congr {r : Repo} {a b : Name} (h : ieq a b = true) : findNs r a = findNs r b := by
  have := ieq_iff.mp h
  simp [findNs, ieq, this]

/-- appending a new instance whose path is not yet a key keeps the store a well-formed dict -/
theorem storeOk_append {is : List Inst} {a : Inst} {n : Name}
    (hok : StoreOk is) (hnew : findInst is (rebase a n).path = none) : StoreOk (is ++ [rebase a n]) := by
  have hnone : ∀ i ∈ is, i.path.eqv (rebase a n).path = false := by
    unfold findInst at hnew
    rw [List.find?_eq_none] at hnew
    intro i hi
    simpa using hnew i hi
  constructor
  · intro b hb
    rcases List.mem_append.mp hb with hb | hb
    · exact hok.nohost b hb
    · simp at hb; subst hb; rfl
  · intro b hb c hc hbc
    rcases List.mem_append.mp hb with hb | hb <;> rcases List.mem_append.mp hc with hc | hc
    · exact hok.unique b hb c hc hbc
    · simp at hc; subst hc
      have := hnone b hb
      simp [hbc] at this
    · simp at hb; subst hb
      have := hnone c hc
      simp [eqv_symm hbc] at this
    · simp at hb hc; subst hb; subst hc; rfl

theorem create_writes_shadows {sv sv' : Server} {ns : Name} {a : Inst}
    (h : createAssoc sv ns a = .ok sv') :
    ∀ n ∈ otherNamespaces a ns ++ [ns], ∃ T, findNs sv'.repo n = some T ∧
      ∃ a' ∈ T.insts, a'.cls = a.cls ∧ a'.props = a.props ∧ a'.path.key = a.path.key := by
  unfold createAssoc at h
  cases hS : findNs sv.repo ns with
  | none => simp [hS] at h
  | some S =>
    simp only [hS] at h
    split at h
    · cases h
    · split at h
      · cases h
      · split at h
        · cases h
        · split at h
          · cases h
          · rename_i hcls
            split at h
            · cases h
            · cases h
              intro n hn
              have hall : ∀ k ∈ otherNamespaces a ns ++ [ns], ∃ T, findNs sv.repo k = some T := by
                intro k hk
                cases hk' : findNs sv.repo k with
                | some T => exact ⟨T, rfl⟩
                | none =>
                  exfalso
                  apply hcls
                  simp only [List.any_eq_true]
                  exact ⟨k, hk, by simp [hk']⟩
              obtain ⟨T, hT, hmem⟩ := foldl_addInst_mem (a := a) _ sv.repo hall n hn
              exact ⟨T, hT, rebase a n, hmem, rfl, rfl, rfl⟩

end C13
