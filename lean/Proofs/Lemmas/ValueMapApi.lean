/-
Helper lemmas for C20, part 5: the factory methods and the argument forms (Model/ValueMapApi.lean).
-/
import Pywbem.Model.ValueMapApi
import Proofs.Lemmas.ValueMap4

namespace Proofs.ValueMap
open Pywbem.Proto Pywbem.Model.IntLit Pywbem.Model.ValueMap Pywbem.Model.ValueMap.Spec Pywbem.Model.ValueMap.Api

theorem ncGet_congr {α} (d : List (Str × α)) {k k' : Str} (h : fold k = fold k') : ncGet d k = ncGet d k' := by
  unfold ncGet; rw [h]

theorem ncGet_cons {α} (d : List (Str × α)) (k0 : Str) (v0 : α) (k : Str) :
    ncGet ((k0, v0) :: d) k = if fold k0 = fold k then some v0 else ncGet d k := by
  unfold ncGet
  by_cases h : fold k0 = fold k <;> simp [List.find?_cons, h]

/-- renaming keys without changing their case-folded form does not change any lookup -/
theorem ncGet_rename {α} (d : List (Str × α)) (f : Str → Str) (hf : ∀ k, fold (f k) = fold k) (k : Str) :
    ncGet (d.map (fun p => (f p.1, p.2))) k = ncGet d k := by
  induction d with
  | nil => rfl
  | cons hd tl ih =>
    obtain ⟨k0, v0⟩ := hd
    simp only [List.map_cons, ncGet_cons, hf, ih]

/-- an entry under another (folded) name is invisible, wherever it is inserted -/
theorem ncGet_insert {α} (d1 d2 : List (Str × α)) (k0 : Str) (v0 : α) (k : Str) (h : fold k0 ≠ fold k) :
    ncGet (d1 ++ (k0, v0) :: d2) k = ncGet (d1 ++ d2) k := by
  induction d1 with
  | nil => simp [ncGet_cons, h]
  | cons hd tl ih =>
    obtain ⟨k1, v1⟩ := hd
    simp only [List.cons_append, ncGet_cons, ih]

theorem tovaluesList_ok_iff (vm : VM) (xs : List Scalar) (ss : List Str) :
    tovaluesList vm xs = .ok ss ↔
      ss.length = xs.length ∧ ∀ (i : Nat) x, xs[i]? = some x → ∃ s, ss[i]? = some s ∧ tovaluesSingle vm x = .ok s := by
  induction xs generalizing ss with
  | nil => cases ss <;> simp [tovaluesList]
  | cons x rest ih =>
    simp only [tovaluesList]
    constructor
    · intro h
      cases h1 : tovaluesSingle vm x with
      | error e => simp [h1] at h
      | ok s =>
        cases h2 : tovaluesList vm rest with
        | error e => simp [h1, h2] at h
        | ok ss' =>
          simp [h1, h2] at h; subst h
          obtain ⟨hl, hp⟩ := (ih ss').mp h2
          refine ⟨by simp [hl], ?_⟩
          intro i y hy
          cases i with
          | zero => simp at hy; subst hy; exact ⟨s, by simp, h1⟩
          | succ j => simp at hy ⊢; exact hp j y hy
    · rintro ⟨hl, hp⟩
      cases ss with
      | nil => simp at hl
      | cons s ss' =>
        obtain ⟨s', hs1, hs2⟩ := hp 0 x (by simp)
        simp at hs1; subst hs1
        have : tovaluesList vm rest = .ok ss' := (ih ss').mpr ⟨by simpa using hl, fun (i : Nat) y hy => by
          have := hp (i + 1) y (by simpa using hy); simpa using this⟩
        simp [hs2, this]

theorem tovaluesList_error_iff (vm : VM) (xs : List Scalar) (e : PyExc) :
    tovaluesList vm xs = .error e ↔
      ∃ pre x post, xs = pre ++ x :: post ∧ (∀ y ∈ pre, ∃ s, tovaluesSingle vm y = .ok s) ∧
        tovaluesSingle vm x = .error e := by
  induction xs with
  | nil => simp [tovaluesList]
  | cons x rest ih =>
    simp only [tovaluesList]
    cases h1 : tovaluesSingle vm x with
    | error e' =>
      simp only [Except.error.injEq]
      constructor
      · rintro rfl; exact ⟨[], x, rest, rfl, by simp, h1⟩
      · rintro ⟨pre, y, post, hxs, hpre, hy⟩
        cases pre with
        | nil => simp at hxs; rw [← hxs.1, h1] at hy; simpa using hy
        | cons p ps =>
          simp at hxs
          obtain ⟨s, hs⟩ := hpre p (by simp)
          rw [← hxs.1, h1] at hs; cases hs
    | ok s =>
      simp only
      cases h2 : tovaluesList vm rest with
      | error e' =>
        simp only [Except.error.injEq]
        constructor
        · rintro rfl
          obtain ⟨pre, y, post, hxs, hpre, hy⟩ := ih.mp h2
          refine ⟨x :: pre, y, post, by simp [hxs], ?_, hy⟩
          intro z hz; simp at hz; rcases hz with rfl | hz
          · exact ⟨s, h1⟩
          · exact hpre z hz
        · rintro ⟨pre, y, post, hxs, hpre, hy⟩
          cases pre with
          | nil => simp at hxs; rw [← hxs.1, h1] at hy; cases hy
          | cons p ps =>
            simp at hxs
            have := ih.mpr ⟨ps, y, post, hxs.2, fun z hz => hpre z (by simp [hz]), hy⟩
            rw [h2] at this; simpa using this
      | ok ss =>
        simp only [reduceCtorEq, false_iff]
        rintro ⟨pre, y, post, hxs, hpre, hy⟩
        cases pre with
        | nil => simp at hxs; rw [← hxs.1, h1] at hy; cases hy
        | cons p ps =>
          simp at hxs
          have := ih.mpr ⟨ps, y, post, hxs.2, fun z hz => hpre z (by simp [hz]), hy⟩
          rw [h2] at this; cases this

end Proofs.ValueMap
