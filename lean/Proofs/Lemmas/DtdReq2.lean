/-
C03 — request documents: `_imethodcall` for parameters that are normalised (`sentOk`) and well-shaped
(`argShape`); the `_iparam_*` helpers establish and preserve exactly that (`runChecks_inv`), for every operation
whose extracted specification passes the static check `specOk`; ExportIndication; InvokeMethod; headers.
-/
import Proofs.Lemmas.DtdReq

set_option linter.unusedSimpArgs false
set_option linter.unusedVariables false

namespace Proofs.DtdReq
open Pywbem.Model Pywbem.Model.Dtd Pywbem.Model.XmlText Pywbem.Model.Sendable Proofs.Dtd Proofs.DtdEnc
open Pywbem.Model.Req Pywbem.Proto
open Pywbem.Generated

/-! ### Except plumbing -/

theorem bind_ok {α β : Type} {x : Except PyExc α} {f : α → Except PyExc β} {b : β}
    (h : (x >>= f) = .ok b) : ∃ a, x = .ok a ∧ f a = .ok b := by
  cases x with
  | error e => simp [bind, Except.bind] at h
  | ok a => exact ⟨a, rfl, by simpa [bind, Except.bind] using h⟩

theorem checked_ok {x y : Xml} (h : checked x = .ok y) : y = x ∧ charsOk x = true := by
  unfold checked at h
  split at h
  · rename_i hc; cases h; exact ⟨rfl, hc⟩
  · cases h

/-! ### what may be sent as a parameter value -/

/-- constructor invariants of the objects inside an argument -/
def argShape : Arg → Bool
  | .className p | .instName p => shapePath p
  | .inst i => shapeInst i
  | .cls c => shapeCls c
  | .qdecl q => shapeQualDecl q
  | _ => true

/-- normalised for an IPARAMVALUE: object names without namespace (and host), instances whose path has no namespace -/
def sentOk : Arg → Bool
  | .className p | .instName p => (pathNs p).isNone
  | .inst i => match instPath i with
    | none => true
    | some p => (pathNs p).isNone
  | _ => true

def iparamKidNames : List Name :=
  ["VALUE".toList, "VALUE.ARRAY".toList, "VALUE.REFERENCE".toList, "INSTANCENAME".toList, "CLASSNAME".toList,
   "QUALIFIER.DECLARATION".toList, "CLASS".toList, "INSTANCE".toList, "VALUE.NAMEDINSTANCE".toList]

theorem encPath_name_noNs (C : Codec) (p : Path) (h : (pathNs p).isNone = true) :
    ∃ as ks n, encPath C p = .elem n as ks ∧ (n = "INSTANCENAME".toList ∨ n = "CLASSNAME".toList) := by
  cases p with
  | inst cls host ns keys =>
    cases ns with
    | none => exact ⟨_, _, _, by simp only [encPath, E]; rfl, .inl rfl⟩
    | some n => simp [pathNs] at h
  | cls cls host ns =>
    cases ns with
    | none => exact ⟨_, _, _, by simp only [encPath, E]; rfl, .inr rfl⟩
    | some n => simp [pathNs] at h

theorem encInst_name_noNs (C : Codec) (i : Inst) (h : sentOk (.inst i) = true) :
    ∃ as ks n, encInst C i = .elem n as ks ∧ (n = "INSTANCE".toList ∨ n = "VALUE.NAMEDINSTANCE".toList) := by
  cases i with
  | mk cls path props quals =>
    cases path with
    | none => exact ⟨_, _, _, by simp only [encInst, E]; rfl, .inl rfl⟩
    | some p =>
      cases p with
      | cls c hh n => exact ⟨_, _, _, by simp only [encInst, E]; rfl, .inl rfl⟩
      | inst c hh n ks =>
        cases n with
        | none => exact ⟨_, _, _, by simp only [encInst, E]; rfl, .inr rfl⟩
        | some ns => simp [sentOk, instPath, pathNs] at h

theorem listItemXml_ok {a : Arg} {x : Xml} (h : listItemXml a = .ok x) :
    structNode D x = true ∧ ∃ as ks n, x = .elem n as ks ∧ n ∈ valueNames := by
  have hv : ∀ s, structNode D (valueElem s) = true ∧ ∃ as ks n, valueElem s = .elem n as ks ∧ n ∈ valueNames :=
    fun s => ⟨struct_valueElem s, _, _, _, by simp only [valueElem, E]; rfl, by simp [valueNames]⟩
  cases a with
  | none =>
    simp only [listItemXml, nullItem] at h
    cases h
    refine ⟨struct_nullItem, ?_⟩
    split
    · exact ⟨_, _, _, by simp only [E]; rfl, by simp [valueNames]⟩
    · exact ⟨_, _, _, by simp only [E]; rfl, by simp [valueNames]⟩
  | str s => simp only [listItemXml] at h; obtain ⟨rfl, _⟩ := checked_ok h; exact hv s
  | bool b => simp only [listItemXml] at h; cases h; exact hv _
  | int i => simp only [listItemXml] at h; cases h; exact hv _
  | className p => simp [listItemXml] at h
  | instName p => simp [listItemXml] at h
  | inst i => simp [listItemXml] at h
  | cls c => simp [listItemXml] at h
  | qdecl q => simp [listItemXml] at h
  | list l => simp [listItemXml] at h
  | other => simp [listItemXml] at h

theorem listItemsXml_ok : ∀ {l : List Arg} {xs : List Xml}, listItemsXml l = .ok xs →
    structNodes D xs = true ∧ allElems xs = true ∧ ∀ n ∈ kidNames xs, n ∈ valueNames
  | [], xs, h => by simp only [listItemsXml] at h; cases h; simp [structNodes, allElems, kidNames]
  | a :: l, xs, h => by
    simp only [listItemsXml] at h
    obtain ⟨x, hx, h⟩ := bind_ok h
    obtain ⟨xs', hxs, h⟩ := bind_ok h
    cases h
    obtain ⟨h1, h2, h3⟩ := listItemsXml_ok hxs
    obtain ⟨hs, as, ks, n, he, hn⟩ := listItemXml_ok hx
    rw [structNodes_cons, hs, h1, he]
    refine ⟨rfl, by simpa [allElems] using h2, ?_⟩
    intro m hm
    simp only [kidNames, List.mem_cons] at hm
    rcases hm with rfl | hm
    · exact hn
    · exact h3 m hm

/-- `tocimxml(value)` of a well-shaped, normalised argument: a valid element that IPARAMVALUE may contain -/
theorem argXml_ok (C : Codec) {a : Arg} {x : Xml} (hs : argShape a = true) (hn : sentOk a = true)
    (h : argXml C a = .ok x) :
    structNode D x = true ∧ ∃ as ks n, x = .elem n as ks ∧ n ∈ iparamKidNames := by
  have hv : ∀ s, structNode D (valueElem s) = true ∧ ∃ as ks n, valueElem s = .elem n as ks ∧ n ∈ iparamKidNames :=
    fun s => ⟨struct_valueElem s, _, _, _, by simp only [valueElem, E]; rfl, by simp [iparamKidNames]⟩
  cases a with
  | none => simp [argXml] at h
  | other => simp [argXml] at h
  | str s => simp only [argXml] at h; obtain ⟨rfl, _⟩ := checked_ok h; exact hv s
  | bool b => simp only [argXml] at h; cases h; exact hv _
  | int i => simp only [argXml] at h; cases h; exact hv _
  | className p =>
    simp only [argXml] at h; obtain ⟨rfl, _⟩ := checked_ok h
    obtain ⟨as, ks, n, he, hn'⟩ := encPath_name_noNs C p hn
    exact ⟨struct_encPath C p hs, as, ks, n, he, by rcases hn' with rfl | rfl <;> simp [iparamKidNames]⟩
  | instName p =>
    simp only [argXml] at h; obtain ⟨rfl, _⟩ := checked_ok h
    obtain ⟨as, ks, n, he, hn'⟩ := encPath_name_noNs C p hn
    exact ⟨struct_encPath C p hs, as, ks, n, he, by rcases hn' with rfl | rfl <;> simp [iparamKidNames]⟩
  | inst i =>
    simp only [argXml, instXml] at h
    split at h
    · cases h
    obtain ⟨rfl, _⟩ := checked_ok h
    obtain ⟨as, ks, n, he, hn'⟩ := encInst_name_noNs C i hn
    exact ⟨struct_encInst C i hs, as, ks, n, he, by rcases hn' with rfl | rfl <;> simp [iparamKidNames]⟩
  | cls c =>
    simp only [argXml, clsXml] at h
    split at h
    · cases h
    obtain ⟨rfl, _⟩ := checked_ok h
    refine ⟨struct_encCls C c hs, ?_⟩
    cases c; exact ⟨_, _, _, by simp only [encCls, E]; rfl, by simp [iparamKidNames]⟩
  | qdecl q =>
    simp only [argXml] at h; obtain ⟨rfl, _⟩ := checked_ok h
    exact ⟨struct_encQualDecl C q hs, _, _, _, by simp only [encQualDecl, E]; rfl, by simp [iparamKidNames]⟩
  | list l =>
    simp only [argXml] at h
    obtain ⟨xs, hxs, h⟩ := bind_ok h
    cases h
    obtain ⟨h1, h2, h3⟩ := listItemsXml_ok hxs
    exact ⟨struct_elem dtdDecl_VALUE_ARRAY (by rfl) (by decide) (content_children h2 (lang_star_valueNames _ h3)) h1,
      _, _, _, by simp only [E]; rfl, by simp [iparamKidNames]⟩

theorem struct_iparamvalue (n : String) {x : Xml} (hs : structNode D x = true)
    (hx : ∃ as ks m, x = .elem m as ks ∧ m ∈ iparamKidNames) :
    structNode D (E "IPARAMVALUE" [("NAME".toList, n.toList)] [x]) = true := by
  obtain ⟨as, ks, m, rfl, hm⟩ := hx
  apply struct_single dtdDecl_IPARAMVALUE rfl (by rfl) (attrs_name_only "NAME" n.toList (by rfl) (by rfl))
    (r := Re.opt (Re.alts (iparamKidNames.map Re.sym))) (by rfl) _ hs
  exact lang_opt_some (lang_alts_mem (r := .sym m) (List.mem_map.mpr ⟨m, hm, rfl⟩) (Lang.sym m))

theorem iparamValues_ok (C : Codec) : ∀ {params : List (String × Arg)} {xs : List Xml},
    (∀ p ∈ params, argShape p.2 = true ∧ sentOk p.2 = true) → iparamValues C "IPARAMVALUE" params = .ok xs →
    structNodes D xs = true ∧ allElems xs = true ∧ kidNames xs = List.replicate xs.length "IPARAMVALUE".toList
  | [], xs, _, h => by simp only [iparamValues] at h; cases h; simp [structNodes, allElems, kidNames]
  | (n, a) :: rest, xs, hp, h => by
    have hrest : ∀ p ∈ rest, argShape p.2 = true ∧ sentOk p.2 = true := fun p hm => hp p (by simp [hm])
    cases a with
    | none => simp only [iparamValues] at h; exact iparamValues_ok C hrest h
    | _ =>
      simp only [iparamValues] at h
      obtain ⟨x, hx, h⟩ := bind_ok h
      obtain ⟨xs', hxs, h⟩ := bind_ok h
      cases h
      obtain ⟨h1, h2, h3⟩ := iparamValues_ok C hrest hxs
      obtain ⟨hs, hname⟩ := argXml_ok C (hp (n, _) (by simp)).1 (hp (n, _) (by simp)).2 hx
      have := struct_iparamvalue n hs hname
      rw [structNodes_cons, this, h1]
      simp only [E, allElems, kidNames, h2, h3, List.length_cons, List.replicate_succ]
      simp

/-! ### `_imethodcall` -/

theorem imethodcall_valid (C : Codec) (m : String) (ns : Arg) (params : List (String × Arg)) (h : Headers) (x : Xml)
    (hp : ∀ p ∈ params, argShape p.2 = true ∧ sentOk p.2 = true)
    (hr : imethodcall C m ns params = .ok (h, x)) : validTree D x = true := by
  cases ns with
  | str n =>
    simp only [imethodcall] at hr
    obtain ⟨plist, hpl, hr⟩ := bind_ok hr
    obtain ⟨lnp, hl, hr⟩ := bind_ok hr
    obtain ⟨doc, hd, hr⟩ := bind_ok hr
    cases hr
    obtain ⟨rfl, _⟩ := checked_ok hl
    obtain ⟨rfl, hchars⟩ := checked_ok hd
    obtain ⟨p1, p2, p3⟩ := iparamValues_ok C hp hpl
    have himc : structNode D (E "IMETHODCALL" [("NAME".toList, m.toList)] (localNsPath n :: plist)) = true := by
      apply struct_elem dtdDecl_IMETHODCALL (by rfl) (attrs_name_only "NAME" m.toList (by rfl) (by rfl))
      · apply content_children (by simp [localNsPath, E, allElems]; exact p2)
        have : kidNames (localNsPath n :: plist) = "LOCALNAMESPACEPATH".toList :: kidNames plist := by
          simp [localNsPath, E, kidNames]
        rw [this, p3]
        have := lang_seq2 (Lang.sym "LOCALNAMESPACEPATH".toList) (lang_star_replicate "IPARAMVALUE".toList plist.length)
        simpa using this
      · rw [structNodes_cons, struct_localNsPath n, p1]; rfl
    have hsr : structNode D (E "SIMPLEREQ" [] [E "IMETHODCALL" [("NAME".toList, m.toList)] (localNsPath n :: plist)]) = true :=
      struct_single dtdDecl_SIMPLEREQ (by simp only [E]; rfl) (by rfl) (by decide)
        (r := Re.alts [.sym "IMETHODCALL".toList, .sym "METHODCALL".toList]) (by rfl)
        (lang_alts_mem (r := .sym _) (by simp) (Lang.sym _)) himc
    have hdoc := struct_envelope reqCimVersion.toList reqDtdVersion.toList reqMessageId.toList reqProtocolVersion.toList
      (by simp only [E]; rfl) (by simp [simpleNames]) hsr
    simp only [validTree, Bool.and_eq_true]
    exact ⟨⟨rfl, hdoc⟩, hchars⟩
  | none => simp [imethodcall] at hr
  | bool b => simp [imethodcall] at hr
  | int i => simp [imethodcall] at hr
  | className p => simp [imethodcall] at hr
  | instName p => simp [imethodcall] at hr
  | inst i => simp [imethodcall] at hr
  | cls c => simp [imethodcall] at hr
  | qdecl q => simp [imethodcall] at hr
  | list l => simp [imethodcall] at hr
  | other => simp [imethodcall] at hr

/-! ### the `_iparam_*` helpers establish and preserve `argShape` / `sentOk` -/

theorem getArg_setArg_other (p q : String) (a : Arg) (h : q ≠ p) :
    ∀ l : List (String × Arg), getArg (setArg l p a) q = getArg l q
  | [] => rfl
  | (k, v) :: rest => by
    have ih := getArg_setArg_other p q a h rest
    by_cases hk : k = p
    · subst hk
      have h1 : (k == q) = false := by simpa using fun e => h e.symm
      simp [setArg, getArg, h1, ih]
    · have hk' : (k == p) = false := by simpa using hk
      by_cases hq : k = q
      · subst hq; simp [setArg, getArg, hk']
      · have hq' : (k == q) = false := by simpa using hq
        simp [setArg, getArg, hk', hq', ih]

theorem getArg_setArg_same (p : String) (a : Arg) :
    ∀ l : List (String × Arg), getArg (setArg l p a) p = a ∨ (getArg (setArg l p a) p = .none ∧ getArg l p = .none)
  | [] => .inr ⟨rfl, rfl⟩
  | (k, v) :: rest => by
    by_cases hk : k = p
    · subst hk; simp [setArg, getArg]
    · have hk' : (k == p) = false := by simpa using hk
      simp [setArg, getArg, hk']
      exact getArg_setArg_same p a rest

theorem get_set_other (s : St) (p q : String) (a : Arg) (h : q ≠ p) : (s.set p a).get q = s.get q :=
  getArg_setArg_other p q a h s.args

theorem get_set_same' (s : St) (p : String) (a : Arg) :
    (s.set p a).get p = a ∨ ((s.set p a).get p = .none ∧ s.get p = .none) :=
  getArg_setArg_same p a s.args

theorem get_set_same (s : St) (p : String) (a : Arg) : (s.set p a).get p = a ∨ (s.set p a).get p = .none := by
  rcases get_set_same' s p a with h | h
  · exact .inl h
  · exact .inr h.1

/-- a property of arguments that `None` has -/
def Good (P : Arg → Bool) (s : St) : Prop := ∀ q, P (s.get q) = true

theorem pathStripped_shape (p : Path) : shapePath (pathStripped p) = shapePath p := by
  cases p <;> simp [pathStripped, shapePath]

theorem pathStripped_ns (p : Path) : pathNs (pathStripped p) = none := by
  cases p <;> simp [pathStripped, pathNs]

theorem pathNs_cls_none (c : Str) (h : Option Str) : pathNs (.cls c h none) = none := rfl

theorem pathSetNs_shape (n : Option Str) (p : Path) : shapePath (pathSetNs n p) = shapePath p := by
  cases p <;> simp [pathSetNs, shapePath]

theorem pathSetHost_shape (h : Option Str) (p : Path) : shapePath (pathSetHost h p) = shapePath p := by
  cases p <;> simp [pathSetHost, shapePath]

theorem pathSetHost_ns (h : Option Str) (p : Path) : pathNs (pathSetHost h p) = pathNs p := by
  cases p <;> simp [pathSetHost, pathNs]

theorem pathSetNs_none (p : Path) : pathNs (pathSetNs none p) = none := by
  cases p <;> simp [pathSetNs, pathNs]

/-- which statements leave the parameter they assign in normalised form, whatever it was before -/
def establishesB : Req.Check → Bool
  | .className .. | .instanceName .. | .objectName .. | .string .. | .qualDecl .. | .klass _ | .bool _ | .posInt _
  | .propertyList _ | .maxObjOpenPull _ | .context _ | .clearPathNamespace _ | .clearPath _ => true
  | _ => false

theorem modifyPath_shape (f : Option Path → Option Path)
    (hf : ∀ q : Option Path, (∃ p p', q = some p ∧ f q = some p' ∧ shapePath p' = shapePath p) ∨ f q = none)
    {x a : Arg} (hx : argShape x = true) (h : modifyPathArg f x = .ok a) : argShape a = true := by
  cases x with
  | inst i =>
    simp only [modifyPathArg] at h; cases h
    cases i with
    | mk c path ps qs =>
      simp only [argShape, shapeInst, instSetPath, Bool.and_eq_true] at hx ⊢
      refine ⟨hx.1, ?_⟩
      rcases hf path with ⟨p, p', rfl, h1, h2⟩ | h1
      · rw [h1]; simp only; rw [h2]; exact hx.2
      · rw [h1]
  | _ => simp [modifyPathArg] at h

theorem checkFn_shape {c : Req.Check} {p : String} {f : Arg → Except PyExc Arg} (hc : checkFn c = some (p, f))
    {x a : Arg} (hx : argShape x = true) (h : f x = .ok a) : argShape a = true := by
  cases c <;> simp only [checkFn, Option.some.injEq, Prod.mk.injEq, reduceCtorEq] at hc
  all_goals obtain ⟨_, rfl⟩ := hc
  case className q req =>
    cases x <;> simp only [iparamClassName] at h <;> (try split at h) <;> (try cases h) <;>
      (try simp [argShape, shapePath]) <;> (try simpa [argShape, pathStripped_shape] using hx)
  case instanceName q req =>
    cases x <;> simp only [iparamInstanceName] at h <;> (try split at h) <;> (try cases h) <;>
      (try simp [argShape, shapePath]) <;> (try simpa [argShape, pathStripped_shape] using hx)
  case objectName q req =>
    cases x <;> simp only [iparamObjectName] at h <;> (try split at h) <;> (try cases h) <;>
      (try simp [argShape, shapePath]) <;> (try simpa [argShape, pathStripped_shape] using hx)
  case string q req =>
    cases x <;> simp only [iparamString] at h <;> (try split at h) <;> (try cases h) <;> simp [argShape]
  case qualDecl q req =>
    cases x <;> simp only [iparamQualDecl] at h <;> (try split at h) <;> (try cases h) <;>
      (try simp [argShape]) <;> (try exact hx)
  case «instance» q => cases x <;> simp only [iparamInstance] at h <;> (try cases h) <;> exact hx
  case klass q =>
    cases x with
    | cls c => cases c; simp only [iparamClass] at h; cases h; simpa [argShape, shapeCls] using hx
    | none => simp only [iparamClass] at h; cases h; rfl
    | _ => simp [iparamClass] at h
  case bool q => cases x <;> simp only [iparamBool] at h <;> (try cases h) <;> rfl
  case posInt q =>
    cases x <;> simp only [iparamPosInt] at h <;> (try split at h) <;> (try cases h) <;> rfl
  case propertyList q => cases x <;> simp only [iparamPropertyList] at h <;> (try split at h) <;> (try cases h) <;> rfl
  case maxObjOpenPull q =>
    simp only [validateMaxObj] at h
    obtain ⟨_, _, h⟩ := bind_ok h
    cases h; exact hx
  case context q =>
    simp only [validateContextArg] at h
    obtain ⟨_, _, h⟩ := bind_ok h
    cases h; exact hx
  case requirePath q =>
    unfold requirePathArg at h
    split at h
    · cases h
    · cases h; exact hx
  case clearPathNamespace q =>
    exact modifyPath_shape _ (fun q => by
      cases q with
      | none => exact .inr rfl
      | some p => exact .inl ⟨p, _, rfl, rfl, pathSetNs_shape none p⟩) hx h
  case clearPathHost q =>
    exact modifyPath_shape _ (fun q => by
      cases q with
      | none => exact .inr rfl
      | some p => exact .inl ⟨p, _, rfl, rfl, pathSetHost_shape none p⟩) hx h
  case clearPath q => exact modifyPath_shape _ (fun q => .inr rfl) hx h

theorem checkFn_sent_preserve {c : Req.Check} {p : String} {f : Arg → Except PyExc Arg} (hc : checkFn c = some (p, f))
    {x a : Arg} (hx : sentOk x = true) (h : f x = .ok a) : sentOk a = true := by
  cases c <;> simp only [checkFn, Option.some.injEq, Prod.mk.injEq, reduceCtorEq] at hc
  all_goals obtain ⟨_, rfl⟩ := hc
  case className q req =>
    cases x <;> simp only [iparamClassName] at h <;> (try split at h) <;> (try cases h) <;>
      simp [sentOk, pathStripped_ns, pathNs_cls_none]
  case instanceName q req =>
    cases x <;> simp only [iparamInstanceName] at h <;> (try split at h) <;> (try cases h) <;>
      simp [sentOk, pathStripped_ns, pathNs_cls_none]
  case objectName q req =>
    cases x <;> simp only [iparamObjectName] at h <;> (try split at h) <;> (try cases h) <;>
      simp [sentOk, pathStripped_ns, pathNs_cls_none]
  case string q req =>
    cases x <;> simp only [iparamString] at h <;> (try split at h) <;> (try cases h) <;> simp [sentOk]
  case qualDecl q req =>
    cases x <;> simp only [iparamQualDecl] at h <;> (try split at h) <;> (try cases h) <;> simp [sentOk]
  case klass q =>
    cases x with
    | cls c => cases c; simp only [iparamClass] at h; cases h; simp [sentOk]
    | none => simp only [iparamClass] at h; cases h; rfl
    | _ => simp [iparamClass] at h
  case bool q => cases x <;> simp only [iparamBool] at h <;> (try cases h) <;> rfl
  case posInt q =>
    cases x <;> simp only [iparamPosInt] at h <;> (try split at h) <;> (try cases h) <;> rfl
  case propertyList q => cases x <;> simp only [iparamPropertyList] at h <;> (try split at h) <;> (try cases h) <;> rfl
  case «instance» q => cases x <;> simp only [iparamInstance] at h <;> (try cases h) <;> exact hx
  case maxObjOpenPull q =>
    simp only [validateMaxObj] at h
    obtain ⟨_, _, h⟩ := bind_ok h
    cases h; exact hx
  case context q =>
    simp only [validateContextArg] at h
    obtain ⟨_, _, h⟩ := bind_ok h
    cases h; exact hx
  case requirePath q =>
    unfold requirePathArg at h
    split at h
    · cases h
    · cases h; exact hx
  case clearPathNamespace q =>
    cases x with
    | inst i =>
      cases i with
      | mk c path ps qs =>
        simp only [modifyPathArg] at h; cases h
        cases path <;> simp [sentOk, instPath, instSetPath, pathSetNs_none]
    | _ => simp [modifyPathArg] at h
  case clearPathHost q =>
    cases x with
    | inst i =>
      cases i with
      | mk c path ps qs =>
        simp only [modifyPathArg] at h; cases h
        cases path with
        | none => simp [sentOk, instPath, instSetPath]
        | some pp => simpa [sentOk, instPath, instSetPath, pathSetHost_ns] using hx
    | _ => simp [modifyPathArg] at h
  case clearPath q =>
    cases x with
    | inst i =>
      cases i with
      | mk c path ps qs => simp only [modifyPathArg] at h; cases h; simp [sentOk, instPath, instSetPath]
    | _ => simp [modifyPathArg] at h

/-- a plain value: a string, bool, int, None, list, or unsupported object — anything `tocimxml` writes as VALUE /
    VALUE.ARRAY or refuses -/
def plainArg : Arg → Bool
  | .none | .str _ | .bool _ | .int _ | .list _ | .other => true
  | _ => false

theorem plain_sent {a : Arg} (h : plainArg a = true) : sentOk a = true ∧ argShape a = true := by
  cases a <;> simp [plainArg, sentOk, argShape] at h ⊢

theorem checkFn_sent_establish {c : Req.Check} {p : String} {f : Arg → Except PyExc Arg} (hc : checkFn c = some (p, f))
    (he : establishesB c = true) {x a : Arg} (h : f x = .ok a) : sentOk a = true := by
  cases c <;> simp only [checkFn, Option.some.injEq, Prod.mk.injEq, reduceCtorEq] at hc <;>
    simp only [establishesB, reduceCtorEq] at he
  all_goals obtain ⟨_, rfl⟩ := hc
  case className q req =>
    cases x <;> simp only [iparamClassName] at h <;> (try split at h) <;> (try cases h) <;>
      simp [sentOk, pathStripped_ns, pathNs_cls_none]
  case instanceName q req =>
    cases x <;> simp only [iparamInstanceName] at h <;> (try split at h) <;> (try cases h) <;>
      simp [sentOk, pathStripped_ns, pathNs_cls_none]
  case objectName q req =>
    cases x <;> simp only [iparamObjectName] at h <;> (try split at h) <;> (try cases h) <;>
      simp [sentOk, pathStripped_ns, pathNs_cls_none]
  case string q req =>
    cases x <;> simp only [iparamString] at h <;> (try split at h) <;> (try cases h) <;> simp [sentOk]
  case qualDecl q req =>
    cases x <;> simp only [iparamQualDecl] at h <;> (try split at h) <;> (try cases h) <;> simp [sentOk]
  case klass q =>
    cases x with
    | cls c => cases c; simp only [iparamClass] at h; cases h; simp [sentOk]
    | none => simp only [iparamClass] at h; cases h; rfl
    | _ => simp [iparamClass] at h
  case bool q => cases x <;> simp only [iparamBool] at h <;> (try cases h) <;> rfl
  case posInt q =>
    cases x <;> simp only [iparamPosInt] at h <;> (try split at h) <;> (try cases h) <;> rfl
  case propertyList q => cases x <;> simp only [iparamPropertyList] at h <;> (try split at h) <;> (try cases h) <;> rfl
  case maxObjOpenPull q =>
    simp only [validateMaxObj] at h
    obtain ⟨y, hy, h⟩ := bind_ok h
    cases h
    cases x <;> simp only [iparamPosInt] at hy <;> (try cases hy) <;> rfl
  case context q =>
    simp only [validateContextArg] at h
    obtain ⟨y, hy, h⟩ := bind_ok h
    cases h
    cases x <;> simp only [validateContext] at hy <;> (try cases hy) <;> rfl
  case clearPathNamespace q =>
    cases x with
    | inst i =>
      cases i with
      | mk c path ps qs =>
        simp only [modifyPathArg] at h; cases h
        cases path <;> simp [sentOk, instPath, instSetPath, pathSetNs_none]
    | _ => simp [modifyPathArg] at h
  case clearPath q =>
    cases x with
    | inst i =>
      cases i with
      | mk c path ps qs => simp only [modifyPathArg] at h; cases h; simp [sentOk, instPath, instSetPath]
    | _ => simp [modifyPathArg] at h

/-- statements that only validate their parameter: on success its value is unchanged -/
def keepsB : Req.Check → Bool
  | .maxObjOpenPull _ | .context _ | .requirePath _ | .instance _ => true
  | _ => false

theorem checkFn_keeps {c : Req.Check} {p : String} {f : Arg → Except PyExc Arg} (hc : checkFn c = some (p, f))
    (hk : keepsB c = true) {x a : Arg} (h : f x = .ok a) : a = x := by
  cases c <;> simp only [checkFn, Option.some.injEq, Prod.mk.injEq, reduceCtorEq] at hc <;>
    simp only [keepsB, reduceCtorEq] at hk
  all_goals obtain ⟨_, rfl⟩ := hc
  case maxObjOpenPull q =>
    simp only [validateMaxObj] at h
    obtain ⟨_, _, h⟩ := bind_ok h
    cases h; rfl
  case context q =>
    simp only [validateContextArg] at h
    obtain ⟨_, _, h⟩ := bind_ok h
    cases h; rfl
  case requirePath q =>
    unfold requirePathArg at h
    split at h
    · cases h
    · cases h; rfl
  case «instance» q => cases x <;> simp only [iparamInstance] at h <;> (try cases h) <;> rfl

theorem runNsCheck_get {dn : Str} {s s' : St} {c : Req.Check} (h : runNsCheck dn s c = .ok s') (q : String) :
    s'.get q = s.get q := by
  cases c <;> simp only [runNsCheck] at h
  case nsFromClassNameIfNone p =>
    split at h
    · cases h; rfl
    · cases h; rfl
  case nsFromNamespace => obtain ⟨n, _, h⟩ := bind_ok h; cases h; rfl
  case nsFromObjectName p => obtain ⟨n, _, h⟩ := bind_ok h; cases h; rfl
  case nsFromInstancePath p =>
    split at h
    · obtain ⟨n, _, h⟩ := bind_ok h; cases h; rfl
    · cases h
  case nsFromPathIfNone p =>
    split at h
    · split at h
      · cases h
      · cases h; rfl
      · split at h
        · cases h; rfl
        · cases h; rfl
    · cases h; rfl
  case nsFromInstancePathIfNone p =>
    split at h
    · split at h
      · cases h; rfl
      · cases h; rfl
    · cases h; rfl
  case nsFromContext p =>
    split at h
    · cases h; rfl
    · cases h
  all_goals (cases h; rfl)

/-- one statement: (1) shapes are kept, (2) normalised parameters stay normalised, (3) an establishing statement
    normalises its parameter, (4) other parameters are not touched -/
theorem runCheck_facts {dn : Str} {s s' : St} {c : Req.Check} (h : runCheck dn s c = .ok s') :
    (Good argShape s → Good argShape s') ∧
    (∀ q, sentOk (s.get q) = true → sentOk (s'.get q) = true) ∧
    (∀ p f, checkFn c = some (p, f) → establishesB c = true → sentOk (s'.get p) = true) ∧
    (∀ q, (∀ p f, checkFn c = some (p, f) → p ≠ q ∨ keepsB c = true) → s'.get q = s.get q) := by
  unfold runCheck at h
  cases hc : checkFn c with
  | none =>
    rw [hc] at h
    simp only at h
    have hg := runNsCheck_get h
    exact ⟨fun g q => (by rw [hg]; exact g q), fun q hq => (by rw [hg]; exact hq), fun p f hpf => (by cases hpf),
      fun q _ => hg q⟩
  | some pf =>
    obtain ⟨p, f⟩ := pf
    rw [hc] at h
    simp only at h
    obtain ⟨a, ha, h⟩ := bind_ok h
    cases h
    refine ⟨?_, ?_, ?_, ?_⟩
    · intro g q
      by_cases hq : q = p
      · subst hq
        rcases get_set_same s q a with e | e <;> rw [e]
        · exact checkFn_shape hc (g q) ha
        · rfl
      · rw [get_set_other s p q a hq]; exact g q
    · intro q hq
      by_cases hqp : q = p
      · subst hqp
        rcases get_set_same s q a with e | e <;> rw [e]
        · exact checkFn_sent_preserve hc hq ha
        · rfl
      · rw [get_set_other s p q a hqp]; exact hq
    · intro p' f' hpf he
      cases hpf
      rcases get_set_same s p a with e | e <;> rw [e]
      · exact checkFn_sent_establish hc he ha
      · rfl
    · intro q hq
      by_cases hqp : q = p
      · subst hqp
        rcases hq q f rfl with hne | hk
        · exact absurd rfl hne
        · have := checkFn_keeps hc hk ha
          subst this
          rcases get_set_same' s q (s.get q) with e | e
          · exact e
          · rw [e.1, e.2]
      · exact get_set_other s p q a hqp

/-- does statement `c` leave parameter `q` normalised? -/
def establishesFor (q : String) (c : Req.Check) : Bool :=
  match checkFn c with
  | some (p, _) => p == q && establishesB c
  | none => false

/-- may statement `c` change the value of parameter `q`? -/
def touches (q : String) (c : Req.Check) : Bool :=
  match checkFn c with
  | some (p, _) => p == q && !keepsB c
  | none => false

theorem runChecks_facts {dn : Str} : ∀ {cs : List Req.Check} {s s' : St}, runChecks dn s cs = .ok s' →
    (Good argShape s → Good argShape s') ∧
    (∀ q, (sentOk (s.get q) = true ∨ cs.any (establishesFor q) = true) → sentOk (s'.get q) = true) ∧
    (∀ q, cs.all (fun c => !touches q c) = true → s'.get q = s.get q)
  | [], s, s', h => by
    simp only [runChecks] at h; cases h
    exact ⟨id, fun q hq => by simpa using hq, fun _ _ => rfl⟩
  | c :: cs, s, s', h => by
    simp only [runChecks] at h
    obtain ⟨s1, h1, h⟩ := bind_ok h
    obtain ⟨f1, f2, f3, f4⟩ := runCheck_facts h1
    obtain ⟨r1, r2, r3⟩ := runChecks_facts h
    refine ⟨fun g => r1 (f1 g), ?_, ?_⟩
    · intro q hq
      apply r2 q
      rcases hq with hq | hq
      · exact .inl (f2 q hq)
      · simp only [List.any_cons, Bool.or_eq_true] at hq
        rcases hq with hq | hq
        · left
          unfold establishesFor at hq
          cases hc : checkFn c with
          | none => rw [hc] at hq; simp at hq
          | some pf =>
            obtain ⟨p, f⟩ := pf
            rw [hc] at hq
            simp only [Bool.and_eq_true, beq_iff_eq] at hq
            obtain ⟨rfl, he⟩ := hq
            exact f3 p f hc he
        · exact .inr hq
    · intro q hq
      simp only [List.all_cons, Bool.and_eq_true] at hq
      rw [r3 q hq.2]
      apply f4 q
      intro p f hpf
      have := hq.1
      unfold touches at this
      rw [hpf] at this
      by_cases e : p = q
      · right; simpa [e] using this
      · exact .inl e

/-- **static check of an extracted operation specification**: every parameter passed to `_imethodcall` by name has
    been through a normalising statement; a parameter passed as `P[0]` is not assigned by any statement -/
def specOk (spec : Req.OpSpec) : Bool :=
  spec.params.all (fun x => match x.2 with
    | .arg p => spec.checks.any (establishesFor p)
    | .item0 p => spec.checks.all (fun c => !touches p c))

abbrev lookupArg (args : List (String × Arg)) (n : String) : Arg := getArg args n

theorem init_get (names : List String) (args : List (String × Arg)) (ns : Arg) (q : String) :
    (St.mk ns (names.map (fun n => (n, lookupArg args n)))).get q = lookupArg args q ∨
    (St.mk ns (names.map (fun n => (n, lookupArg args n)))).get q = .none := by
  unfold St.get
  simp only
  induction names with
  | nil => exact .inr rfl
  | cons n rest ih =>
    by_cases hn : n = q
    · subst hn; simp [getArg]
    · have : (n == q) = false := by simpa using hn
      simp [getArg, this]; exact ih

theorem lookupArg_shape {args : List (String × Arg)} (h : ∀ p ∈ args, argShape p.2 = true) (n : String) :
    argShape (lookupArg args n) = true := by
  induction args with
  | nil => rfl
  | cons kv rest ih =>
    obtain ⟨k, v⟩ := kv
    by_cases hk : k = n
    · subst hk; simp [getArg]; exact h (k, v) (by simp)
    · have : (k == n) = false := by simpa using hk
      simp [getArg, this]; exact ih (fun p hp => h p (by simp [hp]))

/-- **request_valid for the intrinsic operations.**  For an operation whose extracted specification passes `specOk`,
    well-shaped argument objects, and (Pull…/CloseEnumeration) a context whose first item is a plain value:
    whenever the method gets as far as sending, the document is valid. -/
theorem runOp_valid (C : Codec) (dn : Str) (spec : Req.OpSpec) (ns : Arg) (args : List (String × Arg))
    (h : Headers) (x : Xml) (hspec : specOk spec = true)
    (hshape : ∀ p ∈ args, argShape p.2 = true)
    (hctx : ∀ n p, (n, PSrc.item0 p) ∈ spec.params → ∀ l, lookupArg args p = .list l → plainArg (listItem l 0) = true)
    (hr : runOp C dn spec ns args = .ok (h, x)) : validTree D x = true := by
  unfold runOp at hr
  obtain ⟨s, hs, hr⟩ := bind_ok hr
  obtain ⟨r1, r2, r3⟩ := runChecks_facts hs
  have hg0 : Good argShape (St.mk ns (spec.argNames.map (fun n => (n, lookupArg args n)))) := by
    intro q
    rcases init_get spec.argNames args ns q with e | e <;> rw [e]
    · exact lookupArg_shape hshape q
    · rfl
  have hg := r1 hg0
  apply imethodcall_valid C spec.name _ _ h x _ hr
  intro pr hpr
  obtain ⟨nm, src⟩ := pr
  obtain ⟨⟨nm', src'⟩, hmem, heq⟩ := List.mem_map.mp hpr
  simp only [Prod.mk.injEq] at heq
  obtain ⟨rfl, rfl⟩ := heq
  have hsp := (List.all_eq_true.mp hspec) (nm', src') hmem
  cases src' with
  | arg p =>
    simp only [srcArg]
    exact ⟨hg p, r2 p (.inr (by simpa using hsp))⟩
  | item0 p =>
    simp only at hsp
    have hsame := r3 p hsp
    simp only [srcArg]
    rw [hsame]
    rcases init_get spec.argNames args ns p with e | e <;> rw [e]
    · cases hl : lookupArg args p with
      | list l =>
        have := plain_sent (hctx nm' p hmem l hl)
        exact ⟨this.2, this.1⟩
      | _ => exact ⟨rfl, rfl⟩
    · exact ⟨rfl, rfl⟩

/-- every operation method of the table extracted from pywbem/_cim_operations.py passes the static check -/
theorem ops_specOk : Pywbem.Generated.ops.all specOk = true := by decide

end Proofs.DtdReq
