/-
C01 — stage 3b/4: properties (three element forms, with and without EmbeddedObject), generic in the
embedded-object parser `emb`.
-/
import Proofs.Lemmas.CimXml4

set_option linter.unusedSimpArgs false
set_option linter.unusedVariables false
set_option linter.unusedSectionVars false

namespace Proofs.CimXml
open Pywbem.Model Pywbem.Model.XmlText Pywbem.Proto

/-! ### values of embedded-object properties: first unpacked as strings, then re-parsed -/

/-- what `unpack_value` yields for an array entry / scalar under TYPE string: the text as a string -/
def strOf (C : Codec) : Atom → Atom
  | .null => .null
  | a => .str (atomText C a)

def strVal (C : Codec) : Val → Val
  | .null => .null
  | .scalar a => .scalar (strOf C a)
  | .array l => .array (l.map (strOf C))

theorem strOf_ne_null (C : Codec) (a : Atom) (h : a ≠ .null) : strOf C a = .str (atomText C a) := by
  cases a <;> simp [strOf] at h ⊢

theorem unpackItems_string (C : DecCodec) (l : List Atom) :
    unpackItems C "string".toList (l.map (rawItem C.toCodec)) = .ok (l.map (strOf C.toCodec)) := by
  induction l with
  | nil => rfl
  | cons a l ih =>
    by_cases ha : a = .null
    · subst ha
      simp only [List.map_cons, rawItem, unpackItems, ih, bind_ok, pure_eq_ok, strOf]
    · simp only [List.map_cons, rawItem_ne_null _ a ha, unpackItems, unpackSingle_string, ih, bind_ok, pure_eq_ok,
        strOf_ne_null _ a ha]

theorem embAtom_cases (S : Spec) (a : Atom) (h : SendableEmbAtom S a) :
    (∃ i, a = .einst i) ∨ (∃ c, a = .ecls c) := by
  cases a <;> simp [SendableEmbAtom] at h
  · exact Or.inl ⟨_, rfl⟩
  · exact Or.inr ⟨_, rfl⟩

theorem encVal_scalar_emb (C : Codec) (S : Spec) (a : Atom) (h : SendableEmbAtom S a) :
    encVal C (.scalar a) = [valueElem (atomText C a)] ∧ strOf C a = .str (atomText C a) := by
  rcases embAtom_cases S a h with ⟨i, rfl⟩ | ⟨c, rfl⟩ <;> exact ⟨by simp only [encVal], rfl⟩

/-- value of an EmbeddedObject property as `unpack_value` sees it: strings -/
theorem unpackValue_emb (C : DecCodec) (S : Spec) (ty : Str) (isArray : Bool) (v : Val)
    (h : SendablePropVal S ty isArray true v) (pre : List Xml) (names : List String) (hpre : AllNames pre names)
    (h1 : "VALUE" ∉ names) (h2 : "VALUE.ARRAY" ∉ names) :
    unpackValue C ty (pre ++ encVal C.toCodec v) = .ok (strVal C.toCodec v) := by
  unfold unpackValue
  rw [decRawVals_skip pre _ names hpre h1 h2]
  cases v with
  | null => simp [encVal, decRawVals, strVal]
  | scalar a =>
    simp only [SendablePropVal, if_true] at h
    obtain ⟨_, hty, ha⟩ := h
    subst hty
    obtain ⟨e1, e2⟩ := encVal_scalar_emb C.toCodec S a ha
    rw [e1, decRawVals_cons_value]
    simp only [decRawVals_nil, bind_ok, pure_eq_ok, unpackSingle_string, strVal, e2]
  | array l =>
    simp only [SendablePropVal, if_true] at h
    obtain ⟨_, hty, ha⟩ := h
    subst hty
    simp only [encVal]
    rw [decRawVals_cons_array]
    simp only [decRawVals_nil, bind_ok, pure_eq_ok, unpackItems_string, strVal]

/-- a property value that is neither embedded nor a reference is a plain typed value -/
theorem plainVal_of_propVal (S : Spec) (ty : Str) (isArray : Bool) (v : Val)
    (h : SendablePropVal S ty isArray false v) (hnr : ¬ (isArray = false ∧ ty = "reference".toList)) :
    PlainVal S ty v := by
  cases v with
  | null => trivial
  | scalar a =>
    simp only [SendablePropVal, Bool.false_eq_true, if_false] at h
    obtain ⟨hia, ha⟩ := h
    have hty : ¬ ty = "reference".toList := fun e => hnr ⟨hia, e⟩
    rw [if_neg hty] at ha
    exact ha
  | array l =>
    simp only [SendablePropVal, Bool.false_eq_true, if_false] at h
    exact h.2

/-- element names of the value child, by property form -/
theorem allNames_encVal_prop (C : Codec) (S : Spec) (ty : Str) (isArray e : Bool) (v : Val)
    (h : SendablePropVal S ty isArray e v) (hnr : ¬ (isArray = false ∧ ty = "reference".toList ∧ e = false)) :
    AllNames (encVal C v) [if isArray then "VALUE.ARRAY" else "VALUE"] := by
  cases v with
  | null => simp only [encVal]; exact allNames_nil _
  | scalar a =>
    simp only [SendablePropVal] at h
    obtain ⟨hia, ha⟩ := h
    subst hia
    cases e with
    | true =>
      simp only [if_true] at ha
      rw [(encVal_scalar_emb C S a ha.2).1]
      exact allNames_cons ⟨rfl, by simp [valueElem, name_E]⟩ (allNames_nil _)
    | false =>
      have hty : ¬ ty = "reference".toList := fun e => hnr ⟨rfl, e, rfl⟩
      simp only [Bool.false_eq_true, if_false, if_neg hty] at ha
      rw [encVal_scalar_plain C S a ty ha]
      exact allNames_cons ⟨rfl, by simp [valueElem, name_E]⟩ (allNames_nil _)
  | array l =>
    simp only [SendablePropVal] at h
    obtain ⟨hia, _⟩ := h
    subst hia
    simp only [encVal]
    exact allNames_cons ⟨rfl, by simp [name_E]⟩ (allNames_nil _)

/-! ### attribute lists of the three property forms -/

def propAttrs (name ty : Str) (origin : Option Str) (propagated : Option Bool) (emb : Option Str) : List (Str × Str) :=
  [("NAME".toList, name), ("TYPE".toList, ty)] ++ optAttr "CLASSORIGIN" origin ++
    optBoolAttr "PROPAGATED" propagated ++ optAttr "EmbeddedObject" emb

def parrAttrs (name ty : Str) (asz : Option Nat) (origin emb : Option Str) (propagated : Option Bool) : List (Str × Str) :=
  [("NAME".toList, name), ("TYPE".toList, ty)] ++ optAttr "ARRAYSIZE" (asz.map natToStr) ++
    optAttr "CLASSORIGIN" origin ++ optAttr "EmbeddedObject" emb ++ optBoolAttr "PROPAGATED" propagated

def prefAttrs (name : Str) (refCls origin : Option Str) (propagated : Option Bool) : List (Str × Str) :=
  [("NAME".toList, name)] ++ optAttr "REFERENCECLASS" refCls ++ optAttr "CLASSORIGIN" origin ++
    optBoolAttr "PROPAGATED" propagated

theorem propAttrs_keysOk (name ty : Str) (origin : Option Str) (propagated : Option Bool) (emb : Option Str) :
    attrKeysOk (propAttrs name ty origin propagated emb) ["TYPE", "NAME"]
      ["CLASSORIGIN", "PROPAGATED", "EmbeddedObject", "EMBEDDEDOBJECT", "xml:lang"] = true := by
  apply attrKeysOk_of
  · intro k hk; simp at hk; rcases hk with rfl | rfl <;> simp [propAttrs, attr_append]
  · unfold propAttrs
    exact keysIn_append (keysIn_append (keysIn_append (keysIn_cons (by simp) (keysIn_cons (by simp) (keysIn_nil _)))
      (keysIn_optAttr (by simp))) (keysIn_optBoolAttr (by simp))) (keysIn_optAttr (by simp))

theorem propAttrs_NAME (name ty : Str) (origin : Option Str) (propagated : Option Bool) (emb : Option Str) :
    getAttrD (propAttrs name ty origin propagated emb) "NAME" "" = name := by
  simp [propAttrs, getAttrD, attr_append]
theorem propAttrs_TYPE (name ty : Str) (origin : Option Str) (propagated : Option Bool) (emb : Option Str) :
    getAttrD (propAttrs name ty origin propagated emb) "TYPE" "" = ty := by
  simp [propAttrs, getAttrD, attr_append]
theorem propAttrs_ORIGIN (name ty : Str) (origin : Option Str) (propagated : Option Bool) (emb : Option Str) :
    Xml.attr (propAttrs name ty origin propagated emb) "CLASSORIGIN".toList = origin := by
  cases origin <;> simp [propAttrs, attr_append]
theorem propAttrs_P (name ty : Str) (origin : Option Str) (propagated : Option Bool) (emb : Option Str) :
    Xml.attr (propAttrs name ty origin propagated emb) "PROPAGATED".toList = propagated.map boolAttr := by
  cases propagated <;> cases origin <;> simp [propAttrs, attr_append]
theorem propAttrs_EMB (name ty : Str) (origin : Option Str) (propagated : Option Bool) (emb : Option Str) :
    embAttrOf (propAttrs name ty origin propagated emb) = emb := by
  cases emb <;> cases propagated <;> cases origin <;> simp [propAttrs, embAttrOf, attr_append]

theorem parrAttrs_keysOk (name ty : Str) (asz : Option Nat) (origin emb : Option Str) (propagated : Option Bool) :
    attrKeysOk (parrAttrs name ty asz origin emb propagated) ["NAME", "TYPE"]
      ["CLASSORIGIN", "PROPAGATED", "ARRAYSIZE", "EmbeddedObject", "EMBEDDEDOBJECT", "xml:lang"] = true := by
  apply attrKeysOk_of
  · intro k hk; simp at hk; rcases hk with rfl | rfl <;> simp [parrAttrs, attr_append]
  · unfold parrAttrs
    exact keysIn_append (keysIn_append (keysIn_append (keysIn_append
      (keysIn_cons (by simp) (keysIn_cons (by simp) (keysIn_nil _)))
      (keysIn_optAttr (by simp))) (keysIn_optAttr (by simp))) (keysIn_optAttr (by simp))) (keysIn_optBoolAttr (by simp))

theorem parrAttrs_NAME (name ty : Str) (asz : Option Nat) (origin emb : Option Str) (propagated : Option Bool) :
    getAttrD (parrAttrs name ty asz origin emb propagated) "NAME" "" = name := by
  simp [parrAttrs, getAttrD, attr_append]
theorem parrAttrs_TYPE (name ty : Str) (asz : Option Nat) (origin emb : Option Str) (propagated : Option Bool) :
    getAttrD (parrAttrs name ty asz origin emb propagated) "TYPE" "" = ty := by
  simp [parrAttrs, getAttrD, attr_append]
theorem parrAttrs_ASZ (name ty : Str) (asz : Option Nat) (origin emb : Option Str) (propagated : Option Bool) :
    Xml.attr (parrAttrs name ty asz origin emb propagated) "ARRAYSIZE".toList = asz.map natToStr := by
  cases asz <;> simp [parrAttrs, attr_append]
theorem parrAttrs_ORIGIN (name ty : Str) (asz : Option Nat) (origin emb : Option Str) (propagated : Option Bool) :
    Xml.attr (parrAttrs name ty asz origin emb propagated) "CLASSORIGIN".toList = origin := by
  cases origin <;> cases asz <;> simp [parrAttrs, attr_append]
theorem parrAttrs_P (name ty : Str) (asz : Option Nat) (origin emb : Option Str) (propagated : Option Bool) :
    Xml.attr (parrAttrs name ty asz origin emb propagated) "PROPAGATED".toList = propagated.map boolAttr := by
  cases propagated <;> cases origin <;> cases asz <;> cases emb <;> simp [parrAttrs, attr_append]
theorem parrAttrs_EMB (name ty : Str) (asz : Option Nat) (origin emb : Option Str) (propagated : Option Bool) :
    embAttrOf (parrAttrs name ty asz origin emb propagated) = emb := by
  cases emb <;> cases propagated <;> cases origin <;> cases asz <;> simp [parrAttrs, embAttrOf, attr_append]

theorem prefAttrs_keysOk (name : Str) (refCls origin : Option Str) (propagated : Option Bool) :
    attrKeysOk (prefAttrs name refCls origin propagated) ["NAME"] ["REFERENCECLASS", "CLASSORIGIN", "PROPAGATED"] = true := by
  apply attrKeysOk_of
  · intro k hk; simp at hk; subst hk; simp [prefAttrs, attr_append]
  · unfold prefAttrs
    exact keysIn_append (keysIn_append (keysIn_append (keysIn_cons (by simp) (keysIn_nil _))
      (keysIn_optAttr (by simp))) (keysIn_optAttr (by simp))) (keysIn_optBoolAttr (by simp))

theorem prefAttrs_NAME (name : Str) (refCls origin : Option Str) (propagated : Option Bool) :
    getAttrD (prefAttrs name refCls origin propagated) "NAME" "" = name := by
  simp [prefAttrs, getAttrD, attr_append]
theorem prefAttrs_REFCLS (name : Str) (refCls origin : Option Str) (propagated : Option Bool) :
    Xml.attr (prefAttrs name refCls origin propagated) "REFERENCECLASS".toList = refCls := by
  cases refCls <;> simp [prefAttrs, attr_append]
theorem prefAttrs_ORIGIN (name : Str) (refCls origin : Option Str) (propagated : Option Bool) :
    Xml.attr (prefAttrs name refCls origin propagated) "CLASSORIGIN".toList = origin := by
  cases origin <;> cases refCls <;> simp [prefAttrs, attr_append]
theorem prefAttrs_P (name : Str) (refCls origin : Option Str) (propagated : Option Bool) :
    Xml.attr (prefAttrs name refCls origin propagated) "PROPAGATED".toList = propagated.map boolAttr := by
  cases propagated <;> cases origin <;> cases refCls <;> simp [prefAttrs, attr_append]

/-! ### generic unfoldings of the three property decoders -/

section
variable (C : DecCodec) (emb : Str → R Atom)

theorem embAttrOk_none (ty : Str) : embAttrOk none ty = true := rfl

theorem embAttrOk_some (c : Char) (cs ty : Str)
    (h : ((c :: cs) = "instance".toList ∨ (c :: cs) = "object".toList) ∧ ty = "string".toList) :
    embAttrOk (some (c :: cs)) ty = true := by
  obtain ⟨h1, h2⟩ := h
  show ((decide ((c :: cs) = "instance".toList) || decide ((c :: cs) = "object".toList)) &&
    decide (ty = "string".toList)) = true
  rw [decide_eq_true h2, Bool.and_true]
  rcases h1 with h1 | h1
  · rw [decide_eq_true h1, Bool.true_or]
  · rw [decide_eq_true h1, Bool.or_true]

theorem decProperty_noemb (t : Xml) (as) (ks : List Xml) (v0 : Val) (pr : Option Bool) (qs : List Qual)
    (hc : checkNode t "PROPERTY" ["TYPE", "NAME"]
      ["CLASSORIGIN", "PROPAGATED", "EmbeddedObject", "EMBEDDEDOBJECT", "xml:lang"]
      (some ["QUALIFIER", "VALUE"]) false = .ok (as, ks))
    (hv : unpackValue C (getAttrD as "TYPE" "") ks = .ok v0)
    (hp : boolAttrOf as "PROPAGATED" "false" = .ok pr) (hq : decQualifiers C ks = .ok qs)
    (he : embAttrOf as = none) (hty : cimTypeOk (getAttrD as "TYPE" "") = true) :
    decProperty C emb t = .ok (.mk (getAttrD as "NAME" "") (getAttrD as "TYPE" "") v0 false none none
      (Xml.attr as "CLASSORIGIN".toList) pr none (dictOfList Qual.name qs)) := by
  unfold decProperty
  simp only [hc, bind_ok, hv, hp, hq, he, Bool.false_eq_true, if_false, pure_eq_ok, embAttrOk_none, hty, Bool.not_true]

theorem decProperty_emb (t : Xml) (as) (ks : List Xml) (v0 v1 : Val) (pr : Option Bool) (qs : List Qual)
    (c : Char) (cs : Str)
    (hc : checkNode t "PROPERTY" ["TYPE", "NAME"]
      ["CLASSORIGIN", "PROPAGATED", "EmbeddedObject", "EMBEDDEDOBJECT", "xml:lang"]
      (some ["QUALIFIER", "VALUE"]) false = .ok (as, ks))
    (hv : unpackValue C (getAttrD as "TYPE" "") ks = .ok v0)
    (hp : boolAttrOf as "PROPAGATED" "false" = .ok pr) (hq : decQualifiers C ks = .ok qs)
    (he : embAttrOf as = some (c :: cs)) (hval : embVal emb v0 = .ok v1)
    (hea : embAttrOk (some (c :: cs)) (getAttrD as "TYPE" "") = true) (hty : cimTypeOk (getAttrD as "TYPE" "") = true) :
    decProperty C emb t = .ok (.mk (getAttrD as "NAME" "") (getAttrD as "TYPE" "") v1 false none none
      (Xml.attr as "CLASSORIGIN".toList) pr (some (c :: cs)) (dictOfList Qual.name qs)) := by
  unfold decProperty
  simp only [hc, bind_ok, hv, hp, hq, he, if_true, hval, pure_eq_ok, hea, hty, Bool.not_true, Bool.false_eq_true,
    if_false]

theorem decPropertyArray_noemb (t : Xml) (as) (ks : List Xml) (v0 : Val) (pr : Option Bool) (qs : List Qual)
    (asz : Option Nat)
    (hc : checkNode t "PROPERTY.ARRAY" ["NAME", "TYPE"]
      ["CLASSORIGIN", "PROPAGATED", "ARRAYSIZE", "EmbeddedObject", "EMBEDDEDOBJECT", "xml:lang"]
      (some ["QUALIFIER", "VALUE.ARRAY"]) false = .ok (as, ks))
    (hv : unpackValue C (getAttrD as "TYPE" "") ks = .ok v0)
    (hp : boolAttrOf as "PROPAGATED" "false" = .ok pr) (hq : decQualifiers C ks = .ok qs)
    (ha : arraySizeOf as = .ok asz) (he : embAttrOf as = none) (hty : cimTypeOk (getAttrD as "TYPE" "") = true) :
    decPropertyArray C emb t = .ok (.mk (getAttrD as "NAME" "") (getAttrD as "TYPE" "") v0 true asz none
      (Xml.attr as "CLASSORIGIN".toList) pr none (dictOfList Qual.name qs)) := by
  unfold decPropertyArray
  simp only [hc, bind_ok, hv, hp, hq, ha, he, Bool.false_eq_true, if_false, pure_eq_ok, embAttrOk_none, hty,
    Bool.not_true]

theorem decPropertyArray_emb (t : Xml) (as) (ks : List Xml) (v0 v1 : Val) (pr : Option Bool) (qs : List Qual)
    (asz : Option Nat) (c : Char) (cs : Str)
    (hc : checkNode t "PROPERTY.ARRAY" ["NAME", "TYPE"]
      ["CLASSORIGIN", "PROPAGATED", "ARRAYSIZE", "EmbeddedObject", "EMBEDDEDOBJECT", "xml:lang"]
      (some ["QUALIFIER", "VALUE.ARRAY"]) false = .ok (as, ks))
    (hv : unpackValue C (getAttrD as "TYPE" "") ks = .ok v0)
    (hp : boolAttrOf as "PROPAGATED" "false" = .ok pr) (hq : decQualifiers C ks = .ok qs)
    (ha : arraySizeOf as = .ok asz) (he : embAttrOf as = some (c :: cs)) (hval : embVal emb v0 = .ok v1)
    (hea : embAttrOk (some (c :: cs)) (getAttrD as "TYPE" "") = true) (hty : cimTypeOk (getAttrD as "TYPE" "") = true) :
    decPropertyArray C emb t = .ok (.mk (getAttrD as "NAME" "") (getAttrD as "TYPE" "") v1 true asz none
      (Xml.attr as "CLASSORIGIN".toList) pr (some (c :: cs)) (dictOfList Qual.name qs)) := by
  unfold decPropertyArray
  simp only [hc, bind_ok, hv, hp, hq, ha, he, if_true, hval, pure_eq_ok, hea, hty, Bool.not_true,
    Bool.false_eq_true, if_false]

theorem decPropertyReference_null (t : Xml) (as) (ks : List Xml) (pr : Option Bool) (qs : List Qual)
    (hc : checkNode t "PROPERTY.REFERENCE" ["NAME"] ["REFERENCECLASS", "CLASSORIGIN", "PROPAGATED"]
      (some ["QUALIFIER", "VALUE.REFERENCE"]) false = .ok (as, ks))
    (hv : decValueRefs C ks = .ok [])
    (hp : boolAttrOf as "PROPAGATED" "false" = .ok pr) (hq : decQualifiers C ks = .ok qs) :
    decPropertyReference C t = .ok (.mk (getAttrD as "NAME" "") "reference".toList .null false none
      (Xml.attr as "REFERENCECLASS".toList) (Xml.attr as "CLASSORIGIN".toList) pr none (dictOfList Qual.name qs)) := by
  unfold decPropertyReference
  simp only [hc, bind_ok, hv, hp, hq, pure_eq_ok]

theorem decPropertyReference_one (t : Xml) (as) (ks : List Xml) (pr : Option Bool) (qs : List Qual) (p : Path)
    (hc : checkNode t "PROPERTY.REFERENCE" ["NAME"] ["REFERENCECLASS", "CLASSORIGIN", "PROPAGATED"]
      (some ["QUALIFIER", "VALUE.REFERENCE"]) false = .ok (as, ks))
    (hv : decValueRefs C ks = .ok [p])
    (hp : boolAttrOf as "PROPAGATED" "false" = .ok pr) (hq : decQualifiers C ks = .ok qs) :
    decPropertyReference C t = .ok (.mk (getAttrD as "NAME" "") "reference".toList (.scalar (.ref p)) false none
      (Xml.attr as "REFERENCECLASS".toList) (Xml.attr as "CLASSORIGIN".toList) pr none (dictOfList Qual.name qs)) := by
  unfold decPropertyReference
  simp only [hc, bind_ok, hv, hp, hq, pure_eq_ok]

end

end Proofs.CimXml
