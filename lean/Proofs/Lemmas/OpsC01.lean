/-
C04 — the object-valued part from the C01 theorems: the hypothesis records `ObjRT` (parameters) and
`ChildRT.iret` (result lists) of Proofs/Lemmas/Ops.lean discharged from the C01 object round trip
(`Proofs.CimXml.rt_obj`, `rt_path`, `rt_inst`), the wire lemma `wireTree_norm` (the receiver sees the tree up to
text chunking) and `decodeTop_norm` & co. (the decoders are blind to text chunking).
-/
import Proofs.Lemmas.Ops
import Proofs.Lemmas.CimXml15
import Proofs.Lemmas.XmlParse

set_option linter.unusedSimpArgs false
set_option linter.unusedVariables false

namespace Proofs.OpsC01
open Pywbem.Model Pywbem.Model.XmlText Pywbem.Model.XmlParse Pywbem.Model.Ops Pywbem.Proto
open Proofs.Ops Proofs.CimXml Proofs.XmlParse Pywbem.Generated.OpsSig

/-- an object the C01 round trip speaks about, whose encoding the wire leaves alone up to text chunking: sendable
    (C01), embedded nesting within the parser's depth, element/attribute names are XML Names and all characters
    XML Chars (`WfTree`), no CR in texts, no TAB/LF/CR in attribute values (`SoftStable`; empty string values are
    allowed) -/
def WireOk (C : DecCodec) (S : Spec) (d : Nat) (o : Obj) : Prop :=
  Sendable S o ∧ embDepth o ≤ d ∧ WfTree (encObj C.toCodec o) ∧ SoftStable (encObj C.toCodec o)

/-- **`ObjRT` discharged from C01**: for such objects the server-side decoder applied to the tree as it arrives
    gives the object with the DSP0201 defaults -/
theorem objrt_from_C01 (C : DecCodec) (S : Spec) (hC : CodecOk C S) (d : Nat) :
    ObjRT C d (WireOk C S d) (wdObj C.toCodec) := by
  constructor
  intro o ⟨hs, hd, hw, hst⟩
  refine ⟨normTree (encObj C.toCodec o), wireTree_norm _ hw hst, ?_⟩
  unfold decode
  rw [decodeTop_norm]
  exact rt_obj C S hC o hs d hd

/-! ### result items that travel as one of the element kinds `parse_any` returns as a plain object -/

/-- the object whose `tocimxml()` the server writes for a result item (facade forms), when the item travels as
    INSTANCE / VALUE.NAMEDINSTANCE / VALUE.INSTANCEWITHPATH / INSTANCENAME / INSTANCEPATH / CLASSNAME / CLASS /
    QUALIFIER.DECLARATION; `none` for the tagged forms and for paths lacking what the form needs -/
def plainObjOf (host op : Str) : RItem → Option Obj
  | .inst (.mk c p ps qs) =>
    match instForm op with
    | .instance => some (.inst (.mk c none ps qs))
    | .named =>
      match p with
      | some (.inst c' _ _ ks) => some (.inst (.mk c (some (.inst c' none none ks)) ps qs))
      | _ => none
    | .withPath =>
      match p with
      | some (.inst c' h (some n) ks) => some (.inst (.mk c (some (.inst c' (some (h.getD host)) (some n) ks)) ps qs))
      | _ => none
    | .valueObject => none
  | .path (.inst c h ns ks) =>
    match nameForm op with
    | .instanceName => some (.path (.inst c none none ks))
    | .instancePath =>
      match ns with
      | some n => some (.path (.inst c (some (h.getD host)) (some n) ks))
      | none => none
  | .path (.cls c _ _) => some (.path (.cls c none none))
  | .cls c => some (.cls c)
  | .qdecl q => some (.qdecl (dropAnyFalse q))
  | _ => none

theorem ritemXml_plain (C : Codec) (host op : Str) (x : RItem) (o : Obj) (h : plainObjOf host op x = some o) :
    ritemXml C host op x = encObj C o := by
  cases x with
  | inst i =>
    obtain ⟨c, p, ps, qs⟩ := i
    simp only [plainObjOf] at h
    cases hf : instForm op with
    | «instance» =>
      simp only [hf, Option.some.injEq] at h; subst h
      simp [ritemXml, hf, encObj, encInst, encInstElem, E]
    | named =>
      simp only [hf] at h
      match p, h with
      | some (.inst c' hh nn ks), h =>
        simp only [Option.some.injEq] at h; subst h
        simp [ritemXml, hf, encObj, encInst, encInstElem, Inst.pathD, Path.bare, E]
    | withPath =>
      simp only [hf] at h
      match p, h with
      | some (.inst c' hh (some n) ks), h =>
        simp only [Option.some.injEq] at h; subst h
        simp [ritemXml, hf, encObj, encInst, encInstElem, Inst.pathD, Path.withHostD, E]
    | valueObject => simp [hf] at h
  | path p =>
    cases p with
    | inst c hh ns ks =>
      simp only [plainObjOf] at h
      cases hf : nameForm op with
      | instanceName =>
        simp only [hf, Option.some.injEq] at h; subst h
        simp [ritemXml, hf, encObj]
      | instancePath =>
        simp only [hf] at h
        match ns, h with
        | some n, h =>
          simp only [Option.some.injEq] at h; subst h
          simp [ritemXml, hf, encObj, Path.withHostD]
    | cls c hh ns =>
      simp only [plainObjOf, Option.some.injEq] at h; subst h
      simp [ritemXml, encObj]
  | cls c => simp only [plainObjOf, Option.some.injEq] at h; subst h; simp [ritemXml, encObj]
  | qdecl q => simp only [plainObjOf, Option.some.injEq] at h; subst h; simp [ritemXml, encObj]
  | opInst i => simp [plainObjOf] at h
  | opPath p => simp [plainObjOf] at h
  | opCls p c => simp [plainObjOf] at h

/-- the root element names under which `decRetItem` hands the element to `parse_any` unchanged -/
def plainRootNames : List String :=
  ["CLASSNAME", "INSTANCENAME", "QUALIFIER.DECLARATION", "CLASS", "INSTANCE", "INSTANCEPATH",
   "VALUE.NAMEDINSTANCE", "VALUE.INSTANCEWITHPATH"]

theorem decRetItem_plainRoot (C : DecCodec) (emb : Str → R Atom) (m : String) (hm : m ∈ plainRootNames)
    (as : List (Str × Str)) (ks : List Xml) :
    decRetItem C emb (.elem m.toList as ks) =
      (match decodeTop C emb (.elem m.toList as ks) with
       | .ok o => .ok (.plain o)
       | .error e => .error e) := by
  simp only [plainRootNames, List.mem_cons, List.mem_nil_iff, or_false] at hm
  rcases hm with rfl | rfl | rfl | rfl | rfl | rfl | rfl | rfl <;>
    (simp [decRetItem, nameIn, Xml.name, pure, Except.pure, bind, Except.bind]
     cases decodeTop C emb _ <;> rfl)

/-- every object `plainObjOf` yields is encoded with one of those roots -/
theorem plainObjOf_root (C : Codec) (host op : Str) (x : RItem) (o : Obj) (h : plainObjOf host op x = some o) :
    ∃ m ∈ plainRootNames, ∃ as ks, encObj C o = .elem m.toList as ks := by
  cases x with
  | inst i =>
    obtain ⟨c, p, ps, qs⟩ := i
    simp only [plainObjOf] at h
    cases hf : instForm op with
    | «instance» =>
      simp only [hf, Option.some.injEq] at h; subst h
      exact ⟨"INSTANCE", by simp [plainRootNames], _, _, by simp only [encObj, encInst, E]; rfl⟩
    | named =>
      simp only [hf] at h
      match p, h with
      | some (.inst c' hh nn ks), h =>
        simp only [Option.some.injEq] at h; subst h
        exact ⟨"VALUE.NAMEDINSTANCE", by simp [plainRootNames], _, _, by simp only [encObj, encInst, E]; rfl⟩
    | withPath =>
      simp only [hf] at h
      match p, h with
      | some (.inst c' hh (some n) ks), h =>
        simp only [Option.some.injEq] at h; subst h
        exact ⟨"VALUE.INSTANCEWITHPATH", by simp [plainRootNames], _, _, by simp only [encObj, encInst, E]; rfl⟩
    | valueObject => simp [hf] at h
  | path p =>
    cases p with
    | inst c hh ns ks =>
      simp only [plainObjOf] at h
      cases hf : nameForm op with
      | instanceName =>
        simp only [hf, Option.some.injEq] at h; subst h
        exact ⟨"INSTANCENAME", by simp [plainRootNames], _, _, by simp only [encObj, encPath, E]; rfl⟩
      | instancePath =>
        simp only [hf] at h
        match ns, h with
        | some n, h =>
          simp only [Option.some.injEq] at h; subst h
          exact ⟨"INSTANCEPATH", by simp [plainRootNames], _, _, by simp only [encObj, encPath, E]; rfl⟩
    | cls c hh ns =>
      simp only [plainObjOf, Option.some.injEq] at h; subst h
      exact ⟨"CLASSNAME", by simp [plainRootNames], _, _, by simp only [encObj, encPath, E]; rfl⟩
  | cls c =>
    simp only [plainObjOf, Option.some.injEq] at h; subst h
    obtain ⟨n, s, p, ps, ms, qs⟩ := c
    exact ⟨"CLASS", by simp [plainRootNames], _, _, by simp only [encObj, encCls, E]; rfl⟩
  | qdecl q =>
    simp only [plainObjOf, Option.some.injEq] at h; subst h
    exact ⟨"QUALIFIER.DECLARATION", by simp [plainRootNames], _, _, by simp only [encObj, encQualDecl, E]; rfl⟩
  | opInst i => simp [plainObjOf] at h
  | opPath p => simp [plainObjOf] at h
  | opCls p c => simp [plainObjOf] at h

/-- one plain result item: written by the server, read by the client's parser from the tree as it arrives -/
theorem decRetItem_plain (C : DecCodec) (S : Spec) (hC : CodecOk C S) (d : Nat) (host op : Str) (x : RItem) (o : Obj)
    (h : plainObjOf host op x = some o) (hs : Sendable S o) (hd : embDepth o ≤ d) :
    decRetItem C (embAt C d) (normTree (ritemXml C.toCodec host op x)) = .ok (.plain (wdObj C.toCodec o)) := by
  obtain ⟨m, hm, as, ks, he⟩ := plainObjOf_root C.toCodec host op x o h
  have hr := rt_obj C S hC o hs d hd
  unfold decode at hr
  rw [← decodeTop_norm] at hr
  rw [ritemXml_plain C.toCodec host op x o h, he] at *
  rw [normTree_elem] at hr ⊢
  rw [decRetItem_plainRoot C _ m hm, hr]

/-! ### lists -/

theorem wfKids_of_all {l : List Xml} (h : ∀ k ∈ l, wfTree k = true) : wfKids l = true := by
  induction l with
  | nil => rfl
  | cons a r ih => simp [wfKids, h a (by simp), ih (fun k hk => h k (by simp [hk]))]

theorem softKids_of_all {l : List Xml} (h : ∀ k ∈ l, softTree k = true) : softKids l = true := by
  induction l with
  | nil => rfl
  | cons a r ih => simp [softKids, h a (by simp), ih (fun k hk => h k (by simp [hk]))]

/-- a list of elements after the wire: every element normalised, nothing else -/
theorem normKids_allElem {l : List Xml} (he : AllElem l) : normKids [] l = l.map normTree := by
  induction l with
  | nil => simp [normKids, flushT]
  | cons a r ih =>
    have ha := he a (by simp)
    cases a with
    | text s => simp [Xml.isElem] at ha
    | elem n as kk =>
      rw [normKids_elem, flushT_nil, ih (fun k hk => he k (by simp [hk]))]
      rfl

theorem normTree_isElem (t : Xml) (h : t.isElem = true) : (normTree t).isElem = true := by
  cases t with
  | text s => simp [Xml.isElem] at h
  | elem n as ks => rw [normTree_elem]; rfl

theorem firstElem_cons_elem (n : Str) (as : List (Str × Str)) (kk ks : List Xml) :
    firstElem (.elem n as kk :: ks) = some (.elem n as kk) := rfl

/-- `list_of_same` over a list of elements that all carry the name `nm` and each parse to `v x` -/
theorem decRetItems_map {α : Type} (C : DecCodec) (emb : Str → R Atom) (nm : Str) (f : α → Xml) (v : α → CItem)
    (l : List α) (h : ∀ x ∈ l, (f x).isElem = true ∧ (f x).name = nm ∧ decRetItem C emb (f x) = .ok (v x)) :
    decRetItems C emb nm (l.map f) = .ok (l.map v) := by
  induction l with
  | nil => simp [decRetItems, pure, Except.pure]
  | cons a r ih =>
    obtain ⟨h1, h2, h3⟩ := h a (by simp)
    have ih' := ih (fun x hx => h x (by simp [hx]))
    cases hfa : f a with
    | text s => rw [hfa] at h1; simp [Xml.isElem] at h1
    | elem n as kk =>
      rw [hfa] at h2 h3
      simp only [Xml.name] at h2
      subst h2
      simp [List.map_cons, hfa, decRetItems, Xml.name, h3, ih', pure, Except.pure, bind, Except.bind]

/-- a homogeneous list of result items, each of which passes the wire up to text chunking and is read back as
    `v x` from the tree as it arrives -/
theorem iret_of_items (C : DecCodec) (d : Nat) (host op : Str) (l : List RItem) (v : RItem → CItem) (nm : Str)
    (h : ∀ x ∈ l, (ritemXml C.toCodec host op x).isElem = true ∧ (ritemXml C.toCodec host op x).name = nm ∧
      wfTree (ritemXml C.toCodec host op x) = true ∧ softTree (ritemXml C.toCodec host op x) = true ∧
      decRetItem C (embAt C d) (normTree (ritemXml C.toCodec host op x)) = .ok (v x)) :
    ChildRT C (embAt C d) host op (.iret l) (.iret (l.map v)) := by
  have hmap : ritemsXml C.toCodec host op l = l.map (ritemXml C.toCodec host op) := by
    clear h
    induction l with
    | nil => rfl
    | cons a r ih => simp [ritemsXml, ih]
  have hall0 : AllElem (l.map (ritemXml C.toCodec host op)) := by
    intro k hk
    simp only [List.mem_map] at hk
    obtain ⟨x, hx, rfl⟩ := hk
    exact (h x hx).1
  let g := fun x => normTree (ritemXml C.toCodec host op x)
  have hall : AllElem (l.map g) := by
    intro k hk
    simp only [List.mem_map] at hk
    obtain ⟨x, hx, rfl⟩ := hk
    exact normTree_isElem _ (h x hx).1
  have hwf : wfKids (l.map (ritemXml C.toCodec host op)) = true := by
    apply wfKids_of_all
    intro k hk
    simp only [List.mem_map] at hk
    obtain ⟨x, hx, rfl⟩ := hk
    exact (h x hx).2.2.1
  have hst : softKids (l.map (ritemXml C.toCodec host op)) = true := by
    apply softKids_of_all
    intro k hk
    simp only [List.mem_map] at hk
    obtain ⟨x, hx, rfl⟩ := hk
    exact (h x hx).2.2.2.1
  have hdec := decRetItems_map C (embAt C d) nm g v l
    (fun x hx => ⟨normTree_isElem _ (h x hx).1, by rw [normTree_name]; exact (h x hx).2.1, (h x hx).2.2.2.2⟩)
  refine .iret l _ ⟨l.map g, ?_, hall, ?_⟩
  · rw [hmap, wireKids_norm _ [] (by intro c hc; simp at hc) (by simp) hwf hst, normKids_allElem hall0,
      List.map_map]
    rfl
  · have hnt := noText_allElem hall
    cases l with
    | nil => simp [decIReturnValue, checkNode, attrKeysOk, noText, firstElem, pure, Except.pure, bind, Except.bind]
    | cons a r =>
      have ha : (g a).isElem = true := normTree_isElem _ (h a (by simp)).1
      have hn : (g a).name = nm := by rw [normTree_name]; exact (h a (by simp)).2.1
      cases hfa : g a with
      | text s => rw [hfa] at ha; simp [Xml.isElem] at ha
      | elem n as kk =>
        rw [hfa] at hn
        simp only [Xml.name] at hn
        subst hn
        simp only [List.map_cons, hfa] at hdec hnt ⊢
        simp [decIReturnValue, checkNode, attrKeysOk, hnt, firstElem, Xml.name, hdec, pure, Except.pure, bind,
          Except.bind]

/-- a homogeneous list of plain result items (instances, instance names / paths, class names, classes, qualifier
    declarations) passes the wire and is read back item by item: `ChildRT.iret` from C01 -/
theorem iret_plain (C : DecCodec) (S : Spec) (hC : CodecOk C S) (d : Nat) (host op : Str) (l : List RItem)
    (view : RItem → Obj) (nm : Str)
    (h : ∀ x ∈ l, plainObjOf host op x = some (view x) ∧ WireOk C S d (view x) ∧
      (encObj C.toCodec (view x)).name = nm) :
    ChildRT C (embAt C d) host op (.iret l) (.iret (l.map (fun x => CItem.plain (wdObj C.toCodec (view x))))) := by
  apply iret_of_items C d host op l _ nm
  intro x hx
  obtain ⟨h1, ⟨hs, hd, hw, hst⟩, h3⟩ := h x hx
  have hxml := ritemXml_plain C.toCodec host op x _ h1
  obtain ⟨m, _, as, ks, he⟩ := plainObjOf_root C.toCodec host op x _ h1
  refine ⟨by rw [hxml, he]; rfl, by rw [hxml]; exact h3, by rw [hxml]; exact hw, by rw [hxml]; exact hst,
    decRetItem_plain C S hC d host op x _ h1 hs hd⟩

/-! ### association results: VALUE.OBJECTWITHPATH (instances) and OBJECTPATH (names) -/

/-- an instance path that carries host and namespace: what VALUE.OBJECTWITHPATH / OBJECTPATH need -/
def FullInstPath : Path → Prop
  | .inst _ (some _) (some _) _ => True
  | _ => False

theorem encPath_full_root (C : Codec) (p : Path) (h : FullInstPath p) :
    ∃ ks, encPath C p = .elem "INSTANCEPATH".toList [] ks := by
  match p, h with
  | .inst c (some hh) (some n) ks, _ => exact ⟨_, by simp only [encPath, E]; rfl⟩

theorem decRetItem_opPath (C : DecCodec) (S : Spec) (hC : CodecOk C S) (d : Nat) (p : Path) (hf : FullInstPath p)
    (hs : SendablePath S p) :
    decRetItem C (embAt C d) (normTree (E "OBJECTPATH" [] [encPath C.toCodec p])) =
      .ok (.tagged "OBJECTPATH".toList (.obj (.path (wdPath C.toCodec p)))) := by
  obtain ⟨ks, he⟩ := encPath_full_root C.toCodec p hf
  have hr := rt_path C S hC p hs
  rw [← decPathAny_norm] at hr
  rw [he] at hr ⊢
  rw [normTree_elem] at hr
  simp at hr
  simp [E, normTree_elem, normKids_elem, normKids_nil, flushT, decRetItem, checkNode, attrKeysOk, noText, oneChild,
    Xml.elemKids, nameIn, Xml.name, hr, pure, Except.pure, bind, Except.bind]

theorem decRetItem_opInst (C : DecCodec) (S : Spec) (hC : CodecOk C S) (d : Nat) (p : Path) (i : Inst)
    (hf : FullInstPath p) (hs : SendablePath S p) (hi : SendableInstBody S i) (hd : depthInst i ≤ d) :
    decRetItem C (embAt C d) (normTree (E "VALUE.OBJECTWITHPATH" [] [encPath C.toCodec p, encInstElem C.toCodec i])) =
      .ok (.tagged "VALUE.OBJECTWITHPATH".toList
        (.obj (.inst (Inst.setPath (wdPath C.toCodec p) (wdInstNoPath C.toCodec i))))) := by
  obtain ⟨ks, he⟩ := encPath_full_root C.toCodec p hf
  have hr := rt_path C S hC p hs
  have hri := rt_inst C S hC i d hi hd
  rw [← decPathAny_norm] at hr
  rw [← decInstance_norm] at hri
  obtain ⟨c, pp, ps, qs⟩ := i
  rw [he] at hr ⊢
  simp only [encInstElem, E] at hri ⊢
  rw [normTree_elem] at hr hri
  simp at hr hri
  simp [normTree_elem, normKids_elem, normKids_nil, flushT, decRetItem, checkNode, attrKeysOk, noText, Xml.elemKids,
    Xml.name, hr, hri, pure, Except.pure, bind, Except.bind]

end Proofs.OpsC01
