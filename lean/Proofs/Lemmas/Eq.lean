/-
Helper lemmas for C05 (Model/Eq.lean): induction principle for the nested `Obj`, characterisations of the
list / dict / attribute recursions, the pigeonhole lemma behind the symmetry of NocaseDict.__eq__,
and the algebraic laws of `eqObj` proved by induction over all objects.
-/
import Pywbem.Model.Eq

namespace Proofs.Eq
open Pywbem.Model.Eq Pywbem.Generated.Slots

/-! ### induction principle -/

mutual
theorem Obj.ind' {P : Obj → Prop} (hnone : P .none) (hatom : ∀ a, P (.atom a))
    (hlist : ∀ id xs, (∀ x ∈ xs, P x) → P (.list id xs))
    (hdict : ∀ id es, (∀ e ∈ es, P e.2) → P (.dict id es))
    (hnode : ∀ id k as, (∀ x ∈ as, P x) → P (.node id k as)) : ∀ a, P a
  | .none => hnone
  | .atom a => hatom a
  | .list id xs => hlist id xs (Obj.indList hnone hatom hlist hdict hnode xs)
  | .dict id es => hdict id es (Obj.indEntries hnone hatom hlist hdict hnode es)
  | .node id k as => hnode id k as (Obj.indList hnone hatom hlist hdict hnode as)
theorem Obj.indList {P : Obj → Prop} (hnone : P .none) (hatom : ∀ a, P (.atom a))
    (hlist : ∀ id xs, (∀ x ∈ xs, P x) → P (.list id xs))
    (hdict : ∀ id es, (∀ e ∈ es, P e.2) → P (.dict id es))
    (hnode : ∀ id k as, (∀ x ∈ as, P x) → P (.node id k as)) : ∀ xs : List Obj, ∀ x ∈ xs, P x
  | [] => by simp
  | y :: ys => by
    intro x hx
    rcases List.mem_cons.mp hx with h | h
    · rw [h]; exact Obj.ind' hnone hatom hlist hdict hnode y
    · exact Obj.indList hnone hatom hlist hdict hnode ys x h
theorem Obj.indEntries {P : Obj → Prop} (hnone : P .none) (hatom : ∀ a, P (.atom a))
    (hlist : ∀ id xs, (∀ x ∈ xs, P x) → P (.list id xs))
    (hdict : ∀ id es, (∀ e ∈ es, P e.2) → P (.dict id es))
    (hnode : ∀ id k as, (∀ x ∈ as, P x) → P (.node id k as)) : ∀ es : List (Key × Obj), ∀ e ∈ es, P e.2
  | [] => by simp
  | (k, v) :: es => by
    intro x hx
    rcases List.mem_cons.mp hx with h | h
    · rw [h]; exact Obj.ind' hnone hatom hlist hdict hnode v
    · exact Obj.indEntries hnone hatom hlist hdict hnode es x h
end

/-! ### atoms and names -/

theorem eqAtom_refl (a : Atom) (h : a ≠ .nan) : eqAtom a a = true := by
  cases a <;> simp_all [eqAtom]

theorem eqAtom_symm (a b : Atom) : eqAtom a b = eqAtom b a := by
  rw [Bool.eq_iff_iff]
  cases a <;> cases b <;> simp [eqAtom] <;> grind

theorem eqAtom_trans (a b c : Atom) (h1 : eqAtom a b = true) (h2 : eqAtom b c = true) : eqAtom a c = true := by
  cases a <;> cases b <;> simp [eqAtom] at h1 <;> cases c <;> simp [eqAtom] at h2 ⊢ <;> simp_all

theorem eqAtom_iff_norm (a b : Atom) (ha : a ≠ .nan) : eqAtom a b = true ↔ normAtom a = normAtom b := by
  cases a <;> cases b <;> simp_all [eqAtom, normAtom]

theorem hashAtom_eq {β} (H : PyHash β) (a b : Atom) (h : eqAtom a b = true) : hashAtom H a = hashAtom H b := by
  cases a <;> cases b <;> simp [eqAtom] at h <;> simp_all [hashAtom]

theorem eqName_refl (C : CaseOps) (a : Obj) (h : isName a = true) : eqName C a a = true := by
  cases a with
  | atom x => cases x <;> simp_all [isName, eqName]
  | _ => simp_all [isName, eqName]

theorem eqName_symm (C : CaseOps) (a b : Obj) : eqName C a b = eqName C b a := by
  rw [Bool.eq_iff_iff]
  cases a with
  | atom x =>
    cases b with
    | atom y => cases x <;> cases y <;> simp [eqName] <;> grind
    | _ => cases x <;> simp [eqName]
  | none => cases b with
    | atom y => cases y <;> simp [eqName]
    | _ => simp [eqName]
  | _ => cases b with
    | atom y => cases y <;> simp [eqName]
    | _ => simp [eqName]

/-- shape of a true `eqName` -/
theorem eqName_cases (C : CaseOps) (a b : Obj) (h : eqName C a b = true) :
    (a = .none ∧ b = .none) ∨ ∃ s t, a = .atom (.str s) ∧ b = .atom (.str t) ∧ C.lower s = C.lower t := by
  cases a with
  | none => cases b with
    | none => exact Or.inl ⟨rfl, rfl⟩
    | atom y => cases y <;> simp [eqName] at h
    | _ => simp [eqName] at h
  | atom x =>
    cases b with
    | atom y =>
      cases x <;> cases y <;> simp [eqName] at h
      exact Or.inr ⟨_, _, rfl, rfl, h⟩
    | _ => cases x <;> simp [eqName] at h
  | _ => cases b with
    | atom y => cases y <;> simp [eqName] at h
    | _ => simp [eqName] at h

theorem eqName_trans (C : CaseOps) (a b c : Obj) (h1 : eqName C a b = true) (h2 : eqName C b c = true) :
    eqName C a c = true := by
  rcases eqName_cases C a b h1 with ⟨rfl, rfl⟩ | ⟨s, t, rfl, rfl, hst⟩
  · exact h2
  · rcases eqName_cases C _ c h2 with ⟨h, _⟩ | ⟨s', t', h, rfl, hst'⟩
    · cases h
    · cases h; simp [eqName, hst, hst']

theorem hashName_eq {β} (C : CaseOps) (H : PyHash β) (a b : Obj) (h : eqName C a b = true) :
    hashName C H a = hashName C H b := by
  rcases eqName_cases C a b h with ⟨rfl, rfl⟩ | ⟨s, t, rfl, rfl, hst⟩
  · rfl
  · simp [hashName, hst]

/-! ### NocaseDict lookup -/

theorem lookup_congr (C : CaseOps) (k k' : Key) (h : ckey C k = ckey C k') (fs : List (Key × Obj)) :
    lookup C k fs = lookup C k' fs := by
  induction fs with
  | nil => rfl
  | cons e fs ih => obtain ⟨k0, v⟩ := e; simp [lookup, h, ih]

theorem lookup_some_mem (C : CaseOps) (k : Key) (fs : List (Key × Obj)) (w : Obj)
    (h : lookup C k fs = some w) : ∃ k', (k', w) ∈ fs ∧ ckey C k' = ckey C k := by
  induction fs with
  | nil => simp [lookup] at h
  | cons e fs ih =>
    obtain ⟨k0, v⟩ := e
    simp only [lookup] at h
    by_cases hk : ckey C k0 = ckey C k
    · simp [hk] at h; subst h; exact ⟨k0, by simp, hk⟩
    · simp [hk] at h
      obtain ⟨k', hm, hk'⟩ := ih h
      exact ⟨k', by simp [hm], hk'⟩

theorem lookup_of_mem (C : CaseOps) (fs : List (Key × Obj)) (hn : (keysOf C fs).Nodup)
    (k' : Key) (w : Obj) (hm : (k', w) ∈ fs) (k : Key) (hk : ckey C k' = ckey C k) :
    lookup C k fs = some w := by
  induction fs with
  | nil => simp at hm
  | cons e fs ih =>
    obtain ⟨k0, v⟩ := e
    simp only [keysOf, List.map_cons, List.nodup_cons] at hn
    simp only [lookup]
    rcases List.mem_cons.mp hm with h | h
    · cases h; simp [hk]
    · have hne : ckey C k0 ≠ ckey C k := by
        intro heq
        apply hn.1
        rw [heq, ← hk]
        exact List.mem_map.mpr ⟨(k', w), h, rfl⟩
      simp [hne]
      exact ih hn.2 h

theorem lookup_none_of_not_mem (C : CaseOps) (fs : List (Key × Obj)) (k : Key)
    (h : ckey C k ∉ keysOf C fs) : lookup C k fs = .none := by
  induction fs with
  | nil => rfl
  | cons e fs ih =>
    obtain ⟨k0, v⟩ := e
    simp only [keysOf, List.map_cons, List.mem_cons, not_or] at h
    simp only [lookup]
    have : ckey C k0 ≠ ckey C k := fun heq => h.1 heq.symm
    simp [this]
    exact ih h.2

/-! ### pigeonhole: an injective list inside a list that is not longer covers it -/

theorem subset_of_nodup_length {α} [DecidableEq α] :
    ∀ (l1 l2 : List α), l1.Nodup → (∀ x ∈ l1, x ∈ l2) → l2.length ≤ l1.length → ∀ y ∈ l2, y ∈ l1
  | [], l2, _, _, hlen => by
    intro y hy
    have : l2 = [] := List.eq_nil_of_length_eq_zero (by simpa using hlen)
    simp [this] at hy
  | x :: l1, l2, hn, hsub, hlen => by
    intro y hy
    have hx : x ∈ l2 := hsub x (by simp)
    have hn' := List.nodup_cons.mp hn
    by_cases hyx : y = x
    · simp [hyx]
    · have hsub' : ∀ z ∈ l1, z ∈ l2.erase x := by
        intro z hz
        have hzx : z ≠ x := fun h => hn'.1 (h ▸ hz)
        exact (List.mem_erase_of_ne hzx).mpr (hsub z (by simp [hz]))
      have hlen' : (l2.erase x).length ≤ l1.length := by
        rw [List.length_erase_of_mem hx]
        simp at hlen; omega
      have := subset_of_nodup_length l1 (l2.erase x) hn'.2 hsub' hlen' y
        ((List.mem_erase_of_ne hyx).mpr hy)
      simp [this]

/-! ### characterisations of the recursions -/

theorem eqEntries_iff (C : CaseOps) (es fs : List (Key × Obj)) :
    eqEntries C es fs = true ↔ ∀ e ∈ es, ∃ w, lookup C e.1 fs = some w ∧ eqObj C e.2 w = true := by
  induction es with
  | nil => simp [eqEntries]
  | cons e es ih =>
    obtain ⟨k, v⟩ := e
    simp only [eqEntries, Bool.and_eq_true, ih, List.mem_cons, forall_eq_or_imp]
    constructor
    · rintro ⟨h1, h2⟩
      refine ⟨?_, h2⟩
      cases hl : lookup C k fs with
      | none => simp [hl] at h1
      | some w => simp [hl] at h1; exact ⟨w, rfl, h1⟩
    · rintro ⟨⟨w, hl, hw⟩, h2⟩
      exact ⟨by simp [hl, hw], h2⟩

theorem goodList_iff (C : CaseOps) (xs : List Obj) : goodList C xs = true ↔ ∀ x ∈ xs, good C x = true := by
  induction xs with
  | nil => simp [goodList]
  | cons x xs ih => simp [goodList, ih]

theorem goodEntries_iff (C : CaseOps) (es : List (Key × Obj)) :
    goodEntries C es = true ↔ ∀ e ∈ es, good C e.2 = true := by
  induction es with
  | nil => simp [goodEntries]
  | cons e es ih => obtain ⟨k, v⟩ := e; simp [goodEntries, ih]

theorem good_dict (C : CaseOps) (id : Nat) (es : List (Key × Obj)) :
    good C (.dict id es) = true ↔ (keysOf C es).Nodup ∧ ∀ e ∈ es, good C e.2 = true := by
  simp [good, goodEntries_iff]

theorem isName_good (C : CaseOps) (a : Obj) (h : isName a = true) : good C a = true := by
  cases a with
  | atom x => cases x <;> simp_all [isName, good]
  | _ => simp_all [isName, good]


theorem goodAttrs_good (C : CaseOps) : ∀ (cs : List Cmp) (as : List Obj), goodAttrs C cs as = true →
    ∀ x ∈ as, good C x = true
  | [], [], _ => by simp
  | [], _ :: _, h => by simp [goodAttrs] at h
  | _ :: _, [], h => by simp [goodAttrs] at h
  | c :: cs, a :: as, h => by
    intro x hx
    have ih' := goodAttrs_good C cs as
    cases c <;> simp only [goodAttrs, Bool.and_eq_true] at h <;>
      rcases List.mem_cons.mp hx with rfl | hx
    · exact isName_good C _ h.1
    · exact ih' h.2 x hx
    · exact h.1
    · exact ih' h.2 x hx
    · exact h.1
    · exact ih' h.2 x hx
    · exact h.1
    · exact ih' h.2 x hx

theorem goodAttrs_length (C : CaseOps) : ∀ (cs : List Cmp) (as : List Obj), goodAttrs C cs as = true →
    as.length = cs.length
  | [], [], _ => rfl
  | [], _ :: _, h => by simp [goodAttrs] at h
  | _ :: _, [], h => by simp [goodAttrs] at h
  | c :: cs, a :: as, h => by
    have ih' := goodAttrs_length C cs as
    cases c <;> simp only [goodAttrs, Bool.and_eq_true] at h <;> simp [ih' h.2]

/-! ### reflexivity -/

theorem eqList_refl (C : CaseOps) : ∀ xs : List Obj, (∀ x ∈ xs, eqObj C x x = true) → eqList C xs xs = true
  | [], _ => by simp [eqList]
  | x :: xs, h => by
    simp only [eqList, Bool.and_eq_true]
    exact ⟨h x (by simp), eqList_refl C xs (fun y hy => h y (by simp [hy]))⟩

theorem eqAttrs_refl (C : CaseOps) : ∀ (cs : List Cmp) (as : List Obj), goodAttrs C cs as = true →
    (∀ x ∈ as, good C x = true → eqObj C x x = true) → eqAttrs C cs as as = true
  | [], [], _, _ => by simp [eqAttrs]
  | [], _ :: _, h, _ => by simp [goodAttrs] at h
  | _ :: _, [], h, _ => by simp [goodAttrs] at h
  | c :: cs, a :: as, h, ih => by
    have ih' := fun (h2 : goodAttrs C cs as = true) =>
      eqAttrs_refl C cs as h2 (fun y hy => ih y (by simp [hy]))
    cases c <;> simp only [goodAttrs, Bool.and_eq_true] at h <;> simp only [eqAttrs, Bool.and_eq_true]
    · exact ⟨eqName_refl C a h.1, ih' h.2⟩
    · exact ⟨ih a (by simp) h.1, ih' h.2⟩
    · exact ⟨ih a (by simp) h.1, ih' h.2⟩
    · exact ⟨trivial, ih' h.2⟩

theorem eqObj_refl (C : CaseOps) : ∀ a, good C a = true → eqObj C a a = true := by
  apply Obj.ind'
  · intro _; simp [eqObj]
  · intro a h; simp [good] at h; simpa [eqObj] using eqAtom_refl a h
  · intro id xs ih h
    simp only [good, goodList_iff] at h
    simp only [eqObj]
    exact eqList_refl C xs (fun x hx => ih x hx (h x hx))
  · intro id es ih h
    obtain ⟨hn, hg⟩ := (good_dict C id es).mp h
    simp only [eqObj, Bool.and_eq_true, beq_self_eq_true, and_true]
    rw [eqEntries_iff]
    intro e he
    exact ⟨e.2, lookup_of_mem C es hn e.1 e.2 he e.1 rfl, ih e he (hg e he)⟩
  · intro id k as ih h
    simp only [good] at h
    simp only [eqObj, Bool.and_eq_true, beq_self_eq_true, true_and]
    exact eqAttrs_refl C (eqSpec k) as h ih

/-! ### symmetry -/

/-- symmetry at one object (against every other object) -/
def SymAt (C : CaseOps) (x : Obj) : Prop :=
  good C x = true → ∀ y, good C y = true → eqObj C x y = true → eqObj C y x = true

theorem eqList_symm (C : CaseOps) : ∀ xs ys : List Obj, (∀ x ∈ xs, SymAt C x) →
    goodList C xs = true → goodList C ys = true → eqList C xs ys = true → eqList C ys xs = true
  | [], [], _, _, _, _ => by simp [eqList]
  | [], _ :: _, _, _, _, h => by simp [eqList] at h
  | _ :: _, [], _, _, _, h => by simp [eqList] at h
  | x :: xs, y :: ys, ih, gx, gy, h => by
    simp only [goodList, Bool.and_eq_true] at gx gy
    simp only [eqList, Bool.and_eq_true] at h ⊢
    exact ⟨ih x (by simp) gx.1 y gy.1 h.1,
      eqList_symm C xs ys (fun z hz => ih z (by simp [hz])) gx.2 gy.2 h.2⟩

theorem eqAttrs_symm (C : CaseOps) : ∀ (cs : List Cmp) (as bs : List Obj), (∀ x ∈ as, SymAt C x) →
    goodAttrs C cs as = true → goodAttrs C cs bs = true → eqAttrs C cs as bs = true →
    eqAttrs C cs bs as = true
  | [], [], [], _, _, _, _ => by simp [eqAttrs]
  | [], [], _ :: _, _, _, _, h => by simp [eqAttrs] at h
  | [], _ :: _, _, _, _, _, h => by simp [eqAttrs] at h
  | _ :: _, [], _, _, _, _, h => by simp [eqAttrs] at h
  | _ :: _, _ :: _, [], _, _, _, h => by simp [eqAttrs] at h
  | c :: cs, a :: as, b :: bs, ih, ga, gb, h => by
    have ih' := eqAttrs_symm C cs as bs (fun z hz => ih z (by simp [hz]))
    cases c <;> simp only [goodAttrs, Bool.and_eq_true] at ga gb <;>
      simp only [eqAttrs, Bool.and_eq_true] at h ⊢
    · exact ⟨by rw [eqName_symm]; exact h.1, ih' ga.2 gb.2 h.2⟩
    · exact ⟨ih a (by simp) ga.1 b gb.1 h.1, ih' ga.2 gb.2 h.2⟩
    · exact ⟨ih a (by simp) ga.1 b gb.1 h.1, ih' ga.2 gb.2 h.2⟩
    · exact ⟨trivial, ih' ga.2 gb.2 h.2⟩

theorem keys_subset_of_eqEntries (C : CaseOps) (es fs : List (Key × Obj))
    (h : eqEntries C es fs = true) : ∀ x ∈ keysOf C es, x ∈ keysOf C fs := by
  intro x hx
  obtain ⟨e, he, rfl⟩ := List.mem_map.mp hx
  obtain ⟨w, hl, _⟩ := (eqEntries_iff C es fs).mp h e he
  obtain ⟨k', hm, hk'⟩ := lookup_some_mem C e.1 fs w hl
  exact List.mem_map.mpr ⟨(k', w), hm, hk'⟩

theorem eqDict_symm (C : CaseOps) (es fs : List (Key × Obj)) (ih : ∀ e ∈ es, SymAt C e.2)
    (hne : (keysOf C es).Nodup) (hnf : (keysOf C fs).Nodup)
    (ge : ∀ e ∈ es, good C e.2 = true) (gf : ∀ e ∈ fs, good C e.2 = true)
    (h : eqEntries C es fs = true) (hlen : es.length = fs.length) : eqEntries C fs es = true := by
  rw [eqEntries_iff]
  intro f hf
  have hsub := keys_subset_of_eqEntries C es fs h
  have hback := subset_of_nodup_length (keysOf C es) (keysOf C fs) hne hsub
    (by simp [keysOf, hlen]) (ckey C f.1) (List.mem_map.mpr ⟨f, hf, rfl⟩)
  obtain ⟨e, he, hke⟩ := List.mem_map.mp hback
  obtain ⟨w, hl, hw⟩ := (eqEntries_iff C es fs).mp h e he
  have hl' : lookup C e.1 fs = some f.2 := lookup_of_mem C fs hnf f.1 f.2 hf e.1 hke.symm
  rw [hl] at hl'
  cases hl'
  exact ⟨e.2, lookup_of_mem C es hne e.1 e.2 he f.1 hke, ih e he (ge e he) f.2 (gf f hf) hw⟩

theorem eqObj_symm' (C : CaseOps) : ∀ a, SymAt C a := by
  apply Obj.ind'
  · intro _ y _ h; cases y <;> simp [eqObj] at h ⊢
  · intro a _ y _ h
    cases y <;> simp [eqObj] at h ⊢
    rw [eqAtom_symm]; exact h
  · intro id xs ih ga y gy h
    cases y <;> simp only [eqObj] at h <;> try (simp at h)
    simp only [good] at ga gy
    simp only [eqObj]
    exact eqList_symm C xs _ ih ga gy h
  · intro id es ih ga y gy h
    cases y <;> simp only [eqObj] at h <;> try (simp at h)
    rename_i id' fs
    obtain ⟨hne, ge⟩ := (good_dict C id es).mp ga
    obtain ⟨hnf, gf⟩ := (good_dict C id' fs).mp gy
    simp only [eqObj, Bool.and_eq_true, beq_iff_eq]
    exact ⟨eqDict_symm C es fs ih hne hnf ge gf h.1 h.2, h.2.symm⟩
  · intro id k as ih ga y gy h
    cases y <;> simp only [eqObj] at h <;> try (simp at h)
    rename_i id' k' bs
    obtain ⟨rfl, h⟩ := h
    simp only [good] at ga gy
    simp only [eqObj, Bool.and_eq_true, beq_self_eq_true, true_and]
    exact eqAttrs_symm C (eqSpec k) as bs ih ga gy h

theorem eqObj_symm (C : CaseOps) (a b : Obj) (ga : good C a = true) (gb : good C b = true) :
    eqObj C a b = eqObj C b a := by
  rw [Bool.eq_iff_iff]
  exact ⟨eqObj_symm' C a ga b gb, eqObj_symm' C b gb a ga⟩


/-! ### transitivity -/

def TransAt (C : CaseOps) (x : Obj) : Prop :=
  ∀ y z, eqObj C x y = true → eqObj C y z = true → eqObj C x z = true

theorem eqList_trans (C : CaseOps) : ∀ xs ys zs : List Obj, (∀ x ∈ xs, TransAt C x) →
    eqList C xs ys = true → eqList C ys zs = true → eqList C xs zs = true
  | [], [], [], _, _, _ => by simp [eqList]
  | [], [], _ :: _, _, _, h => by simp [eqList] at h
  | [], _ :: _, _, _, h, _ => by simp [eqList] at h
  | _ :: _, [], _, _, h, _ => by simp [eqList] at h
  | _ :: _, _ :: _, [], _, _, h => by simp [eqList] at h
  | x :: xs, y :: ys, z :: zs, ih, h1, h2 => by
    simp only [eqList, Bool.and_eq_true] at h1 h2 ⊢
    exact ⟨ih x (by simp) y z h1.1 h2.1,
      eqList_trans C xs ys zs (fun w hw => ih w (by simp [hw])) h1.2 h2.2⟩

theorem eqAttrs_trans (C : CaseOps) : ∀ (cs : List Cmp) (as bs ds : List Obj), (∀ x ∈ as, TransAt C x) →
    eqAttrs C cs as bs = true → eqAttrs C cs bs ds = true → eqAttrs C cs as ds = true
  | [], [], [], [], _, _, _ => by simp [eqAttrs]
  | [], [], [], _ :: _, _, _, h => by simp [eqAttrs] at h
  | [], [], _ :: _, _, _, h, _ => by simp [eqAttrs] at h
  | [], _ :: _, _, _, _, h, _ => by simp [eqAttrs] at h
  | _ :: _, [], _, _, _, h, _ => by simp [eqAttrs] at h
  | _ :: _, _ :: _, [], _, _, h, _ => by simp [eqAttrs] at h
  | _ :: _, _ :: _, _ :: _, [], _, _, h => by simp [eqAttrs] at h
  | c :: cs, a :: as, b :: bs, d :: ds, ih, h1, h2 => by
    have ih' := eqAttrs_trans C cs as bs ds (fun w hw => ih w (by simp [hw]))
    cases c <;> simp only [eqAttrs, Bool.and_eq_true] at h1 h2 ⊢
    · exact ⟨eqName_trans C a b d h1.1 h2.1, ih' h1.2 h2.2⟩
    · exact ⟨ih a (by simp) b d h1.1 h2.1, ih' h1.2 h2.2⟩
    · exact ⟨ih a (by simp) b d h1.1 h2.1, ih' h1.2 h2.2⟩
    · exact ⟨trivial, ih' h1.2 h2.2⟩

theorem eqEntries_trans (C : CaseOps) (es fs gs : List (Key × Obj)) (ih : ∀ e ∈ es, TransAt C e.2)
    (h1 : eqEntries C es fs = true) (h2 : eqEntries C fs gs = true) : eqEntries C es gs = true := by
  rw [eqEntries_iff] at h1 h2 ⊢
  intro e he
  obtain ⟨w, hl, hw⟩ := h1 e he
  obtain ⟨k', hm, hk'⟩ := lookup_some_mem C e.1 fs w hl
  obtain ⟨u, hl2, hu⟩ := h2 (k', w) hm
  exact ⟨u, by rw [← lookup_congr C k' e.1 hk' gs]; exact hl2, ih e he w u hw hu⟩

theorem eqObj_trans (C : CaseOps) : ∀ a, TransAt C a := by
  apply Obj.ind'
  · intro y z h1 h2; cases y <;> simp [eqObj] at h1; exact h2
  · intro a y z h1 h2
    cases y <;> simp only [eqObj] at h1 <;> try (simp at h1)
    cases z <;> simp only [eqObj] at h2 <;> try (simp at h2)
    simp only [eqObj]; exact eqAtom_trans _ _ _ h1 h2
  · intro id xs ih y z h1 h2
    cases y <;> simp only [eqObj] at h1 <;> try (simp at h1)
    cases z <;> simp only [eqObj] at h2 <;> try (simp at h2)
    simp only [eqObj]; exact eqList_trans C xs _ _ ih h1 h2
  · intro id es ih y z h1 h2
    cases y <;> simp only [eqObj] at h1 <;> try (simp at h1)
    cases z <;> simp only [eqObj] at h2 <;> try (simp at h2)
    simp only [eqObj, Bool.and_eq_true, beq_iff_eq]
    exact ⟨eqEntries_trans C es _ _ ih h1.1 h2.1, h1.2.trans h2.2⟩
  · intro id k as ih y z h1 h2
    cases y <;> simp only [eqObj] at h1 <;> try (simp at h1)
    cases z <;> simp only [eqObj] at h2 <;> try (simp at h2)
    obtain ⟨rfl, h1⟩ := h1
    obtain ⟨rfl, h2⟩ := h2
    simp only [eqObj, Bool.and_eq_true, beq_self_eq_true, true_and]
    exact eqAttrs_trans C (eqSpec k) as _ _ ih h1 h2

/-! ### a == b → hash(a) == hash(b) -/

section hash
variable {β : Type}

/-- `hash(frozenset(l))` depends only on the set of elements -/
def FsetExt (H : PyHash β) : Prop := ∀ l1 l2 : List β, (∀ x, x ∈ l1 ↔ x ∈ l2) → H.fset l1 = H.fset l2

def HashAt (C : CaseOps) (H : PyHash β) (x : Obj) : Prop :=
  good C x = true → ∀ y, good C y = true → eqObj C x y = true → hashObj C H x = hashObj C H y

theorem hashKey_congr (C : CaseOps) (H : PyHash β) (k k' : Key) (h : ckey C k = ckey C k') :
    hashKey C H k = hashKey C H k' := by
  simp [hashKey, h]

theorem hashList_eq (C : CaseOps) (H : PyHash β) : ∀ xs ys : List Obj, (∀ x ∈ xs, HashAt C H x) →
    goodList C xs = true → goodList C ys = true → eqList C xs ys = true →
    hashList C H xs = hashList C H ys
  | [], [], _, _, _, _ => rfl
  | [], _ :: _, _, _, _, h => by simp [eqList] at h
  | _ :: _, [], _, _, _, h => by simp [eqList] at h
  | x :: xs, y :: ys, ih, gx, gy, h => by
    simp only [goodList, Bool.and_eq_true] at gx gy
    simp only [eqList, Bool.and_eq_true] at h
    simp only [hashList]
    rw [ih x (by simp) gx.1 y gy.1 h.1,
      hashList_eq C H xs ys (fun z hz => ih z (by simp [hz])) gx.2 gy.2 h.2]

theorem hashAttrs_eq (C : CaseOps) (H : PyHash β) : ∀ (cs hs : List Cmp) (as bs : List Obj),
    compat cs hs = true → (∀ x ∈ as, HashAt C H x) →
    goodAttrs C cs as = true → goodAttrs C cs bs = true → eqAttrs C cs as bs = true →
    hashAttrs C H hs as = hashAttrs C H hs bs
  | [], [], [], [], _, _, _, _, _ => rfl
  | [], [], [], _ :: _, _, _, _, _, h => by simp [eqAttrs] at h
  | [], [], _ :: _, _, _, _, _, _, h => by simp [eqAttrs] at h
  | [], _ :: _, _, _, hc, _, _, _, _ => by simp [compat] at hc
  | _ :: _, [], _, _, hc, _, _, _, _ => by simp [compat] at hc
  | _ :: _, _ :: _, [], _, _, _, _, _, h => by simp [eqAttrs] at h
  | _ :: _, _ :: _, _ :: _, [], _, _, _, _, h => by simp [eqAttrs] at h
  | c :: cs, hc :: hs, a :: as, b :: bs, hcomp, ih, ga, gb, h => by
    simp only [compat, Bool.and_eq_true] at hcomp
    have ih' := hashAttrs_eq C H cs hs as bs hcomp.2 (fun z hz => ih z (by simp [hz]))
    have hcp := hcomp.1
    cases c <;> simp only [goodAttrs, Bool.and_eq_true] at ga gb <;>
      simp only [eqAttrs, Bool.and_eq_true] at h <;>
      cases hc <;> simp [compat1] at hcp <;> simp only [hashAttrs] <;>
      rw [ih' ga.2 gb.2 h.2]
    · rw [hashName_eq C H a b h.1]
    · rw [ih a (by simp) ga.1 b gb.1 h.1]
    · rw [ih a (by simp) ga.1 b gb.1 h.1]
    · rw [ih a (by simp) ga.1 b gb.1 h.1]
    · rw [ih a (by simp) ga.1 b gb.1 h.1]

theorem mem_hashEntries (C : CaseOps) (H : PyHash β) (es : List (Key × Obj)) (x : β) :
    x ∈ hashEntries C H es ↔ ∃ e ∈ es, x = H.tuple [hashKey C H e.1, hashObj C H e.2] := by
  induction es with
  | nil => simp [hashEntries]
  | cons e es ih => obtain ⟨k, v⟩ := e; simp [hashEntries, ih]

theorem hashEntries_sub (C : CaseOps) (H : PyHash β) (es fs : List (Key × Obj))
    (ih : ∀ e ∈ es, ∀ f ∈ fs, eqObj C e.2 f.2 = true → hashObj C H e.2 = hashObj C H f.2)
    (h : eqEntries C es fs = true) :
    ∀ x, x ∈ hashEntries C H es → x ∈ hashEntries C H fs := by
  intro x hx
  obtain ⟨e, he, rfl⟩ := (mem_hashEntries C H es x).mp hx
  obtain ⟨w, hl, hw⟩ := (eqEntries_iff C es fs).mp h e he
  obtain ⟨k', hm, hk'⟩ := lookup_some_mem C e.1 fs w hl
  refine (mem_hashEntries C H fs _).mpr ⟨(k', w), hm, ?_⟩
  rw [hashKey_congr C H k' e.1 hk', ih e he (k', w) hm hw]

theorem hashObj_eq' (C : CaseOps) (H : PyHash β) (hf : FsetExt H)
    (hcompat : ∀ k, compat (eqSpec k) (hashSpec k) = true) : ∀ a, HashAt C H a := by
  apply Obj.ind'
  · intro _ y _ h; cases y <;> simp [eqObj] at h ⊢
  · intro a _ y _ h
    cases y <;> simp only [eqObj] at h <;> try (simp at h)
    simp only [hashObj]; exact hashAtom_eq H _ _ h
  · intro id xs ih ga y gy h
    cases y <;> simp only [eqObj] at h <;> try (simp at h)
    simp only [good] at ga gy
    simp only [hashObj]
    rw [hashList_eq C H xs _ ih ga gy h]
  · intro id es ih ga y gy h
    cases y <;> simp only [eqObj] at h <;> try (simp at h)
    rename_i id' fs
    obtain ⟨hne, ge⟩ := (good_dict C id es).mp ga
    obtain ⟨hnf, gf⟩ := (good_dict C id' fs).mp gy
    simp only [hashObj]
    apply hf
    have hsym : eqEntries C fs es = true :=
      eqDict_symm C es fs (fun e _ => eqObj_symm' C e.2) hne hnf ge gf h.1 h.2
    intro x
    constructor
    · exact hashEntries_sub C H es fs
        (fun e he f hf' hw => ih e he (ge e he) f.2 (gf f hf') hw) h.1 x
    · refine hashEntries_sub C H fs es ?_ hsym x
      intro f hf' e he hw
      exact (ih e he (ge e he) f.2 (gf f hf')
        (eqObj_symm' C f.2 (gf f hf') e.2 (ge e he) hw)).symm
  · intro id k as ih ga y gy h
    cases y <;> simp only [eqObj] at h <;> try (simp at h)
    rename_i id' k' bs
    obtain ⟨rfl, h⟩ := h
    simp only [good] at ga gy
    simp only [hashObj]
    rw [hashAttrs_eq C H (eqSpec k) (hashSpec k) as bs (hcompat k) ih ga gy h]

end hash

end Proofs.Eq
