/-
C03 — from DTD validity of the tree to well-formedness of the document, and back again on the receiving side:
(1) a tree the validator accepts is a `WfTree` (element / attribute names are XML Names because they are declared
    names of the DTD, attribute names distinct, characters XML Chars), so the proved parser `par` accepts its
    serialisation;
(2) what the receiver sees (`wireTree`: attribute-value normalisation, adjacent character data merged, end-of-line
    normalisation, empty character data dropped) is again valid against the DTD.
Both need facts about the generated DTD table that are checked by evaluation: all names are XML Names, enumerated /
fixed attribute values contain no white space.
-/
import Proofs.Lemmas.DtdReq4
import Proofs.Lemmas.XmlParse

set_option linter.unusedSimpArgs false
set_option linter.unusedVariables false

namespace Proofs.DtdWire
open Pywbem.Model Pywbem.Model.Dtd Pywbem.Model.XmlText Pywbem.Model.XmlParse Proofs.XmlParse Proofs.DtdEnc Proofs.DtdReq

/-! ### facts about a DTD table, decidable -/

def plainStr (s : Str) : Bool := s.all (fun c => c != '\r' && c != '\n' && c != '\t')

def attDeclOk (a : AttDecl) : Bool :=
  XmlParse.isName a.name &&
  (match a.ty with | .enum vals => vals.all plainStr | _ => true) &&
  (match a.dflt with | .fixed f => plainStr f | _ => true)

/-- every element and attribute name of the DTD is an (ASCII) XML Name; enumerated and fixed attribute values contain
    no TAB / LF / CR -/
def dtdOk (d : Dtd) : Bool := d.all (fun e => XmlParse.isName e.name && e.atts.all attDeclOk)

theorem dtd_ok : dtdOk Pywbem.Generated.dtd = true := by decide +kernel

theorem lookupElem_mem {d : Dtd} {n : Name} {decl : ElemDecl} (h : lookupElem d n = some decl) :
    decl ∈ d ∧ decl.name = n := by
  unfold lookupElem at h
  exact ⟨List.mem_of_find?_eq_some h, by simpa using List.find?_some h⟩

theorem lookupAtt_mem {decls : List AttDecl} {k : Name} {a : AttDecl} (h : lookupAtt decls k = some a) :
    a ∈ decls ∧ a.name = k := by
  unfold lookupAtt at h
  exact ⟨List.mem_of_find?_eq_some h, by simpa using List.find?_some h⟩

theorem attrOk_lookup {decls : List AttDecl} {p : Str × Str} (h : attrOk decls p = true) :
    ∃ a, lookupAtt decls p.1 = some a ∧ attValueOk a p.2 = true := by
  unfold attrOk at h
  split at h
  · rename_i a ha; exact ⟨a, ha, h⟩
  · cases h

theorem nodupNames_hasDup : ∀ (l : List Name), nodupNames l = !hasDup l
  | [] => rfl
  | a :: l => by simp [nodupNames, hasDup, nodupNames_hasDup l, Bool.not_or]

theorem strOk_all (s : Str) : strOk s = s.all isXmlChar := rfl

/-! ### (1) valid ⇒ well-formed -/

theorem wfAttrs_of_valid {decls : List AttDecl} (hd : decls.all attDeclOk = true) :
    ∀ (as : List (Str × Str)), as.all (attrOk decls) = true → attrsCharsOk as = true → wfAttrs as = true
  | [], _, _ => rfl
  | (k, v) :: rest, ha, hc => by
    simp only [List.all_cons, Bool.and_eq_true] at ha
    simp only [attrsCharsOk, Bool.and_eq_true] at hc
    obtain ⟨a, hl, _⟩ := attrOk_lookup ha.1
    obtain ⟨hm, hn⟩ := lookupAtt_mem hl
    have hok := (List.all_eq_true.mp hd) a hm
    simp only [attDeclOk, Bool.and_eq_true] at hok
    simp only [wfAttrs, Bool.and_eq_true]
    refine ⟨⟨?_, hc.1⟩, wfAttrs_of_valid hd rest ha.2 hc.2⟩
    have : a.name = k := hn
    rw [← this]; exact hok.1.1

mutual
theorem wf_of_valid {d : Dtd} (hd : dtdOk d = true) :
    (t : Xml) → structNode d t = true → charsOk t = true → wfTree t = true
  | .text s, _, hc => by simpa [wfTree, charsOk, strOk] using hc
  | .elem n as ks, hs, hc => by
    simp only [structNode] at hs
    cases hl : lookupElem d n with
    | none => rw [hl] at hs; cases hs
    | some decl =>
      rw [hl] at hs
      simp only [Bool.and_eq_true, validAttrs] at hs
      simp only [charsOk, Bool.and_eq_true] at hc
      obtain ⟨hm, hn⟩ := lookupElem_mem hl
      have hok := (List.all_eq_true.mp hd) decl hm
      simp only [Bool.and_eq_true] at hok
      simp only [wfTree, Bool.and_eq_true]
      refine ⟨⟨⟨?_, wfAttrs_of_valid hok.2 as hs.1.1.1.1 hc.1⟩, ?_⟩, wfs_of_valid hd ks hs.2 hc.2⟩
      · rw [← hn]; exact hok.1
      · have := hs.1.1.1.2
        rw [nodupNames_hasDup] at this
        exact this
theorem wfs_of_valid {d : Dtd} (hd : dtdOk d = true) :
    (ks : List Xml) → structNodes d ks = true → charsOkList ks = true → wfKids ks = true
  | [], _, _ => rfl
  | k :: ks, hs, hc => by
    simp only [structNodes, Bool.and_eq_true] at hs
    simp only [charsOkList, Bool.and_eq_true] at hc
    simp only [wfKids, Bool.and_eq_true]
    exact ⟨wf_of_valid hd k hs.1 hc.1, wfs_of_valid hd ks hs.2 hc.2⟩
end

/-- a valid tree is a well-formed tree -/
theorem wfTree_of_validTree {t : Xml} (h : validTree Pywbem.Generated.dtd t = true) : WfTree t := by
  simp only [validTree, Bool.and_eq_true] at h
  exact wf_of_valid dtd_ok t h.1.2 h.2

/-! ### (2) validity survives the wire -/

theorem normEOL_ws : ∀ (s : Str) (sk : Bool), s.all isWs = true → (normEOL sk s).all isWs = true
  | [], _, _ => rfl
  | c :: cs, sk, h => by
    simp only [List.all_cons, Bool.and_eq_true] at h
    simp only [normEOL]
    split
    · simp [isWs, normEOL_ws cs true h.2]
    · split
      · exact normEOL_ws cs false h.2
      · simp [h.1, normEOL_ws cs false h.2]

theorem normEOL_ok : ∀ (s : Str) (sk : Bool), strOk s = true → strOk (normEOL sk s) = true
  | [], _, _ => rfl
  | c :: cs, sk, h => by
    simp only [strOk, List.all_cons, Bool.and_eq_true] at h
    simp only [normEOL]
    split
    · have := normEOL_ok cs true h.2
      simp only [strOk] at this
      simp [strOk, this]; decide
    · split
      · exact normEOL_ok cs false h.2
      · have := normEOL_ok cs false h.2
        simp only [strOk] at this
        simp [strOk, h.1, this]

theorem normAttr_ok : ∀ (s : Str) (sk : Bool), strOk s = true → strOk (normAttr sk s) = true
  | [], _, _ => rfl
  | c :: cs, sk, h => by
    simp only [strOk, List.all_cons, Bool.and_eq_true] at h
    have ih := fun b => normAttr_ok cs b h.2
    simp only [strOk] at ih
    simp only [normAttr]
    split
    · simp [strOk, ih true]; decide
    · split
      · exact ih false
      · split
        · simp [strOk, ih false]; decide
        · simp [strOk, h.1, ih false]

theorem plainStr_normAttr (s : Str) (h : plainStr s = true) : normAttr false s = s := by
  apply Proofs.XmlText.normAttr_plain
  intro c hc
  have := (List.all_eq_true.mp h) c hc
  simp only [Bool.and_eq_true, bne_iff_ne, ne_eq] at this
  exact ⟨this.1.1, this.1.2, this.2⟩

/-- my validator's NMTOKEN characters contain no white space -/
theorem nameChars_plain (v : Str) (h : v.all Dtd.isNameChar = true) : plainStr v = true := by
  simp only [plainStr, List.all_eq_true] at h ⊢
  intro c hc
  have := h c hc
  by_cases h1 : c = '\r'
  · subst h1; simp [Dtd.isNameChar] at this
  by_cases h2 : c = '\n'
  · subst h2; simp [Dtd.isNameChar] at this
  by_cases h3 : c = '\t'
  · subst h3; simp [Dtd.isNameChar] at this
  simp [h1, h2, h3]

theorem attValueOk_norm {a : AttDecl} (ha : attDeclOk a = true) {v : Str} (h : attValueOk a v = true) :
    attValueOk a (normAttr false v) = true := by
  simp only [attDeclOk, Bool.and_eq_true] at ha
  obtain ⟨⟨_, hty⟩, hfx⟩ := ha
  -- in every case where the value is constrained it contains no white space and is left alone
  have key : (match a.ty with | .cdata => True | _ => plainStr v = true) := by
    simp only [attValueOk, Bool.and_eq_true] at h
    cases hty' : a.ty with
    | cdata => trivial
    | nmtoken =>
      rw [hty'] at h
      simp only [Bool.and_eq_true] at h
      exact nameChars_plain v h.1.2
    | enum vals =>
      rw [hty'] at h hty
      simp only at h hty
      have hm : v ∈ vals := by simpa using h.1
      exact (List.all_eq_true.mp hty) v hm
    | other => rw [hty'] at h; simp at h
  cases hty' : a.ty with
  | cdata =>
    simp only [attValueOk, hty', Bool.and_eq_true, Bool.true_and] at h ⊢
    cases hd : a.dflt with
    | fixed f =>
      rw [hd] at h hfx
      simp only at h hfx
      have : v = f := by simpa using h
      subst this
      rw [plainStr_normAttr v hfx]; simp
    | _ => rfl
  | nmtoken => rw [hty'] at key; rw [plainStr_normAttr v key]; exact h
  | enum vals => rw [hty'] at key; rw [plainStr_normAttr v key]; exact h
  | other => rw [hty'] at key; rw [plainStr_normAttr v key]; exact h

theorem wireAttrs_valid {decls : List AttDecl} (hd : decls.all attDeclOk = true) :
    ∀ (as as' : List (Str × Str)), attrsCharsOk as = true → wireAttrs as = some as' →
      as.all (attrOk decls) = true → as'.all (attrOk decls) = true ∧ attrsCharsOk as' = true
  | [], as', _, hw, _ => by simp only [wireAttrs] at hw; cases hw; exact ⟨rfl, rfl⟩
  | (k, v) :: rest, as', hc, hw, ha => by
    simp only [attrsCharsOk, Bool.and_eq_true] at hc
    simp only [List.all_cons, Bool.and_eq_true] at ha
    simp only [wireAttrs] at hw
    rw [attr_accepted v hc.1] at hw
    cases hr : wireAttrs rest with
    | none => rw [hr] at hw; cases hw
    | some r =>
      rw [hr] at hw
      cases hw
      obtain ⟨h1, h2⟩ := wireAttrs_valid hd rest r hc.2 hr ha.2
      obtain ⟨a, hl, hv⟩ := attrOk_lookup ha.1
      have hok := (List.all_eq_true.mp hd) a (lookupAtt_mem hl).1
      simp only [List.all_cons, Bool.and_eq_true, attrsCharsOk]
      refine ⟨⟨?_, h1⟩, normAttr_ok v false hc.1, h2⟩
      unfold attrOk
      simp only at hl ⊢
      rw [hl]
      exact attValueOk_norm hok hv

theorem wireAttrs_chars : ∀ (as as' : List (Str × Str)), attrsCharsOk as = true → wireAttrs as = some as' →
    attrsCharsOk as' = true
  | [], as', _, hw => by simp only [wireAttrs] at hw; cases hw; rfl
  | (k, v) :: rest, as', hc, hw => by
    simp only [attrsCharsOk, Bool.and_eq_true] at hc
    simp only [wireAttrs] at hw
    rw [attr_accepted v hc.1] at hw
    cases hr : wireAttrs rest with
    | none => rw [hr] at hw; cases hw
    | some r =>
      rw [hr] at hw
      cases hw
      simp only [attrsCharsOk, Bool.and_eq_true]
      exact ⟨normAttr_ok v false hc.1, wireAttrs_chars rest r hc.2 hr⟩

/-- facts about the children the receiver sees, for pending character data `p` -/
structure KidsFacts (d : Dtd) (p : Str) (ks ks' : List Xml) : Prop where
  names : kidNames ks' = kidNames ks
  noel : noElems ks = true → noElems ks' = true
  ws : p.all isWs = true → textsAll (fun s => s.all isWs) ks = true → textsAll (fun s => s.all isWs) ks' = true
  empty : p = [] → textsAll (fun s => s.isEmpty) ks = true → textsAll (fun s => s.isEmpty) ks' = true
  struct : structNodes d ks = true → structNodes d ks' = true
  chars : strOk p = true → charsOkList ks = true → charsOkList ks' = true

theorem flushText_eq (p : Str) (r : List Xml) (hp : strOk p = true) :
    flushText p r = some (if p = [] then r else .text (normEOL false p) :: r) := by
  unfold flushText
  by_cases h : p = []
  · simp [h]
  · simp [h, text_accepted p hp]

theorem content_wire {c : Content} {p : Str} {ks ks' : List Xml} {d : Dtd} (f : KidsFacts d [] ks ks')
    (h : contentOk c ks = true) : contentOk c ks' = true := by
  cases c with
  | empty =>
    simp only [contentOk, Bool.and_eq_true] at h ⊢
    exact ⟨f.noel h.1, f.empty rfl h.2⟩
  | any => rfl
  | pcdata => exact f.noel h
  | mixed names => simp only [contentOk] at h ⊢; rw [f.names]; exact h
  | children r =>
    simp only [contentOk, Bool.and_eq_true] at h ⊢
    rw [f.names]
    exact ⟨f.ws rfl h.1, h.2⟩

mutual
theorem wire_valid {d : Dtd} (hd : dtdOk d = true) :
    (t t' : Xml) → charsOk t = true → wireTree t = some t' →
      (structNode d t = true → structNode d t' = true) ∧ charsOk t' = true ∧ (t.isElem = true → t'.isElem = true) ∧
      Xml.name t' = Xml.name t
  | .text s, t', hc, hw => by
    simp only [charsOk] at hc
    simp only [wireTree, text_accepted s hc] at hw
    cases hw
    exact ⟨fun _ => rfl, normEOL_ok s false hc, fun h => by simp [Xml.isElem] at h, rfl⟩
  | .elem n as ks, t', hc, hw => by
    simp only [charsOk, Bool.and_eq_true] at hc
    simp only [wireTree] at hw
    cases ha : wireAttrs as with
    | none => rw [ha] at hw; cases hw
    | some as' =>
      cases hk : wireKids [] ks with
      | none => rw [ha, hk] at hw; cases hw
      | some ks' =>
        rw [ha, hk] at hw
        cases hw
        have f := wireKids_valid hd ks [] ks' rfl hc.2 hk
        refine ⟨?_, ?_, fun _ => rfl, rfl⟩
        · intro hs
          simp only [structNode] at hs ⊢
          cases hl : lookupElem d n with
          | none => rw [hl] at hs; cases hs
          | some decl =>
            rw [hl] at hs
            simp only [Bool.and_eq_true, validAttrs] at hs ⊢
            have hok := (List.all_eq_true.mp hd) decl (lookupElem_mem hl).1
            simp only [Bool.and_eq_true] at hok
            obtain ⟨w1, _⟩ := wireAttrs_valid hok.2 as as' hc.1 ha hs.1.1.1.1
            have hkeys := wireAttrs_keys as as' ha
            refine ⟨⟨⟨⟨w1, ?_⟩, ?_⟩, content_wire (p := []) f hs.1.2⟩, f.struct hs.2⟩
            · rw [hkeys]; exact hs.1.1.1.2
            · have := hs.1.1.2
              simp only [requiredPresent] at this ⊢
              rw [hkeys]; exact this
        · simp only [charsOk, Bool.and_eq_true]
          exact ⟨wireAttrs_chars as as' hc.1 ha,
            f.chars rfl hc.2⟩
theorem wireKids_valid {d : Dtd} (hd : dtdOk d = true) :
    (ks : List Xml) → (p : Str) → (ks' : List Xml) → strOk p = true → charsOkList ks = true →
      wireKids p ks = some ks' → KidsFacts d p ks ks'
  | [], p, ks', hp, _, hw => by
    simp only [wireKids, flushText_eq p [] hp] at hw
    cases hw
    by_cases h : p = []
    · simp only [h, if_true]
      exact ⟨rfl, fun _ => rfl, fun _ _ => rfl, fun _ _ => rfl, fun _ => rfl, fun _ _ => rfl⟩
    · simp only [h, if_false]
      exact ⟨rfl, fun _ => rfl, fun hws _ => by simp [textsAll, normEOL_ws p false hws], fun e => absurd e h,
        fun _ => by simp [structNodes, structNode], fun hp' _ => by simp [charsOkList, charsOk, normEOL_ok p false hp']⟩
  | .text s :: ks, p, ks', hp, hc, hw => by
    simp only [charsOkList, charsOk, Bool.and_eq_true] at hc
    simp only [wireKids] at hw
    have hps : strOk (p ++ s) = true := by
      simp only [strOk, List.all_append, Bool.and_eq_true] at hp hc ⊢
      exact ⟨hp, hc.1⟩
    have f := wireKids_valid hd ks (p ++ s) ks' hps hc.2 hw
    refine ⟨by simpa [kidNames] using f.names, fun h => f.noel (by simpa [noElems] using h), ?_, ?_, ?_, ?_⟩
    · intro hws ht
      simp only [textsAll, Bool.and_eq_true] at ht
      exact f.ws (by simp [List.all_append, hws, ht.1]) ht.2
    · intro he ht
      simp only [textsAll, Bool.and_eq_true] at ht
      have : s = [] := by simpa using ht.1
      exact f.empty (by simp [he, this]) ht.2
    · intro hs
      simp only [structNodes, structNode, Bool.true_and] at hs
      exact f.struct hs
    · intro _ _; exact f.chars hps hc.2
  | .elem n as kk :: ks, p, ks', hp, hc, hw => by
    simp only [charsOkList, Bool.and_eq_true] at hc
    simp only [wireKids] at hw
    cases ht : wireTree (.elem n as kk) with
    | none => rw [ht] at hw; cases hw
    | some t =>
      cases hr : wireKids [] ks with
      | none => rw [ht, hr] at hw; cases hw
      | some r =>
        rw [ht, hr] at hw
        simp only [flushText_eq p (t :: r) hp] at hw
        cases hw
        obtain ⟨w1, w2, w3, w4⟩ := wire_valid hd (.elem n as kk) t hc.1 ht
        have f := wireKids_valid hd ks [] r rfl hc.2 hr
        have hte : ∃ as' kk', t = .elem n as' kk' := by
          cases t with
          | text s => have := w3 rfl; simp [Xml.isElem] at this
          | elem n' as' kk' => simp [Xml.name] at w4; subst w4; exact ⟨as', kk', rfl⟩
        obtain ⟨as', kk', rfl⟩ := hte
        have base : KidsFacts d [] (.elem n as kk :: ks) (.elem n as' kk' :: r) :=
          ⟨by simp [kidNames, f.names], fun h => by simp [noElems] at h,
           fun _ h => by simpa [textsAll] using f.ws rfl (by simpa [textsAll] using h),
           fun _ h => by simpa [textsAll] using f.empty rfl (by simpa [textsAll] using h),
           fun h => by
             simp only [structNodes, Bool.and_eq_true] at h ⊢
             exact ⟨w1 h.1, f.struct h.2⟩,
           fun _ _ => by simp only [charsOkList, Bool.and_eq_true]; exact ⟨w2, f.chars rfl hc.2⟩⟩
        by_cases h : p = []
        · simp only [h, if_true]; exact base
        · simp only [h, if_false]
          exact ⟨by simp [kidNames, f.names], fun hn => by simp [noElems] at hn,
            fun hws ht' => by
              have := base.ws rfl ht'
              simp only [textsAll, Bool.and_eq_true]
              exact ⟨normEOL_ws p false hws, this⟩,
            fun e => absurd e h,
            fun hs => by
              have := base.struct hs
              simp only [structNodes, structNode, Bool.true_and] at this ⊢
              exact this,
            fun hp' _ => by
              have := base.chars rfl (by simp only [charsOkList, Bool.and_eq_true]; exact hc)
              simp only [charsOkList, charsOk, Bool.and_eq_true] at this ⊢
              exact ⟨normEOL_ok p false hp', this⟩⟩
end

/-! ### transport -/

open Pywbem.Model.Req Pywbem.Proto in
theorem transport_ok {r r' : Headers × Xml} (h : transport r = .ok r') :
    r' = r ∧ ∀ p ∈ r.1, headerValueOk p.2 = true ∧ latin1Ok p.2 = true := by
  unfold transport at h
  split at h
  · cases h
  · rename_i h1
    split at h
    · cases h
    · rename_i h2
      cases h
      refine ⟨rfl, fun p hp => ?_⟩
      have a : r.1.all (fun p => headerValueOk p.2) = true := by
        cases hb : r.1.all (fun p => headerValueOk p.2) <;> simp [hb] at h1 ⊢
      have b : r.1.all (fun p => latin1Ok p.2) = true := by
        cases hb : r.1.all (fun p => latin1Ok p.2) <;> simp [hb] at h2 ⊢
      exact ⟨List.all_eq_true.mp a p hp, List.all_eq_true.mp b p hp⟩

open Pywbem.Model.Req in
/-- a header value `requests` lets through contains neither CR nor LF -/
theorem headerValueOk_noCRLF {v : Str} (h : headerValueOk v = true) : '\r' ∉ v ∧ '\n' ∉ v := by
  cases v with
  | nil => simp
  | cons c cs =>
    simp only [headerValueOk, Bool.and_eq_true, List.all_eq_true] at h
    have hc : c ≠ '\r' ∧ c ≠ '\n' := by
      constructor <;> (intro e; subst e; simp [pyIsSpace] at h)
    have hcs : ∀ d ∈ cs, d ≠ '\r' ∧ d ≠ '\n' := by
      intro d hd; have := h.2 d hd; simpa using this
    constructor
    · intro hm; rcases List.mem_cons.mp hm with e | e
      · exact hc.1 e.symm
      · exact (hcs _ e).1 rfl
    · intro hm; rcases List.mem_cons.mp hm with e | e
      · exact hc.2 e.symm
      · exact (hcs _ e).2 rfl

end Proofs.DtdWire
