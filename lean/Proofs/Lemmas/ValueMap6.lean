/-
Helper lemmas for C20, part 7: ValueMap arrays with NULL elements (createI).
-/
import Proofs.Lemmas.ValueMap5

namespace Proofs.ValueMap
open Pywbem.Proto Pywbem.Model.IntLit Pywbem.Model.ValueMap Pywbem.Model.ValueMap.Spec Proofs.IntLit

theorem getElem?_map_some (vmap : List Str) (i : Nat) : (vmap.map some)[i]? = (vmap[i]?).map some := by
  simp

theorem loOpenI_eq (T : IntType) (vmap : List Str) (i : Nat) (rec : Rec) :
    loOpenI T (vmap.map some) i rec = loOpen T vmap i rec := by
  unfold loOpenI loOpen
  by_cases h0 : i = 0
  · simp [h0]
  · simp only [h0, if_false, getElem?_map_some]
    cases vmap[i - 1]? <;> rfl

theorem hiOpenI_eq (T : IntType) (vmap : List Str) (i : Nat) (rec : Rec) :
    hiOpenI T (vmap.map some) i rec = hiOpen T vmap i rec := by
  unfold hiOpenI hiOpen
  simp only [List.length_map, getElem?_map_some]
  by_cases h0 : i + 1 = vmap.length
  · simp [h0]
  · simp only [h0, if_false]
    cases vmap[i + 1]? <;> rfl

theorem tupleBodyI_eq (T : IntType) (vmap : List Str) (i : Nat) (rec : Rec) :
    tupleBodyI T (vmap.map some) rec i = tupleBody T vmap rec i := by
  unfold tupleBodyI tupleBody
  simp only [getElem?_map_some, loOpenI_eq, hiOpenI_eq]
  cases vmap[i]? <;> rfl

theorem valuesTupleI_eq (T : IntType) (vmap : List Str) (f i : Nat) :
    valuesTupleI T (vmap.map some) f i = valuesTuple T vmap f i := by
  induction f generalizing i with
  | zero => rfl
  | succ f ih =>
    simp only [valuesTupleI, valuesTuple]
    rw [show (fun j => valuesTupleI T (vmap.map some) f j) = (fun j => valuesTuple T vmap f j) from funext ih]
    exact tupleBodyI_eq T vmap i _

theorem loopI_eq (T : IntType) (vmap values : List Str) :
    ∀ (rest : List Str) (i : Nat) (vm : VM),
      loopI T (vmap.map some) values i (rest.map some) vm = Pywbem.Model.ValueMap.loop T vmap values i rest vm := by
  intro rest
  induction rest with
  | nil => intro i vm; rfl
  | cons s rs ih =>
    intro i vm
    simp only [List.map_cons, loopI, Pywbem.Model.ValueMap.loop, stepEntry, entAtI, entAt, fuelFor,
      List.length_map, valuesTupleI_eq, Option.some.injEq]
    cases values[i]? with
    | none => rfl
    | some vs =>
      simp only
      by_cases hd : s = ['.', '.']
      · simp only [hd, if_true]; exact ih _ _
      · simp only [hd, if_false]
        cases valuesTuple T vmap (vmap.length + 1) i with
        | error e => rfl
        | ok p => simp only; exact ih _ _

theorem reconcile_length_only (values a b : List Str) (vd : Option Str) (h : a.length = b.length) :
    reconcile values a vd = reconcile values b vd := by
  unfold reconcile; rw [h]

/-- **no NULL element ⇒ the item-level construction is `create`** -/
theorem createI_eq_create (typ : String) (vals vmap : List Str) (vd : Option Str) :
    createI typ vals (vmap.map some) vd = create ⟨typ, some vals, some vmap⟩ vd := by
  unfold createI create reconcileN
  cases intTypeOf typ with
  | none => rfl
  | some T =>
    simp only [effMap, List.length_map]
    rw [reconcile_length_only vals (List.replicate vmap.length []) vmap vd (by simp)]
    cases reconcile vals vmap vd with
    | error x => rfl
    | ok values => simp only; exact loopI_eq T vmap values vmap 0 {}

/-- **a NULL element anywhere in the ValueMap array: construction never succeeds** -/
theorem loopI_none_fails (T : IntType) (vmap : List Item) (values : List Str) :
    ∀ (rest : List Item) (i : Nat) (vm : VM), vmap.drop i = rest → none ∈ rest →
      ∀ r, loopI T vmap values i rest vm ≠ .ok r := by
  intro rest
  induction rest with
  | nil => intro i vm _ hm; simp at hm
  | cons s rs ih =>
    intro i vm hd hm r
    have hi : vmap[i]? = some s := by
      have := congrArg List.head? hd
      simpa [List.head?_drop] using this
    have hd' : vmap.drop (i + 1) = rs := by
      have := congrArg List.tail hd
      simpa [List.tail_drop] using this
    simp only [loopI]
    cases values[i]? with
    | none => simp
    | some vs =>
      simp only
      cases s with
      | none =>
        simp only [entAtI, reduceCtorEq, if_false, valuesTupleI, tupleBodyI, hi]
        simp
      | some str =>
        have hm' : none ∈ rs := by simpa using hm
        cases entAtI T vmap i (some str) with
        | error e => simp
        | ok en => simp only; exact ih (i + 1) _ hd' hm' r

theorem createI_none_fails (typ : String) (vals : List Str) (vmap : List Item) (vd : Option Str)
    (h : none ∈ vmap) : ∀ vm, createI typ vals vmap vd ≠ .ok vm := by
  intro vm
  unfold createI
  cases intTypeOf typ with
  | none => simp
  | some T =>
    simp only
    cases reconcileN vals vmap.length vd with
    | error x => simp
    | ok values => simp only; exact loopI_none_fails T vmap values vmap 0 {} (by simp) h vm

end Proofs.ValueMap
