/-
Helper lemmas for C08 stage 1: typed values — what `_value_tomof` writes lexes to the tokens of the value, the
value productions read them back, `cimvalue` types them back.
-/
import Proofs.Lemmas.MofTok
import Proofs.Lemmas.MofArr

set_option linter.unusedSimpArgs false

namespace Pywbem.Lemmas.MofValue
open Pywbem.Proto Pywbem.Model Pywbem.Model.MofStr Pywbem.Model.MofLex Pywbem.Model.MofVal
open Pywbem.Lemmas.MofStr Pywbem.Lemmas.MofNum Pywbem.Lemmas.MofTok Pywbem.Lemmas.MofArr

abbrev Str := List Nat

/-- a scalar the object model can hold for CIM type `ty` and MOF can carry: NULL, or a value of the Python type
    that belongs to `ty` (integers within the range of the type; floats, datetimes, instance paths inside the
    domain of the codec laws).  char16 is excluded: known finding C08-F1. -/
def ScalarOk (c : Codec) (L : CodecLaws c) (ty : CimType) : Scalar c → Prop
  | .null => True
  | .str _ => ty = .string
  | .char16 _ => False
  | .bool _ => ty = .boolean
  | .int v => ∃ lo hi, ty.intRange = some (lo, hi) ∧ lo ≤ v ∧ v ≤ hi
  | .real x => ty.isReal = true ∧ L.realOk x
  | .datetime d => ty = .datetime ∧ L.dtOk d
  | .ref r => ty = .reference ∧ L.refOk r

def ValueOk (c : Codec) (L : CodecLaws c) (ty : CimType) : Value c → Prop
  | .scalar s => ScalarOk c L ty s
  | .array xs => ∀ s ∈ xs, ScalarOk c L ty s

def Value.isArray {c : Codec} : Value c → Bool
  | .scalar _ => false
  | .array _ => true

def kwNULL : Str := [78, 85, 76, 76]

/-- the raw value the value productions deliver for a scalar -/
def rawOf (c : Codec) : Scalar c → Raw
  | .null => .null
  | .str v => .str v
  | .char16 v => .str v
  | .bool b => .bool b
  | .int v => .int v
  | .real x => .float (realLit (c.realStr x))
  | .datetime d => .str (c.dtStr d)
  | .ref r => .str (c.refStr r)

/-- token lists a scalar may be written as (the number of string tokens depends on the folding) -/
def ScalarToks (c : Codec) (s : Scalar c) (toks : List Tok) : Prop :=
  match rawOf c s with
  | .null => toks = [Tok.id kwNULL]
  | .bool b => toks = [Tok.id (if b then litTrue else litFalse)]
  | .int v => toks = [Tok.num (.int v)]
  | .float t => toks = [Tok.num (.float t)]
  | .str v => ∃ ps : List (Str × Str), ps ≠ [] ∧ (ps.map (·.2)).flatten = v ∧ toks = ps.map (fun p => Tok.str (tokOf p))
  | .chr _ => False

/-! ### generator side -/

theorem mofval_shape (t : Str) (i m : Nat) (lp : Int) (es : Nat) (out : Str) (lp' : Int)
    (h : mofval t i m lp es = .ok (out, lp')) : ∃ ws : Str, ws.all isWs = true ∧ out = ws ++ t := by
  unfold mofval at h
  split at h
  · simp only [Except.ok.injEq, Prod.mk.injEq] at h; exact ⟨[], rfl, by simp [h.1]⟩
  · split at h
    · simp only [Except.ok.injEq, Prod.mk.injEq] at h
      refine ⟨10 :: indentStr i, ?_, by simp [← h.1]⟩
      simp [indentStr, isWs]
    · simp at h

theorem lexToks_kw (kw : Str) (c : Nat) (cs : Str) (e : kw = c :: cs) (hc : isIdStart c = true)
    (hcs : cs.all isIdChar = true) (t : Str) (ht : Closed t) :
    lexToks (kw ++ t) = (lexToks t).map (Tok.id kw :: ·) := by
  subst e; exact lexToks_id c cs t hc hcs ht

/-- what `_scalar_value_tomof` writes for a well-typed scalar lexes, in front of a separator, to the tokens of
    that scalar -/
theorem scalar_lex (c : Codec) (L : CodecLaws c) (ty : CimType) (s : Scalar c) (hok : ScalarOk c L ty s)
    (indent maxline : Nat) (hw : indent + 8 ≤ maxline) (lp : Int) (es : Nat) (avoid : Bool) (i : Item)
    (hi : scalarItem c ty s = .ok i) (out : Str) (lp' : Int)
    (hr : scalarTomof i indent maxline lp es avoid = .ok (out, lp')) :
    ∃ toks, ScalarToks c s toks ∧ ∀ t, Closed t → lexToks (out ++ t) = (lexToks t).map (toks ++ ·) := by
  -- string-like items: through mofstr
  have strCase : ∀ v : Str, i = .str v → rawOf c s = .str v →
      ∃ toks, ScalarToks c s toks ∧ ∀ t, Closed t → lexToks (out ++ t) = (lexToks t).map (toks ++ ·) := by
    intro v hiv hraw
    subst hiv
    simp only [scalarTomof, mofstr] at hr
    obtain ⟨ps, lp2, hloop, hflat, hws, hne⟩ := loop_pieces_ne ⟨indent, maxline, es, avoid, 34⟩ hw v lp
    rw [hloop] at hr
    simp only [Except.ok.injEq, Prod.mk.injEq] at hr
    refine ⟨ps.map (fun p => Tok.str (tokOf p)), ?_, ?_⟩
    · simp only [ScalarToks, hraw]; exact ⟨ps, hne, hflat, rfl⟩
    · intro t _; rw [← hr.1]; exact lexToks_render ps hws t
  -- literal items: through mofval
  have litCase : ∀ (txt : Str) (tk : Tok), i = .lit txt ∨ (i = .null ∧ txt = kwNULL) →
      (∀ t, Closed t → lexToks (txt ++ t) = (lexToks t).map (tk :: ·)) → ScalarToks c s [tk] →
      ∃ toks, ScalarToks c s toks ∧ ∀ t, Closed t → lexToks (out ++ t) = (lexToks t).map (toks ++ ·) := by
    intro txt tk hitem hlex hst
    have hmv : mofval txt indent maxline lp es = .ok (out, lp') := by
      rcases hitem with h | ⟨h, h2⟩
      · subst h; simpa [scalarTomof] using hr
      · subst h; subst h2; simpa [scalarTomof, kwNULL] using hr
    obtain ⟨ws, hws, hout⟩ := mofval_shape _ _ _ _ _ _ _ hmv
    refine ⟨[tk], hst, ?_⟩
    intro t ht
    rw [hout, List.append_assoc, lexToks_ws ws hws, hlex t ht]
    simp
  cases s with
  | null =>
    simp only [scalarItem, Except.ok.injEq] at hi
    exact litCase kwNULL (Tok.id kwNULL) (.inr ⟨hi.symm, rfl⟩)
      (fun t ht => lexToks_kw kwNULL 78 [85, 76, 76] rfl (by decide) (by decide) t ht)
      (by simp [ScalarToks, rawOf])
  | str v =>
    have hty : ty = .string := hok
    subst hty
    simp only [scalarItem, Except.ok.injEq] at hi
    exact strCase v hi.symm rfl
  | char16 v => exact absurd hok (by simp [ScalarOk])
  | bool b =>
    have hty : ty = .boolean := hok
    subst hty
    simp only [scalarItem, Except.ok.injEq] at hi
    cases b with
    | true =>
      exact litCase litTrue (Tok.id litTrue) (.inl (by simpa using hi.symm))
        (fun t ht => lexToks_kw litTrue 116 [114, 117, 101] rfl (by decide) (by decide) t ht)
        (by simp [ScalarToks, rawOf])
    | false =>
      exact litCase litFalse (Tok.id litFalse) (.inl (by simpa using hi.symm))
        (fun t ht => lexToks_kw litFalse 102 [97, 108, 115, 101] rfl (by decide) (by decide) t ht)
        (by simp [ScalarToks, rawOf])
  | int v =>
    obtain ⟨lo, hi2, hrange, _, _⟩ := hok
    have : scalarItem c ty (.int v) = .ok (.lit (intStr v)) := by
      cases ty <;> simp [scalarItem, hrange] <;> simp [CimType.intRange, Generated.intTypes, CimType.name] at hrange
    rw [this] at hi
    simp only [Except.ok.injEq] at hi
    exact litCase (intStr v) (Tok.num (.int v)) (.inl hi.symm) (fun t ht => lexToks_int v t ht)
      (by simp [ScalarToks, rawOf])
  | real x =>
    obtain ⟨hreal, hx⟩ := hok
    obtain ⟨hg, hrender⟩ := L.realShapeOk x hx
    have : scalarItem c ty (.real x) = .ok (.lit (realLit (c.realStr x))) := by
      cases ty <;> simp [CimType.isReal] at hreal <;> simp [scalarItem]
    rw [this] at hi
    simp only [Except.ok.injEq] at hi
    exact litCase (realLit (c.realStr x)) (Tok.num (.float (realLit (c.realStr x)))) (.inl hi.symm)
      (fun t ht => by rw [hrender]; exact lexToks_real (L.realShape x) hg t ht)
      (by simp [ScalarToks, rawOf])
  | datetime d =>
    have hty : ty = .datetime := hok.1
    subst hty
    simp only [scalarItem, Except.ok.injEq] at hi
    exact strCase (c.dtStr d) hi.symm rfl
  | ref r =>
    have hty : ty = .reference := hok.1
    subst hty
    simp only [scalarItem, Except.ok.injEq] at hi
    exact strCase (c.refStr r) hi.symm rfl

/-- item-wise `ScalarToks` -/
inductive AllToks (c : Codec) : List (Scalar c) → List (List Tok) → Prop where
  | nil : AllToks c [] []
  | cons {s ss t ts} : ScalarToks c s t → AllToks c ss ts → AllToks c (s :: ss) (t :: ts)

/-- tokens of an array: items separated by commas -/
def joinToks : Bool → List (List Tok) → List Tok
  | _, [] => []
  | first, ts :: rest => (if first then [] else [Tok.p 44]) ++ ts ++ joinToks false rest

theorem arrayTomof_head (indent maxline es : Nat) (avoid : Bool) (i : Item) (is : List Item) (lp : Int)
    (out : Str) (lp' : Int) (h : arrayTomof indent maxline es avoid (i :: is) false lp = .ok (out, lp')) :
    ∃ r, out = 44 :: r := by
  simp only [arrayTomof] at h
  split at h
  · simp at h
  · split at h
    · simp at h
    · simp only [Bool.false_eq_true, if_false, Except.ok.injEq, Prod.mk.injEq] at h
      rw [← h.1]
      split <;> simp

theorem scalarItems_cons (c : Codec) (ty : CimType) (s : Scalar c) (ss : List (Scalar c)) (is : List Item)
    (h : scalarItems c ty (s :: ss) = .ok is) :
    ∃ i is', scalarItem c ty s = .ok i ∧ scalarItems c ty ss = .ok is' ∧ is = i :: is' := by
  simp only [scalarItems] at h
  cases hi : scalarItem c ty s with
  | error e => simp [hi] at h
  | ok i =>
    cases hs : scalarItems c ty ss with
    | error e => simp [hi, hs, Except.map] at h
    | ok is' =>
      simp only [hi, hs, Except.map, Except.ok.injEq] at h
      exact ⟨i, is', rfl, rfl, h.symm⟩

theorem array_lex (c : Codec) (L : CodecLaws c) (ty : CimType) (indent maxline : Nat) (hw : indent + 8 ≤ maxline)
    (es : Nat) (avoid : Bool) :
    ∀ (xs : List (Scalar c)) (is : List Item) (first : Bool) (lp : Int) (out : Str) (lp' : Int),
      (∀ s ∈ xs, ScalarOk c L ty s) → scalarItems c ty xs = .ok is →
      arrayTomof indent maxline es avoid is first lp = .ok (out, lp') →
      ∃ tokss, AllToks c xs tokss ∧
        ∀ t, Closed t → lexToks (out ++ t) = (lexToks t).map (joinToks first tokss ++ ·) := by
  intro xs
  induction xs with
  | nil =>
    intro is first lp out lp' _ hi hr
    simp only [scalarItems, Except.ok.injEq] at hi
    subst hi
    simp only [arrayTomof, Except.ok.injEq, Prod.mk.injEq] at hr
    refine ⟨[], .nil, ?_⟩
    intro t _; rw [← hr.1]; simp [joinToks]
  | cons s ss ih =>
    intro is first lp out lp' hok hi hr
    obtain ⟨i, is', hi1, hi2, e⟩ := scalarItems_cons c ty s ss is hi
    subst e
    simp only [arrayTomof] at hr
    cases hsc : scalarTomof i indent maxline (if first then lp else lp + 2) (es + 2) avoid with
    | error e => simp [hsc] at hr
    | ok r =>
      simp only [hsc] at hr
      cases hrec : arrayTomof indent maxline es avoid is' false
          (if first then r.2 else if (r.1.head? == some 10) = true then r.2 - 1 else r.2) with
      | error e => rw [hrec] at hr; simp at hr
      | ok r2 =>
        rw [hrec] at hr
        simp only [Except.ok.injEq, Prod.mk.injEq] at hr
        obtain ⟨toks, hst, hlex⟩ := scalar_lex c L ty s (hok s (by simp)) indent maxline hw _ (es + 2) avoid i hi1
          r.1 r.2 (by rw [hsc])
        obtain ⟨tokss, hf2, hlex2⟩ := ih is' false _ r2.1 r2.2 (fun x hx => hok x (by simp [hx])) hi2 (by rw [hrec])
        refine ⟨toks :: tokss, .cons hst hf2, ?_⟩
        intro t ht
        have hclosed : Closed (r2.1 ++ t) := by
          cases is' with
          | nil =>
            simp only [arrayTomof, Except.ok.injEq, Prod.mk.injEq] at hrec
            rw [← hrec]; simpa using ht
          | cons j js =>
            obtain ⟨rr, hrr⟩ := arrayTomof_head indent maxline es avoid j js _ r2.1 r2.2 (by rw [hrec])
            rw [hrr]; exact closed_cons 44 _ (by decide)
        have hbody : lexToks (r.1 ++ (r2.1 ++ t)) = (lexToks t).map (toks ++ joinToks false tokss ++ ·) := by
          rw [hlex _ hclosed, hlex2 t ht]
          simp [Option.map_map, Function.comp_def]
        rw [← hr.1]
        cases first with
        | true => simp [joinToks]; simpa using hbody
        | false =>
          simp only [Bool.false_eq_true, if_false]
          split
          · have : [44] ++ r.1 ++ r2.1 ++ t = 44 :: (r.1 ++ (r2.1 ++ t)) := by simp
            rw [this, lexToks_punct 44 (by decide), hbody]
            simp [joinToks, Option.map_map, Function.comp_def]
          · have : [44, 32] ++ r.1 ++ r2.1 ++ t = 44 :: ([32] ++ (r.1 ++ (r2.1 ++ t))) := by simp
            rw [this, lexToks_punct 44 (by decide), lexToks_ws [32] (by decide), hbody]
            simp [joinToks, Option.map_map, Function.comp_def]

/-! ### compiler side -/

def NoStrHead : List Tok → Prop
  | .str _ :: _ => False
  | _ => True

theorem takeStrs_map (ps : List (Str × Str)) (rest : List Tok) (h : NoStrHead rest) :
    takeStrs (ps.map (fun p => Tok.str (tokOf p)) ++ rest) = (ps.map tokOf, rest) := by
  induction ps with
  | nil =>
    simp only [List.map_nil, List.nil_append]
    cases rest with
    | nil => rfl
    | cons a r => cases a <;> first | rfl | exact absurd h (by simp [NoStrHead])
  | cons p ps ih => simp [takeStrs, ih]

theorem parseConst_scalar (c : Codec) (s : Scalar c) (toks rest : List Tok) (h : ScalarToks c s toks)
    (hr : NoStrHead rest) : parseConst (toks ++ rest) = some (rawOf c s, rest) := by
  unfold ScalarToks at h
  cases hraw : rawOf c s with
  | null => simp only [hraw] at h; subst h; simp [parseConst, isKw, kwNULL, asciiLower]
  | bool b =>
    simp only [hraw] at h; subst h
    cases b <;> simp [parseConst, isKw, litTrue, litFalse, asciiLower] <;> decide
  | int v => simp only [hraw] at h; subst h; simp [parseConst]
  | float t => simp only [hraw] at h; subst h; simp [parseConst]
  | chr r => simp only [hraw] at h
  | str v =>
    simp only [hraw] at h
    obtain ⟨ps, hne, hflat, e⟩ := h
    subst e
    cases ps with
    | nil => exact absurd rfl hne
    | cons p ps =>
      have hts := takeStrs_map (p :: ps) rest hr
      simp only [List.map_cons, List.cons_append] at hts ⊢
      simp only [parseConst, hts]
      have := stringValueList_toks (p :: ps)
      simp only [List.map_cons] at this
      rw [this]
      simp only [List.map_cons] at hflat
      rw [hflat]

theorem noStrHead_join (tokss : List (List Tok)) : NoStrHead (joinToks false tokss) := by
  cases tokss <;> simp [joinToks, NoStrHead]

theorem parseConstList_join (c : Codec) : ∀ (xs : List (Scalar c)) (tokss : List (List Tok)) (s : Scalar c)
    (toks : List Tok), ScalarToks c s toks → AllToks c xs tokss →
    ∀ f, xs.length + 1 ≤ f →
      parseConstListF f (toks ++ joinToks false tokss) = some (rawOf c s :: xs.map (rawOf c), []) := by
  intro xs
  induction xs with
  | nil =>
    intro tokss s toks hs hf f hfl
    cases hf
    match f, hfl with
    | f + 1, _ =>
      simp only [joinToks, List.append_nil, parseConstListF]
      have := parseConst_scalar c s toks [] hs trivial
      simp only [List.append_nil] at this
      rw [this]
      rfl
  | cons x xs ih =>
    intro tokss s toks hs hf f hfl
    cases hf with
    | cons hx hrest =>
      rename_i tx trest
      match f, hfl with
      | f + 1, hfl =>
        simp only [List.length_cons] at hfl
        have hp := parseConst_scalar c s toks (joinToks false (tx :: trest)) hs (noStrHead_join _)
        simp only [parseConstListF, hp]
        simp only [joinToks, Bool.false_eq_true, if_false, List.cons_append, List.nil_append, List.append_assoc]
        rw [ih trest x tx hx hrest f (by omega)]
        simp

/-- `cimvalue` gives the typed value back -/
theorem typeRaw_scalar (c : Codec) (L : CodecLaws c) (ty : CimType) (s : Scalar c) (h : ScalarOk c L ty s) :
    typeRaw c ty (rawOf c s) = some s := by
  cases s with
  | null => rfl
  | str v => have : ty = .string := h; subst this; rfl
  | char16 v => exact absurd h (by simp [ScalarOk])
  | bool b => have : ty = .boolean := h; subst this; simp [rawOf, typeRaw]
  | int v =>
    obtain ⟨lo, hi, hr, h1, h2⟩ := h
    simp [rawOf, typeRaw, hr, h1, h2]
  | real x =>
    obtain ⟨hreal, hx⟩ := h
    obtain ⟨hg, hrender⟩ := L.realShapeOk x hx
    have hp : c.realParse (realLit (c.realStr x)) = some x := by
      rw [hrender, realLit_render (L.realShape x) hg]
      unfold withFrac
      cases hf : (L.realShape x).frac with
      | some f => simp only []; rw [← hrender]; exact L.realRt x hx
      | none => simp only []; rw [L.realDot0 x hx hf, ← hrender]; exact L.realRt x hx
    simp [rawOf, typeRaw, hreal, hp]
  | datetime d =>
    have : ty = .datetime := h.1
    subst this
    simp [rawOf, typeRaw, L.dtRt d h.2]
  | ref r =>
    have : ty = .reference := h.1
    subst this
    simp [rawOf, typeRaw, L.refRt r h.2]

theorem typeRaws_scalars (c : Codec) (L : CodecLaws c) (ty : CimType) (xs : List (Scalar c))
    (h : ∀ s ∈ xs, ScalarOk c L ty s) : typeRaws c ty (xs.map (rawOf c)) = some xs := by
  induction xs with
  | nil => rfl
  | cons x xs ih =>
    simp only [List.map_cons, typeRaws, typeRaw_scalar c L ty x (h x (by simp)),
      ih (fun s hs => h s (by simp [hs]))]

theorem joinToks_length (c : Codec) : ∀ (xs : List (Scalar c)) (tokss : List (List Tok)) (first : Bool),
    AllToks c xs tokss → xs.length ≤ (joinToks first tokss).length := by
  intro xs
  induction xs with
  | nil => intro tokss first h; simp
  | cons x xs ih =>
    intro tokss first h
    cases h with
    | cons hx hrest =>
      rename_i tx trest
      have := ih trest false hrest
      have hpos : 1 ≤ tx.length := by
        unfold ScalarToks at hx
        cases hr : rawOf c x <;> simp only [hr] at hx
        · subst hx; simp
        · subst hx; simp
        · subst hx; simp
        · subst hx; simp
        · obtain ⟨ps, hne, _, e⟩ := hx
          subst e
          cases ps with
          | nil => exact absurd rfl hne
          | cons a b => simp
      simp only [joinToks, List.length_append, List.length_cons]
      omega

/-! ### totality of the generator side up to the documented ValueError -/

theorem scalarItem_ok (c : Codec) (L : CodecLaws c) (ty : CimType) (s : Scalar c) (h : ScalarOk c L ty s) :
    ∃ i, scalarItem c ty s = .ok i ∧ ∀ v, i ≠ .char16 v := by
  cases s with
  | null => exact ⟨.null, rfl, by simp⟩
  | str v => have : ty = .string := h; subst this; exact ⟨.str v, rfl, by simp⟩
  | char16 v => exact absurd h (by simp [ScalarOk])
  | bool b => have : ty = .boolean := h; subst this; exact ⟨_, rfl, by simp⟩
  | int v =>
    obtain ⟨lo, hi2, hrange, _, _⟩ := h
    refine ⟨.lit (intStr v), ?_, by simp⟩
    cases ty <;> simp [scalarItem, hrange] <;> simp [CimType.intRange, Generated.intTypes, CimType.name] at hrange
  | real x =>
    refine ⟨.lit (realLit (c.realStr x)), ?_, by simp⟩
    have hreal := h.1
    cases ty <;> simp [CimType.isReal] at hreal <;> simp [scalarItem]
  | datetime d => have : ty = .datetime := h.1; subst this; exact ⟨_, rfl, by simp⟩
  | ref r => have : ty = .reference := h.1; subst this; exact ⟨_, rfl, by simp⟩

theorem mofval_err (t : Str) (i m : Nat) (lp : Int) (es : Nat) (e : PyExc)
    (h : mofval t i m lp es = .error e) : e = .valueError := by
  unfold mofval at h
  split at h
  · simp at h
  · split at h
    · simp at h
    · simp only [Except.error.injEq] at h; exact h.symm

theorem scalarTomof_err (i : Item) (hi : ∀ v, i ≠ .char16 v) (indent maxline : Nat) (hw : indent + 8 ≤ maxline)
    (lp : Int) (es : Nat) (avoid : Bool) (e : PyExc) (h : scalarTomof i indent maxline lp es avoid = .error e) :
    e = .valueError := by
  cases i with
  | null => exact mofval_err _ _ _ _ _ _ (by simpa [scalarTomof] using h)
  | lit t => exact mofval_err _ _ _ _ _ _ (by simpa [scalarTomof] using h)
  | char16 v => exact absurd rfl (hi v)
  | str v =>
    simp only [scalarTomof, mofstr] at h
    obtain ⟨ps, lp2, hloop, _⟩ := loop_pieces_ne ⟨indent, maxline, es, avoid, 34⟩ hw v lp
    rw [hloop] at h; simp at h

theorem arrayTomof_err (indent maxline : Nat) (hw : indent + 8 ≤ maxline) (es : Nat) (avoid : Bool) :
    ∀ (is : List Item), (∀ i ∈ is, ∀ v, i ≠ .char16 v) → ∀ (first : Bool) (lp : Int) (e : PyExc),
      arrayTomof indent maxline es avoid is first lp = .error e → e = .valueError := by
  intro is
  induction is with
  | nil => intro _ first lp e h; simp [arrayTomof] at h
  | cons i is ih =>
    intro hi first lp e h
    simp only [arrayTomof] at h
    cases hsc : scalarTomof i indent maxline (if first then lp else lp + 2) (es + 2) avoid with
    | error e2 =>
      rw [hsc] at h
      simp only [Except.error.injEq] at h
      subst h
      exact scalarTomof_err i (hi i (by simp)) indent maxline hw _ _ avoid _ hsc
    | ok r =>
      rw [hsc] at h
      simp only [] at h
      cases hrec : arrayTomof indent maxline es avoid is false
          (if first then r.2 else if (r.1.head? == some 10) = true then r.2 - 1 else r.2) with
      | error e2 =>
        rw [hrec] at h
        simp only [Except.error.injEq] at h
        subst h
        exact ih (fun j hj => hi j (by simp [hj])) false _ _ hrec
      | ok r2 => rw [hrec] at h; simp at h

theorem scalarItems_ok (c : Codec) (L : CodecLaws c) (ty : CimType) (xs : List (Scalar c))
    (h : ∀ s ∈ xs, ScalarOk c L ty s) :
    ∃ is, scalarItems c ty xs = .ok is ∧ ∀ i ∈ is, ∀ v, i ≠ .char16 v := by
  induction xs with
  | nil => exact ⟨[], rfl, by simp⟩
  | cons x xs ih =>
    obtain ⟨i, hi, hni⟩ := scalarItem_ok c L ty x (h x (by simp))
    obtain ⟨is, his, hnis⟩ := ih (fun s hs => h s (by simp [hs]))
    refine ⟨i :: is, by simp [scalarItems, hi, his, Except.map], ?_⟩
    intro j hj
    simp only [List.mem_cons] at hj
    rcases hj with hj | hj
    · subst hj; exact hni
    · exact hnis j hj

end Pywbem.Lemmas.MofValue
