/-
C01 — the constructor-side type checks reject: an element whose TYPE is not a CIM type (for qualifiers: not a
qualifier type; for methods: missing, not a CIM type, or 'reference') never decodes to `.ok`, whatever its
children and other attributes are.
-/
import Proofs.Lemmas.CimXml20

set_option linter.unusedSimpArgs false
set_option linter.unusedVariables false
set_option linter.unusedSectionVars false

namespace Proofs.CimXml
open Pywbem.Model Pywbem.Model.XmlText Pywbem.Proto

/-- never `.ok` -/
def NeverOk {α} (x : R α) : Prop := ∀ a, x ≠ .ok a

theorem neverOk_perr {α} : NeverOk (perr : R α) := by intro a h; cases h
theorem neverOk_error {α} (e : PyExc) : NeverOk (.error e : R α) := by intro a h; cases h

theorem neverOk_bind_r {α β} {x : R α} {f : α → R β} (h : ∀ a, NeverOk (f a)) : NeverOk (x >>= f) := by
  intro b hb
  cases x with
  | error e => cases hb
  | ok a => exact h a b hb

theorem neverOk_bind' {α β} {x : R α} {f : α → R β} (h : ∀ a, x = .ok a → NeverOk (f a)) : NeverOk (x >>= f) := by
  intro b hb
  cases x with
  | error e => cases hb
  | ok a => exact h a rfl b hb

theorem neverOk_bind_l {α β} {x : R α} {f : α → R β} (h : NeverOk x) : NeverOk (x >>= f) := by
  intro b hb
  cases x with
  | error e => cases hb
  | ok a => exact h a rfl

theorem checkNode_ok_inv {n : Str} {as : List (Str × Str)} {ks : List Xml} {nm : String} {req opt : List String}
    {allowed : Option (List String)} {pc : Bool} {x : List (Str × Str) × List Xml}
    (h : checkNode (.elem n as ks) nm req opt allowed pc = .ok x) : x = (as, ks) := by
  rw [checkNode_eq] at h
  split at h
  · cases h; rfl
  · cases h

/-- walk down a do-block whose last step is a failing check -/
macro "never_ok" : tactic => `(tactic|
  repeat' (first
    | exact neverOk_perr
    | (apply neverOk_bind_r; intro _)
    | split
    | (exfalso; simp_all; done)))

section
variable (C : DecCodec) (emb : Str → R Atom)

theorem decProperty_needs_type (n : Str) (as) (ks : List Xml) (h : cimTypeOk (getAttrD as "TYPE" "") = false) :
    NeverOk (decProperty C emb (.elem n as ks)) := by
  unfold decProperty
  apply neverOk_bind'; intro x hx
  rw [checkNode_ok_inv hx]
  dsimp only
  never_ok

theorem decPropertyArray_needs_type (n : Str) (as) (ks : List Xml) (h : cimTypeOk (getAttrD as "TYPE" "") = false) :
    NeverOk (decPropertyArray C emb (.elem n as ks)) := by
  unfold decPropertyArray
  apply neverOk_bind'; intro x hx
  rw [checkNode_ok_inv hx]
  dsimp only
  never_ok

theorem decQualifier_needs_type (n : Str) (as) (ks : List Xml) (h : qualTypeOk (getAttrD as "TYPE" "") = false) :
    NeverOk (decQualifier C (.elem n as ks)) := by
  unfold decQualifier
  apply neverOk_bind'; intro x hx
  rw [checkNode_ok_inv hx]
  dsimp only
  never_ok

theorem decQualDecl_needs_type (n : Str) (as) (ks : List Xml) (h : qualTypeOk (getAttrD as "TYPE" "") = false) :
    NeverOk (decQualDecl C (.elem n as ks)) := by
  unfold decQualDecl
  apply neverOk_bind'; intro x hx
  rw [checkNode_ok_inv hx]
  dsimp only
  never_ok

theorem decParameter_needs_type (n : Str) (as) (ks : List Xml)
    (hn : n = "PARAMETER".toList ∨ n = "PARAMETER.ARRAY".toList)
    (h : cimTypeOk (getAttrD as "TYPE" "") = false) : NeverOk (decParameter C (.elem n as ks)) := by
  simp only [decParameter]
  rcases hn with hn | hn
  · simp only [if_pos hn]
    apply neverOk_bind'; intro x hx
    rw [checkNode_ok_inv hx]
    dsimp only
    apply neverOk_bind_r; intro _
    simp only [h, Bool.not_false, if_true]
    exact neverOk_perr
  · have h1 : n ≠ "PARAMETER".toList := by rw [hn]; decide
    have h2 : n ≠ "PARAMETER.REFERENCE".toList := by rw [hn]; decide
    simp only [if_neg h1, if_neg h2, if_pos hn]
    apply neverOk_bind'; intro x hx
    rw [checkNode_ok_inv hx]
    dsimp only
    apply neverOk_bind_r; intro _
    apply neverOk_bind_r; intro _
    simp only [h, Bool.not_false, if_true]
    exact neverOk_perr

/-- METHOD: the return type must be present, a CIM type, and not 'reference' -/
theorem decMethod_needs_type (n : Str) (as) (ks : List Xml)
    (h : ∀ rt, Xml.attr as "TYPE".toList = some rt → cimTypeOk rt = false ∨ rt = "reference".toList) :
    NeverOk (decMethod C (.elem n as ks)) := by
  unfold decMethod
  apply neverOk_bind'; intro x hx
  rw [checkNode_ok_inv hx]
  dsimp only
  apply neverOk_bind_r; intro _
  apply neverOk_bind_r; intro _
  apply neverOk_bind_r; intro _
  cases hrt : Xml.attr as "TYPE".toList with
  | none => exact neverOk_perr
  | some rt =>
    cases rt with
    | nil => exact neverOk_perr
    | cons c cs =>
      dsimp only
      have hc : (!cimTypeOk (c :: cs) || decide ((c :: cs) = "reference".toList)) = true := by
        rcases h _ hrt with h1 | h1
        · rw [h1]; rfl
        · rw [decide_eq_true h1, Bool.or_true]
      rw [if_pos hc]
      exact neverOk_perr

end

end Proofs.CimXml
