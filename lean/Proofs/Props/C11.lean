/-
C11 — "A failed mock-repository operation changes nothing": property theorems over Model/Atomic.lean.

Full statement (proved below as `C11.failed_step_is_identity` and `C11.failed_steps_of_history_are_identity`):
  for every repository state `s` and every operation `op` of the 13 repository-changing entry points
  (single-object operations and the batch operations add_cimobjects(list) / compile_mof_*), if `op` raises
  then the repository after the call is `s`.
The single-object theorems are proved from the ORDER of the statements of the model (validation phase is
read-only, then one store write, or a write loop whose success the validation has established); the batch
theorems hold because of the snapshot/restore block of the `fix:` commits – the negation for the original
fold is `C11.fold_without_restore_not_atomic` / `C11.compile_without_restore_not_atomic`.
-/
import Proofs.Lemmas.Atomic

namespace C11
open Pywbem.Proto Pywbem.Model.Atomic Pywbem.Generated.Atomic

/-! ### single-object operations: all validation precedes the first write -/

theorem createClass_failed_is_identity (s : State) (ns : Name) (c : ClassDef) :
    AtomicAt (createClass ns c) s := by
  unfold createClass
  apply atomicAt_bind (readOnly_validateNs ns); intro _ _
  apply atomicAt_getNs_then; intro r _
  apply atomicAt_ite; · intro _; exact atomicAt_raise _ _
  intro _
  apply atomicAt_ite; · intro _; exact atomicAt_raise _ _
  intro _
  apply atomicAt_liftE_then; intro rc _
  exact atomicAt_classCreate ns rc s

theorem modifyClass_failed_is_identity (s : State) (ns : Name) (c : ClassDef) :
    AtomicAt (modifyClass ns c) s := by
  unfold modifyClass
  apply atomicAt_bind (readOnly_validateNs ns); intro _ _
  apply atomicAt_getNs_then; intro r _
  cases findClass r c.name with
  | none => exact atomicAt_raise _ _
  | some orig =>
    simp only
    apply atomicAt_ite; · intro _; exact atomicAt_raise _ _
    intro _
    apply atomicAt_ite; · intro _; exact atomicAt_raise _ _
    intro _
    apply atomicAt_ite; · intro _; exact atomicAt_raise _ _
    intro _
    apply atomicAt_ite; · intro _; exact atomicAt_raise _ _
    intro _
    apply atomicAt_ite; · intro _; exact atomicAt_raise _ _
    intro _
    apply atomicAt_ite; · intro _; exact atomicAt_raise _ _
    intro _
    apply atomicAt_liftE_then; intro rc _
    exact atomicAt_classUpdate ns rc s

theorem setQualifier_failed_is_identity (s : State) (ns : Name) (q : QualDecl) :
    AtomicAt (setQualifier ns q) s := by
  unfold setQualifier
  apply atomicAt_bind (readOnly_validateNs ns); intro _ _
  apply atomicAt_tryCatch (atomicAt_qualCreate ns q s)
  intro e _
  apply atomicAt_ite
  · intro _; exact atomicAt_qualUpdate ns q s
  · intro _; exact atomicAt_raise _ _

theorem deleteQualifier_failed_is_identity (s : State) (ns : Name) (n : Name) :
    AtomicAt (deleteQualifier ns n) s := by
  unfold deleteQualifier
  apply atomicAt_bind (readOnly_validateNs ns); intro _ _
  apply atomicAt_getNs_then; intro r _
  apply atomicAt_ite
  · intro _
    apply atomicAt_ite
    · intro _; exact atomicAt_raise _ _
    · intro _; exact atomicAt_qualDelete ns n s
  · intro _; exact atomicAt_raise _ _

theorem addNamespace_failed_is_identity (s : State) (ns : Name) : AtomicAt (addNamespace ns) s := by
  unfold addNamespace
  simp only
  apply atomicAt_getS_then
  apply atomicAt_ite; · intro _; exact atomicAt_raise _ _
  intro _
  apply atomicAt_ite; · intro _; exact atomicAt_raise _ _
  intro _ e he
  cases he

theorem removeNamespace_failed_is_identity (s : State) (ns : Name) : AtomicAt (removeNamespace ns) s := by
  unfold removeNamespace
  simp only
  apply atomicAt_getS_then
  cases findNs s (stripSlashes ns) with
  | none => exact atomicAt_raise _ _
  | some r =>
    simp only
    apply atomicAt_ite; · intro _; exact atomicAt_raise _ _
    intro _
    apply atomicAt_ite; · intro _; exact atomicAt_raise _ _
    intro _ e he
    cases he

/-! ### instances -/

theorem createMulti_failed_is_identity (s : State) (nss : List Name) (orig : Name) (i : Inst)
    (hd : DistinctLower nss) : AtomicAt (createMulti nss orig i) s := by
  unfold createMulti
  apply atomicAt_getS_then
  cases hA : requireClassAll s i.cls nss with
  | some e => exact atomicAt_raise _ _
  | none =>
  simp only
  apply atomicAt_getNs_then; intro ro _
  cases findClass ro i.cls with
  | none => exact atomicAt_raise _ _
  | some cc =>
    simp only
    apply atomicAt_liftE_then; intro keys _
    apply atomicAt_ite; · intro _; exact atomicAt_raise _ _
    intro hB
    have hw : WritesOk (fun n => instCreateR (mkInstRec n cc.name keys i.cls i.props)) nss s := by
      intro n hn
      simp only [List.any_eq_true, not_exists, not_and] at hB
      obtain ⟨r0, hr0⟩ := requireClassAll_none s i.cls nss hA n hn
      have h2 := hB n hn
      cases hf : findNs s n with
      | none => rw [hf] at hr0; cases hr0
      | some r =>
        rw [hf] at h2
        simp only [Bool.not_eq_true] at h2
        obtain ⟨r', hr'⟩ := instCreateR_ok (mkInstRec n cc.name keys i.cls i.props) r h2
        exact ⟨r, r', rfl, hr'⟩
    obtain ⟨s', hs'⟩ := forM_inNs_ok _ (keepsName_create _) nss s hd hw
    exact atomicAt_of_ok hs'

theorem readOnly_endpointStep (p : PropV) :
    ReadOnly (match p.val with | .ref q => endpointOk q | _ => (pure () : M Unit)) := by
  cases p.val with
  | null => exact readOnly_pure _
  | sc _ => exact readOnly_pure _
  | ref q => exact readOnly_endpointOk q

theorem createSingle_failed_is_identity (s : State) (ns : Name) (cc : ClassRec) (i : Inst) :
    AtomicAt (createSingle ns cc i) s := by
  unfold createSingle
  apply atomicAt_liftE_then; intro keys _
  exact atomicAt_inNs _ _ _

theorem createProvider_failed_is_identity (s : State) (ns : Name) (cc : ClassRec) (i : Inst) :
    AtomicAt (createProvider ns cc i) s := by
  unfold createProvider
  apply atomicAt_ite
  · intro _
    apply atomicAt_bind (readOnly_forM_ readOnly_endpointStep _); intro _ _
    apply atomicAt_liftE_then; intro others hothers
    apply atomicAt_ite
    · intro _
      exact createMulti_failed_is_identity s _ ns _ (multiNs_distinct _ _ _ hothers)
    · intro _; exact createSingle_failed_is_identity s ns cc i
  · intro _; exact createSingle_failed_is_identity s ns cc i

/-! ### the CIM_Namespace provider -/

/-- CreateInstance of CIM_Namespace through the provider: the namespace is added BEFORE the instance is validated
    and stored; atomic because whatever makes the instance creation fail, the namespace just added is removed again
    (and removing it gives back exactly the old namespace list) -/
theorem nsProvCreate_failed_is_identity (s : State) (ns : Name) (cc : ClassRec) (i : Inst) :
    AtomicAt (nsProvCreate ns cc i) s := by
  unfold nsProvCreate
  apply atomicAt_ite; · intro _; exact atomicAt_raise _ _
  intro _
  cases findPropV i.props pnName with
  | none => exact atomicAt_raise _ _
  | some pn =>
    cases findPropV i.props pnCreationClassName with
    | none => exact atomicAt_raise _ _
    | some pc =>
      simp only
      cases pn.val with
      | null => exact atomicAt_raise _ _
      | ref _ => exact atomicAt_raise _ _
      | sc sv =>
        cases sv with
        | int _ => exact atomicAt_raise _ _
        | str raw =>
          simp only
          cases pc.val with
          | null => exact atomicAt_raise _ _
          | ref _ => exact atomicAt_raise _ _
          | sc cv =>
            cases cv with
            | int _ => exact atomicAt_raise _ _
            | str ccn =>
              simp only
              apply atomicAt_ite; · intro _; exact atomicAt_raise _ _
              intro _
              apply atomicAt_getS_then
              unfold nsProvPrepare nsProvFinish
              by_cases hadd : (findNs s (stripSlashes raw)).isNone = true
              · -- the namespace is added first
                simp only [hadd, if_true]
                apply atomicAt_bind_write (addNamespace_failed_is_identity s _)
                intro s1 a hs1 e he
                have hnone : s.nss.find? (fun r => nameEq r.name (stripSlashes raw)) = none := by
                  have := hadd; unfold findNs at this; simpa using this
                rcases addNamespace_cases (stripSlashes raw) s (stripSlashes_idem raw) with ⟨e', he'⟩ | hok
                · rw [he'] at hs1; cases hs1
                · rw [hok] at hs1
                  cases hs1
                  -- the instance creation is atomic from the state with the namespace; the handler removes it
                  have hcp := createProvider_failed_is_identity
                    ({ s with nss := s.nss ++ [{ name := stripSlashes raw }] } : State) ns cc
                    { i with props := i.props.map (fun p =>
                        if nameEq p.name pnName then
                          ({ name := pnName, ty := tyString, isArr := false, val := .sc (.str (stripSlashes raw)) } : PropV)
                        else p) }
                  unfold AtomicAt at hcp
                  unfold Pywbem.Model.Atomic.tryCatch at he ⊢
                  revert he hcp
                  generalize createProvider ns cc _ _ = res
                  obtain ⟨s2, r2⟩ := res
                  intro he hcp
                  cases r2 with
                  | ok _ => cases he
                  | error e2 =>
                    have hs2 := hcp e2 rfl
                    simp only at hs2
                    subst hs2
                    simp only [bind_apply, dropNamespace, raise]
                    rw [filter_append_new _ _ hnone]
              · -- the namespace exists: read-only check, then the (atomic) default creation
                simp only [hadd]
                refine atomicAt_bind ?_ ?_
                · apply readOnly_bind (readOnly_getNs ns)
                  intro r
                  exact readOnly_ite _ (readOnly_raise _) (readOnly_pure _)
                intro _ _
                apply atomicAt_tryCatch (createProvider_failed_is_identity s ns cc _)
                intro e _
                apply atomicAt_bind (readOnly_pure _); intro _ _
                exact atomicAt_raise _ _

/-- DeleteInstance of CIM_Namespace through the provider: the namespace is removed first, then the instance;
    once the namespace removal succeeded the deletion of the instance (found by the dispatcher) cannot fail -/
theorem nsProvDelete_failed_is_identity (s : State) (ns : Name) (p : Path) (k : PKey) (r : NsRec) (stored : InstRec)
    (hr : findNs s ns = some r) (hk : findInst r k = some stored) : AtomicAt (nsProvDelete ns p k) s := by
  unfold nsProvDelete
  cases p.keys.find? (fun e => nameEq e.1 pnName) with
  | none => exact atomicAt_raise _ _
  | some e =>
    obtain ⟨kn, kv⟩ := e
    cases kv with
    | null => exact atomicAt_raise _ _
    | ref _ => exact atomicAt_raise _ _
    | sc sv =>
      cases sv with
      | int _ => exact atomicAt_raise _ _
      | str target =>
        simp only
        apply atomicAt_ite; · intro _; exact atomicAt_raise _ _
        intro _
        apply atomicAt_bind_write (removeNamespace_failed_is_identity s target)
        intro s1 a hs1 e he
        rcases removeNamespace_cases target s with ⟨e', he'⟩ | ⟨rt, hrt, hempty, hok⟩
        · rw [he'] at hs1; cases hs1
        · rw [hok] at hs1
          cases hs1
          -- the removed namespace is empty, the namespace of the instance is not: they differ
          have hne : lower ns ≠ lower (stripSlashes target) := by
            intro heq
            have : findNs s (stripSlashes target) = findNs s ns := by unfold findNs nameEq; rw [heq]
            rw [this, hr] at hrt
            cases hrt
            unfold findInst at hk
            cases hl : r.insts with
            | nil => rw [hl] at hk; simp at hk
            | cons _ _ => rw [hl] at hempty; simp at hempty
          have hfind := findNs_filter_other s ns (stripSlashes target) r hr hne
          have hhas : hasInst r k = true := by unfold hasInst; rw [hk]; rfl
          obtain ⟨r', hr'⟩ := instDeleteR_ok k r hhas
          exfalso
          unfold inNs at he
          rw [hfind] at he
          simp only [hr'] at he
          cases he

/-- a user-defined provider that rejects before delegating keeps CreateInstance atomic -/
theorem userProvCreate_failed_is_identity (s : State) (u : UserProv) (ns : Name) (cc : ClassRec) (i : Inst) :
    AtomicAt (userProvCreate u ns cc i) s := by
  unfold userProvCreate
  apply atomicAt_ite
  · intro _; exact atomicAt_raise _ _
  · intro _; exact createProvider_failed_is_identity s ns cc i

theorem createInstance_failed_is_identity (s : State) (ns : Name) (i0 : Inst) :
    AtomicAt (createInstance ns i0) s := by
  unfold createInstance
  apply atomicAt_bind (readOnly_validateNs ns); intro _ _
  apply atomicAt_getNs_then; intro r _
  cases findClass r i0.cls with
  | none => exact atomicAt_raise _ _
  | some cc =>
    simp only
    apply atomicAt_ite; · intro _; exact atomicAt_raise _ _
    intro _
    apply atomicAt_getS_then
    apply atomicAt_ite
    · intro _; exact nsProvCreate_failed_is_identity s ns cc _
    · intro _
      cases findUserProv s ns i0.cls with
      | none => exact createProvider_failed_is_identity s ns cc _
      | some u => exact userProvCreate_failed_is_identity s u ns cc _

theorem modifyMulti_failed_is_identity (s : State) (nss : List Name) (rec : InstRec) :
    AtomicAt (modifyMulti nss rec) s := by
  unfold modifyMulti
  apply atomicAt_getS_then
  cases requireClassAll s rec.cls nss with
  | some e => exact atomicAt_raise _ _
  | none =>
  simp only
  apply atomicAt_ite; · intro _; exact atomicAt_raise _ _
  intro hB
  have hw : ∀ n ∈ nss, ∃ r, findNs s n = some r ∧
      hasInst r ({ rec with key := { rec.key with ns := lower n },
                            path := { rec.path with ns := some n } } : InstRec).key = true := by
    intro n hn
    simp only [List.any_eq_true, not_exists, not_and] at hB
    have h2 := hB n hn
    cases hf : findNs s n with
    | none => rw [hf] at h2; simp at h2
    | some r =>
      rw [hf] at h2
      simp only [Bool.not_eq_true, Bool.not_eq_false'] at h2
      exact ⟨r, rfl, h2⟩
  obtain ⟨s', hs'⟩ := forM_update_ok (fun n => { rec with key := { rec.key with ns := lower n },
                                                            path := { rec.path with ns := some n } }) nss s hw
  exact atomicAt_of_ok hs'

theorem readOnly_modifyRefCheck (stored : InstRec) (pv : PropV) : ReadOnly (modifyRefCheck stored pv) := by
  unfold modifyRefCheck
  cases pv.val with
  | null => exact readOnly_raise _
  | sc _ => exact readOnly_pure _
  | ref q => exact readOnly_ite _ (readOnly_endpointOk q) (readOnly_pure _)

theorem nsPreserving_modifyMulti (nss : List Name) (rec : InstRec) : NsPreserving (modifyMulti nss rec) := by
  unfold modifyMulti
  apply nsPreserving_bind (nsPreserving_of_readOnly readOnly_getS)
  intro s0
  cases requireClassAll s0 rec.cls nss with
  | some e => exact nsPreserving_of_readOnly (readOnly_raise _)
  | none =>
    simp only
    apply nsPreserving_ite
    · exact nsPreserving_of_readOnly (readOnly_raise _)
    · apply nsPreserving_forM_
      intro n
      apply nsPreserving_inNs
      intro r r' h
      exact keepsName_update (fun n => { rec with key := { rec.key with ns := lower n },
                                                  path := { rec.path with ns := some n } }) n r r' h

theorem modifyWrite_failed_is_identity (s : State) (ns : Name) (stored rec' : InstRec) (others : List Name) :
    AtomicAt (modifyWrite ns stored rec' others) s := by
  unfold modifyWrite
  apply atomicAt_ite
  · intro _; exact modifyMulti_failed_is_identity s _ _
  · intro _; exact atomicAt_inNs _ _ _

theorem nsPreserving_modifyWrite (ns : Name) (stored rec' : InstRec) (others : List Name) :
    NsPreserving (modifyWrite ns stored rec' others) := by
  unfold modifyWrite
  apply nsPreserving_ite
  · exact nsPreserving_modifyMulti _ _
  · apply nsPreserving_inNs
    intro r r' h
    exact keepsName_update (fun _ => rec') [] r r' h

/-- ModifyInstance of an association has TWO write phases (update the copies, then remove the copies in the
    namespaces no longer referenced): atomic because the update phase keeps every namespace, so the removal phase
    (delete-if-present in namespaces whose existence was checked first) cannot fail once the update succeeded -/
theorem modifyProvider_failed_is_identity (s : State) (ns : Name) (cc : ClassRec) (stored : InstRec)
    (props : List PropV) : AtomicAt (modifyProvider ns cc stored props) s := by
  unfold modifyProvider
  simp only
  apply atomicAt_ite
  · intro _
    apply atomicAt_bind (readOnly_forM_ (readOnly_modifyRefCheck stored) _); intro _ _
    apply atomicAt_liftE_then; intro old _
    apply atomicAt_liftE_then; intro others _
    apply atomicAt_getS_then
    apply atomicAt_ite
    · intro _; exact atomicAt_raise _ _
    · intro hstale
      apply atomicAt_bind_write (modifyWrite_failed_is_identity s ns stored _ others)
      intro s1 a hs1 e he
      exfalso
      have hex : ∀ n ∈ old.filter (fun n => !nmem n others), (findNs s1 n).isSome = true := by
        intro n hn
        rw [nsPreserving_modifyWrite ns stored _ others s s1 a hs1 n]
        simp only [List.any_eq_true, not_exists, not_and, Option.isNone_iff_eq_none] at hstale
        have := hstale n hn
        cases hf : findNs s n with
        | none => exact absurd hf this
        | some _ => rfl
      obtain ⟨s2, hs2⟩ := forM_total_ok (fun n => instDeleteIfPresentR { stored.key with ns := lower n })
        (fun n r => instDeleteIfPresentR_total _ r) _ s1 hex
      unfold dropStale at he
      rw [hs2] at he
      cases he
  · intro _; exact atomicAt_inNs _ _ _

theorem modifyInstance_failed_is_identity (s : State) (ns : Name) (p : Path) (i0 : Inst)
    (pl : Option (List Name)) : AtomicAt (modifyInstance ns p i0 pl) s := by
  unfold modifyInstance
  apply atomicAt_ite; · intro _; exact atomicAt_raise _ _
  intro _
  apply atomicAt_bind (readOnly_validateNs ns); intro _ _
  apply atomicAt_getNs_then; intro r _
  cases findClass r i0.cls with
  | none => exact atomicAt_raise _ _
  | some cc =>
    simp only
    cases findInst r (mkKey ns p.cls p.keys) with
    | none => exact atomicAt_raise _ _
    | some stored =>
      simp only
      apply atomicAt_ite; · intro _; exact atomicAt_raise _ _
      intro _
      apply atomicAt_ite; · intro _; exact atomicAt_raise _ _
      intro _
      apply atomicAt_liftE_then; intro props _
      apply atomicAt_getS_then
      apply atomicAt_ite
      · intro _; exact atomicAt_raise _ _
      · intro _
        cases findUserProv s ns i0.cls with
        | none => exact modifyProvider_failed_is_identity s ns cc stored _
        | some u =>
          simp only
          apply atomicAt_ite
          · intro _; exact atomicAt_raise _ _
          · intro _; exact modifyProvider_failed_is_identity s ns cc stored _

theorem deleteMulti_failed_is_identity (s : State) (nss : List Name) (k : PKey) (hd : DistinctLower nss) :
    AtomicAt (deleteMulti nss k) s := by
  unfold deleteMulti
  apply atomicAt_getS_then
  apply atomicAt_ite; · intro _; exact atomicAt_raise _ _
  intro hA
  have hw : WritesOk (fun n => instDeleteIfPresentR { k with ns := lower n }) nss s := by
    intro n hn
    simp only [List.any_eq_true, not_exists, not_and] at hA
    have h1 := hA n hn
    cases hf : findNs s n with
    | none => rw [hf] at h1; simp at h1
    | some r =>
      unfold instDeleteIfPresentR
      by_cases hi : hasInst r { k with ns := lower n } = true
      · obtain ⟨r', hr'⟩ := instDeleteR_ok { k with ns := lower n } r hi
        exact ⟨r, r', rfl, by simp only [hi, if_true]; exact hr'⟩
      · exact ⟨r, r, rfl, by simp only [hi]; rfl⟩
  have hk : KeepsName (fun n => instDeleteIfPresentR { k with ns := lower n }) := by
    intro n r r' h
    unfold instDeleteIfPresentR at h
    by_cases hi : hasInst r { k with ns := lower n } = true
    · simp only [hi, if_true] at h
      exact keepsName_delete (fun n => { k with ns := lower n }) n r r' h
    · simp only [hi] at h; cases h; rfl
  obtain ⟨s', hs'⟩ := forM_inNs_ok _ hk nss s hd hw
  exact atomicAt_of_ok hs'

theorem deleteProvider_failed_is_identity (s : State) (ns : Name) (cc : ClassRec) (stored : InstRec) (k : PKey) :
    AtomicAt (deleteProvider ns cc stored k) s := by
  unfold deleteProvider
  apply atomicAt_ite
  · intro _; exact atomicAt_inNs _ _ _
  · intro _
    apply atomicAt_liftE_then; intro others hothers
    apply atomicAt_ite
    · intro _; exact atomicAt_inNs _ _ _
    · intro _; exact deleteMulti_failed_is_identity s _ k (multiNs_distinct _ _ _ hothers)

theorem deleteInstance_failed_is_identity (s : State) (ns : Name) (p : Path) :
    AtomicAt (deleteInstance ns p) s := by
  unfold deleteInstance
  apply atomicAt_bind (readOnly_validateNs ns); intro _ _
  apply atomicAt_getNs_then; intro r hr
  cases findClass r p.cls with
  | none => exact atomicAt_raise _ _
  | some cc =>
    simp only
    cases hk : findInst r (mkKey ns p.cls p.keys) with
    | none => exact atomicAt_raise _ _
    | some stored =>
      simp only
      apply atomicAt_getS_then
      apply atomicAt_ite
      · intro _; exact nsProvDelete_failed_is_identity s ns p _ r stored hr hk
      · intro _
        cases findUserProv s ns p.cls with
        | none => exact deleteProvider_failed_is_identity s ns cc stored _
        | some u =>
          simp only
          apply atomicAt_ite
          · intro _; exact atomicAt_raise _ _
          · intro _; exact deleteProvider_failed_is_identity s ns cc stored _

/-- DeleteClass: rejected before the deletion loop, or the loop is undone by the snapshot/restore block -/
theorem deleteClass_failed_is_identity (s : State) (ns : Name) (n : Name) : AtomicAt (deleteClass ns n) s := by
  unfold deleteClass
  apply atomicAt_bind (readOnly_validateNs ns); intro _ _
  apply atomicAt_getNs_then; intro r _
  apply atomicAt_ite
  · intro _; exact atomicAt_raise _ _
  · intro _; exact atomicAt_withRollback _ _

/-! ### batches -/

theorem addObject_failed_is_identity (s : State) (ns : Name) (o : Obj) : AtomicAt (addObject ns o) s := by
  cases o with
  | cls c =>
    unfold addObject
    apply atomicAt_getNs_then; intro r _
    apply atomicAt_ite; · intro _; exact atomicAt_raise _ _
    intro _
    apply atomicAt_liftE_then; intro rc _
    exact atomicAt_classCreate ns rc s
  | inst p i =>
    unfold addObject
    cases p with
    | none => exact atomicAt_raise _ _
    | some p => exact atomicAt_inNs _ _ _
  | qual q => unfold addObject; exact atomicAt_qualCreate ns q s
  | bad => unfold addObject; exact atomicAt_raise _ _

/-- add_cimobjects(list): atomic for a failure at ANY position (snapshot/restore of the fix) -/
theorem addObjects_failed_is_identity (s : State) (ns : Name) (objs : List Obj) :
    AtomicAt (addObjects ns objs) s := by
  unfold addObjects
  apply atomicAt_bind (readOnly_validateNs ns); intro _ _
  exact atomicAt_withRollback _ _

/-- each MOF production is atomic by itself (one CreateClass/ModifyClass/CreateInstance/ModifyInstance/SetQualifier) -/
theorem mofProd_failed_is_identity (s : State) (ns : Name) (p : Prod) : AtomicAt (mofProd ns p) s := by
  cases p with
  | cls c =>
    unfold mofProd mofClass
    apply atomicAt_getNs_then; intro r _
    apply atomicAt_ite; · intro _; exact atomicAt_raise _ _
    intro _
    apply atomicAt_ite; · intro _; exact atomicAt_raise _ _
    intro _
    apply atomicAt_tryCatch (createClass_failed_is_identity s ns c)
    intro e _
    cases e with
    | cimError code =>
      simp only
      apply atomicAt_ite
      · intro _
        apply atomicAt_tryCatch (modifyClass_failed_is_identity s ns c)
        intro e2 _
        cases e2 <;> exact atomicAt_raise _ _
      · intro _
        apply atomicAt_ite <;> (intro _; exact atomicAt_raise _ _)
    | _ => exact atomicAt_raise _ _
  | inst i =>
    unfold mofProd mofInst
    apply atomicAt_getNs_then; intro r _
    cases findClass r i.cls with
    | none => exact atomicAt_raise _ _
    | some cc =>
      simp only
      apply atomicAt_ite; · intro _; exact atomicAt_raise _ _
      intro _
      apply atomicAt_ite; · intro _; exact atomicAt_raise _ _
      intro _
      apply atomicAt_tryCatch (createInstance_failed_is_identity s ns i)
      intro e _
      cases e with
      | cimError code =>
        simp only
        apply atomicAt_ite
        · intro _
          cases keyBindings cc i.props with
          | error _ => exact atomicAt_raise _ _
          | ok keys =>
            simp only
            apply atomicAt_tryCatch (modifyInstance_failed_is_identity s ns _ i none)
            intro e2 _
            cases e2 <;> exact atomicAt_raise _ _
        · intro _; exact atomicAt_raise _ _
      | _ => exact atomicAt_raise _ _
  | qual q => unfold mofProd; exact setQualifier_failed_is_identity s ns q
  | syntaxError => unfold mofProd; exact atomicAt_raise _ _
  | missingInclude => unfold mofProd; exact atomicAt_raise _ _

/-! ### MOF with compiler directives (`#pragma namespace`, `#pragma include`) -/

/-- a production in the current target namespace (existing or not) is atomic by itself -/
theorem mofProdIn_failed_is_identity (s : State) (ns : Name) (p : Prod) : AtomicAt (mofProdIn ns p) s := by
  intro e he
  unfold mofProdIn at he ⊢
  cases hf : findNs s ns with
  | some r => rw [hf] at he; exact mofProd_failed_is_identity s ns p e he
  | none => cases p <;> rfl

/-- compile_mof_string / compile_mof_file with compiler directives: atomic for a failure at ANY item, at any include
    depth, whatever namespaces the batch has written to (snapshot/restore covers the whole repository) -/
theorem compileMofItems_failed_is_identity (s : State) (ns : Name) (items : List MofItem) :
    AtomicAt (compileMofItems ns items) s := by
  unfold compileMofItems
  apply atomicAt_bind (readOnly_validateNs ns); intro _ _
  exact atomicAt_withRollback _ _

/-- compile_mof_string / compile_mof_file: atomic for a failure at ANY production -/
theorem compileMof_failed_is_identity (s : State) (ns : Name) (ps : List Prod) :
    AtomicAt (compileMof ns ps) s := by
  unfold compileMof
  exact compileMofItems_failed_is_identity s ns _

/-- compile_schema_classes with a list of schema pragma files: atomic for a failure in ANY file (class not listed,
    namespace, any production of any class file) - the outer snapshot also undoes what the earlier files compiled -/
theorem compileSchemaClasses_failed_is_identity (s : State) (ns : Name) (files : List SchemaFile) :
    AtomicAt (compileSchemaClasses ns files) s := by
  unfold compileSchemaClasses
  exact atomicAt_withRollback _ _

/-- each pragma file by itself is atomic (ValueError before compiling, or compile_mof_string's own restore) -/
theorem compileSchemaFile_failed_is_identity (s : State) (ns : Name) (f : SchemaFile) :
    AtomicAt (compileSchemaFile ns f) s := by
  cases f with
  | notListed => exact atomicAt_raise _ _
  | items is => exact compileMofItems_failed_is_identity s ns is

/-- what holds with the per-file restore only: a failure in the FIRST pragma file changes nothing -/
theorem compileSchemaClasses_per_file_restore_partial (s : State) (ns : Name) (f : SchemaFile)
    (rest : List SchemaFile) (e : PyExc) (hfirst : (compileSchemaFile ns f s).2 = .error e) :
    (compileSchemaClassesPerFileRestore ns (f :: rest) s).1 = s := by
  have ha := compileSchemaFile_failed_is_identity s ns f e hfirst
  unfold compileSchemaClassesPerFileRestore forM_
  rw [bind_apply]
  generalize compileSchemaFile ns f s = ro at ha hfirst
  obtain ⟨s2, r2⟩ := ro
  simp only at ha hfirst
  subst hfirst
  exact ha

/-- the item fold distributes over concatenation, threading the target namespace -/
theorem mofItems_append (b : List MofItem) : ∀ (a : List MofItem) (ns : Name),
    mofItems ns (a ++ b) = mofItems ns a >>= fun ns' => mofItems ns' b
  | [], ns => by simp only [List.nil_append, mofItems]; rfl
  | x :: xs, ns => by
    simp only [List.cons_append, mofItems]
    rw [bind_assoc']
    congr 1
    funext n'
    exact mofItems_append b xs n'

/-- `#pragma include` is textual inclusion: compiling an include directive followed by `rest` is compiling the
    productions of the file followed by `rest` - same writes, same failure, and a `#pragma namespace` inside the
    file stays in effect for `rest` -/
theorem include_is_textual_inclusion (ns : Name) (ps rest : List MofItem) :
    mofItems ns (.include ps :: rest) = mofItems ns (ps ++ rest) := by
  rw [mofItems_append]
  simp only [mofItems, mofItem]

/-! ### the property -/

/-- THE PROPERTY for one call: whatever the repository and whatever the operation, a call that raises leaves
    the repository as it was -/
theorem failed_step_is_identity (s : State) (op : Op) : (step s op).2.isSome → (step s op).1 = s := by
  have h : AtomicAt op.run s := by
    cases op with
    | createClass ns c => exact createClass_failed_is_identity s ns c
    | modifyClass ns c => exact modifyClass_failed_is_identity s ns c
    | deleteClass ns n => exact deleteClass_failed_is_identity s ns n
    | setQualifier ns q => exact setQualifier_failed_is_identity s ns q
    | deleteQualifier ns n => exact deleteQualifier_failed_is_identity s ns n
    | createInstance ns i => exact createInstance_failed_is_identity s ns i
    | modifyInstance ns p i pl => exact modifyInstance_failed_is_identity s ns p i pl
    | deleteInstance ns p => exact deleteInstance_failed_is_identity s ns p
    | addNamespace ns => exact addNamespace_failed_is_identity s ns
    | removeNamespace ns => exact removeNamespace_failed_is_identity s ns
    | addObjects ns objs => exact addObjects_failed_is_identity s ns objs
    | addObject ns o =>
      unfold Op.run
      apply atomicAt_bind (readOnly_validateNs ns); intro _ _
      exact addObject_failed_is_identity s ns o
    | compileMof ns ps => exact compileMof_failed_is_identity s ns ps
    | compileMofItems ns items => exact compileMofItems_failed_is_identity s ns items
    | compileSchemaClasses ns files => exact compileSchemaClasses_failed_is_identity s ns files
  intro hs
  unfold step at hs ⊢
  unfold AtomicAt at h
  generalize op.run s = res at hs h ⊢
  obtain ⟨s', r⟩ := res
  cases r with
  | ok _ => simp at hs
  | error e => exact h e rfl

/-- in a history, the state after a failed call equals the state before it -/
def FailedStepsAreIdentity (s : State) : List (State × Option PyExc) → Prop
  | [] => True
  | (s', out) :: rest => (out.isSome → s' = s) ∧ FailedStepsAreIdentity s' rest

/-- THE PROPERTY over histories: from every start state (hence every reachable one), along every sequence of
    operations, every failing call is a no-op on the repository -/
theorem failed_steps_of_history_are_identity : ∀ (ops : List Op) (s : State),
    FailedStepsAreIdentity s (runOps s ops)
  | [], _ => trivial
  | op :: ops, s => by
    unfold runOps FailedStepsAreIdentity
    exact ⟨failed_step_is_identity s op, failed_steps_of_history_are_identity ops (step s op).1⟩

/-- in a history that also contains set-up commands (registration of the CIM_Namespace provider, which is not an
    entry point of the property), the state after a failed OPERATION equals the state before it -/
def FailedOpsAreIdentity (s : State) : List Cmd → List (State × Option PyExc) → Prop
  | Cmd.op _ :: cs, (s', out) :: rest => (out.isSome → s' = s) ∧ FailedOpsAreIdentity s' cs rest
  | _ :: cs, (s', _) :: rest => FailedOpsAreIdentity s' cs rest
  | _, _ => True

/-- THE PROPERTY over histories with provider registration: whatever was registered when, every failing
    operation (including CreateInstance/DeleteInstance of namespaces through the provider) is a no-op -/
theorem failed_ops_of_history_with_setup_are_identity : ∀ (cs : List Cmd) (s : State),
    FailedOpsAreIdentity s cs (runCmds s cs)
  | [], _ => by unfold runCmds FailedOpsAreIdentity; trivial
  | .op o :: cs, s => by
    unfold runCmds FailedOpsAreIdentity
    exact ⟨failed_step_is_identity s o, failed_ops_of_history_with_setup_are_identity cs _⟩
  | .installNsProvider ns :: cs, s => by
    unfold runCmds FailedOpsAreIdentity
    exact failed_ops_of_history_with_setup_are_identity cs _
  | .installUserProvider u :: cs, s => by
    unfold runCmds FailedOpsAreIdentity
    exact failed_ops_of_history_with_setup_are_identity cs _

/-! ### what the snapshot/restore does and does not change -/

/-- a guarded batch is atomic WHATEVER its steps do to the repository - also steps that write and then raise
    (e.g. a user-defined provider of any kind reached from DeleteClass or from a MOF instance production) -/
theorem guarded_batch_atomic_for_any_steps {α} (f : α → M Unit) (xs : List α) (ns : Name) (s : State) :
    AtomicAt (validateNs ns >>= fun _ => withRollback (forM_ f xs)) s := by
  apply atomicAt_bind (readOnly_validateNs ns); intro _ _
  exact atomicAt_withRollback _ _

theorem withRollback_outcome {α} (m : M α) (s : State) : (withRollback m s).2 = (m s).2 := by
  unfold withRollback
  cases m s with
  | mk s' r => cases r <;> rfl

theorem withRollback_of_ok {α} (m : M α) (s s' : State) (a : α) (h : m s = (s', .ok a)) :
    withRollback m s = (s', .ok a) := by
  unfold withRollback; rw [h]

/-- the restore never changes WHAT a compile returns or raises: same outcome as the original code -/
theorem compileMofItems_outcome_eq_original (s : State) (ns : Name) (items : List MofItem) :
    (compileMofItems ns items s).2 = (compileMofItemsNoRestore ns items s).2 := by
  unfold compileMofItems compileMofItemsNoRestore
  rw [bind_apply, bind_apply]
  cases validateNs ns s with
  | mk s1 r1 =>
    cases r1 with
    | error e => rfl
    | ok _ => exact withRollback_outcome _ s1

/-- and when the compile succeeds the repository is exactly what the original code produced: the fix is
    invisible for successful calls -/
theorem compileMofItems_eq_original_on_success (s s' : State) (ns : Name) (items : List MofItem)
    (h : compileMofItemsNoRestore ns items s = (s', .ok ())) : compileMofItems ns items s = (s', .ok ()) := by
  unfold compileMofItems compileMofItemsNoRestore at *
  rw [bind_apply] at h ⊢
  revert h
  cases validateNs ns s with
  | mk s1 r1 =>
    cases r1 with
    | error e => intro h; cases h
    | ok _ => intro h; exact withRollback_of_ok _ s1 s' () h

/-! ### PropertyList of ModifyInstance -/

/-- with a PropertyList only properties named in it reach the provider -/
theorem propertyList_limits_the_update (cc : ClassRec) (stored : InstRec) (l : List Name) (props out : List PropV)
    (h : applyPropertyList cc stored (some l) props = .ok out) : ∀ p ∈ out, nmem p.name l = true := by
  unfold applyPropertyList at h
  simp only at h
  cases hd : addDefaults cc stored (dedupNames l []) props with
  | error e => rw [hd] at h; cases h
  | ok ps =>
    rw [hd] at h
    cases h
    intro p hp
    exact (List.mem_filter.mp hp).2

/-- without a PropertyList the request is passed on unchanged -/
theorem propertyList_none_is_identity (cc : ClassRec) (stored : InstRec) (props : List PropV) :
    applyPropertyList cc stored none props = .ok props := rfl

/-! ### what the fixes repair: negation witnesses for the original code, and the partial statements that held -/

/-- "the call raised and the repository differs" -/
def failsChanged (m : M Unit) (s : State) : Bool :=
  match m s with
  | (s', .error _) => s' != s
  | _ => false

theorem not_atomicAt_of_failsChanged {m : M Unit} {s : State} (h : failsChanged m s = true) : ¬ AtomicAt m s := by
  intro ha
  unfold failsChanged at h
  unfold AtomicAt at ha
  generalize m s = res at h ha
  obtain ⟨s', r⟩ := res
  cases r with
  | ok _ => simp at h
  | error e =>
    have := ha e rfl
    simp only at this h
    subst this
    simp at h

def wNs : Name := "root/a".toList
def wS0 : State := { nss := [{ name := wNs }] }
def wQual : QualDecl := { name := "Q".toList, ty := "boolean".toList, scopes := ["any".toList], body := 0 }
def wClassOk : ClassDef := { name := "New1".toList, super := none, quals := [], props := [] }
def wClassBad : ClassDef := { name := "New2".toList, super := some "Nope".toList, quals := [], props := [] }

/-- add_cimobjects([CIMClass('New1'), CIMClass('New2', superclass='Nope')]) without the restore: raises ValueError
    and New1 stays (the defect reproduced on the original code) -/
theorem fold_without_restore_not_atomic :
    ¬ ∀ (s : State) (ns : Name) (objs : List Obj), AtomicAt (addObjectsNoRestore ns objs) s := by
  intro h
  exact not_atomicAt_of_failsChanged (m := addObjectsNoRestore wNs [.cls wClassOk, .cls wClassBad]) (s := wS0)
    (by decide) (h _ _ _)

/-- compile_mof_string("class New1 {}; class New2 : Nope {};") without the restore: raises MOFDependencyError and
    New1 stays; likewise a syntax error after a compiled qualifier declaration -/
theorem compile_without_restore_not_atomic :
    ¬ ∀ (s : State) (ns : Name) (ps : List Prod), AtomicAt (compileMofNoRestore ns ps) s := by
  intro h
  exact not_atomicAt_of_failsChanged (m := compileMofNoRestore wNs [.cls wClassOk, .cls wClassBad]) (s := wS0)
    (by decide) (h _ _ _)

theorem compile_without_restore_not_atomic_syntax :
    failsChanged (compileMofNoRestore wNs [.qual wQual, .syntaxError]) wS0 = true := by decide

/-- the exception class does not matter: a missing include file (OSError, not a pywbem.Error) after compiled
    productions leaves them in the repository as well when nothing is restored -/
theorem compile_without_restore_not_atomic_oserror :
    failsChanged (compileMofNoRestore wNs [.qual wQual, .cls wClassOk, .missingInclude]) wS0 = true := by decide

def wNsB : Name := "root/b".toList
def wS0b : State := { nss := [{ name := wNs }, { name := wNsB }] }
def wClassOk2 : ClassDef := { name := "New3".toList, super := none, quals := [], props := [] }

/-- with `#pragma namespace` a failing compile without the restore leaves objects behind in SEVERAL namespaces -/
theorem compile_items_without_restore_not_atomic_two_namespaces :
    failsChanged (compileMofItemsNoRestore wNs
      [.prod (.cls wClassOk), .pragmaNamespace wNsB, .include [.prod (.cls wClassOk2)], .prod (.cls wClassBad)]) wS0b
      = true := by decide +kernel

/-- with only the per-file restore (snapshot inside the loop) a failure in the SECOND pragma file keeps what the
    first one compiled: class not listed (ValueError) and a class file that does not compile -/
theorem compileSchemaClasses_per_file_restore_not_atomic :
    failsChanged (compileSchemaClassesPerFileRestore wNs [.items [.prod (.cls wClassOk)], .notListed]) wS0 = true ∧
    failsChanged (compileSchemaClassesPerFileRestore wNs
      [.items [.prod (.cls wClassOk)], .items [.prod (.cls wClassOk2), .prod (.cls wClassBad)]]) wS0 = true := by
  decide +kernel

/-- what DID hold for the original fold: a batch whose FIRST element is the rejected one changes nothing
    (this is all the existing tests looked at) -/
theorem batch_atomic_partial_objects (s : State) (ns : Name) (o : Obj) (rest : List Obj) (e : PyExc)
    (hfirst : (addObject ns o s).2 = .error e) :
    (addObjectsNoRestore ns (o :: rest) s).1 = s := by
  have ha := addObject_failed_is_identity s ns o e hfirst
  unfold addObjectsNoRestore
  rw [bind_apply]
  have hv := readOnly_validateNs ns s
  generalize validateNs ns s = rv at hv
  obtain ⟨s1, r1⟩ := rv
  simp only at hv
  subst hv
  cases r1 with
  | error _ => rfl
  | ok _ =>
    simp only
    unfold forM_
    rw [bind_apply]
    generalize addObject ns o s1 = ro at ha hfirst
    obtain ⟨s2, r2⟩ := ro
    simp only at ha hfirst
    subst hfirst
    simp only
    exact ha

theorem batch_atomic_partial_mof (s : State) (ns : Name) (p : Prod) (rest : List Prod) (e : PyExc)
    (hfirst : (mofProd ns p s).2 = .error e) :
    (compileMofNoRestore ns (p :: rest) s).1 = s := by
  have ha := mofProd_failed_is_identity s ns p e hfirst
  unfold compileMofNoRestore
  rw [bind_apply]
  have hv := readOnly_validateNs ns s
  generalize validateNs ns s = rv at hv
  obtain ⟨s1, r1⟩ := rv
  simp only at hv
  subst hv
  cases r1 with
  | error _ => rfl
  | ok _ =>
    simp only
    unfold forM_
    rw [bind_apply]
    generalize mofProd ns p s1 = ro at ha hfirst
    obtain ⟨s2, r2⟩ := ro
    simp only at ha hfirst
    subst hfirst
    simp only
    exact ha

/-! the multi-namespace write loop is only safe over pairwise different namespaces: with the namespace list the
    ORIGINAL (case-sensitive) `find_multins_association_ref_namespaces` produced for a reference to "ROOT/A" in a
    CreateInstance on "root/a", the instance is stored and then CIM_ERR_ALREADY_EXISTS is raised -/

def wKeyQ : QualUse := { name := "Key".toList, ty := "boolean".toList, val := none }
def wAssoc : ClassRec :=
  { name := "A".toList, super := none, quals := [{ name := "Association".toList, ty := "boolean".toList, val := none }],
    props := [{ d := { name := "id".toList, ty := "string".toList, isArr := false, ref := none, quals := [wKeyQ] },
                origin := "A".toList, propagated := false }] }
def wS1 : State := { nss := [{ name := wNs, classes := [wAssoc] }] }
def wProp : PropV := ⟨"id".toList, "string".toList, false, .sc (.str "x".toList)⟩
def wInst : Inst := { cls := "A".toList, props := [wProp] }

theorem createMulti_needs_distinct_namespaces :
    failsChanged (createMulti ["ROOT/A".toList, wNs] wNs wInst) wS1 = true := by decide +kernel

def wRefProp : PropV := ⟨"r".toList, tyReference, false, .ref ⟨"C".toList, some "ROOT/A".toList, none, []⟩⟩

theorem multiNs_original_not_distinct :
    (match multiNsOrigAux wNs [wRefProp] [] with
     | .ok l => l == ["ROOT/A".toList]
     | .error _ => false) = true := by decide +kernel

/-- after the fix the namespace list of a multi-namespace association never names a namespace twice -/
theorem multiNs_namespaces_distinct (ps : List PropV) (target : Name) (others : List Name)
    (h : multiNs ps target = .ok others) : DistinctLower (others ++ [target]) :=
  multiNs_distinct ps target others h

/-! the CIM_Namespace provider adds the namespace before the instance is validated: without the compensation of
    the fix a request with a missing key property raises CIM_ERR_INVALID_PARAMETER and the namespace stays -/

def wInterop : Name := "interop".toList
def wKeyProp (n : String) : PropRec :=
  { d := { name := n.toList, ty := "string".toList, isArr := false, ref := none, quals := [wKeyQ] },
    origin := nsClassName, propagated := false }
def wNsClass : ClassRec :=
  { name := nsClassName, super := none, quals := [],
    props := [wKeyProp "Name", wKeyProp "CreationClassName", wKeyProp "SystemName"] }
def wS2 : State := { nss := [{ name := wInterop, classes := [wNsClass] }], nsProv := [wInterop] }
def wStr (n v : String) : PropV := ⟨n.toList, "string".toList, false, .sc (.str v.toList)⟩
def wNsInstBad : Inst := { cls := nsClassName, props := [wStr "Name" "root/new", wStr "CreationClassName" "CIM_Namespace"] }
def wNsInstOk : Inst := { wNsInstBad with props := wNsInstBad.props ++ [wStr "SystemName" "sys"] }

theorem nsProvider_add_before_validate_not_atomic :
    failsChanged (nsProvPrepare wInterop "root/new".toList true >>= fun _ => createProvider wInterop wNsClass wNsInstBad)
      wS2 = true := by decide +kernel

/-! DeleteClass deletes the instances one by one through the provider dispatcher: when a user-defined provider
    refuses the second instance, the original loop (no snapshot/restore) has already deleted the first -/

def wPlain : ClassRec :=
  { name := "P".toList, super := none, quals := [],
    props := [{ d := { name := "k".toList, ty := "string".toList, isArr := false, ref := none, quals := [wKeyQ] },
                origin := "P".toList, propagated := false }] }
def wPInst (v : String) : InstRec :=
  mkInstRec wNs "P".toList [("k".toList, .sc (.str v.toList))] "P".toList [wStr "k" v]
def wRefuser : UserProv :=
  { ns := wNs, cls := "P".toList, trigger := "k".toList, rejCreate := [], rejModify := [],
    rejDelete := ["keep".toList], exc := .valueError }
def wS3 : State :=
  { nss := [{ name := wNs, classes := [wPlain], insts := [wPInst "a", wPInst "keep"] }], userProvs := [wRefuser] }

theorem deleteClass_without_restore_not_atomic :
    failsChanged (deleteClassNoRestore wNs "P".toList) wS3 = true := by decide +kernel

/-! ### non-vacuity: operations do fail (with the documented status) and do change the repository when they succeed -/

example : (step wS0 (.createClass wNs wClassBad)).2 = some (.cimError 10) := by decide
example : (step wS0 (.createClass "root/zz".toList wClassOk)).2 = some (.cimError 3) := by decide
example : (step wS0 (.createClass wNs wClassOk)).2 = none ∧ (step wS0 (.createClass wNs wClassOk)).1 ≠ wS0 := by decide
example : (step wS0 (.addObjects wNs [.cls wClassOk, .cls wClassBad])) = (wS0, some .valueError) := by decide
example : (step wS0 (.compileMof wNs [.cls wClassOk, .cls wClassBad])) = (wS0, some .mofDependencyError) := by decide
example : (step wS0 (.compileMof wNs [.qual wQual, .syntaxError])) = (wS0, some .mofParseError) := by decide
example : (step wS0 (.compileMof wNs [.qual wQual, .cls wClassOk, .missingInclude])) = (wS0, some .osError) := by decide
example : (step wS1 (.createInstance wNs wInst)).2 = none := by decide +kernel
example : (step wS0 (.removeNamespace wNs)).2 = none := by decide
example : (step wS1 (.removeNamespace wNs)).2 = some (.cimError 20) := by decide

example : step wS0b (.compileMofItems wNs
    [.prod (.cls wClassOk), .pragmaNamespace wNsB, .include [.prod (.cls wClassOk2)], .prod (.cls wClassBad)])
    = (wS0b, some .mofDependencyError) := by decide +kernel
example : (step wS0b (.compileMofItems wNs [.pragmaNamespace "root/zz".toList, .prod (.cls wClassOk)])).2
    = some .modelError := by decide +kernel
example : ((step wS0b (.compileMofItems wNs
    [.include [.pragmaNamespace wNsB], .prod (.cls wClassOk)])).1.nss.map (fun r => r.classes.length)) = [0, 1] := by
  decide +kernel
-- a refusing user-defined provider: DeleteClass raises what the provider raised and nothing is deleted
example : step wS3 (.deleteClass wNs "P".toList) = (wS3, some .valueError) := by decide +kernel
example : (step { wS3 with userProvs := [] } (.deleteClass wNs "P".toList)).2 = none := by decide +kernel
example : step wS0 (.compileSchemaClasses wNs [.items [.prod (.cls wClassOk)], .notListed]) = (wS0, some .valueError) := by
  decide +kernel
example : (step wS0 (.compileSchemaClasses wNs [.items [.prod (.cls wClassOk)], .items [.prod (.cls wClassOk2)]])).2 = none ∧
    ((step wS0 (.compileSchemaClasses wNs [.items [.prod (.cls wClassOk)], .items [.prod (.cls wClassOk2)]])).1.nss.map
      (fun r => r.classes.length)) = [2] := by decide +kernel
-- the namespace provider: a rejected CreateInstance leaves no namespace behind; an accepted one adds namespace and instance
example : step wS2 (.createInstance wInterop wNsInstBad) = (wS2, some (.cimError 4)) := by decide +kernel
example : (step wS2 (.createInstance wInterop wNsInstOk)).2 = none ∧
    ((step wS2 (.createInstance wInterop wNsInstOk)).1.nss.map (·.name)) = [wInterop, "root/new".toList] := by
  decide +kernel
-- ModifyInstance with a PropertyList
def wProp3 (n ty : String) (key : Bool) : PropRec :=
  { d := { name := n.toList, ty := ty.toList, isArr := false, ref := none, quals := if key then [wKeyQ] else [] },
    origin := "P3".toList, propagated := false }
def wPlain3 : ClassRec :=
  { name := "P3".toList, super := none, quals := [], props := [wProp3 "k" "string" true, wProp3 "v" "uint32" false,
                                                              wProp3 "t" "string" false] }
def wIntProp (n : String) (v : Int) : PropV := ⟨n.toList, "uint32".toList, false, .sc (.int v)⟩
def wS4 : State :=
  { nss := [{ name := wNs, classes := [wPlain3],
              insts := [mkInstRec wNs "P3".toList [("k".toList, .sc (.str "a".toList))] "P3".toList
                          [wStr "k" "a", wIntProp "v" 1]] }] }
def wPath4 : Path := { cls := "P3".toList, ns := none, keys := [("k".toList, .sc (.str "a".toList))] }
def propsAfter (r : State × Option PyExc) : List (List PropV) := r.1.nss.flatMap (fun n => n.insts.map (·.props))
-- only the listed property is written (t is not), names compare case-insensitively
example : (step wS4 (.modifyInstance wNs wPath4 { cls := "P3".toList, props := [wIntProp "v" 2, wStr "t" "x"] }
    (some ["V".toList]))).2 = none ∧
    propsAfter (step wS4 (.modifyInstance wNs wPath4 { cls := "P3".toList, props := [wIntProp "v" 2, wStr "t" "x"] }
    (some ["V".toList]))) = [[wStr "k" "a", wIntProp "v" 2]] := by decide +kernel
-- a listed property the request lacks is set to the class default (NULL)
example : propsAfter (step wS4 (.modifyInstance wNs wPath4 { cls := "P3".toList, props := [] } (some ["t".toList])))
    = [[wStr "k" "a", wIntProp "v" 1, ⟨"t".toList, "string".toList, false, .null⟩]] := by decide +kernel
-- a key property cannot be defaulted, an unknown name is rejected: CIM_ERR_INVALID_PARAMETER, nothing changed
example : step wS4 (.modifyInstance wNs wPath4 { cls := "P3".toList, props := [wIntProp "v" 2] } (some ["k".toList, "v".toList]))
    = (wS4, some (.cimError 4)) := by decide +kernel
example : step wS4 (.modifyInstance wNs wPath4 { cls := "P3".toList, props := [wIntProp "v" 2] } (some ["nosuch".toList]))
    = (wS4, some (.cimError 4)) := by decide +kernel

/-! the two write phases of ModifyInstance without looking up the stale namespaces first (the code as it was when
    the removal of stale copies was introduced): the update is done, then KeyError for the missing namespace -/

def wStored4 : InstRec :=
  mkInstRec wNs "P3".toList [("k".toList, .sc (.str "a".toList))] "P3".toList [wStr "k" "a", wIntProp "v" 1]

theorem modify_then_drop_stale_without_lookup_not_atomic :
    failsChanged (modifyWrite wNs wStored4 { wStored4 with props := [wStr "k" "a", wIntProp "v" 2] } [] >>= fun _ =>
      dropStale wStored4 ["root/zz".toList]) wS4 = true := by decide +kernel

/-! ### the source skeletons (Generated/Atomic.lean, re-extracted from the repo on every run) -/

/-- the skeleton interpreter on the shapes that matter: check-then-write is safe, write-then-check is not (the
    seeded mutant "class_store.create before _validate_dependencies_exist"), a loop that checks and writes per
    iteration is not (mutant "write the first namespace before validating the second"), a failing store write
    enters its handler unwritten, a guarded block protects only what it wrote itself, `return` ends a path -/
theorem skeleton_interpreter_examples :
    Skel.safe (.seq [.chk, .alt [.seq [.chk], .seq []], .chk, .wr]) = true ∧
    Skel.safe (.seq [.chk, .alt [.seq [.chk], .seq []], .wr, .chk]) = false ∧
    Skel.safe (.seq [.loop (.seq [.chk]), .loop (.seq [.wr])]) = true ∧
    Skel.safe (.seq [.loop (.seq [.alt [.seq [.chk], .seq []], .wr])]) = false ∧
    Skel.safe (.tryalt (.seq [.wr]) [.seq [.chk]]) = true ∧
    Skel.safe (.tryalt (.seq [.wr, .chk]) [.seq []]) = false ∧
    Skel.safe (.seq [.chk, .guarded (.seq [.loop (.seq [.wr, .chk])])]) = true ∧
    Skel.safe (.seq [.wr, .guarded (.seq [.chk])]) = false ∧
    Skel.safe (.seq [.guarded (.seq [.wr]), .chk]) = false ∧
    Skel.safe (.seq [.alt [.seq [.wr, .ret], .seq []], .chk, .wr]) = true := by decide

/-- the methods whose body is claimed to be "all checks, then writes" -/
def structurallyOrdered : List String :=
  ["MainProvider.CreateClass", "MainProvider.ModifyClass", "MainProvider.DeleteClass", "MainProvider.SetQualifier",
   "MainProvider.DeleteQualifier", "ProviderDispatcher.CreateInstance", "ProviderDispatcher.ModifyInstance",
   "ProviderDispatcher.DeleteInstance", "InstanceWriteProvider.CreateInstance",
   "InstanceWriteProvider.ModifyInstance", "InstanceWriteProvider.DeleteInstance",
   "InstanceWriteProvider.create_multi_namespace_instance", "InstanceWriteProvider.modify_multi_namespace_instance",
   "InstanceWriteProvider.add_new_instance", "CIMNamespaceProvider.DeleteInstance", "BaseProvider.add_namespace",
   "BaseProvider.remove_namespace", "FakedWBEMConnection.add_cimobjects", "FakedWBEMConnection.compile_mof_string",
   "FakedWBEMConnection.compile_mof_file", "FakedWBEMConnection.compile_schema_classes"]

/-- every one of them was found in the source, and in none of them a rejection can follow a write outside a
    snapshot/restore block (CIMNamespaceProvider.CreateInstance compensates instead: oracle probes) -/
theorem source_no_check_after_write :
    structurallyOrdered.all (fun n =>
      match skeletons.find? (fun p => p.1 == n) with
      | some p => p.2.safe
      | none => false) = true := by decide

/-- the batch entry points and DeleteClass do all their writes inside a snapshot/restore block -/
theorem source_batches_are_guarded :
    ["MainProvider.DeleteClass", "FakedWBEMConnection.compile_mof_string", "FakedWBEMConnection.compile_mof_file",
     "FakedWBEMConnection.compile_schema_classes"].all (fun n =>
      match skeletons.find? (fun p => p.1 == n) with
      | some p => p.2.maxWrites == 0 && p.2.containsWr
      | none => false) = true := by decide

/-- the single-write methods (no semantic argument needed beyond the order) -/
theorem source_single_write :
    ["MainProvider.CreateClass", "MainProvider.ModifyClass", "MainProvider.DeleteQualifier",
     "ProviderDispatcher.CreateInstance", "ProviderDispatcher.ModifyInstance", "ProviderDispatcher.DeleteInstance",
     "InstanceWriteProvider.add_new_instance", "BaseProvider.add_namespace", "BaseProvider.remove_namespace"].all
      (fun n =>
        match skeletons.find? (fun p => p.1 == n) with
        | some p => p.2.maxWrites ≤ 1
        | none => false) = true := by decide

end C11
