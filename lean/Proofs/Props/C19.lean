/-
C19 — Logging, recorders, statistics and debug never change what an operation returns.

Property theorems over the models Model/Utf8.lean, Model/ToYaml.lean, Model/Observer.lean
(the code as it is after the four `fix:` commits = `Variant.fixed`).  Hypotheses that describe
the observer-independent part of an operation are collected in `Sane` (Proofs/Lemmas/ObserverOp.lean):
  * no user parameter called `method` (open finding: collides with the keyword of stage_pywbem_args),
  * arguments and result are `recordable` (open findings: plain float, datetime/timedelta, ill-formed
    bytes and foreign types make TestClientRecorder.toyaml / yaml.dump raise),
  * (discharged: the CIM-XML extension headers cannot contain an `Authorization` field — their names are part of
    the model now, `noAuth_headers`),
  * list results are homogeneous w.r.t. having a `path` attribute.
Every excluded input class has a negation witness below.
-/
import Pywbem.Model.Observer
import Proofs.Lemmas.ObserverOp
import Proofs.Lemmas.Statistics
import Proofs.Lemmas.ObserverProto
import Proofs.Lemmas.LogConfig
import Proofs.Lemmas.StatsRefine

namespace C19
open Pywbem.Proto Pywbem.Model.Utf8 Pywbem.Model.ToYaml Pywbem.Model.Observer
open Proofs.Lemmas.Utf8 Proofs.Lemmas.ToYaml Proofs.Lemmas.Observer Proofs.Lemmas.ObserverOp
open Pywbem.Generated.ObserverTables

/-! ### UTF-8: what the log recorder does to a payload -/

/-- strict decoding inverts encoding: the request bytes pywbem builds always decode (stage_http_request, record) -/
theorem C19_utf8_roundtrip (s : List Char) : decodeStrict (encode s) = some s :=
  decodeStrict_encode s

/-- on valid UTF-8, decoding with errors='replace' (the fix) logs exactly what strict decoding logged -/
theorem C19_replace_agrees_with_strict (b : Bytes) (s : List Char) (h : decodeStrict b = some s) :
    decodeReplace b = s :=
  replace_of_strict b s h

/-- cutting `é` after its first byte is not valid UTF-8 (why truncate-then-decode-strictly raised) -/
theorem C19_cut_character_fails_strict : decodeStrict ((encode ['é']).take 1) = none := by decide

/-- stage_http_response2 as fixed: no payload, no maximum length, no detail level makes it raise -/
theorem C19_log_response_stage_total (r : LogRec) (b : Bytes) :
    ∃ ev, r.stageHttpResponse2 Variant.fixed (some b) = .ok ev :=
  stageHttpResponse2_total r b

/-- the maximum length is honoured: with an integer detail level n > 0 the logged response payload has at most
    n characters plus the '...' marker, whatever the bytes are (one character per byte at most, also for the
    replacement characters) -/
theorem C19_log_response_payload_bounded (r : LogRec) (b : Bytes) (n : Nat) (hn : n ≠ 0) (hm : r.httpMax = some n)
    (up : Str) (h : r.respPayloadText Variant.fixed b = .ok up) : up.length ≤ n + 3 :=
  respPayloadText_bounded r b n hn hm up h

/-- non-vacuity / what the fixed code logs for DESIGN's witness (reply `c3 a9`, detail 1): U+FFFD and the marker -/
example : (LogRec.respPayloadText Variant.fixed { httpLevel := some (.maxLen 1), httpMax := some 1 } [0xC3, 0xA9]).toOption
    = some [Char.ofNat 0xFFFD, '.', '.', '.'] := by decide +kernel

/-- the defect repaired by fix 2589685: reply `b'\xc3\xa9'`, detail_level = 1 ⇒ UnicodeDecodeError -/
theorem C19_log_response_stage_failed_before_fix :
    raisedName (LogRec.stageHttpResponse2 ⟨false, true, true⟩
      { httpLevel := some (.maxLen 1), httpMax := some 1, respVersion := some 11, respStatus := some 200 }
      (some [0xC3, 0xA9])) = some "UnicodeDecodeError" := by decide

/-- … and ill-formed UTF-8 with detail 'all' ⇒ UnicodeDecodeError (same fix) -/
theorem C19_log_response_stage_failed_before_fix_illformed :
    raisedName (LogRec.stageHttpResponse2 ⟨false, true, true⟩
      { httpLevel := some .all, respVersion := some 11, respStatus := some 200 }
      (some [0x3C, 0xFF, 0x3E])) = some "UnicodeDecodeError" := by decide

/-! ### toyaml -/

/-- TestClientRecorder.toyaml is total on recordable values and yaml.dump can represent its result -/
theorem C19_toyaml_total (v : PyVal) (h : v.recordable = true) :
    ∃ y, toyaml v = .ok y ∧ y.representable = true :=
  toyaml_total v h

/-- open finding: a plain Python float (numeric keybinding) has no branch in toyaml -/
theorem C19_toyaml_fails_at_plain_float : toyaml (.float ['1', '.', '5']) = .error (.py .typeError) := by
  simp [toyaml, throw, throwThe, MonadExceptOf.throw]

/-- open finding: datetime/timedelta become CIMDateTime *objects*, which yaml.dump cannot represent -/
theorem C19_toyaml_datetime_not_dumpable :
    ∃ y, toyaml (.datetime []) = .ok y ∧ raisedName (dump y) = some "RepresenterError" := by
  refine ⟨.unrep "CIMDateTime", by simp [toyaml, pure, Except.pure], by decide⟩

/-- the order of the type tests of toyaml in the source (bool before int, CIMInt before int, namedtuple before tuple) -/
theorem C19_toyaml_dispatch_pinned :
    toyamlDispatch = ["namedtuple", "list,tuple", "dict,NocaseDict", "None", "bytes", "str", "bool", "CIMInt", "int",
      "CIMFloat", "CIMDateTime", "datetime", "timedelta", "CIMInstance", "CIMInstanceName", "CIMClass",
      "CIMClassName", "CIMProperty", "CIMMethod", "CIMParameter", "CIMQualifier", "CIMQualifierDeclaration"] := by
  decide

/-! ### the skeleton shared by all operations (regenerated from the source on every run) -/

/-- every operation method has the skeleton `runOp` models: guarded prologue, start_timer directly before try,
    both handlers re-raise, finally = stop_timer then guarded stage_result -/
theorem C19_skeletons_conform : ∀ s ∈ opSkeletons, s.conforms = true := by decide

theorem C19_skeletons_count : opSkeletons.length = 34 := by decide

/-- only InvokeMethod forwards user-chosen keyword names to stage_pywbem_args -/
theorem C19_only_invokemethod_forwards_kwargs :
    (opSkeletons.filter (·.forwardsUserKwargs)).map (·.name) = ["InvokeMethod"] := by decide

/-! ### stages_total: no observer stage raises (the lemma that carries everything) -/

/-- every call an operation makes into a recorder returns normally and keeps the recorder ready for `record` -/
theorem C19_stages_total (call : Call) (r : Recorder) (h : RecOk r)
    (hargs : argsRecordable call.kwargs = true) :
    (resetOne call.pull r).2.2 = none ∧
    (stageArgsOne call.method call.kwargs r).2.2 = none ∧
    (∀ hs target data, noAuth hs → (stageRequestOne hs target (xmlDecl ++ encode data) r).2.2 = none) ∧
    (∀ resp, (stageResponse1One resp r).2.2 = none) ∧
    (∀ body, (stageResponse2One Variant.fixed body r).2.2 = none) ∧
    (∀ ret exc, retOk ret → (stageResultOne Variant.fixed ret exc r).2.2 = none) :=
  ⟨(resetOne_ok call.pull r).1, (stageArgsOne_ok call.method call.kwargs hargs r h).1,
   fun hs target data hn => (stageRequestOne_ok hs target _ hn (body_decodable data) r h).1,
   fun resp => (stageResponse1One_ok resp r h).1,
   fun body => (stageResponse2One_ok body r h).1,
   fun ret exc hr => (stageResultOne_ok ret exc hr r h).1⟩

/-! ### noninterference -/

/-- one operation: the outcome under any observers equals the outcome on the bare connection -/
theorem C19_noninterference (c : Conn) (b64 : Str → Str) (call : Call) (core : Core) (hs : Sane call core)
    (hsrv : srvOk c.lastSrvTime) :
    (runOp Variant.fixed c b64 call core).outcome = (runOp Variant.fixed c.bare b64 call core).outcome := by
  have h1 := (runOp_spec c b64 call core hs hsrv).1
  have h2 := (runOp_spec c.bare b64 call core hs (by simpa [Conn.bare] using hsrv)).1
  rw [h1, h2]
  rfl

theorem C19_history_outcomes_are_core_outcomes (b64 : Str → Str) : ∀ (calls : List (Call × Core)) (c : Conn),
    (∀ p ∈ calls, Sane p.1 p.2) → srvOk c.lastSrvTime →
    runOps Variant.fixed c b64 calls = calls.map (fun p => coreOutcome c.info.creds b64 p.2 p.1.listener)
  | [], _, _, _ => rfl
  | p :: rest, c, hs, hsrv => by
    obtain ⟨ho, hsrv', hinfo, _⟩ := runOp_spec c b64 p.1 p.2 (hs p (by simp)) hsrv
    have ih := C19_history_outcomes_are_core_outcomes b64 rest (runOp Variant.fixed c b64 p.1 p.2).conn (fun q hq => hs q (by simp [hq])) hsrv'
    simp only [runOps, List.map_cons, ho, ih, hinfo]

/-- any history of operations (state carried from one to the next: staged recorder data, statistics, stale
    bookkeeping): same outcomes with and without observers -/
theorem C19_noninterference_history (c : Conn) (b64 : Str → Str) (calls : List (Call × Core))
    (hs : ∀ p ∈ calls, Sane p.1 p.2) (hsrv : srvOk c.lastSrvTime) :
    runOps Variant.fixed c b64 calls = runOps Variant.fixed c.bare b64 calls := by
  rw [C19_history_outcomes_are_core_outcomes b64 calls c hs hsrv, C19_history_outcomes_are_core_outcomes b64 calls c.bare hs (by simpa [Conn.bare] using hsrv)]
  rfl

/-- non-vacuity: the hypotheses of the operation theorems are satisfiable — a recordable call on a succeeding core,
    on a connection with a log recorder, a test-case recorder and statistics -/
example : Sane { method := ['G', 'I'], kwargs := [⟨['k'], [], .cimObj "CIMClassName" [.str ['C'], .none, .none]⟩] }
    (okCore (.list [.cimInt 1, .strSub ['x']])) ∧
    srvOk (connWith [.log { apiLevel := some .all, httpLevel := some (.maxLen 1) }, .tcr {}] true).lastSrvTime := by
  refine ⟨⟨by decide, by decide, ?_⟩, trivial⟩
  · intro b r h
    simp only [okCore, Except.ok.injEq] at h
    subst h
    exact ⟨by decide, by decide⟩

/-- … and on that instance the operation really emits records (the theorem is not about silent observers) -/
example : (runOp Variant.fixed
    (connWith [.log { apiLevel := some .all, httpLevel := some (.maxLen 1) }, .tcr {}] true) id
    { method := ['G', 'I'], kwargs := [⟨['k'], [], .cimObj "CIMClassName" [.str ['C'], .none, .none]⟩] }
    (okCore (.list [.cimInt 1, .strSub ['x']]))).events.length = 5 := by decide +kernel

/-! ### statistics -/

/-- statistics enabled: every finished operation — failed ones too — is counted exactly once under its name,
    the exception counter moves iff it failed, request/reply lengths are added, other operations' counters
    do not move -/
theorem C19_stats_once (c : Conn) (b64 : Str → Str) (call : Call) (core : Core) (hs : Sane call core)
    (hsrv : srvOk c.lastSrvTime) (hen : c.stats.enabled = true) :
    ((runOp Variant.fixed c b64 call core).conn.stats.get call.method).count = (c.stats.get call.method).count + 1 ∧
    ((runOp Variant.fixed c b64 call core).conn.stats.get call.method).excCount =
      (c.stats.get call.method).excCount + (if failedOf (runOp Variant.fixed c b64 call core).outcome then 1 else 0) ∧
    (∀ n, n ≠ call.method → (runOp Variant.fixed c b64 call core).conn.stats.get n = c.stats.get n) := by
  obtain ⟨hout, _, _, recs1, st, hstop, hst⟩ := runOp_spec c b64 call core hs hsrv
  obtain ⟨h1, h2, _, _, _, h6⟩ := start_stop_counts c.stats call.method _ _ _ _ st hen hstop
  rw [hst, hout]
  exact ⟨h1, h2, h6⟩

/-- statistics disabled: nothing is recorded -/
theorem C19_stats_disabled_records_nothing (c : Conn) (b64 : Str → Str) (call : Call) (core : Core)
    (hs : Sane call core) (hsrv : srvOk c.lastSrvTime) (hen : c.stats.enabled = false) :
    (runOp Variant.fixed c b64 call core).conn.stats = c.stats := by
  obtain ⟨_, _, _, recs1, st, hstop, hst⟩ := runOp_spec c b64 call core hs hsrv
  rw [hst]
  simp [Stats.startTimer, Stats.stopTimer, hen, pure, Except.pure] at hstop
  exact hstop.symm

/-- the statistics after any history of operations: for every operation name, the counter grew by exactly the
    number of calls of that name in the history (failed or not) -/
theorem C19_stats_history (b64 : Str → Str) (n : Str) : ∀ (calls : List (Call × Core)) (c : Conn),
    (∀ p ∈ calls, Sane p.1 p.2) → srvOk c.lastSrvTime → c.stats.enabled = true →
    ((runOpsConn Variant.fixed c b64 calls).stats.get n).count =
      (c.stats.get n).count + (calls.filter (fun p => decide (p.1.method = n))).length
  | [], _, _, _, _ => by simp [runOpsConn]
  | p :: rest, c, hs, hsrv, hen => by
    have hsp := hs p (by simp)
    obtain ⟨_, hsrv', _, _, st, hstop, hst⟩ := runOp_spec c b64 p.1 p.2 hsp hsrv
    have hen' : (runOp Variant.fixed c b64 p.1 p.2).conn.stats.enabled = true := by
      rw [hst, stopTimer_enabled _ _ _ _ _ _ st hstop, startTimer_enabled, hen]
    have ih := C19_stats_history b64 n rest (runOp Variant.fixed c b64 p.1 p.2).conn
      (fun q hq => hs q (by simp [hq])) hsrv' hen'
    obtain ⟨h1, _, h3⟩ := C19_stats_once c b64 p.1 p.2 hsp hsrv hen
    simp only [runOpsConn, List.filter_cons]
    rw [ih]
    by_cases hn : p.1.method = n
    · subst hn
      simp only [decide_true, if_true, List.length_cons]
      rw [h1]
      omega
    · have hn' : n ≠ p.1.method := fun e => hn e.symm
      simp only [hn, decide_false, Bool.false_eq_true, if_false]
      rw [h3 n hn']

/-- … and the exception counter of name n grew by exactly the number of FAILED calls of that name (an operation
    that raises is counted once as an operation and once as an exception; one that returns is not an exception) -/
theorem C19_stats_history_exceptions (b64 : Str → Str) (n : Str) : ∀ (calls : List (Call × Core)) (c : Conn),
    (∀ p ∈ calls, Sane p.1 p.2) → srvOk c.lastSrvTime → c.stats.enabled = true →
    ((runOpsConn Variant.fixed c b64 calls).stats.get n).excCount =
      (c.stats.get n).excCount +
        (calls.filter (fun p => decide (p.1.method = n) &&
          failedOf (coreOutcome c.info.creds b64 p.2 p.1.listener))).length
  | [], _, _, _, _ => by simp [runOpsConn]
  | p :: rest, c, hs, hsrv, hen => by
    have hsp := hs p (by simp)
    obtain ⟨hout, hsrv', hinfo, _, st, hstop, hst⟩ := runOp_spec c b64 p.1 p.2 hsp hsrv
    have hen' : (runOp Variant.fixed c b64 p.1 p.2).conn.stats.enabled = true := by
      rw [hst, stopTimer_enabled _ _ _ _ _ _ st hstop, startTimer_enabled, hen]
    have ih := C19_stats_history_exceptions b64 n rest (runOp Variant.fixed c b64 p.1 p.2).conn
      (fun q hq => hs q (by simp [hq])) hsrv' hen'
    obtain ⟨_, h2, h3⟩ := C19_stats_once c b64 p.1 p.2 hsp hsrv hen
    simp only [runOpsConn, List.filter_cons]
    rw [ih, hinfo]
    by_cases hn : p.1.method = n
    · subst hn
      rw [h2, hout]
      cases hf : failedOf (coreOutcome c.info.creds b64 p.2 p.1.listener) <;> simp <;> omega
    · have hn' : n ≠ p.1.method := fun e => hn e.symm
      simp only [hn, decide_false, Bool.false_and, Bool.false_eq_true, if_false]
      rw [h3 n hn']

/-! ### disabled recorders -/

/-- recorders that are disabled (recorder.disable(), conn.operation_recorder_enabled = False) emit no log record
    and no test case during an operation — for every input, response and code variant -/
theorem C19_disabled_recorders_silent (v : Variant) (c : Conn) (b64 : Str → Str) (call : Call) (core : Core)
    (hd : ∀ r ∈ c.recorders, disabledRec r) : (runOp v c b64 call core).events = [] :=
  runOp_silent v c b64 call core hd

/-! ### the arithmetic of pywbem/_statistics.py (detailed model Model/Statistics.lean) -/

/-- after ANY history of the low-level API (start_timer, stop_timer on any object ever handed out — also twice, also
    after reset —, reset, enable, disable; any clock values, lengths, server times) every OperationStatistic satisfies:
    exception count ≤ count; nothing measured ⇒ Σtime = 0, min = inf, max = 0; otherwise
    min·count ≤ Σtime ≤ max·count and min ≤ max (so min ≤ avg ≤ max) -/
theorem C19_statistics_invariant (ops : List Pywbem.Model.Statistics.Op) :
    ∀ p ∈ (Pywbem.Model.Statistics.run {} ops).1.stats.ops, Proofs.Lemmas.Statistics.Inv p.2 :=
  Proofs.Lemmas.Statistics.allInv_run ops {} (by intro p hp; simp at hp)

/-- a stop_timer call either measures — returns the elapsed time, updates exactly the statistic of the handle's
    name by the `stop` arithmetic, touches no other statistic — or changes nothing (disabled: None; the dummy, an
    object orphaned by reset(), or a timer that does not run: RuntimeError) -/
theorem C19_statistics_stop_measures_or_nothing (s : Pywbem.Model.Statistics.Stats)
    (hd : Pywbem.Model.Statistics.Handle) (now : Int) (a b c : Option Int) (e : Bool) :
    ((s.stopTimer hd now a b c e).1 = s ∧ ∀ d, (s.stopTimer hd now a b c e).2 ≠ .dt d) ∨
    (∃ n t0, hd = .named n s.gen ∧ s.enabled = true ∧
      (Proofs.Lemmas.Statistics.get s n).startTime = some t0 ∧
      (s.stopTimer hd now a b c e).2 = .dt (now - t0) ∧
      Proofs.Lemmas.Statistics.get (s.stopTimer hd now a b c e).1 n =
        (Proofs.Lemmas.Statistics.get s n).stop t0 now a b c e ∧
      (∀ m, m ≠ n → Proofs.Lemmas.Statistics.get (s.stopTimer hd now a b c e).1 m =
        Proofs.Lemmas.Statistics.get s m) ∧
      (s.stopTimer hd now a b c e).1.enabled = s.enabled ∧ (s.stopTimer hd now a b c e).1.gen = s.gen) :=
  Proofs.Lemmas.Statistics.stopTimer_cases s hd now a b c e

/-- start_timer … stop_timer on the returned object with statistics enabled: counted exactly once under that
    name, whether the operation raised (`e`) or not; elapsed time = clock difference; nobody else's counters move -/
theorem C19_statistics_pair_counts_once (s : Pywbem.Model.Statistics.Stats) (n : List Char) (t1 t2 : Int)
    (a b c : Option Int) (e : Bool) (he : s.enabled = true) :
    ((s.startTimer n t1).1.stopTimer (s.startTimer n t1).2 t2 a b c e).2 = .dt (t2 - t1) ∧
    (Proofs.Lemmas.Statistics.get ((s.startTimer n t1).1.stopTimer (s.startTimer n t1).2 t2 a b c e).1 n).count =
      (Proofs.Lemmas.Statistics.get s n).count + 1 ∧
    (Proofs.Lemmas.Statistics.get ((s.startTimer n t1).1.stopTimer (s.startTimer n t1).2 t2 a b c e).1 n).excCount =
      (Proofs.Lemmas.Statistics.get s n).excCount + (if e then 1 else 0) ∧
    (Proofs.Lemmas.Statistics.get ((s.startTimer n t1).1.stopTimer (s.startTimer n t1).2 t2 a b c e).1 n).timeSum =
      (Proofs.Lemmas.Statistics.get s n).timeSum + (t2 - t1) ∧
    (Proofs.Lemmas.Statistics.get ((s.startTimer n t1).1.stopTimer (s.startTimer n t1).2 t2 a b c e).1 n).startTime =
      none ∧
    (∀ m, m ≠ n →
      Proofs.Lemmas.Statistics.get ((s.startTimer n t1).1.stopTimer (s.startTimer n t1).2 t2 a b c e).1 m =
      Proofs.Lemmas.Statistics.get s m) :=
  Proofs.Lemmas.Statistics.start_stop_pair s n t1 t2 a b c e he

/-- Statistics.reset(): refused (returns False, nothing changes) exactly while some stored statistic has a running
    timer; otherwise all statistics are dropped -/
theorem C19_statistics_reset (s : Pywbem.Model.Statistics.Stats) :
    ((∃ p ∈ s.ops, p.2.startTime.isSome = true) ∧ s.reset = (s, false)) ∨
    ((∀ p ∈ s.ops, p.2.startTime = none) ∧ s.reset = ({ s with ops := [], gen := s.gen + 1 }, true)) :=
  Proofs.Lemmas.Statistics.reset_cases s

/-- a disabled container measures nothing: start_timer hands out the dummy, stop_timer returns None -/
theorem C19_statistics_disabled_inert (s : Pywbem.Model.Statistics.Stats) (hd : Pywbem.Model.Statistics.Handle)
    (n : List Char) (now : Int) (a b c : Option Int) (e : Bool) (h : s.enabled = false) :
    s.startTimer n now = (s, .dummy) ∧ s.stopTimer hd now a b c e = (s, .none) :=
  Proofs.Lemmas.Statistics.disabled_inert s hd n now a b c e h

/-- non-vacuity: a history with nested timers, a refused reset, a failed operation and a stop on a stale handle -/
example : (Pywbem.Model.Statistics.run {} [.enable, .start ['A'] 10, .start ['B'] 11, .reset,
      .stop 1 15 (some 100) (some 7) none true, .stop 0 20 (some 5) none (some 3) false, .stop 0 21 none none none false,
      .reset, .stop 0 30 none none none false]).2 =
    [.unit, .handle (.named ['A'] 0), .handle (.named ['B'] 0), .resetDone false, .stopped (.dt 4), .stopped (.dt 10),
     .stopped .runtimeError, .resetDone true, .stopped .runtimeError] := by decide +kernel

/-! ### the statistics of the operation model are a refinement image of the detailed model -/

/-- start_timer: the coarse statistics used by `runOp` (counters only) follow the detailed model of _statistics.py
    under the simulation relation `Rel` (same enabled flag, same names in the same order, same count / exception
    count / length sums / server-time suspension / "timer runs") -/
theorem C19_stats_refinement_start (s : Pywbem.Model.Statistics.Stats) (cs : Stats) (n : Str) (now : Int)
    (h : Proofs.Lemmas.StatsRefine.Rel s cs) :
    Proofs.Lemmas.StatsRefine.Rel (s.startTimer n now).1 (cs.startTimer n) :=
  Proofs.Lemmas.StatsRefine.start_sim s cs n now h

/-- stop_timer: the coarse model raises RuntimeError exactly when the detailed one does (nothing changes then),
    otherwise the relation is kept — so `C19_stats_once` / `C19_stats_history` speak about the real counters -/
theorem C19_stats_refinement_stop (s : Pywbem.Model.Statistics.Stats) (cs : Stats) (n : Str) (now : Int) (a b : Nat)
    (srv : Option Int) (f : Bool) (h : Proofs.Lemmas.StatsRefine.Rel s cs) :
    match cs.stopTimer n a b (Proofs.Lemmas.StatsRefine.srvOf srv) f with
    | .ok cs' => Proofs.Lemmas.StatsRefine.Rel
        (s.stopTimer (.named n s.gen) now (some (a : Int)) (some (b : Int)) srv f).1 cs'
    | .error _ =>
      (s.stopTimer (.named n s.gen) now (some (a : Int)) (some (b : Int)) srv f).2 = .runtimeError ∧
      (s.stopTimer (.named n s.gen) now (some (a : Int)) (some (b : Int)) srv f).1 = s :=
  Proofs.Lemmas.StatsRefine.stop_sim s cs n now a b srv f h

/-! ### last_raw_reply / last_raw_request -/

/-- a 200 response with an acceptable content type: last_raw_reply is exactly the bytes received and
    last_reply_len their number, whatever the observers and whatever parsing does afterwards -/
theorem C19_last_raw_reply_is_bytes_received (c : Conn) (b64 : Str → Str) (call : Call) (core : Core)
    (hs : Sane call core) (hsrv : srvOk c.lastSrvTime) (req : Req) (hp : core.prep = .ok req) (resp : HttpResp)
    (hsend : core.send (xmlDecl ++ encode req.data)
      (req.headers ++ if call.listener = true then [] else authHeader b64 c.info.creds) = .response resp)
    (h200 : resp.status = 200) (hct : core.badContentType resp = none) :
    (runOp Variant.fixed c b64 call core).conn.lastRawReply = some resp.body ∧
    (runOp Variant.fixed c b64 call core).conn.lastReplyLen = resp.body.length := by
  obtain ⟨recs1, hrec1, h1, h2, _, _⟩ := runOp_decompose c b64 call core hs hsrv
  have hb := tryBody_bookkeeping { c with recorders := recs1, stats := c.stats.startTimer call.method } b64 core call
    call.listener hs hrec1 req hp
  obtain ⟨_, _, _, hm⟩ := hb
  have hw := (wbemRequest_bare c.info.creds b64 core req call.listener).2
  rw [hsend] at hw
  simp only [h200, ne_eq, not_true_eq_false, if_false, hct] at hw
  rw [hw] at hm
  rw [h1, h2]
  exact hm

/-- no reply body was accepted (transport exception, HTTP status ≠ 200, bad content type): last_raw_reply is
    None and last_reply_len 0 — never the stale values of the previous operation -/
theorem C19_last_raw_reply_never_stale (c : Conn) (b64 : Str → Str) (call : Call) (core : Core)
    (hs : Sane call core) (hsrv : srvOk c.lastSrvTime) (req : Req) (hp : core.prep = .ok req)
    (hno : ∀ p, (wbemRequest Variant.fixed [] c.info.creds b64 core req call.listener).result ≠ .ok p) :
    (runOp Variant.fixed c b64 call core).conn.lastRawReply = none ∧
    (runOp Variant.fixed c b64 call core).conn.lastReplyLen = 0 := by
  obtain ⟨recs1, hrec1, h1, h2, _, _⟩ := runOp_decompose c b64 call core hs hsrv
  obtain ⟨_, _, _, hm⟩ := tryBody_bookkeeping { c with recorders := recs1, stats := c.stats.startTimer call.method }
    b64 core call call.listener hs hrec1 req hp
  rw [h1, h2]
  cases hr : (wbemRequest Variant.fixed [] c.info.creds b64 core req call.listener).result with
  | ok p => exact absurd hr (hno p)
  | error e =>
    have : (wbemRequest Variant.fixed [] { c with recorders := recs1, stats := c.stats.startTimer call.method }.info.creds
        b64 core req call.listener).result = .error e := hr
    rw [this] at hm
    exact hm

/-- (partial: open finding C19-KF6) what last_raw_request holds is the request *text*; the bytes sent are the XML
    declaration followed by its UTF-8 encoding.  Full statement `last_raw_request = bytes sent` is false: see
    `C19_last_raw_request_fails_at`. -/
theorem C19_last_raw_request_partial (c : Conn) (b64 : Str → Str) (call : Call) (core : Core)
    (hs : Sane call core) (hsrv : srvOk c.lastSrvTime) (req : Req) (hp : core.prep = .ok req) :
    (runOp Variant.fixed c b64 call core).conn.lastRawRequest = some req.data ∧
    (runOp Variant.fixed c b64 call core).sent = some (xmlDecl ++ encode req.data) := by
  obtain ⟨recs1, hrec1, _, _, h3, h4⟩ := runOp_decompose c b64 call core hs hsrv
  obtain ⟨hb1, _, hb3, _⟩ := tryBody_bookkeeping { c with recorders := recs1, stats := c.stats.startTimer call.method }
    b64 core call call.listener hs hrec1 req hp
  rw [h3, h4]
  exact ⟨hb1, hb3⟩

/-- the bytes sent never equal the UTF-8 encoding of last_raw_request (40 bytes of XML declaration are missing) -/
theorem C19_last_raw_request_fails_at (data : List Char) : xmlDecl ++ encode data ≠ encode data := by
  intro h
  have := congrArg List.length h
  simp only [List.length_append] at this
  have hx : xmlDecl.length = 40 := by decide
  omega

/-- last_raw_request / last_raw_reply / last_reply_len as a state machine over ANY history of operations (failing
    ones included): the final values are the fold of `bookStep` — an operation whose request could not be built
    leaves them alone, every other one sets the request text and either the bytes wbem_request returned or
    (None, 0); observers never enter -/
theorem C19_bookkeeping_history (b64 : Str → Str) : ∀ (calls : List (Call × Core)) (c : Conn),
    (∀ p ∈ calls, Sane p.1 p.2) → srvOk c.lastSrvTime →
    bookOf (runOpsConn Variant.fixed c b64 calls) = calls.foldl (bookStep c.info.creds b64) (bookOf c)
  | [], _, _, _ => rfl
  | p :: rest, c, hs, hsrv => by
    have hsp := hs p (by simp)
    obtain ⟨_, hsrv', hinfo, _⟩ := runOp_spec c b64 p.1 p.2 hsp hsrv
    have ih := C19_bookkeeping_history b64 rest (runOp Variant.fixed c b64 p.1 p.2).conn
      (fun q hq => hs q (by simp [hq])) hsrv'
    simp only [runOpsConn, List.foldl_cons]
    rw [ih, hinfo, runOp_book c b64 p.1 p.2 hsp hsrv]

/-- … hence the bookkeeping after a history is the same with and without observers -/
theorem C19_bookkeeping_unobservable (b64 : Str → Str) (calls : List (Call × Core)) (c : Conn)
    (hs : ∀ p ∈ calls, Sane p.1 p.2) (hsrv : srvOk c.lastSrvTime) :
    bookOf (runOpsConn Variant.fixed c b64 calls) = bookOf (runOpsConn Variant.fixed c.bare b64 calls) := by
  rw [C19_bookkeeping_history b64 calls c hs hsrv,
    C19_bookkeeping_history b64 calls c.bare hs (by simpa [Conn.bare] using hsrv)]
  rfl

/-! ### connections as `WBEMConnection(...)` creates them: the state hypothesis is discharged -/

/-- a new connection (any credentials, statistics on or off) with any recorders added in any order, debug on or
    off: every history of operations has the same outcomes as on the bare connection.  (`srvOk`, the hypothesis
    on the connection state of the theorems above, holds initially and is preserved.) -/
theorem C19_new_connection_noninterference (info : ConnInfo) (statsEnabled debug : Bool) (recs : List Recorder)
    (b64 : Str → Str) (calls : List (Call × Core)) (hs : ∀ p ∈ calls, Sane p.1 p.2) :
    runOps Variant.fixed { (Conn.new info statsEnabled).addRecorders recs with debug := debug } b64 calls =
    runOps Variant.fixed (Conn.new info false) b64 calls := by
  have hf := addRecorders_fields recs (Conn.new info statsEnabled)
  have hsrv : srvOk ({ (Conn.new info statsEnabled).addRecorders recs with debug := debug } : Conn).lastSrvTime := by
    show srvOk ((Conn.new info statsEnabled).addRecorders recs).lastSrvTime
    rw [hf.1]; trivial
  rw [C19_history_outcomes_are_core_outcomes b64 calls _ hs hsrv,
    C19_history_outcomes_are_core_outcomes b64 calls (Conn.new info false) hs trivial]
  have : ({ (Conn.new info statsEnabled).addRecorders recs with debug := debug } : Conn).info = info := by
    show ((Conn.new info statsEnabled).addRecorders recs).info = info
    rw [hf.2.1]; rfl
  rw [this]
  rfl

/-- add_operation_recorder refuses a second recorder of the same class (ValueError) and changes nothing then -/
theorem C19_add_recorder_same_class_refused (c : Conn) (r : Recorder) (h : c.recorders.any (sameClass r) = true) :
    raisedName (c.addRecorderChecked r) = some "ValueError" := by
  simp [Conn.addRecorderChecked, h, raisedName, throw, throwThe, MonadExceptOf.throw, Exc.name, PyExc.name]

/-- conn.operation_recorder_enabled = False silences every recorder for every following operation -/
theorem C19_recorders_disabled_by_setter (v : Variant) (c : Conn) (b64 : Str → Str) (call : Call) (core : Core) :
    (runOp v (c.setRecordersEnabled false) b64 call core).events = [] := by
  apply runOp_silent
  intro r hr
  simp only [Conn.setRecordersEnabled, List.mem_map] at hr
  obtain ⟨r0, _, rfl⟩ := hr
  cases r0 <;> simp [disabledRec]

/-- (partial: open finding C19-KF7) last_request_len is the number of CHARACTERS of the request text; full statement
    `last_request_len = number of bytes sent` is false: `C19_last_request_len_fails_at` -/
theorem C19_last_request_len_partial (c : Conn) (b64 : Str → Str) (call : Call) (core : Core)
    (hs : Sane call core) (req : Req) (hp : core.prep = .ok req) :
    (runOp Variant.fixed c b64 call core).conn.lastRequestLen = req.data.length := by
  have hpk := prologue_ok c call hs.noKw hs.argsOk
  rcases hpro : prologue c call with ⟨recs1, ev1, e1⟩
  rw [hpro] at hpk
  simp only at hpk
  obtain ⟨he1, _, _⟩ := hpk
  subst he1
  rw [runOp_unfold_ok Variant.fixed c b64 call core recs1 ev1 hpro, (finallyPart_keeps _ _ _ _).1]
  exact ((tryBody_debug Variant.fixed _ b64 core call.listener).2.2 req hp).1

/-- the bytes sent are always at least 40 more than last_request_len says -/
theorem C19_last_request_len_fails_at (data : List Char) : (xmlDecl ++ encode data).length ≥ data.length + 40 := by
  have h := encode_length_ge data
  have hx : xmlDecl.length = 40 := by decide
  simp only [List.length_append]
  omega

/-- debug off: an operation leaves the debug items (last_request / last_reply sources) exactly as they were —
    any variant, any recorders, any outcome -/
theorem C19_debug_off_keeps_items (v : Variant) (c : Conn) (b64 : Str → Str) (call : Call) (core : Core)
    (hd : c.debug = false) :
    (runOp v c b64 call core).conn.lastRequestXmlSet = c.lastRequestXmlSet ∧
    (runOp v c b64 call core).conn.lastReplyXmlSet = c.lastReplyXmlSet := by
  rcases hpro : prologue c call with ⟨recs1, ev1, e1⟩
  cases e1 with
  | some e => rw [runOp_unfold_err v c b64 call core recs1 ev1 e hpro]; exact ⟨rfl, rfl⟩
  | none =>
    rw [runOp_unfold_ok v c b64 call core recs1 ev1 hpro]
    obtain ⟨_, k2, k3, _⟩ := finallyPart_keeps v call ev1
      (tryBody v { c with recorders := recs1, stats := c.stats.startTimer call.method } b64 core call.listener)
    rw [k2, k3]
    obtain ⟨_, t2, t3⟩ := tryBody_debug v { c with recorders := recs1, stats := c.stats.startTimer call.method } b64
      core call.listener
    cases hp : core.prep with
    | error e => obtain ⟨_, a, b⟩ := t2 e hp; exact ⟨a, b⟩
    | ok req => exact (t3 req hp).2.1 hd

/-- debug on: once the request was built the request item is set (last_request becomes available) -/
theorem C19_debug_on_sets_request_item (v : Variant) (c : Conn) (b64 : Str → Str) (call : Call) (core : Core)
    (hd : c.debug = true) (req : Req) (hp : core.prep = .ok req) (hk : (prologue c call).2.2 = none) :
    (runOp v c b64 call core).conn.lastRequestXmlSet = true := by
  rcases hpro : prologue c call with ⟨recs1, ev1, e1⟩
  rw [hpro] at hk
  simp only at hk
  subst hk
  rw [runOp_unfold_ok v c b64 call core recs1 ev1 hpro, (finallyPart_keeps _ _ _ _).2.1]
  exact ((tryBody_debug v { c with recorders := recs1, stats := c.stats.startTimer call.method } b64 core
    call.listener).2.2 req hp).2.2 hd

/-! ### the recorder protocol -/

/-- every finished operation (returned or raised) makes each enabled TestClientRecorder of the connection write
    exactly one test case — and nobody else any (disabled recorders, log recorders) -/
theorem C19_one_testcase_per_enabled_recorder (c : Conn) (b64 : Str → Str) (call : Call) (core : Core)
    (hs : Sane call core) (hsrv : srvOk c.lastSrvTime) :
    Proofs.Lemmas.ObserverProto.tcCount (runOp Variant.fixed c b64 call core).events =
      Proofs.Lemmas.ObserverProto.nTcrOn c.recorders :=
  Proofs.Lemmas.ObserverProto.runOp_testcases c b64 call core hs hsrv

/-- the prologue of every operation resets what the recorders staged for the previous one -/
theorem C19_prologue_reset_clears_staging (pull : Bool) (t : TcrRec) :
    resetOne pull (.tcr t) = (.tcr { enabled := t.enabled, pullOp := pull }, [], none) := rfl

/-- wbem_request, before sending, clears the staged response of every TestClientRecorder: a test case written after
    a transport failure can never carry the response of an earlier request -/
theorem C19_request_stage_clears_response (hs : List Hdr) (target : Str) (body : Bytes) (t : TcrRec) :
    ∃ t', stageRequestOne hs target body (.tcr t) = (.tcr t', [], none) ∧
      t'.respStatus = none ∧ t'.respHeaders = none ∧ t'.respPayload = none ∧ t'.reqPayload = some body :=
  ⟨_, rfl, rfl, rfl, rfl, rfl⟩

/-- non-vacuity: two recorders, both enabled, a failing transport: one test case, three log records -/
example : Proofs.Lemmas.ObserverProto.tcCount (runOp Variant.fixed
    (connWith [.log { apiLevel := some .paths, httpLevel := some .summary }, .tcr {}] true) id
    { method := ['G', 'I'], kwargs := [] }
    { okCore .none with send := (fun _ _ => .raised ⟨.named "ConnectionError", []⟩) }).events = 1 ∧
    (runOp Variant.fixed
    (connWith [.log { apiLevel := some .paths, httpLevel := some .summary }, .tcr {}] true) id
    { method := ['G', 'I'], kwargs := [] }
    { okCore .none with send := (fun _ _ => .raised ⟨.named "ConnectionError", []⟩) }).events.length = 4 := by
  decide +kernel

/-! ### configure_logger (Model/LogConfig.lean) -/

/-- configure_logger raises (ValueError) only before it changed anything — loggers, class-level activation and
    detail levels, the connection and its recorders are as before, no record was logged; also for 'all' (the 'http'
    half validates the same arguments the 'api' half accepted) -/
theorem C19_configure_error_changes_nothing (g : Pywbem.Model.LogConfig.Global) (c : Conn)
    (name : Pywbem.Model.LogConfig.NameArg) (dest : Pywbem.Model.LogConfig.DestArg)
    (detail : Pywbem.Model.LogConfig.DetailArg) (fn : Bool) (cn : Pywbem.Model.LogConfig.ConnArg) (p : Bool) (e : Exc)
    (h : (Pywbem.Model.LogConfig.configure g c name dest detail fn cn p).exc = some e) :
    (Pywbem.Model.LogConfig.configure g c name dest detail fn cn p).g = g ∧
    (Pywbem.Model.LogConfig.configure g c name dest detail fn cn p).c = c ∧
    (Pywbem.Model.LogConfig.configure g c name dest detail fn cn p).events = [] :=
  Proofs.Lemmas.LogConfig.configure_error_unchanged g c name dest detail fn cn p e h

/-- the detail levels configure_logger accepts: None, 'all', 'paths', 'summary', an integer ≥ 0 — nothing else -/
theorem C19_configure_detail_levels_accepted (d : Pywbem.Model.LogConfig.DetailArg) :
    (∃ x, Pywbem.Model.LogConfig.configureDetail d = .ok x) ↔
    (d = .none ∨ d = .str Pywbem.Model.LogConfig.sAll ∨ d = .str Pywbem.Model.LogConfig.sPaths ∨
     d = .str Pywbem.Model.LogConfig.sSummary ∨ ∃ i, d = .int i ∧ 0 ≤ i) :=
  Proofs.Lemmas.LogConfig.configureDetail_ok_iff d

/-- the accepted strings are the LOG_DETAIL_LEVELS of pywbem/_logging.py (regenerated from the source) -/
theorem C19_configure_detail_levels_pinned :
    logDetailLevels.map String.toList =
      [Pywbem.Model.LogConfig.sAll, Pywbem.Model.LogConfig.sPaths, Pywbem.Model.LogConfig.sSummary] := by decide

/-- whatever configure_logger is called with, and however often: of a connection it touches the recorders only, so
    every history of operations has the same outcomes before and after -/
theorem C19_configure_never_changes_outcomes (g : Pywbem.Model.LogConfig.Global) (c : Conn)
    (name : Pywbem.Model.LogConfig.NameArg) (dest : Pywbem.Model.LogConfig.DestArg)
    (detail : Pywbem.Model.LogConfig.DetailArg) (fn : Bool) (cn : Pywbem.Model.LogConfig.ConnArg) (p : Bool)
    (b64 : Str → Str) (calls : List (Call × Core)) (hs : ∀ q ∈ calls, Sane q.1 q.2) (hsrv : srvOk c.lastSrvTime) :
    runOps Variant.fixed (Pywbem.Model.LogConfig.configure g c name dest detail fn cn p).c b64 calls =
    runOps Variant.fixed c b64 calls := by
  obtain ⟨hi, hl, _, _, _⟩ := Proofs.Lemmas.LogConfig.sbr_configure g c name dest detail fn cn p
  rw [C19_history_outcomes_are_core_outcomes b64 calls _ hs (by rw [hl]; exact hsrv),
    C19_history_outcomes_are_core_outcomes b64 calls c hs hsrv, hi]

/-- log_dest='off': that logger is no longer enabled for DEBUG, future connections are not activated, no error —
    whatever the other arguments are (they are not even validated) -/
theorem C19_configure_off (g : Pywbem.Model.LogConfig.Global) (c : Conn) (a : Bool)
    (detail : Pywbem.Model.LogConfig.DetailArg) (fn : Bool) (cn : Pywbem.Model.LogConfig.ConnArg) (p : Bool) :
    Pywbem.Model.LogConfig.loggerOn (Pywbem.Model.LogConfig.configureOne g c a .off detail fn cn p).g a = false ∧
    (Pywbem.Model.LogConfig.configureOne g c a .off detail fn cn p).g.activate = false ∧
    (Pywbem.Model.LogConfig.configureOne g c a .off detail fn cn p).exc = none :=
  Proofs.Lemmas.LogConfig.off_postcondition g c a detail fn cn p

/-- WBEMConnection.__init__ after configure_logger(..., connection=True|False): no recorder unless activated;
    if activated exactly one log recorder carrying the class-level detail levels -/
theorem C19_new_connection_recorders (g : Pywbem.Model.LogConfig.Global) (info : ConnInfo) (st : Bool) :
    (g.activate = false → (Pywbem.Model.LogConfig.newConn g info st).1.recorders = []) ∧
    (g.activate = true → ∃ l, (Pywbem.Model.LogConfig.newConn g info st).1.recorders = [.log l] ∧
      (∀ d, g.apiDetail = some d → l.apiLevel = some d) ∧ (∀ d, g.httpDetail = some d → l.httpLevel = some d) ∧
      (g.apiDetail = none → l.apiLevel = none) ∧ (g.httpDetail = none → l.httpLevel = none)) :=
  Proofs.Lemmas.LogConfig.newConn_recorders g info st

/-- non-vacuity: 'all' with a negative detail level fails and changes nothing; with 'paths' on a connection it
    creates one log recorder and logs the connection once -/
example :
    (Pywbem.Model.LogConfig.configure {} (connWith [] false) .all .stderr (.int (-1)) true .conn false).exc =
      some (.py .valueError) ∧
    ((Pywbem.Model.LogConfig.configure {} (connWith [] false) .all .stderr (.str Pywbem.Model.LogConfig.sPaths) true
        .conn false).c.recorders.length = 1 ∧
     (Pywbem.Model.LogConfig.configure {} (connWith [] false) .all .stderr (.str Pywbem.Model.LogConfig.sPaths) true
        .conn false).events.length = 1) := by decide +kernel

/-! ### WBEMConnection.copy() and the Statistics context manager -/

/-- copy() of a connection — whatever logging configuration is active, whatever recorders the original has — yields a
    connection on which every history of operations has the outcomes it has on the original -/
theorem C19_copy_same_outcomes (g : Pywbem.Model.LogConfig.Global) (c : Conn) (b64 : Str → Str)
    (calls : List (Call × Core)) (hs : ∀ q ∈ calls, Sane q.1 q.2) (hsrv : srvOk c.lastSrvTime) :
    runOps Variant.fixed (Pywbem.Model.LogConfig.copyConn g c).1 b64 calls = runOps Variant.fixed c b64 calls := by
  obtain ⟨hi, hl⟩ := Proofs.Lemmas.LogConfig.copyConn_fields g c
  rw [C19_history_outcomes_are_core_outcomes b64 calls _ hs (by rw [hl]; trivial),
    C19_history_outcomes_are_core_outcomes b64 calls c hs hsrv, hi]

/-- the defect repaired by fix 261a08e: with logging activated for future connections, __init__ has already added a log
    recorder, and adding the copy of the original's log recorder was refused with ValueError -/
theorem C19_copy_failed_before_fix (g : Pywbem.Model.LogConfig.Global) (info : ConnInfo) (st : Bool) (l : LogRec)
    (h : g.activate = true) :
    raisedName ((Pywbem.Model.LogConfig.newConn g info st).1.addRecorderChecked (.log l)) = some "ValueError" := by
  apply C19_add_recorder_same_class_refused
  obtain ⟨l0, hl0, _⟩ := (Proofs.Lemmas.LogConfig.newConn_recorders g info st).2 h
  rw [hl0]
  rfl

/-- `with statistics(name):` — __exit__ never returns a true value: an exception raised inside the block always
    reaches the caller, with statistics enabled or disabled (what the mock's compile_mof_*/add_cimobjects rely on) -/
theorem C19_statistics_context_manager_never_swallows (r : Pywbem.Model.Statistics.Run) (now : Int) :
    (Pywbem.Model.Statistics.step r (.exit now)).2 = .indexError ∨
    ∃ res, (Pywbem.Model.Statistics.step r (.exit now)).2 = .exited false res :=
  Proofs.Lemmas.Statistics.exit_never_suppresses r now

/-- a with-block entered and left with statistics enabled is counted exactly once under its name (never as an
    exception: __exit__ calls stop_timer() without arguments), elapsed time = clock difference -/
theorem C19_statistics_with_block_counts_once (s : Pywbem.Model.Statistics.Stats) (n : List Char) (t1 t2 : Int)
    (he : s.enabled = true) :
    (Pywbem.Model.Statistics.exitCm (s.startTimer n t1).1 (s.startTimer n t1).2 t2).2.2 = .dt (t2 - t1) ∧
    (Proofs.Lemmas.Statistics.get (Pywbem.Model.Statistics.exitCm (s.startTimer n t1).1 (s.startTimer n t1).2 t2).1
      n).count = (Proofs.Lemmas.Statistics.get s n).count + 1 ∧
    (Proofs.Lemmas.Statistics.get (Pywbem.Model.Statistics.exitCm (s.startTimer n t1).1 (s.startTimer n t1).2 t2).1
      n).excCount = (Proofs.Lemmas.Statistics.get s n).excCount :=
  Proofs.Lemmas.Statistics.enter_exit_pair s n t1 t2 he

/-! ### the password -/

/-- str()/repr() of the connection and the 'Connection:' log record do not depend on the password when the
    credentials are the documented tuple -/
theorem C19_password_not_in_connection_text (u p p' : Str) (a b x y : Str) (r : LogRec) :
    connStr ⟨.tuple u p, a, b, x, y⟩ = connStr ⟨.tuple u p', a, b, x, y⟩ ∧
    connRepr ⟨.tuple u p, a, b, x, y⟩ = connRepr ⟨.tuple u p', a, b, x, y⟩ ∧
    r.stageConn ⟨.tuple u p, a, b, x, y⟩ = r.stageConn ⟨.tuple u p', a, b, x, y⟩ := by
  refine ⟨rfl, rfl, ?_⟩
  simp [LogRec.stageConn, connStr, connRepr, credsRepr]

/-- every credential form that IS a tuple — the documented plain tuple, a namedtuple, any other tuple subclass — is
    elided the same way; what str()/repr() show is built from the user id and the surrounding attribute texts only:
    the password is not an input of the text -/
theorem C19_password_elided_for_every_tuple_form (u p : Str) (a b x y : Str) :
    connStr ⟨.tupleSub u p, a, b, x, y⟩ = a ++ ("(".toList ++ u ++ ", ...)".toList) ++ b ∧
    connRepr ⟨.tupleSub u p, a, b, x, y⟩ = x ++ ("(".toList ++ u ++ ", ...)".toList) ++ y ∧
    connStr ⟨.tuple u p, a, b, x, y⟩ = a ++ ("(".toList ++ u ++ ", ...)".toList) ++ b ∧
    connRepr ⟨.tuple u p, a, b, x, y⟩ = x ++ ("(".toList ++ u ++ ", ...)".toList) ++ y :=
  ⟨rfl, rfl, rfl, rfl⟩

/-- … and neither of the 'Connection:' log record, for every detail level and maximum length -/
theorem C19_connection_record_independent_of_password (u p p' : Str) (a b x y : Str) (r : LogRec) :
    r.stageConn ⟨.tupleSub u p, a, b, x, y⟩ = r.stageConn ⟨.tupleSub u p', a, b, x, y⟩ := by
  simp [LogRec.stageConn, connStr, connRepr, credsRepr]

/-- "the password is not a substring of any emitted text", as far as pywbem formats the text itself: everything a
    connection with tuple credentials (any tuple form) shows in str(), repr() and its 'Connection:' record is
    literally what the same connection with the EMPTY password shows — so the password can occur in it only where
    the user id, URL or another attribute text already contains it -/
theorem C19_emitted_connection_text_is_that_of_empty_password (u p : Str) (a b x y : Str) (r : LogRec) :
    connStr ⟨.tuple u p, a, b, x, y⟩ = connStr ⟨.tuple u [], a, b, x, y⟩ ∧
    connRepr ⟨.tuple u p, a, b, x, y⟩ = connRepr ⟨.tuple u [], a, b, x, y⟩ ∧
    r.stageConn ⟨.tuple u p, a, b, x, y⟩ = r.stageConn ⟨.tuple u [], a, b, x, y⟩ ∧
    connStr ⟨.tupleSub u p, a, b, x, y⟩ = connStr ⟨.tupleSub u [], a, b, x, y⟩ ∧
    connRepr ⟨.tupleSub u p, a, b, x, y⟩ = connRepr ⟨.tupleSub u [], a, b, x, y⟩ ∧
    r.stageConn ⟨.tupleSub u p, a, b, x, y⟩ = r.stageConn ⟨.tupleSub u [], a, b, x, y⟩ := by
  refine ⟨rfl, rfl, ?_, rfl, rfl, ?_⟩ <;> simp [LogRec.stageConn, connStr, connRepr, credsRepr]

/-- … and every log record and test case of an operation is literally the one the connection with the empty
    password emits, given the transport answers alike -/
theorem C19_emitted_operation_records_are_those_of_empty_password (v : Variant) (c : Conn) (u p : Str)
    (b64 : Str → Str) (call : Call) (core : Core)
    (hsend : ∀ body hs, core.send body (hs ++ authHeader b64 (.tuple u [])) =
                        core.send body (hs ++ authHeader b64 (.tuple u p))) :
    (runOp v (withCreds c (.tuple u p)) b64 call core).events =
      (runOp v (withCreds c (.tuple u [])) b64 call core).events :=
  (runOp_creds v c (.tuple u []) (.tuple u p) b64 call core hsend).1

/-- password noninterference for an operation: two connections that differ only in the credentials emit the same
    log records and test cases and have the same outcome, provided the transport answers alike (the credentials
    reach nothing but the Authorization header handed to the transport) -/
theorem C19_password_noninterference (v : Variant) (c : Conn) (cr cr' : Creds) (b64 : Str → Str) (call : Call)
    (core : Core)
    (hsend : ∀ body hs, core.send body (hs ++ authHeader b64 cr) = core.send body (hs ++ authHeader b64 cr')) :
    (runOp v (withCreds c cr') b64 call core).events = (runOp v (withCreds c cr) b64 call core).events ∧
    (runOp v (withCreds c cr') b64 call core).outcome = (runOp v (withCreds c cr) b64 call core).outcome :=
  runOp_creds v c cr cr' b64 call core hsend

/-- open finding C19-KF5: with the credentials given as a list, the password is part of repr(conn) -/
theorem C19_password_leaks_with_list_creds :
    connRepr ⟨.list ['u'] ['p', 'w'], [], [], [], []⟩ ≠ connRepr ⟨.list ['u'] ['x', 'y'], [], [], [], []⟩ := by
  decide

/-- masking of an Authorization header in the HTTP log: only the length of the credential survives -/
theorem C19_auth_mask_hides_credential (cred cred' : Str) (h : cred.length = cred'.length)
    (hns : ' ' ∉ cred) (hns' : ' ' ∉ cred') :
    maskAuth ("Basic ".toList ++ cred) = maskAuth ("Basic ".toList ++ cred') := by
  have key : ∀ (c : Str), ' ' ∉ c → splitSpace c = [c] := by
    intro c
    induction c with
    | nil => intro _; rfl
    | cons x xs ih =>
      intro hn
      have hx : x ≠ ' ' := fun e => hn (by simp [e])
      have hxs : ' ' ∉ xs := fun e => hn (by simp [e])
      simp [splitSpace, ih hxs, hx]
  have e1 : splitSpace ("Basic ".toList ++ cred) = ["Basic".toList, cred] := by
    simp [splitSpace, key cred hns]
  have e2 : splitSpace ("Basic ".toList ++ cred') = ["Basic".toList, cred'] := by
    simp [splitSpace, key cred' hns']
  unfold maskAuth
  rw [e1, e2]
  simp only [h]

/-! ### negation witnesses for the excluded input classes (open findings) -/

/-- open finding: InvokeMethod(…, method=…) with any recorder on the connection raises TypeError, bare it succeeds -/
theorem C19_noninterference_fails_at_kwarg_method :
    outcomeExc (runOp Variant.fixed (connWith [.tcr {}] false) id
      { method := ['I', 'M'], kwargs := [⟨['m', 'e', 't', 'h', 'o', 'd'], [], .str ['x']⟩] } (okCore .none)).outcome = some "TypeError" ∧
    outcomeExc (runOp Variant.fixed (connWith [.tcr {}] false).bare id
      { method := ['I', 'M'], kwargs := [⟨['m', 'e', 't', 'h', 'o', 'd'], [], .str ['x']⟩] } (okCore .none)).outcome = none := by
  decide +kernel

/-- … and that failed operation is not counted by the statistics (raised before start_timer) -/
theorem C19_stats_once_fails_at_kwarg_method :
    ((runOp Variant.fixed (connWith [.tcr {}] true) id
      { method := ['I', 'M'], kwargs := [⟨['m', 'e', 't', 'h', 'o', 'd'], [], .str ['x']⟩] } (okCore .none)).conn.stats.get
        ['I', 'M']).count = 0 := by
  decide +kernel

/-- open finding: a plain float among the arguments makes TestClientRecorder.record raise TypeError in the
    finally clause; it replaces the successful return -/
theorem C19_noninterference_fails_at_plain_float :
    outcomeExc (runOp Variant.fixed (connWith [.tcr {}] false) id
      { method := ['G', 'I'], kwargs := [⟨['k'], [], .float ['1', '.', '5']⟩] } (okCore .none)).outcome = some "TypeError" ∧
    outcomeExc (runOp Variant.fixed (connWith [] false) id
      { method := ['G', 'I'], kwargs := [⟨['k'], [], .float ['1', '.', '5']⟩] } (okCore .none)).outcome = none := by
  decide +kernel

/-- open finding: a datetime argument ⇒ RepresenterError from yaml.dump replaces the return value -/
theorem C19_noninterference_fails_at_datetime :
    outcomeExc (runOp Variant.fixed (connWith [.tcr {}] false) id
      { method := ['I', 'M'], kwargs := [⟨['T'], [], .datetime []⟩] } (okCore .none)).outcome = some "RepresenterError" := by
  decide +kernel

/-- the defect repaired by fix dcc005f: WBEMServerResponseTime that is not a number + statistics ⇒ TypeError -/
theorem C19_noninterference_failed_before_fix_srvtime :
    outcomeExc (runOp ⟨true, true, false⟩ (connWith [] true) id { method := ['G', 'I'], kwargs := [] }
      { okCore .none with send := (fun _ _ => .response
          { status := 200, body := [60, 62],
            headers := [⟨"WBEMServerResponseTime".toList, ['a', 'b', 'c'], []⟩] }) }).outcome = some "TypeError" ∧
    outcomeExc (runOp Variant.fixed (connWith [] true) id { method := ['G', 'I'], kwargs := [] }
      { okCore .none with send := (fun _ _ => .response
          { status := 200, body := [60, 62],
            headers := [⟨"WBEMServerResponseTime".toList, ['a', 'b', 'c'], []⟩] }) }).outcome = none := by
  decide +kernel

/-- the defect repaired by fix 4ebbfcb: ill-formed UTF-8 reply + TestClientRecorder ⇒ UnicodeDecodeError
    instead of the parse error of the operation -/
theorem C19_noninterference_failed_before_fix_tcr_decode :
    outcomeExc (runOp ⟨true, false, true⟩ (connWith [.tcr {}] false) id { method := ['G', 'I'], kwargs := [] }
      { okCore .none with send := (fun _ _ => .response { status := 200, body := [60, 0xFF, 62] }),
                          parse := (fun _ => .error ⟨.py .xmlParseError, []⟩) }).outcome = some "UnicodeDecodeError" ∧
    outcomeExc (runOp Variant.fixed (connWith [.tcr {}] false) id { method := ['G', 'I'], kwargs := [] }
      { okCore .none with send := (fun _ _ => .response { status := 200, body := [60, 0xFF, 62] }),
                          parse := (fun _ => .error ⟨.py .xmlParseError, []⟩) }).outcome = some "XMLParseError" := by
  decide +kernel

end C19
