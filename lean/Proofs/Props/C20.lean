/-
C20 — ValueMapping implements the DSP0004 ValueMap/Values semantics.
ONLY property theorems, non-vacuity examples and witnesses; helper lemmas are in
Proofs/Lemmas/{IntLit,ValueMap,ValueMap2,ValueMap3,ValueMap4}.lean.  The model (Model/ValueMap.lean) mirrors
pywbem/_valuemapping.py after the fix: commits of C20; `Spec` is the short reading of the property
statement (parse every entry, resolve open ends against the neighbours' closed ends and the type
limits, `claims` = exact entry, else first enclosing range, else unclaimed).
-/
import Proofs.Lemmas.ValueMap4

namespace C20
open Pywbem.Proto Pywbem.Model.IntLit Pywbem.Model.IntLit.Dsp0004 Pywbem.Model.ValueMap Pywbem.Model.ValueMap.Spec
open Proofs.ValueMap Proofs.IntLit

/-- **Construction = spec.**  For every element (any type name, Values/ValueMap present or not, any
    strings as entries, any sizes, any values_default) `_create_for_element` fails exactly when the
    spec reading fails, and then with the same exception class. -/
theorem C20_create_fails_iff_spec_fails (e : Elem) (vd : Option Str) (x : PyExc) :
    create e vd = .error x ↔ specCreate e vd = .error x := by
  rw [create_eq_spec]
  cases h : specCreate e vd with
  | error y => simp
  | ok p => obtain ⟨ents, values⟩ := p; simp

/-- **tovalues = claims.**  When construction succeeds the spec yields resolved entries `ents` (one per
    ValueMap entry, same order) and the adjusted Values array, and for EVERY integer v (of any size)
    tovalues(v) is the Values string at the index `claims ents v` (exact entry, else first enclosing
    range with open ends resolved against the neighbours / type limits, else the unclaimed entry),
    and ValueError exactly when nobody claims v. -/
theorem C20_tovalues_is_spec (e : Elem) (vd : Option Str) (vm : VM) (h : create e vd = .ok vm) :
    ∃ ents values, specCreate e vd = .ok (ents, values) ∧ ents.length = values.length ∧
      ∀ v : Int, tovalues vm v = specToValues ents values v := by
  rw [create_eq_spec] at h
  cases hs : specCreate e vd with
  | error y => rw [hs] at h; simp at h
  | ok p =>
    obtain ⟨ents, values⟩ := p
    rw [hs] at h; simp at h; subst h
    have hl := specCreate_lengths hs
    exact ⟨ents, values, rfl, hl, fun v => by rw [tovalues_addAll, specToValues_eq_claimV _ _ hl]⟩

/-- the spec never answers IndexError: with arrays of equal length `specToValues` is a Values string or ValueError -/
theorem C20_spec_tovalues_total (ents : List Ent) (values : List Str) (hl : ents.length = values.length) (v : Int) :
    (∃ i s, claims ents v = some i ∧ values[i]? = some s ∧ specToValues ents values v = .ok s) ∨
    (claims ents v = none ∧ specToValues ents values v = .error .valueError) := by
  unfold specToValues
  cases hc : claims ents v with
  | none => right; simp
  | some i =>
    left
    have hi : i < values.length := by
      unfold claims at hc
      cases h1 : lastIdx (isExact v) ents with
      | some j => rw [h1] at hc; simp at hc; subst hc; have := lastIdx_lt _ _ _ h1; omega
      | none =>
        rw [h1] at hc; simp only at hc
        cases h2 : firstIdx (isRangeOf v) ents with
        | some j => rw [h2] at hc; simp at hc; subst hc; have := firstIdx_lt _ _ _ h2; omega
        | none => rw [h2] at hc; simp only at hc; have := lastIdx_lt _ _ _ hc; omega
    exact ⟨i, values[i], rfl, List.getElem?_eq_getElem hi, by simp [List.getElem?_eq_getElem hi]⟩

/-- **Only ModelError / ValueError escape from construction** (no IndexError, RecursionError, … for any input). -/
theorem C20_create_only_model_or_value_error (e : Elem) (vd : Option Str) (x : PyExc)
    (h : create e vd = .error x) : x = .modelError ∨ x = .valueError :=
  specCreate_error ((C20_create_fails_iff_spec_fails e vd x).mp h)

/-- tovalues raises nothing but ValueError, tobinary nothing but ValueError -/
theorem C20_lookup_only_value_error (vm : VM) (x : PyExc) :
    (∀ v, tovalues vm v = .error x → x = .valueError) ∧ (∀ s, tobinary vm s = .error x → x = .valueError) := by
  constructor
  · intro v h
    unfold tovalues at h
    cases h1 : dictGet vm.single v with
    | some s => simp [h1] at h
    | none =>
      simp only [h1] at h
      cases h2 : vm.ranges.find? (fun r => decide (r.1 ≤ v) && decide (v ≤ r.2.1)) with
      | some r => simp [h2] at h
      | none =>
        simp only [h2] at h
        cases h3 : vm.unclaimed with
        | some u => simp [h3] at h
        | none => simp [h3] at h; exact h.symm
  · intro s h
    unfold tobinary at h
    cases h1 : dictGet vm.v2b s with
    | some b => simp [h1] at h
    | none => simp [h1] at h; exact h.symm

/-- **Termination of the neighbour recursion.**  For every ValueMap array and every position, a stack
    budget of length+1 frames suffices: `_values_tuple` returns or raises ModelError — never
    RecursionError, never IndexError.  (No hypothesis: after the fix the code itself refuses open
    ends that face each other.) -/
theorem C20_values_tuple_terminates (T : IntType) (vmap : List Str) (i fuel : Nat)
    (hi : i < vmap.length) (hf : vmap.length + 1 ≤ fuel) :
    (∃ lo hi, valuesTuple T vmap fuel i = .ok (lo, hi)) ∨ valuesTuple T vmap fuel i = .error .modelError := by
  have := tuple_okOrModel T vmap i fuel hi hf
  cases h : valuesTuple T vmap fuel i with
  | ok p => left; exact ⟨p.1, p.2, rfl⟩
  | error x => right; rw [this x h]

/-- negation witness for the code BEFORE the fix: without the two guards the recursion between
    `"1.."` and `"..5"` exhausts every stack budget (the RecursionError reproduced on the unchanged tree) -/
theorem C20_unguarded_recursion_diverges (T : IntType) (fuel : Nat) :
    valuesTupleUnguarded T [['1', '.', '.'], ['.', '.', '5']] fuel 0 = .error .recursionError ∧
    valuesTupleUnguarded T [['1', '.', '.'], ['.', '.', '5']] fuel 1 = .error .recursionError := by
  have r0 : rangeMatch ['1', '.', '.'] = some (['1'], []) := by decide
  have r1 : rangeMatch ['.', '.', '5'] = some ([], ['5']) := by decide
  have t1 : toInt ['1'] = .ok 1 := by decide
  induction fuel with
  | zero => simp [valuesTupleUnguarded]
  | succ f ih =>
    obtain ⟨ih0, ih1⟩ := ih
    constructor
    · simp [valuesTupleUnguarded, r0, t1, ih1]
    · simp [valuesTupleUnguarded, r1, ih0]

/-- … while the fixed code answers ModelError for the same arrays -/
theorem C20_facing_open_ends_model_error :
    create ⟨"uint8", some ["a".toList, "b".toList], some ["1..".toList, "..5".toList]⟩ none = .error .modelError ∧
    create ⟨"uint8", some ["a".toList, "b".toList], some ["..".toList, "..5".toList]⟩ none = .error .modelError ∧
    create ⟨"uint8", some ["a".toList, "b".toList], some ["1..".toList, "..".toList]⟩ none = .error .modelError := by
  decide +kernel

/-- **items() lists every entry in qualifier order**: the i-th item is the i-th resolved ValueMap
    entry (int, (lo, hi) or None) with the i-th (adjusted) Values string; nothing is merged or dropped. -/
theorem C20_items_in_qualifier_order (e : Elem) (vd : Option Str) (vm : VM) (h : create e vd = .ok vm) :
    ∃ ents values, specCreate e vd = .ok (ents, values) ∧ ents.length = values.length ∧
      items vm = (ents.zip values).map (fun p => (entBin p.1, p.2)) := by
  rw [create_eq_spec] at h
  cases hs : specCreate e vd with
  | error y => rw [hs] at h; simp at h
  | ok p =>
    obtain ⟨ents, values⟩ := p
    rw [hs] at h; simp at h; subst h
    exact ⟨ents, values, rfl, specCreate_lengths hs, by simp [items, addAll_items]⟩

/-- **tobinary = the last entry carrying that Values string**, ValueError for a string that is not in
    the (adjusted) Values array -/
theorem C20_tobinary_is_spec (e : Elem) (vd : Option Str) (vm : VM) (h : create e vd = .ok vm) :
    ∃ ents values, specCreate e vd = .ok (ents, values) ∧
      ∀ s : Str, tobinary vm s =
        (match lastIdx (fun t => decide (t = s)) values with
         | some i => (match ents[i]? with | some en => .ok (entBin en) | none => .error .indexError)
         | none => .error .valueError) := by
  rw [create_eq_spec] at h
  cases hs : specCreate e vd with
  | error y => rw [hs] at h; simp at h
  | ok p =>
    obtain ⟨ents, values⟩ := p
    rw [hs] at h; simp at h; subst h
    have hl := specCreate_lengths hs
    refine ⟨ents, values, rfl, fun s => ?_⟩
    unfold tobinary
    rw [addAll_v2b_get, lastBin_zip s ents values hl]
    cases h1 : lastIdx (fun t => decide (t = s)) values with
    | none => simp [dictGet]
    | some i =>
      have hi : i < ents.length := by have := lastIdx_lt _ _ _ h1; omega
      simp [List.getElem?_eq_getElem hi]

/-- what it means for v to lie in a resolved entry -/
def inEnt (v : Int) : Ent → Prop
  | none => False
  | some (lo, hi) => lo ≤ v ∧ v ≤ hi

/-- **tobinary is inverse to tovalues.**  If tobinary(s) returns a value or a range, then every
    member v of it maps back to s — provided no entry with a different Values string also encloses v
    (with overlapping entries the priority rules of `claims` decide, see `C20_tovalues_is_spec`). -/
theorem C20_tobinary_inverse (e : Elem) (vd : Option Str) (vm : VM) (h : create e vd = .ok vm)
    (ents : List Ent) (values : List Str) (hs : specCreate e vd = .ok (ents, values))
    (s : Str) (i : Nat) (en : Ent) (hi : lastIdx (fun t => decide (t = s)) values = some i)
    (hen : ents[i]? = some en) (v : Int) (hv : inEnt v en)
    (hdisj : ∀ (j : Nat) en' s', ents[j]? = some en' → values[j]? = some s' → inEnt v en' → s' = s) :
    tobinary vm s = .ok (entBin en) ∧ tovalues vm v = .ok s := by
  obtain ⟨ents', values', hs', htb⟩ := C20_tobinary_is_spec e vd vm h
  rw [hs] at hs'; simp at hs'; obtain ⟨rfl, rfl⟩ := hs'
  refine ⟨by rw [htb s, hi]; simp [hen], ?_⟩
  obtain ⟨ents', values', hs', hl, htv⟩ := C20_tovalues_is_spec e vd vm h
  rw [hs] at hs'; simp at hs'; obtain ⟨rfl, rfl⟩ := hs'
  rw [htv v]
  rcases C20_spec_tovalues_total ents values hl v with ⟨j, s', hc, hsj, hok⟩ | ⟨hc, _⟩
  · rw [hok]
    -- the claiming entry j encloses v, so it carries the string s
    have hj : j < ents.length := by have := (List.getElem?_eq_some_iff.mp hsj).1; omega
    have hin : inEnt v ents[j] := by
      unfold claims at hc
      cases h1 : lastIdx (isExact v) ents with
      | some k =>
        rw [h1] at hc; simp at hc; subst hc
        obtain ⟨a, ha, hp⟩ := lastIdx_sat _ _ _ h1
        rw [List.getElem?_eq_getElem hj] at ha; simp at ha; subst ha
        cases hq : ents[k] with
        | none => rw [hq] at hp; simp [isExact] at hp
        | some q => obtain ⟨lo, hi'⟩ := q; rw [hq] at hp; simp [isExact] at hp; simp [inEnt]; omega
      | none =>
        rw [h1] at hc; simp only at hc
        cases h2 : firstIdx (isRangeOf v) ents with
        | some k =>
          rw [h2] at hc; simp at hc; subst hc
          obtain ⟨a, ha, hp⟩ := firstIdx_sat _ _ _ h2
          rw [List.getElem?_eq_getElem hj] at ha; simp at ha; subst ha
          cases hq : ents[k] with
          | none => rw [hq] at hp; simp [isRangeOf] at hp
          | some q => obtain ⟨lo, hi'⟩ := q; rw [hq] at hp; simp [isRangeOf] at hp; simp [inEnt]; omega
        | none =>
          -- nobody encloses v exactly or as a range: contradicts hv
          exfalso
          have hmem : en ∈ ents := List.mem_of_getElem? hen
          have e1 := lastIdx_none _ _ h1 en hmem
          have e2 := firstIdx_none _ _ h2 en hmem
          cases en with
          | none => exact hv
          | some q =>
            obtain ⟨lo, hi'⟩ := q
            simp [inEnt] at hv
            simp [isExact] at e1
            simp [isRangeOf] at e2
            by_cases hlh : lo = hi'
            · subst hlh; have := e1 rfl; omega
            · have := e2 hlh hv.1; omega
    have := hdisj j ents[j] s' (List.getElem?_eq_getElem hj) hsj hin
    rw [this]
  · exfalso
    unfold claims at hc
    cases h1 : lastIdx (isExact v) ents with
    | some k => rw [h1] at hc; simp at hc
    | none =>
      rw [h1] at hc; simp only at hc
      cases h2 : firstIdx (isRangeOf v) ents with
      | some k => rw [h2] at hc; simp at hc
      | none =>
        have hmem : en ∈ ents := List.mem_of_getElem? hen
        have e1 := lastIdx_none _ _ h1 en hmem
        have e2 := firstIdx_none _ _ h2 en hmem
        cases en with
        | none => exact hv
        | some q =>
          obtain ⟨lo, hi'⟩ := q
          simp [inEnt] at hv
          simp [isExact] at e1
          simp [isRangeOf] at e2
          by_cases hlh : lo = hi'
          · subst hlh; have := e1 rfl; omega
          · have := e2 hlh hv.1; omega

/-- **Size reconciliation.**  `reconcile` succeeds iff the sizes agree or values_default is given; the
    result has exactly the ValueMap's size, keeps the original Values items in place and pads with the
    default (the IndexError of the unchanged tree was a truncation at the wrong index). -/
theorem C20_reconcile_spec (values0 vmap : List Str) (vd : Option Str) :
    (∀ x, reconcile values0 vmap vd = .error x → x = .modelError ∧ vd = none ∧ values0.length ≠ vmap.length) ∧
    (∀ values, reconcile values0 vmap vd = .ok values →
        values.length = vmap.length ∧
        (∀ i, i < values0.length → i < vmap.length → values[i]? = values0[i]?) ∧
        (∀ i, values0.length ≤ i → i < vmap.length → values[i]? = vd)) := by
  constructor
  · intro x h
    unfold reconcile at h
    split at h
    · cases vd <;> simp at h; exact ⟨h.symm, rfl, by omega⟩
    · split at h
      · cases vd <;> simp at h; exact ⟨h.symm, rfl, by omega⟩
      · simp at h
  · intro values h
    refine ⟨reconcile_length h, ?_, ?_⟩
    · intro i h1 h2
      unfold reconcile at h
      split at h
      · cases vd with
        | none => simp at h
        | some d => simp at h; subst h; simp [List.getElem?_append_left h1]
      · split at h
        · cases vd with
          | none => simp at h
          | some d => simp at h; subst h; simp [h2]
        · simp at h; subst h; rfl
    · intro i h1 h2
      unfold reconcile at h
      split at h
      · cases vd with
        | none => simp at h
        | some d =>
          simp at h; subst h
          rw [List.getElem?_append_right h1]
          simp [List.getElem?_replicate]; omega
      · omega


/-- **Entry parsing = the declarative entry grammar**: an entry is accepted (and read as `r`) iff it is
    ".." , an integer literal, or `[literal] ".." [literal]` with at least one end given — the regular
    expression `^(.*)\.\.(.*)\Z` (greedy split at the last "..", no newline) adds and loses nothing. -/
theorem C20_entry_grammar (s : Str) (r : Raw) : parseEntry s = some r ↔ IsEntry s r :=
  parseEntry_iff_isEntry s r

/-- **No ValueMap qualifier ⇒ DSP0004 default of 0-based consecutive numbers**: for every integer type,
    every Values array and every values_default the resolved entries are exactly 0, 1, …, n-1. -/
theorem C20_no_valuemap_default (typ : String) (T : IntType) (hT : intTypeOf typ = some T) (vals : List Str)
    (vd : Option Str) :
    specCreate ⟨typ, some vals, none⟩ vd =
      .ok ((List.range vals.length).map (fun (i : Nat) => some ((i : Int), (i : Int))), vals) :=
  specCreate_default typ T hT vals vd

/-- non-vacuity: a default mapping of three strings on a sint8 element -/
example : (match create ⟨"sint8", some ["a".toList, "b".toList, "c".toList], none⟩ none with
           | .ok vm => decide (tovalues vm 2 = .ok "c".toList ∧ tovalues vm 3 = .error .valueError ∧
                               tovalues vm (-1) = .error .valueError)
           | .error _ => false) = true := by decide +kernel

/-! ### integer literals of ValueMap entries vs the DSP0004 grammar -/

/-- **The recogniser accepts only DSP0004 integerValue strings, with the DSP0004 value** (binary, octal,
    decimal, hex; optional sign; value = positional value of the digits). -/
theorem C20_intlit_sound (s : Str) (v : Int) (h : integerValueToInt s = some v) : IsIntegerValue s v :=
  intlit_sound h

/-- **… and accepts every DSP0004 integerValue — partial**: except octal literals with a digit 0 after
    the leading 0 (known finding C20-KF1; OCTAL_VALUE has the digit class [1-7]).
    Full statement (fails, next theorem): `∀ s v, IsIntegerValue s v → integerValueToInt s = some v`. -/
theorem C20_intlit_complete_partial (s : Str) (v : Int) (h : IsIntegerValue s v) (hk : ¬ OctalWithZeroDigit s) :
    integerValueToInt s = some v :=
  intlit_complete_partial h hk

theorem C20_intlit_complete_fails_at : ¬ (∀ s v, IsIntegerValue s v → integerValueToInt s = some v) := by
  intro h
  have := h _ _ intlit_octal_zero_witness.1
  rw [intlit_octal_zero_witness.2.1] at this
  cases this

/-- non-vacuity of the hypothesis: a literal outside the excluded class, one inside -/
example : ¬ OctalWithZeroDigit ['0', '1', '7'] := by
  rintro ⟨sg, ds, h1, _, _, h4⟩
  cases sg <;> simp [Sign.chars] at h1
  subst h1; simp at h4
example : integerValueToInt "-0x1F".toList = some (-31) ∧ integerValueToInt "+101b".toList = some 5 ∧
    integerValueToInt "017".toList = some 15 ∧ integerValueToInt "08".toList = none := by decide

/-! ### NULL-valued qualifiers (known finding C20-KF2) -/

/-- `createQ` (qualifier values may be NULL) is `create` whenever no qualifier value is NULL -/
theorem C20_createQ_eq_create (e : ElemQ) (vd : Option Str)
    (hn : e.values ≠ some none ∧ e.valuemap ≠ some none) :
    createQ e vd = create ⟨e.typ, e.values.bind id, e.valuemap.bind id⟩ vd := by
  obtain ⟨typ, values, valuemap⟩ := e
  unfold createQ
  cases hT : intTypeOf typ with
  | none => simp [create, hT]
  | some T =>
    simp only
    cases values with
    | none => simp [create, hT]
    | some vo =>
      cases vo with
      | none => simp at hn
      | some vals =>
        cases valuemap with
        | none => simp
        | some mo =>
          cases mo with
          | none => simp at hn
          | some m => simp

/-- **only ModelError / ValueError escape — partial**: for elements without NULL-valued qualifiers.
    Full statement (fails, next theorem): no hypothesis `hn`. -/
theorem C20_createQ_only_model_or_value_error_partial (e : ElemQ) (vd : Option Str)
    (hn : e.values ≠ some none ∧ e.valuemap ≠ some none) (x : PyExc) (h : createQ e vd = .error x) :
    x = .modelError ∨ x = .valueError := by
  rw [C20_createQ_eq_create e vd hn] at h
  exact C20_create_only_model_or_value_error _ vd x h

theorem C20_createQ_null_value_leaks_fails_at :
    ¬ (∀ (e : ElemQ) (vd : Option Str) (x : PyExc), createQ e vd = .error x → x = .modelError ∨ x = .valueError) := by
  intro h
  have := h ⟨"uint8", some none, none⟩ none .typeError (by decide)
  simp at this

/-- the integer type limits regenerated from pywbem/_cim_types.py are the DSP0004 ones -/
theorem C20_int_type_limits :
    Pywbem.Generated.IntTypesVM.table =
      [("uint8", 0, 2 ^ 8 - 1), ("sint8", -2 ^ 7, 2 ^ 7 - 1), ("uint16", 0, 2 ^ 16 - 1), ("sint16", -2 ^ 15, 2 ^ 15 - 1),
       ("uint32", 0, 2 ^ 32 - 1), ("sint32", -2 ^ 31, 2 ^ 31 - 1), ("uint64", 0, 2 ^ 64 - 1), ("sint64", -2 ^ 63, 2 ^ 63 - 1)] := by
  decide

/-- the class docstring example of pywbem/_valuemapping.py -/
def docExample : Elem := ⟨"uint16",
  some ["zero".toList, "two-four".toList, "five-six".toList, "seven-eight".toList, "nine".toList, "unclaimed".toList],
  some ["0".toList, "2..4".toList, "..6".toList, "7..".toList, "9".toList, "..".toList]⟩

/-- non-vacuity / concrete instance: the docstring example, all values 0..11, two tobinary calls, items -/
theorem C20_docstring_example :
    (match create docExample none with
     | .error _ => false
     | .ok vm =>
       decide ((List.range 12).map (fun n => tovalues vm (Int.ofNat n)) =
         ["zero", "unclaimed", "two-four", "two-four", "two-four", "five-six", "five-six", "seven-eight", "seven-eight",
          "nine", "unclaimed", "unclaimed"].map (fun s => .ok s.toList)) &&
       decide (tobinary vm "five-six".toList = .ok (.range 5 6)) &&
       decide (tobinary vm "unclaimed".toList = .ok .unclaimed) &&
       decide ((items vm).map (·.1) = [.single 0, .range 2 4, .range 5 6, .range 7 8, .single 9, .unclaimed])) = true := by
  decide +kernel

end C20
